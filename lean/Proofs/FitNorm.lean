/- Proofs/FitNorm.lean — **the slice of the step the Fitter emits is in normal form** (`fnorm`: no empty
   text node, no two adjacent text nodes with equal marks, at every level) whenever the request slice's
   content is.  Invariant of the loop of `fit`: `fnorm placed ∧ fnorm unplaced.content`.
   `placed` grows through `addToFragment` only (`fappend` at the open level: `fappend_norm`); what is added is
   (a) children of the unplaced slice with filtered marks, closed at the start (`closeNodeStart_norm`) and
   passed through `fromArray` (joins the texts filtering made equal-marked: `fromArray_norm`), (b) fillers
   (text-free, Proofs/FitDeleteNorm.lean), (c) re-opened ancestors with text-free content. -/
import Proofs.FitDeleteNorm
import Proofs.TokCore
namespace PM
open PM

/-! ### nodes -/

theorem fnorm_nil : fnorm [] = true := by simp [fnorm, fnormKids, chainOk]

theorem norm_elem (t : TypeId) (a : Attrs) (m : Marks) (k : List Node) :
    (Node.elem t a m k).norm = fnorm k := by simp [Node.norm, fnorm]

theorem fnorm_kids_of_norm (n : Node) (h : n.norm = true) : fnorm n.kids = true := by
  cases n with
  | text s m => exact fnorm_nil
  | leaf t a m => exact fnorm_nil
  | elem t a m k => simpa [Node.kids, norm_elem] using h

theorem norm_withKids (n : Node) (k : List Node) (hn : n.norm = true) (hk : fnorm k = true) :
    (n.withKids k).norm = true := by
  cases n with
  | text s m => simpa [Node.withKids] using hn
  | leaf t a m => simp [Node.withKids]
  | elem t a m k0 => simpa [Node.withKids, norm_elem] using hk

theorem norm_withMarks (n : Node) (m : Marks) (hn : n.norm = true) : (n.withMarks m).norm = true := by
  cases n with
  | text s m0 => simpa [Node.withMarks, Node.norm] using hn
  | leaf t a m0 => simp [Node.withMarks]
  | elem t a m0 k => simpa [Node.withMarks, Node.norm] using hn

theorem sameKind_withKids (n : Node) (k : List Node) : sameKind n (n.withKids k) := by
  cases n with
  | text s m => exact sameKind_refl _
  | leaf t a m => exact sameKind_refl _
  | elem t a m k0 => exact ⟨fun x => by cases x <;> simp [Node.withKids, adjOk], fun y => by cases y <;> simp [Node.withKids, adjOk]⟩

theorem fnorm_cons_iff (n : Node) (ns : List Node) :
    fnorm (n :: ns) = (n.norm && fnormKids ns && chainOk (n :: ns)) := by
  simp [fnorm, fnormKids]

theorem fnorm_split {l : List Node} (h : fnorm l = true) : fnormKids l = true ∧ chainOk l = true := by
  simpa [fnorm] using h

theorem fnorm_mk {l : List Node} (h1 : fnormKids l = true) (h2 : chainOk l = true) : fnorm l = true := by
  simp [fnorm, h1, h2]

theorem fnormKids_mem : ∀ (l : List Node), fnormKids l = true → ∀ n ∈ l, n.norm = true
  | [], _, n, hn => by simp at hn
  | x :: xs, h, n, hn => by
    simp only [fnormKids, Bool.and_eq_true] at h
    rcases List.mem_cons.mp hn with rfl | hm
    · exact h.1
    · exact fnormKids_mem xs h.2 n hm

theorem fnorm_drop (l : List Node) (k : Nat) (h : fnorm l = true) : fnorm (l.drop k) = true := by
  have h' : fnorm (l.take k ++ l.drop k) = true := by rw [List.take_append_drop]; exact h
  obtain ⟨h1, h2⟩ := fnorm_split h'
  rw [fnormKids_append] at h1
  rw [chainOk_append] at h2
  simp only [Bool.and_eq_true] at h1 h2
  exact fnorm_mk h1.2 h2.1.2

/-- replacing the first node by one of the same kind -/
theorem fnorm_head_sameKind {n n' : Node} (hk : sameKind n n') (rest : List Node)
    (h : fnorm (n :: rest) = true) (hn : n'.norm = true) : fnorm (n' :: rest) = true := by
  rw [fnorm_cons_iff] at h ⊢
  simp only [Bool.and_eq_true] at h ⊢
  refine ⟨⟨hn, h.1.2⟩, ?_⟩
  rw [chainOk_cons_sameKind hk]; exact h.2

/-- replacing the last node by one of the same kind -/
theorem fnorm_last_sameKind {n n' : Node} (hk : sameKind n n') (pre : List Node)
    (h : fnorm (pre ++ [n]) = true) (hn : n'.norm = true) : fnorm (pre ++ [n']) = true := by
  obtain ⟨h1, h2⟩ := fnorm_split h
  rw [fnormKids_append] at h1
  rw [chainOk_append] at h2
  simp only [Bool.and_eq_true] at h1 h2
  apply fnorm_mk
  · rw [fnormKids_append]; simp [h1.1, fnormKids, hn]
  · rw [chainOk_append]
    simp only [Bool.and_eq_true]
    refine ⟨⟨h2.1.1, by simp [chainOk]⟩, ?_⟩
    simp only [List.head?_cons] at h2 ⊢
    rw [seamOk_sameKind_right hk]; exact h2.2

theorem norm_mkNode (S : Schema) (ty : TypeId) (a : Attrs) (m : Marks) (k : List Node)
    (hk : fnorm k = true) : (S.mkNodeO ty a m k).norm = true := by
  unfold Schema.mkNodeO
  split
  · simp [Node.norm]
  · rw [norm_elem]; exact hk

/-! ### the fragment helpers -/

theorem contentAt_norm : ∀ (d : Nat) (frag r : List Node), contentAt frag d = .ok r → fnorm frag = true →
    fnorm r = true
  | 0, frag, r, h, hf => by
    have := pure_ok h
    subst this; exact hf
  | d + 1, frag, r, h, hf => by
    unfold contentAt at h
    split at h
    · simp [throw, throwThe, MonadExceptOf.throw] at h
    · rename_i n rest
      rw [fnorm_cons_iff] at hf
      simp only [Bool.and_eq_true] at hf
      exact contentAt_norm d n.kids r h (fnorm_kids_of_norm n hf.1.1)

theorem dropFromFragment_norm : ∀ (d : Nat) (frag : List Node) (count : Nat) (r : List Node),
    dropFromFragment frag d count = .ok r → fnorm frag = true → fnorm r = true
  | 0, frag, count, r, h, hf => by
    have := pure_ok h
    subst this; exact fnorm_drop _ _ hf
  | d + 1, frag, count, r, h, hf => by
    unfold dropFromFragment at h
    split at h
    · rename_i t a m kids rest
      obtain ⟨inner, hi, h⟩ := FM.bind_ok h
      have := pure_ok h
      subst this
      have hk : fnorm kids = true := by
        rw [fnorm_cons_iff] at hf
        simp only [Bool.and_eq_true, norm_elem] at hf
        exact hf.1.1
      have ih := dropFromFragment_norm d kids count inner hi hk
      exact fnorm_head_sameKind (sameKind_elem t a m kids inner) rest hf (by rw [norm_elem]; exact ih)
    · simp [throw, throwThe, MonadExceptOf.throw] at h

theorem addToFragment_norm : ∀ (d : Nat) (frag c r : List Node),
    addToFragment frag d c = .ok r → fnorm frag = true → fnorm c = true → fnorm r = true
  | 0, frag, c, r, h, hf, hc => by
    have := pure_ok h
    subst this
    exact fappend_norm _ _ hf hc
  | d + 1, frag, c, r, h, hf, hc => by
    unfold addToFragment at h
    split at h
    · rename_i t a m kids hl
      obtain ⟨inner, hi, h⟩ := FM.bind_ok h
      have := pure_ok h
      subst this
      have hfrag : frag = frag.dropLast ++ [Node.elem t a m kids] := by
        obtain ⟨ys, rfl⟩ := List.getLast?_eq_some_iff.mp hl
        simp
      rw [hfrag] at hf
      have hk : fnorm kids = true := by
        have := (fnorm_split hf).1
        rw [fnormKids_append] at this
        simp only [fnormKids, norm_elem, Bool.and_eq_true, Bool.and_true] at this
        exact this.2
      have ih := addToFragment_norm d kids c inner hi hk hc
      exact fnorm_last_sameKind (sameKind_elem t a m kids inner) _ hf (by rw [norm_elem]; exact ih)
    · simp [throw, throwThe, MonadExceptOf.throw] at h

/-! ### frontier operations -/

theorem closeFrontierNode_norm (S : Schema) (fr : List FItem) (placed : List Node)
    (r : List FItem × List Node) (h : closeFrontierNode S fr placed = .ok r)
    (hp : fnorm placed = true) : fnorm r.2 = true := by
  unfold closeFrontierNode at h
  split at h
  · simp [throw, throwThe, MonadExceptOf.throw] at h
  · obtain ⟨q, _, h⟩ := FM.bind_ok h
    obtain ⟨add, hadd, h⟩ := FM.bind_ok h
    cases add with
    | none =>
      have := pure_ok h
      subst this; exact hp
    | some a =>
      simp only at h
      split at h
      · have := pure_ok h
        subst this; exact hp
      · obtain ⟨p, hp', h⟩ := FM.bind_ok h
        have := pure_ok h
        subst this
        exact addToFragment_norm _ _ _ _ hp' hp (fnorm_textFree _ (fillOpt_textFree S _ _ _ _ _ hadd))

theorem closeMany_norm (S : Schema) : ∀ (n : Nat) (fr : List FItem) (placed : List Node)
    (r : List FItem × List Node), closeMany S n fr placed = .ok r → fnorm placed = true →
    fnorm r.2 = true
  | 0, fr, placed, r, h, hp => by
    have := pure_ok h
    subst this; exact hp
  | n + 1, fr, placed, r, h, hp => by
    unfold closeMany at h
    obtain ⟨x, hx, h⟩ := FM.bind_ok h
    exact closeMany_norm S n _ _ r h (closeFrontierNode_norm S fr placed x hx hp)

theorem openFrontierNode_norm (S : Schema) (fr : List FItem) (placed : List Node) (ty : TypeId)
    (attrs : Option Attrs) (content : List Node) (hc : fnorm content = true)
    (r : List FItem × List Node) (h : openFrontierNode S fr placed ty attrs content = .ok r)
    (hp : fnorm placed = true) : fnorm r.2 = true := by
  unfold openFrontierNode at h
  obtain ⟨top, _, h⟩ := FM.bind_ok h
  obtain ⟨q, _, h⟩ := FM.bind_ok h
  obtain ⟨node, hnode, h⟩ := FM.bind_ok h
  obtain ⟨p', hp', h⟩ := FM.bind_ok h
  have := pure_ok h
  subst this
  have hn : node.norm = true := by
    unfold Schema.createNodeO at hnode
    split at hnode
    · simp [throw, throwThe, MonadExceptOf.throw] at hnode
    · split at hnode
      · have := pure_ok hnode
        subst this
        exact norm_mkNode S _ _ _ _ hc
      · simp [throw, throwThe, MonadExceptOf.throw] at hnode
  exact addToFragment_norm _ _ _ _ hp' hp (by simp [fnorm, fnormKids, chainOk, hn])

theorem openMany_norm (S : Schema) : ∀ (ws : List TypeId) (fr : List FItem) (placed : List Node)
    (r : List FItem × List Node), openMany S ws fr placed = .ok r → fnorm placed = true →
    fnorm r.2 = true
  | [], fr, placed, r, h, hp => by
    have := pure_ok h
    subst this; exact hp
  | w :: ws, fr, placed, r, h, hp => by
    unfold openMany at h
    obtain ⟨x, hx, h⟩ := FM.bind_ok h
    exact openMany_norm S ws _ _ r h (openFrontierNode_norm S fr placed w none [] fnorm_nil x hx hp)

/-! ### `close_node_start` -/

theorem closeNodeStart_sameKind (S : Schema) (os : Nat) (node : Node) (oe : Int) (r : Node)
    (h : closeNodeStart S os node oe = .ok r) : sameKind node r := by
  cases os with
  | zero =>
    have := pure_ok h
    subst this; exact sameKind_refl _
  | succ os =>
    unfold closeNodeStart at h
    simp only at h
    obtain ⟨frag, _, h⟩ := FM.bind_ok h
    obtain ⟨fill, _, h⟩ := FM.bind_ok h
    obtain ⟨fill', _, h⟩ := FM.bind_ok h
    obtain ⟨tail, _, h⟩ := FM.bind_ok h
    have := pure_ok h
    subst this
    exact sameKind_withKids _ _

theorem closeNodeStart_norm (S : Schema) : ∀ (os : Nat) (node : Node) (oe : Int) (r : Node),
    closeNodeStart S os node oe = .ok r → node.norm = true → r.norm = true
  | 0, node, oe, r, h, hn => by
    have := pure_ok h
    subst this; exact hn
  | os + 1, node, oe, r, h, hn => by
    unfold closeNodeStart at h
    simp only at h
    obtain ⟨frag, hfrag, h⟩ := FM.bind_ok h
    obtain ⟨fill, hfill, h⟩ := FM.bind_ok h
    obtain ⟨fill', hfill', h⟩ := FM.bind_ok h
    obtain ⟨tail, htail, h⟩ := FM.bind_ok h
    have := pure_ok h
    subst this
    have hkids := fnorm_kids_of_norm node hn
    have hf : fnorm frag = true := by
      split at hfrag
      · have := pure_ok hfrag
        subst this; exact hkids
      · split at hfrag
        · simp [throw, throwThe, MonadExceptOf.throw] at hfrag
        · rename_i c rest hk
          obtain ⟨c', hc', hfrag⟩ := FM.bind_ok hfrag
          have := pure_ok hfrag
          subst this
          rw [hk] at hkids
          have hcn : c.norm = true := by
            rw [fnorm_cons_iff] at hkids
            simp only [Bool.and_eq_true] at hkids
            exact hkids.1.1
          exact fnorm_head_sameKind (closeNodeStart_sameKind S os c _ c' hc') rest hkids
            (closeNodeStart_norm S os c _ c' hc' hcn)
    have hfl : fnorm fill' = true := by
      have := liftRaise_ok hfill'
      subst this
      exact fnorm_textFree _ (fillOpt_textFree S _ _ _ _ _ hfill)
    have htl : fnorm tail = true := by
      split at htail
      · obtain ⟨q, _, htail⟩ := FM.bind_ok htail
        obtain ⟨f2, hf2, htail⟩ := FM.bind_ok htail
        have := liftRaise_ok htail
        subst this
        exact fnorm_textFree _ (fillOpt_textFree S _ _ _ _ _ hf2)
      · have := pure_ok htail
        subst this; exact fnorm_nil
    exact norm_withKids _ _ hn (fappend_norm _ _ (fappend_norm _ _ hfl hf) htl)

/-! ### `place_nodes` -/

theorem takeLoop_norm (S : Schema) (d : Dfa) (frontTy : TypeId) (openStart : Nat) (oec : Int) (total : Nat) :
    ∀ (frag : List Node) (taken q : Nat) (add : List Node) (r : Nat × Nat × List Node),
    takeLoop S d frontTy openStart oec total frag taken q add = .ok r →
    fnormKids frag = true → fnormKids add = true → fnormKids r.2.2 = true
  | [], taken, q, add, r, h, _, ha => by
    have := pure_ok h
    subst this; exact ha
  | next :: rest, taken, q, add, r, h, hf, ha => by
    unfold takeLoop at h
    simp only [fnormKids, Bool.and_eq_true] at hf
    split at h
    · have := pure_ok h
      subst this; exact ha
    · simp only at h
      split at h
      · obtain ⟨n, hn, h⟩ := FM.bind_ok h
        refine takeLoop_norm S d frontTy openStart oec total rest _ _ _ r h hf.2 ?_
        rw [fnormKids_append]
        simp [fnormKids, ha, closeNodeStart_norm S _ _ _ n hn (norm_withMarks _ _ hf.1)]
      · exact takeLoop_norm S d frontTy openStart oec total rest _ _ _ r h hf.2 ha

theorem placeRest_norm (slice : Slice) (sd taken : Nat) (toEnd : Bool) (oec : Int) (u' : Slice)
    (h : placeRest slice sd taken toEnd oec = .ok u') (hs : fnorm slice.content = true) :
    fnorm u'.content = true := by
  unfold placeRest at h
  split at h
  · obtain ⟨c, hc, h⟩ := FM.bind_ok h
    have := pure_ok h
    subst this
    exact dropFromFragment_norm _ _ _ _ hc hs
  · split at h
    · have := pure_ok h
      subst this
      exact fnorm_nil
    · obtain ⟨c, hc, h⟩ := FM.bind_ok h
      have := pure_ok h
      subst this
      exact dropFromFragment_norm _ _ _ _ hc hs

/-- what `find_fittable` returns: the injected filling holds no text node -/
theorem frontierHit_inject (S : Schema) (pass2 : Bool) (sd : Nat) (parent first : Option Node)
    (it : FItem) (fd : Nat) (f : Fittable) (h : frontierHit S pass2 sd parent first it fd = .ok (some f)) :
    ∀ inj, f.inject = some inj → textFreeKids inj = true := by
  unfold frontierHit at h
  simp only at h
  split at h
  · split at h
    · obtain ⟨q, _, h⟩ := FM.bind_ok h
      split at h
      · have := pure_ok h
        simp only [Option.some.injEq] at this
        subst this
        exact fun inj hi => by simp at hi
      · obtain ⟨inj, hinj, h⟩ := FM.bind_ok h
        cases inj with
        | none => simp [pure, Except.pure] at h
        | some inj =>
          have := pure_ok h
          simp only [Option.some.injEq] at this
          subst this
          intro inj' hi
          simp only [Option.some.injEq] at hi
          subst hi
          exact fillOpt_textFree S _ _ _ _ _ hinj
    · split at h
      · split at h
        · have := pure_ok h
          simp only [Option.some.injEq] at this
          subst this
          exact fun inj hi => by simp at hi
        · simp [pure, Except.pure] at h
      · simp [pure, Except.pure] at h
  · split at h
    · obtain ⟨q, _, h⟩ := FM.bind_ok h
      split at h
      · have := pure_ok h
        simp only [Option.some.injEq] at this
        subst this
        exact fun inj hi => by simp at hi
      · simp [pure, Except.pure] at h
    · simp [pure, Except.pure] at h

theorem scanFrontier_inject (S : Schema) (pass2 : Bool) (sd : Nat) (parent first : Option Node)
    (fr : List FItem) : ∀ (n : Nat) (f : Fittable),
    scanFrontier S pass2 sd parent first fr n = .ok (some f) →
    ∀ inj, f.inject = some inj → textFreeKids inj = true
  | 0, f, h => by simp [scanFrontier, pure, Except.pure] at h
  | fd + 1, f, h => by
    unfold scanFrontier at h
    obtain ⟨it, _, h⟩ := FM.bind_ok h
    obtain ⟨hit, hhit, h⟩ := FM.bind_ok h
    cases hit with
    | some g =>
      have := pure_ok h
      simp only [Option.some.injEq] at this
      subst this
      exact frontierHit_inject S pass2 sd parent first it fd g hhit
    | none =>
      simp only at h
      obtain ⟨brk, _, h⟩ := FM.bind_ok h
      cases brk with
      | true => simp [pure, Except.pure] at h
      | false => exact scanFrontier_inject S pass2 sd parent first fr fd f h

theorem scanSlice_inject (S : Schema) (pass2 : Bool) (u : Slice) (fr : List FItem) :
    ∀ (n : Nat) (f : Fittable), scanSlice S pass2 u fr n = .ok (some f) →
    ∀ inj, f.inject = some inj → textFreeKids inj = true
  | 0, f, h => by simp [scanSlice, pure, Except.pure] at h
  | sd + 1, f, h => by
    unfold scanSlice at h
    obtain ⟨lvl, hlvl, h⟩ := FM.bind_ok h
    obtain ⟨r, hr, h⟩ := FM.bind_ok h
    cases r with
    | none => exact scanSlice_inject S pass2 u fr sd f h
    | some g =>
      have := pure_ok h
      simp only [Option.some.injEq] at this
      subst this
      exact scanFrontier_inject S pass2 sd lvl.1 lvl.2.head? fr _ g hr

theorem findFittable_inject (S : Schema) (st : FitState) (f : Fittable)
    (h : findFittable S st = .ok (some f)) : ∀ inj, f.inject = some inj → textFreeKids inj = true := by
  unfold findFittable at h
  simp only at h
  obtain ⟨sd, _, h⟩ := FM.bind_ok h
  obtain ⟨r, hr, h⟩ := FM.bind_ok h
  cases r with
  | some g =>
    have := pure_ok h
    simp only [Option.some.injEq] at this
    subst this
    exact scanSlice_inject S false _ _ _ g hr
  | none => exact scanSlice_inject S true _ _ _ f h

/-- the fragment `place_nodes` takes its nodes from is in normal form -/
theorem fragment_norm (u : Slice) (fit : Fittable) (hfit : FitOK u fit) (hu : fnorm u.content = true) :
    fnorm (fit.fragment u) = true := by
  unfold Fittable.fragment
  rcases hfit.1 with ⟨_, hp⟩ | ⟨_, p, rest, hc, hp⟩
  · rw [hp]; exact hu
  · rw [hp]
    have := contentAt_norm _ _ _ hc hu
    rw [fnorm_cons_iff] at this
    simp only [Bool.and_eq_true] at this
    exact fnorm_kids_of_norm p this.1.1

theorem ite_close_norm (S : Schema) (b : Bool) (fr : List FItem) (placed : List Node)
    (c3 : List FItem × List Node)
    (h : (if b = true then closeFrontierNode S fr placed else pure (fr, placed)) = .ok c3)
    (hp : fnorm placed = true) : fnorm c3.2 = true := by
  split at h
  · exact closeFrontierNode_norm S _ _ c3 h hp
  · have := pure_ok h
    subst this; exact hp

theorem placeNodes_norm (S : Schema) (st : FitState) (fit : Fittable) (st' : FitState)
    (hfit : FitOK st.unplaced fit) (hinj : ∀ inj, fit.inject = some inj → textFreeKids inj = true)
    (h : placeNodes S st fit = .ok st')
    (hp : fnorm st.placed = true) (hu : fnorm st.unplaced.content = true) :
    fnorm st'.placed = true ∧ fnorm st'.unplaced.content = true := by
  unfold placeNodes at h
  obtain ⟨c1, hc1, h⟩ := FM.bind_ok h
  obtain ⟨c2, hc2, h⟩ := FM.bind_ok h
  simp only at h
  obtain ⟨item, _, h⟩ := FM.bind_ok h
  obtain ⟨q0, _, h⟩ := FM.bind_ok h
  obtain ⟨q1, _, h⟩ := FM.bind_ok h
  obtain ⟨tk, htk, h⟩ := FM.bind_ok h
  obtain ⟨placed, hpl, h⟩ := FM.bind_ok h
  obtain ⟨top, _, h⟩ := FM.bind_ok h
  obtain ⟨c3, hc3, h⟩ := FM.bind_ok h
  obtain ⟨fr, _, h⟩ := FM.bind_ok h
  obtain ⟨unplaced, hun, h⟩ := FM.bind_ok h
  have := pure_ok h
  subst this
  have h1 := closeMany_norm S _ _ _ c1 hc1 hp
  have h2 := openMany_norm S _ _ _ c2 hc2 h1
  have hadd0 : fnormKids (fit.inject.getD []) = true := by
    cases hi : fit.inject with
    | none => simp
    | some inj => exact fnormKids_textFree _ (hinj inj hi)
  have hfrag := fragment_norm st.unplaced fit hfit hu
  have htkn := takeLoop_norm S _ _ _ _ _ _ _ _ _ tk htk (fnorm_split hfrag).1 hadd0
  have h3 := addToFragment_norm _ _ _ _ hpl h2 (fromArray_norm _ htkn)
  exact ⟨ite_close_norm S _ _ _ c3 hc3 h3, placeRest_norm _ _ _ _ _ _ hun hu⟩

/-! ### the loop of `fit` -/

theorem openMore_norm (st st' : FitState) (h : openMore st = .ok (some st')) :
    st'.placed = st.placed ∧ st'.unplaced.content = st.unplaced.content := by
  unfold openMore at h
  simp only at h
  obtain ⟨inner, _, h⟩ := FM.bind_ok h
  split at h
  · simp [pure, Except.pure] at h
  · split at h
    · simp [pure, Except.pure] at h
    · have := pure_ok h
      simp only [Option.some.injEq] at this
      subst this
      exact ⟨rfl, rfl⟩

theorem dropNode_norm (st st' : FitState) (h : dropNode st = .ok st')
    (hu : fnorm st.unplaced.content = true) :
    st'.placed = st.placed ∧ fnorm st'.unplaced.content = true := by
  unfold dropNode at h
  simp only at h
  obtain ⟨inner, _, h⟩ := FM.bind_ok h
  split at h
  · obtain ⟨c, hc, h⟩ := FM.bind_ok h
    have := pure_ok h
    subst this
    exact ⟨rfl, dropFromFragment_norm _ _ _ _ hc hu⟩
  · obtain ⟨c, hc, h⟩ := FM.bind_ok h
    have := pure_ok h
    subst this
    exact ⟨rfl, dropFromFragment_norm _ _ _ _ hc hu⟩

/-- the invariant: what is placed and what is still to be placed are in normal form -/
def NormInv (st : FitState) : Prop := fnorm st.placed = true ∧ fnorm st.unplaced.content = true

theorem fitStep_norm (S : Schema) (st st' : FitState) (h : fitStep S st = .ok st') (hi : NormInv st) :
    NormInv st' := by
  unfold fitStep at h
  obtain ⟨f, hf, h⟩ := FM.bind_ok h
  cases f with
  | some f =>
    exact placeNodes_norm S st f st' (findFittable_spec S st f hf) (findFittable_inject S st f hf) h hi.1 hi.2
  | none =>
    simp only at h
    obtain ⟨o, ho, h⟩ := FM.bind_ok h
    cases o with
    | some st1 =>
      have := pure_ok h
      subst this
      obtain ⟨e1, e2⟩ := openMore_norm st _ ho
      exact ⟨e1 ▸ hi.1, e2 ▸ hi.2⟩
    | none =>
      obtain ⟨e1, e2⟩ := dropNode_norm st st' h hi.2
      exact ⟨e1 ▸ hi.1, e2⟩

theorem fitLoop_norm (S : Schema) : ∀ (fuel : Nat) (st st' : FitState), fitLoop S fuel st = .ok st' →
    NormInv st → NormInv st'
  | 0, st, st', h, hi => by
    unfold fitLoop at h
    split at h
    · have := pure_ok h
      subst this; exact hi
    · simp [throw, throwThe, MonadExceptOf.throw] at h
  | fuel + 1, st, st', h, hi => by
    unfold fitLoop at h
    split at h
    · have := pure_ok h
      subst this; exact hi
    · obtain ⟨st1, h1, h⟩ := FM.bind_ok h
      exact fitLoop_norm S fuel st1 st' h (fitStep_norm S st st1 h1 hi)

/-! ### `close` and the emitted step -/

theorem reopen_norm (S : Schema) (mv : RPos) : ∀ (n d : Nat) (fr : List FItem) (placed : List Node)
    (r : List FItem × List Node), reopen S mv n d fr placed = .ok r → fnorm placed = true →
    fnorm r.2 = true
  | 0, d, fr, placed, r, h, hp => by
    have := pure_ok h
    subst this; exact hp
  | n + 1, d, fr, placed, r, h, hp => by
    unfold reopen at h
    simp only at h
    obtain ⟨add, hadd, h⟩ := FM.bind_ok h
    obtain ⟨x, hx, h⟩ := FM.bind_ok h
    have hc : textFreeKids (add.getD []) = true := by
      cases add with
      | none => rfl
      | some a => exact fillOpt_textFree S _ _ _ _ _ hadd
    exact reopen_norm S mv n _ _ _ r h
      (openFrontierNode_norm S fr placed _ _ _ (fnorm_textFree _ hc) x hx hp)

theorem closeFit_norm (S : Schema) (doc : Node) (rt : RPos) (fr : List FItem) (placed : List Node)
    (mv : RPos) (p : List Node) (h : closeFit S doc rt fr placed = .ok (some (mv, p)))
    (hp : fnorm placed = true) : fnorm p = true := by
  unfold closeFit at h
  obtain ⟨r, hr, h⟩ := FM.bind_ok h
  cases r with
  | none => simp [pure, Except.pure] at h
  | some lv =>
    simp only at h
    obtain ⟨c1, hc1, h⟩ := FM.bind_ok h
    obtain ⟨pl, hpl, h⟩ := FM.bind_ok h
    obtain ⟨c2, hc2, h⟩ := FM.bind_ok h
    have := pure_ok h
    simp only [Option.some.injEq, Prod.mk.injEq] at this
    rw [← this.2]
    apply reopen_norm S _ _ _ _ _ c2 hc2
    have hfit : textFreeKids lv.fit = true := findCloseLevelLoop_fit_textFree S doc rt fr _ lv hr
    have h1 := closeMany_norm S _ _ _ c1 hc1 hp
    split at hpl
    · exact addToFragment_norm _ _ _ _ hpl h1 (fnorm_textFree _ hfit)
    · have := pure_ok hpl
      subst this
      exact h1

theorem normalizeOpen_norm : ∀ (n : Nat) (c : List Node) (os oe : Nat), fnorm c = true →
    fnorm (normalizeOpen n c os oe).1 = true
  | 0, c, os, oe, h => h
  | n + 1, c, os, oe, h => by
    unfold normalizeOpen
    split
    · rename_i only
      split
      · apply normalizeOpen_norm n only.kids (os - 1) (oe - 1)
        apply fnorm_kids_of_norm
        rw [fnorm_cons_iff] at h
        simp only [Bool.and_eq_true] at h
        exact h.1.1
      · exact h
    · exact h

theorem fitEmit_norm (rf rt : RPos) (mi : Option Nat) (ps : Int) (to_ : RPos) (placed : List Node)
    (st : Step) (h : fitEmit rf rt mi ps to_ placed = .ok (some st)) (hp : fnorm placed = true) :
    ∀ sl', st.sliceOf = some sl' → fnorm sl'.content = true := by
  unfold fitEmit at h
  simp only at h
  have hn := normalizeOpen_norm (rf.depth + 1) placed rf.depth to_.depth hp
  cases mi with
  | none =>
    simp only at h
    split at h
    · have := pure_ok h
      simp only [Option.some.injEq] at this
      subst this
      intro sl' hs
      simp only [Step.sliceOf, Option.some.injEq] at hs
      subst hs
      exact hn
    · simp [pure, Except.pure] at h
  | some p =>
    simp only at h
    split at h
    · simp [throw, throwThe, MonadExceptOf.throw] at h
    · have := pure_ok h
      simp only [Option.some.injEq] at this
      subst this
      intro sl' hs
      simp only [Step.sliceOf, Option.some.injEq] at hs
      subst hs
      exact hn

/-- **the slice of every step `replace_step` emits is in normal form when the request slice is** (no
    hypothesis about the document: of the document only empty copies of the ancestors of `from` and
    the markup of re-opened ancestors of `to` go into the emitted slice) -/
theorem replaceStep_norm (S : Schema) (doc : Node) (f t : Nat) (sl : Slice)
    (hsl : fnorm sl.content = true)
    (st : Step) (h : replaceStep S doc f t sl = .ok (some st)) :
    ∀ sl', st.sliceOf = some sl' → fnorm sl'.content = true := by
  unfold replaceStep at h
  split at h
  · simp [pure, Except.pure] at h
  · split at h
    · rename_i rf rt hf ht
      split at h
      · simp [throw, throwThe, MonadExceptOf.throw] at h
      · have := pure_ok h
        simp only [Option.some.injEq] at this
        subst this
        intro sl' hs
        simp only [Step.sliceOf, Option.some.injEq] at hs
        subst hs
        exact hsl
      · unfold fitterFit at h
        obtain ⟨st0, h0, h⟩ := FM.bind_ok h
        obtain ⟨st1, h1, h⟩ := FM.bind_ok h
        obtain ⟨mi, _, h⟩ := FM.bind_ok h
        simp only at h
        obtain ⟨target, htg, h⟩ := FM.bind_ok h
        obtain ⟨c, hc, h⟩ := FM.bind_ok h
        have hu0 : st0.unplaced = sl := by
          unfold fitInit at h0
          obtain ⟨fr, _, h0⟩ := FM.bind_ok h0
          have := pure_ok h0
          subst this; rfl
        have hi0 : NormInv st0 :=
          ⟨fnorm_textFree _ (fitInit_textFree S hf sl st0 h0), by rw [hu0]; exact hsl⟩
        have hi1 := fitLoop_norm S _ st0 st1 h1 hi0
        cases c with
        | none => simp [pure, Except.pure] at h
        | some c =>
          simp only at h
          exact fitEmit_norm rf rt mi _ c.1 c.2 st h (closeFit_norm S doc target _ _ c.1 c.2 hc hi1.1)
    · simp [throw, throwThe, MonadExceptOf.throw] at h

end PM
