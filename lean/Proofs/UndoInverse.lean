/-
  Proofs/UndoInverse.lean — C04, second half of the success proof of an inverse replace step:
  *given* that the new document `L'` relates to the old one `O` by `LeftRel` at `f` and by
  `RightRel` at `t'`/`t`, replacing `f … t'` in `L'` by the slice cut from `f … t` of the valid,
  normal-form `O` succeeds.  This generalises `Proofs/Reinsert.lean` (where `L' = O`).
-/
import Proofs.UndoRel
namespace PM

/-! ### tools -/

theorem splitRight_le : ∀ (L : List Node) (t : Nat) (rs : RSplit), splitRight L t = some rs →
    t ≤ fsize L
  | [], 0, _, _ => by simp
  | [], _ + 1, _, h => by simp [splitRight] at h
  | n :: ns, t, rs, h => by
    rw [splitRight_cons] at h
    simp only [fsize_cons]
    split at h
    · omega
    · split at h
      · have := splitRight_le ns _ rs h; omega
      · omega

theorem splitRight_append_pre : ∀ (pre l : List Node) (q : Nat), fnormKids pre = true →
    splitRight (pre ++ l) (fsize pre + q) = splitRight l q
  | [], l, q, _ => by simp
  | n :: pre, l, q, hn => by
    simp only [fnormKids_cons, Bool.and_eq_true] at hn
    have hpos := Node.size_pos_of_norm n hn.1
    rw [List.cons_append, splitRight_skip _ _ _ (by simp; omega) (by simp; omega)]
    have : fsize (n :: pre) + q - n.size = fsize pre + q := by simp; omega
    rw [this]
    exact splitRight_append_pre pre l q hn.2

theorem RightRel.append_pre {S : Schema} {L' : List Node} {t' : Nat} {L : List Node} {t : Nat}
    (h : RightRel S L' t' L t) (pre : List Node) (hp : fnormKids pre = true) :
    RightRel S (pre ++ L') (fsize pre + t') (pre ++ L) (fsize pre + t) :=
  (h.congr_left (splitRight_append_pre pre L' t' hp).symm).congr_right
    (splitRight_append_pre pre L t hp).symm

theorem RightRel.split_some {S : Schema} {L' : List Node} {t' : Nat} {L : List Node} {t : Nat}
    (h : RightRel S L' t' L t) : (∃ rs', splitRight L' t' = some rs') ∧ (∃ rs, splitRight L t = some rs) := by
  cases h with
  | flat h1 h2 => exact ⟨⟨_, h1⟩, ⟨_, h2⟩⟩
  | deep h1 h2 _ _ => exact ⟨⟨_, h1⟩, ⟨_, h2⟩⟩

theorem RightRel.le {S : Schema} {L' : List Node} {t' : Nat} {L : List Node} {t : Nat}
    (h : RightRel S L' t' L t) : t' ≤ fsize L' ∧ t ≤ fsize L := by
  obtain ⟨⟨_, h1⟩, ⟨_, h2⟩⟩ := h.split_some
  exact ⟨splitRight_le _ _ _ h1, splitRight_le _ _ _ h2⟩

theorem splitRight_aligned : ∀ (L : List Node) (t : Nat) (rs : RSplit), splitRight L t = some rs →
    alignedAt L t = match rs with
      | .flat _ => true
      | .deep (.elem _ _ _ k) i _ => alignedAt k i
      | .deep _ _ _ => true
  | [], 0, rs, h => by simp at h; subst h; simp
  | [], _ + 1, _, h => by simp [splitRight] at h
  | n :: ns, t, rs, h => by
    rw [splitRight_cons] at h
    rw [alignedAt_cons]
    split at h
    · simp at h; subst h; simp [*]
    · rename_i h0
      rw [if_neg h0]
      split at h
      · rename_i hle
        rw [if_pos hle]
        exact splitRight_aligned ns _ rs h
      · rename_i hle
        rw [if_neg hle]
        cases n with
        | text s m =>
          simp only at h ⊢
          split at h
          · rename_i hs; simp at h; subst h; simpa using hs
          · simp at h
        | leaf ty a m => simp at h
        | elem ty a m k => simp at h; subst h; simp

theorem RightRel.aligned {S : Schema} {L' : List Node} {t' : Nat} {L : List Node} {t : Nat}
    (h : RightRel S L' t' L t) : alignedAt L' t' = true ∧ alignedAt L t = true := by
  induction h with
  | flat h1 h2 =>
    rw [splitRight_aligned _ _ _ h1, splitRight_aligned _ _ _ h2]; simp
  | deep h1 h2 _ _ ih =>
    rw [splitRight_aligned _ _ _ h1, splitRight_aligned _ _ _ h2]; exact ih

theorem LeftRel.append_pre {L' O : List Node} {p : Nat} (h : LeftRel L' O p) :
    ∀ pre : List Node, fnormKids pre = true →
      LeftRel (pre ++ L') (pre ++ O) (fsize pre + p)
  | [], _ => by simpa using h
  | n :: pre, hn => by
    simp only [fnormKids_cons, Bool.and_eq_true] at hn
    have hpos := Node.size_pos_of_norm n hn.1
    have ih := LeftRel.append_pre h pre hn.2
    have e : fsize (n :: pre) + p - n.size = fsize pre + p := by simp; omega
    exact .skip (by simp; omega) (by simp; omega) (by rw [e]; exact ih)

/-- the original side is flat at `t` -/
theorem RightRel.flat_of_depth {S : Schema} {L' : List Node} {t' : Nat} {L : List Node} {t : Nat}
    (h : RightRel S L' t' L t) (hd : depthAt L t = 0) :
    ∃ r, splitRight L' t' = some (.flat r) ∧ splitRight L t = some (.flat r) := by
  cases h with
  | flat h1 h2 => exact ⟨_, h1, h2⟩
  | deep h1 h2 _ _ =>
    obtain ⟨_, _, _, _, _, d, _, _⟩ := splitRight_deep_facts _ _ _ _ _ h2
    omega

/-! ### flat positions: the scan of each function ends without descending -/

theorem threeWay_flat (S : Schema) (M : List Node) (a b : Nat) (R : List Node) (t : Nat)
    (Y : List Node) (hY : flatTail S M a b R t = .ok Y) : ∀ (L : List Node) (f : Nat),
    f ≤ fsize L → alignedAt L f = true → depthAt L f = 0 →
    ∃ X, threeWay S L f 0 M a b R t = .ok X
  | [], f, hf, _, _ => by
    have : f = 0 := by simpa using hf
    subst this
    unfold threeWay; simp [hY]
  | n :: ns, f, hf, ha, hd => by
    by_cases hf0 : f = 0
    · subst hf0
      unfold threeWay; simp [hY]
    by_cases hle : n.size ≤ f
    · rw [alignedAt_skip n ns f hle] at ha
      rw [depthAt_skip n ns f hle] at hd
      obtain ⟨r, hr⟩ := threeWay_flat S M a b R t Y hY ns (f - n.size) (by simp at hf; omega) ha hd
      unfold threeWay
      rw [if_neg hf0, if_pos hle, hr]
      exact ⟨_, rfl⟩
    cases n with
    | text s m =>
      simp only [Node.size_text, Nat.not_le] at hle
      rw [alignedAt_cons, if_neg hf0, if_neg (by simp; omega)] at ha
      simp only at ha
      unfold threeWay
      rw [if_neg hf0, if_neg (by simp; omega)]
      simp [ha, hY]
    | leaf ty a' m => simp at hle; omega
    | elem ty a' m kids =>
      simp only [Node.size_elem, Nat.not_le] at hle
      rw [depthAt_elem_cons _ _ _ _ _ _ (by omega) hle] at hd
      omega

theorem sliceScan_flat (level : List Node) (f0 t0 : Nat) : ∀ (rest : List Node) (f t : Nat),
    depthAt rest f = 0 → sliceScan level f0 t0 rest f t = sliceHere level f0 t0
  | [], f, t, _ => by unfold sliceScan; rfl
  | n :: ns, f, t, hd => by
    rw [sliceScan_cons]
    split
    · rfl
    · rename_i hf0
      split
      · rename_i hle
        rw [depthAt_skip n ns f hle] at hd
        exact sliceScan_flat level f0 t0 ns _ _ hd
      · rename_i hle
        cases n with
        | text s m => rfl
        | leaf ty a m => rfl
        | elem ty a m kids =>
          simp only [Node.size_elem, Nat.not_le] at hle
          rw [depthAt_elem_cons _ _ _ _ _ _ (by omega) hle] at hd
          omega

theorem outer_flat (S : Schema) (sl : Slice) (ty : TypeId) (level : List Node) (f0 t0 e : Nat) :
    ∀ (rest : List Node) (idx f t : Nat), depthAt rest f = 0 →
    outer S sl ty level f0 t0 idx rest f t e = atLevel S sl ty level f0 t0 e
  | [], idx, f, t, _ => by unfold outer; rfl
  | n :: ns, idx, f, t, hd => by
    unfold outer
    split
    · rfl
    · rename_i hf0
      split
      · rename_i hle
        rw [depthAt_skip n ns f hle] at hd
        exact outer_flat S sl ty level f0 t0 e ns _ _ _ hd
      · rename_i hle
        cases n with
        | text s m => rfl
        | leaf ty' a m => rfl
        | elem ty' a m kids =>
          simp only [Node.size_elem, Nat.not_le] at hle
          rw [depthAt_elem_cons _ _ _ _ _ _ (by omega) hle] at hd
          omega

/-! ### Lemma B′: the left join — `L'` joined at `p` with the suffix cut of `O` -/

theorem twoWay_leftG (S : Schema) {L' O : List Node} {p : Nat} (h : LeftRel L' O p) :
    ∀ R : List Node, fcutLoop O p (fsize O) = .ok R → fnormKids L' = true →
      S.checkKids O = true → fnorm O = true → ∃ X, twoWay S L' p R (depthAt O p) = .ok X := by
  induction h with
  | @flat L' O p hp' hp hd' hd ha _ =>
    intro R _ _ _ _
    rw [hd]
    exact twoWay_flat S L' p R 0 hp' ha hd' ⟨R, splitRight_zero R⟩
  | @skip n L' O p h0 hle hrel ih =>
    intro R hc hn' hv hn
    obtain ⟨_, hnns⟩ := fnorm_cons hn
    have hpO := hrel.le.2
    rw [fcutLoop_skip n O p _ (by simp; omega) hle] at hc
    have e : fsize (n :: O) - n.size = fsize O := by simp
    rw [e] at hc
    have hv' : S.checkKids O = true := by
      simp only [checkKids_cons, Bool.and_eq_true] at hv; exact hv.2
    simp only [fnormKids_cons, Bool.and_eq_true] at hn'
    obtain ⟨r, hr⟩ := ih R hc hn'.2 hv' hnns
    unfold twoWay
    rw [if_neg h0, if_pos hle, depthAt_skip n O p hle, hr]
    exact ⟨_, rfl⟩
  | @elem ty a m k' k L' O p h0 hlt' hlt hrel ih =>
    intro R hc hn' hv hn
    obtain ⟨hvc, hvk, hnk, _, _⟩ := elem_facts hv (fnormKids_of_fnorm hn)
    simp only [fnormKids_cons, Node.norm_elem, Bool.and_eq_true] at hn'
    obtain ⟨c, rest, hct, _, hM⟩ := fcutLoop_elem_inv hc (by simp) hlt (Or.inl (by omega))
    have hmin : min (fsize k) (fsize (Node.elem ty a m k :: O) - 1) = fsize k := by
      simp; omega
    rw [hmin, fcut_eq_loop (fnormKids_of_fnorm hnk) (by omega) (Nat.le_refl _) (by omega)] at hct
    obtain ⟨htk, hdc, hnc⟩ := suffix_cut_facts hct (by omega) hnk
    obtain ⟨r, hr⟩ := ih c hct (fnormKids_of_fnorm hn'.1) hvk hnk
    have hre : fromArray r = k :=
      twoWay_rebuild S hr (fnormKids_of_fnorm hn'.1) hnc hnk
        (by rw [htk, hrel.toks]; exact List.take_append_drop _ _)
    have hd : depthAt (Node.elem ty a m k :: O) p = 1 + depthAt k (p - 1) :=
      depthAt_elem_cons _ _ _ _ _ _ (by omega) hlt
    subst hM
    have hs : splitRight (Node.elem ty a m c :: rest) (1 + depthAt k (p - 1))
        = some (.deep (.elem ty a m c) (depthAt k (p - 1)) rest) := by
      have := splitRight_elem ty a m c rest (1 + depthAt k (p - 1)) (by omega) (by omega)
      simpa using this
    unfold twoWay
    rw [if_neg h0, if_neg (by simp; omega)]
    simp only [hd, hs, compatibleContent_self, if_true, hr, hre, close_ok_of_valid S ty a m k hvc]
    exact ⟨_, rfl⟩

/-! ### Lemma C′: the right join — the prefix cut of `O` up to `q` joined with `R'` at `t'` -/

theorem twoWay_rightG (S : Schema) : ∀ (O : List Node) (q : Nat) (E R' : List Node) (t' : Nat),
    q ≤ fsize O → fcutLoop O 0 q = .ok E → RightRel S R' t' O q → fnormKids R' = true →
    S.checkKids O = true → fnorm O = true →
    ∃ X, twoWay S E (fsize E - depthAt O q) R' t' = .ok X
  | [], q, E, R', t', hq, h, hs, _, _, _ => by
    have : q = 0 := by simpa using hq
    subst this
    rw [fcutLoop_zero] at h
    simp at h; subst h
    have := hs.flat_inv (splitRight_zero _)
    unfold twoWay; rw [this]; simp
  | n :: ns, q, E, R', t', hq, h, hs, hR, hv, hn => by
    obtain ⟨hnn, hnns⟩ := fnorm_cons hn
    have hpos := Node.size_pos_of_norm n hnn
    simp only [fsize_cons] at hq
    by_cases hq0 : q = 0
    · subst hq0
      rw [fcutLoop_zero] at h
      simp at h; subst h
      have := hs.flat_inv (splitRight_zero _)
      unfold twoWay; rw [this]; simp
    by_cases hle : n.size ≤ q
    · obtain ⟨rest, hr, hM⟩ := fcutLoop_whole_inv h hpos hle
      subst hM
      obtain ⟨_, hd, _⟩ := prefix_cut_facts hr (by omega) hnns
      have hs' := hs.congr_right (splitRight_skip n ns q hq0 hle)
      have hv' : S.checkKids ns = true := by
        simp only [checkKids_cons, Bool.and_eq_true] at hv; exact hv.2
      obtain ⟨X, hX⟩ := twoWay_rightG S ns (q - n.size) rest R' t' (by omega) hr hs' hR hv' hnns
      rw [depthAt_skip n ns q hle]
      have e : fsize (n :: rest) - depthAt ns (q - n.size) - n.size
          = fsize rest - depthAt ns (q - n.size) := by simp; omega
      unfold twoWay
      rw [if_neg (by simp; omega), if_pos (by simp; omega), e, hX]
      exact ⟨_, rfl⟩
    cases n with
    | text s m =>
      simp only [Node.size_text, Nat.not_le] at hle hpos
      obtain ⟨s', rest, hct, hr, hM⟩ := fcutLoop_text_inv h hq0 hpos (Or.inr hle)
      have hmin : min s.length q = q := by omega
      rw [hmin] at hct
      have h0 : q - s.length = 0 := by omega
      rw [h0, fcutLoop_zero] at hr
      simp at hr; subst hr; subst hM
      have hs' := (cutText_ok hct).1
      have hso := (cutText_splitOk hct).2
      have hsr := hs.flat_inv (splitRight_text s m ns q hq0 hle hso)
      have hlen : s'.length = q := by rw [hs']; simp; omega
      have hd : depthAt (Node.text s m :: ns) q = 0 :=
        depthAt_nonelem_cons _ ns q (by simpa using hle) (by simp)
      rw [hd]
      unfold twoWay
      simp only [fsize_cons, fsize_nil, Node.size_text, hlen, Nat.add_zero, Nat.sub_zero,
        if_neg hq0, Nat.le_refl, if_true, Nat.sub_self]
      unfold twoWay
      simp [hsr]
    | leaf ty a m => simp at hle; omega
    | elem ty a m kids =>
      simp only [Node.size_elem, Nat.not_le] at hle
      obtain ⟨hvc, hvk, hnk, _, _⟩ := elem_facts hv (fnormKids_of_fnorm hn)
      obtain ⟨c, rest, hct, hr, hM⟩ := fcutLoop_elem_inv h hq0 (by omega) (Or.inr hle)
      have hmin : min (fsize kids) (q - 1) = q - 1 := by omega
      have h0 : q - (2 + fsize kids) = 0 := by omega
      rw [h0, fcutLoop_zero] at hr
      simp at hr; subst hr; subst hM
      rw [hmin, Nat.zero_sub, fcut_eq_loop (fnormKids_of_fnorm hnk) (by omega) (by omega) (by omega)] at hct
      obtain ⟨htk, hdc, hnc⟩ := prefix_cut_facts hct (by omega) hnk
      obtain ⟨ty', a', m', k', i', hsr, hcomp, hrel⟩ :=
        hs.deep_inv (splitRight_elem ty a m kids ns q hq0 hle)
      have hk' : fnormKids k' = true := by
        have := splitRight_norm _ _ _ hR hsr
        simp only [RSplit.normK, Node.norm_elem, Bool.and_eq_true] at this
        exact fnormKids_of_fnorm this.1
      obtain ⟨r, hr⟩ := twoWay_rightG S kids (q - 1) c k' i' (by omega) hct hrel hk' hvk hnk
      have hre : fromArray r = kids :=
        twoWay_rebuild S hr hnc hk' hnk
          (by rw [htk, hrel.toks]; exact List.take_append_drop _ _)
      have hd : depthAt (Node.elem ty a m kids :: ns) q = 1 + depthAt kids (q - 1) :=
        depthAt_elem_cons _ _ _ _ _ _ (by omega) hle
      have hf : fsize [Node.elem ty a m c] - depthAt (Node.elem ty a m kids :: ns) q
          = (fsize c - depthAt kids (q - 1)) + 1 := by
        rw [hd]; simp; omega
      rw [hf]
      unfold twoWay
      rw [if_neg (by omega), if_neg (by simp; omega)]
      simp only [hsr, hcomp, if_true, Nat.add_sub_cancel, hr, hre,
        close_ok_of_valid S ty a m kids hvc]
      exact ⟨_, rfl⟩

/-! ### the right join of `threeWay` / `flatTail`, two-document version -/

/-- what `rightJoin` needs to know: the last child of the old slice level `M` is the prefix cut of a
    valid node `kO` of the old document, and the node of the new document the position is deep in is
    related to `kO` by `RightRel` and has a compatible type -/
def RJoinOKG (S : Schema) (M : List Node) (b : Nat) : RSplit → Prop
  | .flat _ => b = 0
  | .deep cR' i' _ => ∃ ty a m kO kE q ty' a' m' k', cR' = .elem ty' a' m' k' ∧
      M.getLast? = some (.elem ty a m kE) ∧ fcutLoop kO 0 q = .ok kE ∧
      q ≤ fsize kO ∧ b = 1 + depthAt kO q ∧ S.compatibleContent ty' ty = true ∧
      RightRel S k' i' kO q ∧ fnormKids k' = true ∧
      S.validContent ty kO = true ∧ S.checkKids kO = true ∧ fnorm kO = true

theorem rjoinOKG_cons {S : Schema} {M : List Node} {b : Nat} {rs : RSplit} (x : Node)
    (h : RJoinOKG S M b rs) : RJoinOKG S (x :: M) b rs := by
  cases rs with
  | flat r => exact h
  | deep c i r =>
    obtain ⟨ty, a, m, kO, kE, q, ty', a', m', k', h1, h2, h3⟩ := h
    refine ⟨ty, a, m, kO, kE, q, ty', a', m', k', h1, ?_, h3⟩
    cases M with
    | nil => simp at h2
    | cons y ys => rw [List.getLast?_cons_cons]; exact h2

theorem rjoinOKG_ne_nil {S : Schema} {M : List Node} {b : Nat} {c : Node} {i : Nat} {r : List Node}
    (h : RJoinOKG S M b (.deep c i r)) : M ≠ [] ∧ b ≠ 0 := by
  obtain ⟨ty, a, m, kO, kE, q, ty', a', m', k', _, h2, _, _, hb, _⟩ := h
  refine ⟨?_, by omega⟩
  intro h0; subst h0; simp at h2

theorem rightJoin_okG {S : Schema} {M : List Node} {b : Nat} {rs : RSplit} (h : RJoinOKG S M b rs) :
    ∃ rj, rightJoin S M b rs = .ok rj := by
  cases rs with
  | flat r =>
    simp only [RJoinOKG] at h; subst h
    exact ⟨[], by simp [rightJoin]⟩
  | deep c i r =>
    obtain ⟨ty, a, m, kO, kE, q, ty', a', m', k', rfl, hl, hcut, hq, hb, hcomp, hrel, hk', hvc, hvk, hnk⟩ := h
    obtain ⟨htk, hd, hnE⟩ := prefix_cut_facts hcut hq hnk
    obtain ⟨X, hX⟩ := twoWay_rightG S kO q kE k' i hq hcut hrel hk' hvk hnk
    have hre : fromArray X = kO :=
      twoWay_rebuild S hX hnE hk' hnk
        (by rw [htk, hrel.toks]; exact List.take_append_drop _ _)
    subst hb
    unfold rightJoin
    simp only [hl, Nat.add_sub_cancel_left, hcomp, if_true, hX, hre,
      close_ok_of_valid S ty a m kO hvc]
    rw [if_neg (by omega)]
    exact ⟨_, rfl⟩

theorem flatTail_okG {S : Schema} {M : List Node} {b : Nat} {R : List Node} {t : Nat} {rs : RSplit}
    (hs : splitRight R t = some rs) (h : RJoinOKG S M b rs) : ∃ X, flatTail S M 0 b R t = .ok X := by
  obtain ⟨rj, hrj⟩ := rightJoin_okG h
  unfold flatTail
  simp only [hs, hrj]
  rw [if_neg (by simp)]
  exact ⟨_, rfl⟩

theorem rjoinOKG_of_cut0 (S : Schema) (R' : List Node) (t' : Nat) (rs' : RSplit)
    (hs' : splitRight R' t' = some rs') (hR : fnormKids R' = true) :
    ∀ (L : List Node) (t : Nat) (M : List Node),
    t ≤ fsize L → fcutLoop L 0 t = .ok M → RightRel S R' t' L t →
    S.checkKids L = true → fnorm L = true → RJoinOKG S M (depthAt L t) rs'
  | [], t, M, ht, _, hrel, _, _ => by
    have : t = 0 := by simpa using ht
    subst this
    have := hrel.flat_inv (splitRight_zero _)
    rw [this] at hs'; simp at hs'; subst hs'
    simp [RJoinOKG]
  | n :: ns, t, M, ht, h, hrel, hv, hn => by
    obtain ⟨hnn, hnns⟩ := fnorm_cons hn
    have hpos := Node.size_pos_of_norm n hnn
    simp only [fsize_cons] at ht
    by_cases ht0 : t = 0
    · subst ht0
      have := hrel.flat_inv (splitRight_zero _)
      rw [this] at hs'; simp at hs'; subst hs'
      simp [RJoinOKG]
    by_cases hle : n.size ≤ t
    · obtain ⟨rest, hr, hM⟩ := fcutLoop_whole_inv h hpos hle
      subst hM
      have hrel' := hrel.congr_right (splitRight_skip n ns t ht0 hle)
      have hv' : S.checkKids ns = true := by
        simp only [checkKids_cons, Bool.and_eq_true] at hv; exact hv.2
      rw [depthAt_skip n ns t hle]
      exact rjoinOKG_cons n
        (rjoinOKG_of_cut0 S R' t' rs' hs' hR ns (t - n.size) rest (by omega) hr hrel' hv' hnns)
    cases n with
    | text s m =>
      simp only [Node.size_text, Nat.not_le] at hle hpos
      obtain ⟨s', rest, hct, _, _⟩ := fcutLoop_text_inv h ht0 hpos (Or.inr hle)
      have hmin : min s.length t = t := by omega
      rw [hmin] at hct
      have hso := (cutText_splitOk hct).2
      have := hrel.flat_inv (splitRight_text s m ns t ht0 hle hso)
      rw [this] at hs'; simp at hs'; subst hs'
      simp only [RJoinOKG]
      exact depthAt_nonelem_cons _ ns t (by simpa using hle) (by simp)
    | leaf ty a m => simp at hle; omega
    | elem ty a m kids =>
      simp only [Node.size_elem, Nat.not_le] at hle
      obtain ⟨hvc, hvk, hnk, _, _⟩ := elem_facts hv (fnormKids_of_fnorm hn)
      obtain ⟨ty', a', m', k', i', hsr, hcomp, hrel'⟩ :=
        hrel.deep_inv (splitRight_elem ty a m kids ns t ht0 hle)
      have hk' : fnormKids k' = true := by
        have := splitRight_norm _ _ _ hR hsr
        simp only [RSplit.normK, Node.norm_elem, Bool.and_eq_true] at this
        exact fnormKids_of_fnorm this.1
      rw [hsr] at hs'; simp at hs'; subst hs'
      obtain ⟨c, rest, hct, hr, hM⟩ := fcutLoop_elem_inv h ht0 (by omega) (Or.inr hle)
      have hmin : min (fsize kids) (t - 1) = t - 1 := by omega
      have h0 : t - (2 + fsize kids) = 0 := by omega
      rw [h0, fcutLoop_zero] at hr
      simp at hr; subst hr; subst hM
      rw [hmin, Nat.zero_sub, fcut_eq_loop (fnormKids_of_fnorm hnk) (by omega) (by omega) (by omega)] at hct
      exact ⟨ty, a, m, kids, c, t - 1, ty', a', m', k', rfl, by simp, hct, by omega,
        depthAt_elem_cons _ _ _ _ _ _ (by omega) hle, hcomp, hrel', hk', hvc, hvk, hnk⟩

/-- the same for a cut that starts at a position which is not inside an element child -/
theorem rjoinOKG_of_cut_flat (S : Schema) (R' : List Node) (t' : Nat) (rs' : RSplit)
    (hs' : splitRight R' t' = some rs') (hR : fnormKids R' = true) :
    ∀ (L : List Node) (f t : Nat) (M : List Node),
    depthAt L f = 0 → f < t → t ≤ fsize L → fcutLoop L f t = .ok M → RightRel S R' t' L t →
    S.checkKids L = true → fnorm L = true → RJoinOKG S M (depthAt L t) rs'
  | [], f, t, M, _, hft, ht, _, _, _, _ => by
    have : t ≤ 0 := by simpa using ht
    omega
  | n :: ns, f, t, M, hd, hft, ht, h, hrel, hv, hn => by
    obtain ⟨hnn, hnns⟩ := fnorm_cons hn
    have hpos := Node.size_pos_of_norm n hnn
    have ht0 : t ≠ 0 := by omega
    have hv' : S.checkKids ns = true := by
      simp only [checkKids_cons, Bool.and_eq_true] at hv; exact hv.2
    simp only [fsize_cons] at ht
    by_cases hf0 : f = 0
    · subst hf0
      exact rjoinOKG_of_cut0 S R' t' rs' hs' hR (n :: ns) t M (by simp; omega) h hrel hv hn
    by_cases hle : n.size ≤ f
    · rw [fcutLoop_skip n ns f t ht0 hle] at h
      rw [depthAt_skip n ns f hle] at hd
      rw [depthAt_skip n ns t (by omega)]
      exact rjoinOKG_of_cut_flat S R' t' rs' hs' hR ns (f - n.size) (t - n.size) M hd (by omega)
        (by omega) h (hrel.congr_right (splitRight_skip n ns t ht0 (by omega))) hv' hnns
    cases n with
    | text s m =>
      simp only [Node.size_text, Nat.not_le] at hle hpos ht
      obtain ⟨s', rest, hct, hr, hM⟩ := fcutLoop_text_inv h ht0 hle (Or.inl (by omega))
      subst hM
      have hso := cutText_splitOk hct
      by_cases hlt : s.length ≤ t
      · rw [depthAt_skip _ ns t (by simpa using hlt)]
        simp only [Node.size_text]
        exact rjoinOKG_cons _ (rjoinOKG_of_cut0 S R' t' rs' hs' hR ns (t - s.length) rest
          (by omega) hr (hrel.congr_right (splitRight_skip _ ns t ht0 (by simpa using hlt))) hv' hnns)
      · have : min s.length t = t := by omega
        rw [this] at hso
        have := hrel.flat_inv (splitRight_text s m ns t ht0 (by omega) hso.2)
        rw [this] at hs'; simp at hs'; subst hs'
        simp only [RJoinOKG]
        exact depthAt_nonelem_cons _ ns t (by simp; omega) (by simp)
    | leaf ty a m => simp at hle; omega
    | elem ty a m kids =>
      simp only [Node.size_elem, Nat.not_le] at hle
      rw [depthAt_elem_cons _ _ _ _ _ _ (by omega) hle] at hd
      omega

/-! ### the three-way join with the slice cut from the old document -/

theorem threeWay_cutG (S : Schema) {L' O : List Node} {f : Nat} (h : LeftRel L' O f) :
    ∀ (t : Nat) (M R' : List Node) (t' : Nat), f < t → t ≤ fsize O → fcutLoop O f t = .ok M →
      RightRel S R' t' O t → fnormKids L' = true → fnormKids R' = true →
      S.checkKids O = true → fnorm O = true →
      ∃ X, threeWay S L' f 0 M (depthAt O f) (depthAt O t) R' t' = .ok X := by
  induction h with
  | @flat L' O f hp' hp hd' hd ha _ =>
    intro t M R' t' hft ht hc hrel _ hR hv hn
    obtain ⟨⟨rs', hs'⟩, _⟩ := hrel.split_some
    have hl := rjoinOKG_of_cut_flat S R' t' rs' hs' hR O f t M hd hft ht hc hrel hv hn
    obtain ⟨Y, hY⟩ := flatTail_okG hs' hl
    rw [hd]
    exact threeWay_flat S M 0 _ R' t' Y hY L' f hp' ha hd'
  | @skip n L' O f h0 hle _ ih =>
    intro t M R' t' hft ht hc hrel hn' hR hv hn
    obtain ⟨_, hnns⟩ := fnorm_cons hn
    have ht0 : t ≠ 0 := by omega
    have hv' : S.checkKids O = true := by
      simp only [checkKids_cons, Bool.and_eq_true] at hv; exact hv.2
    simp only [fnormKids_cons, Bool.and_eq_true] at hn'
    simp only [fsize_cons] at ht
    rw [fcutLoop_skip n O f t ht0 hle] at hc
    obtain ⟨X, hX⟩ := ih (t - n.size) M R' t' (by omega) (by omega) hc
      (hrel.congr_right (splitRight_skip n O t ht0 (by omega))) hn'.2 hR hv' hnns
    unfold threeWay
    rw [if_neg h0, if_pos hle, depthAt_skip n O f hle, depthAt_skip n O t (by omega), hX]
    exact ⟨_, rfl⟩
  | @elem tyL aL mL k' k L' O f h0 hlt' hlt hrelk ih =>
    intro t M R' t' hft ht hc hrel hn' hR hv hn
    obtain ⟨_, hnns⟩ := fnorm_cons hn
    have ht0 : t ≠ 0 := by omega
    have hv' : S.checkKids O = true := by
      simp only [checkKids_cons, Bool.and_eq_true] at hv; exact hv.2
    simp only [fnormKids_cons, Node.norm_elem, Bool.and_eq_true] at hn'
    have hnk' := fnormKids_of_fnorm hn'.1
    simp only [fsize_cons, Node.size_elem] at ht
    obtain ⟨hvc, hvk, hnk, _, _⟩ := elem_facts hv (fnormKids_of_fnorm hn)
    obtain ⟨c, rest, hct, hr, hM⟩ := fcutLoop_elem_inv hc ht0 hlt (Or.inl (by omega))
    subst hM
    have hda : depthAt (Node.elem tyL aL mL k :: O) f = depthAt k (f - 1) + 1 := by
      rw [depthAt_elem_cons _ _ _ _ _ _ (by omega) hlt]; omega
    obtain ⟨⟨rs', hs'⟩, _⟩ := hrel.split_some
    by_cases hin : t < 2 + fsize k
    · -- both ends inside this child of the old document: one level down
      have hmin : min (fsize k) (t - 1) = t - 1 := by omega
      have hz : t - (2 + fsize k) = 0 := by omega
      rw [hz, fcutLoop_zero] at hr
      simp at hr; subst hr
      rw [hmin, fcut_eq_loop (fnormKids_of_fnorm hnk) (by omega) (by omega) (by omega)] at hct
      obtain ⟨tyR, aR, mR, kR, iR, hsr, hcomp, hrel'⟩ :=
        hrel.deep_inv (splitRight_elem tyL aL mL k O t ht0 hin)
      have hkR : fnormKids kR = true := by
        have := splitRight_norm _ _ _ hR hsr
        simp only [RSplit.normK, Node.norm_elem, Bool.and_eq_true] at this
        exact fnormKids_of_fnorm this.1
      have hdb : depthAt (Node.elem tyL aL mL k :: O) t = depthAt k (t - 1) + 1 := by
        rw [depthAt_elem_cons _ _ _ _ _ _ (by omega) hin]; omega
      obtain ⟨hmid, hsl, hsr', hnc⟩ := mid_cut_facts hct (by omega) (by omega) hnk
      obtain ⟨X, hX⟩ := ih (t - 1) c kR iR (by omega) (by omega) hct hrel' hnk' hkR hvk hnk
      have hre : fromArray X = k :=
        threeWay_rebuild S hX hnk' hnc hkR hnk hsl hsr'
          (by rw [hmid, hrelk.toks, hrel'.toks]
              exact splice_mid _ _ _ (by omega) (by rw [ftoks_length]; omega))
      unfold threeWay
      rw [if_neg h0, if_neg (by simp; omega)]
      simp only [hsr, hda, hdb]
      simp [compatibleContent_self, hcomp, hX, hre, close_ok_of_valid S tyL aL mL k hvc]
    · -- `t` at or beyond the end of this child: left join, middle, right join
      have hge : 2 + fsize k ≤ t := by omega
      have hmin : min (fsize k) (t - 1) = fsize k := by omega
      rw [hmin, fcut_eq_loop (fnormKids_of_fnorm hnk) (by omega) (Nat.le_refl _) (by omega)] at hct
      have hrel' := hrel.congr_right (splitRight_skip _ O t ht0 (by simpa using hge))
      simp only [Node.size_elem] at hrel'
      have hdb : depthAt (Node.elem tyL aL mL k :: O) t = depthAt O (t - (2 + fsize k)) := by
        rw [depthAt_skip _ O t (by simpa using hge)]; simp
      have hl0 := rjoinOKG_of_cut0 S R' t' rs' hs' hR O (t - (2 + fsize k)) rest (by omega) hr
        hrel' hv' hnns
      obtain ⟨htk, hdc, hnc⟩ := suffix_cut_facts hct (by omega) hnk
      obtain ⟨lr, hlr⟩ := twoWay_leftG S hrelk c hct hnk' hvk hnk
      have hre : fromArray lr = k :=
        twoWay_rebuild S hlr hnk' hnc hnk
          (by rw [htk, hrelk.toks]; exact List.take_append_drop _ _)
      obtain ⟨rj, hrj⟩ := rightJoin_okG (rjoinOKG_cons (Node.elem tyL aL mL c) hl0)
      unfold threeWay
      rw [if_neg h0, if_neg (by simp; omega)]
      simp only [hs', hda, hdb]
      cases rs' with
      | flat r =>
        simp only [RJoinOKG] at hl0
        rw [hl0] at hrj ⊢
        simp [threeWay.rightJoinCheck, compatibleContent_self, hlr, hre,
          close_ok_of_valid S tyL aL mL k hvc, hrj]
      | deep cR i r =>
        obtain ⟨hne, hb0⟩ := rjoinOKG_ne_nil hl0
        cases rest with
        | nil => exact absurd rfl hne
        | cons y ys =>
          obtain ⟨ty, a, m, kO, kE, q, ty', a', m', kq, rfl, _, _, _, hb, _⟩ := hl0
          have hb' : depthAt O (t - (2 + fsize k)) = depthAt kO q + 1 := by omega
          rw [hb'] at hrj ⊢
          simp [threeWay.rightJoinCheck, compatibleContent_self, hlr, hre,
            close_ok_of_valid S tyL aL mL k hvc, hrj]

/-! ### levels above the old slice: `threeWay` with `extra ≠ 0` -/

theorem fnorm_append_right {pre rest : List Node} (h : fnorm (pre ++ rest) = true) :
    fnorm rest = true := by
  simp only [fnorm, Bool.and_eq_true, fnormKids_append, chainOk_append] at h ⊢
  exact ⟨h.1.2, h.2.1.2⟩

theorem fnormKids_append_left {pre rest : List Node} (h : fnorm (pre ++ rest) = true) :
    fnormKids pre = true := by
  simp only [fnorm, Bool.and_eq_true, fnormKids_append] at h
  exact h.1.1

theorem fcutLoop_append_pre : ∀ (pre l : List Node) (f t : Nat), fnormKids pre = true →
    fcutLoop (pre ++ l) (fsize pre + f) (fsize pre + t) = fcutLoop l f t
  | [], l, f, t, _ => by simp
  | n :: pre, l, f, t, hn => by
    simp only [fnormKids_cons, Bool.and_eq_true] at hn
    have hpos := Node.size_pos_of_norm n hn.1
    rw [List.cons_append, fcutLoop_skip _ _ _ _ (by simp; omega) (by simp; omega)]
    have e1 : fsize (n :: pre) + f - n.size = fsize pre + f := by simp; omega
    have e2 : fsize (n :: pre) + t - n.size = fsize pre + t := by simp; omega
    rw [e1, e2]
    exact fcutLoop_append_pre pre l f t hn.2

/-- the slice taken at this level, seen from the unscanned rest of the level -/
theorem sliceHere_rest {level pre rest : List Node} {f0 t0 f t : Nat} {old : Slice}
    (hl : level = pre ++ rest) (hf0 : f0 = fsize pre + f) (ht0 : t0 = fsize pre + t)
    (hft : f < t) (ht : t ≤ fsize rest) (hn : fnorm level = true)
    (h : sliceHere level f0 t0 = .ok old) :
    fcutLoop rest f t = .ok old.content ∧ old.openStart = depthAt rest f ∧
      old.openEnd = depthAt rest t := by
  obtain ⟨c, hc, rfl⟩ := sliceHere_inv h
  subst hl
  have hpre := fnormKids_append_left hn
  rw [fcut_eq_loop (fnormKids_of_fnorm hn) (by omega) (by rw [fsize_append]; omega) (by omega),
    hf0, ht0, fcutLoop_append_pre pre rest f t hpre] at hc
  exact ⟨hc, by simp only [hf0]; exact depthAt_append_pre _ _ _,
    by simp only [ht0]; exact depthAt_append_pre _ _ _⟩

theorem checkKids_append_right {S : Schema} {pre rest : List Node}
    (h : S.checkKids (pre ++ rest) = true) : S.checkKids rest = true := by
  rw [checkKids_append] at h
  simp only [Bool.and_eq_true] at h
  exact h.2

theorem threeWay_rebuildE (S : Schema) {L M R O X : List Node} {f e a b t : Nat}
    (h : threeWay S L f e M a b R t = .ok X) (hL : fnormKids L = true) (hM : fnormKids M = true)
    (hR : fnormKids R = true) (hO : fnorm O = true) (ha : a ≤ spineL M) (hb : b ≤ spineR M)
    (htk : (ftoks L).take f ++ midToks M a b ++ (ftoks R).drop t = ftoks O) :
    fromArray X = O := by
  apply ftoks_inj _ _ (fromArray_norm _ (threeWay_norm S _ _ _ _ _ _ _ _ _ hL hM hR h)) hO
  rw [fromArray_toks, threeWay_toks S _ _ _ _ _ _ _ _ _ ha hb h, htk]

theorem threeWay_extraG (S : Schema) (old : Slice) {rest' rest : List Node} {f : Nat}
    (h : LeftRel rest' rest f) :
    ∀ (pre level : List Node) (f0 t0 t : Nat) (R' : List Node) (t' e : Nat),
      level = pre ++ rest → f0 = fsize pre + f → t0 = fsize pre + t → f < t → t ≤ fsize rest →
      sliceScan level f0 t0 rest f t = .ok old → RightRel S R' t' rest t →
      old.openStart + e = depthAt rest f →
      fnormKids rest' = true → fnormKids R' = true →
      S.checkKids level = true → fnorm level = true →
      ∃ X, threeWay S rest' f e old.content old.openStart old.openEnd R' t' = .ok X := by
  induction h with
  | @flat L' O f hp' hp hd' hd ha htk =>
    intro pre level f0 t0 t R' t' e hl hf0 ht0 hft ht hsc hrel he hn' hR hv hn
    rw [sliceScan_flat level f0 t0 O f t hd] at hsc
    obtain ⟨hc, ho1, ho2⟩ := sliceHere_rest hl hf0 ht0 hft ht hn hsc
    have he0 : e = 0 := by omega
    subst hl
    rw [he0, ho1, ho2]
    exact threeWay_cutG S (.flat hp' hp hd' hd ha htk) t old.content R' t' hft ht hc hrel hn' hR
      (checkKids_append_right hv) (fnorm_append_right hn)
  | @skip n L' O f h0 hle _ ih =>
    intro pre level f0 t0 t R' t' e hl hf0 ht0 hft ht hsc hrel he hn' hR hv hn
    have ht00 : t ≠ 0 := by omega
    simp only [fnormKids_cons, Bool.and_eq_true] at hn'
    simp only [fsize_cons] at ht
    rw [sliceScan_cons, if_neg h0, if_pos hle] at hsc
    rw [depthAt_skip n O f hle] at he
    obtain ⟨X, hX⟩ := ih (pre ++ [n]) level f0 t0 (t - n.size) R' t' e (by simp [hl])
      (by rw [fsize_append]; simp; omega) (by rw [fsize_append]; simp; omega) (by omega) (by omega)
      hsc (hrel.congr_right (splitRight_skip n O t ht00 (by omega))) he hn'.2 hR hv hn
    unfold threeWay
    rw [if_neg h0, if_pos hle, hX]
    exact ⟨_, rfl⟩
  | @elem tyL aL mL k' k L' O f h0 hlt' hlt hrelk ih =>
    intro pre level f0 t0 t R' t' e hl hf0 ht0 hft ht hsc hrel he hn' hR hv hn
    have ht00 : t ≠ 0 := by omega
    rw [sliceScan_cons, if_neg h0, if_neg (by simp; omega)] at hsc
    simp only [Node.size_elem] at hsc
    by_cases hin : t < 2 + fsize k
    · -- the old slice lies deeper: merge the two sides at this level
      rw [if_pos hin] at hsc
      subst hl
      obtain ⟨hvc, hvk, hnk⟩ := child_facts hv hn
      simp only [fnormKids_cons, Node.norm_elem, Bool.and_eq_true] at hn'
      have hnk' := fnormKids_of_fnorm hn'.1
      have hspec := sliceScan_spec k k (f - 1) (t - 1) (f - 1) (t - 1) [] old (by simp) (by simp)
        (by simp) (by omega) (by omega) hsc
      obtain ⟨sh, hsh1, _, _, _⟩ := hspec.opens
      obtain ⟨hon, howf⟩ := hspec.norm hnk
      simp only [Slice.wf, Bool.and_eq_true, decide_eq_true_eq] at howf
      rw [depthAt_elem_cons _ _ _ _ _ _ (by omega) hlt] at he
      obtain ⟨tyR, aR, mR, kR, iR, hsr, hcomp, hrel'⟩ :=
        hrel.deep_inv (splitRight_elem tyL aL mL k O t ht00 hin)
      have hkR : fnormKids kR = true := by
        have := splitRight_norm _ _ _ hR hsr
        simp only [RSplit.normK, Node.norm_elem, Bool.and_eq_true] at this
        exact fnormKids_of_fnorm this.1
      obtain ⟨X, hX⟩ := ih [] k (f - 1) (t - 1) (t - 1) kR iR (e - 1) (by simp) (by simp) (by simp)
        (by omega) (by omega) hsc hrel' (by omega) hnk' hkR hvk hnk
      have hre : fromArray X = k :=
        threeWay_rebuildE S hX hnk' (fnormKids_of_fnorm hon) hkR hnk howf.1 howf.2
          (by
            have := hspec.toks
            simp only [Slice.toks] at this
            simp only [midToks]
            rw [this, hrelk.toks, hrel'.toks,
              show t - 1 - (f - 1) = t - 1 - (f - 1) from rfl]
            exact splice_mid _ _ _ (by omega) (by rw [ftoks_length]; omega))
      have he0 : e ≠ 0 := by omega
      unfold threeWay
      rw [if_neg h0, if_neg (by simp; omega)]
      simp only [hsr]
      simp [he0, hcomp, hX, hre, close_ok_of_valid S tyL aL mL k hvc]
    · -- the old slice was taken at this level
      rw [if_neg hin] at hsc
      obtain ⟨hc, ho1, ho2⟩ := sliceHere_rest hl hf0 ht0 hft ht hn hsc
      have he0 : e = 0 := by omega
      subst hl
      rw [he0, ho1, ho2]
      exact threeWay_cutG S (.elem h0 hlt' hlt hrelk) t old.content R' t' hft ht hc hrel hn' hR
        (checkKids_append_right hv) (fnorm_append_right hn)

/-! ### deletion: the old slice is empty, the inverse is a two-way join -/

theorem twoWay_sameG (S : Schema) {L' O : List Node} {f : Nat} (h : LeftRel L' O f) :
    ∀ (R' : List Node) (t' : Nat), RightRel S R' t' O f → fnormKids L' = true →
      fnormKids R' = true → S.checkKids O = true → fnorm O = true →
      ∃ X, twoWay S L' f R' t' = .ok X := by
  induction h with
  | @flat L' O f hp' hp hd' hd ha _ =>
    intro R' t' hrel _ _ _ _
    obtain ⟨r, hr, _⟩ := hrel.flat_of_depth hd
    exact twoWay_flat S L' f R' t' hp' ha hd' ⟨r, hr⟩
  | @skip n L' O f h0 hle _ ih =>
    intro R' t' hrel hn' hR hv hn
    obtain ⟨_, hnns⟩ := fnorm_cons hn
    have hv' : S.checkKids O = true := by
      simp only [checkKids_cons, Bool.and_eq_true] at hv; exact hv.2
    simp only [fnormKids_cons, Bool.and_eq_true] at hn'
    obtain ⟨r, hr⟩ := ih R' t' (hrel.congr_right (splitRight_skip n O f h0 hle)) hn'.2 hR hv' hnns
    unfold twoWay
    rw [if_neg h0, if_pos hle, hr]
    exact ⟨_, rfl⟩
  | @elem ty a m k' k L' O f h0 hlt' hlt hrelk ih =>
    intro R' t' hrel hn' hR hv hn
    obtain ⟨hvc, hvk, hnk, _, _⟩ := elem_facts hv (fnormKids_of_fnorm hn)
    simp only [fnormKids_cons, Node.norm_elem, Bool.and_eq_true] at hn'
    have hnk' := fnormKids_of_fnorm hn'.1
    obtain ⟨tyR, aR, mR, kR, iR, hsr, hcomp, hrel'⟩ :=
      hrel.deep_inv (splitRight_elem ty a m k O f h0 hlt)
    have hkR : fnormKids kR = true := by
      have := splitRight_norm _ _ _ hR hsr
      simp only [RSplit.normK, Node.norm_elem, Bool.and_eq_true] at this
      exact fnormKids_of_fnorm this.1
    obtain ⟨r, hr⟩ := ih kR iR hrel' hnk' hkR hvk hnk
    have hre : fromArray r = k :=
      twoWay_rebuild S hr hnk' hkR hnk
        (by rw [hrelk.toks, hrel'.toks]; exact List.take_append_drop _ _)
    unfold twoWay
    rw [if_neg h0, if_neg (by simp; omega)]
    simp only [hsr, hcomp, if_true, hr, hre, close_ok_of_valid S ty a m k hvc]
    exact ⟨_, rfl⟩

theorem atLevel_undo_emptyG (S : Schema) (ty : TypeId) (level' level : List Node) (f0 t0' e : Nat)
    (hL : LeftRel level' level f0) (hR : RightRel S level' t0' level f0)
    (hn' : fnorm level' = true) (hvc : S.validContent ty level = true)
    (hv : S.checkKids level = true) (hn : fnorm level = true) :
    atLevel S Slice.empty ty level' f0 t0' e = .ok level := by
  have hk' := fnormKids_of_fnorm hn'
  obtain ⟨X, hX⟩ := twoWay_sameG S hL level' t0' hR hk' hk' hv hn
  have hre : fromArray X = level :=
    twoWay_rebuild S hX hk' hk' hn (by rw [hL.toks, hR.toks]; exact List.take_append_drop _ _)
  unfold atLevel
  simp only [Slice.empty, fsize_nil, if_true, hX, Except.map, hre, hvc]

/-! ### `atLevel` of the inverse: the old slice goes back in -/

theorem atLevel_undoG (S : Schema) (old : Slice) (ty : TypeId) (level' level : List Node)
    (f0 t0 t0' e : Nat) (hft : f0 < t0) (ht : t0 ≤ fsize level)
    (hsc : sliceScan level f0 t0 level f0 t0 = .ok old)
    (he : old.openStart + e = depthAt level f0)
    (hL : LeftRel level' level f0) (hR : RightRel S level' t0' level t0)
    (hn' : fnorm level' = true) (hvc : S.validContent ty level = true)
    (hv : S.checkKids level = true) (hn : fnorm level = true) :
    atLevel S old ty level' f0 t0' e = .ok level := by
  have hk' := fnormKids_of_fnorm hn'
  have hspec := sliceScan_spec level level f0 t0 f0 t0 [] old (by simp) (by simp) (by simp) hft ht hsc
  obtain ⟨hon, howf⟩ := hspec.norm hn
  have hwf := howf
  simp only [Slice.wf, Bool.and_eq_true, decide_eq_true_eq] at howf
  have htoks := hspec.toks
  have hsz : fsize old.content ≠ 0 := by
    have := hspec.size
    simp only [Slice.size] at this
    omega
  have hfin : (ftoks level').take f0 ++ old.toks ++ (ftoks level').drop t0' = ftoks level := by
    rw [htoks, hL.toks, hR.toks]
    exact splice_mid _ _ _ (by omega) (by rw [ftoks_length]; exact ht)
  unfold atLevel
  simp only []
  rw [if_neg hsz]
  by_cases hcl : old.openStart = 0 ∧ old.openEnd = 0 ∧ depthAt level' f0 = 0 ∧ depthAt level' t0' = 0
  · obtain ⟨ho0, ho1, hdf, hdt⟩ := hcl
    obtain ⟨l, hl⟩ := fcut_total level' 0 f0 (by omega) hL.le.1 (alignedAt_zero _) hL.aligned hn'
    obtain ⟨r, hr⟩ := fcut_total level' t0' (fsize level') hR.le.1 (Nat.le_refl _) hR.aligned.1
      (alignedAt_fsize _) hn'
    have hX : fappend (fappend l old.content) r = level := by
      apply ftoks_inj _ _ (fappend_norm _ _ (fappend_norm _ _ (fcut_norm _ _ _ _ hn' hl) hon)
        (fcut_norm _ _ _ _ hn' hr)) hn
      rw [fappend_toks, fappend_toks, fcut_prefix_toks hl hL.le.1 hdf, fcut_suffix_toks hr hdt,
        ← closed_toks ho0 ho1]
      exact hfin
    simp only [ho0, ho1, hdf, hdt, decide_true, Bool.and_self, if_true, hl, hr, hX, hvc]
  · have hcond : ¬ ((decide (old.openStart = 0) && decide (old.openEnd = 0) &&
        decide (depthAt level' f0 = 0) && decide (depthAt level' t0' = 0)) = true) := by
      simp only [Bool.and_eq_true, decide_eq_true_eq]
      intro h; exact hcl ⟨h.1.1.1, h.1.1.2, h.1.2, h.2⟩
    rw [if_neg hcond]
    obtain ⟨X, hX⟩ := threeWay_extraG S old hL [] level f0 t0 t0 level' t0' e (by simp) (by simp)
      (by simp) hft ht hsc hR he hk' hk' hv hn
    have hre : fromArray X = level :=
      threeWay_rebuildE S hX hk' (fnormKids_of_fnorm hon) hk' hn howf.1 howf.2 hfin
    simp only [hX, Except.map, hre, hvc, if_true]

/-! ### `outer` of the inverse -/

theorem fnorm_child {pre ns : List Node} {ty : TypeId} {a : Attrs} {m : Marks} {kids : List Node}
    (hn : fnorm (pre ++ .elem ty a m kids :: ns) = true) : fnorm kids = true :=
  fnorm_elem_kids (fnorm_append_right hn)

theorem outer_undoG (S : Schema) (old : Slice) {rest' rest : List Node} {f : Nat}
    (h : LeftRel rest' rest f) :
    ∀ (ty : TypeId) (pre level' level : List Node) (f0 t0 t0' t t' idx e : Nat),
      level' = pre ++ rest' → level = pre ++ rest → idx = pre.length → f0 = fsize pre + f →
      t0 = fsize pre + t → t0' = fsize pre + t' → f < t → t ≤ fsize rest → f ≤ t' →
      sliceScan level f0 t0 rest f t = .ok old → sliceScan level f0 t0 level f0 t0 = .ok old →
      RightRel S rest' t' rest t → old.openStart + e = depthAt rest f →
      fnorm level' = true → S.validContent ty level = true → S.checkKids level = true →
      fnorm level = true →
      ∃ X, outer S old ty level' f0 t0' idx rest' f t' e = .ok X := by
  induction h with
  | @flat L' O f hp' hp hd' hd ha htk =>
    intro ty pre level' level f0 t0 t0' t t' idx e hl' hl hi hf0 ht0 ht0' hft ht hft' hsc hsc0 hrel he
      hn' hvc hv hn
    have hpre : fnormKids pre = true := by rw [hl] at hn; exact fnormKids_append_left hn
    rw [outer_flat S old ty level' f0 t0' e L' idx f t' hd']
    have hL := (LeftRel.flat hp' hp hd' hd ha htk).append_pre pre hpre
    have hR := hrel.append_pre pre hpre
    rw [← hl', ← hl, ← hf0] at hL
    rw [← hl', ← hl, ← ht0, ← ht0'] at hR
    exact ⟨_, atLevel_undoG S old ty level' level f0 t0 t0' e (by omega)
      (by rw [hl, fsize_append]; omega) hsc0 (by rw [hl, hf0, depthAt_append_pre]; exact he)
      hL hR hn' hvc hv hn⟩
  | @skip n L' O f h0 hle _ ih =>
    intro ty pre level' level f0 t0 t0' t t' idx e hl' hl hi hf0 ht0 ht0' hft ht hft' hsc hsc0 hrel he
      hn' hvc hv hn
    have ht00 : t ≠ 0 := by omega
    simp only [fsize_cons] at ht
    rw [sliceScan_cons, if_neg h0, if_pos hle] at hsc
    rw [depthAt_skip n O f hle] at he
    have hrel2 := (hrel.congr_right (splitRight_skip n O t ht00 (by omega))).congr_left
      (splitRight_skip n L' t' (by omega) (by omega))
    obtain ⟨X, hX⟩ := ih ty (pre ++ [n]) level' level f0 t0 t0' (t - n.size) (t' - n.size) (idx + 1) e
      (by simp [hl']) (by simp [hl]) (by simp [hi]) (by rw [fsize_append]; simp; omega)
      (by rw [fsize_append]; simp; omega) (by rw [fsize_append]; simp; omega) (by omega) (by omega)
      (by omega) hsc hsc0 hrel2 he hn' hvc hv hn
    unfold outer
    rw [if_neg h0, if_pos hle]
    exact ⟨X, hX⟩
  | @elem tyL aL mL k' k L' O f h0 hlt' hlt hrelk ih =>
    intro ty pre level' level f0 t0 t0' t t' idx e hl' hl hi hf0 ht0 ht0' hft ht hft' hsc hsc0 hrel he
      hn' hvc hv hn
    have ht00 : t ≠ 0 := by omega
    have hpre : fnormKids pre = true := by rw [hl] at hn; exact fnormKids_append_left hn
    -- the relations at the whole level, for the cases in which the scan stops here
    have hL := (LeftRel.elem (ty := tyL) (a := aL) (m := mL) (L' := L') (O := O) h0 hlt' hlt hrelk).append_pre
      pre hpre
    have hR := hrel.append_pre pre hpre
    rw [← hl', ← hl, ← hf0] at hL
    rw [← hl', ← hl, ← ht0, ← ht0'] at hR
    have here : ∃ X, atLevel S old ty level' f0 t0' e = .ok X :=
      ⟨_, atLevel_undoG S old ty level' level f0 t0 t0' e (by omega)
        (by rw [hl, fsize_append]; omega) hsc0 (by rw [hl, hf0, depthAt_append_pre]; exact he)
        hL hR hn' hvc hv hn⟩
    unfold outer
    rw [if_neg h0, if_neg (by simp; omega)]
    simp only [Node.size_elem]
    by_cases hcond : (decide (e ≠ 0) && decide (t' < 2 + fsize k')) = true
    · rw [if_pos hcond]
      simp only [Bool.and_eq_true, decide_eq_true_eq] at hcond
      obtain ⟨he0, hin'⟩ := hcond
      -- the inverse descends; so did the scan of the old slice (otherwise `e = 0`)
      rw [sliceScan_cons, if_neg h0, if_neg (by simp; omega)] at hsc
      simp only [Node.size_elem] at hsc
      by_cases hin : t < 2 + fsize k
      · rw [if_pos hin] at hsc
        subst hl; subst hl'
        obtain ⟨hvc', hvk, hnk⟩ := child_facts hv hn
        have hnk' := fnorm_child hn'
        obtain ⟨tyR, aR, mR, kR, iR, hsr, _, hrel'⟩ :=
          hrel.deep_inv (splitRight_elem tyL aL mL k O t ht00 hin)
        rw [splitRight_elem tyL aL mL k' L' t' (by omega) hin'] at hsr
        simp at hsr
        obtain ⟨⟨rfl, rfl, rfl, rfl⟩, rfl, _⟩ := hsr
        rw [depthAt_elem_cons _ _ _ _ _ _ (by omega) hlt] at he
        obtain ⟨X, hX⟩ := ih tyL [] k' k (f - 1) (t - 1) (t' - 1) (t - 1) (t' - 1) 0 (e - 1) (by simp)
          (by simp) (by simp) (by simp) (by simp) (by simp) (by omega) (by omega) (by omega)
          hsc hsc hrel' (by omega) hnk' hvc' hvk hnk
        rw [hX]
        exact ⟨_, rfl⟩
      · rw [if_neg hin] at hsc
        obtain ⟨_, ho1, _⟩ := sliceHere_rest hl hf0 ht0 hft ht hn hsc
        omega
    · rw [if_neg hcond]
      exact here

theorem outer_undo_emptyG (S : Schema) {rest' rest : List Node} {f : Nat}
    (h : LeftRel rest' rest f) :
    ∀ (ty : TypeId) (pre level' level : List Node) (f0 t0' t' idx e : Nat),
      level' = pre ++ rest' → level = pre ++ rest → idx = pre.length → f0 = fsize pre + f →
      t0' = fsize pre + t' → f ≤ t' →
      RightRel S rest' t' rest f →
      fnorm level' = true → S.validContent ty level = true → S.checkKids level = true →
      fnorm level = true →
      ∃ X, outer S Slice.empty ty level' f0 t0' idx rest' f t' e = .ok X := by
  induction h with
  | @flat L' O f hp' hp hd' hd ha htk =>
    intro ty pre level' level f0 t0' t' idx e hl' hl hi hf0 ht0' hft' hrel hn' hvc hv hn
    have hpre : fnormKids pre = true := by rw [hl] at hn; exact fnormKids_append_left hn
    rw [outer_flat S Slice.empty ty level' f0 t0' e L' idx f t' hd']
    have hL := (LeftRel.flat hp' hp hd' hd ha htk).append_pre pre hpre
    have hR := hrel.append_pre pre hpre
    rw [← hl', ← hl, ← hf0] at hL
    rw [← hl', ← hl, ← hf0, ← ht0'] at hR
    exact ⟨_, atLevel_undo_emptyG S ty level' level f0 t0' e hL hR hn' hvc hv hn⟩
  | @skip n L' O f h0 hle _ ih =>
    intro ty pre level' level f0 t0' t' idx e hl' hl hi hf0 ht0' hft' hrel hn' hvc hv hn
    have hrel2 := (hrel.congr_right (splitRight_skip n O f h0 hle)).congr_left
      (splitRight_skip n L' t' (by omega) (by omega))
    obtain ⟨X, hX⟩ := ih ty (pre ++ [n]) level' level f0 t0' (t' - n.size) (idx + 1) e
      (by simp [hl']) (by simp [hl]) (by simp [hi]) (by rw [fsize_append]; simp; omega)
      (by rw [fsize_append]; simp; omega) (by omega) hrel2 hn' hvc hv hn
    unfold outer
    rw [if_neg h0, if_pos hle]
    exact ⟨X, hX⟩
  | @elem tyL aL mL k' k L' O f h0 hlt' hlt hrelk ih =>
    intro ty pre level' level f0 t0' t' idx e hl' hl hi hf0 ht0' hft' hrel hn' hvc hv hn
    have hpre : fnormKids pre = true := by rw [hl] at hn; exact fnormKids_append_left hn
    have hL := (LeftRel.elem (ty := tyL) (a := aL) (m := mL) (L' := L') (O := O) h0 hlt' hlt hrelk).append_pre
      pre hpre
    have hR := hrel.append_pre pre hpre
    rw [← hl', ← hl, ← hf0] at hL
    rw [← hl', ← hl, ← hf0, ← ht0'] at hR
    unfold outer
    rw [if_neg h0, if_neg (by simp; omega)]
    simp only [Node.size_elem]
    by_cases hcond : (decide (e ≠ 0) && decide (t' < 2 + fsize k')) = true
    · rw [if_pos hcond]
      simp only [Bool.and_eq_true, decide_eq_true_eq] at hcond
      obtain ⟨he0, hin'⟩ := hcond
      subst hl; subst hl'
      obtain ⟨hvc', hvk, hnk⟩ := child_facts hv hn
      have hnk' := fnorm_child hn'
      obtain ⟨tyR, aR, mR, kR, iR, hsr, _, hrel'⟩ :=
        hrel.deep_inv (splitRight_elem tyL aL mL k O f h0 hlt)
      rw [splitRight_elem tyL aL mL k' L' t' (by omega) hin'] at hsr
      simp at hsr
      obtain ⟨⟨rfl, rfl, rfl, rfl⟩, rfl, _⟩ := hsr
      obtain ⟨X, hX⟩ := ih tyL [] k' k (f - 1) (t' - 1) (t' - 1) 0 (e - 1) (by simp)
        (by simp) (by simp) (by simp) (by simp) (by omega) hrel' hnk' hvc' hvk hnk
      rw [hX]
      exact ⟨_, rfl⟩
    · rw [if_neg hcond]
      exact ⟨_, atLevel_undo_emptyG S ty level' level f0 t0' e hL hR hn' hvc hv hn⟩

/-! ### `replaceKids` of the inverse -/

/-- **the inverse replace succeeds**, given the two relations between the new child list `K'` and
    the valid, normal-form old child list `K`: the slice cut from `f … t` of `K` can be put over
    `f … t'` of `K'`. -/
theorem replaceKids_undoG (S : Schema) (ty : TypeId) (K K' : List Node) (f t t' : Nat) (old : Slice)
    (hvc : S.validContent ty K = true) (hv : S.checkKids K = true) (hn : fnorm K = true)
    (hn' : fnorm K' = true) (hft : f ≤ t) (ht : t ≤ fsize K) (hft' : f ≤ t')
    (hs : sliceKids K f t = .ok old) (hL : LeftRel K' K f) (hR : RightRel S K' t' K t) :
    ∃ X, replaceKids S ty K' f t' old = .ok X := by
  have hdf := hL.depth
  have hdt := hR.depth
  have hwf := (sliceKids_norm K f t old hn hs).2
  unfold replaceKids
  rw [if_neg (by simp [inRange, hL.le.1, hR.le.1]; omega)]
  simp only []
  by_cases he : f = t
  · subst he
    simp [sliceKids] at hs; subst hs
    rw [if_neg (by simp [Slice.empty]), if_neg (by simp [Slice.empty, hdf, hdt]),
      if_neg (by simp [hwf])]
    exact outer_undo_emptyG S hL ty [] K' K f t' t' 0 _ rfl rfl rfl (by simp) (by simp) hft' hR
      hn' hvc hv hn
  · have hlt : f < t := by omega
    have hs' := hs
    unfold sliceKids at hs'
    rw [if_neg he] at hs'
    split at hs'
    · simp at hs'
    · have hspec := sliceScan_spec K K f t f t [] old (by simp) (by simp) (by simp) hlt ht hs'
      obtain ⟨sh, h1, h2, _, _⟩ := hspec.opens
      rw [if_neg (by omega), if_neg (by omega), if_neg (by simp [hwf])]
      exact outer_undoG S old hL ty [] K' K f t t' t t' 0 _ rfl rfl rfl (by simp) (by simp) (by simp)
        hlt ht hft' hs' hs' hR (by omega) hn' hvc hv hn

end PM
