/-
  Proofs/LiftSuccess.lean — **an approved lift that splits nothing applies** (C12).

  `Transform.lift(NodeRange(from, to, depth), target)` with `k = depth - target`: when at every level between
  `target` and `depth` the range starts at the first child and ends at the last (`liftFlatGuardR`), both
  `while d > target` loops only move the outer positions and the step is
  `ReplaceAroundStep(gapStart - k, gapEnd + k, gapStart, gapEnd, Slice.empty, 0, structure = True)`:
  the `k` tokens before the gap are the open tokens of `node(target + 1) … node(depth)` (each the only child of the
  one above), the `k` tokens after it their close tokens; the gap (the children of `node(depth)`) goes into the
  empty slice and replaces the single child `node(target + 1)` of `node(target)`.  `lift_target` asked
  `node(target).can_replace(index, index + 1, content)`, which is the validity of the new child list — up to the
  merge of adjacent text at the two seams (`TextStable`).
-/
import PM.Step
import PM.Structure
import PM.StructEdit
import Proofs.LevelReplace
import Proofs.JoinSuccess
import Proofs.Structure
import Proofs.FlatInsertCore
namespace PM

/-! ### the builder when nothing is split -/

theorem liftSide_flat (nodeAt : Nat → Node) (splitsAt : Nat → Bool) (target : Nat) :
    ∀ (n : Nat) (frag : List Node) (opened moved : Nat),
      (∀ i, i < n → splitsAt (target + i + 1) = false) →
      liftSide nodeAt splitsAt target n frag opened moved false = (frag, opened, moved + n)
  | 0, _, _, _, _ => rfl
  | n + 1, frag, opened, moved, h => by
    unfold liftSide
    simp only [Bool.false_or, h n (Nat.lt_succ_self n), Bool.false_eq_true, if_false]
    rw [liftSide_flat nodeAt splitsAt target n frag opened (moved + 1) (fun i hi => h i (by omega))]
    congr 2
    omega

theorem liftFlatGuardR_spec {f t : RPos} {depth target : Nat} (h : liftFlatGuardR f t depth target = true) :
    ∀ i, i < depth - target →
      f.index (target + i + 1) = 0 ∧ ¬ (t.afterT (target + i + 1 + 1) < t.end_ (target + i + 1)) := by
  intro i hi
  simp only [liftFlatGuardR, List.all_eq_true, List.mem_range, Bool.and_eq_true, Bool.not_eq_true',
    decide_eq_false_iff_not] at h
  have := h i hi
  exact ⟨by omega, this.2⟩

/-! ### a nest of only children -/

/-- `wrapIn [w₁, …, wₖ] mid`: the node `w₁(w₂(… wₖ(mid)))`, each the only child of the one above -/
def wrapIn : List (TypeId × Attrs × Marks) → List Node → List Node
  | [], mid => mid
  | w :: ws, mid => [.elem w.1 w.2.1 w.2.2 (wrapIn ws mid)]

def opsOf (ws : List (TypeId × Attrs × Marks)) : List Tok := ws.map fun w => Tok.op w.1 w.2.1 w.2.2

theorem wrapIn_toks : ∀ (ws : List (TypeId × Attrs × Marks)) (mid : List Node),
    ftoks (wrapIn ws mid) = opsOf ws ++ ftoks mid ++ List.replicate ws.length Tok.cl
  | [], mid => by simp [wrapIn, opsOf]
  | w :: ws, mid => by
    simp only [wrapIn, ftoks_cons, ftoks_nil, Node.toks, wrapIn_toks ws mid, opsOf, List.map_cons,
      List.length_cons, List.replicate_succ', List.append_nil, List.cons_append, List.append_assoc]

theorem wrapIn_fsize (ws : List (TypeId × Attrs × Marks)) (mid : List Node) :
    fsize (wrapIn ws mid) = 2 * ws.length + fsize mid := by
  have := congrArg List.length (wrapIn_toks ws mid)
  simp only [ftoks_length, List.length_append, opsOf, List.length_map, List.length_replicate] at this
  omega

theorem opsOf_closesOpens (ws : List (TypeId × Attrs × Marks)) : closesOpens (opsOf ws) = true := by
  apply closesOpens_of_ops
  simp [opsOf, List.all_map, Tok.isOp]

theorem closes_closesOpens : ∀ k : Nat, closesOpens (List.replicate k Tok.cl) = true
  | 0 => rfl
  | k + 1 => by simp only [List.replicate_succ, closesOpens]; exact closes_closesOpens k

/-- a window of a list given as a concatenation -/
theorem window_of_eq {α : Type} (G X Y Z : List α) (h : G = X ++ Y ++ Z) (n k : Nat)
    (hn : n = X.length) (hk : k = Y.length) : (G.drop n).take k = Y := by
  subst hn hk h
  simp

/-! ### what `lift_target`'s `can_replace(index, end_index, content)` establishes -/

theorem nodeCanReplace_valid (S : Schema) (n : Node) (pre post mid : List Node) (c : Node)
    (hk : n.kids = pre ++ c :: post) (hvn : S.validContent (S.tyOf n) n.kids = true)
    (h : S.nodeCanReplace n pre.length (pre.length + 1) mid = some true) :
    S.validContent (S.tyOf n) (pre ++ mid ++ post) = true := by
  have hall := allowsMarks_of_valid S _ _ hvn
  unfold Schema.nodeCanReplace at h
  split at h
  · simp at h
  · unfold Schema.canReplace Schema.contentMatchAt at h
    have e1 : n.kids.take pre.length = pre := by rw [hk]; simp
    have e2 : n.kids.drop (pre.length + 1) = post := by rw [hk]; exact drop_mid pre post c
    simp only [List.take_length, List.drop_zero, e1, e2] at h
    split at h
    · simp at h
    · rename_i q hq
      split at h
      · simp at h
      · rename_i q1 hq1
        split at h
        · simp at h
        · rename_i q2 hq2
          simp only [Option.some.injEq, Bool.and_eq_true, List.all_eq_true] at h
          simp only [Schema.validContent, Bool.and_eq_true, List.all_eq_true]
          constructor
          · unfold Dfa.accepts
            have : S.types (pre ++ mid ++ post) = S.types pre ++ (S.types mid ++ S.types post) := by
              simp [Schema.types]
            rw [this, Dfa.run_append, hq]
            simp only [Option.bind_some]
            rw [Dfa.run_append, hq1]
            simp only [Option.bind_some, hq2]
            exact h.1
          · intro k hkm
            simp only [List.mem_append] at hkm
            rcases hkm with (h' | h') | h'
            · exact hall k (by rw [hk]; simp [h'])
            · exact h.2 k h'
            · exact hall k (by rw [hk]; simp [h'])

/-! ### the path between `target` and `depth` when nothing is split -/

/-- right side: `to.after(d + 1) = to.end(d)` says the node at `d + 1` is the last child of the one at `d` -/
theorem last_child {doc : Node} {pos : Nat} {t : RPos} (ht : doc.resolve pos = some t)
    (hn : fnorm doc.kids = true) (d : Nat) (hd : d < t.depth) (h : ¬ (t.afterT (d + 1) < t.end_ d)) :
    (t.node d).kids.drop (t.index d + 1) = [] := by
  have R := resolve_resolved ht
  obtain ⟨hc, _⟩ := R.chain d hd
  have hs := kids_split _ _ _ hc
  have hp : (t.entry d).pos = t.start d + fsize ((t.node d).kids.take (t.index d)) := (R.entry d (by omega)).pos_eq
  have hnk := fnormKids_of_fnorm (path_fnorm R hn d (by omega))
  have hnd : fnormKids ((t.node d).kids.drop (t.index d + 1)) = true :=
    (fnormKids_iff _).mpr (fun x hx => (fnormKids_iff _).mp hnk x (List.mem_of_mem_drop hx))
  apply fsize_zero_of_fnormKids _ hnd
  have hfs : fsize (t.node d).kids = fsize ((t.node d).kids.take (t.index d)) + (t.node (d + 1)).size
      + fsize ((t.node d).kids.drop (t.index d + 1)) := by
    conv => lhs; rw [hs]
    simp only [fsize_append, fsize_cons]
    omega
  unfold RPos.afterT RPos.end_ at h
  rw [if_neg (by omega)] at h
  simp only [Nat.add_sub_cancel] at h
  omega

/-- between `target` and `depth` every node is the only child of the one above -/
theorem flat_path {doc : Node} {a b : Nat} {f t : RPos} (hf : doc.resolve a = some f)
    (ht : doc.resolve b = some t) (hn : fnorm doc.kids = true) (depth target : Nat)
    (hdf : depth ≤ f.depth) (hdt : depth ≤ t.depth)
    (hsame : ∀ i, i < depth → f.node i = t.node i ∧ f.index i = t.index i)
    (hg : ∀ i, i < depth - target →
      f.index (target + i + 1) = 0 ∧ ¬ (t.afterT (target + i + 1 + 1) < t.end_ (target + i + 1))) :
    ∀ j, j < depth - target → ∃ ws : List (TypeId × Attrs × Marks), ws.length = j ∧
      (f.node (depth - j)).kids = wrapIn ws (f.node depth).kids ∧ f.start depth = f.start (depth - j) + j
  | 0, _ => ⟨[], rfl, rfl, rfl⟩
  | j + 1, hj => by
    obtain ⟨ws, hl, hk, hs⟩ := flat_path hf ht hn depth target hdf hdt hsame hg j (by omega)
    obtain ⟨d', hd'⟩ : ∃ d', depth - (j + 1) = d' := ⟨_, rfl⟩
    have e1 : depth - j = d' + 1 := by omega
    rw [hd']
    rw [e1] at hk hs
    obtain ⟨tyC, aC, mC, kC, e, hsp, hst, _, _⟩ := Resolved.level_deep hf d' (by omega)
    obtain ⟨g1, g2⟩ := hg (d' - target - 1) (by omega)
    rw [show target + (d' - target - 1) + 1 = d' by omega] at g1 g2
    have hlast := last_child ht hn d' (by omega) g2
    obtain ⟨s1, s2⟩ := hsame d' (by omega)
    rw [← s1, ← s2] at hlast
    rw [g1] at hsp hst hlast
    rw [hlast] at hsp
    simp only [List.take_zero, List.nil_append, fsize_nil, Nat.add_zero] at hsp hst
    rw [e] at hk
    simp only [Node.kids] at hk
    refine ⟨(tyC, aC, mC) :: ws, by simp [hl], ?_, by omega⟩
    rw [hsp, hk]
    rfl

/-- `to.after(depth + 1)` as `lift`'s second loop reads it -/
theorem afterT_of_after {t : RPos} {depth ge : Nat}
    (h : t.after (depth + 1) = some ge) : t.afterT (depth + 1) = ge := by
  unfold RPos.after at h
  unfold RPos.afterT
  simp only [Nat.add_eq_zero_iff, Nat.succ_ne_self, and_false, if_false] at h
  split at h
  · rename_i h1
    simp only [Option.some.injEq] at h
    rw [if_pos h1]; exact h
  · rename_i h1
    rw [if_neg h1]
    split at h
    · simpa using h
    · simp at h

/-- `Slice.empty.insert_at(0, content)` is the content, closed -/
theorem insertAt_empty (S : Schema) (mid : List Node) :
    Slice.insertAt S ⟨[], 0, 0⟩ 0 mid = .ok (some ⟨mid, 0, 0⟩) := by
  have : fappend (fappend [] mid) [] = mid := by
    cases mid <;> simp [fappend]
  rw [insertAt_of_le (by simp [Slice.size])]
  simp [Slice.insertAtIn, insertInto, flatInsert, fcut, this]

/-! ### an approved lift that splits nothing applies -/

/-- **`lift_target` approves ∧ nothing is split ∧ `TextStable` ⇒ the lift step applies**, and its payload (the
    gap's content placed in the empty slice) is valid -/
theorem lift_flat_applies (S : Schema) (hts : TextStableP S) (ty0 : TypeId) (a0 : Attrs) (m0 : Marks)
    (K : List Node) (a b depth target : Nat) (f t : RPos) (st : Step)
    (hf : (Node.elem ty0 a0 m0 K).resolve a = some f) (ht : (Node.elem ty0 a0 m0 K).resolve b = some t)
    (hv : S.checkNode (.elem ty0 a0 m0 K) = true) (hn : fnorm K = true)
    (hab : a ≤ b) (hend : b ≤ f.end_ depth)
    (hfb : depth < f.depth ∨ f.textOffset = 0) (htb : depth < t.depth ∨ t.textOffset = 0)
    (hg : liftFlatGuardR f t depth target = true)
    (hc : liftTargetR S f t depth = some (some target))
    (hb : liftStepR f t depth target = .ok st) :
    (∃ doc', S.apply st (.elem ty0 a0 m0 K) = .ok doc') ∧
    ∃ f' t' gs ge, st = .replaceAround f' t' gs ge ⟨[], 0, 0⟩ 0 true ∧
      ∀ gap ins, (Node.elem ty0 a0 m0 K).slice gs ge = .ok gap →
        Slice.insertAt S ⟨[], 0, 0⟩ 0 gap.content = .ok (some ins) →
        openValid S ins.openStart ins.openEnd ins.content = true := by
  have Rf := resolve_resolved hf
  have Rt := resolve_resolved ht
  -- the approval
  unfold liftTargetR at hc
  split at hc
  · simp at hc
  rename_i hdd
  simp only [Bool.or_eq_true, decide_eq_true_eq, not_or, Nat.not_lt] at hdd
  obtain ⟨hdf, hdt⟩ := hdd
  obtain ⟨_, htd, hcr, _⟩ := liftLoop_spec S f t depth _ depth target hc
  have G := liftFlatGuardR_spec hg
  -- the step
  unfold liftStepR at hb
  cases hgs : f.before (depth + 1) with
  | none => simp [hgs] at hb
  | some gs =>
  cases hge : t.after (depth + 1) with
  | none => simp [hgs, hge] at hb
  | some ge =>
  simp only [hgs, hge] at hb
  rw [liftSide_flat _ _ _ _ _ _ _ (fun i hi => by simp [(G i hi).1]),
    liftSide_flat _ _ _ _ _ _ _ (fun i hi => by simpa using (G i hi).2)] at hb
  simp only [Nat.zero_add, fappend, fsize_nil, Nat.sub_zero, Except.ok.injEq] at hb
  subst hb
  -- the range: all children of the node at `depth`
  obtain ⟨pre, mid, post, hkD, hnodeD, hpre, hmid, hpost, _, _, hgs', hge'⟩ :=
    range_level hf ht hn depth hab hdf hdt hend hfb htb gs ge hgs hge
  have pf := Rf.pos_in depth hdf
  have pt := Rt.pos_in depth hdt
  have same := same_ancestors Rf Rt depth b hdf hdt (by omega) hend pt.1 pt.2
  have hsame : ∀ i, i < depth → f.node i = t.node i ∧ f.index i = t.index i :=
    fun i hi => ⟨(same i (by omega)).1, (same i (by omega)).2.2.2 hi⟩
  obtain ⟨gD1, gD2⟩ := G (depth - target - 1) (by omega)
  rw [show target + (depth - target - 1) + 1 = depth by omega] at gD1 gD2
  have hnD := path_fnorm Rf hn depth hdf
  have hpre0 : pre = [] := by rw [hpre, gD1]; rfl
  subst hpre0
  have hpost0 : post = [] := by
    apply fsize_zero_of_fnormKids
    · rw [hkD] at hnD
      exact fnormKids_of_fnorm (fnorm_append_right hnD)
    · rw [afterT_of_after hge] at gD2
      have := (same depth (Nat.le_refl _)).2.1
      unfold RPos.end_ at gD2
      rw [hnodeD, hkD, ← this] at gD2
      simp only [fsize_append, fsize_nil] at gD2 hge'
      omega
  subst hpost0
  simp only [List.nil_append, List.append_nil, fsize_nil, Nat.zero_add, Nat.add_zero] at hkD hgs' hge'
  subst hgs'
  subst hge'
  -- the path from `target` to `depth`
  obtain ⟨ws, hwl, hwk, hws⟩ := flat_path hf ht hn depth target hdf hdt hsame G (depth - target - 1) (by omega)
  rw [show depth - (depth - target - 1) = target + 1 by omega] at hwk hws
  rw [hkD] at hwk
  obtain ⟨tyC, aC, mC, kC, eC, hspT, hstT, _, _⟩ := Resolved.level_deep hf target (by omega)
  rw [eC] at hwk
  simp only [Node.kids] at hwk
  subst hwk
  generalize hpreT : (f.node target).kids.take (f.index target) = preT at hspT hstT
  generalize hpostT : (f.node target).kids.drop (f.index target + 1) = postT at hspT
  have hprelen : preT.length = f.index target := by
    rw [← hpreT, List.length_take]
    have := Rf.index_le target (by omega)
    omega
  -- the two levels
  obtain ⟨tyP, aP, mP, ctx, eP, hlT⟩ := Resolved.lvl hf hn target (by omega)
  obtain ⟨tyD, aD, mD, ctxD, eD, hlD⟩ := Resolved.lvl hf hn depth hdf
  have hnT := hlT.norm hn
  have hnmid : fnorm mid = true := by rw [← hkD]; exact hnD
  have hszN : fsize [Node.elem tyC aC mC (wrapIn ws mid)] = 2 * (depth - target) + fsize mid := by
    have := wrapIn_fsize ((tyC, aC, mC) :: ws) mid
    simp only [wrapIn, List.length_cons, hwl] at this
    rw [this]; omega
  have hspT' : (f.node target).kids = preT ++ [Node.elem tyC aC mC (wrapIn ws mid)] ++ postT := by
    rw [hspT]; simp
  rw [hspT'] at hlT hnT
  have hrT := hlT.range
  -- validity of the new child list of the node at `target`
  have hvP := path_valid S Rf hv target (by omega)
  have hvnP : S.validContent (S.tyOf (f.node target)) (f.node target).kids = true :=
    validContent_of_checkNode S _ tyP aP mP eP hvP
  have htyP : S.tyOf (f.node target) = tyP := by rw [eP]; rfl
  have hia : t.indexAfter target = f.index target + 1 := by
    unfold RPos.indexAfter
    rw [if_neg (by simp; omega), (hsame target htd).2]
  have hvnew : S.validContent tyP (preT ++ mid ++ postT) = true := by
    rw [← htyP]
    refine nodeCanReplace_valid S (f.node target) preT postT mid _ hspT hvnP ?_
    rw [hprelen, ← hia, hmid]
    exact hcr
  -- the replace
  have hrep := replaceKids_children hts hlT mid hnmid hnT hvnew
  rw [hszN] at hrep
  -- the gap
  have hlD' : Lvl ty0 K (f.start depth) depth tyD ([] ++ mid ++ []) ctxD := by
    rw [hkD] at hlD; simpa using hlD
  have hslice := sliceKids_children hlD' (by simpa using hnmid)
  simp only [fsize_nil, Nat.add_zero, Nat.zero_add] at hslice
  -- positions
  have hpos1 : f.start depth - (depth - target) = f.start target + fsize preT := by omega
  have hpos2 : f.start depth + fsize mid + (depth - target) = f.start target + (fsize preT + (2 * (depth - target) + fsize mid)) := by
    omega
  -- tokens around the gap
  obtain ⟨A, D, hA, hX⟩ := hlT.toks
  have hK : ftoks K = A ++ ftoks (preT ++ [Node.elem tyC aC mC (wrapIn ws mid)] ++ postT) ++ D := by
    rw [← hX, hlT.ctx_self]
  have hwt := wrapIn_toks ((tyC, aC, mC) :: ws) mid
  simp only [wrapIn] at hwt
  have hsz : fsize (preT ++ [Node.elem tyC aC mC (wrapIn ws mid)] ++ postT)
      = fsize preT + (2 * (depth - target) + fsize mid) + fsize postT := by
    rw [fsize_append, fsize_append, hszN]
  have hopl : (opsOf ((tyC, aC, mC) :: ws)).length = depth - target := by
    simp [opsOf, hwl]; omega
  have hcb1 : contentBetween (Node.elem ty0 a0 m0 K) (f.start depth - (depth - target)) (f.start depth) = some false := by
    refine contentBetween_closesOpens (Node.elem ty0 a0 m0 K) _ _ hn (by omega)
      (by show _ ≤ fsize K; omega) ?_
    show closesOpens (((ftoks K).drop _).take _) = true
    rw [window_of_eq (ftoks K) (A ++ ftoks preT) (opsOf ((tyC, aC, mC) :: ws))
      (ftoks mid ++ List.replicate ((tyC, aC, mC) :: ws).length Tok.cl ++ ftoks postT ++ D)
      (by rw [hK, ftoks_append, ftoks_append, hwt]; simp only [List.append_assoc]) _ _
      (by rw [List.length_append, hA, ftoks_length]; omega) (by rw [hopl]; omega)]
    exact opsOf_closesOpens _
  have hcb2 : contentBetween (Node.elem ty0 a0 m0 K) (f.start depth + fsize mid)
      (f.start depth + fsize mid + (depth - target)) = some false := by
    refine contentBetween_closesOpens (Node.elem ty0 a0 m0 K) _ _ hn (by omega)
      (by show _ ≤ fsize K; omega) ?_
    show closesOpens (((ftoks K).drop _).take _) = true
    rw [window_of_eq (ftoks K) (A ++ ftoks preT ++ opsOf ((tyC, aC, mC) :: ws) ++ ftoks mid)
      (List.replicate ((tyC, aC, mC) :: ws).length Tok.cl) (ftoks postT ++ D)
      (by rw [hK, ftoks_append, ftoks_append, hwt]; simp only [List.append_assoc]) _ _
      (by simp only [List.length_append, hA, ftoks_length, hopl]; omega)
      (by simp [hwl]; omega)]
    exact closes_closesOpens _
  constructor
  · simp only [Schema.apply, if_true, hcb1, hcb2, Node.slice, Node.kids, hslice,
      insertAt_empty, Schema.fromReplace, Schema.replace]
    rw [hpos1, hpos2, hrep]
    exact ⟨_, rfl⟩
  · refine ⟨_, _, _, _, rfl, ?_⟩
    intro gap ins h1 h2
    simp only [Node.slice, Node.kids, hslice, Except.ok.injEq] at h1
    subst h1
    rw [insertAt_empty] at h2
    simp only [Except.ok.injEq, Option.some.injEq] at h2
    subst h2
    have hvc : S.validContent ty0 K = true ∧ S.checkKids K = true := by
      rw [checkNode_elem] at hv
      simp only [Bool.and_eq_true] at hv
      exact ⟨hv.1.1, hv.2⟩
    obtain ⟨_, ck, _⟩ := hlD.valid hvc.1 hvc.2 hn
    rw [hkD] at ck
    simpa [openValid, rightOpenValid] using ck

end PM
