/-
  Proofs/OpGuardWrap.lean — the hypotheses of `replaceAround_undo_structural` (Props/C04.lean) for the
  replace-around steps that `Transform.wrap` (`wrapStep`, PM/StructEdit.lean) and
  `set_node_markup`/`set_block_type` (`retypeStep`, PM/TypePlan.lean) emit, from "the step applied" alone.
-/
import Proofs.UndoStructure
import Proofs.WrapSuccess
import Proofs.StructEdit
import Proofs.UndoFit
import Proofs.TypePlan
import PM.UndoGuard
namespace PM

/-! ### tokens of a nest: opens, then closes -/

theorem closesOpens_replicate_cl : ∀ k : Nat, closesOpens (List.replicate k Tok.cl) = true
  | 0 => rfl
  | k + 1 => by simp only [List.replicate_succ, closesOpens]; exact closesOpens_replicate_cl k

theorem IsNest.ftoks_eq {k : Nat} {l : List Node} (h : IsNest k l) :
    ∃ ops : List Tok, ops.length = k ∧ ops.all Tok.isOp = true ∧ ftoks l = ops ++ List.replicate k Tok.cl := by
  induction h with
  | nil => exact ⟨[], rfl, rfl, by simp [ftoks]⟩
  | @cons k l t a m _ ih =>
    obtain ⟨ops, h1, h2, h3⟩ := ih
    refine ⟨Tok.op t a m :: ops, by simp [h1], by simp [Tok.isOp, h2], ?_⟩
    have e : ftoks [Node.elem t a m l] = [Tok.op t a m] ++ (ftoks l ++ [Tok.cl]) := by simp [ftoks, Node.toks]
    rw [e, h3, List.replicate_succ']
    simp

theorem IsNest.closesOpens_take {k : Nat} {l : List Node} (h : IsNest k l) :
    closesOpens ((ftoks l).take k) = true ∧ closesOpens ((ftoks l).drop k) = true := by
  obtain ⟨ops, h1, h2, h3⟩ := h.ftoks_eq
  rw [h3]
  constructor
  · rw [List.take_append_of_le_length (by omega), List.take_of_length_le (by omega)]
    exact closesOpens_of_ops _ h2
  · rw [List.drop_append_of_le_length (by omega), List.drop_of_length_le (by omega)]
    simpa using closesOpens_replicate_cl k

/-! ### `gapClean` when the gap is a run of whole children starting the list -/

theorem gapEnd_none_prefix : ∀ (l r : List Node), gapEnd none (l ++ r) (fsize l) = true
  | [], [] => by simp [gapEnd]
  | [], n :: ns => by simp [gapEnd, seamFree]
  | n :: ns, r => by
    have ih := gapEnd_none_prefix ns r
    simp only [List.cons_append, gapEnd, fsize_cons]
    split
    · rfl
    · simp only [Nat.le_add_right, decide_true, Bool.true_and, Nat.add_sub_cancel_left]
      exact ih

theorem gapClean_whole (l : List Node) : gapClean l none 0 (fsize l) = true := by
  cases l with
  | nil => simp [gapClean]
  | cons n ns =>
    have := gapEnd_none_prefix (n :: ns) []
    simp only [List.append_nil] at this
    unfold gapClean
    rw [if_pos rfl]
    exact this

/-! ### the converse of `insertInto_wrapNest` -/

theorem flatInsert_empty_inv (S : Schema) (mid : List Node) (p : Option TypeId) (c : List Node)
    (h : flatInsert S mid p [] 0 0 = .ok (some c)) :
    c = mid ∧ ∀ t, p = some t → S.validContent t mid = true := by
  have hgo : fappend (fappend [] mid) [] = mid := by
    cases mid <;> simp [fappend]
  obtain ⟨l, r, hl, hr, rfl, hv⟩ := flatInsert_ok_iff.1 h
  have el : l = [] := by simpa [fcut] using hl.symm
  have er : r = [] := by simpa [fcut] using hr.symm
  subst el er
  rw [hgo] at hv ⊢
  exact ⟨rfl, hv⟩

/-- **if the insertion into the nest succeeds, it filled the innermost wrapper**, and that wrapper
    accepts the inserted nodes (types and marks) -/
theorem insertInto_wrapNest_inv (S : Schema) (mid : List Node) :
    ∀ (as : List (TypeId × Attrs)) (p : Option TypeId) (c : List Node),
    insertInto S mid p (wrapNest as []) as.length 0 (wrapNest as []) as.length 0 0 = .ok (some c) →
    c = wrapNest as mid ∧ ∀ t, innerParent p as = some t → S.validContent t mid = true
  | [], p, c, h => by
    simp only [wrapNest, List.length_nil, innerParent] at h ⊢
    unfold insertInto at h
    simp only [if_true] at h
    exact flatInsert_empty_inv S mid p c h
  | (ty, a) :: rest, p, c, h => by
    have hsz := fsize_wrapNest rest []
    simp only [wrapNest, List.length_cons] at h
    unfold insertInto at h
    rw [if_neg (by omega), if_neg (by simp [hsz]; omega)] at h
    simp only [Nat.lt_irrefl, decide_false, Bool.false_and, Bool.or_self, Bool.false_eq_true, if_false,
      Nat.add_sub_cancel] at h
    cases hr : insertInto S mid (some ty) (wrapNest rest []) rest.length 0 (wrapNest rest []) rest.length 0 0 with
    | error e => simp [hr] at h
    | ok o =>
      cases o with
      | none => simp [hr] at h
      | some inner =>
        obtain ⟨h1, h2⟩ := insertInto_wrapNest_inv S mid rest (some ty) inner hr
        simp only [hr, List.set_cons_zero, Except.ok.injEq, Option.some.injEq] at h
        subst h h1
        exact ⟨rfl, h2⟩

theorem insertAt_wrapNest_inv (S : Schema) (mid : List Node) (as : List (TypeId × Attrs)) (insd : Slice)
    (h : Slice.insertAt S ⟨wrapNest as [], 0, 0⟩ as.length mid = .ok (some insd)) :
    insd = ⟨wrapNest as mid, 0, 0⟩ ∧ ∀ w, as.getLast? = some w → S.validContent w.1 mid = true := by
  rw [insertAt_of_le (insertAt_ok h).1] at h
  simp only [Slice.insertAtIn, Nat.add_zero] at h
  cases hr : insertInto S mid none (wrapNest as []) as.length 0 (wrapNest as []) as.length 0 0 with
  | error e => simp [hr] at h
  | ok o =>
    cases o with
    | none => simp [hr] at h
    | some c =>
      obtain ⟨h1, h2⟩ := insertInto_wrapNest_inv S mid as none c hr
      simp only [hr, Except.ok.injEq, Option.some.injEq] at h
      subst h h1
      exact ⟨rfl, fun w hw => h2 w.1 (innerParent_last as none w hw)⟩

/-! ### the step `Transform.wrap` emits -/

theorem before_some_depth {r : RPos} {d g : Nat} (hb : r.before (d + 1) = some g) : d ≤ r.depth := by
  unfold RPos.before at hb
  simp only [Nat.add_eq_zero_iff, Nat.succ_ne_self, and_false, if_false] at hb
  split at hb
  · omega
  · split at hb
    · omega
    · simp at hb

theorem after_some_depth {r : RPos} {d g : Nat} (ha : r.after (d + 1) = some g) : d ≤ r.depth := by
  unfold RPos.after at ha
  simp only [Nat.add_eq_zero_iff, Nat.succ_ne_self, and_false, if_false] at ha
  split at ha
  · omega
  · split at ha
    · omega
    · simp at ha

/-- **the hypotheses of `replaceAround_undo_structural` for the step `Transform.wrap` emits**, from
    "the step applied": valid normal-form document, a node range whose two ends are child boundaries of
    the node at `depth`, non-leaf wrappers. -/
theorem wrap_guard_parts (S : Schema) (doc doc' : Node) (a b depth : Nat) (ws : List (TypeId × Attrs)) (st : Step)
    (rf rt : RPos)
    (hv : S.checkNode doc = true) (hn : fnorm doc.kids = true)
    (hf : doc.resolve a = some rf) (ht : doc.resolve b = some rt)
    (hab : a ≤ b) (hend : b ≤ rf.end_ depth)
    (hfb : depth < rf.depth ∨ rf.textOffset = 0) (htb : depth < rt.depth ∨ rt.textOffset = 0)
    (hl : ∀ w ∈ ws, (S.nodeType w.1).isLeaf = false)
    (hb : wrapStep S doc a b depth ws = .ok st) (h : S.apply st doc = .ok doc') :
    ∃ f t gf gt sl ins, st = .replaceAround f t gf gt sl ins true ∧
      fnorm sl.content = true ∧ sl.wf = true ∧ (ins : Int) ≤ sl.size ∧ (f ≤ gf ∧ gf ≤ gt ∧ gt ≤ t) ∧
      (∀ gap insd, doc.slice gf gt = .ok gap → sl.insertAt S ins gap.content = .ok (some insd) →
        openValid S insd.openStart insd.openEnd insd.content = true) ∧
      (contentBetween doc' f (f + ins) = some false ∧
        contentBetween doc' (f + ins + (gt - gf)) (f + sl.size.toNat + (gt - gf)) = some false) ∧
      (∀ old, doc.slice f t = .ok old →
        gapClean old.content none (gf - f + old.openStart) (gt - f + old.openStart) = true) := by
  unfold wrapStep at hb
  simp only [hf, ht] at hb
  unfold wrapStepR at hb
  cases hc : wrapContent S ws with
  | error e => simp [hc] at hb
  | ok content =>
    cases hgs : rf.before (depth + 1) with
    | none => simp [hc, hgs] at hb
    | some gs =>
      cases hge : rt.after (depth + 1) with
      | none => simp [hc, hgs, hge] at hb
      | some ge =>
        simp only [hc, hgs, hge, Except.ok.injEq] at hb
        subst hb
        have hdf := before_some_depth hgs
        have hdt := after_some_depth hge
        obtain ⟨gap0, ins0, _, _, _, _, hfr⟩ := apply_replaceAround_parts S doc doc' gs ge gs ge _ _ _ h
        obtain ⟨ty0, a0, m0, K, K', rfl, rfl, _⟩ := fromReplace_elem S _ _ gs ge ins0 hfr
        simp only [Node.kids] at hn
        have Rf := resolve_resolved hf
        have hnest := wrapContent_nest S ws content hl hc
        obtain ⟨as, has, hcont, hchain⟩ := wrapContent_spec S ws content hl hc
        subst hcont
        have hlen : as.length = ws.length := by
          have := congrArg List.length has
          simpa using this
        rw [← hlen] at hnest h ⊢
        obtain ⟨pre, mid, post, hk, _, hpre, hmid, hpost, hij, hial, egs, ege⟩ :=
          range_level hf ht (by simpa [Node.kids] using hn) depth hab hdf hdt hend hfb htb gs ge hgs hge
        obtain ⟨tyP, aP, mP, ctx, eP, hlv⟩ := Resolved.lvl hf hn depth hdf
        have hnl := hlv.norm hn
        have hcn := path_valid S Rf hv depth hdf
        have hck : S.checkKids (rf.node depth).kids = true := by
          rw [eP, checkNode_elem] at hcn
          simp only [Bool.and_eq_true] at hcn
          exact hcn.2
        have hckm : S.checkKids mid = true := by
          rw [hk, checkKids_append, checkKids_append] at hck
          simp only [Bool.and_eq_true] at hck
          exact hck.1.2
        rw [hk] at hlv hnl
        have hsl : (Node.elem ty0 a0 m0 K).slice gs ge = .ok ⟨mid, 0, 0⟩ := by
          have := sliceKids_children hlv hnl
          rw [← egs, ← ege] at this
          exact this
        have hsn : fnorm (wrapNest as ([] : List Node)) = true := fnorm_wrapNest as [] rfl
        have hwf : (⟨wrapNest as [], 0, 0⟩ : Slice).wf = true := by simp [Slice.wf]
        have hsz : (⟨wrapNest as [], 0, 0⟩ : Slice).size = 2 * (as.length : Int) := by
          simp only [Slice.size, fsize_wrapNest, fsize_nil]; omega
        have hins : (as.length : Int) ≤ (⟨wrapNest as [], 0, 0⟩ : Slice).size := by rw [hsz]; omega
        have hg : gs ≤ gs ∧ gs ≤ ge ∧ ge ≤ ge := ⟨Nat.le_refl _, by omega, Nat.le_refl _⟩
        refine ⟨gs, ge, gs, ge, ⟨wrapNest as [], 0, 0⟩, as.length, rfl, hsn, hwf, hins, hg, ?_, ?_, ?_⟩
        · intro gap insd hgap hi
          rw [hsl] at hgap
          simp only [Except.ok.injEq] at hgap
          subst hgap
          obtain ⟨e, hvl⟩ := insertAt_wrapNest_inv S mid as insd hi
          subst e
          simp only [openValid, rightOpenValid]
          exact checkKids_wrapNest S mid hckm as hchain hvl
        · refine replaceAround_hst_of_wrappers S (.elem ty0 a0 m0 K) _ gs ge gs ge _ as.length true hn hsn hwf hins hg h ?_
          rw [Slice.toks_closed]
          exact hnest.closesOpens_take
        · intro old hold
          rw [hsl] at hold
          simp only [Except.ok.injEq] at hold
          subst hold
          have e1 : gs - gs + 0 = 0 := by omega
          have e2 : ge - gs + 0 = fsize mid := by omega
          simp only [e1, e2]
          exact gapClean_whole mid

/-! ### the step `set_node_markup` / `set_block_type` emit -/

/-- the element node `node_at(pos)` finds is a whole child of a level of the document, starting at `pos` -/
theorem nodeAtKids_lvl (tyN : TypeId) (aN : Attrs) (mN : Marks) (kN : List Node) (kids : List Node) (pos : Nat)
    (hn : fnormKids kids = true) (h : nodeAtKids kids pos = .ok (some (.elem tyN aN mN kN))) :
    ∀ ty, ∃ b nd tyP pre post ctx, Lvl ty kids b nd tyP (pre ++ [.elem tyN aN mN kN] ++ post) ctx ∧
      pos = b + fsize pre ∧ fnormKids pre = true := by
  fun_induction nodeAtKids kids pos
  case case1 => simp at h
  case case2 => simp at h
  case case3 n' ns =>
    simp only [Except.ok.injEq, Option.some.injEq] at h; subst h
    intro ty
    exact ⟨0, 0, ty, [], ns, id, Lvl.here ty _, by simp, rfl⟩
  case case4 n' ns pos h0 h1 ih =>
    simp only [fnormKids_cons, Bool.and_eq_true] at hn
    intro ty
    obtain ⟨b, nd, tyP, pre, post, ctx, hl, hpos, hpre⟩ := ih hn.2 h ty
    generalize hL : pre ++ [Node.elem tyN aN mN kN] ++ post = L at hl
    cases hl with
    | here =>
      refine ⟨0, 0, ty, n' :: pre, post, id, ?_, by simp; omega, by simp [hn.1, hpre]⟩
      rw [← hL]
      exact Lvl.here ty _
    | @down tyC _ kidsC _ b0 nd0 ctx0 _ pre0 aC mC ns0 hp0 hl0 =>
      have := Lvl.down ty (n' :: pre0) aC mC ns0 (by simp [hn.1, hp0]) hl0
      subst hL
      exact ⟨fsize (n' :: pre0) + 1 + b0, nd0 + 1, tyP, pre, post,
        (fun X => (n' :: pre0) ++ Node.elem tyC aC mC (ctx0 X) :: ns0), this, by simp; omega, hpre⟩
  case case5 ns pos h0 ty' ats mk k h1 ih =>
    simp only [fnormKids_cons, Bool.and_eq_true, Node.norm_elem] at hn
    intro ty
    obtain ⟨b, nd, tyP, pre, post, ctx, hl, hpos, hpre⟩ := ih (fnormKids_of_fnorm hn.1) h ty'
    have := Lvl.down ty [] ats mk ns rfl hl
    exact ⟨fsize [] + 1 + b, nd + 1, tyP, pre, post,
      (fun X => [] ++ Node.elem ty' ats mk (ctx X) :: ns), this, by simp; omega, hpre⟩
  case case6 n' ns pos h0 h1 hne =>
    simp only [Except.ok.injEq, Option.some.injEq] at h; subst h
    exact (hne _ _ _ _ rfl).elim

/-- `Slice.insert_at(1, k)` on the closed slice of one empty element node: if it succeeds it filled that
    node, and the node accepts `k` (types and marks) -/
theorem insertAt_single_inv (S : Schema) (ty : TypeId) (a : Attrs) (m : Marks) (k : List Node) (insd : Slice)
    (h : Slice.insertAt S ⟨[.elem ty a m []], 0, 0⟩ 1 k = .ok (some insd)) :
    insd = ⟨[.elem ty a m k], 0, 0⟩ ∧ S.validContent ty k = true := by
  rw [insertAt_of_le (insertAt_ok h).1] at h
  simp only [Slice.insertAtIn, Nat.add_zero] at h
  unfold insertInto at h
  rw [if_neg (by omega), if_neg (by simp)] at h
  simp only [Nat.lt_irrefl, decide_false, Bool.false_and, Bool.or_self, Bool.false_eq_true, if_false,
    Nat.sub_self] at h
  unfold insertInto at h
  simp only [if_true] at h
  cases hr : flatInsert S k (some ty) [] 0 0 with
  | error e => simp [hr] at h
  | ok o =>
    cases o with
    | none => simp [hr] at h
    | some inner =>
      obtain ⟨h1, h2⟩ := flatInsert_empty_inv S k (some ty) inner hr
      simp only [hr, List.set_cons_zero, Except.ok.injEq, Option.some.injEq] at h
      subst h h1
      exact ⟨rfl, h2 ty rfl⟩

/-- **the hypotheses of `replaceAround_undo_structural` for the step `set_node_markup` /
    `set_block_type` emit** (`retypeStep`), from "the step applied": valid normal-form document, `node_at(pos)`
    finds a non-leaf node, the new node is an empty element node with a canonical mark set (what
    `Schema.createNode` returns for a non-leaf type; a leaf `nn` is the open finding C04-leaf-retype). -/
theorem retype_guard_parts (S : Schema) (doc doc' node nn : Node) (pos : Nat)
    (hv : S.checkNode doc = true) (hn : fnorm doc.kids = true)
    (hna : doc.nodeAt pos = .ok (some node)) (hnl : node.isLeaf = false)
    (hnn : ∃ ty a m, nn = .elem ty a m [] ∧ canonicalMarks S m = true)
    (h : S.apply (retypeStep pos (pos + node.size) nn) doc = .ok doc') :
    fnorm (⟨[nn], 0, 0⟩ : Slice).content = true ∧ (⟨[nn], 0, 0⟩ : Slice).wf = true ∧
      ((1 : Nat) : Int) ≤ (⟨[nn], 0, 0⟩ : Slice).size ∧
      (pos ≤ pos + 1 ∧ pos + 1 ≤ pos + node.size - 1 ∧ pos + node.size - 1 ≤ pos + node.size) ∧
      (∀ gap insd, doc.slice (pos + 1) (pos + node.size - 1) = .ok gap →
        (⟨[nn], 0, 0⟩ : Slice).insertAt S 1 gap.content = .ok (some insd) →
        openValid S insd.openStart insd.openEnd insd.content = true) ∧
      (contentBetween doc' pos (pos + 1) = some false ∧
        contentBetween doc' (pos + 1 + (pos + node.size - 1 - (pos + 1)))
          (pos + (⟨[nn], 0, 0⟩ : Slice).size.toNat + (pos + node.size - 1 - (pos + 1))) = some false) ∧
      (∀ old, doc.slice pos (pos + node.size) = .ok old →
        gapClean old.content none (pos + 1 - pos + old.openStart) (pos + node.size - 1 - pos + old.openStart)
          = true) := by
  obtain ⟨ty, a, m, rfl, hcm⟩ := hnn
  cases node with
  | text s ms => simp [Node.isLeaf] at hnl
  | leaf t' a' m' => simp [Node.isLeaf] at hnl
  | elem tyN aN mN kN =>
    unfold retypeStep at h
    obtain ⟨gap0, ins0, _, _, _, _, hfr⟩ := apply_replaceAround_parts S doc doc' _ _ _ _ _ _ _ h
    obtain ⟨ty0, a0, m0, K, K', rfl, rfl, _⟩ := fromReplace_elem S _ _ _ _ ins0 hfr
    simp only [Node.kids] at hn
    have hna' : nodeAtKids K pos = .ok (some (.elem tyN aN mN kN)) := hna
    -- the node found is valid
    have hckK : S.checkKids K = true := by
      rw [checkNode_elem] at hv
      simp only [Bool.and_eq_true] at hv
      exact hv.2
    have hvN := nodeAtKids_valid S K pos _ hckK hna'
    have hckN : S.checkKids kN = true := by
      rw [checkNode_elem] at hvN
      simp only [Bool.and_eq_true] at hvN
      exact hvN.2
    -- the node as a whole child of a level
    obtain ⟨b, nd, tyP, pre, post, ctx, hl, hpos, hpre⟩ :=
      nodeAtKids_lvl tyN aN mN kN K pos (fnormKids_of_fnorm hn) hna' ty0
    have hnL := hl.norm hn
    have hsl : (Node.elem ty0 a0 m0 K).slice pos (pos + (Node.elem tyN aN mN kN).size) =
        .ok ⟨[.elem tyN aN mN kN], 0, 0⟩ := by
      have := sliceKids_children hl hnL
      simp only [fsize_cons, fsize_nil, Nat.add_zero] at this
      rw [hpos, Nat.add_assoc]
      exact this
    have hl2 := hl.snoc pre tyN aN mN kN post (by simp) hpre
    have hnk : fnorm kN = true := hl2.norm hn
    have hgsl : (Node.elem ty0 a0 m0 K).slice (pos + 1) (pos + (Node.elem tyN aN mN kN).size - 1) =
        .ok ⟨kN, 0, 0⟩ := by
      have e : kN = [] ++ kN ++ [] := by simp
      rw [e] at hl2 hnk
      have := sliceKids_children hl2 hnk
      simp only [fsize_nil, Nat.add_zero, Nat.zero_add] at this
      rw [hpos, Node.size_elem, show b + fsize pre + (2 + fsize kN) - 1 = b + fsize pre + 1 + fsize kN by omega]
      exact this
    have hsn : fnorm [Node.elem ty a m []] = true := by
      simp [fnorm, fnormKids, Node.norm, chainOk]
    have hwf : (⟨[Node.elem ty a m []], 0, 0⟩ : Slice).wf = true := by simp [Slice.wf]
    have hsz : (⟨[Node.elem ty a m []], 0, 0⟩ : Slice).size = 2 := by simp [Slice.size]
    have hins : ((1 : Nat) : Int) ≤ (⟨[Node.elem ty a m []], 0, 0⟩ : Slice).size := by rw [hsz]; omega
    have hg : pos ≤ pos + 1 ∧ pos + 1 ≤ pos + (Node.elem tyN aN mN kN).size - 1 ∧
        pos + (Node.elem tyN aN mN kN).size - 1 ≤ pos + (Node.elem tyN aN mN kN).size := by
      simp only [Node.size_elem]; omega
    refine ⟨hsn, hwf, hins, hg, ?_, ?_, ?_⟩
    · intro gap insd hgap hi
      rw [hgsl] at hgap
      simp only [Except.ok.injEq] at hgap
      subst hgap
      obtain ⟨e, hvl⟩ := insertAt_single_inv S ty a m kN insd hi
      subst e
      simp only [openValid, rightOpenValid, checkKids_cons, checkKids_nil, checkNode_elem, hvl, hcm, hckN,
        Bool.and_self]
    · refine replaceAround_hst_of_wrappers S (.elem ty0 a0 m0 K) _ _ _ _ _ _ 1 true hn hsn hwf hins hg h ?_
      rw [Slice.toks_closed]
      simp [ftoks, Node.toks, closesOpens]
    · intro old hold
      rw [hsl] at hold
      simp only [Except.ok.injEq] at hold
      subst hold
      have e1 : pos + 1 - pos + 0 = 1 := by omega
      have e2 : pos + (Node.elem tyN aN mN kN).size - 1 - pos + 0 = 1 + fsize kN := by
        simp only [Node.size_elem]; omega
      simp only [e1, e2]
      unfold gapClean
      rw [if_neg (by omega), if_neg (by simp only [Node.size_elem]; omega)]
      simp only [Node.size_elem, Nat.add_sub_cancel_left, Nat.sub_self, Bool.and_eq_true, decide_eq_true_eq]
      exact ⟨by omega, gapClean_whole kN⟩

end PM
