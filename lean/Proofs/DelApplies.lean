/-
  Proofs/DelApplies.lean — **the replace step `Fitter.fit` emits for a deletion applies** (C11 `delete_applies`):
  `Fitter.__init__` + `close` computed explicitly (Proofs/DelRun.lean), the facts the run establishes
  (Proofs/DelFacts.lean, Proofs/DelBridge.lean), and `delete_merged` (Proofs/DelAssemble.lean).
-/
import Proofs.DelBridge
namespace PM
open PM.FromDom (LeafOk)

theorem leftS_length_one : ∀ (frs : List Frame) (fills : List (List Node)) (X : List Node), frs ≠ [] → fills ≠ [] →
    (leftS frs fills X).length = 1
  | [], _, _, h, _ => absurd rfl h
  | _ :: _, [], _, _, h => absurd rfl h
  | _ :: _, _ :: _, _, _, _ => rfl

theorem rightS_length_one : ∀ (frs : List Frame) (adds : List (List Node)), frs ≠ [] → adds ≠ [] →
    (rightS frs adds).length = 1
  | [], _, h, _ => absurd rfl h
  | _ :: _, [], _, h => absurd rfl h
  | _ :: _, _ :: _, _, _ => rfl

theorem rightS_size_ge : ∀ (frs : List Frame) (adds : List (List Node)), frs.length = adds.length →
    2 * frs.length ≤ fsize (rightS frs adds)
  | [], _, _ => by simp
  | _ :: _, [], h => by simp at h
  | fr :: frs, add :: adds, h => by
    simp only [List.length_cons, Nat.add_right_cancel_iff] at h
    have := rightS_size_ge frs adds h
    simp only [rightS, Frame.node, fsize_cons, fsize_nil, Node.size_elem, fsize_append, List.length_cons]
    omega

theorem addOf_textFree (S : Schema) (mv : RPos) (d : Nat) : textFreeKids (addOf S mv d) = true := by
  unfold addOf
  split
  · rename_i a h
    exact fillOpt_textFree S _ _ _ _ _ h
  · rfl

theorem roFrom_adds_textFree (S : Schema) (mv : RPos) : ∀ (j n : Nat), ∀ a ∈ (roFrom S mv j n).map (·.2),
    textFreeKids a = true
  | _, 0, a, h => by simp [roFrom] at h
  | j, n + 1, a, h => by
    simp only [roFrom, List.map_cons, List.mem_cons] at h
    rcases h with rfl | h
    · exact addOf_textFree S mv (j + 1)
    · exact roFrom_adds_textFree S mv (j + 1) n a h

/-- the state `Fitter.__init__` builds, as `FrontierOf` -/
theorem frontierOf_init (S : Schema) {doc : Node} {f : Nat} {rf : RPos} (hf : doc.resolve f = some rf) (sl : Slice)
    (st0 : FitState) (h0 : fitInit S rf sl = .ok st0) :
    st0.unplaced = sl ∧ st0.placed = chainF (framesFrom rf 0 rf.depth) [] ∧
    ∃ qD, S.contentMatchAt (S.tyOf rf.parent) rf.parent.kids (rf.indexAfter rf.depth) = some qD ∧
      FrontierOf S rf qD st0.frontier ∧
      (qD = 0 ∨ ∃ q1 e, e ∈ (S.dfa (S.tyOf rf.parent)).edgesOf q1 ∧ e.2 = qD) := by
  obtain ⟨hu, hpl0, hlen0, hfr0⟩ := fitInit_spec S hf sl st0 h0
  obtain ⟨qD, hqD, hcmD⟩ := hfr0 rf.depth (Nat.le_refl _)
  refine ⟨hu, hpl0, qD, hcmD, ⟨hlen0, ?_⟩, run_target _ _ _ _ hcmD⟩
  intro i hi
  rcases Nat.lt_or_ge i rf.depth with hlt | hge
  · obtain ⟨q, hq, hcm⟩ := hfr0 i hi
    exact ⟨q, hq, by rw [frontSt_lt S rf qD i hlt]; exact hcm⟩
  · have e : i = rf.depth := by omega
    subst e
    exact ⟨qD, hqD, frontSt_top S rf qD⟩

/-- **`Fitter.close`, the core**: for a frontier with one entry per ancestor of `from` (`FrontierOf`: the innermost
    entry's match is `qtop`), `placed` the nested copies of those ancestors around `X0`, and the answer `(mv, placed)` of
    `close(tgt)`: the normalised `placed` is `leftS … X0 ++ tail`, and with content `G` at the innermost level of `from`
    (`botL`: the children in front of `from` with `G` behind them) the replace of `[from, mv.pos)` goes through -/
theorem close_core (S : Schema) (hdet : DetS S) (hleaf : LeafOk S) (hfl : FillersOK S) (hcl : Closable S)
    (hts : TextStableP S) (hjc : joinCompatB S = true) (hro : reopenOKB S = true)
    {ty0 : TypeId} {a0 : Attrs} {m0 : Marks} {K : List Node} {f t : Nat} {rf tgt : RPos}
    (hf : (Node.elem ty0 a0 m0 K).resolve f = some rf) (htg : (Node.elem ty0 a0 m0 K).resolve t = some tgt)
    (hv : S.checkNode (.elem ty0 a0 m0 K) = true) (hn : fnorm K = true)
    (hattrs : S.nodeAttrsOK (.elem ty0 a0 m0 K) = true)
    (hpf : rf.pairOk = true) (hpt : tgt.pairOk = true) (hft : f ≤ t)
    (fr0 : List FItem) (qtop : Nat) (X0 : List Node) (hF : FrontierOf S rf qtop fr0)
    (hqtop : qtop = 0 ∨ ∃ q1 e, e ∈ (S.dfa (S.tyOf rf.parent)).edgesOf q1 ∧ e.2 = qtop)
    (mv : RPos) (placed : List Node)
    (hcf : closeFit S (.elem ty0 a0 m0 K) tgt fr0 (chainF (framesFrom rf 0 rf.depth) X0) = .ok (some (mv, placed)))
    (G botL : List Node) (hnG : fnorm G = true)
    (hbtk : ftoks botL = (ftoks rf.parent.kids).take (f - rf.start rf.depth) ++ ftoks G)
    (hnL : fnorm botL = true) (hkL : S.checkKids botL = true) (hbLok : BotLOK S rf qtop botL)
    (hseamG : ∀ (Xn : List Tok) (T : Nat), (∀ x ∈ Xn, x.isUnit = false) → f ≤ T → T ≤ (ftoks K).length →
      tokAligned ((ftoks K).take f ++ (ftoks G ++ Xn) ++ (ftoks K).drop T) f = true ∧
      tokAligned ((ftoks K).take f ++ (ftoks G ++ Xn) ++ (ftoks K).drop T) (f + (ftoks G ++ Xn).length) = true) :
    ∃ (ffsB : List Frame) (fills : List (List Node)) (tail : List Node) (b : Nat),
      ffsB.length = fills.length ∧ (∀ x ∈ fills, textFreeKids x = true) ∧ textFreeKids tail = true ∧
      2 * b ≤ fsize tail ∧
      normalizeOpen (rf.depth + 1) placed rf.depth mv.depth = (leftS ffsB fills X0 ++ tail, ffsB.length, b) ∧
      ∃ X, replaceKids S ty0 K f mv.pos ⟨leftS ffsB fills G ++ tail, ffsB.length, b⟩ = .ok X := by
  have hlen0 := hF.1
  -- the close level and the position `close` continues from
  obtain ⟨lv, hlv, hmvlv⟩ := closeFit_move S _ tgt _ _ mv placed hcf
  subst hmvlv
  obtain ⟨C, pm, hres, htpm, hdrop, hkeep⟩ := closeFacts_of S htg hn fr0 hF lv hlv
  have Rm := resolve_resolved hres
  have hpm : lv.move.pos = pm := Rm.pos_eq
  have hpmv : lv.move.pairOk = true := by
    cases hdi : dropInnerB tgt lv.depth with
    | true => simp [RPos.pairOk, (hdrop hdi).2]
    | false => rw [hkeep hdi]; exact hpt
  -- fillers and re-opened frames
  obtain ⟨fills, hfl1, hfl2, hfl3⟩ := fills_exist S hdet hfl hcl hf hv qtop hqtop fr0 hF lv.depth C.hcD
  have hroAll := reopenAll_roFrom S hdet hfl hres hattrs (lv.move.depth - lv.depth) lv.depth
    (by have := C.hcM; omega)
  obtain ⟨q, _, hfits⟩ := C.level
  obtain ⟨_, _, q', _, hfitfill, _⟩ := contentAfterFits_spec S tgt lv.depth _ _ _ lv.fit hfits
  have htfit := fillOpt_textFree S _ _ _ _ _ hfitfill
  have hkfit := fillOpt_valid S hdet hleaf _ _ _ _ _ hfitfill
  -- `close`, explicitly
  have hexp := closeFit_delete_eq S (rf := rf) tgt fr0 lv fills (roFrom S lv.move lv.depth (lv.move.depth - lv.depth)) X0
    hlen0 hF.some_st hlv C.hcD hfl1 hfl2 htfit (roFrom_length _ _ _ _) hroAll
  rw [hcf] at hexp
  simp only [Except.ok.injEq, Option.some.injEq, Prod.mk.injEq, true_and] at hexp
  -- the normalised slice
  have htfF : ∀ x ∈ fills, textFreeKids x = true := by
    intro x hx
    obtain ⟨k, hk⟩ := List.mem_iff_getElem?.1 hx
    have hk' : k < rf.depth - lv.depth := by
      rcases Nat.lt_or_ge k fills.length with h' | h'
      · omega
      · rw [List.getElem?_eq_none h'] at hk; simp at hk
    obtain ⟨q1, fill, _, h2, h3⟩ := hfl3 k hk'
    rw [hk] at h2
    simp only [Option.some.injEq] at h2
    subst h2
    exact fillOpt_textFree S _ _ _ _ _ h3
  have htfA := roFrom_adds_textFree S lv.move lv.depth (lv.move.depth - lv.depth)
  have hnorm := normalizeOpen_chainF (framesFrom rf 0 lv.depth)
    (leftS (framesFrom rf lv.depth (rf.depth - lv.depth)) fills X0 ++ lv.fit ++
      rightS ((roFrom S lv.move lv.depth (lv.move.depth - lv.depth)).map (·.1))
        ((roFrom S lv.move lv.depth (lv.move.depth - lv.depth)).map (·.2)))
    rf.depth lv.move.depth (rf.depth + 1) (by rw [framesFrom_length]; have := C.hcD; omega)
    (by rw [framesFrom_length]; exact C.hcD) (by rw [framesFrom_length]; exact C.hcM)
    (by
      rw [framesFrom_length]
      intro hlen1
      by_cases h1 : rf.depth = lv.depth
      · exact .inl h1
      by_cases h2 : lv.move.depth = lv.depth
      · exact .inr h2
      exfalso
      have hD := C.hcD
      have hM := C.hcM
      have e1 := leftS_length_one (framesFrom rf lv.depth (rf.depth - lv.depth)) fills X0
        (by intro h; have := congrArg List.length h; rw [framesFrom_length] at this; simp at this; omega)
        (by intro h; rw [h] at hfl1; simp at hfl1; omega)
      have e2 := rightS_length_one ((roFrom S lv.move lv.depth (lv.move.depth - lv.depth)).map (·.1))
        ((roFrom S lv.move lv.depth (lv.move.depth - lv.depth)).map (·.2))
        (by intro h; have := congrArg List.length h; rw [List.length_map, roFrom_length] at this; simp at this; omega)
        (by intro h; have := congrArg List.length h; rw [List.length_map, roFrom_length] at this; simp at this; omega)
      simp only [List.length_append, e1, e2] at hlen1
      omega)
  rw [framesFrom_length, ← hexp] at hnorm
  -- the flat ends
  obtain ⟨hKf0, hfpos, hfs, hfle⟩ := doc_plug hf
  obtain ⟨hKt0, htpos, hts', htle⟩ := doc_plug hres
  have hKf : K = plug (framesFrom rf 0 rf.depth) rf.parent.kids := hKf0
  have hKt : K = plug (framesFrom lv.move 0 lv.move.depth) lv.move.parent.kids := hKt0
  obtain ⟨hFl, _, hidxF⟩ := resolved_flatAt hf hpf
  obtain ⟨hTl, _, hidxT⟩ := resolved_flatAt hres hpmv
  obtain ⟨_, hkF, _⟩ := level_check S hf hv rf.depth (Nat.le_refl _)
  obtain ⟨_, hkT, _⟩ := level_check S hres hv lv.move.depth (Nat.le_refl _)
  have hnF : fnorm rf.parent.kids = true := (plug_framesFN _ _ (hKf ▸ hn)).2
  have hnT : fnorm lv.move.parent.kids = true := (plug_framesFN _ _ (hKt ▸ hn)).2
  obtain ⟨hspR, hkR, hsR⟩ := flat_right_facts S hTl hnT hkT
  have hBl : (lv.move.parent.kids.take (lv.move.index lv.move.depth)).length = lv.move.index lv.move.depth := by
    rw [List.length_take]; omega
  rw [hBl] at hsR
  -- the frames
  have hfrF : framesFrom rf 0 rf.depth
      = framesFrom rf 0 lv.depth ++ framesFrom rf lv.depth (rf.depth - lv.depth) := by
    have := framesFrom_add rf 0 lv.depth (rf.depth - lv.depth)
    rwa [show lv.depth + (rf.depth - lv.depth) = rf.depth by have := C.hcD; omega, Nat.zero_add] at this
  have hfrT : framesFrom lv.move 0 lv.move.depth
      = framesFrom lv.move 0 lv.depth ++ framesFrom lv.move lv.depth (lv.move.depth - lv.depth) := by
    have := framesFrom_add lv.move 0 lv.depth (lv.move.depth - lv.depth)
    rwa [show lv.depth + (lv.move.depth - lv.depth) = lv.move.depth by have := C.hcM; omega, Nat.zero_add] at this
  rw [hfrF] at hKf hfpos
  rw [hfrT] at hKt htpos
  -- validity of the levels
  have hLok := leftOK_of_run S hdet hleaf hf hv qtop _ hbLok hkL (rf.depth - lv.depth) lv.depth fills
    (by have := C.hcD; omega) hfl1 hfl3
  have hRok := rightOK_of_run S hdet hleaf hfl hro hres hv _ hsR hkR (lv.move.depth - lv.depth) lv.depth
    (by have := C.hcM; omega)
  have hJok : JoinOK S ty0 (framesFrom rf 0 lv.depth) (framesFrom lv.move 0 lv.depth) := by
    have := joinOK_of_run S hdet hleaf hf hres hv C lv.depth 0 (by omega)
    rw [(resolve_resolved hf).node_zero] at this
    exact this
  have hvc := closeLevel_valid S hdet hleaf hf hres hv C _ _ hbLok hsR
  have hbty : botTy ty0 (framesFrom rf 0 lv.depth) = S.tyOf (rf.node lv.depth) := by
    have := botTy_framesFrom S hf lv.depth 0 (by have := C.hcD; omega)
    rw [(resolve_resolved hf).node_zero, Nat.zero_add] at this
    exact this
  have hcomp := compatFrames_of_run S hdet hjc hf hres htg hv C lv.depth 0 (by omega)
  have hfnB' := framesFN_roFrom S lv.move lv.depth (lv.move.depth - lv.depth)
    (framesFN_framesFrom hres hn lv.depth (lv.move.depth - lv.depth) (by have := C.hcM; omega))
  -- alignment at `from`
  have hfn : framesNorm (framesFrom rf 0 lv.depth ++ framesFrom rf lv.depth (rf.depth - lv.depth)) :=
    (plug_norm _ _ (hKf ▸ hn)).1
  have haf : alignedAt K (pbase (framesFrom rf 0 lv.depth ++ framesFrom rf lv.depth (rf.depth - lv.depth))
      + (f - rf.start rf.depth)) = true := by
    rw [hKf, plug_aligned _ _ _ hfn hfle]
    exact hFl.aligned
  -- the replace
  have hXn : ∀ x ∈ clT fills ++ (ftoks lv.fit ++ opaT ((roFrom S lv.move lv.depth (lv.move.depth - lv.depth)).map (·.1))
      ((roFrom S lv.move lv.depth (lv.move.depth - lv.depth)).map (·.2))), x.isUnit = false := by
    intro x hx
    simp only [List.mem_append] at hx
    rcases hx with hx | hx | hx
    · exact clT_nonunit fills htfF x hx
    · exact ftoks_nonunit lv.fit htfit x hx
    · exact opaT_nonunit _ _ htfA x hx
  have hpmle : pm ≤ (ftoks K).length := by
    rw [ftoks_length]; exact Rm.le
  have hseam' := hseamG _ pm hXn (by omega) hpmle
  rw [← List.append_assoc (ftoks G)] at hseam'
  rw [hfpos, htpos] at hseam'
  have hmerged := delete_merged_gap S hts ty0 (framesFrom rf 0 lv.depth) (framesFrom rf lv.depth (rf.depth - lv.depth))
    (framesFrom lv.move 0 lv.depth) (framesFrom lv.move lv.depth (lv.move.depth - lv.depth))
    ((roFrom S lv.move lv.depth (lv.move.depth - lv.depth)).map (·.1)) rf.parent.kids lv.move.parent.kids
    botL _ (f - rf.start rf.depth) (pm - lv.move.start lv.move.depth) fills
    ((roFrom S lv.move lv.depth (lv.move.depth - lv.depth)).map (·.2)) lv.fit G K hKf hKt hn hfle htle hFl.depth
    hbtk hnL hnG hspR (by omega) (sameRight_roFrom S lv.move lv.depth _) hfnB' hcomp hLok hRok hkfit hJok
    (by rw [hbty]; exact hvc) htfF htfA htfit haf (by exact hseam')
  rw [← hfpos, ← htpos, framesFrom_length, List.length_map, roFrom_length] at hmerged
  have htft : textFreeKids (lv.fit ++ rightS ((roFrom S lv.move lv.depth (lv.move.depth - lv.depth)).map (·.1))
        ((roFrom S lv.move lv.depth (lv.move.depth - lv.depth)).map (·.2))) = true := by
    rw [textFreeKids_append, htfit, rightS_textFree _ _ htfA]; rfl
  rw [PM.FromDom.fappend_notText _ _ (textFree_notText_all htft)] at hmerged
  refine ⟨framesFrom rf lv.depth (rf.depth - lv.depth), fills, _, lv.move.depth - lv.depth, ?_, htfF, htft, ?_, ?_, ?_⟩
  · rw [framesFrom_length, hfl1]
  · have := rightS_size_ge ((roFrom S lv.move lv.depth (lv.move.depth - lv.depth)).map (·.1))
      ((roFrom S lv.move lv.depth (lv.move.depth - lv.depth)).map (·.2)) (by simp)
    rw [List.length_map, roFrom_length] at this
    rw [fsize_append]
    omega
  · rw [framesFrom_length]
    rw [List.append_assoc] at hnorm
    exact hnorm
  · rw [framesFrom_length, hpm]
    exact ⟨_, hmerged⟩

/-- **`Fitter.close` on a deletion ends in a replace step that applies**: for the state `Fitter.__init__` built and
    the answer `(mv, placed)` of `close(tgt)`, the step `ReplaceStep(from, mv.pos, <placed, normalised>)` applies -/
theorem close_replace_applies (S : Schema) (hdet : DetS S) (hleaf : LeafOk S) (hfl : FillersOK S) (hcl : Closable S)
    (hts : TextStableP S) (hjc : joinCompatB S = true) (hro : reopenOKB S = true)
    {ty0 : TypeId} {a0 : Attrs} {m0 : Marks} {K : List Node} {f t : Nat} {rf tgt : RPos}
    (hf : (Node.elem ty0 a0 m0 K).resolve f = some rf) (htg : (Node.elem ty0 a0 m0 K).resolve t = some tgt)
    (hv : S.checkNode (.elem ty0 a0 m0 K) = true) (hn : fnorm K = true)
    (hattrs : S.nodeAttrsOK (.elem ty0 a0 m0 K) = true) (hhc : highClosedKids K = true)
    (hpf : rf.pairOk = true) (hpt : tgt.pairOk = true) (hft : f ≤ t)
    (st0 : FitState) (h0 : fitInit S rf Slice.empty = .ok st0) (mv : RPos) (placed : List Node)
    (hcf : closeFit S (.elem ty0 a0 m0 K) tgt st0.frontier st0.placed = .ok (some (mv, placed))) :
    ∃ doc', S.apply (.replace f mv.pos
      ⟨(normalizeOpen (rf.depth + 1) placed rf.depth mv.depth).1,
       (normalizeOpen (rf.depth + 1) placed rf.depth mv.depth).2.1,
       (normalizeOpen (rf.depth + 1) placed rf.depth mv.depth).2.2⟩ false) (.elem ty0 a0 m0 K) = .ok doc' := by
  obtain ⟨hKf0, hfpos, hfs, hfle⟩ := doc_plug hf
  have hKf : K = plug (framesFrom rf 0 rf.depth) rf.parent.kids := hKf0
  obtain ⟨hFl, _, hidxF⟩ := resolved_flatAt hf hpf
  obtain ⟨_, hkF, _⟩ := level_check S hf hv rf.depth (Nat.le_refl _)
  have hnF : fnorm rf.parent.kids = true := (plug_framesFN _ _ (hKf ▸ hn)).2
  obtain ⟨hnL, htkL, hkL, hsL⟩ := flat_left_facts S hFl hnF hkF
  have hAl : (rf.parent.kids.take (rf.index rf.depth)).length = rf.index rf.depth := by
    rw [List.length_take]; omega
  have hsL' : sigOf S (rf.parent.kids.take (rf.index rf.depth) ++ headCut (rf.parent.kids.drop (rf.index rf.depth)) rf.textOffset)
      = sigOf S (rf.parent.kids.take (rf.indexAfter rf.depth)) := by
    rw [hsL, hAl]
    unfold RPos.indexAfter
    simp
  obtain ⟨_, hpl0, qD, hcmD, hF, hqtop⟩ := frontierOf_init S hf Slice.empty st0 h0
  have hbLok := botLOK_of_sig S hdet hleaf hf hv _ qD hcmD hsL'
  have hKn := ftoks_highClosed K hhc
  rw [hpl0] at hcf
  obtain ⟨ffsB, fills, tail, b, _, _, _, _, hnorm, X, hX⟩ := close_core S hdet hleaf hfl hcl hts hjc hro hf htg hv hn hattrs
    hpf hpt hft st0.frontier qD [] hF hqtop mv placed hcf [] _ (by simp [fnorm, chainOk]) (by simpa using htkL) hnL hkL hbLok
    (fun Xn T hXn hfT hT => by
      have haf : tokAligned (ftoks K) f = true := by
        rw [← alignedAt_toks K _ hn, hfpos, hKf, plug_aligned _ _ _ (plug_norm _ _ (hKf ▸ hn)).1 hfle]
        exact hFl.aligned
      simpa using seams_aligned (ftoks K) Xn f T hKn hfT hT haf hXn)
  rw [hnorm]
  simp only [Schema.apply, Bool.false_eq_true, if_false, Schema.fromReplace, Schema.replace, hX, Except.map]
  exact ⟨_, rfl⟩

/-! ### the trivial fit under the weaker guard `textAbsorbB` -/

/-- reading a text node never loses a continuation (decidable: `textAbsorbB`) -/
def TextAbsorb (S : Schema) : Prop :=
  ∀ t q q', (S.dfa t).matchType q S.textTy = some q' → (S.dfa t).coversB q' q = true

theorem textAbsorb_of_B (S : Schema) (h : textAbsorbB S = true) : TextAbsorb S := by
  intro t q q' hm
  have hq : q < (S.dfa t).size := edgesOf_lt (Dfa.mem_of_matchType hm)
  have ht : t < S.nodes.size := ty_lt_of_edge S (Dfa.mem_of_matchType hm)
  simp only [textAbsorbB, List.all_eq_true, List.mem_range] at h
  have := h t ht q hq
  simpa [hm] using this

/-- where a text child stands, another one may be put in front of whatever else is accepted there -/
theorem validContent_text_front' (S : Schema) (hst : TextAbsorb S) (p : TypeId) (pre post X : List Node)
    (s s' : List Nat) (m : Marks)
    (h1 : S.validContent p (pre ++ .text s m :: post) = true) (h2 : S.validContent p (pre ++ X) = true) :
    S.validContent p (pre ++ .text s' m :: X) = true := by
  have hm := allowsMarks_of_valid S _ _ h1 (.text s m) (by simp)
  simp only [Schema.validContent, Bool.and_eq_true] at h1 h2 ⊢
  constructor
  · have a1 := h1.1
    have a2 := h2.1
    rw [types_append, accepts_append] at a1 a2 ⊢
    cases hq : (S.dfa p).run 0 (S.types pre) with
    | none => rw [hq] at a1; simp at a1
    | some q =>
      rw [hq] at a1 a2
      simp only at a1 a2 ⊢
      have e1 : S.types (Node.text s m :: post) = S.textTy :: S.types post := rfl
      have e2 : S.types (Node.text s' m :: X) = S.textTy :: S.types X := rfl
      rw [e1] at a1
      rw [e2]
      cases hq1 : (S.dfa p).matchType q S.textTy with
      | none => simp [accFrom, Dfa.run, hq1] at a1
      | some q1 =>
        have hs := hst p q q1 hq1
        have : accFrom (S.dfa p) q (S.textTy :: S.types X) = accFrom (S.dfa p) q1 (S.types X) := by
          simp only [accFrom, Dfa.run, hq1]
        rw [this]
        unfold accFrom at a2 ⊢
        cases hr : (S.dfa p).run q (S.types X) with
        | none => rw [hr] at a2; simp at a2
        | some qf =>
          rw [hr] at a2
          obtain ⟨qf', hr', hv'⟩ := covers_run _ q1 _ q qf hs hr a2
          rw [hr']; exact hv'
  · simp only [List.all_append, List.all_cons, Bool.and_eq_true] at h2 ⊢
    exact ⟨h2.2.1, by simpa [Node.marks] using hm, h2.2.2⟩

theorem flat_delete_valid' (S : Schema) (hst : TextAbsorb S) (tyP : TypeId) (L A Lr B Lr' : List Node) (k k' : Nat)
    (hA : L = A ++ Lr) (hB : L = B ++ Lr') (hvL : S.validContent tyP L = true)
    (hcr : S.canReplace tyP L A.length B.length [] 0 0 = some true) :
    S.validContent tyP (A ++ headCut Lr k ++ tailCut Lr' k') = true := by
  rw [validContent_tailCut]
  have h2 := canReplace_delete_valid S tyP L A Lr B Lr' hA hB hvL hcr
  unfold headCut
  split
  · simpa using h2
  · split
    · rename_i s m r
      have := validContent_text_front' S hst tyP A r Lr' s (s.take k) m (by rw [← hA]; exact hvL) h2
      simpa using this
    · simpa using h2

/-- **a deletion that fits trivially applies** — `trivial_delete_applies` (Proofs/DeleteFlat.lean) under the weaker guards
    `TextAbsorb` and `TextStableP` -/
theorem trivial_delete_applies' (S : Schema) (hst : TextAbsorb S) (htp : TextStableP S) (ty0 : TypeId) (a0 : Attrs)
    (m0 : Marks) (K : List Node) (f t : Nat) (rf rt : RPos)
    (hf : (Node.elem ty0 a0 m0 K).resolve f = some rf) (ht : (Node.elem ty0 a0 m0 K).resolve t = some rt)
    (hv : S.checkNode (.elem ty0 a0 m0 K) = true) (hn : fnorm K = true) (hft : f ≤ t)
    (hpf : rf.pairOk = true) (hpt : rt.pairOk = true)
    (htr : fitsTriviallyR S rf rt Slice.empty = some true) :
    ∃ doc', S.apply (.replace f t Slice.empty false) (.elem ty0 a0 m0 K) = .ok doc' := by
  have Rf := resolve_resolved hf
  have Rt := resolve_resolved ht
  unfold fitsTriviallyR at htr
  split at htr
  · rename_i hc
    simp only [Bool.and_eq_true, beq_iff_eq] at hc
    have hsame0 := hc.2
    have hd : rt.depth = rf.depth := by
      rcases Nat.le_total rf.depth rt.depth with h | h
      · exact (same_start_depth Rf Rt hsame0 h).symm
      · exact same_start_depth Rt Rf hsame0.symm h
    have hsame : rf.start rf.depth = rt.start rf.depth := by
      have := hsame0; rw [hd] at this; exact this
    obtain ⟨hnode, _, _, _⟩ := same_ancestors Rf Rt rf.depth (rf.start rf.depth) (Nat.le_refl _) (by omega)
      (Nat.le_refl _) (by unfold RPos.end_; omega) (by omega) (by unfold RPos.end_; omega) rf.depth (Nat.le_refl _)
    have hpar : rt.parent = rf.parent := by
      unfold RPos.parent; rw [hd]; exact hnode.symm
    obtain ⟨tyP, aP, mP, ctx, eP, hl⟩ := Resolved.lvl hf hn rf.depth (Nat.le_refl _)
    have hty : S.tyOf rf.parent = tyP := by
      show S.tyOf (rf.node rf.depth) = tyP
      rw [eP]; rfl
    obtain ⟨hF, hsf, hif⟩ := resolved_flatAt hf hpf
    obtain ⟨hT, hst', hit⟩ := resolved_flatAt ht hpt
    rw [hpar, ← hsame0] at hT
    rw [hpar] at hit
    rw [← hsame0] at hst'
    have hvK : S.validContent ty0 K = true ∧ S.checkKids K = true := by
      simp only [checkNode_elem, Bool.and_eq_true] at hv
      exact ⟨hv.1.1, hv.2⟩
    obtain ⟨hvL, _, _⟩ := hl.valid hvK.1 hvK.2 hn
    unfold Schema.nodeCanReplace at htr
    split at htr
    · simp at htr
    · rw [hty] at htr
      have hAl : (rf.parent.kids.take (rf.index rf.depth)).length = rf.index rf.depth := by
        rw [List.length_take]; omega
      have hBl : (rf.parent.kids.take (rt.index rt.depth)).length = rt.index rt.depth := by
        rw [List.length_take]; omega
      have hval := flat_delete_valid' S hst tyP rf.parent.kids _ _ _ _ rf.textOffset rt.textOffset hF.split hT.split hvL
        (by rw [hAl, hBl]; exact htr)
      obtain ⟨doc', h⟩ := level_delete_applies S htp ty0 a0 m0 K hv hn hl hF hT (by omega) hval
      have e1 : rf.start rf.depth + (f - rf.start rf.depth) = f := by omega
      have e2 : rf.start rf.depth + (t - rf.start rf.depth) = t := by omega
      rw [e1, e2] at h
      exact ⟨doc', h⟩
  · simp at htr

/-! ### the trivial fit with content: `ReplaceStep(from, to, slice)` for a closed slice that `can_replace` approved -/

/-- `can_replace(i, j, replacement)` on a valid child list: the children before `i`, the replacement, the children from
    `j` on are valid content -/
theorem canReplace_range_valid (S : Schema) (tyP : TypeId) (L A Lr B Lr' c : List Node)
    (hA : L = A ++ Lr) (hB : L = B ++ Lr') (hvL : S.validContent tyP L = true)
    (hcr : S.canReplace tyP L A.length B.length c 0 c.length = some true) :
    S.validContent tyP (A ++ c ++ Lr') = true := by
  have hall := allowsMarks_of_valid S _ _ hvL
  unfold Schema.canReplace Schema.contentMatchAt at hcr
  have e1 : L.take A.length = A := by rw [hA]; simp
  have e2 : L.drop B.length = Lr' := by rw [hB]; simp
  have e3 : (c.take c.length).drop 0 = c := by simp
  rw [e1, e2] at hcr
  simp only [e3] at hcr
  split at hcr
  · simp at hcr
  · rename_i q hq
    split at hcr
    · simp at hcr
    · rename_i q1 hq1
      split at hcr
      · simp at hcr
      · rename_i q2 hq2
        simp only [Option.some.injEq, Bool.and_eq_true] at hcr
        have hacc : (S.dfa tyP).accepts (S.types (A ++ c ++ Lr')) = true := by
          unfold Dfa.accepts
          rw [types_append, types_append, List.append_assoc, Dfa.run_append, hq]
          simp only [Option.bind_some]
          rw [Dfa.run_append, hq1]
          simp only [Option.bind_some, hq2]
          exact hcr.1
        simp only [Schema.validContent, hacc, Bool.true_and, List.all_eq_true]
        intro x hx
        simp only [List.mem_append] at hx
        rcases hx with (h | h) | h
        · exact hall x (by rw [hA]; simp [h])
        · exact List.all_eq_true.1 hcr.2 x h
        · exact hall x (by rw [hB]; simp [h])

theorem flat_insert_valid (S : Schema) (hst : TextAbsorb S) (tyP : TypeId) (L A Lr B Lr' c : List Node) (k k' : Nat)
    (hA : L = A ++ Lr) (hB : L = B ++ Lr') (hvL : S.validContent tyP L = true)
    (hcr : S.canReplace tyP L A.length B.length c 0 c.length = some true) :
    S.validContent tyP (A ++ headCut Lr k ++ c ++ tailCut Lr' k') = true := by
  rw [validContent_tailCut S tyP (A ++ headCut Lr k ++ c) Lr' k']
  have h2 := canReplace_range_valid S tyP L A Lr B Lr' c hA hB hvL hcr
  unfold headCut
  split
  · simpa using h2
  · split
    · rename_i s m r
      have := validContent_text_front' S hst tyP A r (c ++ Lr') s (s.take k) m (by rw [← hA]; exact hvL)
        (by simpa using h2)
      simpa using this
    · simpa using h2

/-- a replace with a closed slice between two positions at depth 0 of a nested node's children: if the new child
    list is valid, the step applies -/
theorem level_replace_applies (S : Schema) (hts : TextStableP S) (ty0 : TypeId) (a0 : Attrs) (m0 : Marks) (K : List Node)
    (hv : S.checkNode (.elem ty0 a0 m0 K) = true) (hn : fnorm K = true)
    {b nd : Nat} {tyP : TypeId} {ctx : List Node → List Node} {L A Lr B Lr' : List Node} {fP tP k k' : Nat}
    (c : List Node) (hcn : fnorm c = true)
    (hl : Lvl ty0 K b nd tyP L ctx) (hF : FlatAt L fP A Lr k) (hT : FlatAt L tP B Lr' k') (hft : fP ≤ tP)
    (hval : S.validContent tyP (A ++ headCut Lr k ++ c ++ tailCut Lr' k') = true) :
    ∃ doc', S.apply (.replace (b + fP) (b + tP) ⟨c, 0, 0⟩ false) (.elem ty0 a0 m0 K) = .ok doc' := by
  have hvK : S.validContent ty0 K = true ∧ S.checkKids K = true := by
    simp only [checkNode_elem, Bool.and_eq_true] at hv
    exact ⟨hv.1.1, hv.2⟩
  obtain ⟨hvL, _, hnL⟩ := hl.valid hvK.1 hvK.2 hn
  have hrep := replaceKids_flat (S := S) hl c fP tP hft hT.le hF.depth hT.depth
  obtain ⟨Y, hnY, htY, hY⟩ := atLevel_flat_spec S c hcn tyP L fP tP hft hT.le hF.depth hT.depth hF.aligned hT.aligned hnL
  have hnk := fnormKids_of_fnorm hnL
  have hnA : fnormKids A = true := by
    have := hnk
    rw [hF.split, fnormKids_append, Bool.and_eq_true] at this
    exact this.1
  have hnp : fnormKids (A ++ headCut Lr k ++ c ++ tailCut Lr' k') = true := by
    simp only [fnormKids_append, Bool.and_eq_true]
    exact ⟨⟨⟨hnA, hF.head_norm⟩, fnormKids_of_fnorm hcn⟩, hT.tail_norm hnk⟩
  have hYe : Y = fromArray (A ++ headCut Lr k ++ c ++ tailCut Lr' k') := by
    apply ftoks_inj _ _ hnY (fromArray_norm _ hnp)
    rw [htY, fromArray_toks, hF.take, hT.drop]
    simp [ftoks_append]
  have hvalY : S.validContent tyP Y = true := by
    rw [hYe]; exact validContent_fromArray hts _ _ hval
  refine ⟨.elem ty0 a0 m0 (ctx Y), ?_⟩
  simp only [Schema.apply, Bool.false_eq_true, if_false, Schema.fromReplace, Schema.replace, hrep, hY,
    hvalY, if_true, Except.map]

/-- **a closed slice that fits trivially applies**: `from` and `to` have the same parent, which approved
    `can_replace(index(from), index(to), slice.content)`; either end may lie inside a text child -/
theorem trivial_replace_applies (S : Schema) (hst : TextAbsorb S) (htp : TextStableP S) (ty0 : TypeId) (a0 : Attrs)
    (m0 : Marks) (K : List Node) (f t : Nat) (rf rt : RPos) (sl : Slice)
    (hf : (Node.elem ty0 a0 m0 K).resolve f = some rf) (ht : (Node.elem ty0 a0 m0 K).resolve t = some rt)
    (hv : S.checkNode (.elem ty0 a0 m0 K) = true) (hn : fnorm K = true) (hsn : fnorm sl.content = true) (hft : f ≤ t)
    (hpf : rf.pairOk = true) (hpt : rt.pairOk = true)
    (htr : fitsTriviallyR S rf rt sl = some true) :
    ∃ doc', S.apply (.replace f t sl false) (.elem ty0 a0 m0 K) = .ok doc' := by
  have Rf := resolve_resolved hf
  have Rt := resolve_resolved ht
  unfold fitsTriviallyR at htr
  split at htr
  · rename_i hc
    simp only [Bool.and_eq_true, beq_iff_eq] at hc
    have hsame0 := hc.2
    have hsl : sl = ⟨sl.content, 0, 0⟩ := by
      cases sl; simp only at hc; simp [hc.1.1, hc.1.2]
    have hd : rt.depth = rf.depth := by
      rcases Nat.le_total rf.depth rt.depth with h | h
      · exact (same_start_depth Rf Rt hsame0 h).symm
      · exact same_start_depth Rt Rf hsame0.symm h
    have hsame : rf.start rf.depth = rt.start rf.depth := by
      have := hsame0; rw [hd] at this; exact this
    obtain ⟨hnode, _, _, _⟩ := same_ancestors Rf Rt rf.depth (rf.start rf.depth) (Nat.le_refl _) (by omega)
      (Nat.le_refl _) (by unfold RPos.end_; omega) (by omega) (by unfold RPos.end_; omega) rf.depth (Nat.le_refl _)
    have hpar : rt.parent = rf.parent := by
      unfold RPos.parent; rw [hd]; exact hnode.symm
    obtain ⟨tyP, aP, mP, ctx, eP, hl⟩ := Resolved.lvl hf hn rf.depth (Nat.le_refl _)
    have hty : S.tyOf rf.parent = tyP := by
      show S.tyOf (rf.node rf.depth) = tyP
      rw [eP]; rfl
    obtain ⟨hF, hsf, hif⟩ := resolved_flatAt hf hpf
    obtain ⟨hT, hst', hit⟩ := resolved_flatAt ht hpt
    rw [hpar, ← hsame0] at hT
    rw [hpar] at hit
    rw [← hsame0] at hst'
    have hvK : S.validContent ty0 K = true ∧ S.checkKids K = true := by
      simp only [checkNode_elem, Bool.and_eq_true] at hv
      exact ⟨hv.1.1, hv.2⟩
    obtain ⟨hvL, _, _⟩ := hl.valid hvK.1 hvK.2 hn
    unfold Schema.nodeCanReplace at htr
    split at htr
    · simp at htr
    · rw [hty] at htr
      have hAl : (rf.parent.kids.take (rf.index rf.depth)).length = rf.index rf.depth := by
        rw [List.length_take]; omega
      have hBl : (rf.parent.kids.take (rt.index rt.depth)).length = rt.index rt.depth := by
        rw [List.length_take]; omega
      have hval := flat_insert_valid S hst tyP rf.parent.kids _ _ _ _ sl.content rf.textOffset rt.textOffset hF.split
        hT.split hvL (by rw [hAl, hBl]; exact htr)
      obtain ⟨doc', h⟩ := level_replace_applies S htp ty0 a0 m0 K hv hn sl.content hsn hl hF hT (by omega) hval
      have e1 : rf.start rf.depth + (f - rf.start rf.depth) = f := by omega
      have e2 : rf.start rf.depth + (t - rf.start rf.depth) = t := by omega
      rw [e1, e2, ← hsl] at h
      exact ⟨doc', h⟩
  · simp at htr

/-! ### `replace_step` on a deletion: a replace-step answer applies -/

/-- **every `ReplaceStep` that `replace_step` emits for a deletion applies** -/
theorem replaceStep_delete_replace_applies (S : Schema) (hdet : DetS S) (hleaf : LeafOk S) (hfl : FillersOK S)
    (hcl : Closable S) (hts : TextStableP S) (hta : TextAbsorb S) (hjc : joinCompatB S = true)
    (hro : reopenOKB S = true) (ty0 : TypeId) (a0 : Attrs) (m0 : Marks) (K : List Node) (f t : Nat)
    (hv : S.checkNode (.elem ty0 a0 m0 K) = true) (hn : fnorm K = true)
    (hattrs : S.nodeAttrsOK (.elem ty0 a0 m0 K) = true) (hhc : highClosedKids K = true) (hft : f ≤ t)
    (rf rt : RPos) (hf : (Node.elem ty0 a0 m0 K).resolve f = some rf)
    (ht : (Node.elem ty0 a0 m0 K).resolve t = some rt) (hpf : rf.pairOk = true) (hpt : rt.pairOk = true)
    (F T : Nat) (sl : Slice) (b : Bool)
    (h : replaceStep S (.elem ty0 a0 m0 K) f t Slice.empty = .ok (some (.replace F T sl b))) :
    ∃ doc', S.apply (.replace F T sl b) (.elem ty0 a0 m0 K) = .ok doc' := by
  unfold replaceStep at h
  split at h
  · simp [pure, Except.pure] at h
  · simp only [hf, ht] at h
    split at h
    · simp [throw, throwThe, MonadExceptOf.throw] at h
    · rename_i htr
      have := pure_ok h
      simp only [Option.some.injEq, Step.replace.injEq] at this
      obtain ⟨rfl, rfl, rfl, rfl⟩ := this
      exact trivial_delete_applies' S hta hts ty0 a0 m0 K f t rf rt hf ht hv hn hft hpf hpt htr
    · -- the Fitter
      unfold fitterFit at h
      obtain ⟨st0, h0, h⟩ := FM.bind_ok h
      obtain ⟨hu, _, _, _⟩ := fitInit_spec S hf Slice.empty st0 h0
      rw [FM.bind_eq (fitLoop_empty S _ st0 hu)] at h
      obtain ⟨mi, hmi, h⟩ := FM.bind_ok h
      simp only at h
      obtain ⟨target, htarget, h⟩ := FM.bind_ok h
      obtain ⟨c, hc, h⟩ := FM.bind_ok h
      cases c with
      | none => simp [pure, Except.pure] at h
      | some c =>
        simp only at h
        cases mi with
        | some p =>
          -- a replace-around answer: not a replace step
          unfold fitEmit at h
          simp only at h
          split at h
          · simp [throw, throwThe, MonadExceptOf.throw] at h
          · have := pure_ok h
            simp at this
        | none =>
          have htg : target = rt := by
            simp only [closeTarget] at htarget
            exact (pure_ok htarget).symm
          subst htg
          unfold fitEmit at h
          simp only at h
          split at h
          · have := pure_ok h
            simp only [Option.some.injEq, Step.replace.injEq] at this
            obtain ⟨rfl, rfl, rfl, rfl⟩ := this
            have hpos : rf.pos = f := (resolve_resolved hf).pos_eq
            rw [hpos]
            exact close_replace_applies S hdet hleaf hfl hcl hts hjc hro hf ht hv hn hattrs hhc hpf hpt hft st0 h0
              c.1 c.2 hc
          · simp [pure, Except.pure] at h

end PM
