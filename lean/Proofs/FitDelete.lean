/- Proofs/FitDelete.lean — `replace_step(doc, f, t, Slice.empty)` — every deletion — returns in the
   model (PM/Fitter.lean): it does not raise, does not run out of fuel and never needs a negative
   `insert` (`replaceStep_empty_total`).  The loop of `fit` does not run (nothing to place); what
   has to be shown is that `Fitter.__init__`, `must_move_inline` and `close` go through on a valid
   document: positions resolve, `content_match_at` is defined on valid content, every `fill_before`
   answer can be built, `add_to_fragment` stays within the last-child chain of `placed`, the nodes
   `close` re-opens can be created. -/
import Proofs.FitTotal
namespace PM

/-! ### validity along a resolved path -/

theorem checkKids_mem (S : Schema) : ∀ (l : List Node) (n : Node), S.checkKids l = true → n ∈ l →
    S.checkNode n = true
  | [], n, _, h => by simp at h
  | a :: l, n, hc, h => by
    simp only [Schema.checkKids, Bool.and_eq_true] at hc
    rcases List.mem_cons.1 h with rfl | h
    · exact hc.1
    · exact checkKids_mem S l n hc.2 h

theorem kidsAttrsOK_mem (S : Schema) : ∀ (l : List Node) (n : Node), S.kidsAttrsOK l = true → n ∈ l →
    S.nodeAttrsOK n = true
  | [], n, _, h => by simp at h
  | a :: l, n, hc, h => by
    simp only [Schema.kidsAttrsOK, Bool.and_eq_true] at hc
    rcases List.mem_cons.1 h with rfl | h
    · exact hc.1
    · exact kidsAttrsOK_mem S l n hc.2 h

theorem nodeAttrsOK_kids (S : Schema) (n : Node) (h : S.nodeAttrsOK n = true) : S.kidsAttrsOK n.kids = true := by
  cases n with
  | text s m => simp [Node.kids, Schema.kidsAttrsOK]
  | leaf t a m => simp [Node.kids, Schema.kidsAttrsOK]
  | elem t a m k =>
    simp only [Schema.nodeAttrsOK, Bool.and_eq_true] at h
    exact h.2

theorem Resolved.node_check {S : Schema} {doc : Node} {pos : Nat} {r : RPos} (R : Resolved doc pos r)
    (hv : S.checkNode doc = true) : ∀ k, k ≤ r.depth → S.checkNode (r.node k) = true
  | 0, _ => by rw [R.node_zero]; exact hv
  | k + 1, hk => by
    have ih := Resolved.node_check R hv k (by omega)
    have hc := (R.chain k (by omega)).1
    exact checkKids_mem S _ _ (checkNode_kids ih) (List.mem_of_getElem? hc)

theorem Resolved.node_attrsOK {S : Schema} {doc : Node} {pos : Nat} {r : RPos} (R : Resolved doc pos r)
    (hv : S.nodeAttrsOK doc = true) : ∀ k, k ≤ r.depth → S.nodeAttrsOK (r.node k) = true
  | 0, _ => by rw [R.node_zero]; exact hv
  | k + 1, hk => by
    have ih := Resolved.node_attrsOK R hv k (by omega)
    have hc := (R.chain k (by omega)).1
    exact kidsAttrsOK_mem S _ _ (nodeAttrsOK_kids S _ ih) (List.mem_of_getElem? hc)

/-- the nodes below the root of a resolved path are element nodes -/
theorem resolve_node_isElem {doc : Node} {pos : Nat} {r : RPos} (h : doc.resolve pos = some r)
    (k : Nat) (hk1 : 1 ≤ k) (hk : k ≤ r.depth) : ∃ t a m ks, r.node k = .elem t a m ks := by
  have := resolve_tailElem h k hk1 hk
  cases hn : r.node k with
  | elem t a m ks => exact ⟨t, a, m, ks, rfl⟩
  | text s m => rw [hn] at this; simp [Node.isLeaf] at this
  | leaf t a m => rw [hn] at this; simp [Node.isLeaf] at this

/-! ### `content_match_at` on valid content -/

theorem types_take_drop (S : Schema) (kids : List Node) (i : Nat) :
    S.types kids = S.types (kids.take i) ++ S.types (kids.drop i) := by
  unfold Schema.types
  rw [← List.map_append, List.take_append_drop]

/-- every prefix of the children of a checked node runs in its automaton -/
theorem contentMatchAt_of_check (S : Schema) (n : Node) (h : S.checkNode n = true) (i : Nat) :
    ∃ q, S.contentMatchAt (S.tyOf n) n.kids i = some q := by
  unfold Schema.contentMatchAt
  cases n with
  | text s m => exact ⟨0, by simp [Node.kids, Schema.types, Dfa.run]⟩
  | leaf t a m => exact ⟨0, by simp [Node.kids, Schema.types, Dfa.run]⟩
  | elem t a m k =>
    simp only [Schema.checkNode, Schema.validContent, Dfa.accepts, Bool.and_eq_true] at h
    have hacc := h.1.1.1
    simp only [Node.kids, Schema.tyOf, Node.tyOr]
    cases hr : (S.dfa t).run 0 (S.types (k.take i)) with
    | some q => exact ⟨q, rfl⟩
    | none =>
      exfalso
      rw [types_take_drop S k i, Dfa.run_append, hr] at hacc
      simp at hacc

/-! ### every `fill_before` answer can be built -/

/-- every generatable type on an edge can be created and filled (decidable: `Schema.fillersOKB`) -/
def FillersOK (S : Schema) : Prop :=
  ∀ w q ty q', (ty, q') ∈ (S.dfa w).edgesOf q → S.generatable ty = true →
    (createAndFill S (S.nodes.size + 1) ty).isSome = true

theorem fillersOK_of_B (S : Schema) (h : S.fillersOKB = true) : FillersOK S := by
  intro w q ty q' he hg
  by_cases hq : q < (S.dfa w).size
  · by_cases hw : w < S.nodes.size
    · simp only [Schema.fillersOKB, List.all_eq_true, List.mem_range, Bool.or_eq_true,
        Bool.not_eq_eq_eq_not, Bool.not_true] at h
      rcases h w hw q hq (ty, q') he with h1 | h1
      · rw [hg] at h1; simp at h1
      · exact h1
    · have : (S.dfa w).size = 0 := by
        simp only [Schema.dfa, Schema.nodeType]
        rw [getElem!_neg S.nodes w hw]
        rfl
      omega
  · have : (S.dfa w).edgesOf q = [] := by
      simp only [Dfa.edgesOf]
      rw [Array.getElem?_eq_none (by omega)]
    rw [this] at he
    simp at he

theorem run_labels (d : Dfa) : ∀ (l : List TypeId) (q q' : Nat), d.run q l = some q' →
    ∀ ty, ty ∈ l → ∃ q0 y, (ty, y) ∈ d.edgesOf q0
  | [], _, _, _, ty, hty => by simp at hty
  | t :: l, q, q', h, ty, hty => by
    simp only [Dfa.run] at h
    cases hm : d.matchType q t with
    | none => simp [hm] at h
    | some y =>
      rw [hm] at h
      rcases List.mem_cons.1 hty with rfl | hty
      · exact ⟨q, y, Dfa.mem_of_matchType hm⟩
      · exact run_labels d l y q' h ty hty

theorem mapM_isSome {α β : Type} (f : α → Option β) : ∀ (l : List α), (∀ a ∈ l, (f a).isSome = true) →
    ∃ r, l.mapM f = some r
  | [], _ => ⟨[], rfl⟩
  | a :: l, h => by
    obtain ⟨b, hb⟩ := Option.isSome_iff_exists.1 (h a (by simp))
    obtain ⟨r, hr⟩ := mapM_isSome f l (fun x hx => h x (by simp [hx]))
    exact ⟨b :: r, by simp [List.mapM_cons, hb, hr]⟩

/-- **`fill_before` never fails to build its answer** -/
theorem fillOpt_ok (S : Schema) (hdet : DetS S) (hf : FillersOK S) (w q : Nat) (after : List TypeId)
    (toEnd : Bool) : ∃ r, fillOpt S (S.dfa w) q after toEnd = .ok r := by
  unfold fillOpt fillBeforeNodes
  cases h : fillBeforeTypes S (S.dfa w) q after toEnd with
  | none => exact ⟨none, rfl⟩
  | some tys =>
    obtain ⟨hall, q1, hrun, _⟩ := fillBeforeTypes_sound S (S.dfa w) (hdet w) q after toEnd tys h
    obtain ⟨ns, hns⟩ := mapM_isSome (createAndFill S (S.nodes.size + 1)) tys (by
      intro ty hty
      obtain ⟨q0, y, hy⟩ := run_labels (S.dfa w) tys q q1 hrun ty hty
      exact hf w q0 ty y hy (List.all_eq_true.1 hall ty hty))
    exact ⟨some ns, by simp only [hns]; rfl⟩

theorem contentAfterFitsAt_ok (S : Schema) (hdet : DetS S) (hf : FillersOK S) (node : Node) (index : Nat)
    (ty : TypeId) (q : Nat) : ∃ r, contentAfterFitsAt S node index ty (some q) = .ok r := by
  unfold contentAfterFitsAt
  split
  · exact ⟨none, rfl⟩
  · obtain ⟨r, hr⟩ := fillOpt_ok S hdet hf ty q (S.types (node.kids.drop index)) true
    simp only [liftRaise, bind, Except.bind, pure, Except.pure, hr]
    cases r with
    | none => exact ⟨none, rfl⟩
    | some f =>
      simp only
      split
      · exact ⟨none, rfl⟩
      · exact ⟨some f, rfl⟩

theorem contentAfterFits_ok (S : Schema) (hdet : DetS S) (hf : FillersOK S) (rt : RPos) (depth : Nat)
    (ty : TypeId) (q : Nat) (o : Bool) (hd : depth ≤ rt.depth) :
    ∃ r, contentAfterFits S rt depth ty (some q) o = .ok r := by
  unfold contentAfterFits
  rw [if_neg (by omega)]
  exact contentAfterFitsAt_ok S hdet hf _ _ ty q

/-! ### `find_close_level` goes through -/

/-- every frontier entry holds a match (not `None`) -/
def FrOK (fr : List FItem) : Prop := ∀ it ∈ fr, ∃ q, it.st = some q

theorem FM.bind_eq {α β : Type} {x : FM α} {f : α → FM β} {a : α} (hx : x = .ok a) : (x >>= f) = f a := by
  subst hx; rfl

theorem getItem_lt {fr : List FItem} {i : Nat} (h : i < fr.length) : getItem fr i = .ok fr[i] := by
  unfold getItem
  rw [List.getElem?_eq_getElem h]
  rfl

theorem closeInner_ok (S : Schema) (hdet : DetS S) (hf : FillersOK S) (rt : RPos) (fr : List FItem)
    (hfr : FrOK fr) : ∀ n, n ≤ fr.length → n ≤ rt.depth + 1 → ∃ r, closeInner S rt fr n = .ok r
  | 0, _, _ => ⟨true, rfl⟩
  | d + 1, h1, h2 => by
    unfold closeInner
    rw [FM.bind_eq (getItem_lt (by omega))]
    obtain ⟨q, hq⟩ := hfr fr[d] (List.getElem_mem _)
    obtain ⟨r, hr⟩ := contentAfterFits_ok S hdet hf rt d fr[d].ty q true (by omega)
    rw [hq, FM.bind_eq hr]
    cases r with
    | none => exact ⟨false, rfl⟩
    | some l =>
      simp only
      split
      · exact ⟨false, rfl⟩
      · exact closeInner_ok S hdet hf rt fr hfr d (by omega) (by omega)

theorem closeMove_ok {doc : Node} {t : Nat} {rt : RPos} (R : Resolved doc t rt) (i : Nat) (b : Bool)
    (hb : b = true → i < rt.depth) : ∃ mv, closeMove doc rt i b = .ok mv := by
  unfold closeMove
  cases b with
  | false => exact ⟨rt, rfl⟩
  | true =>
    have hi := hb rfl
    simp only [if_true]
    rw [R.after_eq (i + 1) (by omega) (by omega)]
    simp only [liftRaise, bind, Except.bind, pure, Except.pure]
    obtain ⟨r, hr⟩ := resolve_isSome doc (rt.end_ (i + 1) + 1) ((R.end_le_size (i + 1) (by omega)).2 (by omega))
    rw [hr]
    exact ⟨r, rfl⟩

theorem findCloseLevelLoop_ok (S : Schema) (hdet : DetS S) (hf : FillersOK S) {doc : Node} {t : Nat}
    {rt : RPos} (R : Resolved doc t rt) (fr : List FItem) (hfr : FrOK fr) :
    ∀ n, n ≤ fr.length → n ≤ rt.depth + 1 → ∃ r, findCloseLevelLoop S doc rt fr n = .ok r
  | 0, _, _ => ⟨none, rfl⟩
  | i + 1, h1, h2 => by
    unfold findCloseLevelLoop
    rw [FM.bind_eq (getItem_lt (by omega))]
    obtain ⟨q, hq⟩ := hfr fr[i] (List.getElem_mem _)
    simp only
    obtain ⟨r, hr⟩ := contentAfterFits_ok S hdet hf rt i fr[i].ty q
      (decide (i < rt.depth) && rt.end_ (i + 1) == rt.pos + (rt.depth - (i + 1))) (by omega)
    rw [hq, FM.bind_eq hr]
    have ih := findCloseLevelLoop_ok S hdet hf R fr hfr i (by omega) (by omega)
    cases r with
    | none => exact ih
    | some fit =>
      simp only
      obtain ⟨b, hb⟩ := closeInner_ok S hdet hf rt fr hfr i (by omega) (by omega)
      rw [FM.bind_eq hb]
      cases b with
      | false => exact ih
      | true =>
        simp only [if_true]
        obtain ⟨mv, hmv⟩ := closeMove_ok R i
          (decide (i < rt.depth) && rt.end_ (i + 1) == rt.pos + (rt.depth - (i + 1))) (by
            intro hb
            simp only [Bool.and_eq_true, decide_eq_true_eq] at hb
            exact hb.1)
        rw [FM.bind_eq hmv]
        exact ⟨_, rfl⟩

theorem findCloseLevel_ok (S : Schema) (hdet : DetS S) (hf : FillersOK S) {doc : Node} {t : Nat}
    {rt : RPos} (R : Resolved doc t rt) (fr : List FItem) (hfr : FrOK fr) (hne : fr ≠ []) :
    ∃ r, findCloseLevel S doc rt fr = .ok r := by
  unfold findCloseLevel
  have : 1 ≤ fr.length := by
    cases fr with
    | nil => exact absurd rfl hne
    | cons a l => simp
  exact findCloseLevelLoop_ok S hdet hf R fr hfr _ (by omega) (by omega)

/-- the level `find_close_level` answers lies within the frontier and the target's depth -/
theorem findCloseLevelLoop_depth (S : Schema) (doc : Node) (rt : RPos) (fr : List FItem) :
    ∀ (n : Nat) (lv : CloseLevel), findCloseLevelLoop S doc rt fr n = .ok (some lv) → lv.depth < n
  | 0, lv, h => by simp [findCloseLevelLoop, pure, Except.pure] at h
  | i + 1, lv, h => by
    unfold findCloseLevelLoop at h
    obtain ⟨it, _, h⟩ := FM.bind_ok h
    simp only at h
    obtain ⟨r, _, h⟩ := FM.bind_ok h
    cases r with
    | none => have := findCloseLevelLoop_depth S doc rt fr i lv h; omega
    | some fit =>
      simp only at h
      obtain ⟨b, _, h⟩ := FM.bind_ok h
      cases b with
      | false => have := findCloseLevelLoop_depth S doc rt fr i lv h; omega
      | true =>
        simp only [if_true] at h
        obtain ⟨mv, _, h⟩ := FM.bind_ok h
        have := pure_ok h
        simp only [Option.some.injEq] at this
        subst this
        simp

/-! ### `must_move_inline` goes through -/

theorem getLast_mem_FrOK {fr : List FItem} (hfr : FrOK fr) (h : fr ≠ []) :
    ∃ q, (fr[fr.length - 1]'(by cases fr with | nil => exact absurd rfl h | cons a l => simp)).st = some q :=
  hfr _ (List.getElem_mem _)

theorem mustMoveInline_ok (S : Schema) (hdet : DetS S) (hf : FillersOK S) {doc : Node} {t : Nat}
    {rt : RPos} (R : Resolved doc t rt) (fr : List FItem) (hfr : FrOK fr) (hne : fr ≠ [])
    (htop : S.isTextblockO (S.tyOf doc) = false) : ∃ r, mustMoveInline S doc rt fr = .ok r := by
  have hlen : fr.length - 1 < fr.length := by
    cases fr with
    | nil => exact absurd rfl hne
    | cons a l => simp
  unfold mustMoveInline
  split
  · exact ⟨none, rfl⟩
  · rename_i hpar
    rw [FM.bind_eq (getItem_lt hlen)]
    split
    · exact ⟨none, rfl⟩
    · obtain ⟨q, hq⟩ := hfr fr[fr.length - 1] (List.getElem_mem _)
      obtain ⟨r, hr⟩ := contentAfterFits_ok S hdet hf rt rt.depth fr[fr.length - 1].ty q false (Nat.le_refl _)
      rw [hq, FM.bind_eq hr]
      cases r with
      | none => exact ⟨none, rfl⟩
      | some _ =>
        simp only
        have hmb : ∃ b, moveBlocked S doc rt fr = .ok b := by
          unfold moveBlocked
          split
          · obtain ⟨lv, hlv⟩ := findCloseLevel_ok S hdet hf R fr hfr hne
            rw [FM.bind_eq hlv]
            cases lv <;> exact ⟨_, rfl⟩
          · exact ⟨false, rfl⟩
        obtain ⟨b, hb⟩ := hmb
        rw [FM.bind_eq hb]
        cases b with
        | true => exact ⟨none, rfl⟩
        | false =>
          simp only [Bool.false_eq_true, if_false]
          have hd : 1 ≤ rt.depth := by
            rcases Nat.eq_zero_or_pos rt.depth with h0 | h0
            · exfalso
              have : rt.parent = doc := by
                unfold RPos.parent; rw [h0]; exact R.node_zero
              rw [this, htop] at hpar
              simp at hpar
            · exact h0
          rw [R.after_eq rt.depth hd (Nat.le_refl _)]
          exact ⟨_, rfl⟩

/-! ### the last-child chain of `placed` -/

/-- `add_to_fragment(placed, d, …)` finds a non-leaf last child at each of the `d` levels -/
def rspineOK : Nat → List Node → Prop
  | 0, _ => True
  | d + 1, frag => ∃ t a m kids, frag.getLast? = some (.elem t a m kids) ∧ rspineOK d kids

theorem rspineOK_le : ∀ (d d' : Nat) (l : List Node), d' ≤ d → rspineOK d l → rspineOK d' l
  | _, 0, _, _, _ => trivial
  | 0, d' + 1, _, h, _ => by omega
  | d + 1, d' + 1, l, h, ⟨t, a, m, kids, h1, h2⟩ => ⟨t, a, m, kids, h1, rspineOK_le d d' kids (by omega) h2⟩

theorem fappend_elem_last (frag : List Node) (t : TypeId) (a : Attrs) (m : Marks) (k : List Node) :
    (fappend frag [.elem t a m k]).getLast? = some (.elem t a m k) := by
  unfold fappend
  simp only
  split
  · simp
  · simp only [List.append_nil]
    unfold addNode
    split
    · rename_i h _ _ _ _ _ heq
      cases heq
    · simp

/-- `add_to_fragment` within the chain succeeds and keeps the chain; adding one element node makes
    the chain one level longer -/
theorem addToFragment_ok : ∀ (d : Nat) (frag c : List Node), rspineOK d frag →
    ∃ r, addToFragment frag d c = .ok r ∧ rspineOK d r ∧
      (∀ t a m k, c = [.elem t a m k] → rspineOK (d + 1) r)
  | 0, frag, c, _ => by
    refine ⟨fappend frag c, rfl, trivial, ?_⟩
    intro t a m k hc
    subst hc
    exact ⟨t, a, m, k, fappend_elem_last frag t a m k, trivial⟩
  | d + 1, frag, c, ⟨t, a, m, kids, h1, h2⟩ => by
    obtain ⟨inner, hi, hs, hs'⟩ := addToFragment_ok d kids c h2
    unfold addToFragment
    simp only [h1, FM.bind_eq hi]
    refine ⟨_, rfl, ⟨t, a, m, inner, by simp, hs⟩, ?_⟩
    intro t' a' m' k' hc
    exact ⟨t, a, m, inner, by simp, hs' t' a' m' k' hc⟩

/-! ### `close_frontier_node`, `open_frontier_node` go through -/

theorem FrOK.dropLast {fr : List FItem} (h : FrOK fr) : FrOK fr.dropLast := by
  intro it hit
  rw [List.dropLast_eq_take] at hit
  exact h it (List.mem_of_mem_take hit)

theorem closeFrontierNode_ok (S : Schema) (hdet : DetS S) (hf : FillersOK S) (fr : List FItem)
    (placed : List Node) (hfr : FrOK fr) (hne : fr ≠ []) (hsp : rspineOK (fr.length - 1) placed) :
    ∃ r, closeFrontierNode S fr placed = .ok r ∧ r.1 = fr.dropLast ∧ rspineOK (r.1.length - 1) r.2 := by
  unfold closeFrontierNode
  cases hl : fr.getLast? with
  | none => rw [List.getLast?_eq_none_iff] at hl; exact absurd hl hne
  | some open_ =>
    simp only
    obtain ⟨q, hq⟩ := hfr open_ (List.mem_of_getLast? hl)
    have hgs : getSt open_ = .ok q := by unfold getSt; rw [hq]; rfl
    rw [FM.bind_eq hgs]
    obtain ⟨add, hadd⟩ := fillOpt_ok S hdet hf open_.ty q [] true
    rw [FM.bind_eq hadd]
    have hmono : rspineOK (fr.dropLast.length - 1) placed :=
      rspineOK_le _ _ _ (by rw [List.length_dropLast]; omega) hsp
    cases add with
    | none => exact ⟨_, rfl, rfl, hmono⟩
    | some a =>
      simp only
      split
      · exact ⟨_, rfl, rfl, hmono⟩
      · obtain ⟨p, hp, hps, _⟩ := addToFragment_ok fr.dropLast.length placed a
          (by rw [List.length_dropLast]; exact hsp)
        rw [FM.bind_eq hp]
        exact ⟨_, rfl, rfl, rspineOK_le _ _ _ (by simp only; omega) hps⟩

theorem closeMany_ok (S : Schema) (hdet : DetS S) (hf : FillersOK S) : ∀ (n : Nat) (fr : List FItem)
    (placed : List Node), FrOK fr → n ≤ fr.length → rspineOK (fr.length - 1) placed →
    ∃ r, closeMany S n fr placed = .ok r ∧ r.1 = fr.take (fr.length - n) ∧ rspineOK (r.1.length - 1) r.2
  | 0, fr, placed, _, _, hsp => ⟨(fr, placed), rfl, by simp, hsp⟩
  | n + 1, fr, placed, hfr, hn, hsp => by
    have hne : fr ≠ [] := by
      intro h0; subst h0; simp at hn
    obtain ⟨x, hx, hx1, hx2⟩ := closeFrontierNode_ok S hdet hf fr placed hfr hne hsp
    have hxl : x.1.length = fr.length - 1 := by rw [hx1, List.length_dropLast]
    obtain ⟨r, hr, hr1, hr2⟩ := closeMany_ok S hdet hf n x.1 x.2 (by rw [hx1]; exact hfr.dropLast)
      (by omega) hx2
    unfold closeMany
    rw [FM.bind_eq hx]
    refine ⟨r, hr, ?_, hr2⟩
    rw [hr1, hx1, List.length_dropLast, List.dropLast_eq_take, List.take_take]
    congr 1
    omega

theorem createNodeO_ok (S : Schema) (ty : TypeId) (attrs : Attrs) (content : List Node)
    (h1 : (S.nodeType ty).isText = false) (a' : Attrs) (h2 : computeAttrs (S.nodeType ty).attrs attrs = .ok a') :
    S.createNodeO ty (some attrs) content = .ok (S.mkNodeO ty a' [] content) := by
  unfold Schema.createNodeO
  simp only [h1, Bool.false_eq_true, if_false, Option.getD_some, h2]
  rfl

/-- the frontier has a last entry and that entry holds a match -/
def LastOKF (fr : List FItem) : Prop := ∃ it q, fr.getLast? = some it ∧ it.st = some q

theorem openFrontierNode_ok (S : Schema) (fr : List FItem) (placed : List Node) (t : TypeId) (a : Attrs)
    (content : List Node) (hl : LastOKF fr) (hsp : rspineOK (fr.length - 1) placed)
    (h1 : (S.nodeType t).isText = false) (h2 : (S.nodeType t).isLeaf = false)
    (h3 : ∃ a', computeAttrs (S.nodeType t).attrs a = .ok a') :
    ∃ r, openFrontierNode S fr placed t (some a) content = .ok r ∧ LastOKF r.1 ∧
      r.1.length = fr.length + 1 ∧ rspineOK (r.1.length - 1) r.2 := by
  obtain ⟨it, q, hlast, hq⟩ := hl
  obtain ⟨a', ha'⟩ := h3
  have hne : fr ≠ [] := by
    intro h0; subst h0; simp at hlast
  have hlen : fr.length - 1 < fr.length := by
    cases fr with
    | nil => exact absurd rfl hne
    | cons x l => simp
  have hit : fr[fr.length - 1] = it := by
    rw [List.getLast?_eq_getElem?, List.getElem?_eq_getElem hlen] at hlast
    simpa using hlast
  unfold openFrontierNode
  simp only
  rw [FM.bind_eq (getItem_lt hlen), hit]
  have hgs : getSt it = .ok q := by unfold getSt; rw [hq]; rfl
  rw [FM.bind_eq hgs, FM.bind_eq (createNodeO_ok S t a content h1 a' ha')]
  have hnode : S.mkNodeO t a' [] content = .elem t a' [] content := by
    unfold Schema.mkNodeO; simp [h2]
  rw [hnode]
  obtain ⟨p, hp, _, hps⟩ := addToFragment_ok (fr.length - 1) placed [.elem t a' [] content] hsp
  rw [FM.bind_eq hp]
  refine ⟨_, rfl, ⟨⟨t, some 0⟩, 0, by simp, rfl⟩, by simp, ?_⟩
  simp only [List.length_append, List.length_set, List.length_cons, List.length_nil, Nat.zero_add,
    Nat.add_sub_cancel]
  have := hps t a' [] content rfl
  rwa [show fr.length - 1 + 1 = fr.length by omega] at this

/-! ### `close` re-opens the nodes around the target -/

theorem nodeAttrsOK_elem {S : Schema} {t : TypeId} {a : Attrs} {m : Marks} {k : List Node}
    (h : S.nodeAttrsOK (.elem t a m k) = true) :
    (S.nodeType t).isText = false ∧ (S.nodeType t).isLeaf = false ∧
      ∃ a', computeAttrs (S.nodeType t).attrs a = .ok a' := by
  simp only [Schema.nodeAttrsOK, Bool.and_eq_true, Bool.not_eq_eq_eq_not, Bool.not_true] at h
  refine ⟨h.1.1.1, h.1.1.2, ?_⟩
  cases hc : computeAttrs (S.nodeType t).attrs a with
  | ok a' => exact ⟨a', rfl⟩
  | error e => rw [hc] at h; simp at h

theorem reopen_ok (S : Schema) (hdet : DetS S) (hf : FillersOK S) {doc : Node} {p : Nat} {mv : RPos}
    (hmv : doc.resolve p = some mv) (hattrs : S.nodeAttrsOK doc = true) :
    ∀ (n d : Nat) (fr : List FItem) (placed : List Node), 1 ≤ d → (∀ j, d ≤ j → j < d + n → j ≤ mv.depth) →
      LastOKF fr → rspineOK (fr.length - 1) placed → ∃ r, reopen S mv n d fr placed = .ok r
  | 0, d, fr, placed, _, _, _, _ => ⟨(fr, placed), rfl⟩
  | n + 1, d, fr, placed, hd, hrange, hl, hsp => by
    have R := resolve_resolved hmv
    have hdle : d ≤ mv.depth := hrange d (Nat.le_refl _) (by omega)
    obtain ⟨t, a, m, ks, hn⟩ := resolve_node_isElem hmv d hd hdle
    have hok := R.node_attrsOK hattrs d hdle
    rw [hn] at hok
    obtain ⟨h1, h2, h3⟩ := nodeAttrsOK_elem hok
    unfold reopen
    simp only [hn, Schema.tyOf, Node.tyOr, Node.kids, Node.attrs]
    obtain ⟨add, hadd⟩ := fillOpt_ok S hdet hf t 0 (S.types (ks.drop (mv.index d))) true
    rw [FM.bind_eq hadd]
    obtain ⟨r, hr, hr1, hr2, hr3⟩ := openFrontierNode_ok S fr placed t a (add.getD []) hl hsp h1 h2 h3
    rw [FM.bind_eq hr]
    exact reopen_ok S hdet hf hmv hattrs n (d + 1) r.1 r.2 (by omega)
      (fun j h1 h2 => hrange j (by omega) (by omega)) hr1 hr3

/-! ### the state `Fitter.__init__` builds -/

theorem mapM_FM_ok {α β : Type} (f : α → FM β) : ∀ (l : List α), (∀ a ∈ l, ∃ b, f a = .ok b) →
    ∃ r, l.mapM f = .ok r ∧ r.length = l.length ∧ ∀ b ∈ r, ∃ a ∈ l, f a = .ok b
  | [], _ => ⟨[], rfl, rfl, by simp⟩
  | a :: l, h => by
    obtain ⟨b, hb⟩ := h a (by simp)
    obtain ⟨r, hr, hr1, hr2⟩ := mapM_FM_ok f l (fun x hx => h x (by simp [hx]))
    refine ⟨b :: r, by simp only [List.mapM_cons, FM.bind_eq hb, FM.bind_eq hr]; rfl, by simp [hr1], ?_⟩
    intro b' hb'
    rcases List.mem_cons.1 hb' with rfl | hb'
    · exact ⟨a, by simp, hb⟩
    · obtain ⟨a', ha', hfa'⟩ := hr2 b' hb'
      exact ⟨a', by simp [ha'], hfa'⟩

/-- the nested copies of the nodes around `from` -/
def nestPlaced (rf : RPos) (l : List Nat) : List Node :=
  l.foldr (fun i acc => [(rf.node (i + 1)).withKids acc]) []

theorem nestPlaced_spec (rf : RPos) : ∀ (l : List Nat), (∀ i ∈ l, ∃ t a m k, rf.node (i + 1) = .elem t a m k) →
    rspineOK l.length (nestPlaced rf l) ∧ fsize (nestPlaced rf l) = 2 * l.length
  | [], _ => ⟨trivial, by simp [nestPlaced]⟩
  | i :: l, h => by
    obtain ⟨t, a, m, k, hn⟩ := h i (by simp)
    obtain ⟨ih1, ih2⟩ := nestPlaced_spec rf l (fun j hj => h j (by simp [hj]))
    have e : nestPlaced rf (i :: l) = [.elem t a m (nestPlaced rf l)] := by
      simp [nestPlaced, hn, Node.withKids]
    rw [e]
    refine ⟨⟨t, a, m, _, by simp, ih1⟩, ?_⟩
    simp only [Node.size_elem, List.length_cons, ih2, fsize]
    omega

theorem fitInit_ok (S : Schema) {doc : Node} {f : Nat} {rf : RPos} (hf : doc.resolve f = some rf)
    (hv : S.checkNode doc = true) (sl : Slice) :
    ∃ st0, fitInit S rf sl = .ok st0 ∧ st0.unplaced = sl ∧ FrOK st0.frontier ∧
      st0.frontier.length = rf.depth + 1 ∧ rspineOK rf.depth st0.placed ∧ fsize st0.placed = 2 * rf.depth := by
  have R := resolve_resolved hf
  unfold fitInit
  obtain ⟨fr, hfr, hlen, hmem⟩ := mapM_FM_ok (fun i => do
      let node := rf.node i
      let q ← liftRaise (S.contentMatchAt (S.tyOf node) node.kids (rf.indexAfter i))
      pure (⟨S.tyOf node, some q⟩ : FItem)) (List.range (rf.depth + 1)) (by
    intro i hi
    simp only [List.mem_range] at hi
    obtain ⟨q, hq⟩ := contentMatchAt_of_check S (rf.node i) (R.node_check hv i (by omega)) (rf.indexAfter i)
    exact ⟨⟨S.tyOf (rf.node i), some q⟩, by simp only [hq, liftRaise]; rfl⟩)
  rw [FM.bind_eq hfr]
  obtain ⟨hsp, hsz⟩ := nestPlaced_spec rf (List.range rf.depth) (by
    intro i hi
    simp only [List.mem_range] at hi
    exact resolve_node_isElem hf (i + 1) (by omega) (by omega))
  simp only [List.length_range] at hsp hsz hlen
  refine ⟨_, rfl, rfl, ?_, hlen, hsp, hsz⟩
  intro it hit
  obtain ⟨i, _, hi⟩ := hmem it hit
  simp only at hi
  obtain ⟨q, _, hi⟩ := FM.bind_ok hi
  have := pure_ok hi
  exact ⟨q, by rw [← this]⟩

/-! ### `close` goes through -/

theorem FrOK.take {fr : List FItem} (h : FrOK fr) (n : Nat) : FrOK (fr.take n) :=
  fun it hit => h it (List.mem_of_mem_take hit)

theorem closeFit_ok (S : Schema) (hdet : DetS S) (hf : FillersOK S) {doc : Node} {t : Nat} {rt : RPos}
    (ht : doc.resolve t = some rt) (hattrs : S.nodeAttrsOK doc = true) (fr : List FItem) (placed : List Node)
    (hfr : FrOK fr) (hne : fr ≠ []) (hsp : rspineOK (fr.length - 1) placed) :
    ∃ r, closeFit S doc rt fr placed = .ok r := by
  have R := resolve_resolved ht
  have hlen : 1 ≤ fr.length := by
    cases fr with
    | nil => exact absurd rfl hne
    | cons a l => simp
  unfold closeFit
  obtain ⟨lv, hlv⟩ := findCloseLevel_ok S hdet hf R fr hfr hne
  rw [FM.bind_eq hlv]
  cases lv with
  | none => exact ⟨none, rfl⟩
  | some lv =>
    simp only
    have hdep : lv.depth < min (fr.length - 1) rt.depth + 1 := findCloseLevelLoop_depth S doc rt fr _ lv hlv
    obtain ⟨c1, hc1, hc1f, hc1s⟩ := closeMany_ok S hdet hf (fr.length - 1 - lv.depth) fr placed hfr (by omega) hsp
    rw [FM.bind_eq hc1]
    have hc1len : c1.1.length = lv.depth + 1 := by
      rw [hc1f, List.length_take]; omega
    -- the filling of the close level goes in
    have hplaced : ∃ p, (if !lv.fit.isEmpty then addToFragment c1.2 lv.depth lv.fit else pure c1.2) = .ok p ∧
        rspineOK lv.depth p := by
      rw [hc1len, Nat.add_sub_cancel] at hc1s
      split
      · obtain ⟨p, hp, hps, _⟩ := addToFragment_ok lv.depth c1.2 lv.fit hc1s
        exact ⟨p, hp, hps⟩
      · exact ⟨c1.2, rfl, hc1s⟩
    obtain ⟨p, hp, hps⟩ := hplaced
    rw [FM.bind_eq hp]
    -- where `close` continues from is a resolved position of the same document
    have hmv : ∃ pm, doc.resolve pm = some lv.move := by
      rcases findCloseLevelLoop_move S doc rt fr _ lv hlv with hm | ⟨i, a, _, _, _, hres⟩
      · exact ⟨t, by rw [hm]; exact ht⟩
      · exact ⟨a, hres⟩
    obtain ⟨pm, hpm⟩ := hmv
    have hlast : LastOKF c1.1 := by
      have hc1ok : FrOK c1.1 := by rw [hc1f]; exact hfr.take _
      have hl : lv.depth < c1.1.length := by omega
      refine ⟨c1.1[lv.depth], ?_⟩
      obtain ⟨q, hq⟩ := hc1ok c1.1[lv.depth] (List.getElem_mem _)
      refine ⟨q, ?_, hq⟩
      rw [List.getLast?_eq_getElem?, hc1len, Nat.add_sub_cancel, List.getElem?_eq_getElem hl]
    obtain ⟨c2, hc2⟩ := reopen_ok S hdet hf hpm hattrs (lv.move.depth - lv.depth) (lv.depth + 1) c1.1 p
      (by omega) (fun j h1 h2 => by omega) hlast (by rw [hc1len, Nat.add_sub_cancel]; exact hps)
    rw [FM.bind_eq hc2]
    exact ⟨_, rfl⟩

/-! ### putting it together -/

theorem fitsTriviallyR_some (S : Schema) {doc : Node} {f : Nat} {rf rt : RPos} (hf : doc.resolve f = some rf)
    (hv : S.checkNode doc = true) (sl : Slice) : ∃ b, fitsTriviallyR S rf rt sl = some b := by
  have R := resolve_resolved hf
  unfold fitsTriviallyR
  split
  · unfold Schema.nodeCanReplace
    have hidx := (R.entry rf.depth (Nat.le_refl _)).idx_le
    have hpar : rf.parent = rf.node rf.depth := rfl
    rw [if_neg (by rw [hpar]; unfold RPos.index RPos.node; omega)]
    unfold Schema.canReplace
    obtain ⟨q, hq⟩ := contentMatchAt_of_check S rf.parent (R.node_check hv rf.depth (Nat.le_refl _)) (rf.index rf.depth)
    rw [hq]
    simp only
    split
    · exact ⟨false, rfl⟩
    · split
      · exact ⟨false, rfl⟩
      · exact ⟨_, rfl⟩
  · exact ⟨false, rfl⟩

theorem fitLoop_empty (S : Schema) (fuel : Nat) (st : FitState) (h : st.unplaced = Slice.empty) :
    fitLoop S fuel st = .ok st := by
  have hs : (st.unplaced.size == 0) = true := by rw [h]; decide
  cases fuel with
  | zero => unfold fitLoop; rw [hs]; rfl
  | succ n => unfold fitLoop; rw [hs]; rfl

/-- **`Fitter(from, to, Slice.empty).fit()` returns** on a valid document -/
theorem fitterFit_empty_ok (S : Schema) (hdet : DetS S) (hfill : FillersOK S) {doc : Node} {f t : Nat}
    {rf rt : RPos} (hf : doc.resolve f = some rf) (ht : doc.resolve t = some rt)
    (hv : S.checkNode doc = true) (hattrs : S.nodeAttrsOK doc = true)
    (htop : S.isTextblockO (S.tyOf doc) = false) (fuel : Nat) :
    ∃ r, fitterFit S doc rf rt Slice.empty fuel = .ok r := by
  have Rt := resolve_resolved ht
  obtain ⟨st0, h0, hu, hfr, hlen, hsp, hsz⟩ := fitInit_ok S hf hv Slice.empty
  have hne : st0.frontier ≠ [] := by
    intro h; rw [h] at hlen; simp at hlen
  unfold fitterFit
  rw [FM.bind_eq h0, FM.bind_eq (fitLoop_empty S fuel st0 hu)]
  obtain ⟨mi, hmi⟩ := mustMoveInline_ok S hdet hfill Rt st0.frontier hfr hne htop
  rw [FM.bind_eq hmi]
  simp only
  -- the position `close` is called with resolves
  have htarget : ∃ target pt, closeTarget doc rt mi = .ok target ∧ doc.resolve pt = some target := by
    cases mi with
    | none => exact ⟨rt, t, rfl, ht⟩
    | some p =>
      obtain ⟨after, ha, hp⟩ := mustMoveInline_some S doc rt st0.frontier p hmi
      have hd1 : 1 ≤ rt.depth := by
        rcases Nat.eq_zero_or_pos rt.depth with h0 | h0
        · rw [h0] at ha; simp [RPos.after] at ha
        · exact h0
      rw [Rt.after_eq rt.depth hd1 (Nat.le_refl _)] at ha
      simp only [Option.some.injEq] at ha
      have ns := Rt.nest_step (rt.depth - 1) (by omega)
      rw [show rt.depth - 1 + 1 = rt.depth by omega] at ns
      obtain ⟨_, m2, _⟩ := moveInlineAfter_spec Rt ht rt.depth after hd1 (Nat.le_refl _) (by omega)
      obtain ⟨r, hr⟩ := resolve_isSome doc p (by rw [hp]; exact m2)
      exact ⟨r, p, by simp only [closeTarget, hr]; rfl, hr⟩
  obtain ⟨target, pt, htg, hpt⟩ := htarget
  rw [FM.bind_eq htg]
  obtain ⟨c, hc⟩ := closeFit_ok S hdet hfill hpt hattrs st0.frontier st0.placed hfr hne
    (by rw [hlen, Nat.add_sub_cancel]; exact hsp)
  rw [FM.bind_eq hc]
  cases c with
  | none => exact ⟨none, rfl⟩
  | some c =>
    simp only
    unfold fitEmit
    cases mi with
    | none =>
      simp only
      split
      · exact ⟨_, rfl⟩
      · exact ⟨none, rfl⟩
    | some p =>
      simp only
      rw [if_neg (by rw [hsz, hlen]; simp only [Nat.add_sub_cancel]; omega)]
      exact ⟨_, rfl⟩

/-- **`replace_step(doc, f, t, Slice.empty)` returns** — `None` or a step — for every range of a
    valid document: no `raises`, no `outOfFuel`, no `negInsert` -/
theorem replaceStep_empty_total (S : Schema) (hdet : DetS S) (hfill : FillersOK S) (doc : Node) (f t : Nat)
    (hv : S.checkNode doc = true) (hattrs : S.nodeAttrsOK doc = true)
    (htop : S.isTextblockO (S.tyOf doc) = false) (hf : f ≤ fsize doc.kids) (ht : t ≤ fsize doc.kids) :
    ∃ r, replaceStep S doc f t Slice.empty = .ok r := by
  obtain ⟨rf, hrf⟩ := resolve_isSome doc f hf
  obtain ⟨rt, hrt⟩ := resolve_isSome doc t ht
  unfold replaceStep
  split
  · exact ⟨none, rfl⟩
  · simp only [hrf, hrt]
    obtain ⟨b, hb⟩ := fitsTriviallyR_some S hrf hv (rt := rt) Slice.empty
    rw [hb]
    cases b with
    | true => exact ⟨_, rfl⟩
    | false => exact fitterFit_empty_ok S hdet hfill hrf hrt hv hattrs htop _

/-! ### `delete_range`: the widening goes through as well -/

theorem nodeCanReplace_some (S : Schema) {doc : Node} {f : Nat} {rf : RPos} (Rf : Resolved doc f rf)
    (hv : S.checkNode doc = true) (k : Nat) (hk : k ≤ rf.depth) (to : Nat) (repl : List Node) :
    ∃ b, S.nodeCanReplace (rf.node k) (rf.index k) to repl = some b := by
  unfold Schema.nodeCanReplace
  have hidx := (Rf.entry k hk).idx_le
  rw [if_neg (by unfold RPos.index RPos.node; omega)]
  unfold Schema.canReplace
  obtain ⟨q, hq⟩ := contentMatchAt_of_check S (rf.node k) (Rf.node_check hv k hk) (rf.index k)
  rw [hq]
  simp only
  split
  · exact ⟨false, rfl⟩
  · split
    · exact ⟨false, rfl⟩
    · exact ⟨_, rfl⟩

theorem before_some (r : RPos) (d : Nat) (h1 : 1 ≤ d) (hd : d ≤ r.depth) : ∃ b, r.before d = some b := by
  unfold RPos.before
  rw [if_neg (by omega), if_neg (by omega), if_pos hd]
  exact ⟨_, rfl⟩

theorem after_some (r : RPos) (d : Nat) (h1 : 1 ≤ d) (hd : d ≤ r.depth) : ∃ b, r.after d = some b := by
  unfold RPos.after
  rw [if_neg (by omega), if_neg (by omega), if_pos hd]
  exact ⟨_, rfl⟩

theorem deleteRangeCovered_some (S : Schema) {doc : Node} {f : Nat} {rf rt : RPos} (Rf : Resolved doc f rf)
    (hv : S.checkNode doc = true) : ∀ (ds : List Nat), (∀ d ∈ ds, d ≤ rf.depth ∧ d ≤ rt.depth) →
    ∃ r, deleteRangeCovered S rf rt ds = some r
  | [], _ => ⟨none, rfl⟩
  | depth :: rest, h => by
    obtain ⟨hd1, hd2⟩ := h depth (by simp)
    have ih := deleteRangeCovered_some S Rf hv rest (fun d hd => h d (by simp [hd]))
    unfold deleteRangeCovered
    simp only
    split
    · exact ⟨_, rfl⟩
    · have hsec : ∃ b, (if depth == 0 then some false
          else if rest.isEmpty then some true
          else S.nodeCanReplace (rf.node (depth - 1)) (rf.index (depth - 1)) (rt.indexAfter (depth - 1)) []) = some b ∧
          (b = true → 1 ≤ depth) := by
        by_cases h0 : depth = 0
        · exact ⟨false, by simp [h0], by simp⟩
        · rw [if_neg (by simpa using h0)]
          split
          · exact ⟨true, rfl, fun _ => by omega⟩
          · obtain ⟨b, hb⟩ := nodeCanReplace_some S Rf hv (depth - 1) (by omega) (rt.indexAfter (depth - 1)) []
            exact ⟨b, hb, fun _ => by omega⟩
      obtain ⟨b, hb, hb1⟩ := hsec
      rw [hb]
      cases b with
      | false => exact ih
      | true =>
        simp only
        obtain ⟨x, hx⟩ := before_some rf depth (hb1 rfl) hd1
        obtain ⟨y, hy⟩ := after_some rt depth (hb1 rfl) hd2
        rw [hx, hy]
        exact ⟨_, rfl⟩

theorem deleteRangeOuter_some (rf rt : RPos) (f t bound : Nat) (hb : bound ≤ rf.depth) :
    ∀ n, n ≤ bound → ∃ r, deleteRangeOuter rf rt f t bound n = some r
  | 0, _ => ⟨none, rfl⟩
  | n + 1, hn => by
    unfold deleteRangeOuter
    simp only
    split
    · obtain ⟨x, hx⟩ := before_some rf (bound - n) (by omega) (by omega)
      rw [hx]
      exact ⟨_, rfl⟩
    · exact deleteRangeOuter_some rf rt f t bound hb n (by omega)

/-- `delete_range` always arrives at its call of `delete` on a valid document -/
theorem deleteRangeTarget_some (S : Schema) (doc : Node) (f t : Nat) (hv : S.checkNode doc = true)
    (hf : f ≤ fsize doc.kids) (ht : t ≤ fsize doc.kids) : ∃ p, deleteRangeTarget S doc f t = some p := by
  obtain ⟨rf, hrf⟩ := resolve_isSome doc f hf
  obtain ⟨rt, hrt⟩ := resolve_isSome doc t ht
  have Rf := resolve_resolved hrf
  have Rt := resolve_resolved hrt
  unfold deleteRangeTarget
  simp only [hrf, hrt]
  unfold deleteRangeTargetR
  obtain ⟨r, hr⟩ := deleteRangeCovered_some S Rf hv (rt := rt) (coveredDepthsR S rf rt) (fun d hd => by
    obtain ⟨h1, h2, _, _⟩ := covered_tight S Rf Rt d hd
    exact ⟨h1, h2⟩)
  rw [hr]
  cases r with
  | some p => exact ⟨p, rfl⟩
  | none =>
    simp only
    obtain ⟨r2, hr2⟩ := deleteRangeOuter_some rf rt f t (min rf.depth rt.depth) (Nat.min_le_left _ _) _ (Nat.le_refl _)
    rw [hr2]
    cases r2 with
    | some p => exact ⟨p, rfl⟩
    | none => exact ⟨_, rfl⟩

end PM
