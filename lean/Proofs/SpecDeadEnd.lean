/-
  Proofs/SpecDeadEnd.lean — the spec-level dead-end search `hasDeadEnd?` (`PM/Regex.lean`: the derivative sets
  reachable from the expression, then the backward closure from the nullable ones through generatable letters)
  decides `DeadEndSpec` whenever it answers.
-/
import Proofs.DeadEndSpec
namespace PM
set_option linter.unusedSimpArgs false

/-- the same expressions, as sets -/
def SetEq (a b : List RE) : Prop := ∀ x, x ∈ a ↔ x ∈ b

theorem sameSet_iff (a b : List RE) : RE.sameSet a b = true ↔ SetEq a b := by
  simp only [RE.sameSet, Bool.and_eq_true, List.all_eq_true, List.contains_iff_mem, SetEq]
  exact ⟨fun h x => ⟨h.1 x, h.2 x⟩, fun h => ⟨fun x => (h x).1, fun x => (h x).2⟩⟩

theorem SetEq.refl (a : List RE) : SetEq a a := fun _ => Iff.rfl
theorem SetEq.symm {a b : List RE} (h : SetEq a b) : SetEq b a := fun x => (h x).symm
theorem SetEq.trans {a b c : List RE} (h : SetEq a b) (h' : SetEq b c) : SetEq a c := fun x => (h x).trans (h' x)

theorem SetEq.pdSet {a b : List RE} (h : SetEq a b) (c : Nat) : SetEq (RE.pdSet a c) (RE.pdSet b c) := by
  intro x
  simp only [mem_pdSet]
  exact ⟨fun ⟨r, hr, hx⟩ => ⟨r, (h r).1 hr, hx⟩, fun ⟨r, hr, hx⟩ => ⟨r, (h r).2 hr, hx⟩⟩

theorem SetEq.ne_nil {a b : List RE} (h : SetEq a b) (hb : b ≠ []) : a ≠ [] := by
  obtain ⟨x, hx⟩ := List.exists_mem_of_ne_nil b hb
  exact List.ne_nil_of_mem ((h x).2 hx)

/-- the union of the languages of a set of expressions -/
def SetLang (rs : List RE) (w : List Nat) : Prop := ∃ x, x ∈ rs ∧ w ∈ x.lang

theorem SetEq.lang {a b : List RE} (h : SetEq a b) (w : List Nat) : SetLang a w ↔ SetLang b w :=
  ⟨fun ⟨x, hx, hw⟩ => ⟨x, (h x).1 hx, hw⟩, fun ⟨x, hx, hw⟩ => ⟨x, (h x).2 hx, hw⟩⟩

theorem setLang_pdSet (rs : List RE) (a : Nat) (v : List Nat) : SetLang (RE.pdSet rs a) v ↔ SetLang rs (a :: v) :=
  pdSet_iff rs a v

theorem setLang_nullable (rs : List RE) : RE.nullableSet rs = true ↔ SetLang rs [] := nullableSet_iff rs

/-- the derivative set after a word -/
def derivW (rs : List RE) (w : List Nat) : List RE := w.foldl RE.pdSet rs

theorem derivW_lang (w : List Nat) : ∀ (rs : List RE) (v : List Nat), SetLang (derivW rs w) v ↔ SetLang rs (w ++ v) := by
  induction w with
  | nil => intro rs v; rfl
  | cons a w ih =>
    intro rs v
    show SetLang (derivW (RE.pdSet rs a) w) v ↔ _
    rw [ih, setLang_pdSet]
    rfl

theorem derivW_snoc (rs : List RE) (w : List Nat) (a : Nat) : derivW rs (w ++ [a]) = RE.pdSet (derivW rs w) a := by
  simp [derivW, List.foldl_append]

theorem pdSet_nil (a : Nat) : RE.pdSet [] a = [] := by
  simp [RE.pdSet]

theorem symsOk_derivW (sigma : List Nat) (w : List Nat) : ∀ (rs : List RE), SymsOk sigma rs → SymsOk sigma (derivW rs w) := by
  induction w with
  | nil => intro rs h; exact h
  | cons a w ih => intro rs h; exact ih _ (symsOk_pdSet sigma rs a h)

/-- a word of generatable letters in the language of the set -/
def GenLiveSet (gen : Nat → Bool) (rs : List RE) : Prop := ∃ v, (∀ t, t ∈ v → gen t = true) ∧ SetLang rs v

theorem SetEq.genLive {a b : List RE} (h : SetEq a b) (gen : Nat → Bool) : GenLiveSet gen a ↔ GenLiveSet gen b :=
  ⟨fun ⟨v, hv, hl⟩ => ⟨v, hv, (h.lang v).1 hl⟩, fun ⟨v, hv, hl⟩ => ⟨v, hv, (h.lang v).2 hl⟩⟩

/-- a non-empty derivative set of `r` -/
def ReachSet (r : RE) (rs : List RE) : Prop := ∃ w, rs = derivW [r] w ∧ rs ≠ []

theorem setLang_single (r : RE) (w : List Nat) : SetLang [r] w ↔ w ∈ r.lang := by
  simp [SetLang]

/-- the declarative dead end, on derivative sets -/
theorem deadEndSpec_iff_sets (r : RE) (gen : Nat → Bool) :
    DeadEndSpec r gen ↔ ∃ rs, ReachSet r rs ∧ ¬ GenLiveSet gen rs := by
  constructor
  · rintro ⟨w, ⟨v, hv⟩, hno⟩
    refine ⟨derivW [r] w, ⟨w, rfl, ?_⟩, ?_⟩
    · have : SetLang (derivW [r] w) v := (derivW_lang w [r] v).2 ((setLang_single _ _).2 hv)
      obtain ⟨x, hx, _⟩ := this
      exact List.ne_nil_of_mem hx
    · rintro ⟨v', hg, hl⟩
      exact hno ⟨v', hg, (setLang_single _ _).1 ((derivW_lang w [r] v').1 hl)⟩
  · rintro ⟨rs, ⟨w, rfl, hne⟩, hno⟩
    obtain ⟨x, hx⟩ := List.exists_mem_of_ne_nil _ hne
    obtain ⟨v, hv, _⟩ := lang_nonempty x
    refine ⟨w, ⟨v, (setLang_single _ _).1 ((derivW_lang w [r] v).1 ⟨x, hx, hv⟩)⟩, ?_⟩
    rintro ⟨v', hg, hl⟩
    exact hno ⟨v', hg, (derivW_lang w [r] v').2 ((setLang_single _ _).2 hl)⟩

/-! ### `reachSets` -/

structure SRInv (sigma : List Nat) (r : RE) (todo seen : List (List RE)) : Prop where
  reach : ∀ rs, rs ∈ todo ++ seen → ReachSet r rs
  start : ∃ rs, rs ∈ todo ++ seen ∧ SetEq rs [r]
  closed : ∀ rs, rs ∈ seen → ∀ a, a ∈ sigma → RE.pdSet rs a ≠ [] →
    ∃ rs', rs' ∈ todo ++ seen ∧ SetEq rs' (RE.pdSet rs a)
  distinct : seen.Pairwise (fun a b => ¬ SetEq a b)

theorem any_sameSet_iff (l : List (List RE)) (rs : List RE) :
    l.any (RE.sameSet · rs) = true ↔ ∃ x, x ∈ l ∧ SetEq x rs := by
  simp only [List.any_eq_true, sameSet_iff]

theorem reachSets_inv (sigma : List Nat) (r : RE) : ∀ (fuel : Nat) (todo seen all : List (List RE)),
    reachSets sigma fuel todo seen = some all → SRInv sigma r todo seen → SRInv sigma r [] all := by
  intro fuel
  induction fuel with
  | zero =>
    intro todo seen all h hinv
    cases todo with
    | nil => simp only [reachSets, Option.some.injEq] at h; subst h; exact hinv
    | cons rs todo => simp [reachSets] at h
  | succ fuel ih =>
    intro todo seen all h hinv
    cases todo with
    | nil => simp only [reachSets, Option.some.injEq] at h; subst h; exact hinv
    | cons rs todo =>
      rw [reachSets] at h
      by_cases hs : seen.any (RE.sameSet · rs) = true
      · rw [if_pos hs] at h
        obtain ⟨x, hx, hxe⟩ := (any_sameSet_iff _ _).1 hs
        refine ih todo seen all h ⟨fun y hy => hinv.reach y ?_, ?_, ?_, hinv.distinct⟩
        · simp only [List.cons_append, List.mem_cons]; exact Or.inr hy
        · obtain ⟨y, hy, hye⟩ := hinv.start
          simp only [List.cons_append, List.mem_cons] at hy
          rcases hy with rfl | hy
          · exact ⟨x, List.mem_append_right _ hx, hxe.trans hye⟩
          · exact ⟨y, hy, hye⟩
        · intro y hy a ha hne
          obtain ⟨z, hz, hze⟩ := hinv.closed y hy a ha hne
          simp only [List.cons_append, List.mem_cons] at hz
          rcases hz with rfl | hz
          · exact ⟨x, List.mem_append_right _ hx, hxe.trans hze⟩
          · exact ⟨z, hz, hze⟩
      · rw [if_neg hs] at h
        simp only at h
        have hnot : ∀ x, x ∈ seen → ¬ SetEq x rs := by
          intro x hx hxe
          exact hs ((any_sameSet_iff _ _).2 ⟨x, hx, hxe⟩)
        have hrs : ReachSet r rs := hinv.reach rs (by simp)
        refine ih _ _ all h ⟨?_, ?_, ?_, ?_⟩
        · intro y hy
          simp only [List.mem_append, List.mem_filter, List.mem_map, List.mem_cons] at hy
          rcases hy with (hy | ⟨⟨a, _, rfl⟩, hne⟩) | rfl | hy
          · exact hinv.reach y (by simp [hy])
          · obtain ⟨w, rfl, _⟩ := hrs
            refine ⟨w ++ [a], (derivW_snoc _ _ _).symm, ?_⟩
            intro he
            rw [he] at hne
            simp at hne
          · exact hrs
          · exact hinv.reach y (by simp [hy])
        · obtain ⟨y, hy, hye⟩ := hinv.start
          refine ⟨y, ?_, hye⟩
          simp only [List.cons_append, List.mem_cons, List.mem_append] at hy ⊢
          rcases hy with rfl | hy | hy
          · exact Or.inr (Or.inl rfl)
          · exact Or.inl (Or.inl hy)
          · exact Or.inr (Or.inr hy)
        · intro y hy a ha hne
          simp only [List.mem_cons] at hy
          rcases hy with rfl | hy
          · refine ⟨RE.pdSet y a, ?_, SetEq.refl _⟩
            simp only [List.mem_append, List.mem_filter, List.mem_map]
            refine Or.inl (Or.inr ⟨⟨a, ha, rfl⟩, ?_⟩)
            cases hp : RE.pdSet y a with
            | nil => exact absurd hp hne
            | cons _ _ => rfl
          · obtain ⟨z, hz, hze⟩ := hinv.closed y hy a ha hne
            refine ⟨z, ?_, hze⟩
            simp only [List.cons_append, List.mem_cons, List.mem_append] at hz ⊢
            rcases hz with rfl | hz | hz
            · exact Or.inr (Or.inl rfl)
            · exact Or.inl (Or.inl hz)
            · exact Or.inr (Or.inr hz)
        · refine List.Pairwise.cons ?_ hinv.distinct
          intro x hx hxe
          exact hnot x hx hxe.symm

/-- every non-empty derivative set has its representative in a finished exploration -/
theorem reach_covered (sigma : List Nat) (r : RE) (hs : SymsOk sigma [r]) (all : List (List RE))
    (hinv : SRInv sigma r [] all) (w : List Nat) :
    derivW [r] w ≠ [] → ∃ rs, rs ∈ all ∧ SetEq rs (derivW [r] w) := by
  induction w using List.reverseRecOn with
  | nil =>
    intro _
    obtain ⟨y, hy, hye⟩ := hinv.start
    exact ⟨y, by simpa using hy, hye⟩
  | append_singleton w a ih =>
    intro hne
    rw [derivW_snoc] at hne ⊢
    have hw : derivW [r] w ≠ [] := by
      intro he
      rw [he, pdSet_nil] at hne
      exact hne rfl
    obtain ⟨rs, hrs, hre⟩ := ih hw
    have ha : a ∈ sigma := by
      by_contra hna
      obtain ⟨x, hx⟩ := List.exists_mem_of_ne_nil _ hne
      exact pdSet_eq_nil_of_not_mem sigma _ a (symsOk_derivW sigma w _ hs) hna x hx
    have hne' : RE.pdSet rs a ≠ [] := (hre.pdSet a).ne_nil hne
    obtain ⟨z, hz, hze⟩ := hinv.closed rs hrs a ha hne'
    exact ⟨z, by simpa using hz, hze.trans (hre.pdSet a)⟩

/-! ### `liveSets` -/

structure SLInv (gen : Nat → Bool) (all live : List (List RE)) : Prop where
  sub : ∀ rs, rs ∈ live → rs ∈ all
  nodup : live.Nodup
  sound : ∀ rs, rs ∈ live → GenLiveSet gen rs
  base : ∀ rs, rs ∈ all → RE.nullableSet rs = true → rs ∈ live

theorem liveSets_spec (sigma : List Nat) (gen : Nat → Bool) (all : List (List RE)) (hnd : all.Nodup) :
    ∀ (fuel : Nat) (live : List (List RE)), SLInv gen all live → all.length + 1 ≤ fuel + live.length →
      SLInv gen all (liveSets sigma gen all fuel live) ∧
      ∀ rs, rs ∈ all → (liveSets sigma gen all fuel live).any (RE.sameSet · rs) = false →
        ∀ a, a ∈ sigma → gen a = true →
          (liveSets sigma gen all fuel live).any (RE.sameSet · (RE.pdSet rs a)) = false := by
  intro fuel
  induction fuel with
  | zero =>
    intro live h hf
    have := (List.subperm_of_subset h.nodup (l₂ := all) (fun x hx => h.sub x hx)).length_le
    omega
  | succ fuel ih =>
    intro live h hf
    rw [liveSets]
    generalize hmore : all.filter (fun rs => !live.any (RE.sameSet · rs) &&
      sigma.any (fun a => gen a && live.any (RE.sameSet · (RE.pdSet rs a)))) = more
    have hmem : ∀ rs, rs ∈ more ↔ rs ∈ all ∧ live.any (RE.sameSet · rs) = false ∧
        ∃ a, a ∈ sigma ∧ gen a = true ∧ live.any (RE.sameSet · (RE.pdSet rs a)) = true := by
      intro rs
      rw [← hmore]
      simp only [List.mem_filter, Bool.and_eq_true, Bool.not_eq_true', List.any_eq_true (l := sigma)]
    by_cases he : more.isEmpty = true
    · rw [if_pos he]
      refine ⟨h, ?_⟩
      intro rs hrs hnl a ha hg
      by_contra hc
      have : rs ∈ more := (hmem rs).2 ⟨hrs, hnl, a, ha, hg, by simpa using hc⟩
      rw [List.isEmpty_iff] at he
      rw [he] at this
      simp at this
    · rw [if_neg he]
      have hpos : 0 < more.length := by
        cases more with
        | nil => simp at he
        | cons _ _ => simp
      refine ih (live ++ more) ⟨?_, ?_, ?_, ?_⟩ (by rw [List.length_append]; omega)
      · intro rs hrs
        rcases List.mem_append.1 hrs with hrs | hrs
        · exact h.sub rs hrs
        · exact ((hmem rs).1 hrs).1
      · refine List.nodup_append.2 ⟨h.nodup, by rw [← hmore]; exact hnd.filter _, ?_⟩
        intro x hx y hy hxy
        subst hxy
        have := ((hmem x).1 hy).2.1
        rw [List.any_eq_false] at this
        exact this x hx ((sameSet_iff _ _).2 (SetEq.refl _))
      · intro rs hrs
        rcases List.mem_append.1 hrs with hrs | hrs
        · exact h.sound rs hrs
        · obtain ⟨_, _, a, _, hg, hl⟩ := (hmem rs).1 hrs
          obtain ⟨l, hl, hle⟩ := (any_sameSet_iff _ _).1 hl
          obtain ⟨v, hv, hlang⟩ := h.sound l hl
          refine ⟨a :: v, ?_, (setLang_pdSet rs a v).1 ((hle.lang v).1 hlang)⟩
          intro t ht
          rcases List.mem_cons.1 ht with rfl | ht
          · exact hg
          · exact hv t ht
      · intro rs hrs hn
        exact List.mem_append_left _ (h.base rs hrs hn)

/-! ### the search decides the specification -/

theorem hasDeadEndWith?_spec (fuel : Nat) (sigma : List Nat) (gen : Nat → Bool) (r : RE)
    (hs : ∀ b, b ∈ r.syms → b ∈ sigma)
    (b : Bool) (h : hasDeadEndWith? fuel sigma gen r = some b) : b = true ↔ DeadEndSpec r gen := by
  have hsy : SymsOk sigma [r] := by
    intro x hx c hc
    simp only [List.mem_singleton] at hx
    subst hx
    exact hs c hc
  unfold hasDeadEndWith? at h
  cases hr : reachSets sigma fuel [[r]] [] with
  | none => rw [hr] at h; cases h
  | some all =>
    rw [hr] at h
    simp only [Option.some.injEq] at h
    have hinv0 : SRInv sigma r [[r]] [] := by
      refine ⟨?_, ⟨[r], by simp, SetEq.refl _⟩, fun rs hrs => by simp at hrs, List.Pairwise.nil⟩
      intro rs hrs
      simp only [List.cons_append, List.nil_append, List.mem_singleton] at hrs
      subst hrs
      exact ⟨[], rfl, by simp⟩
    have hinv := reachSets_inv sigma r _ _ _ _ hr hinv0
    have hnd : all.Nodup := List.Pairwise.imp (R := fun a b => ¬ SetEq a b) (S := (· ≠ ·))
      (fun hne heq => hne (by rw [heq]; exact SetEq.refl _)) hinv.distinct
    have hl0 : SLInv gen all (all.filter RE.nullableSet) :=
      ⟨fun rs hrs => (List.mem_filter.1 hrs).1, hnd.filter _,
        fun rs hrs => ⟨[], by simp, (setLang_nullable rs).1 (List.mem_filter.1 hrs).2⟩,
        fun rs hrs hn => List.mem_filter.2 ⟨hrs, hn⟩⟩
    obtain ⟨hL, hfix⟩ := liveSets_spec sigma gen all hnd (all.length + 1) _ hl0 (by omega)
    generalize liveSets sigma gen all (all.length + 1) (all.filter RE.nullableSet) = L at h hL hfix
    -- completeness of `L`
    have hcomp : ∀ (v : List Nat) (rs : List RE), rs ∈ all → (∀ t, t ∈ v → gen t = true) → SetLang rs v →
        L.any (RE.sameSet · rs) = true := by
      intro v
      induction v with
      | nil =>
        intro rs hrs _ hl
        exact (any_sameSet_iff _ _).2 ⟨rs, hL.base rs hrs ((setLang_nullable rs).2 hl), SetEq.refl _⟩
      | cons a v ih =>
        intro rs hrs hg hl
        have hl' : SetLang (RE.pdSet rs a) v := (setLang_pdSet rs a v).2 hl
        have hne : RE.pdSet rs a ≠ [] := by
          obtain ⟨x, hx, _⟩ := hl'
          exact List.ne_nil_of_mem hx
        have hsy' : SymsOk sigma rs := by
          obtain ⟨w, rfl, _⟩ := hinv.reach rs (by simpa using hrs)
          exact symsOk_derivW sigma w _ hsy
        have ha : a ∈ sigma := by
          by_contra hna
          obtain ⟨x, hx⟩ := List.exists_mem_of_ne_nil _ hne
          exact pdSet_eq_nil_of_not_mem sigma _ a hsy' hna x hx
        obtain ⟨z, hz, hze⟩ := hinv.closed rs hrs a ha hne
        have hz' : z ∈ all := by simpa using hz
        obtain ⟨l, hl1, hl2⟩ := (any_sameSet_iff _ _).1
          (ih z hz' (fun t ht => hg t (List.mem_cons_of_mem _ ht)) ((hze.lang v).2 hl'))
        by_contra hc
        have hc' : L.any (RE.sameSet · rs) = false := by simpa using hc
        have := hfix rs hrs hc' a ha (hg a (List.mem_cons_self ..))
        rw [List.any_eq_false] at this
        exact this l hl1 ((sameSet_iff _ _).2 (hl2.trans hze))
    rw [deadEndSpec_iff_sets, ← h]
    simp only [List.any_eq_true, Bool.not_eq_true']
    constructor
    · rintro ⟨rs, hrs, hn⟩
      refine ⟨rs, hinv.reach rs (by simpa using hrs), ?_⟩
      rintro ⟨v, hv, hl⟩
      rw [hcomp v rs hrs hv hl] at hn
      cases hn
    · rintro ⟨rs, ⟨w, rfl, hne⟩, hno⟩
      obtain ⟨rs', hrs', he⟩ := reach_covered sigma r hsy all hinv w hne
      refine ⟨rs', hrs', ?_⟩
      by_contra hc
      have hc' : L.any (RE.sameSet · rs') = true := by simpa using hc
      obtain ⟨l, hl1, hl2⟩ := (any_sameSet_iff _ _).1 hc'
      exact hno (((hl2.trans he).genLive gen).1 (hL.sound l hl1))

/-- **the search of op `c06` decides the specification whenever it answers** -/
theorem hasDeadEnd?_spec (sigma : List Nat) (gen : Nat → Bool) (r : RE) (hs : ∀ b, b ∈ r.syms → b ∈ sigma)
    (b : Bool) (h : hasDeadEnd? sigma gen r = some b) : b = true ↔ DeadEndSpec r gen :=
  hasDeadEndWith?_spec 200000 sigma gen r hs b h

end PM
