/-
  Proofs/Traverse.lean — completeness of `nodes_between` (helper lemmas for Props/C09.lean).

  `descendants kids start i0` is the specification vocabulary: every node below a child list in
  pre-order (document order) with its absolute position and child index.  It is pinned to the token
  picture by `descendants_window` (each listed node's tokens are the document's tokens at its
  position) and `descendants_covers_*` (every `op`/`leaf` token is the first token of a listed
  node, every `unit` token lies in a listed text node).  `nodesBetween` is then *equal* to the
  filter of that list by the overlap test, for all nodes of non-zero size.
-/
import PM.Resolve
import Proofs.Toks
import Proofs.TokCore
import Proofs.Resolve
namespace PM

/-! ### all nodes below a child list, in document order -/

mutual
def descNode : Node → Nat → List (Node × Nat × Nat)
  | .elem _ _ _ kids, start => descendants kids start 0
  | _, _ => []
/-- all nodes below `kids` (whose first token is at `start`) in pre-order, as
    `(node, absolute position, index in its parent)`; `i0` = index of the head of the list -/
def descendants : List Node → Nat → Nat → List (Node × Nat × Nat)
  | [], _, _ => []
  | n :: ns, start, i =>
    (n, start, i) ::
      ((match n with
        | .elem _ _ _ kids => descendants kids (start + 1) 0
        | _ => []) ++ descendants ns (start + n.size) (i + 1))
end

theorem descendants_cons (n : Node) (ns : List Node) (start i : Nat) :
    descendants (n :: ns) start i =
      (n, start, i) ::
        ((match n with
          | .elem _ _ _ kids => descendants kids (start + 1) 0
          | _ => []) ++ descendants ns (start + n.size) (i + 1)) := by
  conv => lhs; unfold descendants

@[simp] theorem descendants_nil (start i : Nat) : descendants [] start i = [] := by
  unfold descendants; rfl

/-- every listed node lies inside the span of the list -/
theorem descendants_bounds : ∀ (kids : List Node) (start i0 : Nat) (x : Node × Nat × Nat),
    x ∈ descendants kids start i0 → start ≤ x.2.1 ∧ x.2.1 + x.1.size ≤ start + fsize kids
  | [], _, _, x, hx => by simp at hx
  | .text s m :: ns, start, i0, x, hx => by
    rw [descendants_cons] at hx
    simp only [List.nil_append, List.mem_cons] at hx
    rcases hx with rfl | hx
    · simp
    · have := descendants_bounds ns _ _ x hx
      simp only [fsize_cons, Node.size_text] at this ⊢; omega
  | .leaf ty a m :: ns, start, i0, x, hx => by
    rw [descendants_cons] at hx
    simp only [List.nil_append, List.mem_cons] at hx
    rcases hx with rfl | hx
    · simp
    · have := descendants_bounds ns _ _ x hx
      simp only [fsize_cons, Node.size_leaf] at this ⊢; omega
  | .elem ty a m kids :: ns, start, i0, x, hx => by
    rw [descendants_cons] at hx
    simp only [List.mem_cons, List.mem_append] at hx
    rcases hx with rfl | hx | hx
    · simp
    · have := descendants_bounds kids _ _ x hx
      simp only [fsize_cons, Node.size_elem] at this ⊢; omega
    · have := descendants_bounds ns _ _ x hx
      simp only [fsize_cons, Node.size_elem] at this ⊢; omega

/-! ### `nodes_between` is the filter of the pre-order list by the overlap test -/

/-- the node has at least one token (only an empty text node has none) -/
def nzNode (x : Node × Nat × Nat) : Bool := x.1.size != 0

/-- the test `nodes_between` applies, in absolute positions: the node starts before `to` and ends
    after `from` (`start` = absolute position of offset 0 of the call) -/
def inWin (start f t : Nat) (x : Node × Nat × Nat) : Bool :=
  nzNode x && decide (x.2.1 < start + t) && decide (start + f < x.2.1 + x.1.size)

theorem inWin_tail (start sz f t : Nat) (x : Node × Nat × Nat) (hb : start + sz ≤ x.2.1) :
    inWin (start + sz) (f - sz) (t - sz) x = inWin start f t x := by
  unfold inWin nzNode
  rw [Bool.eq_iff_iff]
  simp only [bne_iff_ne, ne_eq, Bool.and_eq_true, decide_eq_true_eq]
  omega

theorem inWin_inner (start k f t : Nat) (x : Node × Nat × Nat) (_ht : t ≠ 0)
    (hb : start + 1 ≤ x.2.1) (he : x.2.1 + x.1.size ≤ start + 1 + k) :
    inWin (start + 1) (f - 1) (min k (t - 1)) x = inWin start f t x := by
  unfold inWin nzNode
  rw [Bool.eq_iff_iff]
  simp only [bne_iff_ne, ne_eq, Bool.and_eq_true, decide_eq_true_eq]
  omega

theorem filter_tail_congr (ns : List Node) (start sz f t i : Nat) :
    (descendants ns (start + sz) i).filter (inWin (start + sz) (f - sz) (t - sz)) =
      (descendants ns (start + sz) i).filter (inWin start f t) := by
  apply List.filter_congr
  intro x hx
  exact inWin_tail _ _ _ _ _ (descendants_bounds ns _ _ x hx).1

theorem filter_inWin_zero (kids : List Node) (start f i : Nat) :
    (descendants kids start i).filter (inWin start f 0) = [] := by
  rw [List.filter_eq_nil_iff]
  intro x hx
  have := (descendants_bounds kids _ _ x hx).1
  simp [inWin]; omega

/-- below a node that ends at or before `from` nothing passes the test -/
theorem filter_inWin_before (kids : List Node) (start0 start f t i : Nat)
    (h : start + fsize kids ≤ start0 + f) :
    (descendants kids start i).filter (inWin start0 f t) = [] := by
  rw [List.filter_eq_nil_iff]
  intro x hx
  have := (descendants_bounds kids _ _ x hx).2
  simp [inWin]; omega

/-- in a node without tokens inside, every descendant is an empty text node -/
theorem filter_inWin_empty (kids : List Node) (start0 start f t i : Nat) (h : fsize kids = 0) :
    (descendants kids start i).filter (inWin start0 f t) = [] := by
  rw [List.filter_eq_nil_iff]
  intro x hx
  have := descendants_bounds kids _ _ x hx
  have hz : x.1.size = 0 := by omega
  simp [inWin, nzNode, hz]

theorem inWin_head (n : Node) (start f t i : Nat) (ht : t ≠ 0) :
    inWin start f t (n, start, i) = (nzNode (n, start, i) && decide (f < n.size)) := by
  unfold inWin nzNode
  rw [Bool.eq_iff_iff]
  simp only [bne_iff_ne, ne_eq, Bool.and_eq_true, decide_eq_true_eq]
  omega

theorem head_filter (n : Node) (start f i : Nat) (R : List (Node × Nat × Nat)) :
    (if f < n.size then [(n, start, i)] else []).filter nzNode ++ R =
      (if (nzNode (n, start, i) && decide (f < n.size)) = true then (n, start, i) :: R else R) := by
  by_cases hf : f < n.size
  · by_cases hz : nzNode (n, start, i) = true
    · simp [hf, hz]
    · simp [hf, hz]
  · simp [hf]

theorem nodesBetween_filter : ∀ (kids : List Node) (f t start i0 : Nat),
    (nodesBetween kids f t start i0).filter nzNode =
      (descendants kids start i0).filter (inWin start f t)
  | [], f, t, start, i0 => by simp [nodesBetween]
  | .text s m :: ns, f, t, start, i0 => by
    rw [nodesBetween_cons]
    split
    · rename_i h0; subst h0; rw [filter_inWin_zero]; rfl
    · rename_i ht0
      rw [descendants_cons, List.filter_append, nodesBetween_filter ns, filter_tail_congr,
        List.nil_append, List.filter_cons, inWin_head _ _ _ _ _ ht0]
      dsimp only
      exact head_filter _ _ _ _ _
  | .leaf ty a m :: ns, f, t, start, i0 => by
    rw [nodesBetween_cons]
    split
    · rename_i h0; subst h0; rw [filter_inWin_zero]; rfl
    · rename_i ht0
      rw [descendants_cons, List.filter_append, nodesBetween_filter ns, filter_tail_congr,
        List.nil_append, List.filter_cons, inWin_head _ _ _ _ _ ht0]
      dsimp only
      exact head_filter _ _ _ _ _
  | .elem ty a m kids :: ns, f, t, start, i0 => by
    rw [nodesBetween_cons]
    split
    · rename_i h0; subst h0; rw [filter_inWin_zero]; rfl
    · rename_i ht0
      rw [descendants_cons, List.filter_append, nodesBetween_filter ns, filter_tail_congr,
        List.filter_cons, inWin_head _ _ _ _ _ ht0, List.filter_append]
      have hz : nzNode (Node.elem ty a m kids, start, i0) = true := by simp [nzNode]
      by_cases hf : f < (Node.elem ty a m kids).size
      · rw [if_pos hf, List.filter_cons, if_pos hz]
        simp only [hz, hf, decide_true, Bool.and_self, if_true, List.cons_append]
        congr 2
        by_cases hk : fsize kids = 0
        · rw [if_pos hk, filter_inWin_empty kids _ _ _ _ _ hk]; rfl
        · rw [if_neg hk, nodesBetween_filter kids]
          apply List.filter_congr
          intro x hx
          have hb := descendants_bounds kids _ _ x hx
          exact inWin_inner start (fsize kids) f t x ht0 hb.1 hb.2
      · rw [if_neg hf]
        simp only [Node.size_elem] at hf
        rw [filter_inWin_before kids start (start + 1) f t 0 (by omega)]
        simp [hf]

/-- the visited list is a sub-list of the pre-order list: document order, nobody twice -/
theorem nodesBetween_sublist : ∀ (kids : List Node) (f t start i0 : Nat),
    (nodesBetween kids f t start i0).Sublist (descendants kids start i0)
  | [], f, t, start, i0 => by simp [nodesBetween]
  | .text s m :: ns, f, t, start, i0 => by
    rw [nodesBetween_cons, descendants_cons]
    split
    · exact List.nil_sublist _
    · have ih := nodesBetween_sublist ns (f - (Node.text s m).size) (t - (Node.text s m).size)
        (start + (Node.text s m).size) (i0 + 1)
      split
      · exact List.Sublist.cons_cons _ (by simpa using ih)
      · exact List.Sublist.cons _ (by simpa using ih)
  | .leaf ty a m :: ns, f, t, start, i0 => by
    rw [nodesBetween_cons, descendants_cons]
    split
    · exact List.nil_sublist _
    · have ih := nodesBetween_sublist ns (f - (Node.leaf ty a m).size) (t - (Node.leaf ty a m).size)
        (start + (Node.leaf ty a m).size) (i0 + 1)
      split
      · exact List.Sublist.cons_cons _ (by simpa using ih)
      · exact List.Sublist.cons _ (by simpa using ih)
  | .elem ty a m kids :: ns, f, t, start, i0 => by
    rw [nodesBetween_cons, descendants_cons]
    split
    · exact List.nil_sublist _
    · have ih := nodesBetween_sublist ns (f - (Node.elem ty a m kids).size)
        (t - (Node.elem ty a m kids).size) (start + (Node.elem ty a m kids).size) (i0 + 1)
      split
      · refine List.Sublist.cons_cons _ (List.Sublist.append ?_ ih)
        dsimp only
        split
        · exact List.nil_sublist _
        · exact nodesBetween_sublist kids _ _ _ _
      · exact List.Sublist.cons _ (List.Sublist.trans ih (List.sublist_append_right _ _))

/-! ### document order -/

/-- `x` comes before `y` in document order: not after it, and strictly before it when `x` has a token -/
def DocBefore (x y : Node × Nat × Nat) : Prop := x.2.1 ≤ y.2.1 ∧ (x.1.size ≠ 0 → x.2.1 < y.2.1)

theorem descendants_ordered : ∀ (kids : List Node) (start i0 : Nat),
    (descendants kids start i0).Pairwise DocBefore
  | [], _, _ => by simp
  | .text s m :: ns, start, i0 => by
    rw [descendants_cons, List.nil_append, List.pairwise_cons]
    refine ⟨fun y hy => ?_, descendants_ordered ns _ _⟩
    have := (descendants_bounds ns _ _ y hy).1
    exact ⟨by simp only at this ⊢; omega, fun hz => by simp only at this hz ⊢; omega⟩
  | .leaf ty a m :: ns, start, i0 => by
    rw [descendants_cons, List.nil_append, List.pairwise_cons]
    refine ⟨fun y hy => ?_, descendants_ordered ns _ _⟩
    have := (descendants_bounds ns _ _ y hy).1
    exact ⟨by simp only at this ⊢; omega, fun hz => by simp only [Node.size_leaf] at this hz ⊢; omega⟩
  | .elem ty a m kids :: ns, start, i0 => by
    rw [descendants_cons, List.pairwise_cons]
    dsimp only
    refine ⟨fun y hy => ?_, ?_⟩
    · rcases List.mem_append.mp hy with hy | hy
      · have := (descendants_bounds kids _ _ y hy).1
        exact ⟨by simp only at this ⊢; omega, fun _ => by simp only at this ⊢; omega⟩
      · have := (descendants_bounds ns _ _ y hy).1
        simp only [Node.size_elem] at this
        exact ⟨by simp only at this ⊢; omega, fun _ => by simp only at this ⊢; omega⟩
    · rw [List.pairwise_append]
      refine ⟨descendants_ordered kids _ _, descendants_ordered ns _ _, fun x hx y hy => ?_⟩
      have h1 := (descendants_bounds kids _ _ x hx).2
      have h2 := (descendants_bounds ns _ _ y hy).1
      simp only [Node.size_elem] at h2
      exact ⟨by omega, fun _ => by omega⟩

/-! ### the pre-order list against the token sequence -/

/-- the tokens of `x` are the tokens of the list at `x`'s position -/
def TokAt (kids : List Node) (start : Nat) (x : Node × Nat × Nat) : Prop :=
  ∃ q, x.2.1 = start + q ∧ ((ftoks kids).drop q).take x.1.size = x.1.toks

theorem tokAt_head (n : Node) (ns : List Node) (start i : Nat) : TokAt (n :: ns) start (n, start, i) :=
  ⟨0, rfl, by simp [← Node.toks_length]⟩

theorem tokAt_tail (n : Node) (ns : List Node) (start : Nat) (x : Node × Nat × Nat)
    (h : TokAt ns (start + n.size) x) : TokAt (n :: ns) start x := by
  obtain ⟨q, h1, h2⟩ := h
  refine ⟨n.size + q, by omega, ?_⟩
  rw [ftoks_cons, List.drop_append, List.drop_of_length_le (by rw [Node.toks_length]; omega),
    Node.toks_length]
  simpa using h2

theorem tokAt_inner (ty : TypeId) (a : Attrs) (m : Marks) (kids ns : List Node) (start : Nat)
    (x : Node × Nat × Nat) (h : TokAt kids (start + 1) x) :
    TokAt (.elem ty a m kids :: ns) start x := by
  obtain ⟨q, h1, h2⟩ := h
  refine ⟨q + 1, by omega, ?_⟩
  simp only [ftoks_cons, Node.toks_elem, List.cons_append, List.drop_succ_cons, List.append_assoc]
  exact list_window_ext _ _ _ _ _ h2 (Node.toks_length x.1)

theorem descendants_tokAt : ∀ (kids : List Node) (start i0 : Nat) (x : Node × Nat × Nat),
    x ∈ descendants kids start i0 → TokAt kids start x
  | [], _, _, x, hx => by simp at hx
  | .text s m :: ns, start, i0, x, hx => by
    rw [descendants_cons] at hx
    simp only [List.nil_append, List.mem_cons] at hx
    rcases hx with rfl | hx
    · exact tokAt_head _ _ _ _
    · exact tokAt_tail _ _ _ _ (descendants_tokAt ns _ _ x hx)
  | .leaf ty a m :: ns, start, i0, x, hx => by
    rw [descendants_cons] at hx
    simp only [List.nil_append, List.mem_cons] at hx
    rcases hx with rfl | hx
    · exact tokAt_head _ _ _ _
    · exact tokAt_tail _ _ _ _ (descendants_tokAt ns _ _ x hx)
  | .elem ty a m kids :: ns, start, i0, x, hx => by
    rw [descendants_cons] at hx
    simp only [List.mem_cons, List.mem_append] at hx
    rcases hx with rfl | hx | hx
    · exact tokAt_head _ _ _ _
    · exact tokAt_inner _ _ _ _ _ _ _ (descendants_tokAt kids _ _ x hx)
    · exact tokAt_tail _ _ _ _ (descendants_tokAt ns _ _ x hx)

/-- what the pre-order list must contain for the token `tok` at offset `q`: the element it opens,
    the leaf it is, or the text node the unit belongs to -/
def Covers (kids : List Node) (start i0 q : Nat) : Tok → Prop
  | .op ty a m => ∃ ks i, (Node.elem ty a m ks, start + q, i) ∈ descendants kids start i0
  | .leaf ty a m => ∃ i, (Node.leaf ty a m, start + q, i) ∈ descendants kids start i0
  | .unit u m => ∃ s p i, (Node.text s m, start + p, i) ∈ descendants kids start i0 ∧
      p ≤ q ∧ q < p + s.length ∧ s[q - p]? = some u
  | .cl => True

theorem covers_tail (n : Node) (ns : List Node) (start i0 q : Nat) (tok : Tok)
    (h : Covers ns (start + n.size) (i0 + 1) q tok) : Covers (n :: ns) start i0 (n.size + q) tok := by
  have hsub : ∀ x, x ∈ descendants ns (start + n.size) (i0 + 1) → x ∈ descendants (n :: ns) start i0 := by
    intro x hx
    rw [descendants_cons]
    exact List.mem_cons_of_mem _ (List.mem_append_right _ hx)
  cases tok with
  | op ty a m =>
    obtain ⟨ks, i, hm⟩ := h
    exact ⟨ks, i, by have := hsub _ hm; rwa [Nat.add_assoc] at this⟩
  | leaf ty a m =>
    obtain ⟨i, hm⟩ := h
    exact ⟨i, by have := hsub _ hm; rwa [Nat.add_assoc] at this⟩
  | unit u m =>
    obtain ⟨s, p, i, hm, h1, h2, h3⟩ := h
    refine ⟨s, n.size + p, i, by have := hsub _ hm; rwa [Nat.add_assoc] at this, by omega, by omega, ?_⟩
    rw [show n.size + q - (n.size + p) = q - p by omega]; exact h3
  | cl => trivial

theorem covers_inner (ty : TypeId) (a : Attrs) (m : Marks) (kids ns : List Node) (start i0 q : Nat)
    (tok : Tok) (h : Covers kids (start + 1) 0 q tok) :
    Covers (.elem ty a m kids :: ns) start i0 (q + 1) tok := by
  have hsub : ∀ x, x ∈ descendants kids (start + 1) 0 →
      x ∈ descendants (.elem ty a m kids :: ns) start i0 := by
    intro x hx
    rw [descendants_cons]
    exact List.mem_cons_of_mem _ (List.mem_append_left _ hx)
  cases tok with
  | op ty' a' m' =>
    obtain ⟨ks, i, hm⟩ := h
    exact ⟨ks, i, by have := hsub _ hm; rwa [Nat.add_assoc, Nat.add_comm 1 q] at this⟩
  | leaf ty' a' m' =>
    obtain ⟨i, hm⟩ := h
    exact ⟨i, by have := hsub _ hm; rwa [Nat.add_assoc, Nat.add_comm 1 q] at this⟩
  | unit u m' =>
    obtain ⟨s, p, i, hm, h1, h2, h3⟩ := h
    refine ⟨s, p + 1, i, by have := hsub _ hm; rwa [Nat.add_assoc, Nat.add_comm 1 p] at this,
      by omega, by omega, ?_⟩
    rw [show q + 1 - (p + 1) = q - p by omega]; exact h3
  | cl => trivial

/-- **every token belongs to a listed node** -/
theorem descendants_covers : ∀ (kids : List Node) (start i0 q : Nat) (tok : Tok),
    (ftoks kids)[q]? = some tok → Covers kids start i0 q tok
  | [], _, _, q, tok, h => by simp at h
  | .text s m :: ns, start, i0, q, tok, h => by
    rw [ftoks_cons] at h
    by_cases hq : q < (Node.text s m).size
    · rw [List.getElem?_append_left (by rw [Node.toks_length]; exact hq)] at h
      simp only [Node.toks_text, List.getElem?_map, Option.map_eq_some_iff] at h
      obtain ⟨u, hu, rfl⟩ := h
      simp only [Node.size_text] at hq
      refine ⟨s, 0, i0, ?_, by omega, by omega, by simpa using hu⟩
      rw [descendants_cons]; exact List.mem_cons_self
    · rw [List.getElem?_append_right (by rw [Node.toks_length]; omega), Node.toks_length] at h
      have := covers_tail (.text s m) ns start i0 _ tok (descendants_covers ns _ _ _ tok h)
      rwa [show (Node.text s m).size + (q - (Node.text s m).size) = q by omega] at this
  | .leaf ty a m :: ns, start, i0, q, tok, h => by
    rw [ftoks_cons] at h
    by_cases hq : q < (Node.leaf ty a m).size
    · simp only [Node.size_leaf] at hq
      have hq0 : q = 0 := by omega
      subst hq0
      simp only [Node.toks_leaf, List.cons_append, List.nil_append, List.getElem?_cons_zero,
        Option.some.injEq] at h
      subst h
      refine ⟨i0, ?_⟩
      rw [descendants_cons]; exact List.mem_cons_self
    · rw [List.getElem?_append_right (by rw [Node.toks_length]; omega), Node.toks_length] at h
      have := covers_tail (.leaf ty a m) ns start i0 _ tok (descendants_covers ns _ _ _ tok h)
      rwa [show (Node.leaf ty a m).size + (q - (Node.leaf ty a m).size) = q by omega] at this
  | .elem ty a m kids :: ns, start, i0, q, tok, h => by
    rw [ftoks_cons] at h
    by_cases hq : q < (Node.elem ty a m kids).size
    · rw [List.getElem?_append_left (by rw [Node.toks_length]; exact hq)] at h
      simp only [Node.size_elem] at hq
      simp only [Node.toks_elem] at h
      cases q with
      | zero =>
        simp only [List.getElem?_cons_zero, Option.some.injEq] at h
        subst h
        refine ⟨kids, i0, ?_⟩
        rw [descendants_cons]; exact List.mem_cons_self
      | succ q' =>
        rw [List.getElem?_cons_succ] at h
        by_cases hq' : q' < fsize kids
        · rw [List.getElem?_append_left (by rw [ftoks_length]; exact hq')] at h
          exact covers_inner ty a m kids ns start i0 q' tok (descendants_covers kids _ _ _ tok h)
        · rw [List.getElem?_append_right (by rw [ftoks_length]; omega), ftoks_length] at h
          have : q' - fsize kids = 0 := by omega
          rw [this] at h
          simp only [List.getElem?_cons_zero, Option.some.injEq] at h
          subst h; trivial
    · rw [List.getElem?_append_right (by rw [Node.toks_length]; omega), Node.toks_length] at h
      have := covers_tail (.elem ty a m kids) ns start i0 _ tok (descendants_covers ns _ _ _ tok h)
      rwa [show (Node.elem ty a m kids).size + (q - (Node.elem ty a m kids).size) = q by omega] at this

/-! ### parent and index of a listed node -/

/-- `x` is child number `x.2.2 - i0` of the list itself, or child number `x.2.2` of a listed element -/
def ChildOf (kids : List Node) (start i0 : Nat) (x : Node × Nat × Nat) : Prop :=
  (∃ j, kids[j]? = some x.1 ∧ x.2.2 = i0 + j ∧ x.2.1 = start + fsize (kids.take j)) ∨
  (∃ e ∈ descendants kids start i0, e.1.kids[x.2.2]? = some x.1 ∧
      x.2.1 = e.2.1 + 1 + fsize (e.1.kids.take x.2.2))

theorem descendants_childOf : ∀ (kids : List Node) (start i0 : Nat) (x : Node × Nat × Nat),
    x ∈ descendants kids start i0 → ChildOf kids start i0 x
  | [], _, _, x, hx => by simp at hx
  | n :: ns, start, i0, x, hx => by
    have hhead : (n, start, i0) ∈ descendants (n :: ns) start i0 := by
      rw [descendants_cons]; exact List.mem_cons_self
    have htail : ∀ y, y ∈ descendants ns (start + n.size) (i0 + 1) → y ∈ descendants (n :: ns) start i0 := by
      intro y hy; rw [descendants_cons]; exact List.mem_cons_of_mem _ (List.mem_append_right _ hy)
    have tailCase : x ∈ descendants ns (start + n.size) (i0 + 1) → ChildOf (n :: ns) start i0 x := by
      intro hx
      rcases descendants_childOf ns _ _ x hx with ⟨j, h1, h2, h3⟩ | ⟨e, he, h1, h2⟩
      · exact Or.inl ⟨j + 1, by simpa using h1, by omega, by simp [h3]; omega⟩
      · exact Or.inr ⟨e, htail e he, h1, h2⟩
    rw [descendants_cons] at hx
    rcases List.mem_cons.mp hx with rfl | hx
    · exact Or.inl ⟨0, by simp, rfl, by simp⟩
    · rcases List.mem_append.mp hx with hx | hx
      · cases n with
        | text s m => simp at hx
        | leaf ty a m => simp at hx
        | elem ty a m kids =>
          simp only at hx
          have hin : ∀ y, y ∈ descendants kids (start + 1) 0 →
              y ∈ descendants (Node.elem ty a m kids :: ns) start i0 := by
            intro y hy; rw [descendants_cons]; exact List.mem_cons_of_mem _ (List.mem_append_left _ hy)
          rcases descendants_childOf kids _ _ x hx with ⟨j, h1, h2, h3⟩ | ⟨e, he, h1, h2⟩
          · refine Or.inr ⟨_, hhead, ?_, ?_⟩
            · simp only [Node.kids]; rw [h2, Nat.zero_add]; exact h1
            · simp only [Node.kids]; rw [h2, Nat.zero_add]; exact h3
          · exact Or.inr ⟨e, hin e he, h1, h2⟩
      · exact tailCase hx

/-! ### consequences: membership, exact equality without empty text nodes -/

theorem mem_nodesBetween_iff (kids : List Node) (f t start i0 : Nat) (x : Node × Nat × Nat)
    (hx : x.1.size ≠ 0) :
    x ∈ nodesBetween kids f t start i0 ↔
      x ∈ descendants kids start i0 ∧ x.2.1 < start + t ∧ start + f < x.2.1 + x.1.size := by
  have h1 : x ∈ nodesBetween kids f t start i0 ↔ x ∈ (nodesBetween kids f t start i0).filter nzNode := by
    simp [List.mem_filter, nzNode, hx]
  rw [h1, nodesBetween_filter, List.mem_filter]
  simp [inWin, nzNode, hx]

/-- no node below `kids` is an empty text node (true of every normal-form document) -/
def NoEmptyText (kids : List Node) : Prop := ∀ x ∈ descendants kids 0 0, x.1.size ≠ 0

instance (kids : List Node) : Decidable (NoEmptyText kids) := by unfold NoEmptyText; infer_instance

theorem descendants_norm : ∀ (kids : List Node) (start i0 : Nat) (x : Node × Nat × Nat),
    fnormKids kids = true → x ∈ descendants kids start i0 → x.1.norm = true
  | [], _, _, x, _, hx => by simp at hx
  | .text s m :: ns, start, i0, x, hn, hx => by
    rw [descendants_cons] at hx
    simp only [fnormKids, Bool.and_eq_true] at hn
    simp only [List.nil_append, List.mem_cons] at hx
    rcases hx with rfl | hx
    · exact hn.1
    · exact descendants_norm ns _ _ x hn.2 hx
  | .leaf ty a m :: ns, start, i0, x, hn, hx => by
    rw [descendants_cons] at hx
    simp only [fnormKids, Bool.and_eq_true] at hn
    simp only [List.nil_append, List.mem_cons] at hx
    rcases hx with rfl | hx
    · exact hn.1
    · exact descendants_norm ns _ _ x hn.2 hx
  | .elem ty a m kids :: ns, start, i0, x, hn, hx => by
    rw [descendants_cons] at hx
    simp only [fnormKids, Bool.and_eq_true] at hn
    simp only [List.mem_cons, List.mem_append] at hx
    rcases hx with rfl | hx | hx
    · exact hn.1
    · have := hn.1
      simp only [Node.norm, Bool.and_eq_true] at this
      exact descendants_norm kids _ _ x this.1 hx
    · exact descendants_norm ns _ _ x hn.2 hx

/-- normal-form documents (all the library produces) have no empty text nodes -/
theorem noEmptyText_of_norm (kids : List Node) (h : fnorm kids = true) : NoEmptyText kids := by
  intro x hx
  simp only [fnorm, Bool.and_eq_true] at h
  have := Node.size_pos_of_norm x.1 (descendants_norm kids 0 0 x h.1 hx)
  omega

/-- without empty text nodes the visited list *is* the filtered pre-order list -/
theorem nodesBetween_eq_filter (kids : List Node) (f t : Nat) (hne : NoEmptyText kids) :
    nodesBetween kids f t 0 0 = (descendants kids 0 0).filter (inWin 0 f t) := by
  rw [← nodesBetween_filter, List.filter_eq_self.mpr]
  intro x hx
  have := hne x ((nodesBetween_sublist kids f t 0 0).subset hx)
  simpa [nzNode] using this

/-- some visited node satisfies `P` iff some node overlapping the range does -/
theorem any_visited_iff (kids : List Node) (f t : Nat) (P : Node → Bool) (hne : NoEmptyText kids) :
    (nodesBetween kids f t 0 0).any (fun x => P x.1) = true ↔
      ∃ x ∈ descendants kids 0 0, x.2.1 < t ∧ f < x.2.1 + x.1.size ∧ P x.1 = true := by
  rw [List.any_eq_true]
  constructor
  · rintro ⟨x, hx, hp⟩
    have hd := (nodesBetween_sublist kids f t 0 0).subset hx
    have := (mem_nodesBetween_iff kids f t 0 0 x (hne x hd)).mp hx
    exact ⟨x, hd, by omega, by omega, hp⟩
  · rintro ⟨x, hd, h1, h2, hp⟩
    exact ⟨x, (mem_nodesBetween_iff kids f t 0 0 x (hne x hd)).mpr ⟨hd, by omega, by omega⟩, hp⟩

/-! ### the token form of "some visited node satisfies a predicate on its marks" -/

theorem window_get {α : Type} (G T : List α) (p n j : Nat) (h : (G.drop p).take n = T) (hj : j < n) :
    G[p + j]? = T[j]? := by
  rw [← h, List.getElem?_take_of_lt hj, List.getElem?_drop]

theorem any_visited_tokens (kids : List Node) (f t : Nat) (P : Marks → Bool) (hft : f < t)
    (hne : NoEmptyText kids) :
    (nodesBetween kids f t 0 0).any (fun x => P x.1.marks) = true ↔
      (∃ q u ms, f ≤ q ∧ q < t ∧ (ftoks kids)[q]? = some (Tok.unit u ms) ∧ P ms = true) ∨
      (∃ q ty a ms, f ≤ q ∧ q < t ∧ (ftoks kids)[q]? = some (Tok.leaf ty a ms) ∧ P ms = true) ∨
      (∃ q ty a ms ks i, (Node.elem ty a ms ks, q, i) ∈ descendants kids 0 0 ∧
          q < t ∧ f < q + (2 + fsize ks) ∧ P ms = true) := by
  rw [any_visited_iff kids f t (fun n => P n.marks) hne]
  constructor
  · rintro ⟨⟨n, p, i⟩, hd, h1, h2, hp⟩
    obtain ⟨q0, e, hw⟩ := descendants_tokAt kids 0 0 _ hd
    simp only [Nat.zero_add] at e hw h1 h2 hp
    subst e
    cases n with
    | text s ms =>
      simp only [Node.size_text, Node.toks_text, Node.marks] at hw h2 hp
      have hz : s.length ≠ 0 := by simpa using hne _ hd
      have hj : max p f - p < s.length := by omega
      have hg := window_get _ _ _ _ _ hw hj
      rw [show p + (max p f - p) = max p f by omega, List.getElem?_map,
        List.getElem?_eq_getElem hj] at hg
      exact Or.inl ⟨max p f, _, ms, by omega, by omega, hg, hp⟩
    | leaf ty a ms =>
      simp only [Node.size_leaf, Node.toks_leaf, Node.marks] at hw h2 hp
      have hg := window_get _ _ _ _ 0 hw (by omega)
      simp only [Nat.add_zero, List.getElem?_cons_zero] at hg
      exact Or.inr (Or.inl ⟨p, ty, a, ms, by omega, h1, hg, hp⟩)
    | elem ty a ms ks =>
      simp only [Node.size_elem, Node.marks] at h2 hp
      exact Or.inr (Or.inr ⟨p, ty, a, ms, ks, i, hd, h1, h2, hp⟩)
  · rintro (⟨q, u, ms, h1, h2, hg, hp⟩ | ⟨q, ty, a, ms, h1, h2, hg, hp⟩ | ⟨q, ty, a, ms, ks, i, hd, h1, h2, hp⟩)
    · obtain ⟨s, p, i, hd, g1, g2, _⟩ := descendants_covers kids 0 0 q _ hg
      rw [Nat.zero_add] at hd
      exact ⟨_, hd, by simp only; omega, by simp only [Node.size_text]; omega, hp⟩
    · obtain ⟨i, hd⟩ := descendants_covers kids 0 0 q _ hg
      rw [Nat.zero_add] at hd
      exact ⟨_, hd, by simp only; omega, by simp only [Node.size_leaf]; omega, hp⟩
    · exact ⟨_, hd, h1, by simp only [Node.size_elem]; omega, hp⟩

end PM
