/-
  Proofs/HistoryUndo.lean — the composition half of the history clause of C04: "applying the
  inverted steps in reverse order restores a document equal to the starting one".

  `Schema.unwind` is what the undo of a history does: for the recorded steps `s_0 … s_{n-1}` with the
  recorded documents `d_0 … d_{n-1}` (each the document *before* its step) and the final document,
  it inverts `s_{n-1}` against `d_{n-1}` and applies the inverse to the final document, then
  `s_{n-2}` against `d_{n-2}` …, down to `s_0`.  (A fold of the tied model functions `Schema.invert`
  and `Schema.apply`; nothing new is modelled here.)

  `unwind_of_chain`: if every recorded step is undone exactly by its own inverse, the whole history
  is.  `unwind_of_invariant`: the same with a document invariant (validity, normal form) carried
  forwards along the history, which is what the single-step undo theorems need.
-/
import PM.Step
import PM.Transform
namespace PM

/-- the inverse of `s`, computed against the document `d` the step was applied to, applies to the
    step's result `d'` and gives back `d` -/
def StepUndoes (S : Schema) (s : Step) (d d' : Node) : Prop :=
  ∃ inv, S.invert s d = .ok inv ∧ S.apply inv d' = .ok d

/-- undo a recorded history: `hist = [(s_0, d_0), …, (s_{n-1}, d_{n-1})]`, `fin` the final document;
    the later steps are undone first -/
def Schema.unwind (S : Schema) : List (Step × Node) → Node → Res Node
  | [], fin => .ok fin
  | (s, d) :: rest, fin =>
    match S.unwind rest fin with
    | .ok d1 =>
      match S.invert s d with
      | .ok inv => S.apply inv d1
      | .error e => .error e
    | .error e => .error e

/-- `Transform`: the inverted recorded steps applied in reverse order to the current document -/
def Tr.undo (S : Schema) (tr : Tr) : Res Node := S.unwind (tr.steps.zip tr.docs) tr.doc

/-- the document after the first recorded step of `hist` (the final document if there is none) -/
def histNext (hist : List (Step × Node)) (fin : Node) : Node := (hist.head?.map (·.2)).getD fin

/-- `G step before after` holds of every recorded step -/
def HistAll (G : Step → Node → Node → Prop) : List (Step × Node) → Node → Prop
  | [], _ => True
  | (s, d) :: rest, fin => G s d (histNext rest fin) ∧ HistAll G rest fin

/-- every recorded step is undone exactly by its own inverse -/
abbrev UndoChain (S : Schema) := HistAll (StepUndoes S)

/-- the recorded history replays: each recorded step applied to its recorded document gives the next
    recorded document -/
abbrev ReplayChain (S : Schema) := HistAll (fun s d d' => S.apply s d = .ok d')

theorem histNext_append (h1 h2 : List (Step × Node)) (fin : Node) :
    histNext (h1 ++ h2) fin = histNext h1 (histNext h2 fin) := by
  cases h1 <;> simp [histNext]

theorem histAll_append (G : Step → Node → Node → Prop) : ∀ (h1 h2 : List (Step × Node)) (fin : Node),
    HistAll G (h1 ++ h2) fin ↔ HistAll G h1 (histNext h2 fin) ∧ HistAll G h2 fin
  | [], h2, fin => by simp [HistAll]
  | (s, d) :: rest, h2, fin => by
    simp only [List.cons_append, HistAll, histAll_append G rest h2 fin, histNext_append, and_assoc]

theorem histAll_mono {G G' : Step → Node → Node → Prop} (h : ∀ s d d', G s d d' → G' s d d') :
    ∀ (hist : List (Step × Node)) (fin : Node), HistAll G hist fin → HistAll G' hist fin
  | [], _, _ => trivial
  | (s, d) :: rest, fin, ⟨h1, h2⟩ => ⟨h s d _ h1, histAll_mono h rest fin h2⟩

theorem histAll_and {G G' : Step → Node → Node → Prop} :
    ∀ (hist : List (Step × Node)) (fin : Node), HistAll G hist fin → HistAll G' hist fin →
      HistAll (fun s d d' => G s d d' ∧ G' s d d') hist fin
  | [], _, _, _ => trivial
  | (_, _) :: rest, fin, ⟨h1, h2⟩, ⟨h1', h2'⟩ => ⟨⟨h1, h1'⟩, histAll_and rest fin h2 h2'⟩

/-- position-by-position form -/
theorem histAll_of_get (G : Step → Node → Node → Prop) : ∀ (hist : List (Step × Node)) (fin : Node),
    (∀ k (hk : k < hist.length), G hist[k].1 hist[k].2 (histNext (hist.drop (k + 1)) fin)) →
    HistAll G hist fin
  | [], _, _ => trivial
  | (s, d) :: rest, fin, h => by
    refine ⟨?_, histAll_of_get G rest fin (fun k hk => ?_)⟩
    · have := h 0 (by simp)
      simp only [List.getElem_cons_zero, Nat.zero_add, List.drop_succ_cons, List.drop_zero] at this
      exact this
    · have := h (k + 1) (by simp; omega)
      simpa using this

theorem histAll_get (G : Step → Node → Node → Prop) : ∀ (hist : List (Step × Node)) (fin : Node),
    HistAll G hist fin →
    ∀ k (hk : k < hist.length), G hist[k].1 hist[k].2 (histNext (hist.drop (k + 1)) fin)
  | [], _, _, k, hk => by simp at hk
  | (_, _) :: rest, fin, ⟨h1, h2⟩, k, hk => by
    cases k with
    | zero =>
      simp only [List.getElem_cons_zero, Nat.zero_add, List.drop_succ_cons, List.drop_zero]
      exact h1
    | succ k => simpa using histAll_get G rest fin h2 k (by simpa using hk)

/-- **composition**: a history whose steps are each undone exactly by their inverse is undone exactly
    by the inverted steps in reverse order -/
theorem unwind_of_chain (S : Schema) : ∀ (hist : List (Step × Node)) (fin : Node),
    UndoChain S hist fin → S.unwind hist fin = .ok (histNext hist fin)
  | [], fin, _ => rfl
  | (s, d) :: rest, fin, h => by
    obtain ⟨⟨inv, hi, ha⟩, hr⟩ := h
    simp only [Schema.unwind, unwind_of_chain S rest fin hr, hi, ha]
    rfl

/-- **composition with an invariant**: `I` holds of the starting document and is kept by every
    recorded step that satisfies its guard `G`; under `I` and `G` a recorded step is undone exactly.
    Then the whole history is undone exactly, and `I` holds of the final document. -/
theorem chain_of_invariant (S : Schema) (I : Node → Prop) (G : Step → Node → Node → Prop)
    (hstep : ∀ s d d', I d → S.apply s d = .ok d' → G s d d' → StepUndoes S s d d' ∧ I d') :
    ∀ (hist : List (Step × Node)) (fin : Node), I (histNext hist fin) → ReplayChain S hist fin →
      HistAll G hist fin → UndoChain S hist fin ∧ I fin
  | [], fin, hI, _, _ => ⟨trivial, hI⟩
  | (s, d) :: rest, fin, hI, hr, hG => by
    obtain ⟨ha, hr'⟩ := hr
    obtain ⟨hg0, hG'⟩ := hG
    have hI0 : I d := hI
    obtain ⟨hu, hI1⟩ := hstep s d _ hI0 ha hg0
    obtain ⟨hc, hfin⟩ := chain_of_invariant S I G hstep rest fin hI1 hr' hG'
    exact ⟨⟨hu, hc⟩, hfin⟩

/-- a property `Q` of every recorded step, derived from a guard `G` and an invariant `I` carried along -/
theorem histAll_of_inv (S : Schema) (I : Node → Prop) (G Q : Step → Node → Node → Prop)
    (hstep : ∀ s d d', I d → S.apply s d = .ok d' → G s d d' → Q s d d' ∧ I d') :
    ∀ (hist : List (Step × Node)) (fin : Node), I (histNext hist fin) → ReplayChain S hist fin →
      HistAll G hist fin → HistAll Q hist fin
  | [], _, _, _, _ => trivial
  | (s, d) :: rest, fin, hI, ⟨ha, hr⟩, ⟨hg, hG⟩ =>
    have h := hstep s d _ hI ha hg
    ⟨h.1, histAll_of_inv S I G Q hstep rest fin h.2 hr hG⟩

theorem unwind_of_invariant (S : Schema) (I : Node → Prop) (G : Step → Node → Node → Prop)
    (hstep : ∀ s d d', I d → S.apply s d = .ok d' → G s d d' → StepUndoes S s d d' ∧ I d')
    (hist : List (Step × Node)) (fin : Node) (hI : I (histNext hist fin)) (hr : ReplayChain S hist fin)
    (hG : HistAll G hist fin) :
    S.unwind hist fin = .ok (histNext hist fin) :=
  unwind_of_chain S hist fin (chain_of_invariant S I G hstep hist fin hI hr hG).1

/-! ### the recorded lists of a transform -/

/-- the document after step `k` of a transform: the next recorded document, or the current one -/
def Tr.docAfter (tr : Tr) (k : Nat) : Node := (tr.docs[k + 1]?).getD tr.doc

theorem histNext_zip_drop (steps : List Step) (docs : List Node) (fin : Node) (k : Nat)
    (hlen : steps.length = docs.length) :
    histNext ((steps.zip docs).drop k) fin = (docs[k]?).getD fin := by
  unfold histNext
  rw [List.head?_drop]
  by_cases hk : k < docs.length
  · have hk' : k < (steps.zip docs).length := by simp [List.length_zip]; omega
    rw [List.getElem?_eq_getElem hk', List.getElem?_eq_getElem hk]
    simp
  · rw [List.getElem?_eq_none (by simp [List.length_zip]; omega), List.getElem?_eq_none (by omega)]
    rfl

/-- a replayed history in the `zip` form used by `unwind` -/
theorem replayChain_zip (S : Schema) : ∀ (steps : List Step) (docs : List Node) (fin : Node),
    steps.length = docs.length →
    (∀ k (hk : k < steps.length), ∃ d, docs[k]? = some d ∧ S.apply steps[k] d = .ok ((docs[k + 1]?).getD fin)) →
    ReplayChain S (steps.zip docs) fin
  | [], _, _, _, _ => trivial
  | s :: steps, [], _, hlen, _ => by simp at hlen
  | s :: steps, d :: docs, fin, hlen, h => by
    simp only [List.length_cons, Nat.add_right_cancel_iff] at hlen
    refine ⟨?_, replayChain_zip S steps docs fin hlen (fun k hk => ?_)⟩
    · obtain ⟨d0, hd0, ha⟩ := h 0 (by simp)
      simp only [List.getElem?_cons_zero, Option.some.injEq] at hd0
      subst hd0
      have := histNext_zip_drop steps docs fin 0 hlen
      simp only [List.drop_zero] at this
      show S.apply s d = .ok (histNext (steps.zip docs) fin)
      rw [this]
      simpa using ha
    · have := h (k + 1) (by simp; omega)
      simpa using this

end PM
