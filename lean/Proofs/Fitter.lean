/- Proofs/Fitter.lean — helper lemmas about the Fitter model (PM/Fitter.lean) for Props/C11.lean:
   which range the emitted step covers (`fit_range`), and the text invariant of the fitting loop. -/
import PM.Fitter
import PM.Monitor
import Proofs.Toks
import Proofs.Resolve
import Proofs.Range
import Proofs.Structure
import Proofs.Respects
import Proofs.RangeOps
namespace PM

/-! ### peeling `do` blocks in `FM` -/

theorem FM.bind_ok {α β : Type} {x : FM α} {f : α → FM β} {b : β} (h : (x >>= f) = .ok b) :
    ∃ a, x = .ok a ∧ f a = .ok b := by
  cases x with
  | error e => simp [bind, Except.bind] at h
  | ok a => exact ⟨a, rfl, h⟩

theorem liftRaise_ok {α : Type} {o : Option α} {a : α} (h : liftRaise o = .ok a) : o = some a := by
  cases o with
  | none => simp [liftRaise, throw, throwThe, MonadExceptOf.throw] at h
  | some x => simp [liftRaise, pure, Except.pure] at h; rw [h]

theorem pure_ok {α : Type} {a b : α} (h : (pure a : FM α) = .ok b) : a = b := by
  simpa [pure, Except.pure] using h

/-! ### where `close` continues from -/

theorem closeMove_spec (doc : Node) (rt : RPos) (i : Nat) (b : Bool) (mv : RPos)
    (h : closeMove doc rt i b = .ok mv) :
    (b = false ∧ mv = rt) ∨ (b = true ∧ ∃ a, rt.after (i + 1) = some a ∧ doc.resolve a = some mv) := by
  unfold closeMove at h
  cases b with
  | false => exact .inl ⟨rfl, (pure_ok h).symm⟩
  | true =>
    simp only [if_true] at h
    obtain ⟨a, ha, h⟩ := FM.bind_ok h
    exact .inr ⟨rfl, a, liftRaise_ok ha, liftRaise_ok h⟩

theorem findCloseLevelLoop_move (S : Schema) (doc : Node) (rt : RPos) (fr : List FItem) :
    ∀ (n : Nat) (lv : CloseLevel), findCloseLevelLoop S doc rt fr n = .ok (some lv) →
      lv.move = rt ∨ ∃ i a, i < rt.depth ∧ rt.end_ (i + 1) = rt.pos + (rt.depth - (i + 1)) ∧
        rt.after (i + 1) = some a ∧ doc.resolve a = some lv.move
  | 0, lv, h => by simp [findCloseLevelLoop, pure, Except.pure] at h
  | i + 1, lv, h => by
    unfold findCloseLevelLoop at h
    obtain ⟨it, _, h⟩ := FM.bind_ok h
    simp only at h
    obtain ⟨r, _, h⟩ := FM.bind_ok h
    cases r with
    | none => exact findCloseLevelLoop_move S doc rt fr i lv h
    | some fit =>
      simp only at h
      obtain ⟨b, _, h⟩ := FM.bind_ok h
      cases b with
      | false => exact findCloseLevelLoop_move S doc rt fr i lv h
      | true =>
        simp only [if_true] at h
        obtain ⟨mv, hmv, h⟩ := FM.bind_ok h
        have := pure_ok h
        simp only [Option.some.injEq] at this
        subst this
        rcases closeMove_spec doc rt i _ mv hmv with ⟨_, rfl⟩ | ⟨hb, a, ha, hres⟩
        · exact .inl rfl
        · simp only [Bool.and_eq_true, decide_eq_true_eq, beq_iff_eq] at hb
          exact .inr ⟨i, a, hb.1, hb.2, ha, hres⟩

theorem closeFit_move (S : Schema) (doc : Node) (rt : RPos) (fr : List FItem) (placed : List Node)
    (mv : RPos) (p : List Node) (h : closeFit S doc rt fr placed = .ok (some (mv, p))) :
    ∃ lv, findCloseLevel S doc rt fr = .ok (some lv) ∧ mv = lv.move := by
  unfold closeFit at h
  obtain ⟨r, hr, h⟩ := FM.bind_ok h
  cases r with
  | none => simp [pure, Except.pure] at h
  | some lv =>
    simp only at h
    obtain ⟨x, _, h⟩ := FM.bind_ok h
    obtain ⟨y, _, h⟩ := FM.bind_ok h
    obtain ⟨z, _, h⟩ := FM.bind_ok h
    have := pure_ok h
    simp only [Option.some.injEq, Prod.mk.injEq] at this
    exact ⟨lv, hr, this.1.symm⟩

/-! ### must_move_inline -/

theorem mustMoveInline_some (S : Schema) (doc : Node) (rt : RPos) (fr : List FItem) (p : Nat)
    (h : mustMoveInline S doc rt fr = .ok (some p)) :
    ∃ after, rt.after rt.depth = some after ∧ p = moveInlineAfter rt rt.depth after := by
  unfold mustMoveInline at h
  split at h
  · simp [pure, Except.pure] at h
  · obtain ⟨top, _, h⟩ := FM.bind_ok h
    split at h
    · simp [pure, Except.pure] at h
    · obtain ⟨r, _, h⟩ := FM.bind_ok h
      cases r with
      | none => simp [pure, Except.pure] at h
      | some _ =>
        simp only at h
        obtain ⟨blocked, _, h⟩ := FM.bind_ok h
        cases blocked with
        | true => simp [pure, Except.pure] at h
        | false =>
          simp only [Bool.false_eq_true, if_false] at h
          obtain ⟨after, ha, h⟩ := FM.bind_ok h
          have := pure_ok h
          simp only [Option.some.injEq] at this
          exact ⟨after, liftRaise_ok ha, this.symm⟩

/-- the `while depth > 1` loop only steps over close tokens and stays inside the document -/
theorem moveInlineAfter_spec {doc : Node} {t : Nat} {rt : RPos} (R : Resolved doc t rt)
    (hr : doc.resolve t = some rt) : ∀ (k after : Nat), 1 ≤ k → k ≤ rt.depth →
      after ≤ rt.end_ (k - 1) →
      after ≤ moveInlineAfter rt k after ∧ moveInlineAfter rt k after ≤ fsize doc.kids ∧
      ∀ i, after ≤ i → i < moveInlineAfter rt k after → (ftoks doc.kids)[i]? = some Tok.cl
  | 0, after, h1, _, _ => by omega
  | 1, after, _, hk, hle => by
    simp only [moveInlineAfter]
    exact ⟨Nat.le_refl _, Nat.le_trans hle (R.end_le_size 0 (Nat.zero_le _)).1, fun i h1 h2 => by omega⟩
  | d + 2, after, _, hk, hle => by
    simp only [moveInlineAfter]
    simp only [show d + 2 - 1 = d + 1 by omega] at hle
    split
    · exact ⟨Nat.le_refl _, Nat.le_trans hle (R.end_le_size (d + 1) (by omega)).1, fun i h1 h2 => by omega⟩
    · rename_i heq
      have heq' : after = rt.end_ (d + 1) := by simpa using heq
      have ns := R.nest_step d (by omega)
      obtain ⟨ih1, ih2, ih3⟩ := moveInlineAfter_spec R hr (d + 1) (after + 1) (by omega) (by omega)
        (by simp only [Nat.add_sub_cancel]; omega)
      refine ⟨by omega, ih2, fun i h1 h2 => ?_⟩
      rcases Nat.lt_or_ge after i with hlt | hge
      · exact ih3 i hlt h2
      · have : i = rt.end_ (d + 1) := by omega
        rw [this]
        exact R.tok_close hr (d + 1) (by omega) (by omega)

/-! ### the range of the emitted step -/

theorem fitEmit_cases (rf rt : RPos) (mi : Option Nat) (ps : Int) (to_ : RPos) (placed : List Node)
    (st : Step) (h : fitEmit rf rt mi ps to_ placed = .ok (some st)) :
    (mi = none ∧ ∃ sl', st = .replace rf.pos to_.pos sl' false) ∨
    (∃ p sl' ins, mi = some p ∧ st = .replaceAround rf.pos p rt.pos (rt.end_ rt.depth) sl' ins false) := by
  unfold fitEmit at h
  cases mi with
  | none =>
    simp only at h
    split at h
    · have := pure_ok h
      simp only [Option.some.injEq] at this
      exact .inl ⟨rfl, _, this.symm⟩
    · simp [pure, Except.pure] at h
  | some p =>
    simp only at h
    split at h
    · simp [throw, throwThe, MonadExceptOf.throw] at h
    · have := pure_ok h
      simp only [Option.some.injEq] at this
      exact .inr ⟨p, _, _, rfl, this.symm⟩

/-- **the range of the step the Fitter emits**: it starts at the requested `from`; a replace step
    ends at or after the requested `to`, a replace-around step keeps the gap `[to, end of to's
    parent)` and ends after it; in both cases what lies between (the requested end resp. the gap's
    end) and the step's end is close tokens only, inside the document -/
theorem fitterFit_range {doc : Node} {f t : Nat} {rf rt : RPos} (S : Schema)
    (hf : doc.resolve f = some rf) (ht : doc.resolve t = some rt) (sl : Slice) (fuel : Nat) (st : Step)
    (h : fitterFit S doc rf rt sl fuel = .ok (some st)) :
    (∃ T sl', st = .replace f T sl' false ∧ t ≤ T ∧ T ≤ fsize doc.kids ∧
      ∀ i, t ≤ i → i < T → (ftoks doc.kids)[i]? = some Tok.cl) ∨
    (∃ T G2 sl' ins, st = .replaceAround f T t G2 sl' ins false ∧ t ≤ G2 ∧ G2 < T ∧
      T ≤ fsize doc.kids ∧ ∀ i, G2 ≤ i → i < T → (ftoks doc.kids)[i]? = some Tok.cl) := by
  have Rf := resolve_resolved hf
  have Rt := resolve_resolved ht
  unfold fitterFit at h
  obtain ⟨st0, _, h⟩ := FM.bind_ok h
  obtain ⟨st1, _, h⟩ := FM.bind_ok h
  obtain ⟨mi, hmi, h⟩ := FM.bind_ok h
  simp only at h
  obtain ⟨target, htg, h⟩ := FM.bind_ok h
  obtain ⟨c, hc, h⟩ := FM.bind_ok h
  cases c with
  | none => simp [pure, Except.pure] at h
  | some c =>
    simp only at h
    rcases fitEmit_cases rf rt mi _ c.1 c.2 st h with ⟨rfl, sl', rfl⟩ | ⟨p, sl', ins, rfl, rfl⟩
    · -- plain replace step: `to` is where `close` continued from
      have htarget : target = rt := (pure_ok htg).symm
      subst htarget
      obtain ⟨lv, hlv, hmv⟩ := closeFit_move S doc target st1.frontier st1.placed c.1 c.2 hc
      refine .inl ⟨c.1.pos, sl', by rw [Rf.pos_eq], ?_⟩
      rcases findCloseLevelLoop_move S doc target st1.frontier _ lv hlv with hm | ⟨i, a, hi, hend, ha, hres⟩
      · rw [hmv, hm, Rt.pos_eq]
        exact ⟨Nat.le_refl _, Rt.le, fun i h1 h2 => by omega⟩
      · have hpos : c.1.pos = a := by rw [hmv]; exact (resolve_resolved hres).pos_eq
        rw [Rt.after_eq (i + 1) (by omega) (by omega)] at ha
        simp only [Option.some.injEq] at ha
        rw [Rt.pos_eq] at hend
        have p := Rt.pos_in (i + 1) (by omega)
        refine ⟨by omega, by rw [hpos, ← ha]; exact (Rt.end_le_size (i + 1) (by omega)).2 (by omega), ?_⟩
        intro j h1 h2
        exact Rt.close_run_after ht (i + 1) (by omega) (by omega) hend j h1 (by omega)
    · -- replace-around step: the gap is `[to, end of to's parent)`
      obtain ⟨after, ha, hp⟩ := mustMoveInline_some S doc rt st1.frontier p hmi
      have hd1 : 1 ≤ rt.depth := by
        rcases Nat.eq_zero_or_pos rt.depth with h0 | h0
        · rw [h0] at ha; simp [RPos.after] at ha
        · exact h0
      rw [Rt.after_eq rt.depth hd1 (Nat.le_refl _)] at ha
      simp only [Option.some.injEq] at ha
      have ns := Rt.nest_step (rt.depth - 1) (by omega)
      rw [show rt.depth - 1 + 1 = rt.depth by omega] at ns
      obtain ⟨m1, m2, m3⟩ := moveInlineAfter_spec Rt ht rt.depth after hd1 (Nat.le_refl _) (by omega)
      have pin := Rt.pos_in rt.depth (Nat.le_refl _)
      refine .inr ⟨p, rt.end_ rt.depth, sl', ins, by rw [Rf.pos_eq, Rt.pos_eq], pin.2, by omega,
        by rw [hp]; exact m2, ?_⟩
      intro j h1 h2
      rcases Nat.lt_or_ge j after with hlt | hge
      · have : j = rt.end_ rt.depth := by omega
        rw [this]
        exact Rt.tok_close ht rt.depth hd1 (Nat.le_refl _)
      · exact m3 j hge (by rw [← hp]; exact h2)

end PM
