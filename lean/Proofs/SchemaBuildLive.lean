/-
  Proofs/SchemaBuildLive.lean — the automata `buildSchema` puts into a schema are deterministic, in range, entirely
  reachable and live (`contentMatch_live`: the body of `LiveSchema` of Props/C15.lean), and what the dead-end check
  means on the sequences (`live_complete` / `complete_live`).
-/
import Proofs.SchemaBuild
import Proofs.Fill
namespace PM.SchemaBuild
open PM PM.SchemaCompile PM.ParseC
set_option linter.unusedSimpArgs false

/-- a content automaton as `Schema.__init__` leaves it (the body of `DfaLive` of `Props/C15.lean`, with the
    number of node types and the generatable test as parameters) -/
def ContentLive (n : Nat) (gen : Nat → Bool) (d : Dfa) : Prop :=
  0 < d.size ∧
  ∀ q, q < d.size →
    ((d.edgesOf q).map (·.1)).Nodup ∧
    (∀ e, e ∈ d.edgesOf q → e.2 < d.size ∧ e.1 < n) ∧
    fillBefore d gen q [] true ≠ none

theorem genLive_fill (d : Dfa) (hdet : ∀ q, ((d.edgesOf q).map (·.1)).Nodup) (gen : Nat → Bool) (q : Nat)
    (h : Dfa.GenLive d gen q) : ∃ fill, isFill d gen q [] true fill = true := by
  induction h with
  | here hv => exact ⟨[], by simp [isFill, Dfa.run, hv]⟩
  | @step q e he hg _ ih =>
    obtain ⟨fill, hf⟩ := ih
    refine ⟨e.1 :: fill, ?_⟩
    have hm : d.matchType q e.1 = some e.2 := Dfa.matchType_of_mem_nodup (hdet q) he
    simp only [isFill, List.all_cons, hg, Bool.true_and, List.cons_append, Dfa.run, hm] at hf ⊢
    exact hf

theorem emptyMatch_live (n : Nat) (gen : Nat → Bool) : ContentLive n gen emptyMatch := by
  refine ⟨by simp [emptyMatch], fun q hq => ?_⟩
  have hq0 : q = 0 := by simp [emptyMatch] at hq; omega
  subst hq0
  refine ⟨by simp [emptyMatch, Dfa.edgesOf], fun e he => by simp [emptyMatch, Dfa.edgesOf] at he, ?_⟩
  simp [fillBefore, fillSearch, emptyMatch, Dfa.run, Dfa.validEnd]

/-- the compiled, renumbered and checked automaton of a parsed expression -/
theorem compiled_live {table : List NameInfo} {inl : Option Bool} {e : Expr} (hok : ExprOk table inl e)
    (gen : Nat → Bool) (hdead : (dfa (nfa e)).bfs.hasDeadEnd gen = false) :
    ContentLive table.length gen (dfa (nfa e)).bfs := by
  have hwf := hok.1
  have hD := compile_dfa_wf e hwf
  have hd := bfs_wf _ hD
  have hdet : ∀ q, (((dfa (nfa e)).bfs.edgesOf q).map (·.1)).Nodup := by
    intro q
    rw [bfs_labels]
    cases (dfa (nfa e)).bfsOrder[q]? with
    | none => simp
    | some q0 => exact compile_det e hwf q0
  refine ⟨hd.pos, fun q hq => ⟨hdet q, fun x hx => ⟨hd.tgt q x hx, ?_⟩, ?_⟩⟩
  · rw [bfs_edgesOf] at hx
    cases hq0 : (dfa (nfa e)).bfsOrder[q]? with
    | none => rw [hq0] at hx; simp at hx
    | some q0 =>
      rw [hq0] at hx
      simp only at hx
      obtain ⟨y, hy, rfl⟩ := List.mem_map.1 hx
      exact (hok.2 _ (compile_labels e hwf q0 y hy)).1
  · intro hnone
    have hlive := (hasDeadEnd_iff _ hd gen).1 hdead q (bfs_all_reach _ hD q hq)
    obtain ⟨fill, hf⟩ := genLive_fill _ hdet gen q hlive
    have := fillBefore_complete_aux _ (fun q t q' hm => hd.tgt q (t, q') hm) gen q [] true hnone fill
    rw [hf] at this
    cases this

/-- **every automaton `ContentMatch.parse` hands to the schema is deterministic, in range and live** -/
theorem contentMatch_live {spec : Spec} {s : String} {d : Dfa} (h : contentMatch spec s = .ok d) :
    ContentLive spec.nodes.length (specGen spec) d := by
  rcases contentMatch_ok h with ⟨_, rfl⟩ | ⟨_, e, hp, rfl, hdead⟩
  · exact emptyMatch_live _ _
  · obtain ⟨inl, hok, _⟩ := parseToks_ok hp
    rw [← nameTable_length]
    exact compiled_live hok _ hdead

theorem run_reach (d : Dfa) : ∀ (w : List Nat) (q q' : Nat), Dfa.Reach d q → d.run q w = some q' → Dfa.Reach d q'
  | [], q, q', hq, h => by simp only [Dfa.run, Option.some.injEq] at h; subst h; exact hq
  | t :: w, q, q', hq, h => by
    unfold Dfa.run at h
    cases hm : d.matchType q t with
    | none => rw [hm] at h; cases h
    | some q1 =>
      rw [hm] at h
      simp only at h
      have hmem : (t, q1) ∈ d.edgesOf q := by
        unfold Dfa.matchType at hm
        rw [Option.map_eq_some_iff] at hm
        obtain ⟨x, hx, rfl⟩ := hm
        have := List.mem_of_find?_eq_some hx
        have ht := List.find?_some hx
        simp only [beq_iff_eq] at ht
        rw [← ht]
        exact this
      exact run_reach d w q1 q' (Dfa.Reach.step hq hmem) h

/-- **no dead end, read on the sequences**: in an automaton that passed `check_for_dead_ends`, whatever
    sequence keeps a match state alive can be completed to an accepted one by generatable types alone -/
theorem live_complete (d : Dfa) (hd : d.WF) (hdet : ∀ q, ((d.edgesOf q).map (·.1)).Nodup) (gen : Nat → Bool)
    (hdead : d.hasDeadEnd gen = false) (w : List Nat) (hw : (d.run 0 w).isSome = true) :
    ∃ v, v.all gen = true ∧ d.accepts (w ++ v) = true := by
  cases hr : d.run 0 w with
  | none => rw [hr] at hw; cases hw
  | some q =>
    have hq := run_reach d w 0 q .start hr
    obtain ⟨fill, hf⟩ := genLive_fill d hdet gen q ((hasDeadEnd_iff d hd gen).1 hdead q hq)
    unfold isFill at hf
    simp only [Bool.and_eq_true, List.append_nil] at hf
    refine ⟨fill, hf.1, ?_⟩
    unfold Dfa.accepts
    rw [Dfa.run_append, hr]
    simp only [Option.bind_some]
    cases hr2 : d.run q fill with
    | none => rw [hr2] at hf; simp at hf
    | some f => rw [hr2] at hf; simpa using hf.2

/-- … and the other way round: if every live prefix has such a completion, the check passes -/
theorem complete_live (d : Dfa) (hd : d.WF) (hdet : ∀ q, ((d.edgesOf q).map (·.1)).Nodup) (gen : Nat → Bool)
    (h : ∀ w, (d.run 0 w).isSome = true → ∃ v, v.all gen = true ∧ d.accepts (w ++ v) = true) :
    d.hasDeadEnd gen = false := by
  rw [hasDeadEnd_iff d hd gen]
  -- every reachable state is reached by a word
  have hword : ∀ q, Dfa.Reach d q → ∃ w, d.run 0 w = some q := by
    intro q hq
    induction hq with
    | start => exact ⟨[], rfl⟩
    | @step q e _ he ih =>
      obtain ⟨w, hw⟩ := ih
      refine ⟨w ++ [e.1], ?_⟩
      rw [Dfa.run_append, hw]
      simp only [Option.bind_some, Dfa.run]
      rw [Dfa.matchType_of_mem_nodup (hdet q) he]
  -- a run through generatable types to a valid end makes the state live
  have hlive : ∀ (v : List Nat) (q f : Nat), v.all gen = true → d.run q v = some f → d.validEnd f = true →
      Dfa.GenLive d gen q := by
    intro v
    induction v with
    | nil =>
      intro q f _ hr hv
      simp only [Dfa.run, Option.some.injEq] at hr
      subst hr
      exact .here hv
    | cons t v ih =>
      intro q f hall hr hv
      simp only [List.all_cons, Bool.and_eq_true] at hall
      unfold Dfa.run at hr
      cases hm : d.matchType q t with
      | none => rw [hm] at hr; cases hr
      | some q1 =>
        rw [hm] at hr
        simp only at hr
        have hmem : (t, q1) ∈ d.edgesOf q := by
          unfold Dfa.matchType at hm
          rw [Option.map_eq_some_iff] at hm
          obtain ⟨x, hx, rfl⟩ := hm
          have := List.mem_of_find?_eq_some hx
          have ht := List.find?_some hx
          simp only [beq_iff_eq] at ht
          rw [← ht]
          exact this
        exact Dfa.GenLive.step (e := (t, q1)) hmem hall.1 (ih q1 f hall.2 hr hv)
  intro q hq
  obtain ⟨w, hw⟩ := hword q hq
  obtain ⟨v, hv, hacc⟩ := h w (by rw [hw]; rfl)
  unfold Dfa.accepts at hacc
  rw [Dfa.run_append, hw] at hacc
  simp only [Option.bind_some] at hacc
  cases hr : d.run q v with
  | none => rw [hr] at hacc; cases hacc
  | some f => rw [hr] at hacc; exact hlive v q f hv hr hacc


theorem emptyMatch_noDeadEnd (gen : Nat → Bool) : emptyMatch.hasDeadEnd gen = false := by
  have hwf : emptyMatch.WF := ⟨by simp [emptyMatch], fun q e he => by
    unfold Dfa.edgesOf emptyMatch at he
    by_cases hq : q = 0
    · subst hq; simp at he
    · have : (#[(⟨true, []⟩ : DfaState)] : Dfa)[q]? = none := by simp; omega
      rw [this] at he; simp at he⟩
  rw [hasDeadEnd_iff _ hwf]
  intro q hq
  cases hq with
  | start => exact .here (by simp [emptyMatch, Dfa.validEnd])
  | @step q e _ he =>
    exfalso
    unfold Dfa.edgesOf emptyMatch at he
    by_cases hq : q = 0
    · subst hq; simp at he
    · have : (#[(⟨true, []⟩ : DfaState)] : Dfa)[q]? = none := by simp; omega
      rw [this] at he; simp at he

end PM.SchemaBuild
