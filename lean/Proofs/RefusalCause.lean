/-
  Proofs/RefusalCause.lean — what the reason of a refusal of the specification reader says about the expression:
  `unknownName` — some word of the expression is neither a node type nor a group with members; `mixed` — two of the
  node types its words stand for differ in being inline.
-/
import Proofs.SpecParse
namespace PM.SpecParse
open PM
set_option linter.unusedSimpArgs false

/-- what a reason says about the tokens `all` of the expression -/
def ErrCause (table : List NameInfo) (all : List String) : PErr → Prop
  | .unknownName => ∃ t, t ∈ all ∧ isWordTok t = true ∧ resolveIds table t = []
  | .mixed => ∃ t t', t ∈ all ∧ t' ∈ all ∧ isWordTok t = true ∧ isWordTok t' = true ∧
      ∃ a b, a ∈ resolveIds table t ∧ b ∈ resolveIds table t' ∧ (table[a]!).isInline ≠ (table[b]!).isInline
  | .syntax => True

/-- the inline flag carried along stems from a word read before -/
def KnownInl (table : List NameInfo) (all : List String) (inl : Option Bool) : Prop :=
  ∀ b, inl = some b → ∃ t, t ∈ all ∧ isWordTok t = true ∧ ∃ a, a ∈ resolveIds table t ∧ (table[a]!).isInline = b

def StOk (table : List NameInfo) (all : List String) (st : PState) : Prop :=
  (∀ t, t ∈ st.toks → t ∈ all) ∧ KnownInl table all st.inline

def ResOk (table : List NameInfo) (all : List String) : SRes → Prop
  | some (.ok (_, st')) => StOk table all st'
  | some (.error e) => ErrCause table all e
  | none => True

theorem sName_cause (table : List NameInfo) (all : List String) (t : String) (inl : Option Bool)
    (ht : t ∈ all) (hw : isWordTok t = true) (hk : KnownInl table all inl) :
    match sName table t inl with
    | .ok (_, inl') => KnownInl table all inl'
    | .error e => ErrCause table all e := by
  rw [sName_eq]
  generalize hids : resolveIds table t = ids
  cases ids with
  | nil => exact ⟨t, ht, hw, hids⟩
  | cons i is =>
    simp only [List.isEmpty_cons, Bool.false_eq_true, if_false, List.map_cons, List.headD_cons]
    generalize hc : List.all _ _ = c
    cases c with
    | true =>
      simp only [if_true]
      intro b hb
      simp only [Option.some.injEq] at hb
      cases inl with
      | none =>
        simp only [Option.getD_none] at hb
        exact ⟨t, ht, hw, i, by rw [hids]; simp, hb⟩
      | some b0 =>
        simp only [Option.getD_some] at hb
        subst hb
        exact hk b0 rfl
    | false =>
      simp only [Bool.false_eq_true, if_false]
      have : ∃ a, a ∈ i :: is ∧ (table[a]!).isInline ≠ inl.getD (table[i]!).isInline := by
        by_contra hno
        have : List.all ((table[i]!).isInline :: List.map (fun i => (table[i]!).isInline) is)
            (· == inl.getD (table[i]!).isInline) = true := by
          rw [List.all_eq_true]
          intro f hf
          have hf' : f ∈ (i :: is).map (fun i => (table[i]!).isInline) := by simpa using hf
          obtain ⟨a, ha, rfl⟩ := List.mem_map.1 hf'
          by_contra hne
          exact hno ⟨a, ha, by simpa using hne⟩
        rw [this] at hc
        cases hc
      obtain ⟨a, ha, hne⟩ := this
      cases inl with
      | none =>
        simp only [Option.getD_none] at hne
        exact ⟨t, t, ht, ht, hw, hw, a, i, by rw [hids]; exact ha, by rw [hids]; simp, hne⟩
      | some b0 =>
        simp only [Option.getD_some] at hne
        obtain ⟨t0, ht0, hw0, a0, ha0, hf0⟩ := hk b0 rfl
        exact ⟨t, t0, ht, ht0, hw, hw0, a, a0, by rw [hids]; exact ha, ha0, by rw [hf0]; exact hne⟩

theorem sCounts_suffix (ts : List String) (mn : Nat) (mx : Option Nat) (rest : List String)
    (h : sCounts ts = some (mn, mx, rest)) : rest <:+ ts ∧ rest.length < ts.length := by
  unfold sCounts at h
  split at h
  · split at h
    · simp only [Option.some.injEq, Prod.mk.injEq] at h
      obtain ⟨_, _, rfl⟩ := h
      exact ⟨⟨[_, _], rfl⟩, by simp; omega⟩
    · cases h
  · split at h
    · simp only [Option.some.injEq, Prod.mk.injEq] at h
      obtain ⟨_, _, rfl⟩ := h
      exact ⟨⟨[_, _, _], rfl⟩, by simp; omega⟩
    · cases h
  · split at h
    · simp only [Option.some.injEq, Prod.mk.injEq] at h
      obtain ⟨_, _, rfl⟩ := h
      exact ⟨⟨[_, _, _, _], rfl⟩, by simp; omega⟩
    · cases h
  · cases h

/-- the postfix operators only consume tokens, and refuse only for syntax -/
theorem sSuffix_cause : ∀ (n : Nat) (ts : List String) (r : RE), ts.length ≤ n →
    match sSuffix r ts with
    | .ok (_, ts') => ts' <:+ ts
    | .error e => e = .syntax := by
  intro n
  induction n with
  | zero =>
    intro ts r h
    have : ts = [] := List.eq_nil_of_length_eq_zero (by omega)
    subst this
    rw [sSuffix_nil]
  | succ n ih =>
    intro ts r h
    cases ts with
    | nil => rw [sSuffix_nil]
    | cons t ts =>
      simp only [List.length_cons] at h
      have step : ∀ r', (match sSuffix r' ts with
          | .ok (_, ts') => ts' <:+ t :: ts
          | .error e => e = .syntax) := by
        intro r'
        have := ih ts r' (by omega)
        cases hs : sSuffix r' ts with
        | ok v =>
          obtain ⟨x, ts'⟩ := v
          rw [hs] at this
          exact List.IsSuffix.trans this (List.suffix_cons _ _)
        | error e =>
          rw [hs] at this
          exact this
      by_cases h1 : t = "+"
      · subst h1; rw [sSuffix_plus]; exact step _
      by_cases h2 : t = "*"
      · subst h2; rw [sSuffix_star]; exact step _
      by_cases h3 : t = "?"
      · subst h3; rw [sSuffix_opt]; exact step _
      by_cases h4 : t = "{"
      · subst h4
        rw [sSuffix_brace]
        cases hc : sCounts ts with
        | none => rfl
        | some v =>
          obtain ⟨mn, mx, rest⟩ := v
          obtain ⟨hs, hl⟩ := sCounts_suffix ts mn mx rest hc
          have := ih rest (RE.range r mn mx) (by omega)
          simp only
          cases hs2 : sSuffix (RE.range r mn mx) rest with
          | ok v =>
            obtain ⟨x, ts'⟩ := v
            rw [hs2] at this
            exact List.IsSuffix.trans this (List.IsSuffix.trans hs (List.suffix_cons _ _))
          | error e =>
            rw [hs2] at this
            exact this
      · rw [sSuffix_other r t ts h1 h2 h3 h4]

def CauseInv (table : List NameInfo) (all : List String) (k : Nat) : Prop :=
  (∀ st, StOk table all st → ResOk table all (sExpr table k st)) ∧
  (∀ st, StOk table all st → ResOk table all (sSeq table k st)) ∧
  (∀ st, StOk table all st → ResOk table all (sSub table k st)) ∧
  (∀ st, StOk table all st → ResOk table all (sAtom table k st))

theorem StOk.tail {table : List NameInfo} {all : List String} {st : PState} {t : String} {ts : List String}
    (h : StOk table all st) (ht : st.toks = t :: ts) : StOk table all { st with toks := ts } :=
  ⟨fun x hx => h.1 x (by rw [ht]; exact List.mem_cons_of_mem _ hx), h.2⟩

theorem cause_expr {table : List NameInfo} {all : List String} {k : Nat} (ih : CauseInv table all k) (st : PState)
    (h : StOk table all st) : ResOk table all (sExpr table (k + 1) st) := by
  rw [sExpr]
  have h1 := ih.2.1 st h
  cases hs : sSeq table k st with
  | none => trivial
  | some res =>
    cases res with
    | error e => rw [hs] at h1; exact h1
    | ok v =>
      obtain ⟨r, st1⟩ := v
      rw [hs] at h1
      simp only
      split
      · rename_i ts hts
        have h2 := ih.1 { st1 with toks := ts } (StOk.tail h1 hts)
        cases hs2 : sExpr table k { st1 with toks := ts } with
        | none => trivial
        | some res2 =>
          cases res2 with
          | error e => rw [hs2] at h2; exact h2
          | ok v2 => obtain ⟨r2, st2⟩ := v2; rw [hs2] at h2; exact h2
      · exact h1

theorem cause_seq {table : List NameInfo} {all : List String} {k : Nat} (ih : CauseInv table all k) (st : PState)
    (h : StOk table all st) : ResOk table all (sSeq table (k + 1) st) := by
  rw [sSeq]
  have h1 := ih.2.2.1 st h
  cases hs : sSub table k st with
  | none => trivial
  | some res =>
    cases res with
    | error e => rw [hs] at h1; exact h1
    | ok v =>
      obtain ⟨r, st1⟩ := v
      rw [hs] at h1
      simp only
      split
      · exact h1
      · have h2 := ih.2.1 st1 h1
        cases hs2 : sSeq table k st1 with
        | none => trivial
        | some res2 =>
          cases res2 with
          | error e => rw [hs2] at h2; exact h2
          | ok v2 => obtain ⟨r2, st2⟩ := v2; rw [hs2] at h2; exact h2

theorem cause_sub {table : List NameInfo} {all : List String} {k : Nat} (ih : CauseInv table all k) (st : PState)
    (h : StOk table all st) : ResOk table all (sSub table (k + 1) st) := by
  rw [sSub]
  have h1 := ih.2.2.2 st h
  cases hs : sAtom table k st with
  | none => trivial
  | some res =>
    cases res with
    | error e => rw [hs] at h1; exact h1
    | ok v =>
      obtain ⟨r, st1⟩ := v
      rw [hs] at h1
      simp only
      have h2 := sSuffix_cause st1.toks.length st1.toks r (Nat.le_refl _)
      cases hs2 : sSuffix r st1.toks with
      | error e =>
        rw [hs2] at h2
        simp only at h2
        subst h2
        trivial
      | ok v2 =>
        obtain ⟨r2, ts2⟩ := v2
        rw [hs2] at h2
        exact ⟨fun x hx => h1.1 x (h2.subset hx), h1.2⟩

theorem cause_atom {table : List NameInfo} {all : List String} {k : Nat} (ih : CauseInv table all k) (st : PState)
    (h : StOk table all st) : ResOk table all (sAtom table (k + 1) st) := by
  rw [sAtom]
  split
  · trivial
  · rename_i ts hts
    have h2 := ih.1 { st with toks := ts } (StOk.tail h hts)
    cases hs2 : sExpr table k { st with toks := ts } with
    | none => trivial
    | some res2 =>
      cases res2 with
      | error e => rw [hs2] at h2; exact h2
      | ok v2 =>
        obtain ⟨r2, st2⟩ := v2
        rw [hs2] at h2
        simp only
        split
        · rename_i ts' hts'
          exact StOk.tail h2 hts'
        · trivial
  · rename_i t ts _ hts
    split
    · rename_i hw
      have := sName_cause table all t st.inline (h.1 t (by rw [hts]; simp)) hw h.2
      cases hn : sName table t st.inline with
      | error e => rw [hn] at this; exact this
      | ok v =>
        obtain ⟨r, inl⟩ := v
        rw [hn] at this
        exact ⟨fun x hx => h.1 x (by rw [hts]; exact List.mem_cons_of_mem _ hx), this⟩
    · trivial

theorem cause_inv (table : List NameInfo) (all : List String) : ∀ k, CauseInv table all k := by
  intro k
  induction k with
  | zero =>
    refine ⟨fun st _ => ?_, fun st _ => ?_, fun st _ => ?_, fun st _ => ?_⟩
    · rw [sExpr]; trivial
    · rw [sSeq]; trivial
    · rw [sSub]; trivial
    · rw [sAtom]; trivial
  | succ k ih => exact ⟨cause_expr ih, cause_seq ih, cause_sub ih, cause_atom ih⟩

/-- **what the reasons mean**: if the specification refuses an expression for an unknown name, some word of it is
    neither a node type nor a group with members; if it refuses it for mixing, two of its words stand for node types
    of which one is inline and one is not -/
theorem specParse_cause (table : List NameInfo) (s : String) (e : PErr) (h : specParse table s = .error e) :
    ErrCause table (tokenize s) e := by
  unfold specParse at h
  simp only at h
  split at h
  · cases h
  · have hinv := (cause_inv table (tokenize s) (4 * (tokenize s).length + 4)).1 { toks := tokenize s }
      ⟨fun t ht => ht, fun b hb => by cases hb⟩
    split at h
    · split at h
      · cases h
      · cases h; trivial
    · rename_i e' he
      cases h
      rw [he] at hinv
      exact hinv
    · cases h; trivial

end PM.SpecParse
