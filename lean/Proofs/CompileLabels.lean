/-
  Proofs/CompileLabels.lean — the labels of a compiled automaton are node types the expression names
  (`Expr.names`), no state has two edges with one label, and both survive the breadth-first renumbering;
  every state of the renumbered automaton is reachable.
-/
import PM.Compile
import Proofs.Compile
import Proofs.CompileNfa
import Proofs.CompileDfa
import Proofs.CompileMain
import Proofs.CompileDead
namespace PM
set_option linter.unusedSimpArgs false

mutual
/-- the node types an expression names -/
def Expr.names : Expr → List Nat
  | .choice es => Expr.namesL es
  | .seq es => Expr.namesL es
  | .plus e => e.names
  | .star e => e.names
  | .opt e => e.names
  | .range _ _ e => e.names
  | .name t => [t]
def Expr.namesL : List Expr → List Nat
  | [] => []
  | e :: es => e.names ++ Expr.namesL es
end

theorem mem_map_fill_term {F : List NEdge} {x : Nat} {P : Nat → Prop}
    (h : ∀ ed, ed ∈ F → ∀ t, ed.term = some t → P t) :
    ∀ ed, ed ∈ F.map (fill x) → ∀ t, ed.term = some t → P t := by
  intro ed hed t ht
  obtain ⟨ed', hed', rfl⟩ := List.mem_map.1 hed
  exact h ed' hed' t ht

theorem fragMand_terms (g : Nat → Nat → List NEdge) (c : Nat) (P : Nat → Prop)
    (hg : ∀ f b ed, ed ∈ g f b → ∀ t, ed.term = some t → P t) :
    ∀ (n cur base : Nat) ed, ed ∈ fragMand g c n cur base → ∀ t, ed.term = some t → P t := by
  intro n
  induction n with
  | zero => intro cur base ed hed; simp [fragMand] at hed
  | succ n ih =>
    intro cur base ed hed t ht
    simp only [fragMand, List.mem_append] at hed
    rcases hed with hed | hed
    · exact mem_map_fill_term (hg cur (base + 1)) ed hed t ht
    · exact ih _ _ ed hed t ht

theorem fragOpt_terms (g : Nat → Nat → List NEdge) (c : Nat) (P : Nat → Prop)
    (hg : ∀ f b ed, ed ∈ g f b → ∀ t, ed.term = some t → P t) :
    ∀ (n cur base : Nat) ed, ed ∈ fragOpt g c n cur base → ∀ t, ed.term = some t → P t := by
  intro n
  induction n with
  | zero => intro cur base ed hed; simp [fragOpt] at hed
  | succ n ih =>
    intro cur base ed hed t ht
    simp only [fragOpt, List.cons_append, List.mem_cons, List.mem_append] at hed
    rcases hed with rfl | hed | hed
    · simp at ht
    · exact mem_map_fill_term (hg cur (base + 1)) ed hed t ht
    · exact ih _ _ ed hed t ht

mutual
theorem frag_terms : ∀ (e : Expr) (f b : Nat) (ed : NEdge), ed ∈ frag e f b → ∀ t, ed.term = some t → t ∈ e.names
  | .choice es, f, b, ed, hed, t, ht => by
    simp only [frag] at hed
    simp only [Expr.names]
    exact fragChoice_terms es f b ed hed t ht
  | .seq es, f, b, ed, hed, t, ht => by
    simp only [frag] at hed
    simp only [Expr.names]
    exact fragSeq_terms es f b ed hed t ht
  | .star e, f, b, ed, hed, t, ht => by
    simp only [frag, List.cons_append, List.mem_cons, List.mem_append, List.mem_singleton, List.not_mem_nil,
      or_false] at hed
    simp only [Expr.names]
    rcases hed with rfl | hed | rfl
    · simp at ht
    · exact mem_map_fill_term (frag_terms e b (b + 1)) ed hed t ht
    · simp at ht
  | .plus e, f, b, ed, hed, t, ht => by
    simp only [frag, List.mem_append, List.mem_singleton] at hed
    simp only [Expr.names]
    rcases hed with (hed | hed) | rfl
    · exact mem_map_fill_term (frag_terms e f (b + 1)) ed hed t ht
    · exact mem_map_fill_term (frag_terms e b (b + 1 + cnt e)) ed hed t ht
    · simp at ht
  | .opt e, f, b, ed, hed, t, ht => by
    simp only [frag, List.mem_cons] at hed
    simp only [Expr.names]
    rcases hed with rfl | hed
    · simp at ht
    · exact frag_terms e f b ed hed t ht
  | .range mn mx e, f, b, ed, hed, t, ht => by
    simp only [Expr.names]
    have hg : ∀ f b ed, ed ∈ frag e f b → ∀ t, ed.term = some t → t ∈ e.names := fun f b => frag_terms e f b
    simp only [frag, List.mem_append] at hed
    rcases hed with hed | hed
    · exact fragMand_terms (frag e) (cnt e) _ hg _ _ _ ed hed t ht
    · cases mx with
      | none =>
        simp only at hed
        split at hed
        · simp only [List.cons_append, List.mem_cons, List.mem_append, List.mem_singleton, List.not_mem_nil,
            or_false] at hed
          rcases hed with rfl | hed | rfl
          · simp at ht
          · exact mem_map_fill_term (hg _ _) ed hed t ht
          · simp at ht
        · simp only [List.mem_append, List.mem_singleton] at hed
          rcases hed with hed | rfl
          · exact mem_map_fill_term (hg _ _) ed hed t ht
          · simp at ht
      | some m =>
        simp only [List.mem_append, List.mem_singleton] at hed
        rcases hed with hed | rfl
        · exact fragOpt_terms (frag e) (cnt e) _ hg _ _ _ ed hed t ht
        · simp at ht
  | .name t', f, b, ed, hed, t, ht => by
    simp only [frag, List.mem_singleton] at hed
    subst hed
    simp only [Option.some.injEq] at ht
    simp [Expr.names, ht]
theorem fragChoice_terms : ∀ (es : List Expr) (f b : Nat) (ed : NEdge), ed ∈ fragChoice es f b →
    ∀ t, ed.term = some t → t ∈ Expr.namesL es
  | [], _, _, ed, hed, _, _ => by simp [fragChoice] at hed
  | e :: es, f, b, ed, hed, t, ht => by
    simp only [fragChoice, List.mem_append] at hed
    simp only [Expr.namesL, List.mem_append]
    rcases hed with hed | hed
    · exact Or.inl (frag_terms e f b ed hed t ht)
    · exact Or.inr (fragChoice_terms es f _ ed hed t ht)
theorem fragSeq_terms : ∀ (es : List Expr) (f b : Nat) (ed : NEdge), ed ∈ fragSeq es f b →
    ∀ t, ed.term = some t → t ∈ Expr.namesL es
  | [], _, _, ed, hed, _, _ => by simp [fragSeq] at hed
  | [e], f, b, ed, hed, t, ht => by
    simp only [fragSeq] at hed
    simp only [Expr.namesL, List.append_nil]
    exact frag_terms e f b ed hed t ht
  | e :: e' :: es, f, b, ed, hed, t, ht => by
    simp only [fragSeq, List.mem_append] at hed
    rw [Expr.namesL, List.mem_append]
    rcases hed with hed | hed
    · exact Or.inl (mem_map_fill_term (frag_terms e f b) ed hed t ht)
    · exact Or.inr (fragSeq_terms (e' :: es) _ _ ed hed t ht)
end

/-- every labelled edge of the finished NFA carries a node type the expression names -/
theorem nfa_terms (e : Expr) (h : e.wf = true) (n : Nat) (ed : NfaEdge) (hed : ed ∈ (nfa e).getD n [])
    (t : Nat) (ht : ed.1 = some t) : t ∈ e.names := by
  have hcl := nfaState_closed e h
  have : (ed.1, ed.2) ∈ (nfaState e).toNfa.getD n [] := hed
  obtain ⟨ed', hmem, _, hterm, _⟩ := (mem_toNfa _ hcl n ed.1 ed.2).1 this
  rw [nfaState_edges] at hmem
  exact mem_map_fill_term (frag_terms e 0 1) ed' hmem t (by rw [hterm, ht])

/-- **labels**: every edge of the compiled automaton is labelled with a node type the expression names -/
theorem compile_labels (e : Expr) (h : e.wf = true) (q : Nat) (x : TypeId × Nat)
    (hx : x ∈ (dfa (nfa e)).edgesOf q) : x.1 ∈ e.names := by
  obtain ⟨n, ed, hed, hterm⟩ := dfa_label (nfa e) (toNfa_wf _ (nfaState_closed e h)) q x hx
  exact nfa_terms e h n ed hed x.1 hterm

/-- **determinism**: no state of the compiled automaton has two edges with the same label -/
theorem compile_det (e : Expr) (h : e.wf = true) (q : Nat) : (((dfa (nfa e)).edgesOf q).map (·.1)).Nodup :=
  dfa_det (nfa e) (toNfa_wf _ (nfaState_closed e h)) q

/-! ### the renumbered automaton -/

theorem bfs_size (d : Dfa) : d.bfs.size = d.bfsOrder.length := by
  simp [Dfa.bfs]

theorem bfs_edgesOf (d : Dfa) (i : Nat) :
    d.bfs.edgesOf i = match d.bfsOrder[i]? with
      | some q => (d.edgesOf q).map (fun e => (e.1, d.bfsOrder.idxOf e.2))
      | none => [] := by
  cases hq : d.bfsOrder[i]? with
  | some q => simp only; rw [Dfa.edgesOf, bfs_getElem d i q hq]
  | none =>
    simp only
    unfold Dfa.edgesOf
    have : d.bfs[i]? = none := by
      rw [Array.getElem?_eq_none_iff, bfs_size]
      exact List.getElem?_eq_none_iff.1 hq
    rw [this]

/-- the renumbered automaton is well formed -/
theorem bfs_wf (d : Dfa) (hd : d.WF) : d.bfs.WF := by
  obtain ⟨_, hhead, hreach⟩ := bfsOrder_spec d hd
  refine ⟨?_, ?_⟩
  · rw [bfs_size]
    cases hl : d.bfsOrder with
    | nil => rw [hl] at hhead; simp at hhead
    | cons a l => simp
  · intro i x hx
    rw [bfs_edgesOf] at hx
    cases hq : d.bfsOrder[i]? with
    | none => rw [hq] at hx; simp at hx
    | some q =>
      rw [hq] at hx
      simp only at hx
      obtain ⟨e, he, rfl⟩ := List.mem_map.1 hx
      simp only
      rw [bfs_size]
      apply List.idxOf_lt_length_iff.2
      have hrq : Dfa.Reach d q := (hreach q).1 (List.mem_of_getElem? hq)
      exact (hreach e.2).2 (.step hrq he)

/-- labels and their multiplicity are those of the original state -/
theorem bfs_labels (d : Dfa) (i : Nat) :
    (d.bfs.edgesOf i).map (·.1) = match d.bfsOrder[i]? with
      | some q => (d.edgesOf q).map (·.1)
      | none => [] := by
  rw [bfs_edgesOf]
  cases d.bfsOrder[i]? with
  | none => rfl
  | some q => simp only [List.map_map]; rfl

/-- every state of the renumbered automaton is reachable from its start state -/
theorem bfs_all_reach (d : Dfa) (hd : d.WF) (i : Nat) (hi : i < d.bfs.size) : Dfa.Reach d.bfs i := by
  obtain ⟨_, hhead, hreach⟩ := bfsOrder_spec d hd
  have h0 : d.bfsOrder.idxOf 0 = 0 := by
    cases hl : d.bfsOrder with
    | nil => rw [hl] at hhead; simp at hhead
    | cons a l => rw [hl] at hhead; simp at hhead; subst hhead; simp
  have key : ∀ q, Dfa.Reach d q → Dfa.Reach d.bfs (d.bfsOrder.idxOf q) := by
    intro q hq
    induction hq with
    | start => rw [h0]; exact .start
    | @step q e hq he ih =>
      have hmem : (e.1, d.bfsOrder.idxOf e.2) ∈ d.bfs.edgesOf (d.bfsOrder.idxOf q) := by
        rw [bfs_edgesOf, idxOf_getElem? ((hreach q).2 hq)]
        exact List.mem_map.2 ⟨e, he, rfl⟩
      exact Dfa.Reach.step ih hmem
  rw [bfs_size] at hi
  have hq : d.bfsOrder[i]? = some d.bfsOrder[i] := List.getElem?_eq_getElem hi
  have := key d.bfsOrder[i] ((hreach _).1 (List.getElem_mem hi))
  have hnd := (bfsOrder_spec d hd).1
  rwa [List.Nodup.idxOf_getElem hnd] at this

end PM
