/-
  Proofs/ContentBetween.lean — when the structure flag's guard lets a range pass (C12).

  `content_between(doc, from, to)` climbs out of the nodes that end at `from` and then descends into first
  children; it answers "no content" exactly when the tokens of the range are close tokens followed by open
  tokens (`closesOpens`).  Proofs/Respects.lean has "no ⇒ open/close tokens only"
  (`contentBetween_structural'`); here is the direction the success theorems need:
  `contentBetween_closesOpens`.  (Open/close tokens alone are not enough: over the two tokens of an empty
  node, `<p></p>`, the code answers "content".)
-/
import Proofs.Respects
import Proofs.Structure2
import Proofs.Reinsert
namespace PM

def Tok.isOp : Tok → Bool
  | .op .. => true
  | _ => false

/-- close tokens, then open tokens -/
def closesOpens : List Tok → Bool
  | [] => true
  | .cl :: r => closesOpens r
  | .op _ _ _ :: r => r.all Tok.isOp
  | _ => false

theorem closesOpens_of_ops : ∀ (l : List Tok), l.all Tok.isOp = true → closesOpens l = true
  | [], _ => rfl
  | x :: r, h => by
    simp only [List.all_cons, Bool.and_eq_true] at h
    cases x with
    | op t a m => simp only [closesOpens]; exact h.2
    | cl => simp [Tok.isOp] at h
    | leaf t a m => simp [Tok.isOp] at h
    | unit c m => simp [Tok.isOp] at h

theorem closesOpens_drop : ∀ (l : List Tok) (j : Nat), closesOpens l = true → closesOpens (l.drop j) = true
  | l, 0, h => by simpa using h
  | [], j + 1, _ => by simp [closesOpens]
  | x :: r, j + 1, h => by
    rw [List.drop_succ_cons]
    cases x with
    | cl => exact closesOpens_drop r j (by simpa [closesOpens] using h)
    | op t a m =>
      simp only [closesOpens] at h
      apply closesOpens_of_ops
      simp only [List.all_eq_true] at h ⊢
      exact fun y hy => h y (List.mem_of_mem_drop hy)
    | leaf t a m => simp [closesOpens] at h
    | unit c m => simp [closesOpens] at h

theorem closesOpens_head_not_cl {x : Tok} {r : List Tok} (h : closesOpens (x :: r) = true) (hx : x ≠ Tok.cl) :
    (x :: r).all Tok.isOp = true := by
  cases x with
  | cl => exact absurd rfl hx
  | op t a m => simpa [closesOpens, Tok.isOp] using h
  | leaf t a m => simp [closesOpens] at h
  | unit c m => simp [closesOpens] at h

/-- the first token of a normal-form node is not a close token (in particular there is one) -/
theorem Node.toks_head_norm (n : Node) (hn : n.norm = true) :
    ∃ x rest, n.toks = x :: rest ∧ x ≠ Tok.cl ∧ (x.isOp = true → ∃ t a m k, n = .elem t a m k) := by
  cases n with
  | text s m =>
    cases s with
    | nil => simp at hn
    | cons c s' =>
      exact ⟨Tok.unit c m, s'.map (Tok.unit · m), by simp [Node.toks], by simp, by simp [Tok.isOp]⟩
  | leaf t a m => exact ⟨Tok.leaf t a m, [], by simp [Node.toks], by simp, by simp [Tok.isOp]⟩
  | elem t a m k =>
    exact ⟨Tok.op t a m, ftoks k ++ [Tok.cl], by simp [Node.toks], by simp, fun _ => ⟨t, a, m, k, rfl⟩⟩

/-- `descend` over open tokens finds no content -/
theorem descend_ops : ∀ (dist : Nat) (next : Option Node) (X : List Tok),
    (X.take dist).all Tok.isOp = true →
    (∀ n, next = some n → n.norm = true ∧ ∃ Y, X = n.toks ++ Y) →
    (next = none → X.head? = some Tok.cl) →
    contentBetween.descend dist next = false
  | 0, _, _, _, _, _ => by simp [contentBetween.descend]
  | dist + 1, none, X, h, _, hnone => by
    exfalso
    have := hnone rfl
    cases X with
    | nil => simp at this
    | cons x r =>
      simp only [List.head?_cons, Option.some.injEq] at this
      subst this
      simp [Tok.isOp] at h
  | dist + 1, some n, X, h, hsome, _ => by
    obtain ⟨hn, Y, rfl⟩ := hsome n rfl
    obtain ⟨x, rest, e, _, hop⟩ := n.toks_head_norm hn
    rw [e] at h
    simp only [List.cons_append, List.take_succ_cons, List.all_cons, Bool.and_eq_true] at h
    obtain ⟨t, a, m, k, rfl⟩ := hop h.1
    simp only [contentBetween.descend, Node.isLeaf, Bool.false_eq_true, if_false, Node.kids]
    simp only [Node.toks, List.cons.injEq] at e
    obtain ⟨_, rfl⟩ := e
    rw [Node.norm_elem] at hn
    refine descend_ops dist k.head? ((ftoks k ++ [Tok.cl]) ++ Y) h.2 ?_ ?_
    · intro c hc
      cases k with
      | nil => simp at hc
      | cons c' cs =>
        simp only [List.head?_cons, Option.some.injEq] at hc; subst hc
        exact ⟨(fnorm_cons hn).1, ftoks cs ++ [Tok.cl] ++ Y, by simp [ftoks]⟩
    · intro hk
      cases k with
      | nil => simp
      | cons c' cs => simp at hk

/-- `climb` stops only where it has to: the distance is used up, the top is reached, or the position is not
    at the end of the node -/
theorem climb_stop (r : RPos) : ∀ (fuel depth dist : Nat), depth < fuel →
    ¬ ((contentBetween.climb r fuel depth dist).2 > 0 ∧ (contentBetween.climb r fuel depth dist).1 > 0 ∧
      r.indexAfter (contentBetween.climb r fuel depth dist).1
        = (r.node (contentBetween.climb r fuel depth dist).1).kids.length)
  | 0, depth, dist, h => by omega
  | fuel + 1, depth, dist, h => by
    unfold contentBetween.climb
    split
    · rename_i hc
      simp only [Bool.and_eq_true, decide_eq_true_eq, beq_iff_eq, gt_iff_lt] at hc
      exact climb_stop r fuel (depth - 1) (dist - 1) (by omega)
    · rename_i hc
      simp only [Bool.and_eq_true, decide_eq_true_eq, beq_iff_eq, gt_iff_lt] at hc
      exact fun hx => hc ⟨⟨hx.1, hx.2.1⟩, hx.2.2⟩

/-- the child lists along a resolved path of a normal-form document are in normal form -/
theorem path_fnorm {doc : Node} {pos : Nat} {r : RPos} (R : Resolved doc pos r) (hn : fnorm doc.kids = true) :
    ∀ k, k ≤ r.depth → fnorm (r.node k).kids = true
  | 0, _ => by rw [R.node_zero]; exact hn
  | k + 1, hk => by
    have ih := path_fnorm R hn k (by omega)
    have hc := (R.chain k (by omega)).1
    have hm := List.mem_of_getElem? hc
    have : (r.node (k + 1)).norm = true := by
      have := fnormKids_of_fnorm ih
      exact (fnormKids_iff _).mp this _ hm
    cases hnode : r.node (k + 1) with
    | text s m => simp [Node.kids, fnorm, chainOk]
    | leaf t a m => simp [Node.kids, fnorm, chainOk]
    | elem t a m kk =>
      rw [hnode, Node.norm_elem] at this
      exact this

/-- **the structure guard passes a closes-then-opens range** of a normal-form document -/
theorem contentBetween_closesOpens (doc : Node) (f t : Nat) (hn : fnorm doc.kids = true)
    (hft : f ≤ t) (ht : t ≤ fsize doc.kids)
    (hco : closesOpens (((ftoks doc.kids).drop f).take (t - f)) = true) :
    contentBetween doc f t = some false := by
  obtain ⟨r, hr⟩ := resolve_isSome doc f (by omega)
  have R := resolve_resolved hr
  by_cases hemp : t - f = 0
  · have : t = f := by omega
    subst this
    unfold contentBetween
    simp only [hr, Nat.sub_self]
    simp [contentBetween.climb]
  -- not inside a text node: the first token of the range would be a text unit
  have hb : r.textOffset = 0 := by
    apply Classical.byContradiction
    intro ho
    obtain ⟨s, m, hc, hlt⟩ := R.in_text ho
    have hw := window_child _ _ _ _ _ (R.window_kids r.depth (Nat.le_refl _)) hc
    have he := (R.entry r.depth (Nat.le_refl _)).pos_eq
    have hple := (R.entry r.depth (Nat.le_refl _)).pos_le
    change (r.entry r.depth).pos = r.start r.depth + fsize ((r.node r.depth).kids.take (r.index r.depth)) at he
    rw [← he] at hw
    have hto : r.textOffset = f - (r.entry r.depth).pos := by unfold RPos.textOffset; rw [R.pos_eq]
    have hg := getElem?_of_window _ _ _ _ hw r.textOffset (by simpa [Node.toks] using hlt)
    rw [show (r.entry r.depth).pos + r.textOffset = f by omega] at hg
    simp only [Node.toks, List.getElem?_map, List.getElem?_eq_getElem hlt, Option.map_some] at hg
    have h0 : (((ftoks doc.kids).drop f).take (t - f))[0]? = some (Tok.unit s[r.textOffset] m) := by
      rw [List.getElem?_take_of_lt (by omega), List.getElem?_drop]; simpa using hg
    cases hT : ((ftoks doc.kids).drop f).take (t - f) with
    | nil => rw [hT] at h0; simp at h0
    | cons x rest =>
      rw [hT] at h0 hco
      simp only [List.getElem?_cons_zero, Option.some.injEq] at h0
      subst h0
      simp [closesOpens] at hco
  unfold contentBetween
  simp only [hr]
  have hcond : (decide (t - f > 0) && r.textOffset != 0) = false := by simp [hb]
  rw [hcond]
  simp only [Bool.false_eq_true, if_false]
  have I := climb_inv doc f t r hr (r.depth + 1) r.depth (t - f) (climbInv_init doc f t r hft R hb)
  have hstop := climb_stop r (r.depth + 1) r.depth (t - f) (by omega)
  generalize hc : contentBetween.climb r (r.depth + 1) r.depth (t - f) = cd at I hstop
  obtain ⟨d', dist'⟩ := cd
  simp only at I hstop ⊢
  by_cases hd0 : dist' > 0
  · rw [if_pos hd0]
    congr 1
    have hle := I.le
    -- the rest of the range
    have hrest : closesOpens (((ftoks doc.kids).drop (t - dist')).take dist') = true := by
      have := closesOpens_drop _ (t - dist' - f) hco
      rwa [List.drop_take, List.drop_drop, show f + (t - dist' - f) = t - dist' by omega,
        show t - f - (t - dist' - f) = dist' by omega] at this
    have hia := R.indexAfter_le d' I.hd
    cases hnext : (r.node d').kids[r.indexAfter d']? with
    | none =>
      exfalso
      have hlen : r.indexAfter d' = (r.node d').kids.length := by
        have := List.getElem?_eq_none_iff.mp hnext
        omega
      have hd' : d' = 0 := by
        apply Classical.byContradiction
        intro hne
        exact hstop ⟨hd0, by omega, hlen⟩
      subst hd'
      have hat := I.at_
      rw [hlen, List.take_length, R.node_zero] at hat
      simp only [RPos.start, if_true] at hat
      omega
    | some n =>
      have hw := window_child _ _ _ _ _ (R.window_kids d' I.hd) hnext
      rw [← I.at_] at hw
      have hnn : n.norm = true :=
        (fnormKids_iff _).mp (fnormKids_of_fnorm (path_fnorm R hn d' I.hd)) _ (List.mem_of_getElem? hnext)
      have hX : (ftoks doc.kids).drop (t - dist') = n.toks ++ ((ftoks doc.kids).drop (t - dist')).drop n.size := by
        rw [← hw, List.take_append_drop]
      obtain ⟨x, rest, e, hxcl, _⟩ := n.toks_head_norm hnn
      have hops : (((ftoks doc.kids).drop (t - dist')).take dist').all Tok.isOp = true := by
        obtain ⟨k, rfl⟩ : ∃ k, dist' = k + 1 := ⟨dist' - 1, by omega⟩
        rw [hX, e] at hrest ⊢
        simp only [List.cons_append, List.take_succ_cons] at hrest ⊢
        exact closesOpens_head_not_cl hrest hxcl
      exact descend_ops dist' (some n) _ hops
        (fun n' hn' => by
          simp only [Option.some.injEq] at hn'; subst hn'
          exact ⟨hnn, _, hX⟩)
        (fun h => by simp at h)
  · rw [if_neg hd0]

end PM
