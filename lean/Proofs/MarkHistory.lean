/-
  Proofs/MarkHistory.lean — histories made of `add_mark` / `remove_mark` operations (C04, work package
  `wk-histundo`): the recorded steps, paired with their documents, are the concatenation of the
  planners' step lists; every recorded step satisfies the guard of its naive inverse
  (Proofs/MarkPlanUndo.lean, Proofs/MarkPlanUndoAdd.lean); so the history is undone exactly.
-/
import Proofs.MarkPlanUndoAdd
namespace PM
open MarkGuard

/-- an `add_mark` / `remove_mark` call -/
inductive MarkOp where
  | add (f t : Nat) (m : Mark)
  | remove (f t : Nat) (sel : MarkSel)

def Tr.markOp (S : Schema) (tr : Tr) : MarkOp → Res Tr
  | .add f t m => tr.addMark S f t m
  | .remove f t sel => tr.removeMark S f t sel

/-- a history of mark operations, each of which went through -/
def Tr.markOps (S : Schema) : Tr → List MarkOp → Res Tr
  | tr, [] => .ok tr
  | tr, op :: ops =>
    match tr.markOp S op with
    | .ok tr' => tr'.markOps S ops
    | .error e => .error e

/-- the recorded steps paired with the recorded documents -/
def Tr.hist (tr : Tr) : List (Step × Node) := tr.steps.zip tr.docs

/-- the guard of finding C04-same-type-mark-order, per recorded step: no inline node in the range of
    a `RemoveMarkStep` carries two or more marks of the step's mark type -/
def Step.sameTypeGuard (S : Schema) (s : Step) (d : Node) : Prop :=
  match s with
  | .removeMark a b x => sameTypeFree S d a b x.ty = true
  | _ => True

/-- what the planners guarantee of an emitted step applied to `d` -/
def PlanGuard (S : Schema) (s : Step) (d : Node) (_d' : Node) : Prop :=
  (∃ a b x, s = .removeMark a b x ∧ (sameTypeFree S d a b x.ty = true → removeMarkUndoable S d a b x = true)) ∨
  (∃ a b m, s = .addMark a b m ∧ addMarkUndoable S d a b m = true)

/-- the guard under which a recorded range mark step is undone exactly -/
def MarkUndoGuard (S : Schema) (s : Step) (d d' : Node) : Prop :=
  match s with
  | .removeMark a b x =>
    removeMarkUndoable S d a b x = true ∧ alignedAt d'.kids a = true ∧ alignedAt d'.kids b = true
  | .addMark a b m =>
    addMarkUndoable S d a b m = true ∧ alignedAt d'.kids a = true ∧ alignedAt d'.kids b = true
  | _ => False

/-- valid, in normal form, no inline node with content -/
def MarkInv (S : Schema) (d : Node) : Prop :=
  S.checkNode d = true ∧ fnorm d.kids = true ∧ flatInline S d = true

theorem flatInline_of_pt (S : Schema) (doc doc' : Node) (g : Nat → TypeId → Tok → Tok)
    (hg : ∀ i p tok, (g i p tok).shape = tok.shape) (hp : MarkStepPt S doc doc' g)
    (h : flatInline S doc = true) : flatInline S doc' = true := by
  rw [flatInline_iff] at h ⊢
  intro ty a m hm
  obtain ⟨i, hi, hget⟩ := List.getElem_of_mem hm
  have hi' : i < (ftoks doc.kids).length := by rw [← hp.len]; exact hi
  have htd : tokD doc' i = Tok.op ty a m := by
    unfold tokD; rw [List.getD_eq_getElem?_getD, List.getElem?_eq_getElem hi, hget]; rfl
  have hsh : (tokD doc i).shape = Shape.op ty := by
    have := hp.tok i hi'
    rw [htd] at this
    rw [← hg i (ctxD S doc i) (tokD doc i), ← this]; rfl
  have hmem : tokD doc i ∈ ftoks doc.kids := by
    unfold tokD; rw [List.getD_eq_getElem?_getD, List.getElem?_eq_getElem hi']
    exact List.getElem_mem hi'
  cases htk : tokD doc i with
  | op ty' a' m' =>
    rw [htk] at hsh hmem
    simp only [Tok.shape, Shape.op.injEq] at hsh
    subst hsh
    exact h _ _ _ hmem
  | cl => rw [htk] at hsh; simp [Tok.shape] at hsh
  | leaf _ _ _ => rw [htk] at hsh; simp [Tok.shape] at hsh
  | unit _ _ => rw [htk] at hsh; simp [Tok.shape] at hsh

/-- a range mark step keeps validity, normal form and flatness -/
theorem markInv_step (S : Schema) (hts : TextLoop S) (s : Step) (d d' : Node)
    (hs : (∃ a b x, s = .removeMark a b x) ∨ (∃ a b m, s = .addMark a b m))
    (hI : MarkInv S d) (h : S.apply s d = .ok d') : MarkInv S d' := by
  obtain ⟨hv, hn, hf⟩ := hI
  rcases hs with ⟨a, b, x, rfl⟩ | ⟨a, b, m, rfl⟩
  · have k := removeMark_keepsAll S d d' a b x h
    exact ⟨k.valid hts.stable hv, k.norm hn,
      flatInline_of_pt S d d' _ (rmG_shape S x a b) (removeMark_pt S d d' a b x h) hf⟩
  · have k := addMark_keepsAll S d d' a b m h
    exact ⟨k.valid hts.stable hv, k.norm hn,
      flatInline_of_pt S d d' _ (addG_shape S m a b) (addMark_pt S d d' a b m h) hf⟩

theorem planGuard_isMark (S : Schema) (s : Step) (d d' : Node) (h : PlanGuard S s d d') :
    (∃ a b x, s = .removeMark a b x) ∨ (∃ a b m, s = .addMark a b m) := by
  rcases h with ⟨a, b, x, e, _⟩ | ⟨a, b, m, e, _⟩
  · exact .inl ⟨a, b, x, e⟩
  · exact .inr ⟨a, b, m, e⟩

theorem markInv_along (S : Schema) (hts : TextLoop S) : ∀ (hist : List (Step × Node)) (fin : Node),
    MarkInv S (histNext hist fin) → ReplayChain S hist fin → HistAll (PlanGuard S) hist fin → MarkInv S fin
  | [], _, hI, _, _ => hI
  | (s, d) :: rest, fin, hI, ⟨ha, hr⟩, ⟨hg, hG⟩ =>
    markInv_along S hts rest fin (markInv_step S hts s d _ (planGuard_isMark S s d _ hg) hI ha) hr hG

/-- **one recorded mark step is undone exactly under its guard** (and the invariant is kept) -/
theorem markStep_undoes (S : Schema) (hts : TextLoop S) (s : Step) (d d' : Node)
    (hI : MarkInv S d) (h : S.apply s d = .ok d') (hg : MarkUndoGuard S s d d') :
    StepUndoes S s d d' ∧ MarkInv S d' := by
  cases s with
  | removeMark a b x =>
    exact ⟨removeMark_stepUndoes S hts d d' a b x hI.1 hI.2.1 h hg.1 hg.2,
      markInv_step S hts _ d d' (.inl ⟨a, b, x, rfl⟩) hI h⟩
  | addMark a b m =>
    exact ⟨addMark_stepUndoes S hts d d' a b m hI.1 hI.2.1 h hg.1 hg.2,
      markInv_step S hts _ d d' (.inr ⟨a, b, m, rfl⟩) hI h⟩
  | replace => exact hg.elim
  | replaceAround => exact hg.elim
  | addNodeMark => exact hg.elim
  | removeNodeMark => exact hg.elim
  | attr => exact hg.elim
  | docAttr => exact hg.elim

/-! ### the recorded lists after `Tr.stepAll` -/

theorem Tr.stepAll_hist (S : Schema) : ∀ (sts : List Step) (tr tr' : Tr),
    tr.steps.length = tr.docs.length → tr.stepAll S sts = .ok tr' →
    tr'.hist = tr.hist ++ S.stepsHist sts tr.doc ∧ tr'.steps.length = tr'.docs.length ∧
      S.applyAll sts tr.doc = .ok tr'.doc
  | [], tr, tr', _, h => by
    simp only [Tr.stepAll, Except.ok.injEq] at h
    subst h
    simp [Schema.stepsHist, Schema.applyAll, *]
  | s :: ss, tr, tr', hlen, h => by
    simp only [Tr.stepAll, Tr.step] at h
    cases ha : S.apply s tr.doc with
    | error e => rw [ha] at h; simp at h
    | ok d =>
      rw [ha] at h
      simp only at h
      obtain ⟨h1, h2, h3⟩ := Tr.stepAll_hist S ss (tr.addStep s d) tr'
        (by simp [Tr.addStep, hlen]) h
      refine ⟨?_, h2, by simp only [Schema.applyAll, ha]; exact h3⟩
      rw [h1]
      simp only [Tr.hist, Tr.addStep, Schema.stepsHist, ha]
      rw [List.zip_append hlen]
      simp

/-- one mark operation: what it appends to the history -/
theorem Tr.markOp_hist (S : Schema) (tr tr' : Tr) (op : MarkOp)
    (hlen : tr.steps.length = tr.docs.length) (hv : S.checkNode tr.doc = true)
    (hflat : flatInline S tr.doc = true) (h : tr.markOp S op = .ok tr') :
    ∃ h2, tr'.hist = tr.hist ++ h2 ∧ tr'.steps.length = tr'.docs.length ∧
      histNext h2 tr'.doc = tr.doc ∧ ReplayChain S h2 tr'.doc ∧ HistAll (PlanGuard S) h2 tr'.doc := by
  cases op with
  | add f t m =>
    simp only [Tr.markOp, Tr.addMark, planAddMark] at h
    split at h
    · rename_i sts hsts
      split at hsts
      · simp at hsts
      · simp only [Except.ok.injEq] at hsts
        subst hsts
        obtain ⟨h1, h2, h3⟩ := Tr.stepAll_hist S _ tr tr' hlen h
        obtain ⟨g1, g2, _⟩ := stepsHist_spec S _ tr.doc tr'.doc h3
        refine ⟨_, h1, h2, g1, g2, ?_⟩
        refine histAll_stepsHist S _ _ [] tr.doc tr.doc tr'.doc rfl h3 (fun k hk d d' hd _ => ?_)
        simp only [List.nil_append] at hd
        rcases planAddMark_steps_guard S tr.doc f t m hv hflat k hk d hd with
          ⟨a, b, x, e, _, _, hg⟩ | ⟨a, b, e, _, _, hg⟩
        · exact .inl ⟨a, b, x, e, hg⟩
        · exact .inr ⟨a, b, m, e, hg⟩
    · simp at h
  | remove f t sel =>
    simp only [Tr.markOp, Tr.removeMark, planRemoveMark] at h
    split at h
    · rename_i sts hsts
      split at hsts
      · simp at hsts
      · simp only [Except.ok.injEq] at hsts
        subst hsts
        obtain ⟨h1, h2, h3⟩ := Tr.stepAll_hist S _ tr tr' hlen h
        obtain ⟨g1, g2, _⟩ := stepsHist_spec S _ tr.doc tr'.doc h3
        refine ⟨_, h1, h2, g1, g2, ?_⟩
        refine histAll_stepsHist S _ _ [] tr.doc tr.doc tr'.doc rfl h3 (fun k hk d d' hd _ => ?_)
        simp only [List.nil_append] at hd
        obtain ⟨a, b, x, e, _, _, hg⟩ := planRemoveMark_steps_guard S tr.doc f t sel hv hflat k hk d hd
        exact .inl ⟨a, b, x, e, hg⟩
    · simp at h

/-- a history of mark operations: what it appends -/
theorem Tr.markOps_hist (S : Schema) (hts : TextLoop S) : ∀ (ops : List MarkOp) (tr tr' : Tr),
    tr.steps.length = tr.docs.length → MarkInv S tr.doc → tr.markOps S ops = .ok tr' →
    ∃ h2, tr'.hist = tr.hist ++ h2 ∧ tr'.steps.length = tr'.docs.length ∧
      histNext h2 tr'.doc = tr.doc ∧ ReplayChain S h2 tr'.doc ∧ HistAll (PlanGuard S) h2 tr'.doc
  | [], tr, tr', hlen, _, h => by
    simp only [Tr.markOps, Except.ok.injEq] at h
    subst h
    exact ⟨[], by simp, hlen, rfl, trivial, trivial⟩
  | op :: ops, tr, tr', hlen, hI, h => by
    simp only [Tr.markOps] at h
    split at h
    · rename_i tr1 h1
      obtain ⟨ha, e1, l1, n1, r1, g1⟩ := Tr.markOp_hist S tr tr1 op hlen hI.1 hI.2.2 h1
      have hI1 : MarkInv S tr1.doc := markInv_along S hts ha tr1.doc (by rw [n1]; exact hI) r1 g1
      obtain ⟨hb, e2, l2, n2, r2, g2⟩ := Tr.markOps_hist S hts ops tr1 tr' l1 hI1 h
      refine ⟨ha ++ hb, by rw [e2, e1, List.append_assoc], l2, ?_, ?_, ?_⟩
      · rw [histNext_append, n2, n1]
      · exact (histAll_append _ ha hb tr'.doc).mpr ⟨by rw [n2]; exact r1, r2⟩
      · exact (histAll_append _ ha hb tr'.doc).mpr ⟨by rw [n2]; exact g1, g2⟩
    · simp at h

/-- **a history of `add_mark` / `remove_mark` operations is undone exactly** (Proofs-level form) -/
theorem markOps_undo (S : Schema) (hts : TextLoop S) (doc : Node) (ops : List MarkOp) (tr' : Tr)
    (hI : MarkInv S doc) (h : (Tr.init doc).markOps S ops = .ok tr')
    (hty : HistAll (fun s d _ => s.sameTypeGuard S d) tr'.hist tr'.doc)
    (hal : HistAll (fun s _ d' => s.undoAligned d') tr'.hist tr'.doc) :
    tr'.undo S = .ok doc := by
  obtain ⟨h2, e, _, n, r, g⟩ := Tr.markOps_hist S hts ops (Tr.init doc) tr' rfl hI h
  have e' : tr'.hist = h2 := by rw [e]; simp [Tr.hist, Tr.init]
  rw [e'] at hty hal
  have hG : HistAll (MarkUndoGuard S) h2 tr'.doc := by
    refine histAll_mono ?_ h2 tr'.doc (histAll_and h2 tr'.doc g (histAll_and h2 tr'.doc hty hal))
    rintro s d d' ⟨hp, ht, ha⟩
    rcases hp with ⟨a, b, x, rfl, hg⟩ | ⟨a, b, m, rfl, hg⟩
    · exact ⟨hg ht, ha⟩
    · exact ⟨hg, ha⟩
  have := unwind_of_invariant S (MarkInv S) (MarkUndoGuard S) (markStep_undoes S hts) h2 tr'.doc
    (by rw [n]; exact hI) r hG
  unfold Tr.undo
  show S.unwind tr'.hist tr'.doc = .ok doc
  rw [e', this, n]
  rfl

/-! ### discharging the two families of hypotheses

* the pair-alignment proviso: automatic when no text contains a high surrogate unit (text within the
  Basic Multilingual Plane) — a sufficient condition that mark steps preserve;
* the same-type guard: automatic in a schema whose mark types all exclude themselves (ProseMirror's
  default for a mark spec without `excludes`). -/

def Tok.noHigh : Tok → Bool
  | .unit c _ => !isHigh c
  | _ => true

/-- no text of the document contains a high surrogate unit -/
def bmpDoc (doc : Node) : Bool := (ftoks doc.kids).all Tok.noHigh

theorem alignedAt_of_bmp : ∀ (kids : List Node) (p : Nat), (ftoks kids).all Tok.noHigh = true →
    alignedAt kids p = true
  | [], p, _ => by unfold alignedAt; rfl
  | n :: ns, p, h => by
    rw [ftoks_cons, List.all_append, Bool.and_eq_true] at h
    rw [alignedAt_cons]
    split
    · rfl
    · split
      · exact alignedAt_of_bmp ns _ h.2
      · cases n with
        | text s m =>
          simp only
          cases p with
          | zero => rfl
          | succ k =>
            simp only [splitOk]
            split
            · rename_i a b ha _
              have hmem : Tok.unit a m ∈ (Node.text s m).toks := by
                rw [Node.toks_text]
                exact List.mem_map.mpr ⟨a, List.mem_of_getElem? ha, rfl⟩
              have := List.all_eq_true.mp h.1 _ hmem
              simp only [Tok.noHigh, Bool.not_eq_eq_eq_not, Bool.not_true] at this
              simp [this]
            · rfl
        | leaf ty a m => rfl
        | elem ty a m kids =>
          simp only
          have h1 := h.1
          rw [Node.toks_elem, List.all_cons, List.all_append, Bool.and_eq_true, Bool.and_eq_true] at h1
          exact alignedAt_of_bmp kids _ h1.2.1

theorem noHigh_shape (a b : Tok) (h : a.shape = b.shape) : a.noHigh = b.noHigh := by
  cases a <;> cases b <;> simp_all [Tok.shape, Tok.noHigh]

theorem bmp_of_pt (S : Schema) (doc doc' : Node) (g : Nat → TypeId → Tok → Tok)
    (hg : ∀ i p tok, (g i p tok).shape = tok.shape) (hp : MarkStepPt S doc doc' g)
    (h : bmpDoc doc = true) : bmpDoc doc' = true := by
  unfold bmpDoc at h ⊢
  rw [List.all_eq_true] at h ⊢
  intro tok hm
  obtain ⟨i, hi, hget⟩ := List.getElem_of_mem hm
  have hi' : i < (ftoks doc.kids).length := by rw [← hp.len]; exact hi
  have htd : tokD doc' i = tok := by
    unfold tokD; rw [List.getD_eq_getElem?_getD, List.getElem?_eq_getElem hi, hget]; rfl
  have hmem : tokD doc i ∈ ftoks doc.kids := by
    unfold tokD; rw [List.getD_eq_getElem?_getD, List.getElem?_eq_getElem hi']
    exact List.getElem_mem hi'
  rw [← htd, hp.tok i hi', noHigh_shape _ _ (hg i _ _)]
  exact h _ hmem

theorem bmp_step (S : Schema) (s : Step) (d d' : Node)
    (hs : (∃ a b x, s = .removeMark a b x) ∨ (∃ a b m, s = .addMark a b m))
    (hb : bmpDoc d = true) (h : S.apply s d = .ok d') : bmpDoc d' = true ∧ s.undoAligned d' := by
  have key : bmpDoc d' = true := by
    rcases hs with ⟨a, b, x, rfl⟩ | ⟨a, b, m, rfl⟩
    · exact bmp_of_pt S d d' _ (rmG_shape S x a b) (removeMark_pt S d d' a b x h) hb
    · exact bmp_of_pt S d d' _ (addG_shape S m a b) (addMark_pt S d d' a b m h) hb
  refine ⟨key, ?_⟩
  rcases hs with ⟨a, b, x, rfl⟩ | ⟨a, b, m, rfl⟩
  · exact ⟨alignedAt_of_bmp _ _ key, alignedAt_of_bmp _ _ key⟩
  · exact ⟨alignedAt_of_bmp _ _ key, alignedAt_of_bmp _ _ key⟩

theorem list_length_le_one_of_eq {α} : ∀ (l : List α), l.Nodup → (∀ a ∈ l, ∀ b ∈ l, a = b) → l.length ≤ 1
  | [], _, _ => by simp
  | [_], _, _ => by simp
  | a :: b :: r, hnd, h => by
    have := h a (by simp) b (by simp)
    subst this
    simp at hnd

/-- in a schema whose mark types exclude themselves a valid document has no node with two marks of one type -/
theorem sameTypeFree_of_selfExcluding (S : Schema) (hse : selfExcluding S = true) (d : Node)
    (hv : S.checkNode d = true) (a b : Nat) (ty : MarkTypeId) (hty : ty < S.marks.size) :
    sameTypeFree S d a b ty = true := by
  rw [sameTypeFree_iff]
  intro i hi _ _ _
  obtain ⟨hc, _⟩ := valid_tok S d hv i hi
  apply list_length_le_one_of_eq _ (hc.nodup.sublist List.filter_sublist)
  intro x hx y hy
  have hx' := List.mem_filter.mp hx
  have hy' := List.mem_filter.mp hy
  apply Classical.byContradiction
  intro hne
  have := hc.exclFree x hx'.1 y hy'.1 hne
  have e1 : x.ty = ty := by simpa using hx'.2
  have e2 : y.ty = ty := by simpa using hy'.2
  rw [e1, e2] at this
  have hs : S.excludes ty ty = true := by
    have := List.all_eq_true.mp hse ty (List.mem_range.mpr hty)
    exact this
  rw [hs] at this
  cases this

/-- the same with the pair-alignment proviso discharged: no text of the starting document contains a
    high surrogate unit -/
theorem markOps_undo_bmp (S : Schema) (hts : TextLoop S) (doc : Node) (ops : List MarkOp) (tr' : Tr)
    (hI : MarkInv S doc) (hb : bmpDoc doc = true) (h : (Tr.init doc).markOps S ops = .ok tr')
    (hty : HistAll (fun s d _ => s.sameTypeGuard S d) tr'.hist tr'.doc) :
    tr'.undo S = .ok doc := by
  refine markOps_undo S hts doc ops tr' hI h hty ?_
  obtain ⟨h2, e, _, n, r, g⟩ := Tr.markOps_hist S hts ops (Tr.init doc) tr' rfl hI h
  have e' : tr'.hist = h2 := by rw [e]; simp [Tr.hist, Tr.init]
  rw [e']
  exact histAll_of_inv S (fun d => bmpDoc d = true) (PlanGuard S) (fun s _ d' => s.undoAligned d')
    (fun s d d' hbd ha hg => (bmp_step S s d d' (planGuard_isMark S s d d' hg) hbd ha).symm)
    h2 tr'.doc (by rw [n]; exact hb) r g

end PM
