/-
  Proofs/TypePlan.lean — helper lemmas for the whole-operation theorems on `clear_incompatible`,
  `set_node_markup` and `set_block_type` of Props/C13.lean:
  1. bookkeeping of `PSt.step` / `PSt.stepAll` / `PSt.replace` (steps, maps, the Fitter oracle);
  2. a list of `RemoveMarkStep`s over one window, at token level;
  3. `ReplaceStep`s applied last to first (`spliceAll`), tokens and position maps;
  4. the loop of `clear_incompatible` as a planned step list (`clearPlan`) and its token effect
     (`keptChildren`, PM/KeptChildren.lean);
  5. the walk `nodes_between` against the token sequence (the window of a visit).
-/
import PM.TypePlan
import PM.KeptChildren
import Proofs.StepToks
import Proofs.MarkEffect
import Proofs.MarkPlan
import Proofs.StepMap
import Proofs.StepValid
import Proofs.MarkSuccess
import Proofs.Undo
namespace PM

/-! ### 1. bookkeeping -/

/-- a position pushed through a list of step maps (`Mapping.map` without mirrors) -/
def mapsThrough (ms : List StepMap) (p : Int) (assoc : Int) : Int :=
  ms.foldl (fun p sm => sm.map p assoc) p

theorem mapsThrough_append (a b : List StepMap) (p assoc : Int) :
    mapsThrough (a ++ b) p assoc = mapsThrough b (mapsThrough a p assoc) assoc := by
  simp [mapsThrough, List.foldl_append]

@[simp] theorem mapsThrough_nil (p assoc : Int) : mapsThrough [] p assoc = p := rfl

@[simp] theorem mapsThrough_cons (m : StepMap) (ms : List StepMap) (p assoc : Int) :
    mapsThrough (m :: ms) p assoc = mapsThrough ms (m.map p assoc) assoc := rfl

theorem PSt.mapFrom_eq (st : PSt) (mf pos : Nat) (assoc : Int) :
    st.mapFrom mf pos assoc = (mapsThrough (st.tr.maps.drop mf) pos assoc).toNat := rfl

theorem PSt.step_facts (S : Schema) (st st' : PSt) (s : Step) (h : st.step S s = .ok st') :
    S.apply s st.tr.doc = .ok st'.tr.doc ∧ st'.tr.steps = st.tr.steps ++ [s] ∧
    st'.tr.maps = st.tr.maps ++ [s.getMap] ∧ st'.fits = st.fits := by
  unfold PSt.step Tr.step at h
  cases ha : S.apply s st.tr.doc with
  | error e => rw [ha] at h; simp [Except.map] at h
  | ok d =>
    rw [ha] at h
    simp only [Except.map, Except.ok.injEq] at h
    subst h
    simp [Tr.addStep]

theorem PSt.stepAll_facts (S : Schema) : ∀ (ss : List Step) (st st' : PSt), st.stepAll S ss = .ok st' →
    S.applyAll ss st.tr.doc = .ok st'.tr.doc ∧ st'.tr.steps = st.tr.steps ++ ss ∧
    st'.tr.maps = st.tr.maps ++ ss.map Step.getMap ∧ st'.fits = st.fits
  | [], st, st', h => by
    simp only [PSt.stepAll, Except.ok.injEq] at h
    subst h
    simp [Schema.applyAll]
  | s :: ss, st, st', h => by
    simp only [PSt.stepAll] at h
    cases hs : st.step S s with
    | error e => rw [hs] at h; simp at h
    | ok st1 =>
      rw [hs] at h
      simp only at h
      obtain ⟨a1, a2, a3, a4⟩ := PSt.step_facts S st st1 s hs
      obtain ⟨b1, b2, b3, b4⟩ := PSt.stepAll_facts S ss st1 st' h
      refine ⟨?_, ?_, ?_, ?_⟩
      · simp only [Schema.applyAll, a1]; exact b1
      · rw [b2, a2]; simp
      · rw [b3, a3]; simp
      · rw [b4, a4]

theorem PSt.stepAll_append (S : Schema) : ∀ (a b : List Step) (st : PSt),
    st.stepAll S (a ++ b) = (match st.stepAll S a with
      | .ok st1 => st1.stepAll S b
      | .error e => .error e)
  | [], b, st => by simp [PSt.stepAll]
  | s :: a, b, st => by
    simp only [List.cons_append, PSt.stepAll]
    cases hs : st.step S s with
    | error e => simp
    | ok st1 => simp only; exact PSt.stepAll_append S a b st1

/-- `Transform.replace` when the Fitter is not available (`fits = []`): it succeeds only by doing
    nothing (empty range, empty slice) or by the trivially fitting `ReplaceStep` -/
theorem PSt.replace_nofit (S : Schema) (st st' : PSt) (f t : Nat) (sl : Slice) (hf : st.fits = [])
    (h : st.replace S f t sl = .ok st') :
    (st' = st ∧ f = t ∧ sl.size = 0) ∨
    (¬ (f = t ∧ sl.size = 0) ∧ st.step S (.replace f t sl false) = .ok st') := by
  unfold PSt.replace at h
  split at h
  · rename_i hc
    simp only [Bool.and_eq_true, beq_iff_eq] at hc
    simp only [Except.ok.injEq] at h
    exact .inl ⟨h.symm, hc.1, hc.2⟩
  · rename_i hc
    simp only [Bool.and_eq_true, beq_iff_eq] at hc
    split at h
    · split at h
      · simp at h
      · exact .inr ⟨hc, h⟩
      · rw [hf] at h; simp at h
    · simp at h

/-! ### 2. `RemoveMarkStep`s over one window -/

/-- the remove-mark step in window form -/
theorem apply_removeMark_window (S : Schema) (doc doc' : Node) (f t : Nat) (m : Mark)
    (h : S.apply (.removeMark f t m) doc = .ok doc') :
    ftoks doc'.kids = (ftoks doc.kids).take f ++ (((ftoks doc.kids).drop f).take (t - f)).map (remTok S m)
      ++ (ftoks doc.kids).drop t ∧ f ≤ t ∧ t ≤ fsize doc.kids := by
  unfold Schema.apply at h
  simp only at h
  split at h
  · simp at h
  · rename_i old hold
    obtain ⟨h1, hft, htl, _, _⟩ := fromReplace_toks S doc doc' f t _ h
    refine ⟨?_, hft, htl⟩
    rw [h1]
    congr 2
    have hs := sliceKids_toks doc.kids f t old hft htl hold
    rw [← hs]
    simp only [Slice.toks, fromArray_toks, fromArray_size, removeMarkKids_toks, List.map_take, List.map_drop]
    rw [← ftoks_length, ← ftoks_length, removeMarkKids_toks, List.length_map]

theorem remTok_eq_rmTok (S : Schema) (m : Mark) : remTok S m = rmTok S (fun x => x != m) := by
  funext tok
  unfold remTok rmTok Mark.removeFromSet
  by_cases h : isInlineTok S tok = true <;> simp [h]

/-- what removing every mark of `bad` does to one token -/
def stripTok (S : Schema) (bad : Marks) (tok : Tok) : Tok := rmTok S (fun x => !bad.contains x) tok

theorem stripTok_nil (S : Schema) : stripTok S [] = id := by
  funext tok
  simp only [stripTok, List.contains_nil, Bool.not_false, id]
  exact rmTok_true S tok

theorem stripTok_cons (S : Schema) (m : Mark) (bad : Marks) (tok : Tok) :
    stripTok S bad (remTok S m tok) = stripTok S (m :: bad) tok := by
  rw [remTok_eq_rmTok]
  unfold stripTok
  rw [rmTok_rmTok]
  congr 1
  funext x
  by_cases hx : x = m <;> simp [hx, bne]

/-- **a list of remove-mark steps over the same window**: every token of the window loses the marks
    of the list (if it starts an inline node), nothing else changes -/
theorem applyAll_removeMarks_window (S : Schema) (f t : Nat) : ∀ (bad : Marks) (doc doc' : Node)
    (A W R : List Tok), ftoks doc.kids = A ++ W ++ R → A.length = f → f + W.length = t →
    S.applyAll (bad.map (fun m => Step.removeMark f t m)) doc = .ok doc' →
    ftoks doc'.kids = A ++ W.map (stripTok S bad) ++ R
  | [], doc, doc', A, W, R, hL, _, _, h => by
    simp only [List.map_nil, Schema.applyAll, Except.ok.injEq] at h
    subst h
    rw [stripTok_nil, List.map_id, hL]
  | m :: bad, doc, doc', A, W, R, hL, hA, hW, h => by
    simp only [List.map_cons, Schema.applyAll] at h
    split at h
    · rename_i d1 h1
      obtain ⟨e1, _, _⟩ := apply_removeMark_window S doc d1 f t m h1
      have hw : ((ftoks doc.kids).drop f).take (t - f) = W := by
        rw [hL, List.append_assoc, List.drop_left' hA]
        exact List.take_left' (by omega)
      have ht : (ftoks doc.kids).take f = A := by
        rw [hL, List.append_assoc]; exact List.take_left' hA
      have hd : (ftoks doc.kids).drop t = R := by
        rw [hL]; exact List.drop_left' (by simp; omega)
      rw [hw, ht, hd] at e1
      have := applyAll_removeMarks_window S f t bad d1 doc' A (W.map (remTok S m)) R e1 hA
        (by simp; omega) h
      rw [this, List.map_map]
      congr 2
      apply List.map_congr_left
      intro tok _
      exact stripTok_cons S m bad tok
    · simp at h

mutual
theorem stripMarksNode_toks (S : Schema) (bad : Marks) : ∀ (n : Node),
    (stripMarksNode S bad n).toks = n.toks.map (stripTok S bad)
  | .text s m => by
    simp [stripMarksNode, stripTok, rmTok, isInlineTok, Tok.withMarks, Tok.marks, Function.comp_def]
  | .leaf t a m => by
    unfold stripMarksNode
    by_cases h : (S.nodeType t).isInline = true
    · simp [stripTok, rmTok, isInlineTok, h, Tok.withMarks, Tok.marks]
    · simp [stripTok, rmTok, isInlineTok, h]
  | .elem t a m kids => by
    have ih := stripMarksKids_toks S bad kids
    unfold stripMarksNode
    by_cases h : (S.nodeType t).isInline = true
    · simp [stripTok, rmTok, isInlineTok, h, Tok.withMarks, Tok.marks, ih]
    · simp [stripTok, rmTok, isInlineTok, h, ih]
theorem stripMarksKids_toks (S : Schema) (bad : Marks) : ∀ (l : List Node),
    ftoks (stripMarksKids S bad l) = (ftoks l).map (stripTok S bad)
  | [] => by simp [stripMarksKids]
  | n :: ns => by
    simp [stripMarksKids, stripMarksNode_toks S bad n, stripMarksKids_toks S bad ns]
end

theorem stripMarksNode_size (S : Schema) (bad : Marks) (n : Node) : (stripMarksNode S bad n).size = n.size := by
  rw [← Node.toks_length, stripMarksNode_toks, List.length_map, Node.toks_length]

/-! ### 3. `ReplaceStep`s applied last to first -/

/-- a planned `ReplaceStep(from, to, Slice(content, 0, 0))` -/
abbrev Edit := Nat × Nat × List Node

def Edit.step (e : Edit) : Step := .replace e.1 e.2.1 ⟨e.2.2, 0, 0⟩ false

/-- the token list after the edits were applied **last to first** -/
def spliceAll (L : List Tok) : List Edit → List Tok
  | [] => L
  | e :: es => (spliceAll L es).take e.1 ++ ftoks e.2.2 ++ (spliceAll L es).drop e.2.1

theorem spliceAll_append (L : List Tok) : ∀ (a b : List Edit),
    spliceAll L (a ++ b) = spliceAll (spliceAll L b) a
  | [], b => rfl
  | e :: a, b => by simp only [List.cons_append, spliceAll, spliceAll_append L a b]

theorem applyAll_edits (S : Schema) : ∀ (es : List Edit) (doc doc' : Node),
    S.applyAll (es.map Edit.step).reverse doc = .ok doc' →
    ftoks doc'.kids = spliceAll (ftoks doc.kids) es
  | [], doc, doc', h => by
    simp only [List.map_nil, List.reverse_nil, Schema.applyAll, Except.ok.injEq] at h
    subst h; rfl
  | e :: es, doc, doc', h => by
    simp only [List.map_cons, List.reverse_cons] at h
    obtain ⟨d1, h1, h2⟩ := applyAll_append S _ _ doc doc' h
    have ih := applyAll_edits S es doc d1 h1
    simp only [Schema.applyAll] at h2
    split at h2
    · rename_i d2 hd2
      simp only [Except.ok.injEq] at h2
      subst h2
      obtain ⟨e1, _, _, _⟩ := apply_replace_toks S d1 d2 _ _ _ _ hd2
      rw [e1, Slice.toks_closed, ih]
      rfl
    · simp at h2

/-- edits in increasing order inside `[lo, hi]` -/
def EditsSorted : Nat → Nat → List Edit → Prop
  | lo, hi, [] => lo ≤ hi
  | lo, hi, e :: es => lo ≤ e.1 ∧ e.1 ≤ e.2.1 ∧ EditsSorted e.2.1 hi es

theorem EditsSorted.le : ∀ {es : List Edit} {lo hi : Nat}, EditsSorted lo hi es → lo ≤ hi
  | [], _, _, h => h
  | _ :: _, _, _, h => by
    have := EditsSorted.le h.2.2
    have h1 := h.1; have h2 := h.2.1
    omega

theorem EditsSorted.mono_lo {es : List Edit} {lo lo' hi : Nat} (h : EditsSorted lo hi es) (hl : lo' ≤ lo) :
    EditsSorted lo' hi es := by
  cases es with
  | nil => simp only [EditsSorted] at h ⊢; omega
  | cons e es => exact ⟨by have := h.1; omega, h.2.1, h.2.2⟩

theorem EditsSorted.append : ∀ {a b : List Edit} {lo mid hi : Nat}, EditsSorted lo mid a → EditsSorted mid hi b →
    EditsSorted lo hi (a ++ b)
  | [], _, _, _, _, ha, hb => by simpa using hb.mono_lo ha
  | e :: a, b, _, _, _, ha, hb => ⟨ha.1, ha.2.1, EditsSorted.append ha.2.2 hb⟩

/-- the total change of length -/
def editShift : List Edit → Int
  | [] => 0
  | e :: es => (fsize e.2.2 : Int) - ((e.2.1 : Int) - e.1) + editShift es

theorem editShift_append : ∀ (a b : List Edit), editShift (a ++ b) = editShift a + editShift b
  | [], b => by simp [editShift]
  | e :: a, b => by simp only [List.cons_append, editShift, editShift_append a b]; omega

theorem editShift_lb : ∀ {es : List Edit} {lo hi : Nat}, EditsSorted lo hi es → (lo : Int) ≤ hi + editShift es
  | [], _, _, h => by simp only [EditsSorted] at h; simp only [editShift]; omega
  | e :: es, _, _, h => by
    have := editShift_lb h.2.2
    have h1 := h.1; have h2 := h.2.1
    simp only [editShift]; omega

theorem spliceAll_length : ∀ {es : List Edit} {lo hi : Nat} (L : List Tok), EditsSorted lo hi es → hi ≤ L.length →
    ((spliceAll L es).length : Int) = L.length + editShift es
  | [], _, _, L, _, _ => by simp [spliceAll, editShift]
  | e :: es, _, _, L, h, hL => by
    have ih := spliceAll_length L h.2.2 hL
    have lb := editShift_lb h.2.2
    have h1 := h.1; have h2 := h.2.1
    simp only [spliceAll, editShift, List.length_append, List.length_take, List.length_drop, ftoks_length]
    omega

/-- positions at or after the last edit are shifted by the total change of length; positions before
    the first edit stay -/
theorem edits_map : ∀ {es : List Edit} {lo hi : Nat}, EditsSorted lo hi es → ∀ (p : Int),
    (hi ≤ p → mapsThrough ((es.map Edit.step).reverse.map Step.getMap) p 1 = p + editShift es) ∧
    (p < lo → ∀ a, mapsThrough ((es.map Edit.step).reverse.map Step.getMap) p a = p)
  | [], _, _, _, p => by simp [editShift]
  | e :: es, lo, hi, h, p => by
    obtain ⟨ih1, ih2⟩ := edits_map h.2.2 p
    have lb := editShift_lb h.2.2
    have h1 := h.1; have h2 := h.2.1
    have hle := h.2.2.le
    simp only [List.map_cons, List.reverse_cons, List.map_append, mapsThrough_append, List.map_nil,
      mapsThrough_cons, mapsThrough_nil]
    have hm : (Edit.step e).getMap = ⟨[((e.1 : Int), (e.2.1 : Int) - e.1, (fsize e.2.2 : Int))], false⟩ := by
      simp [Edit.step, Step.getMap, Slice.size]
    constructor
    · intro hp
      rw [ih1 hp, hm, map_one_ge _ _ _ _ (by omega) (by omega)]
      simp only [editShift]; omega
    · intro hp a
      rw [ih2 (by omega) a, hm, map_one_lt _ _ _ _ _ (by omega)]

/-! ### 4. the loop of `clear_incompatible` as a planned step list -/

/-- the `RemoveMarkStep`s of the walk, in order -/
def clearRm (S : Schema) (pty : TypeId) : List Node → (q cur : Nat) → List Step
  | [], _, _ => []
  | c :: cs, q, cur =>
    match (S.dfa pty).matchType q (S.tyOf c) with
    | none => clearRm S pty cs q (cur + c.size)
    | some q' =>
      (badMarks S pty c.marks).map (fun m => Step.removeMark cur (cur + c.size) m) ++
        clearRm S pty cs q' (cur + c.size)

/-- the newline replacements inside one accepted child starting at `cur` -/
def nlEdits (S : Schema) (pty : TypeId) (cur : Nat) : Node → List Edit
  | .text s ms =>
    if (S.nodeType pty).code then []
    else (newlineSpans s 0).map (fun ab =>
      (cur + ab.1, cur + ab.2, [Node.text [32] (setFrom ((S.nodeType pty).allowedMarks ms))]))
  | _ => []

/-- `repl_steps`, in append order -/
def clearEdits (S : Schema) (pty : TypeId) : List Node → (q cur : Nat) → List Edit
  | [], _, _ => []
  | c :: cs, q, cur =>
    match (S.dfa pty).matchType q (S.tyOf c) with
    | none => (cur, cur + c.size, []) :: clearEdits S pty cs q (cur + c.size)
    | some q' => nlEdits S pty cur c ++ clearEdits S pty cs q' (cur + c.size)

theorem clearLoop_plan (S : Schema) (pty : TypeId) : ∀ (kids : List Node) (q cur : Nat) (repl : List Step)
    (st : PSt) (q' cur' : Nat) (repl' : List Step) (st' : PSt),
    clearLoop S pty kids q cur repl st = .ok (q', cur', repl', st') →
    q' = keptState S pty kids q ∧ cur' = cur + fsize kids ∧
    repl' = repl ++ (clearEdits S pty kids q cur).map Edit.step ∧
    st.stepAll S (clearRm S pty kids q cur) = .ok st'
  | [], q, cur, repl, st, q', cur', repl', st', h => by
    simp only [clearLoop, Except.ok.injEq, Prod.mk.injEq] at h
    obtain ⟨rfl, rfl, rfl, rfl⟩ := h
    simp [keptState, clearEdits, clearRm, PSt.stepAll]
  | c :: cs, q, cur, repl, st, q', cur', repl', st', h => by
    unfold clearLoop at h
    simp only at h
    split at h
    · rename_i hm
      obtain ⟨a1, a2, a3, a4⟩ := clearLoop_plan S pty cs _ _ _ _ _ _ _ _ h
      refine ⟨?_, ?_, ?_, ?_⟩
      · rw [a1]; simp only [keptState, hm]
      · rw [a2]; simp only [fsize_cons]; omega
      · rw [a3]; simp only [clearEdits, hm, List.map_cons, List.append_assoc, List.singleton_append]
        rfl
      · simp only [clearRm, hm]; exact a4
    · rename_i q1 hm
      split at h
      · simp at h
      · rename_i st1 hst1
        obtain ⟨a1, a2, a3, a4⟩ := clearLoop_plan S pty cs _ _ _ _ _ _ _ _ h
        refine ⟨?_, ?_, ?_, ?_⟩
        · rw [a1]; simp only [keptState, hm]
        · rw [a2]; simp only [fsize_cons]; omega
        · rw [a3]; simp only [clearEdits, hm, List.map_append, List.append_assoc]
          congr 2
          cases c with
          | text s ms =>
            simp only [nlEdits]
            split
            · rfl
            · simp only [List.map_map]; rfl
          | leaf => rfl
          | elem => rfl
        · simp only [clearRm, hm]
          rw [PSt.stepAll_append]
          have : st.stepAll S (List.map (fun m => Step.removeMark cur (cur + c.size) m) (badMarks S pty c.marks))
              = .ok st1 := hst1
          rw [this]
          exact a4

/-- the insertion of the fillers at the end of the node -/
def fillPlan (cur : Nat) (F : List Node) : List Step :=
  if fsize F = 0 then [] else [.replace cur cur ⟨F, 0, 0⟩ false]

/-- all steps of `clear_incompatible` on a node with children `kids` whose content starts at `cur`,
    in the order they are applied -/
def clearPlan (S : Schema) (pty : TypeId) (kids : List Node) (q cur : Nat) : List Step :=
  clearRm S pty kids q cur ++
    fillPlan (cur + fsize kids) (retypeFill S pty (keptState S pty kids q)) ++
    ((clearEdits S pty kids q cur).map Edit.step).reverse

theorem PSt.stepAll_ok_append (S : Schema) (a b : List Step) (st st1 st2 : PSt)
    (h1 : st.stepAll S a = .ok st1) (h2 : st1.stepAll S b = .ok st2) : st.stepAll S (a ++ b) = .ok st2 := by
  rw [PSt.stepAll_append, h1]; exact h2

/-- **`clear_incompatible` without the Fitter is its plan**: when the oracle list is empty (every
    `Transform.replace` inside fits trivially or has nothing to do) a successful run applied exactly
    `clearPlan` of the node found at `pos` -/
theorem clearIncompatible_plan (S : Schema) (st st' : PSt) (pos : Nat) (pty : TypeId) (q0 : Nat)
    (hf : st.fits = []) (h : st.clearIncompatible S pos pty q0 = .ok st') :
    ∃ node, st.tr.doc.nodeAt pos = .ok (some node) ∧
      st.stepAll S (clearPlan S pty node.kids q0 (pos + 1)) = .ok st' := by
  unfold PSt.clearIncompatible at h
  split at h
  · simp at h
  · simp at h
  · rename_i node hnode
    refine ⟨node, hnode, ?_⟩
    split at h
    · simp at h
    · rename_i q cur repl st1 hloop
      obtain ⟨rfl, rfl, hrepl, hrm⟩ := clearLoop_plan S pty _ _ _ _ _ _ _ _ _ hloop
      simp only [List.nil_append] at hrepl
      subst hrepl
      have hf1 : st1.fits = [] := by rw [(PSt.stepAll_facts S _ st st1 hrm).2.2.2]; exact hf
      simp only at h
      split at h
      · simp at h
      · rename_i st2 hfill
        unfold clearPlan
        refine PSt.stepAll_ok_append S _ _ st st2 st' (PSt.stepAll_ok_append S _ _ st st1 st2 hrm ?_) h
        unfold retypeFill fillPlan
        split at hfill
        · rename_i hv
          simp only [Except.ok.injEq] at hfill
          subst hfill
          simp [hv, PSt.stepAll]
        · rename_i hv
          rw [if_neg hv]
          split at hfill
          · simp at hfill
          · rename_i tys htys
            split at hfill
            · simp at hfill
            · rename_i nodes hnodes
              simp only [htys, hnodes, Option.getD_some]
              rcases PSt.replace_nofit S st1 st2 _ _ _ hf1 hfill with ⟨rfl, _, hz⟩ | ⟨hnz, hstep⟩
              · have : fsize nodes = 0 := by simpa [Slice.size] using hz
                simp [this, PSt.stepAll]
              · have : ¬ fsize nodes = 0 := by
                  intro hz; apply hnz; simp [Slice.size, hz]
                simp [this, PSt.stepAll, hstep]

/-! #### token effect of the plan -/

/-- the children after the mark removals of the walk (nothing deleted yet) -/
def rmKids (S : Schema) (pty : TypeId) : List Node → (q : Nat) → List Node
  | [], _ => []
  | c :: cs, q =>
    match (S.dfa pty).matchType q (S.tyOf c) with
    | none => c :: rmKids S pty cs q
    | some q' => stripMarksNode S (badMarks S pty c.marks) c :: rmKids S pty cs q'

theorem clearRm_toks (S : Schema) (pty : TypeId) : ∀ (kids : List Node) (q cur : Nat) (doc doc' : Node)
    (P Q : List Tok), ftoks doc.kids = P ++ ftoks kids ++ Q → P.length = cur →
    S.applyAll (clearRm S pty kids q cur) doc = .ok doc' →
    ftoks doc'.kids = P ++ ftoks (rmKids S pty kids q) ++ Q
  | [], q, cur, doc, doc', P, Q, hL, _, h => by
    simp only [clearRm, Schema.applyAll, Except.ok.injEq] at h
    subst h
    simpa [rmKids] using hL
  | c :: cs, q, cur, doc, doc', P, Q, hL, hP, h => by
    simp only [clearRm] at h
    simp only [rmKids]
    split at h
    · rename_i hm
      have := clearRm_toks S pty cs q (cur + c.size) doc doc' (P ++ c.toks) Q
        (by rw [hL]; simp) (by simp [Node.toks_length, hP]) h
      rw [this]; simp
    · rename_i q' hm
      obtain ⟨d1, h1, h2⟩ := applyAll_append S _ _ doc doc' h
      have e1 := applyAll_removeMarks_window S cur (cur + c.size) _ doc d1 P c.toks (ftoks cs ++ Q)
        (by rw [hL]; simp) hP (by rw [Node.toks_length]) h1
      rw [← stripMarksNode_toks] at e1
      have := clearRm_toks S pty cs q' (cur + c.size) d1 doc'
        (P ++ (stripMarksNode S (badMarks S pty c.marks) c).toks) Q
        (by rw [e1]; simp) (by simp [Node.toks_length, stripMarksNode_size, hP]) h2
      rw [this]; simp

theorem fillPlan_toks (S : Schema) (cur : Nat) (F : List Node) (doc doc' : Node)
    (h : S.applyAll (fillPlan cur F) doc = .ok doc') :
    ftoks doc'.kids = (ftoks doc.kids).take cur ++ ftoks F ++ (ftoks doc.kids).drop cur := by
  unfold fillPlan at h
  split at h
  · rename_i hz
    simp only [Schema.applyAll, Except.ok.injEq] at h
    subst h
    have : ftoks F = [] := List.eq_nil_of_length_eq_zero (by rw [ftoks_length]; exact hz)
    simp [this]
  · simp only [Schema.applyAll] at h
    split at h
    · rename_i d hd
      simp only [Except.ok.injEq] at h
      subst h
      obtain ⟨e1, _, _, _⟩ := apply_replace_toks S doc d _ _ _ _ hd
      rw [e1, Slice.toks_closed]
    · simp at h

theorem splice_flank {α} (A M B X : List α) (a b : Nat) (ha : A.length = a) (hb : a + M.length = b) :
    (A ++ M ++ B).take a ++ X ++ (A ++ M ++ B).drop b = A ++ X ++ B := by
  rw [List.append_assoc A M B, List.take_left' ha, ← List.append_assoc A M B,
    List.drop_left' (by simp; omega)]

theorem spliceAll_nl (keep sp : Marks) (cur : Nat) : ∀ (s : List Nat) (k : Nat) (P Q : List Tok),
    P.length = cur + k →
    spliceAll (P ++ s.map (Tok.unit · keep) ++ Q)
      ((newlineSpans s k).map (fun ab => ((cur + ab.1, cur + ab.2, [Node.text [32] sp]) : Edit))) =
    P ++ ftoks (nlNodes keep sp s) ++ Q
  | [], k, P, Q, _ => by simp [newlineSpans, nlNodes, spliceAll]
  | [c], k, P, Q, hP => by
    simp only [newlineSpans, nlNodes]
    split
    · simp only [List.map_cons, List.map_nil, spliceAll]
      rw [splice_flank P _ Q _ _ _ hP (by simp; omega)]
    · simp [spliceAll]
  | c :: d :: r, k, P, Q, hP => by
    simp only [newlineSpans, nlNodes]
    split
    · have ih := spliceAll_nl keep sp cur r (k + 2) (P ++ [Tok.unit c keep, Tok.unit d keep]) Q
        (by simp; omega)
      simp only [List.map_cons, spliceAll]
      have e : P ++ Tok.unit c keep :: Tok.unit d keep :: List.map (fun x => Tok.unit x keep) r ++ Q =
          P ++ [Tok.unit c keep, Tok.unit d keep] ++ List.map (fun x => Tok.unit x keep) r ++ Q := by simp
      rw [e, ih]
      rw [show P ++ [Tok.unit c keep, Tok.unit d keep] ++ ftoks (nlNodes keep sp r) ++ Q =
        P ++ [Tok.unit c keep, Tok.unit d keep] ++ (ftoks (nlNodes keep sp r) ++ Q) by simp]
      rw [splice_flank P _ _ _ _ _ hP (by simp; omega)]
      simp
    · split
      · have ih := spliceAll_nl keep sp cur (d :: r) (k + 1) (P ++ [Tok.unit c keep]) Q (by simp; omega)
        simp only [List.map_cons, spliceAll]
        have e : P ++ Tok.unit c keep :: Tok.unit d keep :: List.map (fun x => Tok.unit x keep) r ++ Q =
            P ++ [Tok.unit c keep] ++ List.map (fun x => Tok.unit x keep) (d :: r) ++ Q := by simp
        rw [e, ih]
        rw [show P ++ [Tok.unit c keep] ++ ftoks (nlNodes keep sp (d :: r)) ++ Q =
          P ++ [Tok.unit c keep] ++ (ftoks (nlNodes keep sp (d :: r)) ++ Q) by simp]
        rw [splice_flank P _ _ _ _ _ hP (by simp; omega)]
        simp
      · have ih := spliceAll_nl keep sp cur (d :: r) (k + 1) (P ++ [Tok.unit c keep]) Q (by simp; omega)
        have e : P ++ List.map (fun x => Tok.unit x keep) (c :: d :: r) ++ Q =
            P ++ [Tok.unit c keep] ++ List.map (fun x => Tok.unit x keep) (d :: r) ++ Q := by simp
        rw [e, ih]
        simp

theorem filter_not_bad (S : Schema) (pty : TypeId) (ms : Marks) :
    ms.filter (fun x => !(badMarks S pty ms).contains x) = (S.nodeType pty).allowedMarks ms := by
  unfold NodeType.allowedMarks badMarks
  apply List.filter_congr
  intro x hx
  simp [List.mem_filter, hx]

theorem spliceAll_child (S : Schema) (pty : TypeId) (c : Node) (cur : Nat) (P Q : List Tok)
    (hP : P.length = cur) :
    spliceAll (P ++ (stripMarksNode S (badMarks S pty c.marks) c).toks ++ Q) (nlEdits S pty cur c) =
    P ++ ftoks (cleanChild S pty c) ++ Q := by
  cases c with
  | text s ms =>
    simp only [stripMarksNode, Node.marks, filter_not_bad, nlEdits, cleanChild]
    split
    · simp [spliceAll]
    · exact spliceAll_nl _ _ cur s 0 P Q (by omega)
  | leaf t a m => simp [nlEdits, cleanChild, spliceAll]
  | elem t a m k => simp [nlEdits, cleanChild, spliceAll]

theorem spliceAll_clearEdits (S : Schema) (pty : TypeId) : ∀ (kids : List Node) (q cur : Nat) (P Q : List Tok),
    P.length = cur →
    spliceAll (P ++ ftoks (rmKids S pty kids q) ++ Q) (clearEdits S pty kids q cur) =
    P ++ ftoks (keptChildren S pty kids q) ++ Q
  | [], q, cur, P, Q, _ => by simp [rmKids, clearEdits, keptChildren, spliceAll]
  | c :: cs, q, cur, P, Q, hP => by
    simp only [rmKids, clearEdits, keptChildren]
    split
    · rename_i hm
      have ih := spliceAll_clearEdits S pty cs q (cur + c.size) (P ++ c.toks) Q
        (by simp [Node.toks_length, hP])
      simp only [spliceAll]
      have e : P ++ ftoks (c :: rmKids S pty cs q) ++ Q = P ++ c.toks ++ ftoks (rmKids S pty cs q) ++ Q := by
        simp
      rw [e, ih]
      rw [show P ++ c.toks ++ ftoks (keptChildren S pty cs q) ++ Q =
        P ++ c.toks ++ (ftoks (keptChildren S pty cs q) ++ Q) by simp]
      rw [splice_flank P _ _ _ _ _ hP (by rw [Node.toks_length])]
      simp [hm]
    · rename_i q' hm
      have ih := spliceAll_clearEdits S pty cs q' (cur + c.size)
        (P ++ (stripMarksNode S (badMarks S pty c.marks) c).toks) Q
        (by simp [Node.toks_length, stripMarksNode_size, hP])
      rw [spliceAll_append]
      have e : P ++ ftoks (stripMarksNode S (badMarks S pty c.marks) c :: rmKids S pty cs q') ++ Q =
          P ++ (stripMarksNode S (badMarks S pty c.marks) c).toks ++ ftoks (rmKids S pty cs q') ++ Q := by
        simp
      rw [e, ih]
      rw [show P ++ (stripMarksNode S (badMarks S pty c.marks) c).toks ++ ftoks (keptChildren S pty cs q') ++ Q =
        P ++ (stripMarksNode S (badMarks S pty c.marks) c).toks ++ (ftoks (keptChildren S pty cs q') ++ Q) by simp]
      rw [spliceAll_child S pty c cur P _ hP]
      simp [hm, ftoks_append]

theorem rmKids_size (S : Schema) (pty : TypeId) : ∀ (kids : List Node) (q : Nat),
    fsize (rmKids S pty kids q) = fsize kids
  | [], q => rfl
  | c :: cs, q => by
    simp only [rmKids]
    split <;> simp [rmKids_size S pty cs, stripMarksNode_size]

theorem clearPlan_toks (S : Schema) (pty : TypeId) (kids : List Node) (q cur : Nat) (doc doc' : Node)
    (P Q : List Tok) (hL : ftoks doc.kids = P ++ ftoks kids ++ Q) (hP : P.length = cur)
    (h : S.applyAll (clearPlan S pty kids q cur) doc = .ok doc') :
    ftoks doc'.kids = P ++ ftoks (retypedChildren S pty kids q) ++ Q := by
  unfold clearPlan at h
  obtain ⟨d2, h12, h3⟩ := applyAll_append S _ _ doc doc' h
  obtain ⟨d1, h1, h2⟩ := applyAll_append S _ _ doc d2 h12
  have e1 := clearRm_toks S pty kids q cur doc d1 P Q hL hP h1
  have e2 := fillPlan_toks S _ _ d1 d2 h2
  have hlen : (P ++ ftoks (rmKids S pty kids q)).length = cur + fsize kids := by
    simp [ftoks_length, rmKids_size, hP]
  rw [e1, List.take_left' hlen, List.drop_left' hlen] at e2
  have e3 := applyAll_edits S _ d2 doc' h3
  rw [e3, e2]
  rw [show P ++ ftoks (rmKids S pty kids q) ++ ftoks (retypeFill S pty (keptState S pty kids q)) ++ Q =
    P ++ ftoks (rmKids S pty kids q) ++ (ftoks (retypeFill S pty (keptState S pty kids q)) ++ Q) by simp]
  rw [spliceAll_clearEdits S pty kids q cur P _ hP]
  simp [retypedChildren, ftoks_append]

theorem nl_sorted (cur : Nat) (X : List Node) : ∀ (s : List Nat) (k : Nat),
    EditsSorted (cur + k) (cur + k + s.length)
      ((newlineSpans s k).map (fun ab => ((cur + ab.1, cur + ab.2, X) : Edit)))
  | [], k => by simp [newlineSpans, EditsSorted]
  | [c], k => by
    simp only [newlineSpans]
    split <;> simp [EditsSorted] <;> omega
  | c :: d :: r, k => by
    simp only [newlineSpans]
    split
    · have ih := nl_sorted cur X r (k + 2)
      simp only [List.map_cons, EditsSorted]
      refine ⟨by omega, by omega, ?_⟩
      have e : cur + (k + 2) + r.length = cur + k + (c :: d :: r).length := by simp; omega
      rw [← e]; exact ih
    · have ih := nl_sorted cur X (d :: r) (k + 1)
      have e : cur + (k + 1) + (d :: r).length = cur + k + (c :: d :: r).length := by simp; omega
      rw [e] at ih
      split
      · simp only [List.map_cons, EditsSorted]
        exact ⟨by omega, by omega, ih⟩
      · exact ih.mono_lo (by omega)

theorem nlEdits_sorted (S : Schema) (pty : TypeId) (cur : Nat) (c : Node) :
    EditsSorted cur (cur + c.size) (nlEdits S pty cur c) := by
  cases c with
  | text s ms =>
    simp only [nlEdits]
    split
    · simp [EditsSorted]
    · simpa [Node.size] using nl_sorted cur _ s 0
  | leaf => simp [nlEdits, EditsSorted]
  | elem => simp [nlEdits, EditsSorted]

theorem clearEdits_sorted (S : Schema) (pty : TypeId) : ∀ (kids : List Node) (q cur : Nat),
    EditsSorted cur (cur + fsize kids) (clearEdits S pty kids q cur)
  | [], q, cur => by simp [clearEdits, EditsSorted]
  | c :: cs, q, cur => by
    have e : cur + c.size + fsize cs = cur + fsize (c :: cs) := by simp; omega
    simp only [clearEdits]
    split
    · have ih := clearEdits_sorted S pty cs q (cur + c.size)
      rw [e] at ih
      exact ⟨Nat.le_refl _, by simp, ih⟩
    · rename_i q' _
      have ih := clearEdits_sorted S pty cs q' (cur + c.size)
      rw [e] at ih
      exact (nlEdits_sorted S pty cur c).append ih

theorem clearEdits_shift (S : Schema) (pty : TypeId) (kids : List Node) (q cur : Nat) :
    editShift (clearEdits S pty kids q cur) = (fsize (keptChildren S pty kids q) : Int) - fsize kids := by
  have hs := clearEdits_sorted S pty kids q cur
  have hl := spliceAll_length (List.replicate cur Tok.cl ++ ftoks (rmKids S pty kids q) ++ []) hs
    (by simp [ftoks_length, rmKids_size])
  rw [spliceAll_clearEdits S pty kids q cur _ _ (by simp)] at hl
  simp only [List.append_nil, List.length_append, List.length_replicate, ftoks_length, rmKids_size] at hl
  omega

theorem mapsThrough_empty : ∀ (ms : List StepMap) (p a : Int), (∀ m ∈ ms, m = ⟨[], false⟩) →
    mapsThrough ms p a = p
  | [], p, a, _ => rfl
  | m :: ms, p, a, h => by
    rw [mapsThrough_cons, h m (by simp), map_empty]
    exact mapsThrough_empty ms p a (fun m' hm' => h m' (by simp [hm']))

theorem clearRm_maps (S : Schema) (pty : TypeId) : ∀ (kids : List Node) (q cur : Nat),
    ∀ m ∈ (clearRm S pty kids q cur).map Step.getMap, m = ⟨[], false⟩
  | [], q, cur => by simp [clearRm]
  | c :: cs, q, cur => by
    simp only [clearRm]
    split
    · exact clearRm_maps S pty cs _ _
    · intro m hm
      simp only [List.map_append, List.map_map, List.mem_append, List.mem_map] at hm
      rcases hm with ⟨x, _, rfl⟩ | hm
      · rfl
      · exact clearRm_maps S pty cs _ _ m (by simpa using hm)

/-- **how `clear_incompatible` moves positions**: a position before the node's content stays, a
    position at or after the node's close token is shifted by the change of the content's size -/
theorem clearPlan_maps (S : Schema) (pty : TypeId) (kids : List Node) (q cur : Nat) (p : Int) :
    ((cur + fsize kids : Nat) ≤ p → mapsThrough ((clearPlan S pty kids q cur).map Step.getMap) p 1 =
        p + ((fsize (retypedChildren S pty kids q) : Int) - fsize kids)) ∧
    (p < cur → ∀ a, mapsThrough ((clearPlan S pty kids q cur).map Step.getMap) p a = p) := by
  unfold clearPlan
  simp only [List.map_append, mapsThrough_append]
  have hrm : ∀ p a, mapsThrough ((clearRm S pty kids q cur).map Step.getMap) p a = p :=
    fun p a => mapsThrough_empty _ p a (clearRm_maps S pty kids q cur)
  obtain ⟨m1, m2⟩ := edits_map (clearEdits_sorted S pty kids q cur)
    (mapsThrough (List.map Step.getMap (fillPlan (cur + fsize kids) (retypeFill S pty (keptState S pty kids q)))) p 1)
  have hsz : fsize (retypedChildren S pty kids q) =
      fsize (keptChildren S pty kids q) + fsize (retypeFill S pty (keptState S pty kids q)) := by
    simp [retypedChildren, fsize_append]
  constructor
  · intro hp
    rw [hrm]
    have hfill : mapsThrough (List.map Step.getMap (fillPlan (cur + fsize kids)
        (retypeFill S pty (keptState S pty kids q)))) p 1 =
        p + fsize (retypeFill S pty (keptState S pty kids q)) := by
      unfold fillPlan
      split
      · rename_i hz; simp [hz]
      · simp only [List.map_cons, List.map_nil, mapsThrough_cons, mapsThrough_nil, Step.getMap, Slice.size]
        rw [map_one_ge _ _ _ _ (by omega) (by omega)]
        omega
    rw [hfill] at m1 ⊢
    rw [m1 (by omega), clearEdits_shift, hsz]
    push_cast
    omega
  · intro hp a
    rw [hrm]
    have hfill : mapsThrough (List.map Step.getMap (fillPlan (cur + fsize kids)
        (retypeFill S pty (keptState S pty kids q)))) p a = p := by
      unfold fillPlan
      split
      · simp
      · simp only [List.map_cons, List.map_nil, mapsThrough_cons, mapsThrough_nil, Step.getMap]
        rw [map_one_lt _ _ _ _ _ (by omega)]
    obtain ⟨_, m2'⟩ := edits_map (clearEdits_sorted S pty kids q cur)
      (mapsThrough (List.map Step.getMap (fillPlan (cur + fsize kids) (retypeFill S pty (keptState S pty kids q)))) p a)
    rw [hfill] at m2' ⊢
    exact m2' hp a

/-! #### the whole operation -/

theorem window_decomp {α} (L W : List α) (p n : Nat) (h : (L.drop p).take n = W) (hn : W.length = n)
    (h0 : 0 < n) :
    L = L.take p ++ W ++ L.drop (p + n) ∧ p + n ≤ L.length := by
  have hlen : p + n ≤ L.length := by
    rw [← h, List.length_take, List.length_drop] at hn; omega
  refine ⟨?_, hlen⟩
  rw [← h, List.append_assoc]
  conv => lhs; rw [← List.take_append_drop p L]
  congr 1
  conv => lhs; rw [← List.take_append_drop n (L.drop p)]
  rw [List.drop_drop]

/-- the token window of a non-text node found by `node_at` -/
theorem nodeAt_window (doc node : Node) (pos : Nat) (h : doc.nodeAt pos = .ok (some node))
    (hnt : node.isText = false) :
    ftoks doc.kids = (ftoks doc.kids).take pos ++ node.toks ++ (ftoks doc.kids).drop (pos + node.size) ∧
    pos + node.size ≤ (ftoks doc.kids).length := by
  obtain ⟨p, _, _, hp3, hp4⟩ := nodeAtKids_some doc.kids pos node h
  have : p = pos := by
    rcases hp4 with h | h
    · exact h
    · rw [hnt] at h; simp at h
  subst this
  refine window_decomp _ _ _ _ hp3 (Node.toks_length node) ?_
  cases node with
  | text => simp [Node.isText] at hnt
  | leaf => simp [Node.size]
  | elem => simp only [Node.size]; omega

/-- **`clear_incompatible`, everything the later proofs need**: the node found at `pos`, the steps
    and maps recorded, the untouched oracle, and — for a node with content — the new token list -/
theorem clearIncompatible_effect (S : Schema) (st st' : PSt) (pos : Nat) (pty : TypeId) (q0 : Nat)
    (hf : st.fits = []) (h : st.clearIncompatible S pos pty q0 = .ok st') :
    ∃ node, st.tr.doc.nodeAt pos = .ok (some node) ∧
      st'.fits = [] ∧
      st'.tr.steps = st.tr.steps ++ clearPlan S pty node.kids q0 (pos + 1) ∧
      st'.tr.maps = st.tr.maps ++ (clearPlan S pty node.kids q0 (pos + 1)).map Step.getMap ∧
      S.applyAll (clearPlan S pty node.kids q0 (pos + 1)) st.tr.doc = .ok st'.tr.doc ∧
      (node.isLeaf = false →
        ftoks st'.tr.doc.kids = (ftoks st.tr.doc.kids).take pos ++
          node.headTok :: (ftoks (retypedChildren S pty node.kids q0) ++
            Tok.cl :: (ftoks st.tr.doc.kids).drop (pos + node.size))) := by
  obtain ⟨node, hnode, hall⟩ := clearIncompatible_plan S st st' pos pty q0 hf h
  obtain ⟨ha, hs, hm, hfits⟩ := PSt.stepAll_facts S _ st st' hall
  refine ⟨node, hnode, by rw [hfits, hf], hs, hm, ha, fun hnl => ?_⟩
  cases node with
  | text => simp [Node.isLeaf] at hnl
  | leaf => simp [Node.isLeaf] at hnl
  | elem t a m kids =>
    obtain ⟨hL, hlen⟩ := nodeAt_window st.tr.doc _ pos hnode rfl
    have hk : (Node.elem t a m kids).kids = kids := rfl
    rw [hk] at ha ⊢
    have hpl : ((ftoks st.tr.doc.kids).take pos ++ [Tok.op t a m]).length = pos + 1 := by
      simp only [Node.size_elem] at hlen
      simp; omega
    have := clearPlan_toks S pty kids q0 (pos + 1) st.tr.doc st'.tr.doc
      ((ftoks st.tr.doc.kids).take pos ++ [Tok.op t a m])
      (Tok.cl :: (ftoks st.tr.doc.kids).drop (pos + (Node.elem t a m kids).size))
      (by conv => lhs; rw [hL]
          simp) hpl ha
    rw [this]
    simp [Node.headTok]

/-! ### 5. the retype step, `node_at` against a known window, the walk -/

/-- the replace-around step of `set_node_markup` / `set_block_type` in token form: the first token
    of the new node, the old content, the rest of the new node's tokens -/
theorem retypeStep_toks (S : Schema) (doc doc' : Node) (s e : Nat) (nn : Node)
    (hnt : nn.isText = false) (hse : s + 2 ≤ e) (h : S.apply (retypeStep s e nn) doc = .ok doc') :
    ftoks doc'.kids = (ftoks doc.kids).take s ++ nn.toks.take 1 ++
      ((ftoks doc.kids).drop (s + 1)).take (e - s - 2) ++ nn.toks.drop 1 ++ (ftoks doc.kids).drop e ∧
    e ≤ (ftoks doc.kids).length := by
  unfold retypeStep at h
  have hwf : (Slice.mk [nn] 0 0).wf = true := by simp [Slice.wf]
  have hsz : (1 : Int) ≤ (Slice.mk [nn] 0 0).size := by
    cases nn with
    | text => simp [Node.isText] at hnt
    | leaf => simp [Slice.size, Node.size]
    | elem => simp [Slice.size, Node.size]; omega
  obtain ⟨e1, hle, _⟩ := apply_replaceAround_toks S doc doc' s e (s + 1) (e - 1) _ 1 true hwf
    (by exact_mod_cast hsz) (by omega) h
  rw [Slice.toks_closed] at e1
  rw [← ftoks_length] at hle
  refine ⟨?_, hle⟩
  rw [e1]
  simp only [ftoks_cons, ftoks_nil, List.append_nil]
  rw [show e - 1 - (s + 1) = e - s - 2 by omega]

theorem balanced_prefix_unique (k k' : List Node) (R1 R2 : List Tok)
    (h : ftoks k ++ Tok.cl :: R1 = ftoks k' ++ Tok.cl :: R2) : ftoks k = ftoks k' ∧ R1 = R2 := by
  have key : ∀ (a b : List Node) (C : List Tok) (x : Tok) (R R' : List Tok),
      ftoks b = ftoks a ++ x :: C → Tok.cl :: R = x :: C ++ Tok.cl :: R' → False := by
    intro a b C x R R' hb hc
    have hx : x = Tok.cl := by simp at hc; exact hc.1.symm
    subst hx
    have h1 := balance_prefix_nonneg b ((ftoks a).length + 1)
    rw [hb, show ftoks a ++ Tok.cl :: C = (ftoks a ++ [Tok.cl]) ++ C by simp,
      List.take_left' (by simp)] at h1
    simp [balance_ftoks, Tok.delta] at h1
  rcases List.append_eq_append_iff.mp h with ⟨C, h1, h2⟩ | ⟨C, h1, h2⟩
  · cases C with
    | nil => simp at h1 h2; exact ⟨h1.symm, h2⟩
    | cons x C => exact (key k k' C x R1 R2 h1 h2).elim
  · cases C with
    | nil => simp at h1 h2; exact ⟨h1, h2.symm⟩
    | cons x C => exact (key k' k C x R2 R1 h1 h2).elim

/-! ### 6. normal form is kept by every step of the plan -/

theorem fromReplace_norm (S : Schema) (doc doc' : Node) (f t : Nat) (sl : Slice)
    (hn : fnorm doc.kids = true) (hs : fnorm sl.content = true)
    (h : S.fromReplace doc f t sl = .ok doc') : fnorm doc'.kids = true := by
  unfold Schema.fromReplace Schema.replace at h
  cases doc with
  | text s m => simp at h
  | leaf ty a m => simp at h
  | elem ty a m kids =>
    simp only at h
    cases hr : replaceKids S ty kids f t sl with
    | error e => rw [hr] at h; simp [Except.map] at h
    | ok k' =>
      rw [hr] at h; simp [Except.map] at h; subst h
      exact replaceKids_norm S ty kids f t sl k' hn hs hr

/-- the steps `clear_incompatible` / `set_block_type` emit, with a payload in normal form -/
def Step.normOk : Step → Prop
  | .replace _ _ sl _ => fnorm sl.content = true
  | .replaceAround _ _ _ _ sl _ _ => fnorm sl.content = true
  | .removeMark .. => True
  | _ => False

theorem apply_norm (S : Schema) (st : Step) (doc doc' : Node) (hok : st.normOk)
    (hn : fnorm doc.kids = true) (h : S.apply st doc = .ok doc') : fnorm doc'.kids = true := by
  cases st with
  | replace f t sl b =>
    have key : S.fromReplace doc f t sl = .ok doc' := by
      unfold Schema.apply at h
      simp only at h
      split at h
      · split at h
        · simp at h
        · simp at h
        · exact h
      · exact h
    exact fromReplace_norm S doc doc' f t sl hn hok key
  | replaceAround f t gf gt sl ins b =>
    unfold Schema.apply at h
    simp only at h
    split at h
    · simp at h
    · split at h
      · simp at h
      · rename_i gap hgap
        split at h
        · simp at h
        · split at h
          · simp at h
          · simp at h
          · rename_i inserted hinst
            have hg : fnorm gap.content = true := (sliceKids_norm doc.kids gf gt gap hn hgap).1
            exact fromReplace_norm S doc doc' f t inserted hn
              (insertAt_norm S sl inserted ins gap.content hok hg hinst) h
  | removeMark f t m =>
    unfold Schema.apply at h
    simp only at h
    split at h
    · simp at h
    · rename_i old hold
      have ho : fnorm old.content = true := (sliceKids_norm doc.kids f t old hn hold).1
      refine fromReplace_norm S doc doc' f t _ hn ?_ h
      rw [removeMarkKids_eq_map]
      exact fromArray_norm _ (MarkMap.norm_list (removeMark_markMap S m) old.content 0 (fnormKids_of_fnorm ho))
  | addMark => exact hok.elim
  | addNodeMark => exact hok.elim
  | removeNodeMark => exact hok.elim
  | attr => exact hok.elim
  | docAttr => exact hok.elim

theorem applyAll_norm (S : Schema) : ∀ (ss : List Step) (doc doc' : Node), (∀ s ∈ ss, s.normOk) →
    fnorm doc.kids = true → S.applyAll ss doc = .ok doc' → fnorm doc'.kids = true
  | [], doc, doc', _, hn, h => by
    simp only [Schema.applyAll, Except.ok.injEq] at h
    subst h; exact hn
  | s :: ss, doc, doc', hok, hn, h => by
    simp only [Schema.applyAll] at h
    split at h
    · rename_i d hd
      exact applyAll_norm S ss d doc' (fun x hx => hok x (by simp [hx]))
        (apply_norm S s doc d (hok s (by simp)) hn hd) h
    · simp at h

theorem chainOk_of_not_text : ∀ (l : List Node), (∀ n ∈ l, n.isText = false) → chainOk l = true
  | [], _ => rfl
  | [_], _ => rfl
  | a :: b :: r, h => by
    have ha := h a (by simp)
    have ih := chainOk_of_not_text (b :: r) (fun n hn => h n (by simp [hn]))
    cases a with
    | text => simp [Node.isText] at ha
    | leaf => simp [chainOk, adjOk, ih]
    | elem => simp [chainOk, adjOk, ih]

theorem mapM_some_mem {α β} (f : α → Option β) : ∀ (l : List α) (r : List β), l.mapM f = some r →
    ∀ y ∈ r, ∃ x, f x = some y
  | [], r, h, y, hy => by simp at h; subst h; simp at hy
  | a :: l, r, h, y, hy => by
    simp only [List.mapM_cons] at h
    cases ha : f a with
    | none => simp [ha] at h
    | some b =>
      cases hl : l.mapM f with
      | none => simp [ha, hl] at h
      | some bs =>
        simp [ha, hl] at h
        subst h
        rcases List.mem_cons.mp hy with rfl | hy
        · exact ⟨a, ha⟩
        · exact mapM_some_mem f l bs hl y hy

/-- the nodes `create_and_fill` builds contain no text: they are in normal form -/
theorem createAndFill0_norm (S : Schema) : ∀ (fuel : Nat) (t : TypeId) (n : Node),
    S.createAndFill0 fuel t = some n → n.norm = true ∧ n.isText = false
  | 0, t, n, h => by simp [Schema.createAndFill0] at h
  | fuel + 1, t, n, h => by
    unfold Schema.createAndFill0 at h
    simp only at h
    split at h
    · simp at h
    · split at h
      · simp at h
      · split at h
        · simp at h
        · rename_i kids hk
          simp only [Option.some.injEq] at h
          subst h
          split
          · simp [Node.isText]
          · have hall : ∀ y ∈ kids, y.norm = true ∧ y.isText = false := by
              intro y hy
              obtain ⟨x, hx⟩ := mapM_some_mem _ _ _ hk y hy
              exact createAndFill0_norm S fuel x y hx
            refine ⟨?_, rfl⟩
            rw [Node.norm_elem]
            simp only [fnorm, Bool.and_eq_true]
            exact ⟨(fnormKids_iff kids).mpr (fun y hy => (hall y hy).1),
              chainOk_of_not_text kids (fun y hy => (hall y hy).2)⟩

theorem retypeFill_norm (S : Schema) (pty : TypeId) (q : Nat) : fnorm (retypeFill S pty q) = true := by
  unfold retypeFill
  split
  · rfl
  · split
    · rfl
    · rename_i tys _
      cases hm : tys.mapM (S.createAndFill0 (S.nodes.size + 1)) with
      | none => rfl
      | some nodes =>
        simp only [Option.getD_some, fnorm, Bool.and_eq_true]
        have hall : ∀ y ∈ nodes, y.norm = true ∧ y.isText = false := by
          intro y hy
          obtain ⟨x, hx⟩ := mapM_some_mem _ _ _ hm y hy
          exact createAndFill0_norm S _ x y hx
        exact ⟨(fnormKids_iff nodes).mpr (fun y hy => (hall y hy).1),
          chainOk_of_not_text nodes (fun y hy => (hall y hy).2)⟩

theorem clearRm_normOk (S : Schema) (pty : TypeId) : ∀ (kids : List Node) (q cur : Nat),
    ∀ s ∈ clearRm S pty kids q cur, s.normOk
  | [], q, cur => by simp [clearRm]
  | c :: cs, q, cur => by
    simp only [clearRm]
    split
    · exact clearRm_normOk S pty cs _ _
    · intro s hs
      rcases List.mem_append.mp hs with hs | hs
      · obtain ⟨m, _, rfl⟩ := List.mem_map.mp hs
        trivial
      · exact clearRm_normOk S pty cs _ _ s hs

theorem clearEdits_normOk (S : Schema) (pty : TypeId) : ∀ (kids : List Node) (q cur : Nat),
    ∀ e ∈ clearEdits S pty kids q cur, (Edit.step e).normOk
  | [], q, cur => by simp [clearEdits]
  | c :: cs, q, cur => by
    simp only [clearEdits]
    split
    · intro e he
      rcases List.mem_cons.mp he with rfl | he
      · simp [Edit.step, Step.normOk, fnorm, fnormKids, chainOk]
      · exact clearEdits_normOk S pty cs _ _ e he
    · intro e he
      rcases List.mem_append.mp he with he | he
      · cases c with
        | text s ms =>
          simp only [nlEdits] at he
          split at he
          · simp at he
          · obtain ⟨ab, _, rfl⟩ := List.mem_map.mp he
            simp [Edit.step, Step.normOk, fnorm, fnormKids, chainOk, Node.norm]
        | leaf => simp [nlEdits] at he
        | elem => simp [nlEdits] at he
      · exact clearEdits_normOk S pty cs _ _ e he

theorem clearPlan_normOk (S : Schema) (pty : TypeId) (kids : List Node) (q cur : Nat) :
    ∀ s ∈ clearPlan S pty kids q cur, s.normOk := by
  intro s hs
  unfold clearPlan at hs
  rcases List.mem_append.mp hs with hs | hs
  · rcases List.mem_append.mp hs with hs | hs
    · exact clearRm_normOk S pty kids q cur s hs
    · unfold fillPlan at hs
      split at hs
      · simp at hs
      · simp only [List.mem_singleton] at hs
        subst hs
        exact retypeFill_norm S pty _
  · rw [List.mem_reverse] at hs
    obtain ⟨e, he, rfl⟩ := List.mem_map.mp hs
    exact clearEdits_normOk S pty kids q cur e he

/-! ### 7. `node_at` and the walk on a document in normal form -/

theorem nodeAtKids_norm (kids : List Node) (pos : Nat) (n : Node) (hn : fnormKids kids = true)
    (h : nodeAtKids kids pos = .ok (some n)) : n.norm = true := by
  fun_induction nodeAtKids kids pos
  case case1 => simp at h
  case case2 => simp at h
  case case3 n' ns =>
    simp only [Except.ok.injEq, Option.some.injEq] at h; subst h
    simp only [fnormKids_cons, Bool.and_eq_true] at hn; exact hn.1
  case case4 n' ns pos h0 h1 ih =>
    simp only [fnormKids_cons, Bool.and_eq_true] at hn
    exact ih hn.2 h
  case case5 ns pos h0 ty ats mk k h1 ih =>
    simp only [fnormKids_cons, Bool.and_eq_true, Node.norm_elem] at hn
    exact ih (fnormKids_of_fnorm hn.1) h
  case case6 n' ns pos h0 h1 hne =>
    simp only [Except.ok.injEq, Option.some.injEq] at h; subst h
    simp only [fnormKids_cons, Bool.and_eq_true] at hn; exact hn.1

/-- `node_at` at a position where the tokens of an element node start finds that node (documents in
    normal form are determined by their tokens) -/
theorem nodeAt_elem_of_window (doc node : Node) (pos : Nat) (t : TypeId) (a : Attrs) (m : Marks)
    (kids : List Node) (R : List Tok) (hn : fnorm doc.kids = true) (hk : fnorm kids = true)
    (h : doc.nodeAt pos = .ok (some node))
    (hw : (ftoks doc.kids).drop pos = Tok.op t a m :: (ftoks kids ++ Tok.cl :: R)) :
    node = .elem t a m kids := by
  have hnn := nodeAtKids_norm doc.kids pos node (fnormKids_of_fnorm hn) h
  obtain ⟨p, hp1, hp2, hp3, hp4⟩ := nodeAtKids_some doc.kids pos node h
  cases node with
  | text s ms =>
    exfalso
    have hs : s.length ≠ 0 := by
      intro h0
      have : s = [] := List.eq_nil_of_length_eq_zero h0
      subst this; simp at hnn
    have hlt : pos < p + s.length := hp2 (by simpa [Node.size] using hs)
    have hget : (ftoks doc.kids)[pos]? = ((ftoks doc.kids).drop pos)[0]? := by simp
    rw [hw] at hget
    have hget2 : (ftoks doc.kids)[pos]? = (((ftoks doc.kids).drop p).take (Node.text s ms).size)[pos - p]? := by
      rw [List.getElem?_take_of_lt (by simp [Node.size]; omega), List.getElem?_drop]
      congr 1; omega
    rw [hp3, hget] at hget2
    simp only [Node.toks_text, List.getElem?_map, List.getElem?_cons_zero] at hget2
    cases hc : s[pos - p]? with
    | none => simp [hc] at hget2
    | some c => simp [hc] at hget2
  | leaf t' a' m' =>
    exfalso
    have hpp : p = pos := by
      rcases hp4 with h | h
      · exact h
      · simp [Node.isText] at h
    subst hpp
    rw [hw] at hp3
    simp [Node.size] at hp3
  | elem t' a' m' k' =>
    have hpp : p = pos := by
      rcases hp4 with h | h
      · exact h
      · simp [Node.isText] at h
    subst hpp
    have hd := List.take_append_drop (Node.elem t' a' m' k').size ((ftoks doc.kids).drop p)
    rw [hp3, hw] at hd
    simp only [Node.toks_elem, List.cons_append, List.cons.injEq, Tok.op.injEq, List.append_assoc] at hd
    obtain ⟨⟨rfl, rfl, rfl⟩, hrest⟩ := hd
    obtain ⟨e1, _⟩ := balanced_prefix_unique k' kids _ _ hrest
    rw [Node.norm_elem] at hnn
    rw [ftoks_inj k' kids hnn hk e1]

/-- the node a visit reports occupies its token window, and is in normal form when the fragment is -/
theorem nodesBetweenP_window : ∀ (kids : List Node) (p : TypeId) (f t start i0 : Nat),
    ∀ v ∈ nodesBetweenP p kids f t start i0,
      start ≤ v.pos ∧ ((ftoks kids).drop (v.pos - start)).take v.node.size = v.node.toks ∧
      (fnormKids kids = true → v.node.norm = true)
  | [], p, f, t, start, i0 => by simp [nodesBetweenP]
  | n :: ns, p, f, t, start, i0 => by
    intro v hv
    rw [nodesBetweenP_cons] at hv
    split at hv
    · simp at hv
    · rcases List.mem_append.mp hv with hv | hv
      · split at hv
        · rcases List.mem_cons.mp hv with rfl | hv
          · refine ⟨Nat.le_refl _, ?_, fun h => ?_⟩
            · simp [← Node.toks_length]
            · simp only [fnormKids_cons, Bool.and_eq_true] at h; exact h.1
          · cases n with
            | text => simp at hv
            | leaf => simp at hv
            | elem ty a m kids =>
              simp only at hv
              split at hv
              · simp at hv
              · obtain ⟨h1, h2, h3⟩ := nodesBetweenP_window kids ty _ _ _ _ v hv
                refine ⟨by omega, ?_, fun h => ?_⟩
                · rw [ftoks_cons, Node.toks_elem]
                  obtain ⟨d, hd⟩ : ∃ d, v.pos - start = d + 1 := ⟨v.pos - start - 1, by omega⟩
                  rw [hd, List.cons_append, List.drop_succ_cons, List.append_assoc]
                  have : v.pos - (start + 1) = d := by omega
                  rw [this] at h2
                  exact list_window_ext _ _ _ _ _ h2 (Node.toks_length _)
                · simp only [fnormKids_cons, Bool.and_eq_true, Node.norm_elem] at h
                  exact h3 (fnormKids_of_fnorm h.1)
        · simp at hv
      · obtain ⟨h1, h2, h3⟩ := nodesBetweenP_window ns p _ _ _ _ v hv
        refine ⟨by omega, ?_, fun h => ?_⟩
        · rw [ftoks_cons, List.drop_append, List.drop_of_length_le (by rw [Node.toks_length]; omega),
            Node.toks_length]
          have : v.pos - start - n.size = v.pos - (start + n.size) := by omega
          rw [this]
          simpa using h2
        · simp only [fnormKids_cons, Bool.and_eq_true] at h
          exact h3 h.2

theorem docVisits_window (S : Schema) (doc : Node) (f t : Nat) :
    ∀ v ∈ S.docVisits doc f t,
      ((ftoks doc.kids).drop v.pos).take v.node.size = v.node.toks ∧
      (fnorm doc.kids = true → v.node.norm = true) := by
  intro v hv
  obtain ⟨_, h2, h3⟩ := nodesBetweenP_window doc.kids _ f t 0 0 v hv
  exact ⟨by simpa using h2, fun h => h3 (fnormKids_of_fnorm h)⟩

/-! ### 8. the fold of `set_block_type` -/

theorem createNode_elem (S : Schema) (ty : TypeId) (attrs : Attrs) (marks : Marks) (nn : Node)
    (hleaf : (S.nodeType ty).isLeaf = false) (h : S.createNode ty attrs marks = .ok nn) :
    ∃ a', nn = .elem ty a' (setFrom marks) [] := by
  unfold Schema.createNode at h
  simp only [hleaf] at h
  split at h
  · simp at h
  · cases hc : computeAttrs (S.nodeType ty).attrs attrs with
    | error e => rw [hc] at h; simp [Except.map] at h
    | ok a =>
      rw [hc] at h
      simp only [Except.map, Bool.false_eq_true, if_false, Except.ok.injEq] at h
      exact ⟨a, h.symm⟩

theorem Node.kids_elem (t : TypeId) (a : Attrs) (m : Marks) (k : List Node) : (Node.elem t a m k).kids = k := rfl
theorem Node.marks_elem (t : TypeId) (a : Attrs) (m : Marks) (k : List Node) : (Node.elem t a m k).marks = m := rfl
theorem Node.headTok_elem (t : TypeId) (a : Attrs) (m : Marks) (k : List Node) :
    (Node.elem t a m k).headTok = Tok.op t a m := rfl

/-- the state of the walk of `set_block_type` against the original token list `L0`: everything from
    `skip` on is untouched and sits behind the rewritten prefix `X`; original positions from `skip`
    on are mapped accordingly by the step maps recorded since the operation began (`mf`) -/
structure SbtInv (L0 : List Tok) (mf : Nat) (st : PSt) (skip : Nat) (X : List Tok) : Prop where
  toks : ftoks st.tr.doc.kids = X ++ L0.drop skip
  maps : ∀ p : Nat, skip ≤ p → mapsThrough (st.tr.maps.drop mf) p 1 = (X.length : Int) + ((p : Int) - skip)
  fits : st.fits = []
  mf_le : mf ≤ st.tr.maps.length
  skip_le : skip ≤ L0.length
  norm : fnorm st.tr.doc.kids = true

/-- the tokens a converted block is replaced by -/
def convToks (S : Schema) (ty : TypeId) (nn : Node) (kids : List Node) : List Tok :=
  nn.headTok :: (ftoks (retypedChildren S ty kids) ++ [Tok.cl])

theorem sbtVisit_conv (S : Schema) (ty : TypeId) (attrs : Attrs) (mf : Nat) (L0 : List Tok)
    (hty : (S.nodeType ty).isLeaf = false) (st st1 st2 : PSt) (skip : Nat) (X : List Tok) (v : NV) (nn : Node)
    (hI : SbtInv L0 mf st skip X) (hsk : skip ≤ v.pos)
    (hw : (L0.drop v.pos).take v.node.size = v.node.toks) (hvn : v.node.norm = true)
    (hnl : v.node.isLeaf = false)
    (hclear : st.clearIncompatible S (st.mapFrom mf v.pos 1) ty = .ok st1)
    (hnn : S.createNode ty attrs v.node.marks = .ok nn)
    (hstep : st1.step S (retypeStep (st1.mapFrom mf v.pos 1) (st1.mapFrom mf (v.pos + v.node.size) 1) nn)
      = .ok st2) :
    st.mapFrom mf v.pos 1 = X.length + (v.pos - skip) ∧
    st.tr.doc.nodeAt (X.length + (v.pos - skip)) = .ok (some v.node) ∧
    st1.mapFrom mf v.pos 1 = X.length + (v.pos - skip) ∧
    st1.mapFrom mf (v.pos + v.node.size) 1 =
      X.length + (v.pos - skip) + 2 + fsize (retypedChildren S ty v.node.kids) ∧
    SbtInv L0 mf st2 (v.pos + v.node.size)
      (X ++ (L0.drop skip).take (v.pos - skip) ++ convToks S ty nn v.node.kids) := by
  obtain ⟨vn, vpos, vp, vi⟩ := v
  simp only at hsk hw hvn hnl hclear hnn hstep ⊢
  cases vn with
  | text => simp [Node.isLeaf] at hnl
  | leaf => simp [Node.isLeaf] at hnl
  | elem t a m kids =>
  obtain ⟨a', rfl⟩ := createNode_elem S ty attrs _ nn hty hnn
  have hkn : fnorm kids = true := by rw [Node.norm_elem] at hvn; exact hvn
  simp only [Node.kids_elem, Node.size_elem, Node.marks_elem] at *
  obtain ⟨_, hlen0⟩ := window_decomp L0 _ vpos (2 + fsize kids) hw
    (by rw [Node.toks_length, Node.size_elem]) (by omega)
  -- the original document behind `vpos`
  have hdrop0 : L0.drop vpos = Tok.op t a m :: (ftoks kids ++ Tok.cl :: L0.drop (vpos + (2 + fsize kids))) := by
    have := List.take_append_drop (2 + fsize kids) (L0.drop vpos)
    rw [hw, List.drop_drop] at this
    rw [← this]; simp
  -- the mapped start
  have hs0 : st.mapFrom mf vpos 1 = X.length + (vpos - skip) := by
    rw [PSt.mapFrom_eq, hI.maps vpos hsk]; omega
  rw [hs0] at hclear
  -- the current tokens
  have hPre : (X ++ (L0.drop skip).take (vpos - skip)).length = X.length + (vpos - skip) := by
    simp; omega
  have hL : ftoks st.tr.doc.kids = (X ++ (L0.drop skip).take (vpos - skip)) ++
      Tok.op t a m :: (ftoks kids ++ Tok.cl :: L0.drop (vpos + (2 + fsize kids))) := by
    rw [hI.toks, ← hdrop0]
    have := List.take_append_drop (vpos - skip) (L0.drop skip)
    rw [List.drop_drop, show skip + (vpos - skip) = vpos by omega] at this
    rw [List.append_assoc, this]
  obtain ⟨node', hnode', hf1, _, hm1, ha1, ht1⟩ :=
    clearIncompatible_effect S st st1 (X.length + (vpos - skip)) ty 0 hI.fits hclear
  have hnode'eq : node' = .elem t a m kids :=
    nodeAt_elem_of_window st.tr.doc node' _ t a m kids _ hI.norm hkn hnode'
      (by rw [hL, List.drop_left' hPre])
  subst hnode'eq
  have ht1' := ht1 rfl
  simp only [Node.kids_elem, Node.size_elem, Node.headTok_elem] at ht1' hm1 ha1
  rw [hL, List.take_left' hPre,
    show X.length + (vpos - skip) + (2 + fsize kids) =
      (X ++ (L0.drop skip).take (vpos - skip) ++ Tok.op t a m :: (ftoks kids ++ [Tok.cl])).length by
        simp [ftoks_length]; omega,
    show (X ++ (L0.drop skip).take (vpos - skip)) ++
        Tok.op t a m :: (ftoks kids ++ Tok.cl :: L0.drop (vpos + (2 + fsize kids))) =
      (X ++ (L0.drop skip).take (vpos - skip) ++ Tok.op t a m :: (ftoks kids ++ [Tok.cl])) ++
        L0.drop (vpos + (2 + fsize kids)) by simp,
    List.drop_left] at ht1'
  have hn1 : fnorm st1.tr.doc.kids = true :=
    applyAll_norm S _ st.tr.doc st1.tr.doc (clearPlan_normOk S ty kids 0 _) hI.norm ha1
  -- positions after `clear_incompatible`
  have hdrop1 : st1.tr.maps.drop mf = st.tr.maps.drop mf ++
      (clearPlan S ty kids 0 (X.length + (vpos - skip) + 1)).map Step.getMap := by
    rw [hm1, List.drop_append_of_le_length hI.mf_le]
  have hmap1 : ∀ p : Nat, vpos + (2 + fsize kids) ≤ p → mapsThrough (st1.tr.maps.drop mf) p 1 =
      ((X.length + (vpos - skip) + 2 + fsize (retypedChildren S ty kids) : Nat) : Int) +
        ((p : Int) - (vpos + (2 + fsize kids) : Nat)) := by
    intro p hp
    rw [hdrop1, mapsThrough_append, hI.maps p (by omega)]
    have := (clearPlan_maps S ty kids 0 (X.length + (vpos - skip) + 1)
      ((X.length : Int) + ((p : Int) - skip))).1 (by push_cast; omega)
    rw [this]; push_cast; omega
  have hs1 : st1.mapFrom mf vpos 1 = X.length + (vpos - skip) := by
    rw [PSt.mapFrom_eq, hdrop1, mapsThrough_append, hI.maps vpos hsk]
    have := (clearPlan_maps S ty kids 0 (X.length + (vpos - skip) + 1)
      ((X.length : Int) + ((vpos : Int) - skip))).2 (by push_cast; omega) 1
    rw [this]; omega
  have he1 : st1.mapFrom mf (vpos + (2 + fsize kids)) 1 =
      X.length + (vpos - skip) + 2 + fsize (retypedChildren S ty kids) := by
    rw [PSt.mapFrom_eq, hmap1 _ (Nat.le_refl _)]; omega
  rw [hs1, he1] at hstep
  obtain ⟨hap, _, hm2, hf2⟩ := PSt.step_facts S st1 st2 _ hstep
  obtain ⟨ht2, _⟩ := retypeStep_toks S st1.tr.doc st2.tr.doc _ _ _ rfl (by omega) hap
  -- the new tokens
  have hRC : (ftoks (retypedChildren S ty kids)).length = fsize (retypedChildren S ty kids) := ftoks_length _
  have htoks2 : ftoks st2.tr.doc.kids = (X ++ (L0.drop skip).take (vpos - skip) ++
      convToks S ty (Node.elem ty a' (setFrom m) []) kids) ++ L0.drop (vpos + (2 + fsize kids)) := by
    rw [ht2, ht1']
    have e1 : (X ++ (L0.drop skip).take (vpos - skip) ++
        Tok.op t a m :: (ftoks (retypedChildren S ty kids) ++ Tok.cl :: L0.drop (vpos + (2 + fsize kids)))) =
        (X ++ (L0.drop skip).take (vpos - skip)) ++ ([Tok.op t a m] ++ (ftoks (retypedChildren S ty kids) ++
          ([Tok.cl] ++ L0.drop (vpos + (2 + fsize kids))))) := by simp
    rw [e1, List.take_left' hPre]
    rw [show X.length + (vpos - skip) + 1 = (X ++ (L0.drop skip).take (vpos - skip) ++ [Tok.op t a m]).length by
      simp; omega]
    rw [← List.append_assoc (X ++ (L0.drop skip).take (vpos - skip)) [Tok.op t a m], List.drop_left]
    rw [show X.length + (vpos - skip) + 2 + fsize (retypedChildren S ty kids) - (X.length + (vpos - skip)) - 2 =
      (ftoks (retypedChildren S ty kids)).length by rw [hRC]; omega, List.take_left]
    rw [show X.length + (vpos - skip) + 2 + fsize (retypedChildren S ty kids) =
      (X ++ (L0.drop skip).take (vpos - skip) ++ [Tok.op t a m] ++ ftoks (retypedChildren S ty kids) ++ [Tok.cl]).length by
      simp [hRC]; omega]
    rw [show X ++ (L0.drop skip).take (vpos - skip) ++ [Tok.op t a m] ++
        (ftoks (retypedChildren S ty kids) ++ ([Tok.cl] ++ L0.drop (vpos + (2 + fsize kids)))) =
        (X ++ (L0.drop skip).take (vpos - skip) ++ [Tok.op t a m] ++ ftoks (retypedChildren S ty kids) ++ [Tok.cl]) ++
          L0.drop (vpos + (2 + fsize kids)) by simp, List.drop_left]
    simp [convToks, Node.headTok]
  have hXlen : (X ++ (L0.drop skip).take (vpos - skip) ++
      convToks S ty (Node.elem ty a' (setFrom m) []) kids).length =
      X.length + (vpos - skip) + 2 + fsize (retypedChildren S ty kids) := by
    simp [convToks, hRC]; omega
  refine ⟨hs0, hnode', hs1, he1,
    htoks2, ?_, by rw [hf2, hf1], by rw [hm2, hm1]; simp; have := hI.mf_le; omega, hlen0, ?_⟩
  · intro p hp
    rw [hm2, List.drop_append_of_le_length (by rw [hm1]; simp; have := hI.mf_le; omega),
      mapsThrough_append, hmap1 p hp, hXlen]
    simp only [mapsThrough_cons, mapsThrough_nil, retypeStep, Step.getMap, Slice.size, fsize_cons,
      fsize_nil, Node.size_elem]
    rw [map_two_ge _ _ _ _ _ _ _ (by omega) (by omega) (by push_cast; omega) (by push_cast; omega)]
    push_cast; omega
  · exact apply_norm S _ st1.tr.doc st2.tr.doc
      (by simp [retypeStep, Step.normOk, fnorm, fnormKids, chainOk, Node.norm]) hn1 hap

/-- **what a run of the `set_block_type` callback over a list of visits does**, as a relation between
    `(skip, X)` before and after (`X` = the rewritten tokens of the original positions `< skip`,
    `L0` = the original token list):
    * `pass`: the visit changes nothing — it lies inside a block converted before (`pos < skip`), or
      is not a textblock, or has the requested markup already, or `can_change_type` says no on a
      document with the current tokens, at the block's current position;
    * `conv`: the visit is at or after `skip`, a textblock without the requested markup,
      `can_change_type` says yes: the tokens between `skip` and the block are copied, the block
      becomes the new node (`create(attrs, None, node.marks)`) around `retypedChildren` of its
      children, and `skip` moves to the block's end. -/
inductive SbtRun (S : Schema) (ty : TypeId) (attrs : Attrs) (L0 : List Tok) :
    List NV → Nat → List Tok → Nat → List Tok → Prop
  | done (skip : Nat) (X : List Tok) : SbtRun S ty attrs L0 [] skip X skip X
  | pass (v : NV) (vs : List NV) (skip : Nat) (X : List Tok) (skip' : Nat) (X' : List Tok) :
      (v.pos < skip ∨ S.isTextblockN v.node = false ∨ S.hasMarkup v.node ty attrs = true ∨
        ∃ doc, ftoks doc.kids = X ++ L0.drop skip ∧
          canChangeTypeR S doc (X.length + (v.pos - skip)) ty = .ok false) →
      SbtRun S ty attrs L0 vs skip X skip' X' → SbtRun S ty attrs L0 (v :: vs) skip X skip' X'
  | conv (v : NV) (vs : List NV) (skip : Nat) (X : List Tok) (skip' : Nat) (X' : List Tok) (nn : Node) :
      skip ≤ v.pos → S.isTextblockN v.node = true → S.hasMarkup v.node ty attrs = false →
      (∃ doc, ftoks doc.kids = X ++ L0.drop skip ∧
        canChangeTypeR S doc (X.length + (v.pos - skip)) ty = .ok true) →
      S.createNode ty attrs v.node.marks = .ok nn →
      SbtRun S ty attrs L0 vs (v.pos + v.node.size)
        (X ++ (L0.drop skip).take (v.pos - skip) ++ convToks S ty nn v.node.kids) skip' X' →
      SbtRun S ty attrs L0 (v :: vs) skip X skip' X'

theorem sbt_foldl_error (S : Schema) (ty : TypeId) (attrs : Attrs) (mf : Nat) : ∀ (vs : List NV) (e : Err),
    vs.foldl (setBlockTypeVisit S ty attrs mf) (.error e) = .error e
  | [], _ => rfl
  | v :: vs, e => by
    simp only [List.foldl_cons, setBlockTypeVisit]
    exact sbt_foldl_error S ty attrs mf vs e

theorem sbt_fold (S : Schema) (ty : TypeId) (attrs : Attrs) (mf : Nat) (L0 : List Tok)
    (hty : (S.nodeType ty).isLeaf = false) : ∀ (vs : List NV) (st : PSt) (skip : Nat) (X : List Tok)
    (st' : PSt) (skip' : Nat),
    (∀ v ∈ vs, (L0.drop v.pos).take v.node.size = v.node.toks ∧ v.node.norm = true ∧
      (S.isTextblockN v.node = true → v.node.isLeaf = false)) →
    SbtInv L0 mf st skip X →
    vs.foldl (setBlockTypeVisit S ty attrs mf) (.ok (st, skip)) = .ok (st', skip') →
    ∃ X', SbtRun S ty attrs L0 vs skip X skip' X' ∧ SbtInv L0 mf st' skip' X'
  | [], st, skip, X, st', skip', _, hI, h => by
    simp only [List.foldl_nil, Except.ok.injEq, Prod.mk.injEq] at h
    obtain ⟨rfl, rfl⟩ := h
    exact ⟨X, .done _ _, hI⟩
  | v :: vs, st, skip, X, st', skip', hvs, hI, h => by
    have hv := hvs v (by simp)
    have hrest : ∀ w ∈ vs, (L0.drop w.pos).take w.node.size = w.node.toks ∧ w.node.norm = true ∧
        (S.isTextblockN w.node = true → w.node.isLeaf = false) := fun w hw => hvs w (by simp [hw])
    simp only [List.foldl_cons] at h
    -- a visit that leaves the state alone
    have same : setBlockTypeVisit S ty attrs mf (.ok (st, skip)) v = .ok (st, skip) →
        (v.pos < skip ∨ S.isTextblockN v.node = false ∨ S.hasMarkup v.node ty attrs = true ∨
          ∃ doc, ftoks doc.kids = X ++ L0.drop skip ∧
            canChangeTypeR S doc (X.length + (v.pos - skip)) ty = .ok false) →
        ∃ X', SbtRun S ty attrs L0 (v :: vs) skip X skip' X' ∧ SbtInv L0 mf st' skip' X' := by
      intro he hwhy
      rw [he] at h
      obtain ⟨X', hr, hI'⟩ := sbt_fold S ty attrs mf L0 hty vs st skip X st' skip' hrest hI h
      exact ⟨X', .pass v vs skip X skip' X' hwhy hr, hI'⟩
    by_cases h1 : v.pos < skip
    · exact same (by simp [setBlockTypeVisit, h1]) (.inl h1)
    · by_cases h2 : (!S.isTextblockN v.node || S.hasMarkup v.node ty attrs) = true
      · refine same (by simp only [setBlockTypeVisit, if_neg h1, if_pos h2]) ?_
        simp only [Bool.or_eq_true, Bool.not_eq_true'] at h2
        rcases h2 with h2 | h2
        · exact .inr (.inl h2)
        · exact .inr (.inr (.inl h2))
      · have hpos : st.mapFrom mf v.pos 1 = X.length + (v.pos - skip) := by
          rw [PSt.mapFrom_eq, hI.maps v.pos (by omega)]; omega
        have hstepv : setBlockTypeVisit S ty attrs mf (.ok (st, skip)) v =
            (match canChangeTypeR S st.tr.doc (st.mapFrom mf v.pos 1) ty with
            | .error e => .error e
            | .ok false => .ok (st, skip)
            | .ok true =>
              match st.clearIncompatible S (st.mapFrom mf v.pos 1) ty with
              | .error e => .error e
              | .ok st1 =>
                match S.createNode ty attrs v.node.marks with
                | .error e => .error e
                | .ok nn => (st1.step S (retypeStep (st1.mapFrom mf v.pos 1)
                    (st1.mapFrom mf (v.pos + v.node.size) 1) nn)).map (fun st2 => (st2, v.pos + v.node.size))) := by
          simp only [setBlockTypeVisit, if_neg h1, if_neg h2]
          rfl
        simp only [Bool.or_eq_true, Bool.not_eq_true', not_or, Bool.not_eq_false, Bool.not_eq_true] at h2
        cases hc : canChangeTypeR S st.tr.doc (st.mapFrom mf v.pos 1) ty with
        | error e =>
          rw [hstepv, hc] at h
          simp only at h
          rw [sbt_foldl_error] at h; simp at h
        | ok b =>
          cases b with
          | false =>
            refine same (by rw [hstepv, hc]) (.inr (.inr (.inr ⟨st.tr.doc, hI.toks, ?_⟩)))
            rw [← hpos]; exact hc
          | true =>
            rw [hstepv, hc] at h
            simp only at h
            cases hcl : st.clearIncompatible S (st.mapFrom mf v.pos 1) ty with
            | error e => rw [hcl] at h; simp only at h; rw [sbt_foldl_error] at h; simp at h
            | ok st1 =>
              rw [hcl] at h
              simp only at h
              cases hnn : S.createNode ty attrs v.node.marks with
              | error e => rw [hnn] at h; simp only at h; rw [sbt_foldl_error] at h; simp at h
              | ok nn =>
                rw [hnn] at h
                simp only at h
                cases hst : st1.step S (retypeStep (st1.mapFrom mf v.pos 1)
                    (st1.mapFrom mf (v.pos + v.node.size) 1) nn) with
                | error e => rw [hst] at h; simp only [Except.map] at h; rw [sbt_foldl_error] at h; simp at h
                | ok st2 =>
                  rw [hst] at h
                  simp only [Except.map] at h
                  have hI2 := (sbtVisit_conv S ty attrs mf L0 hty st st1 st2 skip X v nn hI (by omega)
                    hv.1 hv.2.1 (hv.2.2 h2.1) hcl hnn hst).2.2.2.2
                  obtain ⟨X', hr, hI'⟩ := sbt_fold S ty attrs mf L0 hty vs st2 _ _ st' skip' hrest hI2 h
                  refine ⟨X', .conv v vs skip X skip' X' nn (by omega) h2.1 h2.2
                    ⟨st.tr.doc, hI.toks, ?_⟩ hnn hr, hI'⟩
                  rw [← hpos]; exact hc

end PM
