/-
  Proofs/FitTopLevel.lean — the Fitter's run on a closed one-node slice put in at a child boundary of the top node
  (depth 0), evaluated exactly: `find_fittable` hits at once (pass 1, frontier depth 0), `place_nodes` places the node
  with the marks the parent does not allow dropped, `close` finds level 0 with nothing to fill, and the step is
  `ReplaceStep(p, p, Slice([stripped node], 0, 0))`.  (Property C12: `tr.insert` of a marked node at a top-level
  insert point.)
-/
import PM.Fitter
import Proofs.Resolve
namespace PM

theorem fillBeforeNodes_nil (S : Schema) (d : Dfa) (q : Nat) (after : List TypeId) (q2 : Nat)
    (hrun : d.run q after = some q2) (hve : d.validEnd q2 = true) :
    fillBeforeNodes S d q after true = some (some []) := by
  have : fillBeforeTypes S d q after true = some [] := by
    unfold fillBeforeTypes fillSearchO
    simp [hrun, hve]
  simp [fillBeforeNodes, this]

theorem fitInit_top (S : Schema) (rp : RPos) (sl : Slice) (hd0 : rp.depth = 0) (q : Nat)
    (hq : S.contentMatchAt (S.tyOf (rp.node 0)) (rp.node 0).kids (rp.indexAfter 0) = some q) :
    fitInit S rp sl = .ok ⟨sl, [⟨S.tyOf (rp.node 0), some q⟩], []⟩ := by
  unfold fitInit
  rw [hd0]
  simp [List.range_succ, List.range_zero, hq, liftRaise, bind, Except.bind, pure, Except.pure]

theorem findFittable_top (S : Schema) (ty0 : TypeId) (q q' : Nat) (n : Node) (placed : List Node)
    (hq' : (S.dfa ty0).matchType q (S.tyOf n) = some q') :
    findFittable S ⟨⟨[n], 0, 0⟩, [⟨ty0, some q⟩], placed⟩ = .ok (some ⟨0, 0, none, none, none⟩) := by
  simp [findFittable, fittableStart, scanSlice, sliceLevel, scanFrontier, getItem, frontierHit, getSt, hq',
    bind, Except.bind, pure, Except.pure]

theorem placeNodes_top (S : Schema) (ty0 : TypeId) (q q' : Nat) (n : Node)
    (hq' : (S.dfa ty0).matchType q (S.tyOf n) = some q') :
    placeNodes S ⟨⟨[n], 0, 0⟩, [⟨ty0, some q⟩], []⟩ ⟨0, 0, none, none, none⟩
      = .ok ⟨Slice.empty, [⟨ty0, some q'⟩], [n.withMarks ((S.nodeType ty0).allowedMarks n.marks)]⟩ := by
  simp [placeNodes, closeMany, openMany, Fittable.fragment, getItem, getSt, liftRaise, Dfa.run, Schema.types,
    takeLoop, hq', closeNodeStart, addToFragment, fromArray, addNodes, addNode, fappend, pushOpenEnd, placeRest,
    bind, Except.bind, pure, Except.pure]

theorem fitLoop_top (S : Schema) (ty0 : TypeId) (q q' : Nat) (n : Node) (hsz : n.size ≠ 0)
    (hq' : (S.dfa ty0).matchType q (S.tyOf n) = some q') (fuel : Nat) :
    fitLoop S (fuel + 1) ⟨⟨[n], 0, 0⟩, [⟨ty0, some q⟩], []⟩
      = .ok ⟨Slice.empty, [⟨ty0, some q'⟩], [n.withMarks ((S.nodeType ty0).allowedMarks n.marks)]⟩ := by
  have h0 : ((⟨[n], 0, 0⟩ : Slice).size == 0) = false := by
    simp [Slice.size]; omega
  have h1 : (Slice.empty.size == 0) = true := by simp [Slice.size, Slice.empty]
  unfold fitLoop
  simp only [h0, Bool.false_eq_true, if_false, fitStep, findFittable_top S ty0 q q' n [] hq',
    placeNodes_top S ty0 q q' n hq', bind, Except.bind]
  cases fuel with
  | zero => unfold fitLoop; simp [h1, pure, Except.pure]
  | succ k => unfold fitLoop; simp [h1, pure, Except.pure]

theorem closeFit_top (S : Schema) (doc : Node) (rt : RPos) (hd0 : rt.depth = 0) (q' q2 : Nat)
    (hrun : (S.dfa (S.tyOf (rt.node 0))).run q' (S.types ((rt.node 0).kids.drop (rt.index 0))) = some q2)
    (hve : (S.dfa (S.tyOf (rt.node 0))).validEnd q2 = true)
    (hmk : invalidMarks S (S.tyOf (rt.node 0)) ((rt.node 0).kids.drop (rt.index 0)) = false) (placed : List Node) :
    closeFit S doc rt [⟨S.tyOf (rt.node 0), some q'⟩] placed = .ok (some (rt, placed)) := by
  have hfill := fillBeforeNodes_nil S _ q' _ q2 hrun hve
  have hcc : S.compatibleContent (S.tyOf (rt.node 0)) (S.tyOf (rt.node 0)) = true := by
    simp [Schema.compatibleContent]
  have hlv : findCloseLevel S doc rt [⟨S.tyOf (rt.node 0), some q'⟩] = .ok (some ⟨0, [], rt⟩) := by
    simp [findCloseLevel, findCloseLevelLoop, getItem, hd0, contentAfterFits, contentAfterFitsAt, hcc, fillOpt,
      hfill, hmk, liftRaise, closeInner, closeMove, bind, Except.bind, pure, Except.pure]
  simp [closeFit, hlv, closeMany, reopen, hd0, bind, Except.bind, pure, Except.pure]

theorem Node.size_withMarks (n : Node) (m : Marks) : (n.withMarks m).size = n.size := by
  cases n <;> simp [Node.withMarks, Node.size]

/-- **the Fitter on a closed one-node slice at a child boundary of the top node** (not a textblock): the node's type
    matches there, the rest of the children goes on from the new state to a valid end -/
theorem fitterFit_top (S : Schema) (doc : Node) (rp : RPos) (n : Node) (hd0 : rp.depth = 0)
    (hnt : S.isTextblockO (S.tyOf (rp.node 0)) = false) (q q' q2 : Nat)
    (hq : S.contentMatchAt (S.tyOf (rp.node 0)) (rp.node 0).kids (rp.indexAfter 0) = some q)
    (hq' : (S.dfa (S.tyOf (rp.node 0))).matchType q (S.tyOf n) = some q')
    (hrun : (S.dfa (S.tyOf (rp.node 0))).run q' (S.types ((rp.node 0).kids.drop (rp.index 0))) = some q2)
    (hve : (S.dfa (S.tyOf (rp.node 0))).validEnd q2 = true)
    (hmk : invalidMarks S (S.tyOf (rp.node 0)) ((rp.node 0).kids.drop (rp.index 0)) = false)
    (hsz : n.size ≠ 0) (fuel : Nat) :
    fitterFit S doc rp rp ⟨[n], 0, 0⟩ (fuel + 1) = .ok (some (.replace rp.pos rp.pos
      ⟨[n.withMarks ((S.nodeType (S.tyOf (rp.node 0))).allowedMarks n.marks)], 0, 0⟩ false)) := by
  have hpar : rp.parent = rp.node 0 := by simp [RPos.parent, hd0]
  have hs : ((⟨[n.withMarks ((S.nodeType (S.tyOf (rp.node 0))).allowedMarks n.marks)], 0, 0⟩ : Slice).size != 0) = true := by
    simp [Slice.size, Node.size_withMarks]; omega
  unfold fitterFit
  simp only [fitInit_top S rp _ hd0 q hq, fitLoop_top S _ q q' n hsz hq' fuel, bind, Except.bind,
    mustMoveInline, hpar, hnt, Bool.not_false, if_true, pure, Except.pure, closeTarget,
    closeFit_top S doc rp hd0 q' q2 hrun hve hmk]
  simp [fitEmit, normalizeOpen, hd0, hs, pure, Except.pure]

end PM
