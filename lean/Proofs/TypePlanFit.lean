/-
  Proofs/TypePlanFit.lean — helper lemmas for the planners with the Fitter model plugged in
  (PM/TypePlanFit.lean).

  1. the bridge to the recorded-oracle versions of PM/TypePlan.lean (`Agrees`): the oracle version
     fed with exactly the answers `replaceStep` gives at the consulted requests makes the same run.
  2. what one `Transform.replace` does in the plugged-in version (`PSt.replaceF_cases`).
  3. `clear_incompatible` with the Fitter: the walk, the filler request, the deletions.
-/
import PM.TypePlanFit
import Proofs.TypePlan
import Proofs.Fitter
import Proofs.FitterText
namespace PM

/-! ### 1. the bridge -/

/-- the same planner state with another oracle list / log -/
def PSt.withFits (st : PSt) (l : List (Res (Option Step))) : PSt := { st with fits := l }

@[simp] theorem PSt.withFits_tr (st : PSt) (l) : (st.withFits l).tr = st.tr := rfl
@[simp] theorem PSt.withFits_fits (st : PSt) (l) : (st.withFits l).fits = l := rfl
@[simp] theorem PSt.withFits_withFits (st : PSt) (l l') : (st.withFits l).withFits l' = st.withFits l' := rfl
theorem PSt.withFits_self (st : PSt) : st.withFits st.fits = st := rfl

theorem PSt.step_withFits (S : Schema) (st : PSt) (l) (s : Step) :
    (st.withFits l).step S s = (st.step S s).map (·.withFits l) := by
  unfold PSt.step
  simp only [PSt.withFits_tr]
  cases st.tr.step S s <;> rfl

theorem PSt.stepAll_withFits (S : Schema) : ∀ (ss : List Step) (st : PSt) (l),
    (st.withFits l).stepAll S ss = (st.stepAll S ss).map (·.withFits l)
  | [], st, l => rfl
  | s :: ss, st, l => by
    simp only [PSt.stepAll, PSt.step_withFits]
    cases hs : st.step S s with
    | error e => rfl
    | ok st1 => simp only [Except.map]; exact PSt.stepAll_withFits S ss st1 l

theorem PSt.mapFrom_withFits (st : PSt) (l) (mf p : Nat) (a : Int) :
    (st.withFits l).mapFrom mf p a = st.mapFrom mf p a := rfl

theorem clearLoop_withFits (S : Schema) (pty : TypeId) (l) : ∀ (kids : List Node) (q cur : Nat)
    (repl : List Step) (st : PSt),
    clearLoop S pty kids q cur repl (st.withFits l) =
      (clearLoop S pty kids q cur repl st).map (fun r => (r.1, r.2.1, r.2.2.1, r.2.2.2.withFits l))
  | [], q, cur, repl, st => rfl
  | c :: cs, q, cur, repl, st => by
    unfold clearLoop
    simp only
    split
    · exact clearLoop_withFits S pty l cs _ _ _ st
    · rw [PSt.stepAll_withFits]
      cases hs : st.stepAll S (List.map (fun m => Step.removeMark cur (cur + c.size) m)
          (List.filter (fun m => !(S.nodeType pty).allowsMarkType m.ty) c.marks)) with
      | error e => rfl
      | ok st1 => simp only [Except.map]; exact clearLoop_withFits S pty l cs _ _ _ st1

/-- the outcome of a plugged-in run in the vocabulary of the oracle versions, the log replaced by
    the oracle answers not yet consumed -/
def bridged (r : PlanRes PSt) (rest : List (Res (Option Step))) : Res PSt :=
  match r with
  | .ok s => .ok (s.withFits rest)
  | .error e => .error e.toErr

/-- **the bridge relation**: `rF` is the outcome of a plugged-in planner started in `st`, `run` the
    oracle version of the same planner as a function of its start state.  There is a list `asked`
    — the answers the Fitter model gave during the plugged-in run, which that run appended to its
    log — such that the oracle version started with `asked` (followed by anything) as its recorded
    list has the same outcome and has consumed exactly `asked`. -/
def Agrees (st : PSt) (rF : PlanRes PSt) (run : PSt → Res PSt) : Prop :=
  ∃ asked, (∀ stF, rF = .ok stF → stF.fits = st.fits ++ asked) ∧
    ∀ rest, run (st.withFits (asked ++ rest)) = bridged rF rest

theorem liftP_bridged (r : Res PSt) (rest) : bridged (liftP r) rest = r.map (·.withFits rest) := by
  cases r <;> rfl

/-- a part of a planner that never asks the Fitter agrees with itself -/
theorem Agrees.of_noask (st : PSt) (r : Res PSt) (run : PSt → Res PSt)
    (hfits : ∀ st', r = .ok st' → st'.fits = st.fits)
    (hrun : ∀ l, run (st.withFits l) = r.map (·.withFits l)) : Agrees st (liftP r) run :=
  ⟨[], fun stF h => by
      cases r with
      | error e => simp [liftP] at h
      | ok s => simp only [liftP, Except.ok.injEq] at h; subst h; simpa using hfits s rfl,
    fun rest => by rw [liftP_bridged, List.nil_append, hrun]⟩

theorem PSt.step_fits (S : Schema) (st st' : PSt) (s : Step) (h : st.step S s = .ok st') : st'.fits = st.fits :=
  (PSt.step_facts S st st' s h).2.2.2

/-- **`Transform.replace`** -/
theorem PSt.replaceF_agrees (S : Schema) (st : PSt) (f t : Nat) (sl : Slice) :
    Agrees st (st.replaceF S f t sl) (fun s => s.replace S f t sl) := by
  unfold PSt.replaceF
  split
  · rename_i hc
    exact ⟨[], fun stF h => by simp only [Except.ok.injEq] at h; subst h; simp,
      fun rest => by simp [PSt.replace, hc, bridged]⟩
  · rename_i hc
    split
    · rename_i rf rt hrf hrt
      split
      · rename_i e he
        exact ⟨[], fun stF h => by simp at h,
          fun rest => by simp [PSt.replace, hc, hrf, hrt, he, bridged, PlanErr.toErr]⟩
      · rename_i he
        refine ⟨[], fun stF h => ?_, fun rest => ?_⟩
        · cases hs : st.step S (.replace f t sl false) with
          | error e => rw [hs] at h; simp [liftP] at h
          | ok s =>
            rw [hs] at h
            simp only [liftP, Except.ok.injEq] at h
            subst h
            simp [PSt.step_fits S st s _ hs]
        · simp only [PSt.replace, hc, PSt.withFits_tr, hrf, hrt, he, List.nil_append]
          rw [liftP_bridged, PSt.step_withFits]
          simp
      · rename_i he
        split
        · rename_i e hans
          exact ⟨[.error .internal], fun stF h => by simp at h,
            fun rest => by simp [PSt.replace, hc, hrf, hrt, he, bridged, PlanErr.toErr]⟩
        · rename_i hans
          exact ⟨[.ok none], fun stF h => by simp only [Except.ok.injEq] at h; subst h; rfl,
            fun rest => by simp [PSt.replace, hc, hrf, hrt, he, bridged, PSt.withFits]⟩
        · rename_i s hans
          refine ⟨[.ok (some s)], fun stF h => ?_, fun rest => ?_⟩
          · cases hs : PSt.step S { tr := st.tr, fits := st.fits ++ [.ok (some s)] } s with
            | error e => rw [hs] at h; simp [liftP] at h
            | ok s' =>
              rw [hs] at h
              simp only [liftP, Except.ok.injEq] at h
              subst h
              exact PSt.step_fits S _ s' _ hs
          · simp only [PSt.replace, hc, PSt.withFits_tr, hrf, hrt, he, PSt.withFits_fits, List.cons_append,
              List.nil_append]
            rw [liftP_bridged]
            have e1 : ({ tr := st.tr, fits := rest } : PSt) = st.withFits rest := rfl
            have e2 : ({ tr := st.tr, fits := st.fits ++ [.ok (some s)] } : PSt) =
                st.withFits (st.fits ++ [.ok (some s)]) := rfl
            show PSt.step S { tr := st.tr, fits := rest } s = _
            rw [e1, e2, PSt.step_withFits, PSt.step_withFits]
            cases st.step S s <;> rfl
    · rename_i hnone
      refine ⟨[], fun stF h => by simp at h, fun rest => ?_⟩
      simp only [PSt.replace, hc, PSt.withFits_tr, bridged, PlanErr.toErr]
      simp

theorem Agrees.congr_start {st st1 : PSt} {rF : PlanRes PSt} {run run1 : PSt → Res PSt}
    (h : Agrees st1 rF run1) (hf : st1.fits = st.fits)
    (hrun : ∀ l, run (st.withFits l) = run1 (st1.withFits l)) : Agrees st rF run := by
  obtain ⟨asked, h1, h2⟩ := h
  exact ⟨asked, fun stF hF => by rw [← hf]; exact h1 stF hF, fun rest => by rw [hrun]; exact h2 rest⟩

/-- a planner that asks, followed by a part that does not -/
theorem Agrees.then_noask {st1 : PSt} {rF : PlanRes PSt} {run : PSt → Res PSt}
    (k : PSt → Res PSt) (hkf : ∀ s s', k s = .ok s' → s'.fits = s.fits)
    (hk : ∀ s l, k (s.withFits l) = (k s).map (·.withFits l)) :
    Agrees st1 rF run →
    Agrees st1 (match rF with | .error e => .error e | .ok s2 => liftP (k s2))
      (fun s => match run s with | .error e => .error e | .ok s2 => k s2) := by
  intro h
  obtain ⟨asked, h1, h2⟩ := h
  refine ⟨asked, fun stF hF => ?_, fun rest => ?_⟩
  · cases rF with
    | error e => simp at hF
    | ok s2 =>
      simp only at hF
      cases hks : k s2 with
      | error e => rw [hks] at hF; simp [liftP] at hF
      | ok s3 =>
        rw [hks] at hF
        simp only [liftP, Except.ok.injEq] at hF
        subst hF
        rw [hkf s2 s3 hks, h1 s2 rfl]
  · simp only [h2 rest]
    cases rF with
    | error e => rfl
    | ok s2 =>
      simp only [bridged, hk]
      cases k s2 <;> rfl

theorem Agrees.error (st : PSt) (e : Err) (run : PSt → Res PSt) (hrun : ∀ l, run (st.withFits l) = .error e) :
    Agrees st (.error (.plan e)) run :=
  ⟨[], fun stF h => by simp at h, fun rest => by rw [hrun]; rfl⟩

theorem PSt.stepAll_fits (S : Schema) (ss : List Step) (st st' : PSt) (h : st.stepAll S ss = .ok st') :
    st'.fits = st.fits := (PSt.stepAll_facts S ss st st' h).2.2.2

theorem clearLoop_fits (S : Schema) (pty : TypeId) (kids : List Node) (q cur : Nat) (repl : List Step)
    (st : PSt) (q' cur' : Nat) (repl' : List Step) (st' : PSt)
    (h : clearLoop S pty kids q cur repl st = .ok (q', cur', repl', st')) : st'.fits = st.fits :=
  PSt.stepAll_fits S _ st st' (clearLoop_plan S pty kids q cur repl st q' cur' repl' st' h).2.2.2

/-- **`Transform.clear_incompatible`** -/
theorem PSt.clearIncompatibleF_agrees (S : Schema) (st : PSt) (pos : Nat) (pty : TypeId) (q0 : Nat) :
    Agrees st (st.clearIncompatibleF S pos pty q0) (fun s => s.clearIncompatible S pos pty q0) := by
  unfold PSt.clearIncompatibleF
  split
  · rename_i e he
    exact Agrees.error st e _ (fun l => by simp [PSt.clearIncompatible, he])
  · rename_i he
    exact Agrees.error st .internal _ (fun l => by simp [PSt.clearIncompatible, he])
  · rename_i node hnode
    split
    · rename_i e he
      exact Agrees.error st e _ (fun l => by
        simp only [PSt.clearIncompatible, PSt.withFits_tr, hnode, clearLoop_withFits, he, Except.map])
    · rename_i q cur repl st1 hloop
      have hf1 := clearLoop_fits S pty _ _ _ _ _ _ _ _ _ hloop
      simp only
      have key : Agrees st1
          (match (if (S.dfa pty).validEnd q = true then (Except.ok st1 : PlanRes PSt)
              else match clearFill S pty q with
                | none => .error (.plan .internal)
                | some nodes => st1.replaceF S cur cur ⟨nodes, 0, 0⟩) with
            | .error e => .error e
            | .ok s2 => liftP (s2.stepAll S repl.reverse))
          (fun s => match (if (S.dfa pty).validEnd q = true then (Except.ok s : Res PSt)
              else match clearFill S pty q with
                | none => .error .internal
                | some nodes => s.replace S cur cur ⟨nodes, 0, 0⟩) with
            | .error e => .error e
            | .ok s2 => s2.stepAll S repl.reverse) := by
        refine Agrees.then_noask (fun s2 => s2.stepAll S repl.reverse)
          (fun s s' h => PSt.stepAll_fits S _ s s' h) (fun s l => PSt.stepAll_withFits S _ s l)
          (rF := if (S.dfa pty).validEnd q = true then (Except.ok st1 : PlanRes PSt)
              else match clearFill S pty q with
                | none => .error (.plan .internal)
                | some nodes => st1.replaceF S cur cur ⟨nodes, 0, 0⟩)
          (run := fun s => if (S.dfa pty).validEnd q = true then (Except.ok s : Res PSt)
              else match clearFill S pty q with
                | none => .error .internal
                | some nodes => s.replace S cur cur ⟨nodes, 0, 0⟩) ?_
        · split
          · exact ⟨[], fun stF h => by simp only [Except.ok.injEq] at h; subst h; simp,
              fun rest => by simp [bridged]⟩
          · split
            · exact Agrees.error st1 .internal _ (fun l => rfl)
            · exact PSt.replaceF_agrees S st1 cur cur _
      refine Agrees.congr_start key hf1 (fun l => ?_)
      simp only [PSt.clearIncompatible, PSt.withFits_tr, hnode, clearLoop_withFits, hloop, Except.map]
      unfold clearFill
      cases fillBefore (S.dfa pty) S.generatable q [] true with
      | none => rfl
      | some tys => cases tys.mapM (S.createAndFill0 (S.nodes.size + 1)) <;> rfl

theorem PSt.setNodeMarkup_unfold (S : Schema) (st : PSt) (pos : Nat) (ty : Option TypeId) (attrs : Attrs)
    (marks : Option Marks) :
    st.setNodeMarkup S pos ty attrs marks =
    (match st.tr.doc.nodeAt pos with
      | .error e => .error e
      | .ok none => .error .valueError
      | .ok (some node) =>
        match S.createNode (ty.getD (S.tyOf node)) attrs (marksOr marks node) with
        | .error e => .error e
        | .ok newNode =>
          if node.isLeaf then st.replace S pos (pos + node.size) ⟨[newNode], 0, 0⟩
          else if !S.validContent (ty.getD (S.tyOf node)) node.kids then .error .valueError
          else st.step S (retypeStep pos (pos + node.size) newNode)) := by
  unfold PSt.setNodeMarkup marksOr
  rfl

/-- **`Transform.set_node_markup`** -/
theorem PSt.setNodeMarkupF_agrees (S : Schema) (st : PSt) (pos : Nat) (ty : Option TypeId) (attrs : Attrs)
    (marks : Option Marks) :
    Agrees st (st.setNodeMarkupF S pos ty attrs marks) (fun s => s.setNodeMarkup S pos ty attrs marks) := by
  unfold PSt.setNodeMarkupF
  split
  · rename_i e he
    exact Agrees.error st e _ (fun l => by simp [PSt.setNodeMarkup_unfold, he])
  · rename_i he
    exact Agrees.error st .valueError _ (fun l => by simp [PSt.setNodeMarkup_unfold, he])
  · rename_i node hnode
    simp only
    split
    · rename_i e he
      exact Agrees.error st e _ (fun l => by simp only [PSt.setNodeMarkup_unfold, PSt.withFits_tr, hnode, he])
    · rename_i newNode hnew
      split
      · rename_i hleaf
        refine Agrees.congr_start (PSt.replaceF_agrees S st pos (pos + node.size) ⟨[newNode], 0, 0⟩) rfl
          (fun l => ?_)
        simp only [PSt.setNodeMarkup_unfold, PSt.withFits_tr, hnode, hnew, hleaf, if_true]
      · rename_i hleaf
        split
        · rename_i hv
          exact Agrees.error st .valueError _ (fun l => by
            simp only [PSt.setNodeMarkup_unfold, PSt.withFits_tr, hnode, hnew, hleaf, hv, if_true, if_false,
              Bool.false_eq_true])
        · rename_i hv
          refine Agrees.of_noask st _ _ (fun st' h => PSt.step_fits S st st' _ h) (fun l => ?_)
          simp only [PSt.setNodeMarkup_unfold, PSt.withFits_tr, hnode, hnew, hleaf, hv, if_false,
            Bool.false_eq_true, PSt.step_withFits]

/-! #### `set_block_type`: the walk -/

def bridged2 (r : PlanRes (PSt × Nat)) (rest : List (Res (Option Step))) : Res (PSt × Nat) :=
  match r with
  | .ok (s, k) => .ok (s.withFits rest, k)
  | .error e => .error e.toErr

theorem sbtF_foldl_error (S : Schema) (ty : TypeId) (attrs : Attrs) (mf : Nat) : ∀ (vs : List NV) (e : PlanErr),
    vs.foldl (setBlockTypeVisitF S ty attrs mf) (.error e) = .error e
  | [], _ => rfl
  | v :: vs, e => by
    simp only [List.foldl_cons, setBlockTypeVisitF]
    exact sbtF_foldl_error S ty attrs mf vs e

/-- one visit of the callback -/
theorem setBlockTypeVisitF_agrees (S : Schema) (ty : TypeId) (attrs : Attrs) (mf : Nat) (st : PSt)
    (skip : Nat) (v : NV) :
    ∃ asked, (∀ stF sk, setBlockTypeVisitF S ty attrs mf (.ok (st, skip)) v = .ok (stF, sk) →
        stF.fits = st.fits ++ asked) ∧
      ∀ rest, setBlockTypeVisit S ty attrs mf (.ok (st.withFits (asked ++ rest), skip)) v =
        bridged2 (setBlockTypeVisitF S ty attrs mf (.ok (st, skip)) v) rest := by
  unfold setBlockTypeVisitF
  simp only
  split
  · rename_i hsk
    exact ⟨[], fun stF sk h => by simp only [Except.ok.injEq, Prod.mk.injEq] at h; rw [← h.1]; simp,
      fun rest => by simp [setBlockTypeVisit, hsk, bridged2]⟩
  · rename_i hsk
    split
    · rename_i hm
      exact ⟨[], fun stF sk h => by simp only [Except.ok.injEq, Prod.mk.injEq] at h; rw [← h.1]; simp,
        fun rest => by simp only [setBlockTypeVisit, hsk, hm, if_false, if_true, bridged2, List.nil_append]⟩
    · rename_i hm
      split
      · rename_i e he
        exact ⟨[], fun stF sk h => by simp at h, fun rest => by
          simp only [setBlockTypeVisit, hsk, hm, if_false, PSt.withFits_tr, PSt.mapFrom_withFits, he, bridged2,
            PlanErr.toErr, Bool.false_eq_true]⟩
      · rename_i he
        exact ⟨[], fun stF sk h => by simp only [Except.ok.injEq, Prod.mk.injEq] at h; rw [← h.1]; simp,
          fun rest => by
            simp only [setBlockTypeVisit, hsk, hm, if_false, PSt.withFits_tr, PSt.mapFrom_withFits, he, bridged2,
              List.nil_append, Bool.false_eq_true]⟩
      · rename_i he
        obtain ⟨asked, h1, h2⟩ := PSt.clearIncompatibleF_agrees S st (st.mapFrom mf v.pos 1) ty 0
        refine ⟨asked, fun stF sk h => ?_, fun rest => ?_⟩
        · split at h
          · simp at h
          · rename_i st1 hc
            split at h
            · simp at h
            · rename_i nn hnn
              split at h
              · simp at h
              · rename_i st2 hs
                simp only [Except.ok.injEq, Prod.mk.injEq] at h
                rw [← h.1, PSt.step_fits S st1 st2 _ hs, h1 st1 hc]
        · have h2' := h2 rest
          simp only at h2'
          simp only [setBlockTypeVisit, hsk, hm, if_false, PSt.withFits_tr, PSt.mapFrom_withFits, he,
            Bool.false_eq_true, h2']
          cases hc : st.clearIncompatibleF S (st.mapFrom mf v.pos 1) ty 0 with
          | error e => simp only [bridged, bridged2]
          | ok st1 =>
            simp only [bridged, PSt.mapFrom_withFits]
            cases hnn : S.createNode ty attrs v.node.marks with
            | error e => simp only [bridged2, PlanErr.toErr]
            | ok nn =>
              simp only [PSt.step_withFits]
              cases st1.step S (retypeStep (st1.mapFrom mf v.pos 1) (st1.mapFrom mf (v.pos + v.node.size) 1) nn) with
              | error e => simp only [Except.map, bridged2, PlanErr.toErr]
              | ok st2 => simp only [Except.map, bridged2]

/-- the whole fold over the visits -/
theorem sbtF_fold_agrees (S : Schema) (ty : TypeId) (attrs : Attrs) (mf : Nat) : ∀ (vs : List NV) (st : PSt)
    (skip : Nat),
    ∃ asked, (∀ stF sk, vs.foldl (setBlockTypeVisitF S ty attrs mf) (.ok (st, skip)) = .ok (stF, sk) →
        stF.fits = st.fits ++ asked) ∧
      ∀ rest, vs.foldl (setBlockTypeVisit S ty attrs mf) (.ok (st.withFits (asked ++ rest), skip)) =
        bridged2 (vs.foldl (setBlockTypeVisitF S ty attrs mf) (.ok (st, skip))) rest
  | [], st, skip =>
    ⟨[], fun stF sk h => by simp only [List.foldl_nil, Except.ok.injEq, Prod.mk.injEq] at h; rw [← h.1]; simp,
      fun rest => by simp [bridged2]⟩
  | v :: vs, st, skip => by
    obtain ⟨a1, h1, h2⟩ := setBlockTypeVisitF_agrees S ty attrs mf st skip v
    simp only [List.foldl_cons]
    cases hv : setBlockTypeVisitF S ty attrs mf (.ok (st, skip)) v with
    | error e =>
      refine ⟨a1, fun stF sk h => by rw [sbtF_foldl_error] at h; simp at h, fun rest => ?_⟩
      rw [h2 rest, hv, sbtF_foldl_error]
      simp only [bridged2, sbt_foldl_error]
    | ok r =>
      obtain ⟨st1, sk1⟩ := r
      obtain ⟨a2, g1, g2⟩ := sbtF_fold_agrees S ty attrs mf vs st1 sk1
      refine ⟨a1 ++ a2, fun stF sk h => ?_, fun rest => ?_⟩
      · rw [g1 stF sk h, h1 st1 sk1 hv, List.append_assoc]
      · rw [List.append_assoc, h2 (a2 ++ rest), hv]
        simp only [bridged2]
        exact g2 rest

/-- **`Transform.set_block_type`** -/
theorem PSt.setBlockTypeF_agrees (S : Schema) (st : PSt) (f t : Nat) (ty : TypeId) (attrs : Attrs) :
    Agrees st (st.setBlockTypeF S f t ty attrs) (fun s => s.setBlockType S f t ty attrs) := by
  unfold PSt.setBlockTypeF
  simp only
  split
  · rename_i hty
    exact Agrees.error st .valueError _ (fun l => by simp only [PSt.setBlockType, hty, if_true])
  · rename_i hty
    obtain ⟨asked, h1, h2⟩ := sbtF_fold_agrees S ty attrs st.tr.steps.length (S.docVisits st.tr.doc f t) st 0
    refine ⟨asked, fun stF h => ?_, fun rest => ?_⟩
    · split at h
      · simp at h
      · rename_i st' sk hfold
        split at h
        · simp at h
        · simp only [Except.ok.injEq] at h
          subst h
          exact h1 st' sk hfold
    · simp only [PSt.setBlockType, hty, if_false, PSt.withFits_tr, h2 rest, Bool.false_eq_true]
      cases hfold : (S.docVisits st.tr.doc f t).foldl (setBlockTypeVisitF S ty attrs st.tr.steps.length)
          (.ok (st, 0)) with
      | error e => simp only [bridged2, bridged]
      | ok r =>
        obtain ⟨st', sk⟩ := r
        simp only [bridged2]
        split
        · rename_i hlt
          simp only [bridged, PlanErr.toErr, hlt, if_true]
        · rename_i hlt
          simp only [bridged, hlt, if_false]

/-! #### the bridge, read from a start with an empty log -/

/-- a plugged-in run started with an empty log and an oracle run started with the final log of
    that run as the recorded answers: same outcome, every recorded answer consumed -/
theorem Agrees.run_eq {st : PSt} {rF : PlanRes PSt} {run : PSt → Res PSt} (h : Agrees st rF run)
    (hlog : st.fits = []) :
    (∀ stF, rF = .ok stF → run (st.withFits stF.fits) = .ok (stF.withFits [])) ∧
    (∀ e, rF = .error e → ∃ asked, run (st.withFits asked) = .error e.toErr) := by
  obtain ⟨asked, h1, h2⟩ := h
  refine ⟨fun stF hF => ?_, fun e hF => ⟨asked, ?_⟩⟩
  · have := h2 []
    rw [List.append_nil, hF] at this
    rw [h1 stF hF, hlog, List.nil_append]
    exact this
  · have := h2 []
    rw [List.append_nil, hF] at this
    exact this

end PM
