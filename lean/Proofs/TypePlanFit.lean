/-
  Proofs/TypePlanFit.lean — helper lemmas for the planners with the Fitter model plugged in
  (PM/TypePlanFit.lean).

  1. the bridge to the recorded-oracle versions of PM/TypePlan.lean (`Agrees`): the oracle version
     fed with exactly the answers `replaceStep` gives at the consulted requests makes the same run.
  2. what one `Transform.replace` does in the plugged-in version (`PSt.replaceF_cases`).
  3. `clear_incompatible` with the Fitter: the walk, the filler request, the deletions.
-/
import PM.TypePlanFit
import Proofs.TypePlan
import Proofs.Fitter
import Proofs.FitterText
namespace PM

/-! ### 1. the bridge -/

/-- the same planner state with another oracle list / log -/
def PSt.withFits (st : PSt) (l : List (Res (Option Step))) : PSt := { st with fits := l }

@[simp] theorem PSt.withFits_tr (st : PSt) (l) : (st.withFits l).tr = st.tr := rfl
@[simp] theorem PSt.withFits_fits (st : PSt) (l) : (st.withFits l).fits = l := rfl
@[simp] theorem PSt.withFits_withFits (st : PSt) (l l') : (st.withFits l).withFits l' = st.withFits l' := rfl
theorem PSt.withFits_self (st : PSt) : st.withFits st.fits = st := rfl

theorem PSt.step_withFits (S : Schema) (st : PSt) (l) (s : Step) :
    (st.withFits l).step S s = (st.step S s).map (·.withFits l) := by
  unfold PSt.step
  simp only [PSt.withFits_tr]
  cases st.tr.step S s <;> rfl

theorem PSt.stepAll_withFits (S : Schema) : ∀ (ss : List Step) (st : PSt) (l),
    (st.withFits l).stepAll S ss = (st.stepAll S ss).map (·.withFits l)
  | [], st, l => rfl
  | s :: ss, st, l => by
    simp only [PSt.stepAll, PSt.step_withFits]
    cases hs : st.step S s with
    | error e => rfl
    | ok st1 => simp only [Except.map]; exact PSt.stepAll_withFits S ss st1 l

theorem PSt.mapFrom_withFits (st : PSt) (l) (mf p : Nat) (a : Int) :
    (st.withFits l).mapFrom mf p a = st.mapFrom mf p a := rfl

theorem clearLoop_withFits (S : Schema) (pty : TypeId) (l) : ∀ (kids : List Node) (q cur : Nat)
    (repl : List Step) (st : PSt),
    clearLoop S pty kids q cur repl (st.withFits l) =
      (clearLoop S pty kids q cur repl st).map (fun r => (r.1, r.2.1, r.2.2.1, r.2.2.2.withFits l))
  | [], q, cur, repl, st => rfl
  | c :: cs, q, cur, repl, st => by
    unfold clearLoop
    simp only
    split
    · exact clearLoop_withFits S pty l cs _ _ _ st
    · rw [PSt.stepAll_withFits]
      cases hs : st.stepAll S (List.map (fun m => Step.removeMark cur (cur + c.size) m)
          (List.filter (fun m => !(S.nodeType pty).allowsMarkType m.ty) c.marks)) with
      | error e => rfl
      | ok st1 => simp only [Except.map]; exact clearLoop_withFits S pty l cs _ _ _ st1

/-- the outcome of a plugged-in run in the vocabulary of the oracle versions, the log replaced by
    the oracle answers not yet consumed -/
def bridged (r : PlanRes PSt) (rest : List (Res (Option Step))) : Res PSt :=
  match r with
  | .ok s => .ok (s.withFits rest)
  | .error e => .error e.toErr

/-- **the bridge relation**: `rF` is the outcome of a plugged-in planner started in `st`, `run` the
    oracle version of the same planner as a function of its start state.  There is a list `asked`
    — the answers the Fitter model gave during the plugged-in run, which that run appended to its
    log — such that the oracle version started with `asked` (followed by anything) as its recorded
    list has the same outcome and has consumed exactly `asked`. -/
def Agrees (st : PSt) (rF : PlanRes PSt) (run : PSt → Res PSt) : Prop :=
  ∃ asked, (∀ stF, rF = .ok stF → stF.fits = st.fits ++ asked) ∧
    ∀ rest, run (st.withFits (asked ++ rest)) = bridged rF rest

theorem liftP_bridged (r : Res PSt) (rest) : bridged (liftP r) rest = r.map (·.withFits rest) := by
  cases r <;> rfl

/-- a part of a planner that never asks the Fitter agrees with itself -/
theorem Agrees.of_noask (st : PSt) (r : Res PSt) (run : PSt → Res PSt)
    (hfits : ∀ st', r = .ok st' → st'.fits = st.fits)
    (hrun : ∀ l, run (st.withFits l) = r.map (·.withFits l)) : Agrees st (liftP r) run :=
  ⟨[], fun stF h => by
      cases r with
      | error e => simp [liftP] at h
      | ok s => simp only [liftP, Except.ok.injEq] at h; subst h; simpa using hfits s rfl,
    fun rest => by rw [liftP_bridged, List.nil_append, hrun]⟩

theorem PSt.step_fits (S : Schema) (st st' : PSt) (s : Step) (h : st.step S s = .ok st') : st'.fits = st.fits :=
  (PSt.step_facts S st st' s h).2.2.2

/-- **`Transform.replace`** -/
theorem PSt.replaceF_agrees (S : Schema) (st : PSt) (f t : Nat) (sl : Slice) :
    Agrees st (st.replaceF S f t sl) (fun s => s.replace S f t sl) := by
  unfold PSt.replaceF
  split
  · rename_i hc
    exact ⟨[], fun stF h => by simp only [Except.ok.injEq] at h; subst h; simp,
      fun rest => by simp [PSt.replace, hc, bridged]⟩
  · rename_i hc
    split
    · rename_i rf rt hrf hrt
      split
      · rename_i e he
        exact ⟨[], fun stF h => by simp at h,
          fun rest => by simp [PSt.replace, hc, hrf, hrt, he, bridged, PlanErr.toErr]⟩
      · rename_i he
        refine ⟨[], fun stF h => ?_, fun rest => ?_⟩
        · cases hs : st.step S (.replace f t sl false) with
          | error e => rw [hs] at h; simp [liftP] at h
          | ok s =>
            rw [hs] at h
            simp only [liftP, Except.ok.injEq] at h
            subst h
            simp [PSt.step_fits S st s _ hs]
        · simp only [PSt.replace, hc, PSt.withFits_tr, hrf, hrt, he, List.nil_append]
          rw [liftP_bridged, PSt.step_withFits]
          simp
      · rename_i he
        split
        · rename_i e hans
          exact ⟨[.error .internal], fun stF h => by simp at h,
            fun rest => by simp [PSt.replace, hc, hrf, hrt, he, bridged, PlanErr.toErr]⟩
        · rename_i hans
          exact ⟨[.ok none], fun stF h => by simp only [Except.ok.injEq] at h; subst h; rfl,
            fun rest => by simp [PSt.replace, hc, hrf, hrt, he, bridged, PSt.withFits]⟩
        · rename_i s hans
          refine ⟨[.ok (some s)], fun stF h => ?_, fun rest => ?_⟩
          · cases hs : PSt.step S { tr := st.tr, fits := st.fits ++ [.ok (some s)] } s with
            | error e => rw [hs] at h; simp [liftP] at h
            | ok s' =>
              rw [hs] at h
              simp only [liftP, Except.ok.injEq] at h
              subst h
              exact PSt.step_fits S _ s' _ hs
          · simp only [PSt.replace, hc, PSt.withFits_tr, hrf, hrt, he, PSt.withFits_fits, List.cons_append,
              List.nil_append]
            rw [liftP_bridged]
            have e1 : ({ tr := st.tr, fits := rest } : PSt) = st.withFits rest := rfl
            have e2 : ({ tr := st.tr, fits := st.fits ++ [.ok (some s)] } : PSt) =
                st.withFits (st.fits ++ [.ok (some s)]) := rfl
            show PSt.step S { tr := st.tr, fits := rest } s = _
            rw [e1, e2, PSt.step_withFits, PSt.step_withFits]
            cases st.step S s <;> rfl
    · rename_i hnone
      refine ⟨[], fun stF h => by simp at h, fun rest => ?_⟩
      simp only [PSt.replace, hc, PSt.withFits_tr, bridged, PlanErr.toErr]
      simp

theorem Agrees.congr_start {st st1 : PSt} {rF : PlanRes PSt} {run run1 : PSt → Res PSt}
    (h : Agrees st1 rF run1) (hf : st1.fits = st.fits)
    (hrun : ∀ l, run (st.withFits l) = run1 (st1.withFits l)) : Agrees st rF run := by
  obtain ⟨asked, h1, h2⟩ := h
  exact ⟨asked, fun stF hF => by rw [← hf]; exact h1 stF hF, fun rest => by rw [hrun]; exact h2 rest⟩

/-- a planner that asks, followed by a part that does not -/
theorem Agrees.then_noask {st1 : PSt} {rF : PlanRes PSt} {run : PSt → Res PSt}
    (k : PSt → Res PSt) (hkf : ∀ s s', k s = .ok s' → s'.fits = s.fits)
    (hk : ∀ s l, k (s.withFits l) = (k s).map (·.withFits l)) :
    Agrees st1 rF run →
    Agrees st1 (match rF with | .error e => .error e | .ok s2 => liftP (k s2))
      (fun s => match run s with | .error e => .error e | .ok s2 => k s2) := by
  intro h
  obtain ⟨asked, h1, h2⟩ := h
  refine ⟨asked, fun stF hF => ?_, fun rest => ?_⟩
  · cases rF with
    | error e => simp at hF
    | ok s2 =>
      simp only at hF
      cases hks : k s2 with
      | error e => rw [hks] at hF; simp [liftP] at hF
      | ok s3 =>
        rw [hks] at hF
        simp only [liftP, Except.ok.injEq] at hF
        subst hF
        rw [hkf s2 s3 hks, h1 s2 rfl]
  · simp only [h2 rest]
    cases rF with
    | error e => rfl
    | ok s2 =>
      simp only [bridged, hk]
      cases k s2 <;> rfl

theorem Agrees.error (st : PSt) (e : Err) (run : PSt → Res PSt) (hrun : ∀ l, run (st.withFits l) = .error e) :
    Agrees st (.error (.plan e)) run :=
  ⟨[], fun stF h => by simp at h, fun rest => by rw [hrun]; rfl⟩

theorem PSt.stepAll_fits (S : Schema) (ss : List Step) (st st' : PSt) (h : st.stepAll S ss = .ok st') :
    st'.fits = st.fits := (PSt.stepAll_facts S ss st st' h).2.2.2

theorem clearLoop_fits (S : Schema) (pty : TypeId) (kids : List Node) (q cur : Nat) (repl : List Step)
    (st : PSt) (q' cur' : Nat) (repl' : List Step) (st' : PSt)
    (h : clearLoop S pty kids q cur repl st = .ok (q', cur', repl', st')) : st'.fits = st.fits :=
  PSt.stepAll_fits S _ st st' (clearLoop_plan S pty kids q cur repl st q' cur' repl' st' h).2.2.2

/-- **`Transform.clear_incompatible`** -/
theorem PSt.clearIncompatibleF_agrees (S : Schema) (st : PSt) (pos : Nat) (pty : TypeId) (q0 : Nat) :
    Agrees st (st.clearIncompatibleF S pos pty q0) (fun s => s.clearIncompatible S pos pty q0) := by
  unfold PSt.clearIncompatibleF
  split
  · rename_i e he
    exact Agrees.error st e _ (fun l => by simp [PSt.clearIncompatible, he])
  · rename_i he
    exact Agrees.error st .internal _ (fun l => by simp [PSt.clearIncompatible, he])
  · rename_i node hnode
    split
    · rename_i e he
      exact Agrees.error st e _ (fun l => by
        simp only [PSt.clearIncompatible, PSt.withFits_tr, hnode, clearLoop_withFits, he, Except.map])
    · rename_i q cur repl st1 hloop
      have hf1 := clearLoop_fits S pty _ _ _ _ _ _ _ _ _ hloop
      simp only
      have key : Agrees st1
          (match (if (S.dfa pty).validEnd q = true then (Except.ok st1 : PlanRes PSt)
              else match clearFill S pty q with
                | none => .error (.plan .internal)
                | some nodes => st1.replaceF S cur cur ⟨nodes, 0, 0⟩) with
            | .error e => .error e
            | .ok s2 => liftP (s2.stepAll S repl.reverse))
          (fun s => match (if (S.dfa pty).validEnd q = true then (Except.ok s : Res PSt)
              else match clearFill S pty q with
                | none => .error .internal
                | some nodes => s.replace S cur cur ⟨nodes, 0, 0⟩) with
            | .error e => .error e
            | .ok s2 => s2.stepAll S repl.reverse) := by
        refine Agrees.then_noask (fun s2 => s2.stepAll S repl.reverse)
          (fun s s' h => PSt.stepAll_fits S _ s s' h) (fun s l => PSt.stepAll_withFits S _ s l)
          (rF := if (S.dfa pty).validEnd q = true then (Except.ok st1 : PlanRes PSt)
              else match clearFill S pty q with
                | none => .error (.plan .internal)
                | some nodes => st1.replaceF S cur cur ⟨nodes, 0, 0⟩)
          (run := fun s => if (S.dfa pty).validEnd q = true then (Except.ok s : Res PSt)
              else match clearFill S pty q with
                | none => .error .internal
                | some nodes => s.replace S cur cur ⟨nodes, 0, 0⟩) ?_
        · split
          · exact ⟨[], fun stF h => by simp only [Except.ok.injEq] at h; subst h; simp,
              fun rest => by simp [bridged]⟩
          · split
            · exact Agrees.error st1 .internal _ (fun l => rfl)
            · exact PSt.replaceF_agrees S st1 cur cur _
      refine Agrees.congr_start key hf1 (fun l => ?_)
      simp only [PSt.clearIncompatible, PSt.withFits_tr, hnode, clearLoop_withFits, hloop, Except.map]
      unfold clearFill
      cases fillBefore (S.dfa pty) S.generatable q [] true with
      | none => rfl
      | some tys => cases tys.mapM (S.createAndFill0 (S.nodes.size + 1)) <;> rfl

theorem PSt.setNodeMarkup_unfold (S : Schema) (st : PSt) (pos : Nat) (ty : Option TypeId) (attrs : Attrs)
    (marks : Option Marks) :
    st.setNodeMarkup S pos ty attrs marks =
    (match st.tr.doc.nodeAt pos with
      | .error e => .error e
      | .ok none => .error .valueError
      | .ok (some node) =>
        match S.createNode (ty.getD (S.tyOf node)) attrs (marksOr marks node) with
        | .error e => .error e
        | .ok newNode =>
          if node.isLeaf then st.replace S pos (pos + node.size) ⟨[newNode], 0, 0⟩
          else if !S.validContent (ty.getD (S.tyOf node)) node.kids then .error .valueError
          else st.step S (retypeStep pos (pos + node.size) newNode)) := by
  unfold PSt.setNodeMarkup marksOr
  rfl

/-- **`Transform.set_node_markup`** -/
theorem PSt.setNodeMarkupF_agrees (S : Schema) (st : PSt) (pos : Nat) (ty : Option TypeId) (attrs : Attrs)
    (marks : Option Marks) :
    Agrees st (st.setNodeMarkupF S pos ty attrs marks) (fun s => s.setNodeMarkup S pos ty attrs marks) := by
  unfold PSt.setNodeMarkupF
  split
  · rename_i e he
    exact Agrees.error st e _ (fun l => by simp [PSt.setNodeMarkup_unfold, he])
  · rename_i he
    exact Agrees.error st .valueError _ (fun l => by simp [PSt.setNodeMarkup_unfold, he])
  · rename_i node hnode
    simp only
    split
    · rename_i e he
      exact Agrees.error st e _ (fun l => by simp only [PSt.setNodeMarkup_unfold, PSt.withFits_tr, hnode, he])
    · rename_i newNode hnew
      split
      · rename_i hleaf
        refine Agrees.congr_start (PSt.replaceF_agrees S st pos (pos + node.size) ⟨[newNode], 0, 0⟩) rfl
          (fun l => ?_)
        simp only [PSt.setNodeMarkup_unfold, PSt.withFits_tr, hnode, hnew, hleaf, if_true]
      · rename_i hleaf
        split
        · rename_i hv
          exact Agrees.error st .valueError _ (fun l => by
            simp only [PSt.setNodeMarkup_unfold, PSt.withFits_tr, hnode, hnew, hleaf, hv, if_true, if_false,
              Bool.false_eq_true])
        · rename_i hv
          refine Agrees.of_noask st _ _ (fun st' h => PSt.step_fits S st st' _ h) (fun l => ?_)
          simp only [PSt.setNodeMarkup_unfold, PSt.withFits_tr, hnode, hnew, hleaf, hv, if_false,
            Bool.false_eq_true, PSt.step_withFits]

/-! #### `set_block_type`: the walk -/

def bridged2 (r : PlanRes (PSt × Nat)) (rest : List (Res (Option Step))) : Res (PSt × Nat) :=
  match r with
  | .ok (s, k) => .ok (s.withFits rest, k)
  | .error e => .error e.toErr

theorem sbtF_foldl_error (S : Schema) (ty : TypeId) (attrs : Attrs) (mf : Nat) : ∀ (vs : List NV) (e : PlanErr),
    vs.foldl (setBlockTypeVisitF S ty attrs mf) (.error e) = .error e
  | [], _ => rfl
  | v :: vs, e => by
    simp only [List.foldl_cons, setBlockTypeVisitF]
    exact sbtF_foldl_error S ty attrs mf vs e

/-- one visit of the callback -/
theorem setBlockTypeVisitF_agrees (S : Schema) (ty : TypeId) (attrs : Attrs) (mf : Nat) (st : PSt)
    (skip : Nat) (v : NV) :
    ∃ asked, (∀ stF sk, setBlockTypeVisitF S ty attrs mf (.ok (st, skip)) v = .ok (stF, sk) →
        stF.fits = st.fits ++ asked) ∧
      ∀ rest, setBlockTypeVisit S ty attrs mf (.ok (st.withFits (asked ++ rest), skip)) v =
        bridged2 (setBlockTypeVisitF S ty attrs mf (.ok (st, skip)) v) rest := by
  unfold setBlockTypeVisitF
  simp only
  split
  · rename_i hsk
    exact ⟨[], fun stF sk h => by simp only [Except.ok.injEq, Prod.mk.injEq] at h; rw [← h.1]; simp,
      fun rest => by simp [setBlockTypeVisit, hsk, bridged2]⟩
  · rename_i hsk
    split
    · rename_i hm
      exact ⟨[], fun stF sk h => by simp only [Except.ok.injEq, Prod.mk.injEq] at h; rw [← h.1]; simp,
        fun rest => by simp only [setBlockTypeVisit, hsk, hm, if_false, if_true, bridged2, List.nil_append]⟩
    · rename_i hm
      split
      · rename_i e he
        exact ⟨[], fun stF sk h => by simp at h, fun rest => by
          simp only [setBlockTypeVisit, hsk, hm, if_false, PSt.withFits_tr, PSt.mapFrom_withFits, he, bridged2,
            PlanErr.toErr, Bool.false_eq_true]⟩
      · rename_i he
        exact ⟨[], fun stF sk h => by simp only [Except.ok.injEq, Prod.mk.injEq] at h; rw [← h.1]; simp,
          fun rest => by
            simp only [setBlockTypeVisit, hsk, hm, if_false, PSt.withFits_tr, PSt.mapFrom_withFits, he, bridged2,
              List.nil_append, Bool.false_eq_true]⟩
      · rename_i he
        obtain ⟨asked, h1, h2⟩ := PSt.clearIncompatibleF_agrees S st (st.mapFrom mf v.pos 1) ty 0
        refine ⟨asked, fun stF sk h => ?_, fun rest => ?_⟩
        · split at h
          · simp at h
          · rename_i st1 hc
            split at h
            · simp at h
            · rename_i nn hnn
              split at h
              · simp at h
              · rename_i st2 hs
                simp only [Except.ok.injEq, Prod.mk.injEq] at h
                rw [← h.1, PSt.step_fits S st1 st2 _ hs, h1 st1 hc]
        · have h2' := h2 rest
          simp only at h2'
          simp only [setBlockTypeVisit, hsk, hm, if_false, PSt.withFits_tr, PSt.mapFrom_withFits, he,
            Bool.false_eq_true, h2']
          cases hc : st.clearIncompatibleF S (st.mapFrom mf v.pos 1) ty 0 with
          | error e => simp only [bridged, bridged2]
          | ok st1 =>
            simp only [bridged, PSt.mapFrom_withFits]
            cases hnn : S.createNode ty attrs v.node.marks with
            | error e => simp only [bridged2, PlanErr.toErr]
            | ok nn =>
              simp only [PSt.step_withFits]
              cases st1.step S (retypeStep (st1.mapFrom mf v.pos 1) (st1.mapFrom mf (v.pos + v.node.size) 1) nn) with
              | error e => simp only [Except.map, bridged2, PlanErr.toErr]
              | ok st2 => simp only [Except.map, bridged2]

/-- the whole fold over the visits -/
theorem sbtF_fold_agrees (S : Schema) (ty : TypeId) (attrs : Attrs) (mf : Nat) : ∀ (vs : List NV) (st : PSt)
    (skip : Nat),
    ∃ asked, (∀ stF sk, vs.foldl (setBlockTypeVisitF S ty attrs mf) (.ok (st, skip)) = .ok (stF, sk) →
        stF.fits = st.fits ++ asked) ∧
      ∀ rest, vs.foldl (setBlockTypeVisit S ty attrs mf) (.ok (st.withFits (asked ++ rest), skip)) =
        bridged2 (vs.foldl (setBlockTypeVisitF S ty attrs mf) (.ok (st, skip))) rest
  | [], st, skip =>
    ⟨[], fun stF sk h => by simp only [List.foldl_nil, Except.ok.injEq, Prod.mk.injEq] at h; rw [← h.1]; simp,
      fun rest => by simp [bridged2]⟩
  | v :: vs, st, skip => by
    obtain ⟨a1, h1, h2⟩ := setBlockTypeVisitF_agrees S ty attrs mf st skip v
    simp only [List.foldl_cons]
    cases hv : setBlockTypeVisitF S ty attrs mf (.ok (st, skip)) v with
    | error e =>
      refine ⟨a1, fun stF sk h => by rw [sbtF_foldl_error] at h; simp at h, fun rest => ?_⟩
      rw [h2 rest, hv, sbtF_foldl_error]
      simp only [bridged2, sbt_foldl_error]
    | ok r =>
      obtain ⟨st1, sk1⟩ := r
      obtain ⟨a2, g1, g2⟩ := sbtF_fold_agrees S ty attrs mf vs st1 sk1
      refine ⟨a1 ++ a2, fun stF sk h => ?_, fun rest => ?_⟩
      · rw [g1 stF sk h, h1 st1 sk1 hv, List.append_assoc]
      · rw [List.append_assoc, h2 (a2 ++ rest), hv]
        simp only [bridged2]
        exact g2 rest

/-- **`Transform.set_block_type`** -/
theorem PSt.setBlockTypeF_agrees (S : Schema) (st : PSt) (f t : Nat) (ty : TypeId) (attrs : Attrs) :
    Agrees st (st.setBlockTypeF S f t ty attrs) (fun s => s.setBlockType S f t ty attrs) := by
  unfold PSt.setBlockTypeF
  simp only
  split
  · rename_i hty
    exact Agrees.error st .valueError _ (fun l => by simp only [PSt.setBlockType, hty, if_true])
  · rename_i hty
    obtain ⟨asked, h1, h2⟩ := sbtF_fold_agrees S ty attrs st.tr.steps.length (S.docVisits st.tr.doc f t) st 0
    refine ⟨asked, fun stF h => ?_, fun rest => ?_⟩
    · split at h
      · simp at h
      · rename_i st' sk hfold
        split at h
        · simp at h
        · simp only [Except.ok.injEq] at h
          subst h
          exact h1 st' sk hfold
    · simp only [PSt.setBlockType, hty, if_false, PSt.withFits_tr, h2 rest, Bool.false_eq_true]
      cases hfold : (S.docVisits st.tr.doc f t).foldl (setBlockTypeVisitF S ty attrs st.tr.steps.length)
          (.ok (st, 0)) with
      | error e => simp only [bridged2, bridged]
      | ok r =>
        obtain ⟨st', sk⟩ := r
        simp only [bridged2]
        split
        · rename_i hlt
          simp only [bridged, PlanErr.toErr, hlt, if_true]
        · rename_i hlt
          simp only [bridged, hlt, if_false]

/-! #### the bridge, read from a start with an empty log -/

/-- a plugged-in run started with an empty log and an oracle run started with the final log of
    that run as the recorded answers: same outcome, every recorded answer consumed -/
theorem Agrees.run_eq {st : PSt} {rF : PlanRes PSt} {run : PSt → Res PSt} (h : Agrees st rF run)
    (hlog : st.fits = []) :
    (∀ stF, rF = .ok stF → run (st.withFits stF.fits) = .ok (stF.withFits [])) ∧
    (∀ e, rF = .error e → ∃ asked, run (st.withFits asked) = .error e.toErr) := by
  obtain ⟨asked, h1, h2⟩ := h
  refine ⟨fun stF hF => ?_, fun e hF => ⟨asked, ?_⟩⟩
  · have := h2 []
    rw [List.append_nil, hF] at this
    rw [h1 stF hF, hlog, List.nil_append]
    exact this
  · have := h2 []
    rw [List.append_nil, hF] at this
    exact this

/-! ### 2. one `Transform.replace` with the Fitter model -/

theorem fitsTrivially_eqR (S : Schema) (rf rt : RPos) (sl : Slice) :
    fitsTrivially S rf rt sl =
      (match fitsTriviallyR S rf rt sl with
        | none => .error .valueError
        | some b => .ok b) := by
  unfold fitsTrivially fitsTriviallyR
  split
  · cases S.nodeCanReplace rf.parent (rf.index rf.depth) (rt.index rt.depth) sl.content <;> rfl
  · rfl

theorem PSt.step_tr (S : Schema) (st st' : PSt) (s : Step) (h : st.step S s = .ok st') :
    st.tr.step S s = .ok st'.tr := by
  unfold PSt.step at h
  cases hs : st.tr.step S s with
  | error e => rw [hs] at h; simp [Except.map] at h
  | ok tr => rw [hs] at h; simp only [Except.map, Except.ok.injEq] at h; subst h; rfl

/-- **`Transform.replace` is `replace_step` followed by `step`**: a successful plugged-in
    `replace(from, to, slice)` recorded exactly what `replaceStep` answers on the current document
    — nothing when the answer is `None`, else that one step (the trivially fitting `ReplaceStep`
    is the answer of `replaceStep` too) -/
theorem PSt.replaceF_spec (S : Schema) (st st' : PSt) (f t : Nat) (sl : Slice)
    (h : st.replaceF S f t sl = .ok st') :
    ∃ r, replaceStep S st.tr.doc f t sl = .ok r ∧
      match r with
      | none => st'.tr = st.tr
      | some s => st.tr.step S s = .ok st'.tr := by
  unfold PSt.replaceF at h
  unfold replaceStep
  split at h
  · rename_i hc
    simp only [Except.ok.injEq] at h
    subst h
    exact ⟨none, by simp [hc, pure, Except.pure], rfl⟩
  · rename_i hc
    rw [if_neg hc]
    split at h
    · rename_i rf rt hrf hrt
      rw [fitsTrivially_eqR] at h
      simp only [hrf, hrt]
      cases hft : fitsTriviallyR S rf rt sl with
      | none => rw [hft] at h; simp at h
      | some b =>
        rw [hft] at h
        cases b with
        | true =>
          simp only at h
          cases hs : st.step S (.replace f t sl false) with
          | error e => rw [hs] at h; simp [liftP] at h
          | ok s1 =>
            rw [hs] at h
            simp only [liftP, Except.ok.injEq] at h
            subst h
            exact ⟨some (.replace f t sl false), by simp [pure, Except.pure], PSt.step_tr S st s1 _ hs⟩
        | false =>
          simp only at h
          have hrs : replaceStep S st.tr.doc f t sl = fitterFit S st.tr.doc rf rt sl (fitFuel S sl) := by
            unfold replaceStep
            rw [if_neg hc]
            simp only [hrf, hrt, hft]
          rw [hrs] at h
          cases hfit : fitterFit S st.tr.doc rf rt sl (fitFuel S sl) with
          | error e => rw [hfit] at h; simp at h
          | ok r =>
            rw [hfit] at h
            cases r with
            | none =>
              simp only [Except.ok.injEq] at h
              subst h
              exact ⟨none, rfl, rfl⟩
            | some s =>
              simp only at h
              cases hs : PSt.step S { tr := st.tr, fits := st.fits ++ [.ok (some s)] } s with
              | error e => rw [hs] at h; simp [liftP] at h
              | ok s1 =>
                rw [hs] at h
                simp only [liftP, Except.ok.injEq] at h
                subst h
                exact ⟨some s, rfl, PSt.step_tr S { tr := st.tr, fits := st.fits ++ [.ok (some s)] } s1 _ hs⟩
    · simp at h

theorem Tr.step_ok (S : Schema) (tr tr' : Tr) (s : Step) (h : tr.step S s = .ok tr') :
    S.apply s tr.doc = .ok tr'.doc ∧ tr'.steps = tr.steps ++ [s] ∧ tr'.maps = tr.maps ++ [s.getMap] := by
  unfold Tr.step at h
  cases ha : S.apply s tr.doc with
  | error e => rw [ha] at h; simp at h
  | ok d =>
    rw [ha] at h
    simp only [Except.ok.injEq] at h
    subst h
    simp [Tr.addStep]

/-- … in list form: the steps `ss` recorded (none or one) are `replaceStep`'s answer -/
theorem PSt.replaceF_steps (S : Schema) (st st' : PSt) (f t : Nat) (sl : Slice)
    (h : st.replaceF S f t sl = .ok st') :
    ∃ r, replaceStep S st.tr.doc f t sl = .ok r ∧
      S.applyAll r.toList st.tr.doc = .ok st'.tr.doc ∧
      st'.tr.steps = st.tr.steps ++ r.toList ∧
      st'.tr.maps = st.tr.maps ++ r.toList.map Step.getMap := by
  obtain ⟨r, hr, hm⟩ := PSt.replaceF_spec S st st' f t sl h
  refine ⟨r, hr, ?_⟩
  cases r with
  | none =>
    simp only at hm
    simp [Schema.applyAll, hm]
  | some s =>
    simp only at hm
    obtain ⟨a1, a2, a3⟩ := Tr.step_ok S _ _ s hm
    simp [Schema.applyAll, a1, a2, a3]

/-- a replace or replace-around step only rewrites the tokens between its `from` and `to` -/
theorem apply_flanks (S : Schema) (doc doc' : Node) (st : Step) (h : S.apply st doc = .ok doc') :
    match st with
    | .replace f t sl _ =>
      ftoks doc'.kids = (ftoks doc.kids).take f ++ sl.toks ++ (ftoks doc.kids).drop t ∧ f ≤ t ∧ t ≤ fsize doc.kids
    | .replaceAround f t _ _ _ _ _ =>
      (∃ Z, ftoks doc'.kids = (ftoks doc.kids).take f ++ Z ++ (ftoks doc.kids).drop t) ∧ f ≤ t ∧ t ≤ fsize doc.kids
    | _ => True := by
  cases st with
  | replace f t sl b =>
    obtain ⟨h1, h2, h3, _⟩ := apply_replace_toks S doc doc' f t sl b h
    exact ⟨h1, h2, h3⟩
  | replaceAround f t gf gt sl ins b =>
    unfold Schema.apply at h
    simp only at h
    split at h
    · simp at h
    · split at h
      · simp at h
      · split at h
        · simp at h
        · split at h
          · simp at h
          · simp at h
          · rename_i inserted _
            obtain ⟨h1, h2, h3, _, _⟩ := fromReplace_toks S doc doc' f t inserted h
            exact ⟨⟨_, h1⟩, h2, h3⟩
  | _ => trivial

/-! #### what `replaceStep` emits (the statements of `fit_range` / `fit_text`, Props/C11.lean) -/

theorem replaceStep_range (S : Schema) (doc : Node) (f t : Nat) (sl : Slice) (st : Step)
    (h : replaceStep S doc f t sl = .ok (some st)) :
    (∃ T sl', st = .replace f T sl' false ∧ t ≤ T ∧ T ≤ fsize doc.kids ∧
      ∀ i, t ≤ i → i < T → (ftoks doc.kids)[i]? = some Tok.cl) ∨
    (∃ T G2 sl' ins, st = .replaceAround f T t G2 sl' ins false ∧ t ≤ G2 ∧ G2 < T ∧
      T ≤ fsize doc.kids ∧ ∀ i, G2 ≤ i → i < T → (ftoks doc.kids)[i]? = some Tok.cl) := by
  unfold replaceStep at h
  split at h
  · simp [pure, Except.pure] at h
  · split at h
    · rename_i rf rt hf ht
      split at h
      · simp [throw, throwThe, MonadExceptOf.throw] at h
      · have := pure_ok h
        simp only [Option.some.injEq] at this
        subst this
        exact .inl ⟨t, sl, rfl, Nat.le_refl _, (resolve_resolved ht).le, fun i h1 h2 => by omega⟩
      · exact fitterFit_range S hf ht sl _ st h
    · simp [throw, throwThe, MonadExceptOf.throw] at h

theorem replaceStep_text (S : Schema) (doc : Node) (f t : Nat) (sl : Slice) (st : Step) (hwf : sl.wf = true)
    (h : replaceStep S doc f t sl = .ok (some st)) :
    ∃ sl', st.sliceOf = some sl' ∧ (textUnits sl'.toks).Sublist (textUnits sl.toks) := by
  unfold replaceStep at h
  split at h
  · simp [pure, Except.pure] at h
  · split at h
    · rename_i rf rt hf ht
      split at h
      · simp [throw, throwThe, MonadExceptOf.throw] at h
      · have := pure_ok h
        simp only [Option.some.injEq] at this
        subst this
        exact ⟨sl, rfl, List.Sublist.refl _⟩
      · obtain ⟨sl', hs, hsub⟩ := fitterFit_text S hf rt sl _ st h
        refine ⟨sl', hs, ?_⟩
        have e1 := sliceToks'_text_wf sl hwf
        have e2 := sliceToks'_text_sublist sl'
        rw [sliceToks'_eq] at e1 e2
        rw [e1]
        exact e2.trans hsub
    · simp [throw, throwThe, MonadExceptOf.throw] at h

/-! ### 3. `clear_incompatible` with the Fitter model -/

/-! #### the fillers carry no text -/

theorem textUnits_ftoks_nil : ∀ (l : List Node), (∀ n ∈ l, textUnits n.toks = []) → textUnits (ftoks l) = []
  | [], _ => rfl
  | n :: ns, h => by
    rw [ftoks_cons, textUnits_append, h n (by simp),
      textUnits_ftoks_nil ns (fun x hx => h x (by simp [hx]))]
    rfl

theorem createAndFill0_notext (S : Schema) : ∀ (fuel : Nat) (t : TypeId) (n : Node),
    S.createAndFill0 fuel t = some n → textUnits n.toks = []
  | 0, t, n, h => by simp [Schema.createAndFill0] at h
  | fuel + 1, t, n, h => by
    unfold Schema.createAndFill0 at h
    simp only at h
    split at h
    · simp at h
    · split at h
      · simp at h
      · split at h
        · simp at h
        · rename_i kids hk
          simp only [Option.some.injEq] at h
          subst h
          split
          · simp [textUnits]
          · have hall : ∀ y ∈ kids, textUnits y.toks = [] := by
              intro y hy
              obtain ⟨x, hx⟩ := mapM_some_mem _ _ _ hk y hy
              exact createAndFill0_notext S fuel x y hx
            simp only [Node.toks_elem, textUnits, textUnits_append, textUnits_ftoks_nil kids hall]
            rfl

theorem retypeFill_notext (S : Schema) (pty : TypeId) (q : Nat) : textUnits (ftoks (retypeFill S pty q)) = [] := by
  unfold retypeFill
  split
  · rfl
  · split
    · rfl
    · rename_i tys _
      cases hm : tys.mapM (S.createAndFill0 (S.nodes.size + 1)) with
      | none => rfl
      | some nodes =>
        simp only [Option.getD_some]
        exact textUnits_ftoks_nil nodes (fun y hy => by
          obtain ⟨x, hx⟩ := mapM_some_mem _ _ _ hm y hy
          exact createAndFill0_notext S _ x y hx)

/-- the fillers the code asks for are `retypeFill` -/
theorem clearFill_retypeFill (S : Schema) (pty : TypeId) (q : Nat) (F : List Node)
    (hv : (S.dfa pty).validEnd q = false) (h : clearFill S pty q = some F) : retypeFill S pty q = F := by
  unfold clearFill at h
  unfold retypeFill
  rw [if_neg (by simp [hv])]
  split at h
  · simp at h
  · rename_i tys htys
    simp only [htys, h, Option.getD_some]

/-! #### the plan -/

/-- the filler insertion of `clear_incompatible` after a walk that ended in state `q`, on the
    document `d1` (mark removals applied, nothing deleted yet), `cur` = the end of the node's content:
    the steps it records.  Nothing at a valid end; else what `replaceStep` answers to the request
    `replace(cur, cur, Slice(fill, 0, 0))` — no step (`None`), the trivially fitting `ReplaceStep`, or
    the step the Fitter built. -/
inductive FillOutcome (S : Schema) (pty : TypeId) (q : Nat) (d1 : Node) (cur : Nat) : List Step → Prop
  | validEnd : (S.dfa pty).validEnd q = true → FillOutcome S pty q d1 cur []
  | asked (r : Option Step) : (S.dfa pty).validEnd q = false →
      replaceStep S d1 cur cur ⟨retypeFill S pty q, 0, 0⟩ = .ok r → FillOutcome S pty q d1 cur r.toList

/-- **the plan of `clear_incompatible` with the Fitter model**: a successful run applied, in this
    order, the `RemoveMarkStep`s of the walk (`clearRm`), the answer to the filler request
    (`FillOutcome`), the collected `ReplaceStep`s last to first (`clearEdits`) -/
theorem clearIncompatibleF_plan (S : Schema) (st st' : PSt) (pos : Nat) (pty : TypeId) (q0 : Nat)
    (h : st.clearIncompatibleF S pos pty q0 = .ok st') :
    ∃ node, st.tr.doc.nodeAt pos = .ok (some node) ∧
    ∃ d1 d2 fs,
      S.applyAll (clearRm S pty node.kids q0 (pos + 1)) st.tr.doc = .ok d1 ∧
      FillOutcome S pty (keptState S pty node.kids q0) d1 (pos + 1 + fsize node.kids) fs ∧
      S.applyAll fs d1 = .ok d2 ∧
      S.applyAll ((clearEdits S pty node.kids q0 (pos + 1)).map Edit.step).reverse d2 = .ok st'.tr.doc ∧
      st'.tr.steps = st.tr.steps ++ (clearRm S pty node.kids q0 (pos + 1) ++ fs ++
        ((clearEdits S pty node.kids q0 (pos + 1)).map Edit.step).reverse) ∧
      st'.tr.maps = st.tr.maps ++ (clearRm S pty node.kids q0 (pos + 1) ++ fs ++
        ((clearEdits S pty node.kids q0 (pos + 1)).map Edit.step).reverse).map Step.getMap := by
  unfold PSt.clearIncompatibleF at h
  split at h
  · simp at h
  · simp at h
  · rename_i node hnode
    refine ⟨node, hnode, ?_⟩
    split at h
    · simp at h
    · rename_i q cur repl st1 hloop
      obtain ⟨rfl, rfl, hrepl, hrm⟩ := clearLoop_plan S pty _ _ _ _ _ _ _ _ _ hloop
      simp only [List.nil_append] at hrepl
      subst hrepl
      obtain ⟨a1, a2, a3, _⟩ := PSt.stepAll_facts S _ st st1 hrm
      simp only at h
      split at h
      · simp at h
      · rename_i st2 hfill
        cases hst' : st2.stepAll S ((clearEdits S pty node.kids q0 (pos + 1)).map Edit.step).reverse with
        | error e => rw [hst'] at h; simp [liftP] at h
        | ok st3 =>
          rw [hst'] at h
          simp only [liftP, Except.ok.injEq] at h
          subst h
          obtain ⟨c1, c2, c3, _⟩ := PSt.stepAll_facts S _ st2 st3 hst'
          suffices hfs : ∃ fs, FillOutcome S pty (keptState S pty node.kids q0) st1.tr.doc
              (pos + 1 + fsize node.kids) fs ∧ S.applyAll fs st1.tr.doc = .ok st2.tr.doc ∧
              st2.tr.steps = st1.tr.steps ++ fs ∧ st2.tr.maps = st1.tr.maps ++ fs.map Step.getMap by
            obtain ⟨fs, ho, b1, b2, b3⟩ := hfs
            exact ⟨st1.tr.doc, st2.tr.doc, fs, a1, ho, b1, c1,
              by rw [c2, b2, a2]; simp only [List.append_assoc],
              by rw [c3, b3, a3]; simp only [List.map_append, List.append_assoc]⟩
          split at hfill
          · rename_i hv
            simp only [Except.ok.injEq] at hfill
            subst hfill
            exact ⟨[], .validEnd hv, rfl, by simp, by simp⟩
          · rename_i hv
            split at hfill
            · simp at hfill
            · rename_i F hF
              have hv' : (S.dfa pty).validEnd (keptState S pty node.kids q0) = false := by simpa using hv
              obtain ⟨r, hr, b1, b2, b3⟩ := PSt.replaceF_steps S st1 st2 _ _ _ hfill
              rw [← clearFill_retypeFill S pty _ F hv' hF] at hr
              exact ⟨r.toList, .asked r hv' hr, b1, b2, b3⟩

/-! #### token effect -/

theorem Slice.wf_closed (c : List Node) : (Slice.mk c 0 0).wf = true := by simp [Slice.wf]

/-- **token effect of the plan**, for children `kids` occupying the window between `P` and `Q`:
    the children become `keptChildren`; whatever the filler request produced (`Z`) follows them, and
    replaces the first `n` tokens of what came after the children.
    * no step recorded: `Z = []`, `n = 0`;
    * a `ReplaceStep(f, T, slice')`: it starts at the end of the content, `Z` is the tokens of its
      slice, which carry no text, `n = T - f`, and the `n` tokens it replaces are close tokens;
    * a `ReplaceAroundStep`: it starts at the end of the content, as does its gap. -/
theorem clearPlanF_toks (S : Schema) (pty : TypeId) (kids : List Node) (q cur : Nat) (doc d1 d2 d' : Node)
    (fs : List Step) (P Q : List Tok) (hL : ftoks doc.kids = P ++ ftoks kids ++ Q) (hP : P.length = cur)
    (h1 : S.applyAll (clearRm S pty kids q cur) doc = .ok d1)
    (ho : FillOutcome S pty (keptState S pty kids q) d1 (cur + fsize kids) fs)
    (h2 : S.applyAll fs d1 = .ok d2)
    (h3 : S.applyAll ((clearEdits S pty kids q cur).map Edit.step).reverse d2 = .ok d') :
    ∃ Z n, ftoks d'.kids = P ++ ftoks (keptChildren S pty kids q) ++ (Z ++ Q.drop n) ∧ n ≤ Q.length ∧
      (fs = [] → Z = [] ∧ n = 0) ∧
      (∀ f T sl' b, fs = [.replace f T sl' b] → f = cur + fsize kids ∧ f ≤ T ∧ Z = sl'.toks ∧ n = T - f ∧
        textUnits Z = [] ∧ ∀ i, i < n → Q[i]? = some Tok.cl) ∧
      (fs = [] ∨ (∃ f T sl' b, fs = [.replace f T sl' b]) ∨
        (∃ T gt sl' ins b, fs = [.replaceAround (cur + fsize kids) T (cur + fsize kids) gt sl' ins b])) := by
  have e1 := clearRm_toks S pty kids q cur doc d1 P Q hL hP h1
  have hA : (P ++ ftoks (rmKids S pty kids q)).length = cur + fsize kids := by
    simp [ftoks_length, rmKids_size, hP]
  suffices core : ∃ Z n, ftoks d2.kids = P ++ ftoks (rmKids S pty kids q) ++ (Z ++ Q.drop n) ∧ n ≤ Q.length ∧
      (fs = [] → Z = [] ∧ n = 0) ∧
      (∀ f T sl' b, fs = [.replace f T sl' b] → f = cur + fsize kids ∧ f ≤ T ∧ Z = sl'.toks ∧ n = T - f ∧
        textUnits Z = [] ∧ ∀ i, i < n → Q[i]? = some Tok.cl) ∧
      (fs = [] ∨ (∃ f T sl' b, fs = [.replace f T sl' b]) ∨
        (∃ T gt sl' ins b, fs = [.replaceAround (cur + fsize kids) T (cur + fsize kids) gt sl' ins b])) by
    obtain ⟨Z, n, e2, r1, r2, r3, r4⟩ := core
    refine ⟨Z, n, ?_, r1, r2, r3, r4⟩
    rw [applyAll_edits S _ d2 d' h3, e2]
    exact spliceAll_clearEdits S pty kids q cur P _ hP
  have none_case : fs = [] → d2 = d1 → _ := fun hfs hd =>
    (⟨[], 0, by rw [hd, e1]; simp, Nat.zero_le _, fun _ => ⟨rfl, rfl⟩,
      fun f T sl' b hf => by rw [hfs] at hf; simp at hf, .inl hfs⟩ :
      ∃ Z n, ftoks d2.kids = P ++ ftoks (rmKids S pty kids q) ++ (Z ++ Q.drop n) ∧ n ≤ Q.length ∧
      (fs = [] → Z = [] ∧ n = 0) ∧
      (∀ f T sl' b, fs = [.replace f T sl' b] → f = cur + fsize kids ∧ f ≤ T ∧ Z = sl'.toks ∧ n = T - f ∧
        textUnits Z = [] ∧ ∀ i, i < n → Q[i]? = some Tok.cl) ∧
      (fs = [] ∨ (∃ f T sl' b, fs = [.replace f T sl' b]) ∨
        (∃ T gt sl' ins b, fs = [.replaceAround (cur + fsize kids) T (cur + fsize kids) gt sl' ins b])))
  cases ho with
  | validEnd hv =>
    simp only [Schema.applyAll, Except.ok.injEq] at h2
    exact none_case rfl h2.symm
  | asked r hv hr =>
    cases r with
    | none =>
      simp only [Option.toList, Schema.applyAll, Except.ok.injEq] at h2
      exact none_case rfl h2.symm
    | some s =>
      have ha : S.apply s d1 = .ok d2 := by
        simp only [Option.toList, Schema.applyAll] at h2
        split at h2
        · rename_i d hd
          simp only [Except.ok.injEq] at h2
          rw [hd, h2]
        · simp at h2
      have hdropT : ∀ T, cur + fsize kids ≤ T →
          (ftoks d1.kids).drop T = Q.drop (T - (cur + fsize kids)) := by
        intro T hT
        rw [e1, List.drop_append, hA, List.drop_of_length_le (by omega), List.nil_append]
      rcases replaceStep_range S d1 _ _ _ s hr with ⟨T, sl', rfl, hT1, hT2, hcl⟩ | ⟨T, G2, sl', ins, rfl, hG1, hG2, hT2, _⟩
      · have hf := apply_flanks S d1 d2 _ ha
        simp only at hf
        obtain ⟨f1, _, _⟩ := hf
        have hlen : (ftoks d1.kids).length = cur + fsize kids + Q.length := by
          rw [e1, List.length_append, hA]
        rw [← ftoks_length] at hT2
        refine ⟨sl'.toks, T - (cur + fsize kids), ?_, by omega, fun hfs => by simp [Option.toList] at hfs, ?_,
          .inr (.inl ⟨_, _, _, _, rfl⟩)⟩
        · rw [f1, hdropT T hT1, e1, List.take_left' hA, List.append_assoc]
        · intro f T' sl2 b hfs
          simp only [Option.toList, List.cons.injEq, Step.replace.injEq, and_true] at hfs
          obtain ⟨rfl, rfl, rfl, rfl⟩ := hfs
          refine ⟨rfl, hT1, rfl, rfl, ?_, fun i hi => ?_⟩
          · obtain ⟨sl2, hs2, hsub⟩ := replaceStep_text S d1 _ _ _ _ (Slice.wf_closed _) hr
            simp only [Step.sliceOf, Option.some.injEq] at hs2
            subst hs2
            rw [Slice.toks_closed, retypeFill_notext] at hsub
            exact List.eq_nil_of_sublist_nil hsub
          · have := hcl (cur + fsize kids + i) (by omega) (by omega)
            rw [e1, List.getElem?_append_right (by omega), hA] at this
            simpa using this
      · have hf := apply_flanks S d1 d2 _ ha
        simp only at hf
        obtain ⟨⟨Z, f1⟩, _, _⟩ := hf
        have hlen : (ftoks d1.kids).length = cur + fsize kids + Q.length := by
          rw [e1, List.length_append, hA]
        rw [← ftoks_length] at hT2
        refine ⟨Z, T - (cur + fsize kids), ?_, by omega, fun hfs => by simp [Option.toList] at hfs, ?_,
          .inr (.inr ⟨_, _, _, _, _, rfl⟩)⟩
        · rw [f1, hdropT T (by omega), e1, List.take_left' hA, List.append_assoc]
        · intro f T' sl2 b hfs
          simp [Option.toList] at hfs

/-! #### dropping close tokens loses no content -/

theorem textUnits_drop_cl : ∀ (Q : List Tok) (n : Nat), (∀ i, i < n → Q[i]? = some Tok.cl) →
    textUnits (Q.drop n) = textUnits Q
  | _, 0, _ => by simp
  | [], n + 1, _ => by simp
  | x :: Q, n + 1, h => by
    have hx : x = Tok.cl := by simpa using h 0 (by omega)
    subst hx
    rw [List.drop_succ_cons, textUnits_drop_cl Q n (fun i hi => by simpa using h (i + 1) (by omega))]
    rfl

theorem content_drop_cl : ∀ (Q : List Tok) (n : Nat), (∀ i, i < n → Q[i]? = some Tok.cl) →
    (Q.drop n).filter Tok.isContent = Q.filter Tok.isContent
  | _, 0, _ => by simp
  | [], n + 1, _ => by simp
  | x :: Q, n + 1, h => by
    have hx : x = Tok.cl := by simpa using h 0 (by omega)
    subst hx
    rw [List.drop_succ_cons, content_drop_cl Q n (fun i hi => by simpa using h (i + 1) (by omega))]
    simp [Tok.isContent]

/-! ### 4. when does the filler request fit trivially?

`fits_trivially(from, to, slice)` for `from = to = ` the end of the content of the node found at
`pos` asks `from.parent.can_replace(index, index, fill)`: the parent is **that node with its old
type and all its old children** (the deletions come later), the index is its child count. -/

theorem resolveScan_end (node : Node) (start : Nat) : ∀ (rest : List Node) (idx cur : Nat),
    (∀ c ∈ rest, 0 < c.size) →
    resolveScan node start rest idx cur (fsize rest) = some [⟨node, idx + rest.length, start + (cur + fsize rest)⟩]
  | [], idx, cur, _ => by simp [resolveScan]
  | n :: ns, idx, cur, h => by
    have hn := h n (by simp)
    unfold resolveScan
    rw [if_neg (by simp only [fsize_cons]; omega), if_pos (by simp only [fsize_cons]; omega)]
    have := resolveScan_end node start ns (idx + 1) (cur + n.size) (fun c hc => h c (by simp [hc]))
    simp only [fsize_cons, Nat.add_sub_cancel_left]
    rw [this]
    simp only [List.length_cons]
    congr 3 <;> omega

/-- resolving the end of the content of the element node that `node_at(pos)` finds: the innermost
    path entry is that node, pointing behind its last child -/
theorem resolveScan_nodeAt (t : TypeId) (a : Attrs) (m : Marks) (k : List Node) (hk : ∀ c ∈ k, 0 < c.size)
    (kids : List Node) (pos : Nat) (h : nodeAtKids kids pos = .ok (some (.elem t a m k))) :
    ∀ (node : Node) (start idx cur : Nat), ∃ path p,
      resolveScan node start kids idx cur (pos + 1 + fsize k) = some path ∧
      path.getLast? = some ⟨.elem t a m k, k.length, p⟩ := by
  fun_induction nodeAtKids kids pos
  case case1 => simp at h
  case case2 => simp at h
  case case3 n' ns =>
    simp only [Except.ok.injEq, Option.some.injEq] at h; subst h
    intro node start idx cur
    unfold resolveScan
    rw [if_neg (by omega), if_neg (by simp only [Node.size_elem]; omega)]
    simp only [Nat.zero_add, Nat.add_sub_cancel_left]
    rw [resolveScan_end _ _ k 0 0 hk]
    exact ⟨_, start + cur + 1 + (0 + fsize k), rfl, by simp⟩
  case case4 n' ns pos h0 h1 ih =>
    intro node start idx cur
    obtain ⟨path, p, e1, e2⟩ := ih h node start (idx + 1) (cur + n'.size)
    refine ⟨path, p, ?_, e2⟩
    unfold resolveScan
    rw [if_neg (by omega), if_pos (by omega), ← e1]
    congr 1; omega
  case case5 ns pos h0 ty ats mk k' h1 ih =>
    intro node start idx cur
    simp only [Node.size_elem, Nat.not_le] at h1
    obtain ⟨q, hq1, hq2, hq3, hq4⟩ := nodeAtKids_some k' (pos - 1) _ h
    have hq : q = pos - 1 := by
      rcases hq4 with h | h
      · exact h
      · simp [Node.isText] at h
    subst hq
    have hbound : pos - 1 + (2 + fsize k) ≤ fsize k' := by
      have := congrArg List.length hq3
      rw [List.length_take, List.length_drop, Node.toks_length, ftoks_length, Node.size_elem] at this
      omega
    obtain ⟨path, p, e1, e2⟩ := ih h (Node.elem ty ats mk k') (start + cur + 1) 0 0
    refine ⟨⟨node, idx, start + cur⟩ :: path, p, ?_, ?_⟩
    · unfold resolveScan
      rw [if_neg (by omega), if_neg (by simp only [Node.size_elem]; omega)]
      simp only
      rw [show pos + 1 + fsize k - 1 = pos - 1 + 1 + fsize k by omega, e1]
      rfl
    · cases path with
      | nil => simp at e2
      | cons x xs => simpa using e2
  case case6 n' ns pos h0 h1 hne =>
    simp only [Except.ok.injEq, Option.some.injEq] at h; subst h
    exact (hne t a m k rfl).elim

/-- **the filler request fits trivially iff the node as it is — old type, old children — accepts
    the fillers behind its last child**: for the element node `elem t a m k` that `node_at(pos)` finds
    in `doc` (without empty text children), and `cur` the end of its content,
    `fits_trivially(doc.resolve(cur), doc.resolve(cur), Slice(F, 0, 0))` is
    `node.can_replace(child_count, child_count, F)` -/
theorem fitsTrivially_at_end (S : Schema) (doc : Node) (pos : Nat) (t : TypeId) (a : Attrs) (m : Marks)
    (k : List Node) (F : List Node) (hk : ∀ c ∈ k, 0 < c.size)
    (h : doc.nodeAt pos = .ok (some (.elem t a m k))) :
    fitsTriviallyO S doc (pos + 1 + fsize k) (pos + 1 + fsize k) ⟨F, 0, 0⟩ =
      S.nodeCanReplace (.elem t a m k) k.length k.length F := by
  obtain ⟨q, hq1, hq2, hq3, hq4⟩ := nodeAtKids_some doc.kids pos _ h
  have hq : q = pos := by
    rcases hq4 with h | h
    · exact h
    · simp [Node.isText] at h
  subst hq
  have hbound : q + (2 + fsize k) ≤ fsize doc.kids := by
    have := congrArg List.length hq3
    rw [List.length_take, List.length_drop, Node.toks_length, ftoks_length, Node.size_elem] at this
    omega
  obtain ⟨path, p, e1, e2⟩ := resolveScan_nodeAt t a m k hk doc.kids q h doc 0 0 0
  have hres : doc.resolve (q + 1 + fsize k) = some ⟨q + 1 + fsize k, path⟩ := by
    simp only [Node.resolve, e1, Option.map_some]
    rw [if_pos (by omega)]
  unfold fitsTriviallyO
  simp only [hres]
  unfold fitsTriviallyR
  have hlast : ∀ (path : Path) (e : PE), path.getLast? = some e → path[path.length - 1]! = e := by
    intro path e he
    cases path with
    | nil => simp at he
    | cons x xs =>
      rw [List.getLast?_eq_getElem?] at he
      simp only [List.length_cons, Nat.add_sub_cancel] at he ⊢
      rw [getElem!_pos _ _ (by simp), ← Option.some.injEq, ← he, List.getElem?_eq_getElem (by simp)]
  have hpar : (RPos.mk (q + 1 + fsize k) path).parent = .elem t a m k := by
    simp only [RPos.parent, RPos.node, RPos.entry, RPos.depth, hlast path _ e2]
  have hidx : (RPos.mk (q + 1 + fsize k) path).index (RPos.mk (q + 1 + fsize k) path).depth = k.length := by
    simp only [RPos.index, RPos.entry, RPos.depth, hlast path _ e2]
  simp only [hpar, hidx, beq_self_eq_true, Bool.and_self, if_true]

/-- `replace_step` on a request that fits trivially (and is not empty) -/
theorem replaceStep_of_trivial (S : Schema) (doc : Node) (f t : Nat) (sl : Slice)
    (hne : ¬ (f = t ∧ sl.size = 0)) (h : fitsTriviallyO S doc f t sl = some true) :
    replaceStep S doc f t sl = .ok (some (.replace f t sl false)) := by
  unfold replaceStep
  rw [if_neg (by simpa using hne)]
  unfold fitsTriviallyO at h
  split at h
  · rename_i rf rt hrf hrt
    simp only [hrf, hrt, h]
    rfl
  · simp at h

/-- … and on one that does not: the answer, if a step, comes from the Fitter (`fitterFit`) -/
theorem replaceStep_of_nontrivial (S : Schema) (doc : Node) (f t : Nat) (sl : Slice)
    (hne : ¬ (f = t ∧ sl.size = 0)) (h : fitsTriviallyO S doc f t sl = some false) :
    ∃ rf rt, doc.resolve f = some rf ∧ doc.resolve t = some rt ∧
      replaceStep S doc f t sl = fitterFit S doc rf rt sl (fitFuel S sl) := by
  unfold replaceStep
  rw [if_neg (by simpa using hne)]
  unfold fitsTriviallyO at h
  split at h
  · rename_i rf rt hrf hrt
    exact ⟨rf, rt, hrf, hrt, by simp only [hrf, hrt, h]⟩
  · simp at h

/-! ### 5. small facts used by the property theorems -/

def Step.isAround : Step → Bool
  | .replaceAround .. => true
  | _ => false

theorem clearRm_not_around (S : Schema) (pty : TypeId) : ∀ (kids : List Node) (q cur : Nat),
    ∀ s ∈ clearRm S pty kids q cur, s.isAround = false
  | [], q, cur => by simp [clearRm]
  | c :: cs, q, cur => by
    simp only [clearRm]
    split
    · exact clearRm_not_around S pty cs _ _
    · intro s hs
      rcases List.mem_append.mp hs with hs | hs
      · obtain ⟨x, _, rfl⟩ := List.mem_map.mp hs
        rfl
      · exact clearRm_not_around S pty cs _ _ s hs

theorem createNode_notext (S : Schema) (ty : TypeId) (attrs : Attrs) (marks : Marks) (nn : Node)
    (h : S.createNode ty attrs marks = .ok nn) : textUnits nn.toks = [] ∧ nn.isText = false := by
  unfold Schema.createNode at h
  simp only at h
  split at h
  · simp at h
  · cases hc : computeAttrs (S.nodeType ty).attrs attrs with
    | error e => rw [hc] at h; simp [Except.map] at h
    | ok a =>
      rw [hc] at h
      simp only [Except.map, Except.ok.injEq] at h
      subst h
      split <;> simp [textUnits, Node.isText]

/-! ### 6. plain target types never need the Fitter -/

theorem plainType_state (S : Schema) (ty : TypeId) (h : S.plainType ty = true) (q : Nat)
    (hq : q < (S.dfa ty).size) :
    (S.dfa ty).validEnd q = true ∧ ∀ e ∈ (S.dfa ty).edgesOf q, e.2 < (S.dfa ty).size := by
  simp only [Schema.plainType, Bool.and_eq_true, decide_eq_true_eq, List.all_eq_true] at h
  have := h.2 (S.dfa ty)[q] (by simp)
  refine ⟨?_, ?_⟩
  · simp [Dfa.validEnd, Array.getElem?_eq_getElem hq, this.1]
  · intro e he
    simp only [Dfa.edgesOf, Array.getElem?_eq_getElem hq] at he
    exact this.2 e he

theorem plainType_matchType (S : Schema) (ty : TypeId) (h : S.plainType ty = true) (q : Nat)
    (hq : q < (S.dfa ty).size) (t : TypeId) (q' : Nat) (hm : (S.dfa ty).matchType q t = some q') :
    q' < (S.dfa ty).size := by
  simp only [Dfa.matchType, Option.map_eq_some_iff] at hm
  obtain ⟨e, he, rfl⟩ := hm
  exact (plainType_state S ty h q hq).2 e (List.mem_of_find?_eq_some he)

theorem plainType_keptState (S : Schema) (ty : TypeId) (h : S.plainType ty = true) : ∀ (kids : List Node) (q : Nat),
    q < (S.dfa ty).size → keptState S ty kids q < (S.dfa ty).size
  | [], q, hq => hq
  | c :: cs, q, hq => by
    simp only [keptState]
    split
    · exact plainType_keptState S ty h cs q hq
    · rename_i q' hm
      exact plainType_keptState S ty h cs q' (plainType_matchType S ty h q hq _ q' hm)

theorem plainType_validEnd (S : Schema) (ty : TypeId) (h : S.plainType ty = true) (kids : List Node) :
    (S.dfa ty).validEnd (keptState S ty kids 0) = true := by
  have h0 : 0 < (S.dfa ty).size := by
    simp only [Schema.plainType, Bool.and_eq_true, decide_eq_true_eq] at h
    exact h.1
  exact (plainType_state S ty h _ (plainType_keptState S ty h kids 0 h0)).1

/-- a `clear_incompatible` whose walk ends at a valid end does not touch the log -/
theorem clearIncompatibleF_fits_of_validEnd (S : Schema) (st st' : PSt) (pos : Nat) (pty : TypeId) (q0 : Nat)
    (hv : ∀ node, st.tr.doc.nodeAt pos = .ok (some node) →
      (S.dfa pty).validEnd (keptState S pty node.kids q0) = true)
    (h : st.clearIncompatibleF S pos pty q0 = .ok st') : st'.fits = st.fits := by
  unfold PSt.clearIncompatibleF at h
  split at h
  · simp at h
  · simp at h
  · rename_i node hnode
    split at h
    · simp at h
    · rename_i q cur repl st1 hloop
      have hf1 := clearLoop_fits S pty _ _ _ _ _ _ _ _ _ hloop
      obtain ⟨rfl, _, _, _⟩ := clearLoop_plan S pty _ _ _ _ _ _ _ _ _ hloop
      simp only [hv node hnode, if_true] at h
      cases hs : st1.stepAll S repl.reverse with
      | error e => rw [hs] at h; simp [liftP] at h
      | ok s2 =>
        rw [hs] at h
        simp only [liftP, Except.ok.injEq] at h
        subst h
        rw [PSt.stepAll_fits S _ st1 s2 hs, hf1]

theorem setBlockTypeVisitF_fits_of_plain (S : Schema) (ty : TypeId) (attrs : Attrs) (mf : Nat)
    (hp : S.plainType ty = true) (st st' : PSt) (skip skip' : Nat) (v : NV)
    (h : setBlockTypeVisitF S ty attrs mf (.ok (st, skip)) v = .ok (st', skip')) : st'.fits = st.fits := by
  unfold setBlockTypeVisitF at h
  simp only at h
  split at h
  · simp only [Except.ok.injEq, Prod.mk.injEq] at h; rw [← h.1]
  · split at h
    · simp only [Except.ok.injEq, Prod.mk.injEq] at h; rw [← h.1]
    · split at h
      · simp at h
      · simp only [Except.ok.injEq, Prod.mk.injEq] at h; rw [← h.1]
      · split at h
        · simp at h
        · rename_i st1 hc
          split at h
          · simp at h
          · split at h
            · simp at h
            · rename_i st2 hs
              simp only [Except.ok.injEq, Prod.mk.injEq] at h
              rw [← h.1, PSt.step_fits S st1 st2 _ hs]
              exact clearIncompatibleF_fits_of_validEnd S st st1 _ ty 0
                (fun node _ => plainType_validEnd S ty hp node.kids) hc

theorem sbtF_fold_fits_of_plain (S : Schema) (ty : TypeId) (attrs : Attrs) (mf : Nat)
    (hp : S.plainType ty = true) : ∀ (vs : List NV) (st st' : PSt) (skip skip' : Nat),
    vs.foldl (setBlockTypeVisitF S ty attrs mf) (.ok (st, skip)) = .ok (st', skip') → st'.fits = st.fits
  | [], st, st', skip, skip', h => by
    simp only [List.foldl_nil, Except.ok.injEq, Prod.mk.injEq] at h; rw [← h.1]
  | v :: vs, st, st', skip, skip', h => by
    simp only [List.foldl_cons] at h
    cases hv : setBlockTypeVisitF S ty attrs mf (.ok (st, skip)) v with
    | error e => rw [hv, sbtF_foldl_error] at h; simp at h
    | ok r =>
      obtain ⟨st1, sk1⟩ := r
      rw [hv] at h
      rw [sbtF_fold_fits_of_plain S ty attrs mf hp vs st1 st' sk1 skip' h,
        setBlockTypeVisitF_fits_of_plain S ty attrs mf hp st st1 skip sk1 v hv]

/-- **`set_block_type` to a plain type never consults the Fitter** -/
theorem PSt.setBlockTypeF_fits_of_plain (S : Schema) (st st' : PSt) (f t : Nat) (ty : TypeId) (attrs : Attrs)
    (hp : S.plainType ty = true) (h : st.setBlockTypeF S f t ty attrs = .ok st') : st'.fits = st.fits := by
  unfold PSt.setBlockTypeF at h
  simp only at h
  split at h
  · simp at h
  · split at h
    · simp at h
    · rename_i st2 sk hfold
      split at h
      · simp at h
      · simp only [Except.ok.injEq] at h
        subst h
        exact sbtF_fold_fits_of_plain S ty attrs _ hp _ st st2 0 sk hfold

end PM
