/-
  Proofs/TokCore.lean — bracket structure of the token sequence: balance, injectivity of `ftoks`
  on normal-form trees, depth = unmatched opens, tokens of cut and slice, normal form preserved.
-/
import PM.Basic
import PM.Fragment
import PM.Replace
import Proofs.Toks
namespace PM

/-- +1 for an open token, −1 for a close token -/
def Tok.delta : Tok → Int
  | .op .. => 1
  | .cl => -1
  | _ => 0

/-- nesting balance of a token list: opens minus closes -/
def balance (l : List Tok) : Int := (l.map Tok.delta).sum

/-- tokens of a slice: the content's tokens minus the `openStart` opens and `openEnd` closes -/
def Slice.toks (s : Slice) : List Tok :=
  ((ftoks s.content).drop s.openStart).take (fsize s.content - s.openStart - s.openEnd)

/-- the offset does not fall between the two halves of a surrogate pair of a text child -/
def alignedAt : List Node → Nat → Bool
  | [], _ => true
  | n :: ns, pos =>
    if pos = 0 then true
    else if n.size ≤ pos then alignedAt ns (pos - n.size)
    else match n with
      | .text s _ => splitOk s pos
      | .elem _ _ _ kids => alignedAt kids (pos - 1)
      | .leaf .. => true

/-- the open tokens of the element nodes offset `pos` lies strictly inside, outermost first -/
def ancestorOpens : List Node → Nat → List Tok
  | [], _ => []
  | n :: ns, pos =>
    if pos = 0 then []
    else if n.size ≤ pos then ancestorOpens ns (pos - n.size)
    else match n with
      | .elem t a m kids => Tok.op t a m :: ancestorOpens kids (pos - 1)
      | _ => []

/-! ### Balance and depth -/

theorem ancestorOpens_length_rec : ∀ (kids : List Node) (pos : Nat),
    (ancestorOpens kids pos).length = depthAt kids pos
  | [], pos => by simp [ancestorOpens, depthAt]
  | n :: ns, pos => by
    unfold ancestorOpens depthAt
    split
    · rfl
    · split
      · exact ancestorOpens_length_rec ns _
      · cases n with
        | elem t a m kids => simp [ancestorOpens_length_rec kids]; omega
        | _ => simp

theorem ancestorOpens_length (kids : List Node) (pos : Nat) :
    (ancestorOpens kids pos).length = depthAt kids pos :=
  ancestorOpens_length_rec kids pos

@[simp] theorem balance_nil : balance [] = 0 := by simp [balance]
@[simp] theorem balance_cons (x : Tok) (l : List Tok) : balance (x :: l) = x.delta + balance l := by
  simp [balance]
@[simp] theorem balance_append (a b : List Tok) : balance (a ++ b) = balance a + balance b := by
  simp [balance]
@[simp] theorem balance_units (s : List Nat) (m : Marks) : balance (s.map (Tok.unit · m)) = 0 := by
  induction s with
  | nil => simp
  | cons c s ih => simp [ih, Tok.delta]
theorem balance_take_units (s : List Nat) (m : Marks) (k : Nat) :
    balance ((s.map (Tok.unit · m)).take k) = 0 := by
  have := balance_units (s.take k) m
  simpa [List.map_take] using this

mutual
theorem Node.balance_toks : ∀ n : Node, balance n.toks = 0
  | .text s m => by simp
  | .leaf t a m => by simp [Tok.delta]
  | .elem t a m kids => by simp [Tok.delta, balance_ftoks_rec kids]
theorem balance_ftoks_rec : ∀ l : List Node, balance (ftoks l) = 0
  | [] => by simp
  | n :: ns => by simp [Node.balance_toks n, balance_ftoks_rec ns]
end

/-- the token sequence of a node list is balanced -/
theorem balance_ftoks (l : List Node) : balance (ftoks l) = 0 :=
  balance_ftoks_rec l

mutual
theorem Node.balance_prefix_nonneg : ∀ (n : Node) (k : Nat), 0 ≤ balance (n.toks.take k)
  | .text s m, k => by rw [Node.toks_text, balance_take_units]; omega
  | .leaf t a m, k => by
    cases k
    · simp
    · simp [Tok.delta]
  | .elem t a m kids, k => by
    cases k with
    | zero => simp
    | succ k =>
      simp only [Node.toks_elem, List.take_succ_cons, balance_cons, List.take_append, balance_append]
      have := balance_prefix_nonneg_rec kids k
      have h2 : -1 ≤ balance (List.take (k - (ftoks kids).length) [Tok.cl]) := by
        cases (k - (ftoks kids).length) <;> simp [Tok.delta]
      simp [Tok.delta]; omega
theorem balance_prefix_nonneg_rec : ∀ (l : List Node) (k : Nat), 0 ≤ balance ((ftoks l).take k)
  | [], k => by simp
  | n :: ns, k => by
    simp only [ftoks_cons, List.take_append, balance_append]
    have := Node.balance_prefix_nonneg n k
    have := balance_prefix_nonneg_rec ns (k - n.toks.length)
    omega
end

/-- … and none of its prefixes closes more than it opened -/
theorem balance_prefix_nonneg (l : List Node) (k : Nat) : 0 ≤ balance ((ftoks l).take k) :=
  balance_prefix_nonneg_rec l k

@[simp] theorem depthAt_zero (l : List Node) : depthAt l 0 = 0 := by
  cases l
  · unfold depthAt; rfl
  · unfold depthAt; simp
@[simp] theorem ancestorOpens_zero (l : List Node) : ancestorOpens l 0 = [] := by
  cases l
  · unfold ancestorOpens; rfl
  · unfold ancestorOpens; simp

theorem depthAt_balance_rec : ∀ (kids : List Node) (pos : Nat), pos ≤ fsize kids →
    (depthAt kids pos : Int) = balance ((ftoks kids).take pos)
  | [], pos, h => by simp [depthAt]
  | n :: ns, pos, h => by
    unfold depthAt
    simp only [ftoks_cons, List.take_append, balance_append, Node.toks_length]
    split
    · subst_vars; simp
    · split
      · rename_i h1 h2
        rw [List.take_of_length_le (by simp [Node.toks_length]; omega), Node.balance_toks]
        simp at h
        rw [depthAt_balance_rec ns (pos - n.size) (by omega)]; simp
      · rename_i h1 h2
        have : pos - n.size = 0 := by omega
        rw [this]
        cases n with
        | text s m => simp [balance_take_units]
        | leaf t a m => simp at h2; omega
        | elem t a m kids =>
          simp at h2
          obtain ⟨p, rfl⟩ : ∃ p, pos = p + 1 := ⟨pos - 1, by omega⟩
          simp only [Node.toks_elem, List.take_succ_cons, balance_cons, List.take_append, balance_append]
          have : p - (ftoks kids).length = 0 := by rw [ftoks_length]; omega
          rw [this]
          have := depthAt_balance_rec kids p (by omega)
          simp [Tok.delta]; omega

/-- **Depth = unmatched opens** before the position. -/
theorem depthAt_balance (kids : List Node) (pos : Nat) (h : pos ≤ fsize kids) :
    (depthAt kids pos : Int) = balance ((ftoks kids).take pos) :=
  depthAt_balance_rec kids pos h

/-! ### Injectivity of `ftoks` on normal forms -/

/-- a list of tokens that can follow a complete child list: empty or starting with a close -/
def termOk : List Tok → Bool
  | [] => true
  | .cl :: _ => true
  | _ => false

def startsUnit (m : Marks) : List Tok → Bool
  | .unit _ m' :: _ => m == m'
  | _ => false

theorem chainOk_tail {n : Node} {ns : List Node} (h : chainOk (n :: ns) = true) : chainOk ns = true := by
  cases ns with
  | nil => simp [chainOk]
  | cons b r => simp [chainOk] at h; exact h.2

theorem units_inj (m : Marks) : ∀ (s s' : List Nat) (X X' : List Tok),
    startsUnit m X = false → startsUnit m X' = false →
    s.map (Tok.unit · m) ++ X = s'.map (Tok.unit · m) ++ X' → s = s' ∧ X = X'
  | [], [], X, X', _, _, h => by simpa using h
  | [], c :: s', X, X', hX, _, h => by
    simp at h; subst h; simp [startsUnit] at hX
  | c :: s, [], X, X', _, hX', h => by
    simp at h; subst h; simp [startsUnit] at hX'
  | c :: s, c' :: s', X, X', hX, hX', h => by
    simp at h
    obtain ⟨rfl, h⟩ := h
    have := units_inj m s s' X X' hX hX' (by simpa using h)
    simp [this.1, this.2]

/-- after a text node with marks `m` in a normal-form list, the remaining tokens do not start with
    a unit token carrying `m` -/
theorem startsUnit_after (s : List Nat) (m : Marks) (ns : List Node) (r : List Tok)
    (hc : chainOk (.text s m :: ns) = true) (hn : fnormKids ns = true) (hr : termOk r = true) :
    startsUnit m (ftoks ns ++ r) = false := by
  cases ns with
  | nil =>
    cases r with
    | nil => simp [startsUnit]
    | cons x xs => cases x <;> simp_all [startsUnit, termOk]
  | cons b bs =>
    cases b with
    | text s' m' =>
      simp [chainOk, adjOk, fnormKids, Node.norm] at hc hn
      cases s' with
      | nil => simp at hn
      | cons c s' => simp [startsUnit, hc.1]
    | leaf t a m' => simp [startsUnit]
    | elem t a m' k => simp [startsUnit]

theorem ftoks_inj_aux : ∀ (a b : List Node) (r r' : List Tok),
    fnormKids a = true → chainOk a = true → fnormKids b = true → chainOk b = true →
    termOk r = true → termOk r' = true → ftoks a ++ r = ftoks b ++ r' → a = b ∧ r = r'
  | [], [], r, r', _, _, _, _, _, _, h => by simpa using h
  | [], n' :: ns', r, r', _, _, hb, _, hr, _, h => by
    exfalso
    cases n' with
    | text s m =>
      cases s with
      | nil => simp [fnormKids, Node.norm] at hb
      | cons c s => simp at h; subst h; simp [termOk] at hr
    | leaf t a m => simp at h; subst h; simp [termOk] at hr
    | elem t a m k => simp at h; subst h; simp [termOk] at hr
  | n :: ns, [], r, r', ha, _, _, _, _, hr', h => by
    exfalso
    cases n with
    | text s m =>
      cases s with
      | nil => simp [fnormKids, Node.norm] at ha
      | cons c s => simp at h; subst h; simp [termOk] at hr'
    | leaf t a m => simp at h; subst h; simp [termOk] at hr'
    | elem t a m k => simp at h; subst h; simp [termOk] at hr'
  | n :: ns, n' :: ns', r, r', ha, hca, hb, hcb, hr, hr', h => by
    have hca' := chainOk_tail hca
    have hcb' := chainOk_tail hcb
    simp only [fnormKids, Bool.and_eq_true] at ha hb
    cases n with
    | text s m =>
      cases n' with
      | text s' m' =>
        have hm : m = m' := by
          cases s with
          | nil => simp [Node.norm] at ha
          | cons c s =>
            cases s' with
            | nil => simp [Node.norm] at hb
            | cons c' s' => simp at h; exact h.1.2
        subst hm
        simp only [ftoks_cons, Node.toks_text, List.append_assoc] at h
        have h1 := startsUnit_after s m ns r hca ha.2 hr
        have h2 := startsUnit_after s' m ns' r' hcb hb.2 hr'
        obtain ⟨rfl, h3⟩ := units_inj m s s' _ _ h1 h2 h
        have := ftoks_inj_aux ns ns' r r' ha.2 hca' hb.2 hcb' hr hr' h3
        simp [this.1, this.2]
      | leaf t a m' =>
        exfalso
        cases s with
        | nil => simp [Node.norm] at ha
        | cons c s => simp at h
      | elem t a m' k =>
        exfalso
        cases s with
        | nil => simp [Node.norm] at ha
        | cons c s => simp at h
    | leaf t a m =>
      cases n' with
      | text s' m' =>
        exfalso
        cases s' with
        | nil => simp [Node.norm] at hb
        | cons c s => simp at h
      | leaf t' a' m' =>
        simp at h
        obtain ⟨⟨rfl, rfl, rfl⟩, h⟩ := h
        have := ftoks_inj_aux ns ns' r r' ha.2 hca' hb.2 hcb' hr hr' h
        simp [this.1, this.2]
      | elem t' a' m' k => simp at h
    | elem t a m k =>
      cases n' with
      | text s' m' =>
        exfalso
        cases s' with
        | nil => simp [Node.norm] at hb
        | cons c s => simp at h
      | leaf t' a' m' => simp at h
      | elem t' a' m' k' =>
        simp at h
        obtain ⟨⟨rfl, rfl, rfl⟩, h⟩ := h
        simp only [Node.norm, Bool.and_eq_true] at ha hb
        have h1 := ftoks_inj_aux k k' (Tok.cl :: (ftoks ns ++ r)) (Tok.cl :: (ftoks ns' ++ r'))
          ha.1.1 ha.1.2 hb.1.1 hb.1.2 (by simp [termOk]) (by simp [termOk]) h
        obtain ⟨rfl, h2⟩ := h1
        simp at h2
        have := ftoks_inj_aux ns ns' r r' ha.2 hca' hb.2 hcb' hr hr' h2
        simp [this.1, this.2]

theorem ftoks_inj (a b : List Node) (ha : fnorm a = true) (hb : fnorm b = true)
    (h : ftoks a = ftoks b) : a = b := by
  simp only [fnorm, Bool.and_eq_true] at ha hb
  exact (ftoks_inj_aux a b [] [] ha.1 ha.2 hb.1 hb.2 rfl rfl (by simpa using h)).1

/-! ### Normal form: append / from_array -/

theorem fnormKids_append (a b : List Node) : fnormKids (a ++ b) = (fnormKids a && fnormKids b) := by
  induction a with
  | nil => simp [fnormKids]
  | cons n ns ih => simp [fnormKids, ih, Bool.and_assoc]

/-- adjacency condition at the seam of two lists -/
def seamOk : Option Node → Option Node → Bool
  | some u, some v => adjOk u v
  | _, _ => true

theorem chainOk_cons (n : Node) (ns : List Node) :
    chainOk (n :: ns) = (seamOk (some n) ns.head? && chainOk ns) := by
  cases ns <;> simp [chainOk, seamOk]

theorem chainOk_append : ∀ (a b : List Node),
    chainOk (a ++ b) = (chainOk a && chainOk b && seamOk a.getLast? b.head?)
  | [], b => by simp [chainOk, seamOk]
  | [n], b => by
    simp only [List.singleton_append, List.getLast?_singleton]
    rw [chainOk_cons]; simp [chainOk, Bool.and_comm]
  | n :: n' :: ns, b => by
    have ih := chainOk_append (n' :: ns) b
    simp only [List.cons_append] at ih ⊢
    simp only [chainOk, ih, List.getLast?_cons_cons, Bool.and_assoc]

/-- `n'` behaves like `n` with respect to adjacency -/
def sameKind (n n' : Node) : Prop := (∀ x, adjOk x n' = adjOk x n) ∧ (∀ y, adjOk n' y = adjOk n y)

theorem sameKind_refl (n : Node) : sameKind n n := ⟨fun _ => rfl, fun _ => rfl⟩
theorem sameKind_text (s s' : List Nat) (m : Marks) : sameKind (.text s m) (.text s' m) :=
  ⟨fun x => by cases x <;> simp [adjOk], fun y => by cases y <;> simp [adjOk]⟩

theorem seamOk_sameKind_right {n n' : Node} (h : sameKind n n') (u : Option Node) :
    seamOk u (some n') = seamOk u (some n) := by
  cases u <;> simp [seamOk, h.1]
theorem seamOk_sameKind_left {n n' : Node} (h : sameKind n n') (v : Option Node) :
    seamOk (some n') v = seamOk (some n) v := by
  cases v <;> simp [seamOk, h.2]

/-- shape of `addNode`: appends a node of the same kind as `child`, possibly absorbing the last node -/
theorem addNode_spec (target : List Node) (child : Node)
    (ht : fnormKids target = true) (hc : chainOk target = true) (hn : child.norm = true) :
    ∃ c', sameKind child c' ∧ (addNode target child).getLast? = some c' ∧
      fnormKids (addNode target child) = true ∧ chainOk (addNode target child) = true := by
  unfold addNode
  split
  · rename_i s m s' m' h
    split
    · rename_i hm
      subst hm
      have hne : target ≠ [] := by intro h0; subst h0; simp at h
      have h2 := List.dropLast_concat_getLast hne
      rw [List.getLast?_eq_some_getLast hne] at h
      simp at h
      rw [h] at h2
      rw [← h2, fnormKids_append] at ht
      rw [← h2, chainOk_append] at hc
      refine ⟨.text (s ++ s') m, sameKind_text _ _ _, by simp, ?_, ?_⟩
      · rw [fnormKids_append]
        simp [fnormKids, Node.norm] at ht hn ⊢
        exact ⟨ht.1, by intro h; simp_all⟩
      · rw [chainOk_append]
        simp only [Bool.and_eq_true] at hc ⊢
        refine ⟨⟨hc.1.1, by simp [chainOk]⟩, ?_⟩
        simp only [List.head?_cons] at hc ⊢
        rw [seamOk_sameKind_right (sameKind_text s (s ++ s') m)]; exact hc.2
    · rename_i hm
      refine ⟨.text s' m', sameKind_refl _, by simp, ?_, ?_⟩
      · rw [fnormKids_append]; simp [fnormKids, ht, hn]
      · rw [chainOk_append]; simp [hc, chainOk, h, seamOk, adjOk]
        simpa using hm
  · rename_i child _ _ h
    refine ⟨child, sameKind_refl _, by simp, ?_, ?_⟩
    · rw [fnormKids_append]; simp [fnormKids, ht, hn]
    · rw [chainOk_append]; simp [hc, chainOk]
      cases hl : target.getLast? with
      | none => simp [seamOk]
      | some u =>
        simp only [seamOk]
        cases u <;> cases child <;> simp [adjOk]
        rename_i s m s' m'
        exact (h s m s' m' hl rfl).elim

theorem addNodes_norm (t cs : List Node) (ht : fnormKids t = true) (hc : chainOk t = true)
    (hcs : fnormKids cs = true) : fnormKids (addNodes t cs) = true ∧ chainOk (addNodes t cs) = true := by
  induction cs generalizing t with
  | nil => simp [addNodes, ht, hc]
  | cons c cs ih =>
    simp only [fnormKids, Bool.and_eq_true] at hcs
    obtain ⟨c', _, _, h1, h2⟩ := addNode_spec t c ht hc hcs.1
    simp only [addNodes, List.foldl_cons] at ih ⊢
    exact ih _ h1 h2 hcs.2

theorem fromArray_norm (l : List Node) (h : fnormKids l = true) : fnorm (fromArray l) = true := by
  have := addNodes_norm [] l (by simp [fnormKids]) (by simp [chainOk]) h
  simp [fnorm, fromArray, this.1, this.2]

theorem fappend_norm (a b : List Node) (ha : fnorm a = true) (hb : fnorm b = true) :
    fnorm (fappend a b) = true := by
  unfold fappend
  cases b with
  | nil => exact ha
  | cons c rest =>
    simp only
    split
    · exact hb
    · simp only [fnorm, Bool.and_eq_true] at ha hb ⊢
      have hb1 := hb.1
      simp only [fnormKids, Bool.and_eq_true] at hb1
      obtain ⟨c', hk, hl, h1, h2⟩ := addNode_spec a c ha.1 ha.2 hb1.1
      rw [fnormKids_append, chainOk_append, hl]
      have hb2 := hb.2
      rw [chainOk_cons] at hb2
      simp only [Bool.and_eq_true] at hb2
      rw [seamOk_sameKind_left hk]
      simp [h1, h2, hb1.2, hb2.1, hb2.2]

/-! ### Tokens of a cut -/

theorem depthAt_fsize (l : List Node) : depthAt l (fsize l) = 0 := by
  have := depthAt_balance l (fsize l) (Nat.le_refl _)
  rw [List.take_of_length_le (by rw [ftoks_length]; omega), balance_ftoks] at this
  exact_mod_cast this

theorem ancestorOpens_fsize (l : List Node) : ancestorOpens l (fsize l) = [] := by
  apply List.eq_nil_of_length_eq_zero
  rw [ancestorOpens_length, depthAt_fsize]

theorem fcutLoop_zero (l : List Node) (f : Nat) : fcutLoop l f 0 = .ok [] := by
  cases l <;> simp [fcutLoop]

theorem cutText_ok {s s' : List Nat} {f t : Nat} (h : cutText s f t = .ok s') :
    s' = (s.take t).drop f ∧ (s ≠ [] → s' ≠ []) := by
  unfold cutText at h
  split at h
  · rename_i h1
    simp at h1 h
    obtain ⟨rfl, rfl⟩ := h1
    subst h; simp
  · split at h
    · simp at h
    · simp only at h
      split at h
      · simp at h
      · rename_i h3
        simp at h; subst h
        simp at h3
        refine ⟨rfl, fun _ => ?_⟩
        intro h0
        have := congrArg List.length h0
        simp at this; omega

/-- the statement of `fcutLoop_toks` for one child list (used as induction hypothesis) -/
def CutToksSpec (kids : List Node) : Prop :=
  ∀ (f t : Nat) (c : List Node), (f < t ∨ (f = 0 ∧ t = 0)) → t ≤ fsize kids →
    fcutLoop kids f t = .ok c →
    ftoks c = ancestorOpens kids f ++ ((ftoks kids).drop f).take (t - f)
                ++ List.replicate (depthAt kids t) Tok.cl

theorem replicate_snoc (d : Nat) (x : Tok) : List.replicate d x ++ [x] = List.replicate (d + 1) x := by
  rw [List.replicate_succ']

theorem depthAt_cons (n : Node) (ns : List Node) (pos : Nat) :
    depthAt (n :: ns) pos =
      if pos = 0 then 0
      else if n.size ≤ pos then depthAt ns (pos - n.size)
      else match n with
        | .elem _ _ _ kids => 1 + depthAt kids (pos - 1)
        | _ => 0 := by
  conv => lhs; unfold depthAt
  split
  · rfl
  · split
    · rfl
    · cases n <;> rfl

theorem ancestorOpens_cons (n : Node) (ns : List Node) (pos : Nat) :
    ancestorOpens (n :: ns) pos =
      if pos = 0 then []
      else if n.size ≤ pos then ancestorOpens ns (pos - n.size)
      else match n with
        | .elem t a m kids => Tok.op t a m :: ancestorOpens kids (pos - 1)
        | _ => [] := by
  conv => lhs; unfold ancestorOpens

theorem ancestorOpens_elem_cons (t : TypeId) (a : Attrs) (m : Marks) (kids ns : List Node) (f : Nat)
    (h0 : 0 < f) (h1 : f < 2 + fsize kids) :
    ancestorOpens (.elem t a m kids :: ns) f = Tok.op t a m :: ancestorOpens kids (f - 1) := by
  rw [ancestorOpens_cons, if_neg (by omega), if_neg (by simp; omega)]

theorem depthAt_elem_cons (t : TypeId) (a : Attrs) (m : Marks) (kids ns : List Node) (f : Nat)
    (h0 : 0 < f) (h1 : f < 2 + fsize kids) :
    depthAt (.elem t a m kids :: ns) f = 1 + depthAt kids (f - 1) := by
  rw [depthAt_cons, if_neg (by omega), if_neg (by simp; omega)]

theorem depthAt_skip (n : Node) (ns : List Node) (t : Nat) (h : n.size ≤ t) :
    depthAt (n :: ns) t = depthAt ns (t - n.size) := by
  rw [depthAt_cons]
  split
  · subst_vars; simp
  · rfl

theorem ancestorOpens_skip (n : Node) (ns : List Node) (t : Nat) (h : n.size ≤ t) :
    ancestorOpens (n :: ns) t = ancestorOpens ns (t - n.size) := by
  rw [ancestorOpens_cons]
  split
  · subst_vars; simp
  · rfl

theorem cutElem_inner (ty : TypeId) (a : Attrs) (m : Marks) (kids : List Node) (IH : CutToksSpec kids)
    (f2 t2 : Nat) (c : Node) (hle : f2 ≤ t2) (ht2 : t2 ≤ fsize kids)
    (hdeg : f2 = t2 → f2 = 0 ∨ f2 = fsize kids)
    (h : Node.cut (.elem ty a m kids) f2 t2 = .ok c) :
    c.toks = Tok.op ty a m :: (ancestorOpens kids f2 ++ ((ftoks kids).drop f2).take (t2 - f2)
      ++ List.replicate (depthAt kids t2) Tok.cl ++ [Tok.cl]) := by
  have hK := ftoks_length kids
  rw [Node.cut] at h
  split at h
  · rename_i h1
    simp at h1 h
    obtain ⟨rfl, rfl⟩ := h1
    subst h
    simp [depthAt_fsize]
    rw [List.take_of_length_le (by omega)]
  · split at h
    · rename_i h1 h2
      simp at h; subst h
      have : f2 = t2 := by omega
      subst this
      rcases hdeg rfl with rfl | rfl
      · simp
      · simp [depthAt_fsize, ancestorOpens_fsize]
    · rename_i h1 h2
      cases hc : fcutLoop kids f2 t2 with
      | error e => simp [hc, Except.map] at h
      | ok c' =>
        simp [hc, Except.map] at h
        subst h
        have := IH f2 t2 c' (by omega) ht2 hc
        simp [this]

/-- tokens of the cut of an element child, in the coordinates of the enclosing list -/
theorem cutElem_toks (ty : TypeId) (a : Attrs) (m : Marks) (kids ns : List Node) (IH : CutToksSpec kids)
    (f t : Nat) (c : Node) (hf : f < 2 + fsize kids) (hft : f < t) (hcut : 0 < f ∨ t < 2 + fsize kids)
    (h : Node.cut (.elem ty a m kids) (f - 1) (min (fsize kids) (t - 1)) = .ok c) :
    c.toks = ancestorOpens (.elem ty a m kids :: ns) f
      ++ ((Node.elem ty a m kids).toks.drop f).take (t - f)
      ++ List.replicate (if t < 2 + fsize kids then depthAt (.elem ty a m kids :: ns) t else 0) Tok.cl := by
  have hK := ftoks_length kids
  have h1 := cutElem_inner ty a m kids IH _ _ c (by omega) (by omega) (by omega) h
  rw [h1]
  obtain ⟨t', rfl⟩ : ∃ t', t = t' + 1 := ⟨t - 1, by omega⟩
  rcases Nat.eq_zero_or_pos f with rfl | hf0
  · have ht : t' + 1 < 2 + fsize kids := by omega
    have hm : min (fsize kids) (t' + 1 - 1) = t' := by omega
    rw [if_pos ht, depthAt_elem_cons _ _ _ _ _ _ (by omega) (by omega), hm]
    simp
    rw [List.take_append_of_le_length (by omega), replicate_snoc]
    simp [Nat.add_comm]
  · obtain ⟨f', rfl⟩ : ∃ f', f = f' + 1 := ⟨f - 1, by omega⟩
    rw [ancestorOpens_elem_cons _ _ _ _ _ _ (by omega) (by omega)]
    by_cases ht : t' + 1 < 2 + fsize kids
    · have hm : min (fsize kids) (t' + 1 - 1) = t' := by omega
      rw [if_pos ht, depthAt_elem_cons _ _ _ _ _ _ (by omega) (by omega), hm]
      simp
      rw [List.drop_append_of_le_length (by omega), List.take_append_of_le_length (by simp [hK]; omega),
        replicate_snoc]
      simp [Nat.add_comm]
    · have hm : min (fsize kids) (t' + 1 - 1) = fsize kids := by omega
      rw [if_neg ht, hm]
      simp [depthAt_fsize]
      rw [List.drop_append_of_le_length (by omega), List.take_of_length_le (by simp [hK]),
        List.take_of_length_le (by simp [hK]; omega)]

/-- putting the cut head piece and the cut of the tail together -/
theorem cut_assemble (n : Node) (ns : List Node) (f t : Nat) (hd : Node) (rest : List Node)
    (hf : f < n.size) (hft : f < t)
    (hhd : hd.toks = ancestorOpens (n :: ns) f ++ (n.toks.drop f).take (t - f)
      ++ List.replicate (if t < n.size then depthAt (n :: ns) t else 0) Tok.cl)
    (hrest : ftoks rest = (ftoks ns).take (t - n.size) ++ List.replicate (depthAt ns (t - n.size)) Tok.cl) :
    ftoks (hd :: rest) = ancestorOpens (n :: ns) f ++ ((ftoks (n :: ns)).drop f).take (t - f)
      ++ List.replicate (depthAt (n :: ns) t) Tok.cl := by
  have hT := Node.toks_length n
  rw [ftoks_cons, ftoks_cons, hhd, hrest]
  rw [List.drop_append_of_le_length (by omega)]
  by_cases ht : t < n.size
  · rw [if_pos ht]
    have : t - n.size = 0 := by omega
    rw [this, List.take_append_of_le_length (by simp [hT]; omega)]
    simp
  · rw [if_neg ht, depthAt_skip n ns t (by omega)]
    have : t - f - (List.drop f n.toks).length = t - n.size := by simp [hT]; omega
    rw [List.take_append, List.take_of_length_le (by simp [hT]; omega), this]
    simp

theorem fcutLoop_toks : ∀ kids : List Node, CutToksSpec kids
  | [], f, t, c, hft, ht, h => by
    simp at ht; subst ht
    simp [fcutLoop] at h; subst h; simp [ancestorOpens]
  | n :: ns, f, t, c, hft, ht, h => by
    have IHns := fcutLoop_toks ns
    have hT := Node.toks_length n
    by_cases ht0 : t = 0
    · subst ht0
      have : f = 0 := by omega
      subst this
      rw [fcutLoop_zero] at h
      simp at h; subst h; simp
    have hft : f < t := by omega
    rw [fcutLoop] at h
    simp only [if_neg ht0] at h
    simp only [fsize_cons] at ht
    split at h
    · rename_i hfsz
      -- the tail: cut from offset 0
      have tailSpec : ∀ rest, fcutLoop ns (f - n.size) (t - n.size) = .ok rest →
          ftoks rest = (ftoks ns).take (t - n.size)
            ++ List.replicate (depthAt ns (t - n.size)) Tok.cl := by
        intro rest hr
        have h0 : f - n.size = 0 := by omega
        rw [h0] at hr
        have := IHns 0 (t - n.size) rest (by omega) (by omega) hr
        simpa using this
      split at h
      · rename_i hcut
        cases n with
        | text s m =>
          simp only at h
          cases hct : cutText s f (min s.length t) with
          | error e => simp [hct] at h
          | ok s' =>
            cases hr : fcutLoop ns (f - s.length) (t - s.length) with
            | error e => simp [hct, hr] at h
            | ok rest =>
              simp [hct, hr] at h
              subst h
              refine cut_assemble _ ns f t _ rest hfsz hft ?_ (tailSpec rest (by simpa using hr))
              have hs := (cutText_ok hct).1
              subst hs
              have hao : ancestorOpens (Node.text s m :: ns) f = [] := by
                rw [ancestorOpens_cons]; split
                · rfl
                · rw [if_neg (by omega)]
              have hd : (if t < (Node.text s m).size then depthAt (Node.text s m :: ns) t else 0) = 0 := by
                split
                · rw [depthAt_cons, if_neg ht0, if_neg (by omega)]
                · rfl
              rw [hao, hd]
              simp only [Node.toks_text, List.map_drop, List.map_take, List.replicate_zero,
                List.append_nil, List.nil_append, List.drop_take]
              simp at hfsz
              rcases Nat.le_total t s.length with hl | hl
              · rw [Nat.min_eq_right hl]
              · rw [Nat.min_eq_left hl, List.take_of_length_le (by simp), List.take_of_length_le (by simp; omega)]
        | leaf ty a m =>
          simp at hfsz hcut; omega
        | elem ty a m kids =>
          simp only at h
          cases hct : Node.cut (.elem ty a m kids) (f - 1) (min (fsize kids) (t - 1)) with
          | error e => simp [hct] at h
          | ok hd =>
            cases hr : fcutLoop ns (f - (2 + fsize kids)) (t - (2 + fsize kids)) with
            | error e => simp [hct, hr] at h
            | ok rest =>
              simp [hct, hr] at h
              subst h
              simp at hfsz hcut
              refine cut_assemble _ ns f t _ rest (by simpa using hfsz) hft ?_ (tailSpec rest (by simpa using hr))
              have := cutElem_toks ty a m kids ns (fcutLoop_toks kids) f t hd hfsz hft hcut hct
              simpa using this
      · rename_i hcut
        cases hr : fcutLoop ns (f - n.size) (t - n.size) with
        | error e => simp [hr] at h
        | ok rest =>
          simp [hr] at h
          subst h
          simp at hcut
          have hf0 : f = 0 := by omega
          subst hf0
          refine cut_assemble n ns 0 t n rest hfsz hft ?_ (tailSpec rest hr)
          rw [if_neg (by omega)]
          simp
          rw [List.take_of_length_le (by omega)]
    · rename_i hfsz
      have := IHns (f - n.size) (t - n.size) c (by omega) (by omega) h
      rw [this, ancestorOpens_skip n ns f (by omega), depthAt_skip n ns t (by omega), ftoks_cons,
        List.drop_append, List.drop_eq_nil_of_le (as := n.toks) (by omega), hT]
      have : t - n.size - (f - n.size) = t - f := by omega
      rw [this]; simp

theorem fcut_toks (kids c : List Node) (f t : Nat) (hft : f < t) (ht : t ≤ fsize kids)
    (h : fcut kids f t = .ok c) :
    ftoks c = ancestorOpens kids f ++ ((ftoks kids).drop f).take (t - f)
                ++ List.replicate (depthAt kids t) Tok.cl := by
  unfold fcut at h
  split at h
  · rename_i h1
    simp at h1 h
    obtain ⟨rfl, rfl⟩ := h1
    subst h
    simp [depthAt_fsize]
    rw [List.take_of_length_le (by rw [ftoks_length]; omega)]
  · rw [if_neg (by omega)] at h
    exact fcutLoop_toks kids f t c (Or.inl hft) ht h

/-! ### totality of cut -/

theorem alignedAt_cons (n : Node) (ns : List Node) (pos : Nat) :
    alignedAt (n :: ns) pos =
      if pos = 0 then true
      else if n.size ≤ pos then alignedAt ns (pos - n.size)
      else match n with
        | .text s _ => splitOk s pos
        | .elem _ _ _ kids => alignedAt kids (pos - 1)
        | .leaf .. => true := by
  conv => lhs; unfold alignedAt

@[simp] theorem alignedAt_zero (l : List Node) : alignedAt l 0 = true := by
  cases l
  · unfold alignedAt; rfl
  · rw [alignedAt_cons]; simp

theorem alignedAt_fsize : ∀ l : List Node, alignedAt l (fsize l) = true
  | [] => by simp
  | n :: ns => by
    rw [alignedAt_cons]
    split
    · rfl
    · rw [if_pos (by simp)]
      simp [alignedAt_fsize ns]

theorem splitOk_zero (s : List Nat) : splitOk s 0 = true := by simp [splitOk]
theorem splitOk_length (s : List Nat) : splitOk s s.length = true := by
  unfold splitOk
  split
  · rfl
  · rename_i k hk
    have : s[k + 1]? = none := by simp; omega
    simp [this]

theorem cutText_total (s : List Nat) (f t : Nat) (hft : f < t) (ht : t ≤ s.length)
    (hf : splitOk s f = true) (hts : splitOk s t = true) : ∃ s', cutText s f t = .ok s' := by
  unfold cutText
  split
  · exact ⟨_, rfl⟩
  · rw [if_neg (by simp [hf, hts])]
    simp only
    split
    · rename_i h
      have := congrArg List.length (List.isEmpty_iff.mp h)
      simp at this; omega
    · exact ⟨_, rfl⟩

def CutTotalSpec (kids : List Node) : Prop :=
  ∀ (f t : Nat), (f < t ∨ (f = 0 ∧ t = 0)) → t ≤ fsize kids →
    alignedAt kids f = true → alignedAt kids t = true → ∃ c, fcutLoop kids f t = .ok c

theorem fcutLoop_total : ∀ kids : List Node, CutTotalSpec kids
  | [], f, t, hft, ht, _, _ => by
    simp at ht; subst ht
    exact ⟨[], by simp [fcutLoop]⟩
  | n :: ns, f, t, hft, ht, haf, hat => by
    have IHns := fcutLoop_total ns
    by_cases ht0 : t = 0
    · subst ht0; exact ⟨[], fcutLoop_zero _ _⟩
    have hft : f < t := by omega
    simp only [fsize_cons] at ht
    rw [fcutLoop, if_neg ht0]
    simp only
    -- alignment of the tail offsets
    have hat' : alignedAt ns (t - n.size) = true := by
      by_cases h : n.size ≤ t
      · rw [alignedAt_cons, if_neg ht0, if_pos h] at hat; exact hat
      · have : t - n.size = 0 := by omega
        rw [this]; simp
    split
    · rename_i hfsz
      have h0 : f - n.size = 0 := by omega
      rw [h0]
      obtain ⟨rest, hrest⟩ := IHns 0 (t - n.size) (by omega) (by omega) (by simp) hat'
      rw [hrest]
      split
      · rename_i hcut
        cases n with
        | text s m =>
          simp only
          simp at hfsz
          have hf' : splitOk s f = true := by
            by_cases hf0 : f = 0
            · subst hf0; exact splitOk_zero s
            · rw [alignedAt_cons, if_neg hf0, if_neg (by simp; omega)] at haf; exact haf
          have ht' : splitOk s (min s.length t) = true := by
            by_cases hl : s.length ≤ t
            · rw [Nat.min_eq_left hl]; exact splitOk_length s
            · rw [Nat.min_eq_right (by omega)]
              rw [alignedAt_cons, if_neg ht0, if_neg (by simp; omega)] at hat; exact hat
          obtain ⟨s', hs'⟩ := cutText_total s f (min s.length t) (by omega) (by omega) hf' ht'
          rw [hs']; exact ⟨_, rfl⟩
        | leaf ty a m => exact ⟨_, rfl⟩
        | elem ty a m kids =>
          simp only
          simp at hfsz hcut
          have : ∃ c, Node.cut (.elem ty a m kids) (f - 1) (min (fsize kids) (t - 1)) = .ok c := by
            rw [Node.cut]
            split
            · exact ⟨_, rfl⟩
            · split
              · exact ⟨_, rfl⟩
              · rename_i h1 h2
                have haf' : alignedAt kids (f - 1) = true := by
                  by_cases hf0 : f = 0
                  · subst hf0; simp
                  · rw [alignedAt_cons, if_neg hf0, if_neg (by simp; omega)] at haf; exact haf
                have hat'' : alignedAt kids (min (fsize kids) (t - 1)) = true := by
                  by_cases hl : fsize kids ≤ t - 1
                  · rw [Nat.min_eq_left hl]; exact alignedAt_fsize kids
                  · rw [Nat.min_eq_right (by omega)]
                    rw [alignedAt_cons, if_neg ht0, if_neg (by simp; omega)] at hat; exact hat
                obtain ⟨c', hc'⟩ := fcutLoop_total kids (f - 1) (min (fsize kids) (t - 1))
                  (by omega) (by omega) haf' hat''
                rw [hc']; exact ⟨_, rfl⟩
          obtain ⟨c, hc⟩ := this
          rw [hc]; exact ⟨_, rfl⟩
      · exact ⟨_, rfl⟩
    · rename_i hfsz
      have haf' : alignedAt ns (f - n.size) = true := by
        by_cases hf0 : f = 0
        · subst hf0; simp
        · rw [alignedAt_cons, if_neg hf0, if_pos (by omega)] at haf; exact haf
      exact IHns (f - n.size) (t - n.size) (by omega) (by omega) haf' hat'

set_option linter.unusedVariables false in
theorem fcut_total (kids : List Node) (f t : Nat) (hft : f ≤ t) (ht : t ≤ fsize kids)
    (hf : alignedAt kids f = true) (hta : alignedAt kids t = true) (hn : fnorm kids = true) :
    ∃ c, fcut kids f t = .ok c := by
  unfold fcut
  split
  · exact ⟨_, rfl⟩
  · split
    · exact ⟨_, rfl⟩
    · exact fcutLoop_total kids f t (by omega) ht hf hta

/-! ### Cutting preserves normal form -/

theorem sameKind_elem (t : TypeId) (a : Attrs) (m : Marks) (k k' : List Node) :
    sameKind (.elem t a m k) (.elem t a m k') :=
  ⟨fun x => by cases x <;> simp [adjOk], fun y => by cases y <;> simp [adjOk]⟩

theorem chainOk_cons_sameKind {n n' : Node} (h : sameKind n n') (l : List Node) :
    chainOk (n' :: l) = chainOk (n :: l) := by
  rw [chainOk_cons, chainOk_cons, seamOk_sameKind_left h]

theorem Node.size_pos_of_norm : ∀ n : Node, n.norm = true → 0 < n.size
  | .text s m, h => by
    cases s with
    | nil => simp [Node.norm] at h
    | cons c s => simp
  | .leaf .., _ => by simp
  | .elem .., _ => by simp; omega

def CutNormSpec (kids : List Node) : Prop :=
  ∀ (f t : Nat) (c : List Node), fnormKids kids = true → chainOk kids = true →
    fcutLoop kids f t = .ok c →
    fnormKids c = true ∧ chainOk c = true ∧ (f = 0 → ∀ x, chainOk (x :: kids) = true → chainOk (x :: c) = true)

theorem cutElem_norm (ty : TypeId) (a : Attrs) (m : Marks) (kids : List Node) (IH : CutNormSpec kids)
    (f t : Nat) (c : Node) (hn : (Node.elem ty a m kids).norm = true)
    (h : Node.cut (.elem ty a m kids) f t = .ok c) :
    c.norm = true ∧ sameKind (.elem ty a m kids) c := by
  rw [Node.cut] at h
  split at h
  · simp at h; subst h; exact ⟨hn, sameKind_refl _⟩
  · split at h
    · simp at h; subst h
      exact ⟨by simp [Node.norm, fnormKids, chainOk], sameKind_elem _ _ _ _ _⟩
    · cases hc : fcutLoop kids f t with
      | error e => simp [hc, Except.map] at h
      | ok c' =>
        simp [hc, Except.map] at h
        subst h
        simp only [Node.norm, Bool.and_eq_true] at hn
        have := IH f t c' hn.1 hn.2 hc
        exact ⟨by simp [Node.norm, this.1, this.2.1], sameKind_elem _ _ _ _ _⟩

theorem fcutLoop_norm : ∀ kids : List Node, CutNormSpec kids
  | [], f, t, c, _, _, h => by
    rw [fcutLoop] at h
    split at h
    · simp at h
    · simp at h; subst h
      exact ⟨rfl, rfl, fun _ x hx => hx⟩
  | n :: ns, f, t, c, hn, hc, h => by
    have IHns := fcutLoop_norm ns
    have hcns := chainOk_tail hc
    simp only [fnormKids, Bool.and_eq_true] at hn
    by_cases ht0 : t = 0
    · subst ht0
      rw [fcutLoop_zero] at h
      simp at h; subst h
      exact ⟨rfl, rfl, fun _ x _ => by simp [chainOk]⟩
    rw [fcutLoop] at h
    simp only [if_neg ht0] at h
    obtain ⟨sz, hsz⟩ : ∃ sz, sz = n.size := ⟨_, rfl⟩
    rw [← hsz] at h
    split at h
    · rename_i hfsz
      have h0 : f - sz = 0 := by omega
      rw [h0] at h
      -- common assembly
      have asm : ∀ hd rest, hd.norm = true → sameKind n hd → fcutLoop ns 0 (t - sz) = .ok rest →
          fnormKids (hd :: rest) = true ∧ chainOk (hd :: rest) = true ∧
            (f = 0 → ∀ x, chainOk (x :: n :: ns) = true → chainOk (x :: hd :: rest) = true) := by
        intro hd rest hdn hk hr
        obtain ⟨r1, r2, r3⟩ := IHns 0 (t - sz) rest hn.2 hcns hr
        have hch : chainOk (hd :: rest) = true := by
          apply r3 rfl
          rw [chainOk_cons_sameKind hk]; exact hc
        refine ⟨by simp [fnormKids, hdn, r1], hch, fun _ x hx => ?_⟩
        simp only [chainOk, Bool.and_eq_true] at hx ⊢
        exact ⟨by rw [hk.1]; exact hx.1, hch⟩
      split at h
      · cases n with
        | text s m =>
          simp only at h
          cases hct : cutText s f (min s.length t) with
          | error e => simp [hct] at h
          | ok s' =>
            cases hr : fcutLoop ns 0 (t - sz) with
            | error e => simp [hct, hr] at h
            | ok rest =>
              simp [hct, hr] at h
              subst h
              refine asm _ rest ?_ (sameKind_text _ _ _) hr
              have := (cutText_ok hct).2
              simp [Node.norm] at hn ⊢
              exact this hn.1
        | leaf ty a m =>
          simp only at h
          cases hr : fcutLoop ns 0 (t - sz) with
          | error e => simp [hr] at h
          | ok rest =>
            simp [hr] at h
            subst h
            exact asm _ rest hn.1 (sameKind_refl _) hr
        | elem ty a m kids =>
          simp only at h
          cases hct : Node.cut (.elem ty a m kids) (f - 1) (min (fsize kids) (t - 1)) with
          | error e => simp [hct] at h
          | ok hd =>
            cases hr : fcutLoop ns 0 (t - sz) with
            | error e => simp [hct, hr] at h
            | ok rest =>
              simp [hct, hr] at h
              subst h
              have := cutElem_norm ty a m kids (fcutLoop_norm kids) _ _ hd hn.1 hct
              exact asm _ rest this.1 this.2 hr
      · cases hr : fcutLoop ns 0 (t - sz) with
        | error e => simp [hr] at h
        | ok rest =>
          simp [hr] at h
          subst h
          exact asm _ rest hn.1 (sameKind_refl _) hr
    · rename_i hfsz
      obtain ⟨r1, r2, _⟩ := IHns _ _ c hn.2 hcns h
      refine ⟨r1, r2, fun hf0 => ?_⟩
      have := Node.size_pos_of_norm n hn.1
      omega

theorem fcut_norm (kids c : List Node) (f t : Nat) (hn : fnorm kids = true)
    (h : fcut kids f t = .ok c) : fnorm c = true := by
  unfold fcut at h
  split at h
  · simp at h; subst h; exact hn
  · split at h
    · simp at h; subst h; rfl
    · simp only [fnorm, Bool.and_eq_true] at hn ⊢
      have := fcutLoop_norm kids f t c hn.1 hn.2 h
      exact ⟨this.1, this.2.1⟩

/-! ### Spine depths of a cut -/

@[simp] theorem spineL_elem_cons (ty : TypeId) (a : Attrs) (m : Marks) (k rest : List Node) :
    spineL (.elem ty a m k :: rest) = 1 + spineL k := by
  conv => lhs; unfold spineL

@[simp] theorem spineR_elem_single (ty : TypeId) (a : Attrs) (m : Marks) (k : List Node) :
    spineR [.elem ty a m k] = 1 + spineR k := by
  conv => lhs; unfold spineR

theorem spineR_cons_ge (hd : Node) (rest : List Node) : spineR rest ≤ spineR (hd :: rest) := by
  cases rest with
  | nil => simp [spineR]
  | cons b r =>
    have : spineR (hd :: b :: r) = spineR (b :: r) := by
      conv => lhs; unfold spineR
      cases hd <;> rfl
    omega

def CutSpineSpec (kids : List Node) : Prop :=
  ∀ (f t : Nat) (c : List Node), (f < t ∨ (f = 0 ∧ t = 0)) → t ≤ fsize kids →
    fcutLoop kids f t = .ok c → depthAt kids f ≤ spineL c ∧ depthAt kids t ≤ spineR c

theorem cutElem_spine (ty : TypeId) (a : Attrs) (m : Marks) (kids : List Node) (IH : CutSpineSpec kids)
    (f2 t2 : Nat) (c : Node) (hle : f2 ≤ t2) (ht2 : t2 ≤ fsize kids)
    (hdeg : f2 = t2 → f2 = 0 ∨ f2 = fsize kids)
    (h : Node.cut (.elem ty a m kids) f2 t2 = .ok c) :
    ∃ k', c = .elem ty a m k' ∧ depthAt kids f2 ≤ spineL k' ∧ depthAt kids t2 ≤ spineR k' := by
  rw [Node.cut] at h
  split at h
  · rename_i h1
    simp at h1 h
    obtain ⟨rfl, rfl⟩ := h1
    subst h
    exact ⟨kids, rfl, by simp, by simp [depthAt_fsize]⟩
  · split at h
    · simp at h; subst h
      have : f2 = t2 := by omega
      subst this
      rcases hdeg rfl with rfl | rfl
      · exact ⟨[], rfl, by simp, by simp⟩
      · exact ⟨[], rfl, by simp [depthAt_fsize], by simp [depthAt_fsize]⟩
    · cases hc : fcutLoop kids f2 t2 with
      | error e => simp [hc, Except.map] at h
      | ok c' =>
        simp [hc, Except.map] at h
        subst h
        have := IH f2 t2 c' (by omega) ht2 hc
        exact ⟨c', rfl, this.1, this.2⟩

theorem depthAt_nonelem_cons (n : Node) (ns : List Node) (p : Nat) (hp : p < n.size)
    (hn : ∀ ty a m k, n ≠ .elem ty a m k) : depthAt (n :: ns) p = 0 := by
  rw [depthAt_cons]
  split
  · rfl
  · rw [if_neg (by omega)]
    cases n with
    | elem ty a m k => exact absurd rfl (hn ty a m k)
    | _ => rfl

theorem fcutLoop_spine : ∀ kids : List Node, CutSpineSpec kids
  | [], f, t, c, hft, ht, h => by simp [depthAt]
  | n :: ns, f, t, c, hft, ht, h => by
    have IHns := fcutLoop_spine ns
    by_cases ht0 : t = 0
    · subst ht0
      have : f = 0 := by omega
      subst this; simp
    have hft : f < t := by omega
    rw [fcutLoop] at h
    simp only [if_neg ht0] at h
    simp only [fsize_cons] at ht
    obtain ⟨sz, hsz⟩ : ∃ sz, sz = n.size := ⟨_, rfl⟩
    rw [← hsz] at h
    split at h
    · rename_i hfsz
      have h0 : f - sz = 0 := by omega
      rw [h0] at h
      -- right end, when `t` is at or beyond the end of the head node
      have tailR : ∀ hd rest, fcutLoop ns 0 (t - sz) = .ok rest → sz ≤ t →
          depthAt (n :: ns) t ≤ spineR (hd :: rest) := by
        intro hd rest hr hle
        have := (IHns 0 (t - sz) rest (by omega) (by omega) hr).2
        rw [depthAt_skip n ns t (by omega), ← hsz]
        exact Nat.le_trans this (spineR_cons_ge hd rest)
      have tailNil : ∀ rest, fcutLoop ns 0 (t - sz) = .ok rest → t < sz → rest = [] := by
        intro rest hr hlt
        have : t - sz = 0 := by omega
        rw [this, fcutLoop_zero] at hr
        simp at hr; exact hr
      split at h
      · rename_i hcut
        cases n with
        | text s m =>
          simp only at h
          cases hct : cutText s f (min s.length t) with
          | error e => simp [hct] at h
          | ok s' =>
            cases hr : fcutLoop ns 0 (t - sz) with
            | error e => simp [hct, hr] at h
            | ok rest =>
              simp [hct, hr] at h
              subst h
              refine ⟨?_, ?_⟩
              · rw [depthAt_nonelem_cons _ ns f (by omega) (by simp)]; omega
              · by_cases hle : sz ≤ t
                · exact tailR _ rest hr hle
                · rw [depthAt_nonelem_cons _ ns t (by omega) (by simp)]; omega
        | leaf ty a m =>
          simp only at h
          cases hr : fcutLoop ns 0 (t - sz) with
          | error e => simp [hr] at h
          | ok rest =>
            simp [hr] at h
            subst h
            refine ⟨?_, ?_⟩
            · rw [depthAt_nonelem_cons _ ns f (by omega) (by simp)]; omega
            · by_cases hle : sz ≤ t
              · exact tailR _ rest hr hle
              · rw [depthAt_nonelem_cons _ ns t (by omega) (by simp)]; omega
        | elem ty a m kids =>
          simp only at h
          cases hct : Node.cut (.elem ty a m kids) (f - 1) (min (fsize kids) (t - 1)) with
          | error e => simp [hct] at h
          | ok hd =>
            cases hr : fcutLoop ns 0 (t - sz) with
            | error e => simp [hct, hr] at h
            | ok rest =>
              simp [hct, hr] at h
              subst h
              simp at hsz
              obtain ⟨k', rfl, hl, hrr⟩ := cutElem_spine ty a m kids (fcutLoop_spine kids) _ _ hd
                (by omega) (by omega) (by omega) hct
              refine ⟨?_, ?_⟩
              · by_cases hf0 : f = 0
                · subst hf0; simp
                · rw [depthAt_elem_cons _ _ _ _ _ _ (by omega) (by omega)]
                  simp; omega
              · by_cases hle : sz ≤ t
                · exact tailR _ rest hr hle
                · have := tailNil rest hr (by omega)
                  subst this
                  rw [depthAt_elem_cons _ _ _ _ _ _ (by omega) (by omega)]
                  have hm : min (fsize kids) (t - 1) = t - 1 := by omega
                  rw [hm] at hrr
                  simp; omega
      · rename_i hcut
        simp at hcut
        cases hr : fcutLoop ns 0 (t - sz) with
        | error e => simp [hr] at h
        | ok rest =>
          simp [hr] at h
          subst h
          have hf0 : f = 0 := by omega
          subst hf0
          exact ⟨by simp, tailR _ rest hr (by omega)⟩
    · rename_i hfsz
      have := IHns (f - sz) (t - sz) c (by omega) (by omega) h
      rw [depthAt_skip n ns f (by omega), depthAt_skip n ns t (by omega), ← hsz]
      exact this

theorem fcut_spine (kids c : List Node) (f t : Nat) (hft : f < t) (ht : t ≤ fsize kids)
    (h : fcut kids f t = .ok c) : depthAt kids f ≤ spineL c ∧ depthAt kids t ≤ spineR c := by
  unfold fcut at h
  split at h
  · rename_i h1
    simp at h1 h
    obtain ⟨rfl, rfl⟩ := h1
    simp [depthAt_fsize]
  · rw [if_neg (by omega)] at h
    exact fcutLoop_spine kids f t c (Or.inl hft) ht h

/-! ### Slices -/

theorem depthAt_append_pre : ∀ (pre rest : List Node) (f : Nat),
    depthAt (pre ++ rest) (fsize pre + f) = depthAt rest f
  | [], rest, f => by simp
  | n :: p, rest, f => by
    rw [List.cons_append, depthAt_skip _ _ _ (by simp; omega)]
    have : fsize (n :: p) + f - n.size = fsize p + f := by simp; omega
    rw [this]; exact depthAt_append_pre p rest f

theorem alignedAt_append_pre : ∀ (pre rest : List Node) (f : Nat),
    alignedAt (pre ++ rest) (fsize pre + f) = alignedAt rest f
  | [], rest, f => by simp
  | n :: p, rest, f => by
    rw [List.cons_append, alignedAt_cons]
    split
    · rename_i h
      have : f = 0 := by simp at h; omega
      subst this; simp
    · rw [if_pos (by simp; omega)]
      have : fsize (n :: p) + f - n.size = fsize p + f := by simp; omega
      rw [this]; exact alignedAt_append_pre p rest f

/-- what `sliceScan`/`sliceHere` return for the range `f0 … t0` of `level` -/
structure SliceRes (level : List Node) (f0 t0 : Nat) (s : Slice) : Prop where
  toks : s.toks = ((ftoks level).drop f0).take (t0 - f0)
  size : s.size = (t0 : Int) - f0
  opens : ∃ sh : Nat, s.openStart + sh = depthAt level f0 ∧ s.openEnd + sh = depthAt level t0 ∧
      (∀ k, f0 ≤ k → k ≤ t0 → (sh : Int) ≤ balance ((ftoks level).take k)) ∧
      (∃ k, f0 ≤ k ∧ k ≤ t0 ∧ (sh : Int) = balance ((ftoks level).take k))
  norm : fnorm level = true → fnorm s.content = true ∧ s.wf = true

theorem sliceHere_spec (level : List Node) (f0 t0 : Nat) (s : Slice) (hft : f0 < t0)
    (ht : t0 ≤ fsize level)
    (hw : ∃ k, f0 ≤ k ∧ k ≤ t0 ∧ balance ((ftoks level).take k) = 0)
    (h : sliceHere level f0 t0 = .ok s) : SliceRes level f0 t0 s := by
  unfold sliceHere at h
  cases hc : fcut level f0 t0 with
  | error e => simp [hc] at h
  | ok c =>
    simp [hc] at h
    subst h
    have htk := fcut_toks level c f0 t0 hft ht hc
    have hlen : (((ftoks level).drop f0).take (t0 - f0)).length = t0 - f0 := by
      simp [ftoks_length]; omega
    have hao := ancestorOpens_length level f0
    have hsz : fsize c = depthAt level f0 + (t0 - f0) + depthAt level t0 := by
      rw [← ftoks_length, htk]; simp [hao, ftoks_length]; omega
    refine ⟨?_, ?_, ?_, ?_⟩
    · simp only [Slice.toks, htk, hsz]
      rw [List.append_assoc, List.drop_append_of_le_length (by omega), List.drop_of_length_le (by omega)]
      have : depthAt level f0 + (t0 - f0) + depthAt level t0 - depthAt level f0 - depthAt level t0
          = (((ftoks level).drop f0).take (t0 - f0)).length := by rw [hlen]; omega
      rw [this]; simp
    · simp only [Slice.size, hsz]; omega
    · obtain ⟨k, hk1, hk2, hk3⟩ := hw
      exact ⟨0, by simp, by simp, fun k _ _ => by simpa using balance_prefix_nonneg level k,
        k, hk1, hk2, by simp [hk3]⟩
    · intro hn
      have hs := fcut_spine level c f0 t0 hft ht hc
      exact ⟨fcut_norm level c f0 t0 hn hc, by simp [Slice.wf, hs.1, hs.2]⟩

theorem balance_take_pre (pre rest : List Node) (k : Nat) :
    balance ((ftoks (pre ++ rest)).take (fsize pre + k)) = balance ((ftoks rest).take k) := by
  rw [ftoks_append, List.take_append, List.take_of_length_le (by rw [ftoks_length]; omega),
    ftoks_length, balance_append, balance_ftoks]
  have : fsize pre + k - fsize pre = k := by omega
  rw [this]; simp

theorem balance_take_elem (ty : TypeId) (a : Attrs) (m : Marks) (kids ns : List Node) (j : Nat)
    (h1 : 1 ≤ j) (h2 : j ≤ 1 + fsize kids) :
    balance ((ftoks (.elem ty a m kids :: ns)).take j) = 1 + balance ((ftoks kids).take (j - 1)) := by
  obtain ⟨j', rfl⟩ : ∃ j', j = j' + 1 := ⟨j - 1, by omega⟩
  simp only [ftoks_cons, Node.toks_elem, List.cons_append, List.take_succ_cons, balance_cons,
    List.append_assoc]
  rw [List.take_append_of_le_length (by rw [ftoks_length]; omega)]
  simp [Tok.delta]

theorem sliceRes_lift (pre : List Node) (ty : TypeId) (a : Attrs) (m : Marks) (kids ns : List Node)
    (f t : Nat) (s : Slice) (hf : 0 < f) (hft : f < t) (ht : t < 2 + fsize kids)
    (h : SliceRes kids (f - 1) (t - 1) s) :
    SliceRes (pre ++ .elem ty a m kids :: ns) (fsize pre + f) (fsize pre + t) s := by
  obtain ⟨h1, h2, h3, h4⟩ := h
  have hK := ftoks_length kids
  refine ⟨?_, ?_, ?_, ?_⟩
  · rw [h1, ftoks_append, List.drop_append, List.drop_eq_nil_of_le (as := ftoks pre) (by rw [ftoks_length]; omega),
      ftoks_length]
    have e1 : fsize pre + f - fsize pre = f := by omega
    have e2 : fsize pre + t - (fsize pre + f) = t - f := by omega
    have e3 : t - 1 - (f - 1) = t - f := by omega
    rw [e1, e2, e3]
    obtain ⟨f', rfl⟩ : ∃ f', f = f' + 1 := ⟨f - 1, by omega⟩
    simp only [ftoks_cons, Node.toks_elem, List.cons_append, List.drop_succ_cons, List.nil_append,
      List.append_assoc, Nat.add_sub_cancel]
    rw [List.drop_append_of_le_length (by omega), List.take_append_of_le_length (by simp [hK]; omega)]
  · rw [h2]; omega
  · obtain ⟨sh, a1, a2, a3, k, b1, b2, b3⟩ := h3
    refine ⟨sh + 1, ?_, ?_, ?_, ?_⟩
    · rw [depthAt_append_pre, depthAt_elem_cons _ _ _ _ _ _ hf (by omega)]; omega
    · rw [depthAt_append_pre, depthAt_elem_cons _ _ _ _ _ _ (by omega) (by omega)]; omega
    · intro k hk1 hk2
      obtain ⟨j, rfl⟩ : ∃ j, k = fsize pre + j := ⟨k - fsize pre, by omega⟩
      rw [balance_take_pre, balance_take_elem _ _ _ _ _ _ (by omega) (by omega)]
      have := a3 (j - 1) (by omega) (by omega)
      push_cast; omega
    · refine ⟨fsize pre + (k + 1), by omega, by omega, ?_⟩
      rw [balance_take_pre, balance_take_elem _ _ _ _ _ _ (by omega) (by omega)]
      simp at b3 ⊢; omega
  · intro hn
    apply h4
    simp only [fnorm, Bool.and_eq_true] at hn
    have := hn.1
    rw [fnormKids_append] at this
    simp only [fnormKids, Node.norm, Bool.and_eq_true] at this
    simp [fnorm, this.2.1.1, this.2.1.2]

theorem sliceScan_cons (level : List Node) (f0 t0 : Nat) (n : Node) (ns : List Node) (f t : Nat) :
    sliceScan level f0 t0 (n :: ns) f t =
      if f = 0 then sliceHere level f0 t0
      else if n.size ≤ f then sliceScan level f0 t0 ns (f - n.size) (t - n.size)
      else match n with
        | .elem _ _ _ kids =>
          if t < n.size then sliceScan kids (f - 1) (t - 1) kids (f - 1) (t - 1)
          else sliceHere level f0 t0
        | _ => sliceHere level f0 t0 := by
  conv => lhs; unfold sliceScan
  split
  · rfl
  · split
    · rfl
    · cases n <;> rfl

theorem sliceScan_spec : ∀ (rest level : List Node) (f0 t0 f t : Nat) (pre : List Node) (s : Slice),
    level = pre ++ rest → f0 = fsize pre + f → t0 = fsize pre + t → f < t → t ≤ fsize rest →
    sliceScan level f0 t0 rest f t = .ok s → SliceRes level f0 t0 s
  | [], level, f0, t0, f, t, pre, s, _, _, _, hft, ht, _ => by simp at ht; omega
  | n :: ns, level, f0, t0, f, t, pre, s, hl, hf0, ht0, hft, ht, h => by
    simp only [fsize_cons] at ht
    have hlsz : fsize level = fsize pre + (n.size + fsize ns) := by rw [hl, fsize_append]; simp
    have here : ∀ k, f ≤ k → k ≤ t → balance ((ftoks (n :: ns)).take k) = 0 →
        sliceHere level f0 t0 = .ok s → SliceRes level f0 t0 s := by
      intro k hk1 hk2 hk3 hh
      refine sliceHere_spec level f0 t0 s (by omega) (by omega) ⟨fsize pre + k, by omega, by omega, ?_⟩ hh
      rw [hl, balance_take_pre]; exact hk3
    rw [sliceScan_cons] at h
    split at h
    · rename_i hfz
      subst hfz
      exact here 0 (by omega) (by omega) (by simp) h
    · rename_i hfz
      split at h
      · rename_i hsz
        refine sliceScan_spec ns level f0 t0 (f - n.size) (t - n.size) (pre ++ [n]) s ?_ ?_ ?_
          (by omega) (by omega) h
        · rw [hl]; simp
        · rw [fsize_append]; simp; omega
        · rw [fsize_append]; simp; omega
      · rename_i hsz
        have hdb := depthAt_balance (n :: ns) f (by simp; omega)
        cases n with
        | text s' m =>
          refine here f (by omega) (by omega) ?_ h
          rw [← hdb, depthAt_nonelem_cons _ ns f (by omega) (by simp)]; rfl
        | leaf ty a m =>
          refine here f (by omega) (by omega) ?_ h
          rw [← hdb, depthAt_nonelem_cons _ ns f (by omega) (by simp)]; rfl
        | elem ty a m kids =>
          simp only at h
          simp at hsz
          split at h
          · rename_i htsz
            simp at htsz
            have := sliceScan_spec kids kids (f - 1) (t - 1) (f - 1) (t - 1) [] s (by simp) (by simp)
              (by simp) (by omega) (by omega) h
            rw [hl, hf0, ht0]
            exact sliceRes_lift pre ty a m kids ns f t s (by omega) hft htsz this
          · rename_i htsz
            simp at htsz
            refine here (2 + fsize kids) (by omega) (by omega) ?_ h
            rw [ftoks_cons, List.take_append_of_le_length (by simp [ftoks_length]; omega),
              List.take_of_length_le (by simp [ftoks_length]; omega)]
            exact Node.balance_toks _

theorem sliceKids_spec (kids : List Node) (f t : Nat) (s : Slice) (hft : f < t) (ht : t ≤ fsize kids)
    (h : sliceKids kids f t = .ok s) : SliceRes kids f t s := by
  unfold sliceKids at h
  rw [if_neg (by omega)] at h
  split at h
  · simp at h
  · exact sliceScan_spec kids kids f t f t [] s (by simp) (by simp) (by simp) hft ht h

theorem sliceKids_toks (kids : List Node) (f t : Nat) (s : Slice) (hft : f ≤ t) (ht : t ≤ fsize kids)
    (h : sliceKids kids f t = .ok s) :
    s.toks = ((ftoks kids).drop f).take (t - f) := by
  by_cases he : f = t
  · subst he
    simp [sliceKids] at h; subst h
    simp [Slice.toks, Slice.empty]
  · exact (sliceKids_spec kids f t s (by omega) ht h).toks

theorem sliceKids_size (kids : List Node) (f t : Nat) (s : Slice) (hft : f ≤ t) (ht : t ≤ fsize kids)
    (h : sliceKids kids f t = .ok s) : s.size = (t : Int) - f := by
  by_cases he : f = t
  · subst he
    simp [sliceKids] at h; subst h
    simp [Slice.size, Slice.empty]
  · exact (sliceKids_spec kids f t s (by omega) ht h).size

theorem sliceKids_open (kids : List Node) (f t : Nat) (s : Slice) (hft : f < t) (ht : t ≤ fsize kids)
    (h : sliceKids kids f t = .ok s) :
    ∃ sh : Nat, s.openStart + sh = depthAt kids f ∧ s.openEnd + sh = depthAt kids t ∧
      (∀ k, f ≤ k → k ≤ t → (sh : Int) ≤ balance ((ftoks kids).take k)) ∧
      (∃ k, f ≤ k ∧ k ≤ t ∧ (sh : Int) = balance ((ftoks kids).take k)) :=
  (sliceKids_spec kids f t s hft ht h).opens

theorem sliceKids_norm (kids : List Node) (f t : Nat) (s : Slice) (hn : fnorm kids = true)
    (h : sliceKids kids f t = .ok s) : fnorm s.content = true ∧ s.wf = true := by
  by_cases he : f = t
  · subst he
    simp [sliceKids] at h; subst h
    simp [Slice.empty, fnorm, fnormKids, chainOk, Slice.wf]
  · have h' := h
    unfold sliceKids at h'
    rw [if_neg he] at h'
    split at h'
    · simp at h'
    · rename_i hg
      simp [inRange] at hg
      exact (sliceKids_spec kids f t s (by omega) (by omega) h).norm hn

theorem sliceHere_total (level : List Node) (f0 t0 : Nat) (hft : f0 < t0) (ht : t0 ≤ fsize level)
    (hf : alignedAt level f0 = true) (hta : alignedAt level t0 = true) :
    ∃ s, sliceHere level f0 t0 = .ok s := by
  have : ∃ c, fcut level f0 t0 = .ok c := by
    unfold fcut
    split
    · exact ⟨_, rfl⟩
    · rw [if_neg (by omega)]
      exact fcutLoop_total level f0 t0 (Or.inl hft) ht hf hta
  obtain ⟨c, hc⟩ := this
  unfold sliceHere
  rw [hc]; exact ⟨_, rfl⟩

theorem sliceScan_total : ∀ (rest level : List Node) (f0 t0 f t : Nat) (pre : List Node),
    level = pre ++ rest → f0 = fsize pre + f → t0 = fsize pre + t → f < t → t ≤ fsize rest →
    alignedAt level f0 = true → alignedAt level t0 = true →
    ∃ s, sliceScan level f0 t0 rest f t = .ok s
  | [], level, f0, t0, f, t, pre, _, _, _, hft, ht, _, _ => by simp at ht; omega
  | n :: ns, level, f0, t0, f, t, pre, hl, hf0, ht0, hft, ht, haf, hat => by
    simp only [fsize_cons] at ht
    have hlsz : fsize level = fsize pre + (n.size + fsize ns) := by rw [hl, fsize_append]; simp
    have here := sliceHere_total level f0 t0 (by omega) (by omega) haf hat
    rw [sliceScan_cons]
    split
    · exact here
    · rename_i hfz
      split
      · rename_i hsz
        refine sliceScan_total ns level f0 t0 (f - n.size) (t - n.size) (pre ++ [n]) ?_ ?_ ?_
          (by omega) (by omega) haf hat
        · rw [hl]; simp
        · rw [fsize_append]; simp; omega
        · rw [fsize_append]; simp; omega
      · rename_i hsz
        cases n with
        | text s' m => exact here
        | leaf ty a m => exact here
        | elem ty a m kids =>
          simp only
          simp at hsz
          split
          · rename_i htsz
            simp at htsz
            rw [hl, hf0, alignedAt_append_pre, alignedAt_cons, if_neg hfz, if_neg (by simp; omega)] at haf
            rw [hl, ht0, alignedAt_append_pre, alignedAt_cons, if_neg (by omega), if_neg (by simp; omega)] at hat
            exact sliceScan_total kids kids (f - 1) (t - 1) (f - 1) (t - 1) [] (by simp) (by simp)
              (by simp) (by omega) (by omega) haf hat
          · exact here

set_option linter.unusedVariables false in
theorem sliceKids_total (kids : List Node) (f t : Nat) (hft : f ≤ t) (ht : t ≤ fsize kids)
    (hf : alignedAt kids f = true) (hta : alignedAt kids t = true) (hn : fnorm kids = true) :
    ∃ s, sliceKids kids f t = .ok s := by
  unfold sliceKids
  split
  · exact ⟨_, rfl⟩
  · rename_i he
    rw [if_neg (by simp [inRange]; omega)]
    exact sliceScan_total kids kids f t f t [] (by simp) (by simp) (by simp) (by omega) ht hf hta

end PM

