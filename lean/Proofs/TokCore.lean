/-
  Proofs/TokCore.lean — bracket structure of the token sequence: balance, injectivity of `ftoks`
  on normal-form trees, depth = unmatched opens, tokens of cut and slice, normal form preserved.
-/
import PM.Basic
import PM.Fragment
import PM.Replace
import Proofs.Toks
namespace PM

/-- +1 for an open token, −1 for a close token -/
def Tok.delta : Tok → Int
  | .op .. => 1
  | .cl => -1
  | _ => 0

/-- nesting balance of a token list: opens minus closes -/
def balance (l : List Tok) : Int := (l.map Tok.delta).sum

/-- tokens of a slice: the content's tokens minus the `openStart` opens and `openEnd` closes -/
def Slice.toks (s : Slice) : List Tok :=
  ((ftoks s.content).drop s.openStart).take (fsize s.content - s.openStart - s.openEnd)

/-- the offset does not fall between the two halves of a surrogate pair of a text child -/
def alignedAt : List Node → Nat → Bool
  | [], _ => true
  | n :: ns, pos =>
    if pos = 0 then true
    else if n.size ≤ pos then alignedAt ns (pos - n.size)
    else match n with
      | .text s _ => splitOk s pos
      | .elem _ _ _ kids => alignedAt kids (pos - 1)
      | .leaf .. => true

/-- the open tokens of the element nodes offset `pos` lies strictly inside, outermost first -/
def ancestorOpens : List Node → Nat → List Tok
  | [], _ => []
  | n :: ns, pos =>
    if pos = 0 then []
    else if n.size ≤ pos then ancestorOpens ns (pos - n.size)
    else match n with
      | .elem t a m kids => Tok.op t a m :: ancestorOpens kids (pos - 1)
      | _ => []

theorem ancestorOpens_length (kids : List Node) (pos : Nat) :
    (ancestorOpens kids pos).length = depthAt kids pos := by
  sorry

/-- the token sequence of a node list is balanced -/
theorem balance_ftoks (l : List Node) : balance (ftoks l) = 0 := by
  sorry

/-- … and none of its prefixes closes more than it opened -/
theorem balance_prefix_nonneg (l : List Node) (k : Nat) : 0 ≤ balance ((ftoks l).take k) := by
  sorry

/-- **Injectivity**: two normal-form child lists with the same token sequence are equal. -/
theorem ftoks_inj (a b : List Node) (ha : fnorm a = true) (hb : fnorm b = true)
    (h : ftoks a = ftoks b) : a = b := by
  sorry

/-- **Depth = unmatched opens** before the position. -/
theorem depthAt_balance (kids : List Node) (pos : Nat) (h : pos ≤ fsize kids) :
    (depthAt kids pos : Int) = balance ((ftoks kids).take pos) := by
  sorry

/-- **Tokens of a cut**: `Fragment.cut(from, to)` returns the tokens in the range, padded on the left
    with the open tokens of the nodes `from` is inside and on the right with the closes of the nodes
    `to` is inside. -/
theorem fcut_toks (kids c : List Node) (f t : Nat) (hft : f < t) (ht : t ≤ fsize kids)
    (h : fcut kids f t = .ok c) :
    ftoks c = ancestorOpens kids f ++ ((ftoks kids).drop f).take (t - f)
                ++ List.replicate (depthAt kids t) Tok.cl := by
  sorry

/-- a cut at pair-aligned, in-range offsets succeeds -/
theorem fcut_total (kids : List Node) (f t : Nat) (hft : f ≤ t) (ht : t ≤ fsize kids)
    (hf : alignedAt kids f = true) (hta : alignedAt kids t = true) (hn : fnorm kids = true) :
    ∃ c, fcut kids f t = .ok c := by
  sorry

/-- cutting preserves normal form -/
theorem fcut_norm (kids c : List Node) (f t : Nat) (hn : fnorm kids = true)
    (h : fcut kids f t = .ok c) : fnorm c = true := by
  sorry

/-- **Tokens of a slice**: exactly the tokens in the range. -/
theorem sliceKids_toks (kids : List Node) (f t : Nat) (s : Slice) (hft : f ≤ t) (ht : t ≤ fsize kids)
    (h : sliceKids kids f t = .ok s) :
    s.toks = ((ftoks kids).drop f).take (t - f) := by
  sorry

/-- … its size is the width of the range … -/
theorem sliceKids_size (kids : List Node) (f t : Nat) (s : Slice) (hft : f ≤ t) (ht : t ≤ fsize kids)
    (h : sliceKids kids f t = .ok s) : s.size = (t : Int) - f := by
  sorry

/-- … and its open depths are the depths of the two ends relative to the deepest node containing
    both: `sh` is the least nesting depth reached anywhere in the range. -/
theorem sliceKids_open (kids : List Node) (f t : Nat) (s : Slice) (hft : f < t) (ht : t ≤ fsize kids)
    (h : sliceKids kids f t = .ok s) :
    ∃ sh : Nat, s.openStart + sh = depthAt kids f ∧ s.openEnd + sh = depthAt kids t ∧
      (∀ k, f ≤ k → k ≤ t → (sh : Int) ≤ balance ((ftoks kids).take k)) ∧
      (∃ k, f ≤ k ∧ k ≤ t ∧ (sh : Int) = balance ((ftoks kids).take k)) := by
  sorry

/-- slicing a normal-form document gives a normal-form, well-formed slice -/
theorem sliceKids_norm (kids : List Node) (f t : Nat) (s : Slice) (hn : fnorm kids = true)
    (h : sliceKids kids f t = .ok s) : fnorm s.content = true ∧ s.wf = true := by
  sorry

/-- slicing at pair-aligned, in-range offsets succeeds -/
theorem sliceKids_total (kids : List Node) (f t : Nat) (hft : f ≤ t) (ht : t ≤ fsize kids)
    (hf : alignedAt kids f = true) (hta : alignedAt kids t = true) (hn : fnorm kids = true) :
    ∃ s, sliceKids kids f t = .ok s := by
  sorry

/-- `from_array` produces a normal form when every piece is in normal form -/
theorem fromArray_norm (l : List Node) (h : fnormKids l = true) : fnorm (fromArray l) = true := by
  sorry

/-- `Fragment.append` preserves normal form -/
theorem fappend_norm (a b : List Node) (ha : fnorm a = true) (hb : fnorm b = true) :
    fnorm (fappend a b) = true := by
  sorry

end PM
