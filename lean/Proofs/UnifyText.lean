/-
  Proofs/UnifyText.lean — the three "text children may be merged" conditions on a schema that the
  work packages introduced, in one chain:

      FromDom.TextStable  ⟹  TextLoop  ⟹  TextStableP  (= `C01.TextStable`, same statement)

  * `FromDom.TextStable` (Proofs/PlacementValid.lean, parser): reading a text child leads to a state with
    the *same edges and the same acceptance* as the state before;
  * `TextLoop` (Proofs/TokValid.lean, mark steps): after a text child another text child is accepted and
    the automaton stays where it is;
  * `TextStableP` (Proofs/StepValid.lean, step validity): *if* a second text child is accepted after a
    first one, the automaton stays where it is.

  Neither implication can be reversed (`textLoop_not_textStable`, `textStableP_not_textLoop`).
-/
import Proofs.StepValid
import Proofs.TokValid
import Proofs.PlacementValid
namespace PM

/-- parser's condition ⟹ mark steps' condition: the state after a text child has the edges of the
    state before, among them the text edge just taken -/
theorem FromDom.TextStable.textLoop {S : Schema} (h : FromDom.TextStable S) : TextLoop S := by
  intro t q q1 hm
  rw [(h t q q1 hm).matchType S.textTy]
  exact hm

/-- … hence also the condition of step validity -/
theorem FromDom.TextStable.stableP {S : Schema} (h : FromDom.TextStable S) : TextStableP S :=
  h.textLoop.stable

/-- the parser's "leaf types accept the empty content" is "the start state of a leaf type's automaton
    is a valid end" (the form `C15.LeafEmpty` and `createAndFill_eq_toOption` use) -/
theorem FromDom.leafOk_iff (S : Schema) :
    FromDom.LeafOk S ↔ ∀ t, (S.nodeType t).isLeaf = true → (S.dfa t).validEnd 0 = true := by
  unfold FromDom.LeafOk
  simp only [Dfa.accepts, Dfa.run]

/-- the parser's determinism condition is the `hdet` of `C15.createAndFill_valid` -/
theorem FromDom.det_iff (S : Schema) :
    FromDom.Det S ↔ ∀ w q, (((S.dfa w).edgesOf q).map (·.1)).Nodup := Iff.rfl

private def mkNT (isText : Bool) (dfa : Array DfaState) : NodeType :=
  { name := "", isText := isText, isInline := isText, isLeaf := isText, isAtom := isText,
    inlineContent := !isText, isolating := false, defining := false, code := false,
    dfa := dfa, markSet := none, attrs := [] }

/-- `para: text+` (type 0), `text` (type 1) -/
private def SPlus : Schema :=
  { nodes := #[mkNT false #[⟨false, [(1, 1)]⟩, ⟨true, [(1, 1)]⟩], mkNT true #[⟨true, []⟩]],
    marks := #[], top := 0, textTy := 1 }

/-- `para: text?` (type 0), `text` (type 1) -/
private def SOpt : Schema :=
  { nodes := #[mkNT false #[⟨true, [(1, 1)]⟩, ⟨true, []⟩], mkNT true #[⟨true, []⟩]],
    marks := #[], top := 0, textTy := 1 }

private theorem dfa_out (S : Schema) (t : TypeId) (h : ¬ t < S.nodes.size) (q : Nat) :
    (S.dfa t).edgesOf q = [] := by
  have : S.nodes[t]! = default := by simp [h]
  unfold Schema.dfa Schema.nodeType
  rw [this]; rfl

private theorem edges_out (d : Dfa) (q : Nat) (h : ¬ q < d.size) : d.edgesOf q = [] := by
  unfold Dfa.edgesOf
  have : d[q]? = none := by simp; omega
  rw [this]

/-- **`TextLoop` does not give the parser's condition**: `text+` loops on its second state, but the
    state after the first text child accepts while the start state does not -/
theorem textLoop_not_textStable : TextLoop SPlus ∧ ¬ FromDom.TextStable SPlus := by
  constructor
  · intro (t : Nat) q q1 hm
    by_cases ht : t < SPlus.nodes.size
    · have ht2 : t = 0 ∨ t = 1 := by simp [SPlus] at ht; omega
      by_cases hq : q < (SPlus.dfa t).size
      · rcases ht2 with rfl | rfl
        · have hq2 : q = 0 ∨ q = 1 := by
            simp [SPlus, mkNT, Schema.dfa, Schema.nodeType] at hq; omega
          rcases hq2 with rfl | rfl <;>
            (simp [Dfa.matchType, Dfa.edgesOf, Schema.dfa, Schema.nodeType, SPlus, mkNT] at hm; subst hm
             simp [Dfa.matchType, Dfa.edgesOf, Schema.dfa, Schema.nodeType, SPlus, mkNT])
        · have hq2 : q = 0 := by
            simp [SPlus, mkNT, Schema.dfa, Schema.nodeType] at hq; omega
          subst hq2
          simp [Dfa.matchType, Dfa.edgesOf, Schema.dfa, Schema.nodeType, SPlus, mkNT] at hm
      · simp [Dfa.matchType, edges_out _ q hq] at hm
    · simp [Dfa.matchType, dfa_out _ t ht q] at hm
  · intro h
    have := (h 0 0 1 (by simp [Dfa.matchType, Dfa.edgesOf, Schema.dfa, Schema.nodeType, SPlus, mkNT])).2
    simp [Dfa.validEnd, Schema.dfa, Schema.nodeType, SPlus, mkNT] at this

/-- **`TextStableP` does not give `TextLoop`**: in `text?` no second text child is ever accepted, so
    `TextStableP` holds vacuously, and `TextLoop` fails at the start state -/
theorem textStableP_not_textLoop : TextStableP SOpt ∧ ¬ TextLoop SOpt := by
  constructor
  · intro (t : Nat) q q1 q2 h1 h2
    by_cases ht : t < SOpt.nodes.size
    · have ht2 : t = 0 ∨ t = 1 := by simp [SOpt] at ht; omega
      by_cases hq : q < (SOpt.dfa t).size
      · rcases ht2 with rfl | rfl
        · have hq2 : q = 0 ∨ q = 1 := by
            simp [SOpt, mkNT, Schema.dfa, Schema.nodeType] at hq; omega
          rcases hq2 with rfl | rfl
          · simp [Dfa.matchType, Dfa.edgesOf, Schema.dfa, Schema.nodeType, SOpt, mkNT] at h1; subst h1
            simp [Dfa.matchType, Dfa.edgesOf, Schema.dfa, Schema.nodeType, SOpt, mkNT] at h2
          · simp [Dfa.matchType, Dfa.edgesOf, Schema.dfa, Schema.nodeType, SOpt, mkNT] at h1
        · have hq2 : q = 0 := by
            simp [SOpt, mkNT, Schema.dfa, Schema.nodeType] at hq; omega
          subst hq2
          simp [Dfa.matchType, Dfa.edgesOf, Schema.dfa, Schema.nodeType, SOpt, mkNT] at h1
      · simp [Dfa.matchType, edges_out _ q hq] at h1
    · simp [Dfa.matchType, dfa_out _ t ht q] at h1
  · intro h
    have := h 0 0 1 (by simp [Dfa.matchType, Dfa.edgesOf, Schema.dfa, Schema.nodeType, SOpt, mkNT])
    simp [Dfa.matchType, Dfa.edgesOf, Schema.dfa, Schema.nodeType, SOpt, mkNT] at this

end PM
