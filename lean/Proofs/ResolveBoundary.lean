/-
  Proofs/ResolveBoundary.lean — resolving a child boundary of a nested node (`Lvl`, Proofs/Level.lean): the innermost
  path entry is that node, pointing at the boundary (used for `fits_trivially` at the positions `insert_point` /
  `drop_point` return: Props/C12.lean).
-/
import Proofs.Level
import Proofs.Resolve
namespace PM

theorem resolveScan_skip (node : Node) (start : Nat) : ∀ (pre rest : List Node) (idx cur po : Nat), 0 < po →
    resolveScan node start (pre ++ rest) idx cur (fsize pre + po)
      = resolveScan node start rest (idx + pre.length) (cur + fsize pre) po
  | [], rest, idx, cur, po, _ => by simp
  | p :: ps, rest, idx, cur, po, hpo => by
    rw [List.cons_append]
    conv => lhs; unfold resolveScan
    rw [if_neg (by simp only [fsize_cons]; omega), if_pos (by simp only [fsize_cons]; omega)]
    have e : fsize (p :: ps) + po - p.size = fsize ps + po := by simp only [fsize_cons]; omega
    rw [e, resolveScan_skip node start ps rest (idx + 1) (cur + p.size) po hpo]
    congr 1
    · simp only [List.length_cons]; omega
    · simp only [fsize_cons]; omega

theorem resolveScan_at_boundary (node : Node) (start : Nat) : ∀ (pre rest : List Node) (idx cur : Nat),
    fnormKids pre = true →
    resolveScan node start (pre ++ rest) idx cur (fsize pre)
      = some [⟨node, idx + pre.length, start + (cur + fsize pre)⟩]
  | [], rest, idx, cur, _ => by
    cases rest with
    | nil => simp [resolveScan]
    | cons x xs => unfold resolveScan; simp
  | p :: ps, rest, idx, cur, hn => by
    simp only [fnormKids_cons, Bool.and_eq_true] at hn
    have hpos := Node.size_pos_of_norm p hn.1
    rw [List.cons_append]
    conv => lhs; unfold resolveScan
    rw [if_neg (by simp only [fsize_cons]; omega), if_pos (by simp only [fsize_cons]; omega)]
    have e : fsize (p :: ps) - p.size = fsize ps := by simp only [fsize_cons]; omega
    rw [e, resolveScan_at_boundary node start ps rest (idx + 1) (cur + p.size) hn.2]
    simp only [List.length_cons, fsize_cons]
    congr 3 <;> omega

/-- resolving a child boundary of a nested level: the last path entry is the level's node, its index the boundary; the
    path has one entry per level, the entry above the last one points at the level's node -/
theorem resolveScan_lvl (S : Schema) {ty tyP : TypeId} {K L : List Node} {b nd : Nat} {ctx : List Node → List Node}
    (h : Lvl ty K b nd tyP L ctx) (pre post : List Node) (hL : L = pre ++ post) (hpre : fnormKids pre = true) :
    ∀ (node : Node) (start : Nat), node.kids = K → S.tyOf node = ty →
      ∃ path e, resolveScan node start K 0 0 (b + fsize pre) = some path ∧ path.getLast? = some e ∧
        e.index = pre.length ∧ e.node.kids = L ∧ S.tyOf e.node = tyP ∧ e.pos = start + b + fsize pre ∧
        path.length = nd + 1 ∧ (nd ≠ 0 → ∃ e', path[nd - 1]? = some e' ∧ e'.pos + 1 = start + b) := by
  induction h with
  | here ty K =>
    intro node start hk hty
    subst hL
    refine ⟨_, _, by rw [Nat.zero_add]; exact resolveScan_at_boundary node start pre post 0 0 hpre, rfl, ?_, hk, hty, ?_,
      rfl, fun h => absurd rfl h⟩
    · simp
    · simp
  | @down tyC tyP kidsC L b nd ctx ty pre0 aC mC ns hp hl ih =>
    intro node start hk hty
    have hr := hl.range
    have hsz : fsize L = fsize pre + fsize post := by rw [hL, fsize_append]
    obtain ⟨path, e, h1, h2, h3, h4, h5, h6, h7, h8⟩ :=
      ih hL (.elem tyC aC mC kidsC) (start + (0 + fsize pre0) + 1) rfl rfl
    refine ⟨⟨node, 0 + pre0.length, start + (0 + fsize pre0)⟩ :: path, e, ?_, ?_, h3, h4, h5, ?_, ?_, ?_⟩
    · rw [show fsize pre0 + 1 + b + fsize pre = fsize pre0 + (1 + b + fsize pre) by omega,
        resolveScan_skip node start pre0 _ 0 0 _ (by omega)]
      conv => lhs; unfold resolveScan
      rw [if_neg (by omega), if_neg (by simp only [Node.size_elem]; omega)]
      simp only [show 1 + b + fsize pre - 1 = b + fsize pre by omega, h1, Option.map_some]
    · cases path with
      | nil => simp at h2
      | cons x xs => simpa using h2
    · rw [h6]; omega
    · simp [h7]
    · intro _
      by_cases hz : nd = 0
      · subst hz
        obtain ⟨hb, _⟩ := hl.zero
        subst hb
        exact ⟨⟨node, 0 + pre0.length, start + (0 + fsize pre0)⟩, by simp, by simp only []; omega⟩
      · obtain ⟨e', he1, he2⟩ := h8 hz
        refine ⟨e', ?_, by rw [he2]; omega⟩
        rw [show nd + 1 - 1 = (nd - 1) + 1 by omega, List.getElem?_cons_succ]
        exact he1

/-- **the resolved child boundary of a nested node** -/
theorem resolve_at_boundary (S : Schema) (ty0 : TypeId) (a0 : Attrs) (m0 : Marks) {K : List Node} {b nd : Nat}
    {tyP : TypeId} {ctx : List Node → List Node} {pre post : List Node}
    (hl : Lvl ty0 K b nd tyP (pre ++ post) ctx) (hpre : fnormKids pre = true) :
    ∃ rp, (Node.elem ty0 a0 m0 K).resolve (b + fsize pre) = some rp ∧ rp.parent.kids = pre ++ post ∧
      S.tyOf rp.parent = tyP ∧ rp.index rp.depth = pre.length ∧ rp.textOffset = 0 ∧
      rp.depth = nd ∧ rp.start rp.depth = b := by
  obtain ⟨path, e, h1, h2, h3, h4, h5, h6, h7, h8⟩ :=
    resolveScan_lvl S hl pre post rfl hpre (.elem ty0 a0 m0 K) 0 rfl rfl
  have hr := hl.range
  rw [fsize_append] at hr
  have hlast : path[path.length - 1]! = e := by
    cases path with
    | nil => simp at h2
    | cons x xs =>
      rw [List.getLast?_eq_getElem?] at h2
      simp only [List.length_cons, Nat.add_sub_cancel] at h2 ⊢
      rw [getElem!_pos _ _ (by simp), ← Option.some.injEq, ← h2, List.getElem?_eq_getElem (by simp)]
  have hdep : (RPos.mk (b + fsize pre) path).depth = nd := by simp [RPos.depth, h7]
  refine ⟨⟨b + fsize pre, path⟩, ?_, ?_, ?_, ?_, ?_, hdep, ?_⟩
  · simp only [Node.resolve, Node.kids, h1, Option.map_some]
    rw [if_pos (by omega)]
  · simp only [RPos.parent, RPos.node, RPos.entry, RPos.depth, hlast, h4]
  · simp only [RPos.parent, RPos.node, RPos.entry, RPos.depth, hlast, h5]
  · simp only [RPos.index, RPos.entry, RPos.depth, hlast, h3]
  · simp only [RPos.textOffset, RPos.entry, RPos.depth, hlast, h6]
    omega
  · rw [hdep]
    unfold RPos.start
    by_cases hz : nd = 0
    · subst hz
      obtain ⟨hb, _⟩ := hl.zero
      simp [hb]
    · obtain ⟨e', he1, he2⟩ := h8 hz
      rw [if_neg hz]
      simp only [RPos.entry]
      have : path[nd - 1]! = e' := by
        rw [getElem!_pos _ _ (by omega), ← Option.some.injEq, ← he1, List.getElem?_eq_getElem (by omega)]
      rw [this]; omega

end PM
