/- Proofs/Diff.lean — helper lemmas for Props/C20.lean -/
import PM.Diff
import Proofs.Toks
namespace PM
end PM
