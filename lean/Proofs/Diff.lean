/- Proofs/Diff.lean — helper lemmas for Props/C20.lean -/
import PM.Diff
import Proofs.Toks
namespace PM

/-! ### the marked-up token view -/

@[simp] theorem fmtoks_nil : fmtoks [] = [] := by simp [fmtoks]
@[simp] theorem fmtoks_cons (n : Node) (ns : List Node) : fmtoks (n :: ns) = n.mtoks ++ fmtoks ns := by
  simp [fmtoks]
@[simp] theorem Node.mtoks_text (s : List Nat) (m : Marks) :
    (Node.text s m).mtoks = s.map (MTok.unit · m) := by simp [Node.mtoks]
@[simp] theorem Node.mtoks_leaf (t : TypeId) (a : Attrs) (m : Marks) :
    (Node.leaf t a m).mtoks = [MTok.leaf t a m] := by simp [Node.mtoks]
@[simp] theorem Node.mtoks_elem (t : TypeId) (a : Attrs) (m : Marks) (k : List Node) :
    (Node.elem t a m k).mtoks = MTok.op t a m :: (fmtoks k ++ [MTok.cl t a m]) := by simp [Node.mtoks]

theorem fmtoks_append (a b : List Node) : fmtoks (a ++ b) = fmtoks a ++ fmtoks b := by
  induction a with
  | nil => simp
  | cons n ns ih => simp [ih]

mutual
theorem Node.mtoks_length : ∀ n : Node, n.mtoks.length = n.size
  | .text s m => by simp
  | .leaf t a m => by simp
  | .elem t a m kids => by
    simp only [Node.mtoks_elem, Node.size_elem, List.length_cons, List.length_append, List.length_nil]
    rw [fmtoks_length kids]; omega
theorem fmtoks_length : ∀ ns : List Node, (fmtoks ns).length = fsize ns
  | [] => by simp
  | n :: ns => by simp [Node.mtoks_length n, fmtoks_length ns]
end

/-! ### longest common prefix -/

section lcp
variable {α : Type _} [DecidableEq α]

@[simp] theorem lcpLen_nil_left (l : List α) : lcpLen [] l = 0 := by simp [lcpLen]
@[simp] theorem lcpLen_nil_right (l : List α) : lcpLen l [] = 0 := by cases l <;> simp [lcpLen]
@[simp] theorem lcpLen_cons_cons (x y : α) (xs ys : List α) :
    lcpLen (x :: xs) (y :: ys) = if x = y then 1 + lcpLen xs ys else 0 := by simp [lcpLen]

theorem lcpLen_append_left (l r r' : List α) : lcpLen (l ++ r) (l ++ r') = l.length + lcpLen r r' := by
  induction l with
  | nil => simp
  | cons x xs ih => simp [ih]; omega

theorem lcpLen_le_left : ∀ (a b : List α), lcpLen a b ≤ a.length
  | [], _ => by simp
  | _ :: _, [] => by simp
  | x :: xs, y :: ys => by
    have := lcpLen_le_left xs ys
    simp only [lcpLen_cons_cons, List.length_cons]; split <;> omega

theorem lcpLen_le_right : ∀ (a b : List α), lcpLen a b ≤ b.length
  | [], _ => by simp
  | _ :: _, [] => by simp
  | x :: xs, y :: ys => by
    have := lcpLen_le_right xs ys
    simp only [lcpLen_cons_cons, List.length_cons]; split <;> omega

theorem lcpLen_map_inj {β : Type _} [DecidableEq β] (f : α → β) (hf : ∀ x y, f x = f y → x = y) :
    ∀ (a b : List α), lcpLen (a.map f) (b.map f) = lcpLen a b
  | [], _ => by simp
  | _ :: _, [] => by simp
  | x :: xs, y :: ys => by
    have ih := lcpLen_map_inj f hf xs ys
    by_cases h : x = y
    · subst h; simp [ih]
    · have : f x ≠ f y := fun e => h (hf _ _ e)
      simp [h, this]

end lcp

/-! ### heads of token sequences -/

def MTok.isCl : MTok → Bool
  | .cl .. => true
  | _ => false

/-- the rest is empty or starts with a close token -/
def clStart : List MTok → Bool
  | [] => true
  | t :: _ => t.isCl

/-- the list does not start with a text unit carrying marks `m` -/
def NoUnit (m : Marks) (l : List MTok) : Prop := ∀ c rest, l ≠ MTok.unit c m :: rest

/-- first token of a (normal) node -/
def Node.hd : Node → MTok
  | .text s m => .unit (s.headD 0) m
  | .leaf t a m => .leaf t a m
  | .elem t a m _ => .op t a m

theorem Node.mtoks_eq_hd (x : Node) (h : x.norm = true) : x.mtoks = x.hd :: x.mtoks.tail := by
  cases x with
  | text s m => cases s <;> simp_all [Node.norm, Node.hd]
  | leaf t a m => simp [Node.hd]
  | elem t a m k => simp [Node.hd]

theorem Node.hd_isCl (x : Node) : x.hd.isCl = false := by
  cases x <;> simp [Node.hd, MTok.isCl]

theorem Node.hd_ne_of_not_sameMarkup (x y : Node) (h : x.sameMarkup y = false) : x.hd ≠ y.hd := by
  cases x <;> cases y <;> simp_all [Node.hd, Node.sameMarkup]

theorem Node.hd_ne_unit_of_adjOk (s : List Nat) (m : Marks) (y : Node) (h : adjOk (.text s m) y = true)
    (c : Nat) : y.hd ≠ MTok.unit c m := by
  cases y <;> simp_all [Node.hd, adjOk]
  intro _ e; exact h e.symm

theorem Node.size_pos (x : Node) (h : x.norm = true) : 0 < x.size := by
  cases x with
  | text s m => cases s <;> simp_all [Node.norm]
  | leaf t a m => simp
  | elem t a m k => simp; omega

/-! ### normal form -/

theorem fnorm_cons (x : Node) (xs : List Node) (h : fnorm (x :: xs) = true) :
    x.norm = true ∧ fnorm xs = true := by
  cases xs with
  | nil => simp_all [fnorm, fnormKids, chainOk]
  | cons y ys => simp_all [fnorm, fnormKids, chainOk]

theorem fnorm_cons_adj (x y : Node) (ys : List Node) (h : fnorm (x :: y :: ys) = true) :
    adjOk x y = true := by
  simp_all [fnorm, chainOk]

theorem Node.norm_elem (t : TypeId) (a : Attrs) (m : Marks) (k : List Node) :
    (Node.elem t a m k).norm = fnorm k := by simp [Node.norm, fnorm]

theorem eq_nil_of_fnorm_fsize_zero (k : List Node) (h : fnorm k = true) (hz : fsize k = 0) : k = [] := by
  cases k with
  | nil => rfl
  | cons x xs =>
    have := Node.size_pos x (fnorm_cons x xs h).1
    simp at hz; omega

theorem clStart_noUnit (m : Marks) (R : List MTok) (h : clStart R = true) : NoUnit m R := by
  intro c rest e; subst e; simp [clStart, MTok.isCl] at h

/-- what follows a text node in a normal fragment does not continue the text -/
theorem noUnit_after_text (s : List Nat) (m : Marks) (xs : List Node) (R : List MTok)
    (h : fnorm (.text s m :: xs) = true) (hR : clStart R = true) : NoUnit m (fmtoks xs ++ R) := by
  cases xs with
  | nil => simpa using clStart_noUnit m R hR
  | cons y ys =>
    have hadj := fnorm_cons_adj _ _ _ h
    have hy := (fnorm_cons _ _ (fnorm_cons _ _ h).2).1
    intro c rest e
    rw [fmtoks_cons, Node.mtoks_eq_hd y hy] at e
    simp at e
    exact Node.hd_ne_unit_of_adjOk s m y hadj c e.1

theorem lcpLen_text (m : Marks) : ∀ (s s' : List Nat) (A B : List MTok), s ≠ s' → NoUnit m A → NoUnit m B →
    lcpLen (s.map (MTok.unit · m) ++ A) (s'.map (MTok.unit · m) ++ B) = lcpLen s s'
  | [], [], _, _, h, _, _ => absurd rfl h
  | [], c :: s', A, B, _, hA, _ => by
    cases A with
    | nil => simp
    | cons t A =>
      have := hA c A
      simp at this
      simp; intro e; exact this e
  | c :: s, [], A, B, _, _, hB => by
    cases B with
    | nil => simp
    | cons t B =>
      have := hB c B
      simp at this
      simp; intro e; exact this e.symm
  | c :: s, c' :: s', A, B, h, hA, hB => by
    by_cases hc : c = c'
    · subst hc
      have hs : s ≠ s' := fun e => h (by rw [e])
      simp [lcpLen_text m s s' A B hs hA hB]
    · simp [hc]

/-- a close token (or nothing) never continues a normal node -/
theorem lcpLen_clStart_left (R : List MTok) (y : Node) (B : List MTok) (hR : clStart R = true)
    (hy : y.norm = true) : lcpLen R (y.mtoks ++ B) = 0 := by
  cases R with
  | nil => simp
  | cons t R =>
    rw [Node.mtoks_eq_hd y hy]
    have := Node.hd_isCl y
    simp [clStart] at hR
    simp; intro e; subst e; simp [hR] at this

theorem lcpLen_clStart_right (R : List MTok) (y : Node) (B : List MTok) (hR : clStart R = true)
    (hy : y.norm = true) : lcpLen (y.mtoks ++ B) R = 0 := by
  cases R with
  | nil => simp
  | cons t R =>
    rw [Node.mtoks_eq_hd y hy]
    have := Node.hd_isCl y
    simp [clStart] at hR
    simp; intro e; subst e; simp [hR] at this

theorem lcpLen_not_sameMarkup (x y : Node) (A B : List MTok) (hx : x.norm = true) (hy : y.norm = true)
    (h : x.sameMarkup y = false) : lcpLen (x.mtoks ++ A) (y.mtoks ++ B) = 0 := by
  rw [Node.mtoks_eq_hd x hx, Node.mtoks_eq_hd y hy]
  simp [Node.hd_ne_of_not_sameMarkup x y h]

/-! ### `diffStart` -/

theorem Node.sameMarkup_self (x : Node) : x.sameMarkup x = true := by
  cases x <;> simp [Node.sameMarkup]

theorem diffStart_case9 (x y : Node) (hm : x.sameMarkup y = true)
    (h1 : ∀ (s : List Nat) (m : Marks) (s' : List Nat) (m' : Marks), x = .text s m → y = .text s' m' → False)
    (h2 : ∀ (t : TypeId) (a : Attrs) (m : Marks) (k : List Node) (t' : TypeId) (a' : Attrs) (m' : Marks)
      (k' : List Node), x = .elem t a m k → y = .elem t' a' m' k' → False) :
    x = y ∧ ∃ t a m, x = .leaf t a m := by
  cases x with
  | text s m =>
    cases y with
    | text s' m' => exact (h1 _ _ _ _ rfl rfl).elim
    | leaf => simp [Node.sameMarkup] at hm
    | elem => simp [Node.sameMarkup] at hm
  | leaf t a m =>
    cases y with
    | text s' m' => simp [Node.sameMarkup] at hm
    | leaf t' a' m' =>
      simp [Node.sameMarkup] at hm
      simp [hm]
    | elem => simp [Node.sameMarkup] at hm
  | elem t a m k =>
    cases y with
    | text s' m' => simp [Node.sameMarkup] at hm
    | leaf => simp [Node.sameMarkup] at hm
    | elem => exact (h2 _ _ _ _ _ _ _ _ rfl rfl).elim

theorem diffStart_none_of_eq (a b : List Node) (pos : Nat) (h : a = b) : diffStart a b pos = none := by
  fun_induction diffStart a b pos with
  | case1 => rfl
  | case2 => simp at h
  | case3 => simp at h
  | case4 x xs y ys pos hm =>
    simp at h; rw [h.1] at hm; simp [Node.sameMarkup_self] at hm
  | case5 xs ys pos s m s' m' hs => simp at h; exact absurd h.1.1 hs
  | case6 xs ys pos s m s' m' hs hm ih => simp at h; exact ih h.2
  | case7 xs ys pos t a m k t' a' m' k' r hr hm ih =>
    simp at h
    have := ih h.1.2.2.2
    split at hr <;> simp_all
  | case8 xs ys pos t a m k t' a' m' k' hr hm ih ih2 => simp at h; exact ih2 h.2
  | case9 x xs y ys pos hm h1 h2 ih => simp at h; exact ih h.2

theorem eq_of_diffStart_none (a b : List Node) (pos : Nat) (ha : fnorm a = true) (hb : fnorm b = true)
    (h : diffStart a b pos = none) : a = b := by
  fun_induction diffStart a b pos with
  | case1 => rfl
  | case2 => simp at h
  | case3 => simp at h
  | case4 x xs y ys pos hm => simp at h
  | case5 xs ys pos s m s' m' hs => simp at h
  | case6 xs ys pos s m s' m' hs hm ih =>
    simp [Node.sameMarkup] at hm hs
    rw [ih (fnorm_cons _ _ ha).2 (fnorm_cons _ _ hb).2 h, hm, hs]
  | case7 xs ys pos t a m k t' a' m' k' r hr hm ih => simp at h
  | case8 xs ys pos t a m k t' a' m' k' hr hm ih ih2 =>
    simp [Node.sameMarkup] at hm
    have hka : fnorm k = true := by rw [← Node.norm_elem t a m k]; exact (fnorm_cons _ _ ha).1
    have hkb : fnorm k' = true := by rw [← Node.norm_elem t' a' m' k']; exact (fnorm_cons _ _ hb).1
    have hk : k = k' := by
      split at hr
      · exact ih hka hkb hr
      · rename_i hz
        have hz1 : fsize k = 0 := by omega
        have hz2 : fsize k' = 0 := by omega
        rw [eq_nil_of_fnorm_fsize_zero k hka hz1, eq_nil_of_fnorm_fsize_zero k' hkb hz2]
    rw [ih2 (fnorm_cons _ _ ha).2 (fnorm_cons _ _ hb).2 h, hm.1.1, hm.1.2, hm.2, hk]
  | case9 x xs y ys pos hm h1 h2 ih =>
    have hxy := (diffStart_case9 x y (by simpa using hm) h1 h2).1
    rw [ih (fnorm_cons _ _ ha).2 (fnorm_cons _ _ hb).2 h, hxy]

theorem fsize_eq_of_diffStart_none (a b : List Node) (pos : Nat) (h : diffStart a b pos = none) :
    fsize a = fsize b := by
  fun_induction diffStart a b pos with
  | case1 => rfl
  | case2 => simp at h
  | case3 => simp at h
  | case4 x xs y ys pos hm => simp at h
  | case5 xs ys pos s m s' m' hs => simp at h
  | case6 xs ys pos s m s' m' hs hm ih =>
    simp at hs; subst hs
    simp [ih h]
  | case7 xs ys pos t a m k t' a' m' k' r hr hm ih => simp at h
  | case8 xs ys pos t a m k t' a' m' k' hr hm ih ih2 =>
    have h2 := ih2 h
    have : fsize k = fsize k' := by
      split at hr
      · exact ih hr
      · omega
    simp [h2, this]
  | case9 x xs y ys pos hm h1 h2 ih =>
    have hxy := (diffStart_case9 x y (by simpa using hm) h1 h2).1
    simp [ih h, hxy]

theorem diffStart_le' (a b : List Node) (pos q : Nat) (h : diffStart a b pos = some q) :
    q ≤ pos + fsize a ∧ q ≤ pos + fsize b := by
  fun_induction diffStart a b pos generalizing q with
  | case1 => simp at h
  | case2 => simp at h; omega
  | case3 => simp at h; omega
  | case4 x xs y ys pos hm => simp at h; omega
  | case5 xs ys pos s m s' m' hs =>
    simp at h
    have := lcpLen_le_left s s'
    have := lcpLen_le_right s s'
    simp; omega
  | case6 xs ys pos s m s' m' hs hm ih =>
    simp at hs; subst hs
    have := ih q h
    simp; omega
  | case7 xs ys pos t a m k t' a' m' k' r hr hm ih =>
    simp at h; subst h
    have : diffStart k k' (pos + 1) = some r := by split at hr <;> simp_all
    have := ih r this
    simp; omega
  | case8 xs ys pos t a m k t' a' m' k' hr hm ih ih2 =>
    have := ih2 q h
    have : fsize k = fsize k' := by
      split at hr
      · exact fsize_eq_of_diffStart_none _ _ _ hr
      · omega
    simp at *; omega
  | case9 x xs y ys pos hm h1 h2 ih =>
    have := ih q h
    have hxy := (diffStart_case9 x y (by simpa using hm) h1 h2).1
    subst hxy
    simp; omega

theorem fnorm_kids (t : TypeId) (a : Attrs) (m : Marks) (k : List Node) (xs : List Node)
    (h : fnorm (.elem t a m k :: xs) = true) : fnorm k = true := by
  rw [← Node.norm_elem t a m k]; exact (fnorm_cons _ _ h).1

/-- the position reported by `diffStart` is the length of the common prefix of the token sequences,
    also when both are followed by a closing token (or nothing) -/
theorem diffStart_lcp_gen (a b : List Node) (pos q : Nat) (R R' : List MTok)
    (ha : fnorm a = true) (hb : fnorm b = true) (hR : clStart R = true) (hR' : clStart R' = true)
    (h : diffStart a b pos = some q) : q = pos + lcpLen (fmtoks a ++ R) (fmtoks b ++ R') := by
  fun_induction diffStart a b pos generalizing q R R' with
  | case1 => simp at h
  | case2 y ys pos =>
    simp at h
    simp [lcpLen_clStart_left R y _ hR (fnorm_cons _ _ hb).1, h]
  | case3 x xs pos =>
    simp at h
    simp [lcpLen_clStart_right R' x _ hR' (fnorm_cons _ _ ha).1, h]
  | case4 x xs y ys pos hm =>
    simp at h hm
    simp [lcpLen_not_sameMarkup x y _ _ (fnorm_cons _ _ ha).1 (fnorm_cons _ _ hb).1 hm, h]
  | case5 xs ys pos s m s' m' hs hm =>
    simp [Node.sameMarkup] at hm; subst hm
    simp at h
    simp only [fmtoks_cons, Node.mtoks_text, List.append_assoc]
    rw [lcpLen_text m s s' _ _ hs (noUnit_after_text s m xs R ha hR) (noUnit_after_text s' m ys R' hb hR'), h]
  | case6 xs ys pos s m s' m' hs hm ih =>
    simp [Node.sameMarkup] at hm; subst hm
    simp at hs; subst hs
    have := ih q R R' (fnorm_cons _ _ ha).2 (fnorm_cons _ _ hb).2 hR hR' h
    simp only [fmtoks_cons, Node.mtoks_text, List.append_assoc]
    rw [lcpLen_append_left, this]; simp; omega
  | case7 xs ys pos t a m k t' a' m' k' r hr hm ih =>
    simp [Node.sameMarkup] at hm
    obtain ⟨⟨rfl, rfl⟩, rfl⟩ := hm
    simp at h; subst h
    have hd : diffStart k k' (pos + 1) = some r := by split at hr <;> simp_all
    have := ih r (MTok.cl t a m :: (fmtoks xs ++ R)) (MTok.cl t a m :: (fmtoks ys ++ R'))
      (fnorm_kids _ _ _ _ _ ha) (fnorm_kids _ _ _ _ _ hb) (by simp [clStart, MTok.isCl])
      (by simp [clStart, MTok.isCl]) hd
    simp [this]; omega
  | case8 xs ys pos t a m k t' a' m' k' hr hm ih ih2 =>
    simp [Node.sameMarkup] at hm
    obtain ⟨⟨rfl, rfl⟩, rfl⟩ := hm
    have hka := fnorm_kids _ _ _ _ _ ha
    have hkb := fnorm_kids _ _ _ _ _ hb
    have hk : k = k' := by
      split at hr
      · exact eq_of_diffStart_none _ _ _ hka hkb hr
      · rename_i hz
        have hz1 : fsize k = 0 := by omega
        have hz2 : fsize k' = 0 := by omega
        rw [eq_nil_of_fnorm_fsize_zero k hka hz1, eq_nil_of_fnorm_fsize_zero k' hkb hz2]
    subst hk
    have := ih2 q R R' (fnorm_cons _ _ ha).2 (fnorm_cons _ _ hb).2 hR hR' h
    simp only [fmtoks_cons, List.append_assoc]
    rw [lcpLen_append_left, this, Node.mtoks_length]; omega
  | case9 x xs y ys pos hm h1 h2 ih =>
    have hxy := (diffStart_case9 x y (by simpa using hm) h1 h2).1
    subst hxy
    have := ih q R R' (fnorm_cons _ _ ha).2 (fnorm_cons _ _ hb).2 hR hR' h
    simp only [fmtoks_cons, List.append_assoc]
    rw [lcpLen_append_left, this, Node.mtoks_length]; omega

/-! ### mirror images -/

/-- exchange open and close tokens -/
def MTok.swap : MTok → MTok
  | .op t a m => .cl t a m
  | .cl t a m => .op t a m
  | x => x

@[simp] theorem MTok.swap_swap (t : MTok) : t.swap.swap = t := by cases t <;> rfl

theorem MTok.swap_inj (x y : MTok) (h : x.swap = y.swap) : x = y := by
  have := congrArg MTok.swap h
  simpa using this

@[simp] theorem fmirror_nil : fmirror [] = [] := by simp [fmirror]
@[simp] theorem fmirror_cons (n : Node) (ns : List Node) : fmirror (n :: ns) = fmirror ns ++ [n.mirror] := by
  simp [fmirror]
@[simp] theorem Node.mirror_text (s : List Nat) (m : Marks) : (Node.text s m).mirror = .text s.reverse m := by
  simp [Node.mirror]
@[simp] theorem Node.mirror_leaf (t : TypeId) (a : Attrs) (m : Marks) : (Node.leaf t a m).mirror = .leaf t a m := by
  simp [Node.mirror]
@[simp] theorem Node.mirror_elem (t : TypeId) (a : Attrs) (m : Marks) (k : List Node) :
    (Node.elem t a m k).mirror = .elem t a m (fmirror k) := by simp [Node.mirror]

theorem fmirror_append (a b : List Node) : fmirror (a ++ b) = fmirror b ++ fmirror a := by
  induction a with
  | nil => simp
  | cons n ns ih => simp [ih]

mutual
theorem Node.mirror_mirror : ∀ n : Node, n.mirror.mirror = n
  | .text s m => by simp
  | .leaf t a m => by simp
  | .elem t a m k => by simp [fmirror_fmirror k]
theorem fmirror_fmirror : ∀ l : List Node, fmirror (fmirror l) = l
  | [] => by simp
  | n :: ns => by simp [fmirror_append, Node.mirror_mirror n, fmirror_fmirror ns]
end

theorem fmirror_inj (a b : List Node) (h : fmirror a = fmirror b) : a = b := by
  have := congrArg fmirror h
  simpa [fmirror_fmirror] using this

mutual
theorem Node.mirror_size : ∀ n : Node, n.mirror.size = n.size
  | .text s m => by simp
  | .leaf t a m => by simp
  | .elem t a m k => by simp [fmirror_size k]
theorem fmirror_size : ∀ l : List Node, fsize (fmirror l) = fsize l
  | [] => by simp
  | n :: ns => by simp [fsize_append, Node.mirror_size n, fmirror_size ns]; omega
end

mutual
theorem Node.mirror_mtoks : ∀ n : Node, n.mirror.mtoks = n.mtoks.reverse.map MTok.swap
  | .text s m => by simp [MTok.swap, Function.comp_def]
  | .leaf t a m => by simp [MTok.swap]
  | .elem t a m k => by simp [fmirror_mtoks k, MTok.swap]
theorem fmirror_mtoks : ∀ l : List Node, fmtoks (fmirror l) = (fmtoks l).reverse.map MTok.swap
  | [] => by simp
  | n :: ns => by simp [fmtoks_append, Node.mirror_mtoks n, fmirror_mtoks ns]
end

theorem adjOk_mirror (x y : Node) : adjOk y.mirror x.mirror = adjOk x y := by
  cases x <;> cases y <;> simp [adjOk, bne_comm]

theorem chainOk_concat : ∀ (l : List Node) (x : Node),
    chainOk (l ++ [x]) = (chainOk l && match l.getLast? with | none => true | some y => adjOk y x)
  | [], x => by simp [chainOk]
  | [a], x => by simp [chainOk]
  | a :: b :: l, x => by
    have ih := chainOk_concat (b :: l) x
    simp only [List.cons_append] at ih
    simp only [List.cons_append, chainOk, ih, List.getLast?_cons_cons, Bool.and_assoc]

theorem fmirror_getLast? (l : List Node) : (fmirror l).getLast? = l.head?.map Node.mirror := by
  cases l <;> simp

theorem chainOk_fmirror : ∀ l : List Node, chainOk (fmirror l) = chainOk l
  | [] => by simp
  | [a] => by simp [chainOk]
  | a :: b :: l => by
    have ih := chainOk_fmirror (b :: l)
    rw [fmirror_cons, chainOk_concat, ih, fmirror_getLast?]
    simp [chainOk, adjOk_mirror, Bool.and_comm]

theorem fnormKids_append (a b : List Node) : fnormKids (a ++ b) = (fnormKids a && fnormKids b) := by
  induction a with
  | nil => simp [fnormKids]
  | cons n ns ih => simp [fnormKids, ih, Bool.and_assoc]

mutual
theorem Node.mirror_norm : ∀ n : Node, n.mirror.norm = n.norm
  | .text s m => by simp [Node.norm]
  | .leaf t a m => by simp [Node.norm]
  | .elem t a m k => by simp [Node.norm, fnormKids_fmirror k, chainOk_fmirror]
theorem fnormKids_fmirror : ∀ l : List Node, fnormKids (fmirror l) = fnormKids l
  | [] => by simp
  | n :: ns => by
    simp [fnormKids_append, fnormKids, Node.mirror_norm n, fnormKids_fmirror ns, Bool.and_comm]
end

theorem fnorm_fmirror (l : List Node) : fnorm (fmirror l) = fnorm l := by
  simp [fnorm, fnormKids_fmirror, chainOk_fmirror]

theorem lcpLen_fmirror (a b : List Node) :
    lcpLen (fmtoks (fmirror a)) (fmtoks (fmirror b)) = lcpLen (fmtoks a).reverse (fmtoks b).reverse := by
  rw [fmirror_mtoks, fmirror_mtoks, lcpLen_map_inj _ MTok.swap_inj]

end PM
