/- Proofs/StructEdit.lean — helper lemmas for the builder theorems of Props/C12.lean
   (model: PM/StructEdit.lean): the fragments the builders assemble are nests of empty element
   nodes, so the slices hold open/close tokens only and are well-formed. -/
import PM.StructEdit
import PM.Monitor
import Proofs.Resolve
import Proofs.Respects
import Proofs.Structure
namespace PM

/-! ### nests of empty element nodes -/

/-- `IsNest k l`: `l` is `k` element nodes inside one another, the innermost empty (`k = 0`: `l = []`) -/
inductive IsNest : Nat → List Node → Prop
  | nil : IsNest 0 []
  | cons {k : Nat} {l : List Node} (t : TypeId) (a : Attrs) (m : Marks) : IsNest k l → IsNest (k + 1) [.elem t a m l]

theorem IsNest.wrap {k : Nat} {l : List Node} (h : IsNest k l) (n : Node) (hn : n.isLeaf = false) :
    IsNest (k + 1) [n.withKids l] := by
  cases n with
  | elem t a m kids => exact .cons t a m h
  | text => simp [Node.isLeaf] at hn
  | leaf => simp [Node.isLeaf] at hn

theorem IsNest.structural {k : Nat} {l : List Node} (h : IsNest k l) : structuralOnly (ftoks l) = true := by
  induction h with
  | nil => simp [structuralOnly, ftoks]
  | @cons k l t a m _ ih =>
    have e : ftoks [Node.elem t a m l] = [Tok.op t a m] ++ (ftoks l ++ [Tok.cl]) := by simp [ftoks, Node.toks]
    rw [e, structuralOnly_append, structuralOnly_append, ih]; rfl

theorem IsNest.fsize {k : Nat} {l : List Node} (h : IsNest k l) : fsize l = 2 * k := by
  induction h with
  | nil => simp [PM.fsize]
  | cons t a m _ ih => simp [PM.fsize, Node.size, ih]; omega

theorem IsNest.spineL {k : Nat} {l : List Node} (h : IsNest k l) : spineL l = k := by
  induction h with
  | nil => simp [PM.spineL]
  | cons t a m _ ih => simp [ih]; omega

theorem IsNest.spineR {k : Nat} {l : List Node} (h : IsNest k l) : spineR l = k := by
  induction h with
  | nil => simp [PM.spineR]
  | cons t a m _ ih => simp [ih]; omega

theorem spineR_append_singleton (l : List Node) (x : Node) : spineR (l ++ [x]) = spineR [x] := by
  induction l with
  | nil => rfl
  | cons a as ih =>
    cases as with
    | nil => simp [spineR]
    | cons b bs => simpa [spineR] using ih

theorem IsNest.eq_nil_or {k : Nat} {l : List Node} (h : IsNest k l) :
    (k = 0 ∧ l = []) ∨ ∃ t a m l', l = [.elem t a m l'] := by
  cases h with
  | nil => exact .inl ⟨rfl, rfl⟩
  | cons t a m h' => exact .inr ⟨t, a, m, _, rfl⟩

/-- `Fragment.append` of two nests is plain concatenation (no text seam) -/
theorem fappend_nest {a b : Nat} {x y : List Node} (hx : IsNest a x) (hy : IsNest b y) :
    fappend x y = x ++ y := by
  rcases hy.eq_nil_or with ⟨_, rfl⟩ | ⟨t, at_, m, l', rfl⟩
  · simp [fappend]
  · rcases hx.eq_nil_or with ⟨_, rfl⟩ | ⟨t', a', m', l'', rfl⟩
    · simp [fappend]
    · simp [fappend, addNode]

theorem structuralOnly_window (l : List Tok) (a b : Nat) (h : structuralOnly l = true) :
    structuralOnly ((l.drop a).take b) = true := by
  simp only [structuralOnly, List.all_eq_true] at h ⊢
  intro x hx
  exact h x (List.mem_of_mem_drop (List.mem_of_mem_take hx))

/-- a slice whose content is two nests carries no content token, whatever its open depths -/
theorem sliceToks'_nests {a b : Nat} {x y : List Node} (hx : IsNest a x) (hy : IsNest b y) (os oe : Nat) :
    structuralOnly (sliceToks' ⟨fappend x y, os, oe⟩) = true := by
  unfold sliceToks'
  apply structuralOnly_window
  rw [fappend_nest hx hy, ftoks_append, structuralOnly_append, hx.structural, hy.structural]; rfl

theorem nests_wf {a b : Nat} {x y : List Node} (hx : IsNest a x) (hy : IsNest b y) :
    (⟨fappend x y, a, b⟩ : Slice).wf = true := by
  rw [fappend_nest hx hy]
  simp only [Slice.wf, Bool.and_eq_true, decide_eq_true_eq]
  constructor
  · rcases hx.eq_nil_or with ⟨rfl, rfl⟩ | ⟨t, at_, m, l', rfl⟩
    · omega
    · have := hx.spineL
      simp only [List.cons_append, List.nil_append, spineL] at this ⊢
      omega
  · rcases hy.eq_nil_or with ⟨rfl, rfl⟩ | ⟨t, at_, m, l', rfl⟩
    · omega
    · rw [spineR_append_singleton, hy.spineR]; omega

theorem nests_size {a b : Nat} {x y : List Node} (hx : IsNest a x) (hy : IsNest b y) :
    (⟨fappend x y, a, b⟩ : Slice).size = (a : Int) + b := by
  rw [fappend_nest hx hy]
  simp only [Slice.size, fsize_append, hx.fsize, hy.fsize]
  omega

/-! ### the loops of the builders produce nests -/

theorem liftSide_nest (nodeAt : Nat → Node) (splitsAt : Nat → Bool) (target : Nat) :
    ∀ (n : Nat) (frag : List Node) (opened moved : Nat) (sp : Bool),
      (∀ d, target < d → d ≤ target + n → (nodeAt d).isLeaf = false) → IsNest opened frag →
      IsNest (liftSide nodeAt splitsAt target n frag opened moved sp).2.1
        (liftSide nodeAt splitsAt target n frag opened moved sp).1
  | 0, frag, opened, moved, sp, _, h => by simpa [liftSide] using h
  | n + 1, frag, opened, moved, sp, hel, h => by
    unfold liftSide
    simp only
    split
    · exact liftSide_nest nodeAt splitsAt target n _ _ _ _ (fun d h1 h2 => hel d h1 (by omega))
        (h.wrap _ (hel _ (by omega) (by omega)))
    · exact liftSide_nest nodeAt splitsAt target n _ _ _ _ (fun d h1 h2 => hel d h1 (by omega)) h

theorem nestOut_nest : ∀ (ns : List Node), (∀ n ∈ ns, n.isLeaf = false) → IsNest ns.length (nestOut ns)
  | [], _ => .nil
  | n :: rest, h => by
    simp only [nestOut, List.length_cons]
    exact (nestOut_nest rest (fun x hx => h x (List.mem_cons_of_mem _ hx))).wrap n (h n List.mem_cons_self)

theorem wrapContent_nest (S : Schema) : ∀ (ws : List (TypeId × Attrs)) (c : List Node),
    (∀ w ∈ ws, (S.nodeType w.1).isLeaf = false) → wrapContent S ws = .ok c → IsNest ws.length c
  | [], c, _, h => by
    simp only [wrapContent, Except.ok.injEq] at h; subst h; exact .nil
  | (ty, given) :: rest, c, hl, h => by
    simp only [wrapContent] at h
    cases hr : wrapContent S rest with
    | error e => simp [hr] at h
    | ok content =>
      have ih := wrapContent_nest S rest content (fun w hw => hl w (List.mem_cons_of_mem _ hw)) hr
      have hty : (S.nodeType ty).isLeaf = false := hl (ty, given) List.mem_cons_self
      simp only [hr, hty] at h
      split at h
      · simp at h
      · split at h
        · simp at h
        · split at h
          · simp at h
          · simp only [Bool.false_eq_true, if_false, Except.ok.injEq] at h
            subst h
            exact .cons _ _ _ ih

/-! ### the path nodes the builders copy are element nodes -/

theorem path_node_elem {doc : Node} {pos : Nat} {r : RPos} (h : doc.resolve pos = some r)
    (hdoc : doc.isLeaf = false) (j : Nat) (hj : j ≤ r.depth) : (r.node j).isLeaf = false := by
  cases j with
  | zero => rw [(resolve_resolved h).node_zero]; exact hdoc
  | succ k =>
    obtain ⟨t, a, m, kids, e⟩ := resolve_node_elem h k (by omega)
    rw [e]; rfl

theorem nodeI_elem {doc : Node} {pos : Nat} {r : RPos} (h : doc.resolve pos = some r)
    (hdoc : doc.isLeaf = false) (d : Int) (n : Node) (hn : r.nodeI d = some n) : n.isLeaf = false := by
  unfold RPos.nodeI at hn
  dsimp only at hn
  generalize (if d < 0 then (r.depth : Int) + d else d) = k at hn
  split at hn
  · simp only [Option.some.injEq] at hn; subst hn
    exact path_node_elem h hdoc _ (by omega)
  · split at hn
    · simp only [Option.some.injEq] at hn; subst hn
      exact path_node_elem h hdoc _ (by omega)
    · simp at hn

theorem splitNodesFrom_spec {doc : Node} {pos : Nat} {r : RPos} (h : doc.resolve pos = some r)
    (hdoc : doc.isLeaf = false) : ∀ (n : Nat) (d : Int) (ns : List Node), splitNodesFrom r d n = some ns →
      ns.length = n ∧ ∀ x ∈ ns, x.isLeaf = false
  | 0, d, ns, hs => by
    simp only [splitNodesFrom, Option.some.injEq] at hs; subst hs; simp
  | n + 1, d, ns, hs => by
    simp only [splitNodesFrom] at hs
    cases h1 : r.nodeI d with
    | none => simp [h1] at hs
    | some x =>
      cases h2 : splitNodesFrom r (d + 1) n with
      | none => simp [h1, h2] at hs
      | some xs =>
        simp only [h1, h2, Option.some.injEq] at hs
        subst hs
        obtain ⟨i1, i2⟩ := splitNodesFrom_spec h hdoc n (d + 1) xs h2
        refine ⟨by simp [i1], ?_⟩
        intro y hy
        rcases List.mem_cons.mp hy with rfl | hy
        · exact nodeI_elem h hdoc d _ h1
        · exact i2 y hy

/-! ### the positions of a node range -/

/-- the start of a node range lies at or before its `from`, its end at or after its `to` -/
theorem Resolved.before_le {doc : Node} {pos : Nat} {r : RPos} (R : Resolved doc pos r) (d s : Nat)
    (h : r.before (d + 1) = some s) : s ≤ pos := by
  unfold RPos.before at h
  simp only [Nat.add_eq_zero_iff, Nat.succ_ne_self, and_false, if_false, Nat.add_right_cancel_iff] at h
  split at h
  · simp only [Option.some.injEq] at h; rw [← h, R.pos_eq]; exact Nat.le_refl _
  · split at h
    · simp only [Nat.add_sub_cancel, Option.some.injEq] at h
      have := (R.entry d (by omega)).pos_le
      omega
    · simp at h

theorem Resolved.le_after {doc : Node} {pos : Nat} {r : RPos} (R : Resolved doc pos r) (d e : Nat)
    (h : r.after (d + 1) = some e) : pos ≤ e := by
  by_cases hd : d = r.depth
  · subst hd
    simp [RPos.after] at h
    rw [← h, R.pos_eq]; exact Nat.le_refl _
  · by_cases hle : d + 1 ≤ r.depth
    · rw [R.after_eq (d + 1) (by omega) hle] at h
      simp only [Option.some.injEq] at h
      have := (R.pos_in (d + 1) hle).2
      omega
    · simp [RPos.after, hd, hle] at h

end PM
