/-
  Proofs/DeadEndSpec.lean — "dead end" stated on the regular expression itself (`DeadEndSpec`: a prefix of the
  language that no sequence of generatable types completes), its equivalence with `check_for_dead_ends` on the
  compiled automaton, and the order of the refusals of `buildSchema` (which check speaks first).
-/
import Proofs.SchemaBuildLive
import Proofs.SpecParse
namespace PM
set_option linter.unusedSimpArgs false

/-- **a required position only non-generatable node types can fill**, on the expression: some sequence `w` of node
    types (generatable or not) is a prefix of the language — it can be extended to a match — yet no extension of
    `w` by generatable types alone is a match -/
def DeadEndSpec (r : RE) (gen : Nat → Bool) : Prop :=
  ∃ w, (∃ v, w ++ v ∈ r.lang) ∧ ¬ ∃ v, (∀ t, t ∈ v → gen t = true) ∧ w ++ v ∈ r.lang

/-- for any automaton that accepts the language of `r` and keeps exactly its prefixes alive:
    `check_for_dead_ends` finds a dead end iff the expression has one -/
theorem dfa_deadEnd_iff_spec (d : Dfa) (hd : d.WF) (hdet : ∀ q, ((d.edgesOf q).map (·.1)).Nodup)
    (gen : Nat → Bool) (r : RE) (hacc : ∀ w, d.accepts w = true ↔ w ∈ r.lang)
    (hlive : ∀ w, (d.run 0 w).isSome = true ↔ ∃ v, w ++ v ∈ r.lang) :
    d.hasDeadEnd gen = true ↔ DeadEndSpec r gen := by
  constructor
  · intro h
    by_contra hno
    have : d.hasDeadEnd gen = false := by
      apply SchemaBuild.complete_live d hd hdet gen
      intro w hw
      by_contra hc
      apply hno
      refine ⟨w, (hlive w).1 hw, ?_⟩
      rintro ⟨v, hv, hm⟩
      exact hc ⟨v, List.all_eq_true.2 hv, (hacc _).2 hm⟩
    rw [this] at h
    cases h
  · rintro ⟨w, hpre, hno⟩
    by_contra hc
    have hf : d.hasDeadEnd gen = false := by simpa using hc
    obtain ⟨v, hv, hm⟩ := SchemaBuild.live_complete d hd hdet gen hf w ((hlive w).2 hpre)
    exact hno ⟨v, fun t ht => List.all_eq_true.1 hv t ht, (hacc _).1 hm⟩

theorem deadEndSpec_congr {r r' : RE} (h : r.lang = r'.lang) (gen : Nat → Bool) :
    DeadEndSpec r gen ↔ DeadEndSpec r' gen := by
  unfold DeadEndSpec
  rw [h]

/-- the empty expression has no dead end -/
theorem not_deadEndSpec_eps (gen : Nat → Bool) : ¬ DeadEndSpec RE.eps gen := by
  rintro ⟨w, ⟨v, hv⟩, hno⟩
  rw [mem_lang_eps] at hv
  have hw : w = [] := (List.append_eq_nil_iff.1 hv).1
  subst hw
  exact hno ⟨[], by simp, (mem_lang_eps _).2 rfl⟩

/-- the compiled automaton, as built (`dfa (nfa e)`) -/
theorem compile_deadEnd_spec' (e : Expr) (h : e.wf = true) (gen : Nat → Bool) :
    (dfa (nfa e)).hasDeadEnd gen = true ↔ DeadEndSpec e.toRE gen :=
  dfa_deadEnd_iff_spec _ (compile_dfa_wf e h) (compile_det e h) gen _ (compile_accepts' e h) (compile_live' e h)

theorem bfs_det (e : Expr) (h : e.wf = true) (q : Nat) : (((dfa (nfa e)).bfs.edgesOf q).map (·.1)).Nodup := by
  rw [bfs_labels]
  cases (dfa (nfa e)).bfsOrder[q]? with
  | none => simp
  | some q0 => exact compile_det e h q0

/-- … and renumbered breadth-first, the form `ContentMatch.parse` checks -/
theorem compile_bfs_deadEnd_spec' (e : Expr) (h : e.wf = true) (gen : Nat → Bool) :
    (dfa (nfa e)).bfs.hasDeadEnd gen = true ↔ DeadEndSpec e.toRE gen := by
  have hD := compile_dfa_wf e h
  refine dfa_deadEnd_iff_spec _ (bfs_wf _ hD) (bfs_det e h) gen _ (fun w => ?_) (fun w => ?_)
  · rw [(bfs_accepts _ hD w).1]; exact compile_accepts' e h w
  · rw [(bfs_accepts _ hD w).2]; exact compile_live' e h w

namespace SchemaBuild
open PM.SchemaCompile PM.ParseC PM.SpecParse

/-! ### `ContentMatch.parse`: which refusal -/

/-- `ContentMatch.parse` refuses in two ways, in this order: the parser refuses (with its reason), or the parser
    accepts and the expression has a dead end -/
theorem contentMatch_error_iff (spec : Spec) (s : String) (err : BuildErr) :
    contentMatch spec s = .error err ↔
      (∃ ce, parseC (nameTable spec) s = .error ce ∧ err = .content ce) ∨
      (∃ oe, parseC (nameTable spec) s = .ok oe ∧ DeadEndSpec (contentRE oe) (specGen spec) ∧ err = .deadEnd) := by
  unfold contentMatch
  cases hp : parseC (nameTable spec) s with
  | error ce =>
    simp only [Except.error.injEq, reduceCtorEq, false_and, exists_false, or_false, exists_eq_left']
    exact eq_comm
  | ok oe =>
    cases oe with
    | none =>
      simp only [reduceCtorEq, false_and, exists_false, Except.ok.injEq, exists_eq_left', false_or, false_iff]
      exact fun h => not_deadEndSpec_eps _ h.1
    | some e =>
      have hwf := (by
        unfold parseC at hp
        simp only at hp
        split at hp
        · cases hp
        · split at hp
          · cases hp
          · rename_i r hpt
            simp only [Except.ok.injEq, Option.some.injEq] at hp
            subst hp
            obtain ⟨_, hok, _⟩ := parseToks_ok hpt
            exact hok.1 : e.wf = true)
      have key := compile_bfs_deadEnd_spec' e hwf (specGen spec)
      simp only [reduceCtorEq, false_and, exists_false, Except.ok.injEq, exists_eq_left', false_or]
      by_cases hd : (dfa (nfa e)).bfs.hasDeadEnd (specGen spec) = true
      · simp only [hd, if_true, Except.error.injEq]
        exact ⟨fun h => ⟨key.1 hd, h.symm⟩, fun h => h.2.symm⟩
      · simp only [hd, Bool.false_eq_true, if_false, reduceCtorEq, false_iff, not_and]
        intro h
        exact absurd (key.2 h) hd

/-- `ContentMatch.parse` raises the dead-end error exactly when the parser accepts the expression and, read as a
    regular expression, it has a dead end -/
theorem contentMatch_deadEnd_iff (spec : Spec) (s : String) :
    contentMatch spec s = .error .deadEnd ↔
      ∃ oe, parseC (nameTable spec) s = .ok oe ∧ DeadEndSpec (contentRE oe) (specGen spec) := by
  rw [contentMatch_error_iff]
  constructor
  · rintro (⟨ce, _, h⟩ | ⟨oe, h1, h2, _⟩)
    · cases h
    · exact ⟨oe, h1, h2⟩
  · rintro ⟨oe, h1, h2⟩
    exact Or.inr ⟨oe, h1, h2, rfl⟩

/-- … in terms of the specification reader (counts plain numbers) -/
theorem contentMatch_deadEnd_iff_spec (spec : Spec) (s : String) (hp : PlainNumbers s) :
    contentMatch spec s = .error .deadEnd ↔
      ∃ r, specParse (nameTable spec) s = .ok r ∧ DeadEndSpec r (specGen spec) := by
  rw [contentMatch_deadEnd_iff, specParse_eq _ _ hp]
  cases parseC (nameTable spec) s with
  | error ce => simp [codeReading]
  | ok oe => simp [codeReading]

/-- the verdict of `ContentMatch.parse` in terms of the specification reader (counts plain numbers): the reason
    `specParse` gives, else the dead end, else acceptance -/
theorem contentMatch_verdict_spec (spec : Spec) (s : String) (hp : PlainNumbers s) :
    (∀ perr, specParse (nameTable spec) s = .error perr ↔
      ∃ ce, contentMatch spec s = .error (.content ce) ∧ ce.toPErr = perr) ∧
    (∀ r, specParse (nameTable spec) s = .ok r →
      (contentMatch spec s = .error .deadEnd ↔ DeadEndSpec r (specGen spec)) ∧
      ((∃ d, contentMatch spec s = .ok d) ↔ ¬ DeadEndSpec r (specGen spec))) := by
  refine ⟨fun perr => ?_, fun r hr => ?_⟩
  · rw [specParse_eq _ _ hp]
    constructor
    · intro h
      cases hc : parseC (nameTable spec) s with
      | ok oe => rw [hc] at h; cases h
      | error ce =>
        rw [hc] at h
        simp only [codeReading, Except.error.injEq] at h
        exact ⟨ce, (contentMatch_error_iff _ _ _).2 (Or.inl ⟨ce, hc, rfl⟩), h⟩
    · rintro ⟨ce, hc, ht⟩
      rcases (contentMatch_error_iff _ _ _).1 hc with ⟨ce', h1, h2⟩ | ⟨_, _, _, h⟩
      · cases h2
        rw [h1]
        simp only [codeReading, ht]
      · cases h
  · have hd := contentMatch_deadEnd_iff_spec spec s hp
    have hd' : contentMatch spec s = .error .deadEnd ↔ DeadEndSpec r (specGen spec) := by
      rw [hd]
      constructor
      · rintro ⟨r', h1, h2⟩
        rw [hr] at h1
        cases h1
        exact h2
      · exact fun h => ⟨r, hr, h⟩
    refine ⟨hd', ?_⟩
    rw [← hd']
    constructor
    · rintro ⟨d, h⟩ h'
      rw [h] at h'
      cases h'
    · intro hne
      cases hc : contentMatch spec s with
      | ok d => exact ⟨d, rfl⟩
      | error err =>
        exfalso
        rcases (contentMatch_error_iff _ _ _).1 hc with ⟨ce, h1, _⟩ | ⟨_, _, _, h⟩
        · rw [specParse_eq _ _ hp, h1] at hr
          cases hr
        · subst h
          exact hne hc

end SchemaBuild
end PM
