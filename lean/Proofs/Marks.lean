/- Proofs/Marks.lean — helper lemmas for Props/C14.lean -/
import PM.Marks
namespace PM
end PM
