/- Proofs/Marks.lean — helper lemmas for Props/C14.lean -/
import PM.Marks
namespace PM

/-- rank order as a `Pairwise` predicate -/
abbrev RankSorted (l : Marks) : Prop := l.Pairwise (fun a b => a.ty ≤ b.ty)

/-! ### `insertByRank` -/

theorem mem_insertByRank (m x : Mark) (l : Marks) : x ∈ insertByRank m l ↔ x = m ∨ x ∈ l := by
  induction l with
  | nil => simp [insertByRank]
  | cons o rest ih =>
    simp only [insertByRank]
    split
    · simp
    · simp only [List.mem_cons, ih]
      constructor
      · rintro (h | h | h) <;> simp [h]
      · rintro (h | h | h) <;> simp [h]

theorem insertByRank_perm (m : Mark) (l : Marks) : (insertByRank m l).Perm (m :: l) := by
  induction l with
  | nil => simp [insertByRank]
  | cons o rest ih =>
    simp only [insertByRank]
    split
    · exact List.Perm.refl _
    · exact (ih.cons o).trans (List.Perm.swap m o rest)

theorem insertByRank_sorted (m : Mark) (l : Marks) (h : RankSorted l) :
    RankSorted (insertByRank m l) := by
  induction l with
  | nil => simp [insertByRank, RankSorted]
  | cons o rest ih =>
    have ⟨h1, h2⟩ := List.pairwise_cons.mp h
    simp only [insertByRank]
    split
    · rename_i hgt
      refine List.pairwise_cons.mpr ⟨?_, h⟩
      intro x hx
      rcases List.mem_cons.mp hx with rfl | hx
      · exact Nat.le_of_lt hgt
      · exact Nat.le_trans (Nat.le_of_lt hgt) (h1 x hx)
    · rename_i hle
      refine List.pairwise_cons.mpr ⟨?_, ih h2⟩
      intro x hx
      rcases (mem_insertByRank m x rest).mp hx with rfl | hx
      · exact Nat.le_of_not_gt hle
      · exact h1 x hx

theorem insertByRank_append_of_le (m : Mark) (l r : Marks) (h : ∀ o, o ∈ l → o.ty ≤ m.ty) :
    insertByRank m (l ++ r) = l ++ insertByRank m r := by
  induction l with
  | nil => rfl
  | cons o rest ih =>
    have ho := h o (by simp)
    have : ¬ o.ty > m.ty := Nat.not_lt.mpr ho
    simp only [List.cons_append, insertByRank, this, if_false]
    rw [ih (fun x hx => h x (by simp [hx]))]

theorem insertByRank_of_le (m : Mark) (l : Marks) (h : ∀ o, o ∈ l → o.ty ≤ m.ty) :
    insertByRank m l = l ++ [m] := by
  have := insertByRank_append_of_le m l [] h
  simpa [insertByRank] using this

theorem insertByRank_append_of_gt (m : Mark) (l r : Marks) (h : ∃ x, x ∈ l ∧ x.ty > m.ty) :
    insertByRank m (l ++ r) = insertByRank m l ++ r := by
  induction l with
  | nil => simp at h
  | cons o rest ih =>
    simp only [List.cons_append, insertByRank]
    split
    · rfl
    · rename_i hle
      obtain ⟨x, hx, hgt⟩ := h
      rcases List.mem_cons.mp hx with rfl | hx
      · exact absurd hgt hle
      · rw [ih ⟨x, hx, hgt⟩]; rfl

/-! ### the loop invariant of `addToSetAux` -/

/-- the marks of `pre` that `m` does not exclude -/
abbrev keptOf (S : Schema) (m : Mark) (l : Marks) : Marks :=
  l.filter (fun o => !S.excludes m.ty o.ty)

/-- state of the loop after the prefix `pre` has been consumed -/
def AddInv (S : Schema) (m : Mark) (pre : Marks) (copy : Option Marks) (placed : Bool) : Prop :=
  (placed = false ∧ (∀ o, o ∈ keptOf S m pre → o.ty ≤ m.ty) ∧
      ((copy = none ∧ keptOf S m pre = pre) ∨ copy = some (keptOf S m pre))) ∨
  (placed = true ∧ copy = some (insertByRank m (keptOf S m pre)) ∧
      ∃ x, x ∈ keptOf S m pre ∧ x.ty > m.ty)

theorem AddInv_init (S : Schema) (m : Mark) : AddInv S m [] none false := by
  simp [AddInv]

theorem AddInv_getD_false {S : Schema} {m : Mark} {pre : Marks} {copy : Option Marks}
    (h : AddInv S m pre copy false) : copy.getD pre = keptOf S m pre := by
  rcases h with ⟨_, _, (⟨rfl, hk⟩ | rfl)⟩ | ⟨h, _⟩
  · simp [hk]
  · simp
  · simp at h

theorem AddInv_drop {S : Schema} {m other : Mark} {pre : Marks} {copy : Option Marks} {placed : Bool}
    (h : AddInv S m pre copy placed) (hex : S.excludes m.ty other.ty = true) :
    AddInv S m (pre ++ [other]) (some (copy.getD pre)) placed := by
  have hk : keptOf S m (pre ++ [other]) = keptOf S m pre := by
    simp [keptOf, List.filter_append, hex]
  unfold AddInv
  rw [hk]
  rcases h with ⟨hp, hle, hc⟩ | ⟨hp, hc, hgt⟩
  · left
    refine ⟨hp, hle, Or.inr ?_⟩
    rcases hc with ⟨rfl, hk'⟩ | rfl
    · simp [hk']
    · simp
  · right
    subst hc
    exact ⟨hp, by simp, hgt⟩

theorem AddInv_place {S : Schema} {m other : Mark} {pre : Marks} {copy : Option Marks}
    (h : AddInv S m pre copy false) (hex : S.excludes m.ty other.ty = false)
    (hgt : other.ty > m.ty) :
    AddInv S m (pre ++ [other]) (some (copy.getD pre ++ [m] ++ [other])) true := by
  have hk : keptOf S m (pre ++ [other]) = keptOf S m pre ++ [other] := by
    simp [keptOf, List.filter_append, hex]
  have hg := AddInv_getD_false h
  unfold AddInv
  rw [hk, hg]
  right
  rcases h with ⟨_, hle, _⟩ | ⟨hp, _⟩
  · refine ⟨rfl, ?_, other, by simp, hgt⟩
    rw [insertByRank_append_of_le m _ _ hle]
    simp [insertByRank, hgt]
  · simp at hp

theorem AddInv_keep {S : Schema} {m other : Mark} {pre : Marks} {copy : Option Marks} {placed : Bool}
    (h : AddInv S m pre copy placed) (hex : S.excludes m.ty other.ty = false)
    (hc : placed = true ∨ other.ty ≤ m.ty) :
    AddInv S m (pre ++ [other]) (copy.map (· ++ [other])) placed := by
  have hk : keptOf S m (pre ++ [other]) = keptOf S m pre ++ [other] := by
    simp [keptOf, List.filter_append, hex]
  unfold AddInv
  rw [hk]
  rcases h with ⟨hp, hle, hcopy⟩ | ⟨hp, hcopy, hgt⟩
  · left
    subst hp
    have hle' : other.ty ≤ m.ty := by
      rcases hc with hc | hc
      · simp at hc
      · exact hc
    refine ⟨rfl, ?_, ?_⟩
    · intro o ho
      rcases List.mem_append.mp ho with ho | ho
      · exact hle o ho
      · simp at ho; subst ho; exact hle'
    · rcases hcopy with ⟨rfl, hk'⟩ | rfl
      · left; simp [hk']
      · right; simp
  · right
    subst hcopy
    refine ⟨hp, ?_, ?_⟩
    · rw [insertByRank_append_of_gt m _ _ hgt]; simp
    · obtain ⟨x, hx, hxgt⟩ := hgt
      exact ⟨x, List.mem_append_left _ hx, hxgt⟩

theorem AddInv_final {S : Schema} {m : Mark} {pre : Marks} {copy : Option Marks} {placed : Bool}
    (h : AddInv S m pre copy placed) :
    (if placed then copy.getD pre else copy.getD pre ++ [m]) = insertByRank m (keptOf S m pre) := by
  rcases h with ⟨hp, hle, hcopy⟩ | ⟨hp, hcopy, _⟩
  · subst hp
    rw [AddInv_getD_false (Or.inl ⟨rfl, hle, hcopy⟩), insertByRank_of_le m _ hle]
    simp
  · subst hp; subst hcopy; simp

/-- what the loop computes from any state satisfying the invariant -/
theorem addToSetAux_eq (S : Schema) (m : Mark) (set : Marks) :
    ∀ (rest pre : Marks) (copy : Option Marks) (placed : Bool),
      set = pre ++ rest → AddInv S m pre copy placed →
      addToSetAux S m set rest pre.length copy placed =
        if rest.any (fun o => o == m) ||
            rest.any (fun o => !S.excludes m.ty o.ty && S.excludes o.ty m.ty) then set
        else insertByRank m (keptOf S m set) := by
  intro rest
  induction rest with
  | nil =>
    intro pre copy placed hset hinv
    simp only [List.append_nil] at hset
    subst hset
    simp only [addToSetAux, List.any_nil, Bool.or_self, Bool.false_eq_true, if_false]
    exact AddInv_final hinv
  | cons other rest ih =>
    intro pre copy placed hset hinv
    have hset' : set = (pre ++ [other]) ++ rest := by simp [hset]
    have hlen : (pre ++ [other]).length = pre.length + 1 := by simp
    have htake : set.take pre.length = pre := by simp [hset]
    rw [addToSetAux]
    by_cases heq : m = other
    · subst heq; simp
    · have hne : (other == m) = false := by
        simp only [beq_eq_false_iff_ne, ne_eq]; exact fun h => heq h.symm
      simp only [heq, if_false]
      by_cases hex : S.excludes m.ty other.ty = true
      · simp only [hex, if_true, htake]
        rw [← hlen, ih _ _ _ hset' (AddInv_drop hinv hex)]
        simp [List.any_cons, hne, hex]
      · have hex' : S.excludes m.ty other.ty = false := by simpa using hex
        simp only [hex', Bool.false_eq_true, if_false]
        by_cases hblk : S.excludes other.ty m.ty = true
        · simp [hblk, hex']
        · have hblk' : S.excludes other.ty m.ty = false := by simpa using hblk
          simp only [hblk', Bool.false_eq_true, if_false, htake]
          have hrhs : ((other :: rest).any (fun o => o == m) ||
              (other :: rest).any (fun o => !S.excludes m.ty o.ty && S.excludes o.ty m.ty)) =
              (rest.any (fun o => o == m) ||
                rest.any (fun o => !S.excludes m.ty o.ty && S.excludes o.ty m.ty)) := by
            simp [List.any_cons, hne, hblk']
          rw [hrhs]
          cases placed with
          | true =>
            simp only [Bool.not_true, Bool.false_and, Bool.false_eq_true, if_false]
            rw [← hlen, ih _ _ _ hset' (AddInv_keep hinv hex' (Or.inl rfl))]
          | false =>
            by_cases hgt : other.ty > m.ty
            · simp only [Bool.not_false, Bool.true_and, decide_eq_true_eq, hgt, if_true]
              rw [← hlen, ih _ _ _ hset' (AddInv_place hinv hex' hgt)]
            · simp only [Bool.not_false, Bool.true_and, decide_eq_true_eq, hgt, if_false]
              rw [← hlen, ih _ _ _ hset' (AddInv_keep hinv hex' (Or.inr (Nat.le_of_not_gt hgt)))]

theorem addToSet_eq (S : Schema) (m : Mark) (set : Marks) :
    m.addToSet S set =
      if set.any (fun o => o == m) ||
          set.any (fun o => !S.excludes m.ty o.ty && S.excludes o.ty m.ty) then set
      else insertByRank m (set.filter (fun o => !S.excludes m.ty o.ty)) :=
  addToSetAux_eq S m set set [] none false rfl (AddInv_init S m)

/-! ### `setFrom` -/

theorem setFrom_sorted' (l : Marks) : RankSorted (setFrom l) := by
  unfold setFrom
  suffices h : ∀ acc : Marks, RankSorted acc →
      RankSorted (l.foldl (fun acc m => insertByRank m acc) acc) from h [] List.Pairwise.nil
  induction l with
  | nil => intro acc h; exact h
  | cons m rest ih => intro acc h; exact ih _ (insertByRank_sorted m acc h)

theorem setFrom_perm' (l : Marks) : (setFrom l).Perm l := by
  unfold setFrom
  suffices h : ∀ acc : Marks,
      (l.foldl (fun acc m => insertByRank m acc) acc).Perm (acc ++ l) by simpa using h []
  induction l with
  | nil => intro acc; simp
  | cons m rest ih =>
    intro acc
    refine (ih _).trans ?_
    refine ((insertByRank_perm m acc).append_right rest).trans ?_
    simpa using (List.perm_middle (a := m) (l₁ := acc) (l₂ := rest)).symm

/-! ### canonical form, `Pairwise` version (bridged to `C14.Canon` in Props/C14.lean) -/

def ExclFree (S : Schema) (l : Marks) : Prop :=
  ∀ a, a ∈ l → ∀ b, b ∈ l → a ≠ b → S.excludes a.ty b.ty = false

structure CanonP (S : Schema) (l : Marks) : Prop where
  sorted : RankSorted l
  nodup : l.Nodup
  exclFree : ExclFree S l

theorem CanonP.nil (S : Schema) : CanonP S [] :=
  ⟨List.Pairwise.nil, List.nodup_nil, fun _ h => by simp at h⟩

theorem CanonP.sublist {S : Schema} {l l' : Marks} (h : CanonP S l) (hs : l'.Sublist l) :
    CanonP S l' :=
  ⟨h.sorted.sublist hs, h.nodup.sublist hs,
    fun a ha b hb hab => h.exclFree a (hs.subset ha) b (hs.subset hb) hab⟩

theorem insertByRank_nodup (m : Mark) (l : Marks) (hm : m ∉ l) (h : l.Nodup) :
    (insertByRank m l).Nodup :=
  (insertByRank_perm m l).nodup_iff.mpr (List.nodup_cons.mpr ⟨hm, h⟩)

theorem addToSet_canonP (S : Schema) (m : Mark) (set : Marks) (h : CanonP S set) :
    CanonP S (m.addToSet S set) := by
  rw [addToSet_eq]
  split
  · exact h
  · rename_i hc
    simp only [Bool.or_eq_true, List.any_eq_true, beq_iff_eq, Bool.and_eq_true,
      Bool.not_eq_eq_eq_not, Bool.not_true, not_or, not_exists, not_and] at hc
    obtain ⟨hne, hblk⟩ := hc
    have hsub : (keptOf S m set).Sublist set := List.filter_sublist
    have hk := h.sublist hsub
    have hm : m ∉ keptOf S m set := fun hm => hne m (hsub.subset hm) rfl
    refine ⟨insertByRank_sorted m _ hk.sorted, insertByRank_nodup m _ hm hk.nodup, ?_⟩
    intro a ha b hb hab
    rcases (mem_insertByRank m a _).mp ha with rfl | ha
    · rcases (mem_insertByRank a b _).mp hb with rfl | hb
      · exact absurd rfl hab
      · simpa using (List.mem_filter.mp hb).2
    · rcases (mem_insertByRank m b _).mp hb with rfl | hb
      · have ha' := List.mem_filter.mp ha
        have h1 : S.excludes b.ty a.ty = false := by simpa using ha'.2
        cases h2 : S.excludes a.ty b.ty with
        | false => rfl
        | true => exact absurd h2 (hblk a ha'.1 h1)
      · exact hk.exclFree a ha b hb hab

theorem removeFromSet_canonP (S : Schema) (m : Mark) (set : Marks) (h : CanonP S set) :
    CanonP S (m.removeFromSet set) :=
  h.sublist List.filter_sublist

theorem addToSet_snoc (S : Schema) (pre : Marks) (x : Mark) (h : CanonP S (pre ++ [x])) :
    x.addToSet S pre = pre ++ [x] := by
  have hnd := List.nodup_append.mp h.nodup
  have hx : ∀ o, o ∈ pre → o ≠ x := fun o ho => hnd.2.2 o ho x (by simp)
  have hle : ∀ o, o ∈ pre → o.ty ≤ x.ty := fun o ho =>
    (List.pairwise_append.mp h.sorted).2.2 o ho x (by simp)
  have hox : ∀ o, o ∈ pre → S.excludes o.ty x.ty = false := fun o ho =>
    h.exclFree o (by simp [ho]) x (by simp) (hx o ho)
  have hxo : ∀ o, o ∈ pre → S.excludes x.ty o.ty = false := fun o ho =>
    h.exclFree x (by simp) o (by simp [ho]) (fun e => hx o ho e.symm)
  rw [addToSet_eq]
  have hc : (pre.any (fun o => o == x) ||
      pre.any (fun o => !S.excludes x.ty o.ty && S.excludes o.ty x.ty)) = false := by
    simp only [Bool.or_eq_false_iff, List.any_eq_false, beq_iff_eq, Bool.and_eq_true,
      Bool.not_eq_eq_eq_not, Bool.not_true, not_and, Bool.not_eq_true]
    exact ⟨hx, fun o ho _ => hox o ho⟩
  rw [hc]
  simp only [Bool.false_eq_true, if_false]
  have hf : pre.filter (fun o => !S.excludes x.ty o.ty) = pre :=
    List.filter_eq_self.mpr (fun o ho => by simp [hxo o ho])
  rw [hf, insertByRank_of_le x pre hle]

theorem foldl_add_of_canonP (S : Schema) :
    ∀ (l pre : Marks), CanonP S (pre ++ l) →
      l.foldl (fun acc m => m.addToSet S acc) pre = pre ++ l := by
  intro l
  induction l with
  | nil => intro pre _; simp
  | cons x rest ih =>
    intro pre h
    have h1 : CanonP S (pre ++ [x]) :=
      h.sublist (List.Sublist.append_left (by simp) pre)
    simp only [List.foldl_cons]
    rw [addToSet_snoc S pre x h1, ih (pre ++ [x]) (by simpa using h)]
    simp

theorem foldl_add_canonP (S : Schema) :
    ∀ (l acc : Marks), CanonP S acc → CanonP S (l.foldl (fun acc m => m.addToSet S acc) acc) := by
  intro l
  induction l with
  | nil => intro acc h; exact h
  | cons x rest ih => intro acc h; exact ih _ (addToSet_canonP S x acc h)

theorem canonicalMarks_iff_canonP (S : Schema) (set : Marks) :
    canonicalMarks S set = true ↔ CanonP S set := by
  unfold canonicalMarks
  constructor
  · intro h
    have he : set.foldl (fun acc m => m.addToSet S acc) [] = set := by simpa using h
    have := foldl_add_canonP S set [] (CanonP.nil S)
    rwa [he] at this
  · intro h
    have := foldl_add_of_canonP S set [] (by simpa using h)
    simp [this]

theorem addToSet_idem (S : Schema) (m : Mark) (s : Marks) :
    m.addToSet S (m.addToSet S s) = m.addToSet S s := by
  rw [addToSet_eq S m s]
  split
  · rename_i hc
    rw [addToSet_eq, if_pos hc]
  · rw [addToSet_eq, if_pos]
    rw [Bool.or_eq_true]
    left
    rw [List.any_eq_true]
    exact ⟨m, (mem_insertByRank m m _).mpr (.inl rfl), by simp⟩

theorem isInSet_iff (x : Mark) (s : Marks) : x.isInSet s = true ↔ x ∈ s := by
  simp only [Mark.isInSet, List.any_eq_true, beq_iff_eq]
  exact ⟨fun ⟨y, hy, e⟩ => e ▸ hy, fun h => ⟨x, h, rfl⟩⟩

end PM
