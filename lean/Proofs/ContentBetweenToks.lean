/-
  Proofs/ContentBetweenToks.lean — `content_between` (the guard of the structure flag of replace and
  replace-around steps) read off the tokens, exactly: in a normal-form document the answer for
  `from ≤ to ≤ size` is "no content" iff the tokens of the range are close tokens followed by open
  tokens.  Hence the answer is the same in two documents that show the same tokens in the range
  (`contentBetween_congr`): what `commute_succeeds_around_*` (Props/C17.lean) needs for the structure
  checks of a rebased replace-around step.  One direction, for any structural range, is
  `contentBetween_structural'` (Proofs/Respects.lean); the loop invariants are built on its lemmas.
-/
import Proofs.Respects
import Proofs.ContentBetween
namespace PM

def Tok.isCl : Tok → Bool
  | .cl => true
  | _ => false

-- `Tok.isOp` is defined in Proofs/ContentBetween.lean (imported; the two files are used together since Props/C01 needs
-- Proofs/InsertAtValid.lean)

/-- close tokens, then open tokens, nothing else -/
def closesThenOpens (l : List Tok) : Bool := (l.dropWhile Tok.isCl).all Tok.isOp

example : closesThenOpens [.cl, .cl, .op 1 [] [], .op 2 [] []] = true ∧
    closesThenOpens [.op 1 [] [], .cl] = false ∧ closesThenOpens [.cl, .unit 97 []] = false := by decide

theorem dropWhile_append_all {α} (p : α → Bool) (A B : List α) (h : A.all p = true) :
    (A ++ B).dropWhile p = B.dropWhile p := by
  induction A with
  | nil => rfl
  | cons a A ih =>
    simp only [List.all_cons, Bool.and_eq_true] at h
    simp [h.1, ih h.2]

theorem closesThenOpens_split (A B : List Tok) (hA : A.all Tok.isCl = true)
    (hB : ∀ x, B.head? = some x → x.isCl = false) :
    closesThenOpens (A ++ B) = B.all Tok.isOp := by
  unfold closesThenOpens
  rw [dropWhile_append_all _ _ _ hA]
  cases B with
  | nil => rfl
  | cons b B =>
    have := hB b rfl
    simp [this]

/-! ### normal form along a resolved path -/

theorem norm_of_getElem? {l : List Node} (h : fnormKids l = true) {i : Nat} {c : Node}
    (hc : l[i]? = some c) : c.norm = true :=
  (fnormKids_iff l).1 h c (List.mem_of_getElem? hc)

theorem path_norm {doc : Node} {pos : Nat} {r : RPos} (hr : doc.resolve pos = some r)
    (hn : fnorm doc.kids = true) : ∀ k, k ≤ r.depth → fnormKids (r.node k).kids = true
  | 0, _ => by
    rw [(resolve_resolved hr).node_zero]; exact fnormKids_of_fnorm hn
  | k + 1, hk => by
    have R := resolve_resolved hr
    have ih := path_norm hr hn k (by omega)
    have hc := (R.chain k (by omega)).1
    have hnorm := norm_of_getElem? ih hc
    obtain ⟨ty, a, m, kids, he⟩ := resolve_node_elem hr k (by omega)
    rw [he] at hnorm ⊢
    simp only [Node.norm, Bool.and_eq_true] at hnorm
    exact hnorm.1

/-- the first token of a normal-form node is not a close token -/
theorem head_toks_not_cl (n : Node) (hn : n.norm = true) (Y : List Tok) :
    ∃ x rest, n.toks ++ Y = x :: rest ∧ x.isCl = false := by
  cases n with
  | text s m =>
    cases s with
    | nil => simp [Node.norm] at hn
    | cons c s => exact ⟨Tok.unit c m, s.map (Tok.unit · m) ++ Y, by simp [Node.toks], rfl⟩
  | leaf ty a m => exact ⟨Tok.leaf ty a m, Y, by simp [Node.toks], rfl⟩
  | elem ty a m kids => exact ⟨Tok.op ty a m, ftoks kids ++ [Tok.cl] ++ Y, by simp [Node.toks], rfl⟩

/-! ### `descend`, exactly -/

theorem descend_eq : ∀ (dist : Nat) (next : Option Node) (X : List Tok),
    (∀ n, next = some n → n.norm = true ∧ ∃ Y, X = n.toks ++ Y) →
    (next = none → ∃ Y, X = Tok.cl :: Y) →
    contentBetween.descend dist next = !((X.take dist).all Tok.isOp)
  | 0, _, X, _, _ => by simp [contentBetween.descend]
  | dist + 1, none, X, _, hx => by
    obtain ⟨Y, rfl⟩ := hx rfl
    simp [contentBetween.descend, Tok.isOp]
  | dist + 1, some n, X, hx, _ => by
    obtain ⟨hnn, Y, rfl⟩ := hx n rfl
    cases n with
    | text s m =>
      cases s with
      | nil => simp [Node.norm] at hnn
      | cons c s => simp [contentBetween.descend, Node.isLeaf, Node.toks, Tok.isOp]
    | leaf ty a m => simp [contentBetween.descend, Node.isLeaf, Node.toks, Tok.isOp]
    | elem ty a m kids =>
      simp only [contentBetween.descend, Node.isLeaf, Bool.false_eq_true, if_false, Node.kids]
      simp only [Node.norm, Bool.and_eq_true] at hnn
      have ih := descend_eq dist kids.head? (ftoks kids ++ [Tok.cl] ++ Y)
        (by
          intro c hc
          cases kids with
          | nil => simp at hc
          | cons c' cs =>
            simp only [List.head?_cons, Option.some.injEq] at hc; subst hc
            simp only [fnormKids_cons, Bool.and_eq_true] at hnn
            exact ⟨hnn.1.1, ftoks cs ++ [Tok.cl] ++ Y, by simp [ftoks]⟩)
        (by
          intro hnone
          cases kids with
          | nil => exact ⟨Y, by simp [ftoks]⟩
          | cons c' cs => simp at hnone)
      rw [ih]
      simp [Node.toks, Tok.isOp]

/-! ### `climb`, exactly -/

/-- the loop invariant of `climb`, with the tokens read so far known to be close tokens -/
structure ClimbInv2 (doc : Node) (f t : Nat) (r : RPos) (depth dist : Nat) : Prop where
  base : ClimbInv doc f t r depth dist
  allCl : (((ftoks doc.kids).drop f).take (t - dist - f)).all Tok.isCl = true

theorem climbInv2_step (doc : Node) (f t : Nat) (r : RPos) (hr : doc.resolve f = some r)
    (depth dist : Nat) (I : ClimbInv2 doc f t r depth dist) (hdist : 0 < dist) (hdep : 0 < depth)
    (hend : r.indexAfter depth = (r.node depth).kids.length) :
    ClimbInv2 doc f t r (depth - 1) (dist - 1) := by
  refine ⟨climbInv_step doc f t r hr depth dist I.base hdist hdep hend, ?_⟩
  have R := resolve_resolved hr
  obtain ⟨k, rfl⟩ : ∃ k, depth = k + 1 := ⟨depth - 1, by omega⟩
  have hk : k < r.depth := I.base.hd
  obtain ⟨ty, a, m, kids, hn⟩ := resolve_node_elem hr k hk
  have hw := R.window_node k hk
  have hat := I.base.at_
  rw [hend, List.take_length, Resolved.start_succ, hn] at hat
  simp only [Node.kids] at hat
  rw [hn] at hw
  have hcl : (ftoks doc.kids)[t - dist]? = some Tok.cl := by
    have := getElem?_of_window _ _ _ _ hw (1 + fsize kids) (by simp [Node.toks, ftoks_length]; omega)
    rw [show (r.entry k).pos + (1 + fsize kids) = t - dist by omega] at this
    rw [this, ← ftoks_length, Nat.add_comm]
    simp only [Node.toks, List.getElem?_cons_succ]
    rw [List.getElem?_append_right (Nat.le_refl _)]
    simp
  have hle := I.base.le
  have e : t - (dist - 1) - f = (t - dist - f) + 1 := by omega
  rw [e, List.take_add_one, List.getElem?_drop, show f + (t - dist - f) = t - dist by omega, hcl,
    List.all_append, I.allCl]
  rfl

/-- `climb` stops only when the distance is used up, at the root, or before a child -/
theorem climb_spec (doc : Node) (f t : Nat) (r : RPos) (hr : doc.resolve f = some r) :
    ∀ (fuel depth dist : Nat), depth < fuel → ClimbInv2 doc f t r depth dist →
      ClimbInv2 doc f t r (contentBetween.climb r fuel depth dist).1 (contentBetween.climb r fuel depth dist).2 ∧
      ¬ (0 < (contentBetween.climb r fuel depth dist).2 ∧ 0 < (contentBetween.climb r fuel depth dist).1 ∧
        r.indexAfter (contentBetween.climb r fuel depth dist).1 =
          (r.node (contentBetween.climb r fuel depth dist).1).kids.length)
  | 0, depth, dist, hf, _ => by omega
  | fuel + 1, depth, dist, hf, I => by
    unfold contentBetween.climb
    split
    · rename_i hc
      simp only [Bool.and_eq_true, decide_eq_true_eq, beq_iff_eq, gt_iff_lt] at hc
      exact climb_spec doc f t r hr fuel _ _ (by omega)
        (climbInv2_step doc f t r hr depth dist I hc.1.1 hc.1.2 hc.2)
    · rename_i hc
      simp only [Bool.and_eq_true, decide_eq_true_eq, beq_iff_eq, gt_iff_lt] at hc
      exact ⟨I, fun h => hc ⟨⟨h.1, h.2.1⟩, h.2.2⟩⟩

theorem indexAfter_le {doc : Node} {f : Nat} {r : RPos} (hr : doc.resolve f = some r)
    (h0 : r.textOffset = 0) (k : Nat) (hk : k ≤ r.depth) :
    r.indexAfter k ≤ (r.node k).kids.length := by
  have R := resolve_resolved hr
  by_cases hd : k = r.depth
  · subst hd
    have := (R.entry r.depth (Nat.le_refl _)).idx_le
    simp [RPos.indexAfter, h0, RPos.index, RPos.node]
    exact this
  · have hc := (R.chain k (by omega)).1
    have hlt : r.index k < (r.node k).kids.length := by
      rcases Nat.lt_or_ge (r.index k) (r.node k).kids.length with h | h
      · exact h
      · rw [List.getElem?_eq_none h] at hc; simp at hc
    simp [RPos.indexAfter, hd]
    omega

/-! ### the characterization -/

/-- **`content_between` on tokens**: in a normal-form document, for `f ≤ t ≤ size`, the answer is
    "content" unless the tokens `[f, t)` are close tokens followed by open tokens -/
theorem contentBetween_eq (doc : Node) (f t : Nat) (hn : fnorm doc.kids = true) (hft : f ≤ t)
    (ht : t ≤ fsize doc.kids) :
    contentBetween doc f t =
      some (!closesThenOpens (((ftoks doc.kids).drop f).take (t - f))) := by
  obtain ⟨r, hr⟩ := resolve_isSome doc f (by omega)
  have R := resolve_resolved hr
  by_cases hemp : t - f = 0
  · -- empty range
    unfold contentBetween
    rw [hr, hemp]
    simp [contentBetween.climb, closesThenOpens]
  unfold contentBetween
  rw [hr]
  simp only
  by_cases hb : r.textOffset = 0
  · have hcond : (decide (t - f > 0) && r.textOffset != 0) = false := by simp [hb]
    rw [hcond]
    simp only [Bool.false_eq_true, if_false]
    have I0 : ClimbInv2 doc f t r r.depth (t - f) :=
      ⟨climbInv_init doc f t r hft R hb, by
        have : t - (t - f) - f = 0 := by omega
        rw [this]; simp⟩
    obtain ⟨I, hstop⟩ := climb_spec doc f t r hr (r.depth + 1) r.depth (t - f) (by omega) I0
    generalize hc : contentBetween.climb r (r.depth + 1) r.depth (t - f) = cd at I hstop
    obtain ⟨d', dist'⟩ := cd
    simp only at I hstop ⊢
    have hle := I.base.le
    -- split the range into the close tokens read by `climb` and the rest
    have hsplit : ((ftoks doc.kids).drop f).take (t - f) =
        ((ftoks doc.kids).drop f).take (t - dist' - f) ++ ((ftoks doc.kids).drop (t - dist')).take dist' := by
      rw [take_split _ (t - dist' - f) (t - f) (by omega), List.drop_drop,
        show f + (t - dist' - f) = t - dist' by omega, show t - f - (t - dist' - f) = dist' by omega]
    by_cases hd0 : dist' > 0
    · rw [if_pos hd0]
      congr 1
      -- the token at the stopping position is not a close token
      have hnk := path_norm hr hn d' I.base.hd
      have hidx := indexAfter_le hr hb d' I.base.hd
      have hat := I.base.at_
      have hnext : ∃ n, (r.node d').kids[r.indexAfter d']? = some n := by
        rcases Nat.lt_or_ge (r.indexAfter d') (r.node d').kids.length with h | h
        · exact ⟨_, List.getElem?_eq_getElem h⟩
        · exfalso
          have heq : r.indexAfter d' = (r.node d').kids.length := by omega
          by_cases hz : d' = 0
          · subst hz
            rw [heq, List.take_length, R.node_zero] at hat
            simp [RPos.start] at hat
            omega
          · exact hstop ⟨hd0, by omega, heq⟩
      obtain ⟨n, hnx⟩ := hnext
      have hw := window_child _ _ _ _ _ (R.window_kids d' I.base.hd) hnx
      rw [← hat] at hw
      have hX : (ftoks doc.kids).drop (t - dist') = n.toks ++ ((ftoks doc.kids).drop (t - dist')).drop n.size := by
        rw [← hw, List.take_append_drop]
      have hnn := norm_of_getElem? hnk hnx
      rw [hnx, descend_eq dist' (some n) ((ftoks doc.kids).drop (t - dist'))
        (by intro n' hn'; cases hn'; exact ⟨hnn, _, hX⟩) (by simp)]
      rw [hsplit, closesThenOpens_split _ _ I.allCl]
      intro x hx
      obtain ⟨y, rest, hy, hyc⟩ := head_toks_not_cl n hnn (((ftoks doc.kids).drop (t - dist')).drop n.size)
      rw [← hX] at hy
      rw [hy] at hx
      have : dist' = (dist' - 1) + 1 := by omega
      rw [this, List.take_succ_cons] at hx
      simp only [List.head?_cons, Option.some.injEq] at hx
      rw [← hx]; exact hyc
    · have hz : dist' = 0 := by omega
      subst hz
      rw [if_neg (by omega)]
      congr 1
      rw [hsplit]
      simp only [List.take_zero, List.append_nil]
      unfold closesThenOpens
      have := I.allCl
      simp only [Nat.sub_zero] at this ⊢
      have hall := dropWhile_append_all Tok.isCl _ [] this
      rw [List.append_nil] at hall
      rw [hall]; rfl
  · -- the range starts inside a text node: its next token is a text unit
    have hcond : (decide (t - f > 0) && r.textOffset != 0) = true := by
      simp [hb]; omega
    rw [hcond]
    simp only [if_true]
    congr 1
    have hlast := R.last
    have hpe := (R.entry r.depth (Nat.le_refl _))
    rcases hlast with hl | ⟨s, m, hs, hlt⟩
    · exfalso; apply hb; unfold RPos.textOffset; rw [R.pos_eq, hl]; omega
    · have hw := window_child _ _ _ _ _ (R.window_kids r.depth (Nat.le_refl _)) hs
      have hpos : r.start r.depth + fsize ((r.node r.depth).kids.take (r.entry r.depth).index) =
          (r.entry r.depth).pos := hpe.pos_eq.symm
      have hw' : ((ftoks doc.kids).drop (r.entry r.depth).pos).take (Node.text s m).size = (Node.text s m).toks := by
        rw [← hpos]; exact hw
      have hle := hpe.pos_le
      have hget := getElem?_of_window _ _ _ _ hw' (f - (r.entry r.depth).pos)
        (by simp [Node.toks]; exact hlt)
      rw [show (r.entry r.depth).pos + (f - (r.entry r.depth).pos) = f by omega] at hget
      simp only [Node.toks, List.getElem?_map] at hget
      have hsome : ∃ c, s[f - (r.entry r.depth).pos]? = some c :=
        ⟨_, List.getElem?_eq_getElem hlt⟩
      obtain ⟨c, hc⟩ := hsome
      rw [hc] at hget
      simp only [Option.map_some] at hget
      have hne : t - f = (t - f - 1) + 1 := by omega
      have hdrop : (ftoks doc.kids).drop f = Tok.unit c m :: (ftoks doc.kids).drop (f + 1) := by
        rw [List.drop_eq_getElem?_toList_append, hget]; rfl
      rw [hdrop, hne, List.take_succ_cons]
      simp [closesThenOpens, Tok.isCl, Tok.isOp]

/-- **the same tokens in the range give the same answer** -/
theorem contentBetween_congr (d d' : Node) (f t f' : Nat) (hn : fnorm d.kids = true)
    (hn' : fnorm d'.kids = true) (hft : f ≤ t) (ht : t ≤ fsize d.kids)
    (ht' : f' + (t - f) ≤ fsize d'.kids)
    (hwin : ((ftoks d'.kids).drop f').take (t - f) = ((ftoks d.kids).drop f).take (t - f)) :
    contentBetween d' f' (f' + (t - f)) = contentBetween d f t := by
  rw [contentBetween_eq d f t hn hft ht, contentBetween_eq d' f' _ hn' (by omega) ht',
    show f' + (t - f) - f' = t - f by omega, hwin]

end PM
