/-
  Proofs/UndoRel.lean — the two relations between the document after a replace step (`L'`) and the
  document before it (`O`) on which the success proof of the inverse step rests (C04):

  * `LeftRel L' O p`: left of offset `p` the two child lists look the same — the same ancestors
    (with the same markup) and the same complete children / text prefix before `p`.  It follows
    from equality of the first `p` tokens (`leftRel_of_toks`).
  * `RightRel S L' t' L t`: right of `t'` resp. `t` the two child lists look the same — `splitRight`
    gives the same remainder at every level — and the types of the ancestors of `t'` in `L'` are
    join-compatible with those of `t` in `L`, level by level.
-/
import Proofs.Reinsert
import Proofs.UndoReplace
import Proofs.StepValid
import Proofs.Valid
namespace PM

theorem compat_symm (S : Schema) (a b : TypeId) :
    S.compatibleContent a b = S.compatibleContent b a := by
  unfold Schema.compatibleContent
  rw [Dfa.compatible_symm (S.dfa a) (S.dfa b)]
  congr 1
  exact Bool.eq_iff_iff.mpr (by simp only [beq_iff_eq]; exact eq_comm)

/-! ### `RightRel` -/

inductive RightRel (S : Schema) : List Node → Nat → List Node → Nat → Prop
  | flat {L' : List Node} {t' : Nat} {L : List Node} {t : Nat} {r : List Node} :
      splitRight L' t' = some (.flat r) → splitRight L t = some (.flat r) → RightRel S L' t' L t
  | deep {L' : List Node} {t' : Nat} {L : List Node} {t : Nat} {ty' : TypeId} {a' : Attrs}
      {m' : Marks} {k' : List Node} {i' : Nat} {ty : TypeId} {a : Attrs} {m : Marks}
      {k : List Node} {i : Nat} {r : List Node} :
      splitRight L' t' = some (.deep (.elem ty' a' m' k') i' r) →
      splitRight L t = some (.deep (.elem ty a m k) i r) →
      S.compatibleContent ty' ty = true → RightRel S k' i' k i → RightRel S L' t' L t

theorem RightRel.congr_right {S : Schema} {L' : List Node} {t' : Nat} {L : List Node} {t : Nat}
    {L2 : List Node} {t2 : Nat} (h : RightRel S L' t' L t) (e : splitRight L t = splitRight L2 t2) :
    RightRel S L' t' L2 t2 := by
  cases h with
  | flat h1 h2 => exact .flat h1 (e ▸ h2)
  | deep h1 h2 h3 h4 => exact .deep h1 (e ▸ h2) h3 h4

theorem RightRel.congr_left {S : Schema} {L' : List Node} {t' : Nat} {L : List Node} {t : Nat}
    {L2 : List Node} {t2 : Nat} (h : RightRel S L' t' L t) (e : splitRight L' t' = splitRight L2 t2) :
    RightRel S L2 t2 L t := by
  cases h with
  | flat h1 h2 => exact .flat (e ▸ h1) h2
  | deep h1 h2 h3 h4 => exact .deep (e ▸ h1) h2 h3 h4

/-- the original side is flat: so is the new side, with the same remainder -/
theorem RightRel.flat_inv {S : Schema} {L' : List Node} {t' : Nat} {L : List Node} {t : Nat}
    {r : List Node} (h : RightRel S L' t' L t) (hs : splitRight L t = some (.flat r)) :
    splitRight L' t' = some (.flat r) := by
  cases h with
  | flat h1 h2 => rw [hs] at h2; simp at h2; subst h2; exact h1
  | deep h1 h2 h3 h4 => rw [hs] at h2; simp at h2

/-- the original side is deep: so is the new side, same remainder, compatible type -/
theorem RightRel.deep_inv {S : Schema} {L' : List Node} {t' : Nat} {L : List Node} {t : Nat}
    {ty : TypeId} {a : Attrs} {m : Marks} {k : List Node} {i : Nat} {r : List Node}
    (h : RightRel S L' t' L t) (hs : splitRight L t = some (.deep (.elem ty a m k) i r)) :
    ∃ ty' a' m' k' i', splitRight L' t' = some (.deep (.elem ty' a' m' k') i' r) ∧
      S.compatibleContent ty' ty = true ∧ RightRel S k' i' k i := by
  cases h with
  | flat h1 h2 => rw [hs] at h2; simp at h2
  | deep h1 h2 h3 h4 =>
    rw [hs] at h2
    simp at h2
    obtain ⟨⟨rfl, rfl, rfl, rfl⟩, rfl, rfl⟩ := h2
    exact ⟨_, _, _, _, _, h1, h3, h4⟩

theorem RightRel.toks {S : Schema} {L' : List Node} {t' : Nat} {L : List Node} {t : Nat}
    (h : RightRel S L' t' L t) : (ftoks L').drop t' = (ftoks L).drop t := by
  induction h with
  | flat h1 h2 => rw [← splitRight_flat_toks h1, ← splitRight_flat_toks h2]
  | deep h1 h2 _ _ ih => rw [← splitRight_deep_toks h1, ← splitRight_deep_toks h2, ih]

theorem RightRel.depth {S : Schema} {L' : List Node} {t' : Nat} {L : List Node} {t : Nat}
    (h : RightRel S L' t' L t) : depthAt L' t' = depthAt L t := by
  induction h with
  | flat h1 h2 => rw [splitRight_flat_depth _ _ _ h1, splitRight_flat_depth _ _ _ h2]
  | deep h1 h2 _ _ ih =>
    obtain ⟨_, _, _, _, e1, d1, _, _⟩ := splitRight_deep_facts _ _ _ _ _ h1
    obtain ⟨_, _, _, _, e2, d2, _, _⟩ := splitRight_deep_facts _ _ _ _ _ h2
    cases e1; cases e2
    rw [d1, d2, ih]

/-- a position of a list against the same position of the same list -/
theorem RightRel.refl (S : Schema) : ∀ (L : List Node) (t : Nat), t ≤ fsize L →
    alignedAt L t = true → RightRel S L t L t
  | [], t, ht, _ => by
    have : t = 0 := by simpa using ht
    subst this
    exact .flat (splitRight_zero _) (splitRight_zero _)
  | n :: ns, t, ht, ha => by
    by_cases h0 : t = 0
    · subst h0; exact .flat (splitRight_zero _) (splitRight_zero _)
    by_cases hle : n.size ≤ t
    · rw [alignedAt_cons, if_neg h0, if_pos hle] at ha
      have ih := RightRel.refl S ns (t - n.size) (by simp at ht; omega) ha
      exact (ih.congr_left (splitRight_skip n ns t h0 hle).symm).congr_right
        (splitRight_skip n ns t h0 hle).symm
    · rw [alignedAt_cons, if_neg h0, if_neg hle] at ha
      cases n with
      | text s m =>
        simp only [Node.size_text] at hle
        have := splitRight_text s m ns t h0 (by omega) ha
        exact .flat this this
      | leaf ty a m => simp at hle; omega
      | elem ty a m kids =>
        simp only [Node.size_elem] at hle
        have := splitRight_elem ty a m kids ns t h0 (by omega)
        exact .deep this this (compatibleContent_self S ty)
          (RightRel.refl S kids (t - 1) (by omega) ha)

/-! ### `LeftRel` -/

inductive LeftRel : List Node → List Node → Nat → Prop
  /-- `p` is not strictly inside an element child on either side -/
  | flat {L' O : List Node} {p : Nat} : p ≤ fsize L' → p ≤ fsize O → depthAt L' p = 0 →
      depthAt O p = 0 → alignedAt L' p = true → (ftoks L').take p = (ftoks O).take p →
      LeftRel L' O p
  | skip {n : Node} {L' O : List Node} {p : Nat} : p ≠ 0 → n.size ≤ p → LeftRel L' O (p - n.size) →
      LeftRel (n :: L') (n :: O) p
  | elem {ty : TypeId} {a : Attrs} {m : Marks} {k' k L' O : List Node} {p : Nat} : p ≠ 0 →
      p < 2 + fsize k' → p < 2 + fsize k → LeftRel k' k (p - 1) →
      LeftRel (.elem ty a m k' :: L') (.elem ty a m k :: O) p

theorem LeftRel.le {L' O : List Node} {p : Nat} (h : LeftRel L' O p) :
    p ≤ fsize L' ∧ p ≤ fsize O := by
  induction h with
  | flat h1 h2 => exact ⟨h1, h2⟩
  | skip _ hle _ ih => simp only [fsize_cons]; omega
  | elem _ h1 h2 _ _ => simp only [fsize_cons, Node.size_elem]; omega

theorem LeftRel.toks {L' O : List Node} {p : Nat} (h : LeftRel L' O p) :
    (ftoks L').take p = (ftoks O).take p := by
  induction h with
  | flat _ _ _ _ _ h => exact h
  | @skip n L' O p _ hle _ ih =>
    rw [ftoks_cons, ftoks_cons, take_app_ge _ _ _ (by rw [Node.toks_length]; exact hle),
      take_app_ge _ _ _ (by rw [Node.toks_length]; exact hle), Node.toks_length, ih]
  | @elem ty a m k' k L' O p h0 h1 h2 _ ih =>
    rw [ftoks_cons, ftoks_cons, take_elem_toks _ _ _ _ _ _ h0 h1, take_elem_toks _ _ _ _ _ _ h0 h2, ih]

theorem LeftRel.depth {L' O : List Node} {p : Nat} (h : LeftRel L' O p) :
    depthAt L' p = depthAt O p := by
  induction h with
  | flat _ _ h1 h2 => rw [h1, h2]
  | skip _ hle _ ih => rw [depthAt_skip _ _ _ hle, depthAt_skip _ _ _ hle, ih]
  | elem h0 h1 h2 _ ih =>
    rw [depthAt_elem_cons _ _ _ _ _ _ (by omega) h1, depthAt_elem_cons _ _ _ _ _ _ (by omega) h2, ih]

theorem LeftRel.aligned {L' O : List Node} {p : Nat} (h : LeftRel L' O p) :
    alignedAt L' p = true := by
  induction h with
  | flat _ _ _ _ h => exact h
  | skip _ hle _ ih => rw [alignedAt_skip _ _ _ hle]; exact ih
  | elem h0 h1 _ _ ih =>
    rw [alignedAt_cons, if_neg h0, if_neg (by simp; omega)]; exact ih

/-! ### `LeftRel` from equality of the first `p` tokens -/

theorem depthAt_text_le (s : List Nat) (m : Marks) (ns : List Node) (p : Nat) (h : p ≤ s.length) :
    depthAt (.text s m :: ns) p = 0 := by
  by_cases hlt : p < s.length
  · exact depthAt_nonelem_cons _ ns p (by simpa using hlt) (by simp)
  · have : p = s.length := by omega
    subst this
    rw [depthAt_skip _ ns _ (by simp)]
    simp

theorem startsUnit_of_head {X : List Tok} {c : Nat} {m : Marks} (h : X[0]? = some (Tok.unit c m)) :
    startsUnit m X = true := by
  cases X with
  | nil => simp at h
  | cons x xs => simp at h; subst h; simp [startsUnit]

/-- two normal-form texts with the same marks heading lists whose first `p` tokens agree: if `p`
    reaches beyond the shorter one, it cannot be shorter -/
theorem text_prefix_len {s s' : List Nat} {m : Marks} {L O : List Node} {p : Nat}
    (hO : fnorm (.text s m :: O) = true)
    (h : ((ftoks (.text s' m :: L))).take p = (ftoks (.text s m :: O)).take p)
    (h1 : s.length < p) (h2 : s.length < s'.length) : False := by
  have hg := congrArg (·[s.length]?) h
  simp only [List.getElem?_take, if_pos h1, ftoks_cons, Node.toks_text] at hg
  rw [List.getElem?_append_left (by simpa using h2),
    List.getElem?_append_right (by simp)] at hg
  simp only [List.length_map, Nat.sub_self, List.getElem?_map] at hg
  have hs : s'[s.length]? = some (s'[s.length]'h2) := List.getElem?_eq_getElem h2
  rw [hs] at hg
  simp only [Option.map_some] at hg
  have h3 := startsUnit_of_head hg.symm
  simp only [fnorm, Bool.and_eq_true, fnormKids_cons] at hO
  have h4 := startsUnit_after s m O [] hO.2 hO.1.2 rfl
  simp only [List.append_nil] at h4
  rw [h3] at h4
  simp at h4

private theorem take_split {α} {X Y X' Y' : List α} {p : Nat} (hl : X.length = X'.length) (hp : X.length ≤ p)
    (h : (X ++ Y).take p = (X' ++ Y').take p) : X = X' ∧ Y.take (p - X.length) = Y'.take (p - X.length) := by
  rw [take_app_ge _ _ _ hp, take_app_ge _ _ _ (by omega), ← hl] at h
  exact List.append_inj h hl

theorem fnorm_elem_kids {ty : TypeId} {a : Attrs} {m : Marks} {k ns : List Node}
    (h : fnorm (.elem ty a m k :: ns) = true) : fnorm k = true := by
  have := (fnorm_cons h).1
  simpa [Node.norm_elem] using this

theorem leftRel_of_toks : ∀ (L' O : List Node) (p : Nat), fnorm L' = true → fnorm O = true →
    p ≤ fsize L' → p ≤ fsize O → alignedAt L' p = true →
    (ftoks L').take p = (ftoks O).take p → LeftRel L' O p
  | [], O, p, _, _, hp', hp, ha, h => by
    have : p = 0 := by simpa using hp'
    subst this
    exact .flat hp' hp (by simp) (by simp) ha h
  | n' :: L', [], p, _, _, hp', hp, ha, h => by
    have : p = 0 := by simpa using hp
    subst this
    exact .flat hp' hp (by simp) (by simp) ha h
  | n' :: L', n :: O, p, hn', hn, hp', hp, ha, h => by
    by_cases h0 : p = 0
    · subst h0
      exact .flat hp' hp (by simp) (by simp) ha h
    obtain ⟨hnn', hnL'⟩ := fnorm_cons hn'
    obtain ⟨hnn, hnO⟩ := fnorm_cons hn
    obtain ⟨q, rfl⟩ : ∃ q, p = q + 1 := ⟨p - 1, by omega⟩
    -- the common ending for a complete common head child
    have skipCase : n' = n → n.size ≤ q + 1 → LeftRel (n' :: L') (n :: O) (q + 1) := by
      intro e hle
      subst e
      simp only [fsize_cons] at hp' hp
      rw [alignedAt_skip _ _ _ hle] at ha
      rw [ftoks_cons, ftoks_cons] at h
      have := (take_split rfl (by rw [Node.toks_length]; exact hle) h).2
      rw [Node.toks_length] at this
      exact .skip h0 hle (leftRel_of_toks L' O _ hnL' hnO (by omega) (by omega) ha this)
    cases n' with
    | text s' m' =>
      cases n with
      | text s m =>
        have hs' : s' ≠ [] := by simpa using hnn'
        have hs : s ≠ [] := by simpa using hnn
        obtain ⟨c', s'', rfl⟩ := List.exists_cons_of_ne_nil hs'
        obtain ⟨c, s0, rfl⟩ := List.exists_cons_of_ne_nil hs
        have hm : m' = m := by
          simp only [ftoks_cons, Node.toks_text, List.map_cons, List.cons_append,
            List.take_succ_cons, List.cons.injEq, Tok.unit.injEq] at h
          exact h.1.2
        subst hm
        by_cases hfl : q + 1 ≤ (c' :: s'').length ∧ q + 1 ≤ (c :: s0).length
        · exact .flat hp' hp (depthAt_text_le _ _ _ _ hfl.1) (depthAt_text_le _ _ _ _ hfl.2) ha h
        · have hlen : (c' :: s'').length = (c :: s0).length := by
            apply Classical.byContradiction
            intro hne
            rcases Nat.lt_or_gt_of_ne hne with hlt | hlt
            · exact text_prefix_len hn' h.symm (by omega) hlt
            · exact text_prefix_len hn h (by omega) hlt
          rw [ftoks_cons, ftoks_cons, Node.toks_text, Node.toks_text] at h
          have hsp := take_split (by simp only [List.length_map]; exact hlen)
            (by simp only [List.length_map]; omega) h
          have hss : c' :: s'' = c :: s0 := by
            have := hsp.1
            exact (List.map_inj_right (fun x y e => by simpa using e)).mp this
          exact skipCase (by rw [hss]) (by simp only [Node.size_text]; omega)
      | leaf t a m =>
        exfalso
        have hs' : s' ≠ [] := by simpa using hnn'
        obtain ⟨c', s'', rfl⟩ := List.exists_cons_of_ne_nil hs'
        simp [List.take_succ_cons] at h
      | elem t a m k =>
        exfalso
        have hs' : s' ≠ [] := by simpa using hnn'
        obtain ⟨c', s'', rfl⟩ := List.exists_cons_of_ne_nil hs'
        simp [List.take_succ_cons] at h
    | leaf t' a' m' =>
      cases n with
      | text s m =>
        exfalso
        have hs : s ≠ [] := by simpa using hnn
        obtain ⟨c, s0, rfl⟩ := List.exists_cons_of_ne_nil hs
        simp [List.take_succ_cons] at h
      | leaf t a m =>
        have : Node.leaf t' a' m' = Node.leaf t a m := by
          simp [List.take_succ_cons] at h
          obtain ⟨⟨rfl, rfl, rfl⟩, _⟩ := h
          rfl
        exact skipCase this (by simp)
      | elem t a m k =>
        exfalso
        simp [List.take_succ_cons] at h
    | elem t' a' m' k' =>
      cases n with
      | text s m =>
        exfalso
        have hs : s ≠ [] := by simpa using hnn
        obtain ⟨c, s0, rfl⟩ := List.exists_cons_of_ne_nil hs
        simp [List.take_succ_cons] at h
      | leaf t a m =>
        exfalso
        simp [List.take_succ_cons] at h
      | elem t a m k =>
        have hk' := fnorm_elem_kids hn'
        have hk := fnorm_elem_kids hn
        simp only [ftoks_cons, Node.toks_elem, List.cons_append, List.take_succ_cons,
          List.cons.injEq, Tok.op.injEq, List.append_assoc] at h
        obtain ⟨⟨rfl, rfl, rfl⟩, h⟩ := h
        -- a complete `k1` on one side forces the other side to be the same
        have whole : ∀ (k1 k2 : List Node) (Y1 Y2 : List Tok), fnorm k1 = true → fnorm k2 = true →
            fsize k1 + 1 ≤ q →
            (ftoks k1 ++ (Tok.cl :: Y1)).take q = (ftoks k2 ++ (Tok.cl :: Y2)).take q → k1 = k2 := by
          intro k1 k2 Y1 Y2 h1 h2 hle hh
          have e := congrArg (List.take (fsize k1 + 1)) hh
          rw [List.take_take, List.take_take, Nat.min_eq_left hle,
            show ftoks k1 ++ Tok.cl :: Y1 = (ftoks k1 ++ [Tok.cl]) ++ Y1 by simp,
            take_app_le _ _ _ (by simp [ftoks_length]),
            List.take_of_length_le (by simp [ftoks_length])] at e
          have e2 : ftoks k2 ++ Tok.cl :: Y2
              = ftoks k1 ++ (Tok.cl :: (ftoks k2 ++ Tok.cl :: Y2).drop (fsize k1 + 1)) := by
            have := (List.take_append_drop (fsize k1 + 1) (ftoks k2 ++ Tok.cl :: Y2)).symm
            rw [← e] at this
            simpa using this
          simp only [fnorm, Bool.and_eq_true] at h1 h2
          exact ((ftoks_inj_aux k2 k1 _ _ h2.1 h2.2 h1.1 h1.2 rfl rfl e2).1).symm
        simp only [fsize_cons, Node.size_elem] at hp' hp
        by_cases hin : q ≤ fsize k'
        · have hin2 : q ≤ fsize k := by
            apply Classical.byContradiction
            intro hc
            have := whole k k' _ _ hk hk' (by omega) h.symm
            subst this
            omega
          rw [alignedAt_cons, if_neg h0, if_neg (by simp; omega)] at ha
          rw [take_app_le _ _ _ (by rw [ftoks_length]; exact hin),
            take_app_le _ _ _ (by rw [ftoks_length]; exact hin2)] at h
          exact .elem h0 (by omega) (by omega)
            (leftRel_of_toks k' k q hk' hk hin hin2 ha h)
        · have := whole k' k _ _ hk' hk (by omega) h
          subst this
          have h' : (ftoks (Node.elem t' a' m' k' :: L')).take (q + 1)
              = (ftoks (Node.elem t' a' m' k' :: O)).take (q + 1) := by
            simp only [ftoks_cons, Node.toks_elem, List.cons_append, List.take_succ_cons,
              List.append_assoc, h]
          rw [ftoks_cons, ftoks_cons] at h'
          have h2 := (take_split rfl (by rw [Node.toks_length]; simp; omega) h').2
          rw [Node.toks_length] at h2
          rw [alignedAt_skip _ _ _ (by simp; omega)] at ha
          exact .skip h0 (by simp; omega)
            (leftRel_of_toks L' O _ hnL' hnO (by simp; omega) (by simp; omega) ha h2)

end PM
