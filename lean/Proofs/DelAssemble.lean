/-
  Proofs/DelAssemble.lean — the replace step of a deletion applies, at the level of frames (C11 `delete_applies`):
  `replaceKids_merged` (Proofs/MergeOpen.lean) with the result document built in Proofs/DelSpine.lean.
-/
import Proofs.DelResult
namespace PM

/-! ### the slice pieces: normal form, spines -/

theorem leftS_norm : ∀ (frs : List Frame) (fills : List (List Node)) (G : List Node),
    (∀ f ∈ fills, textFreeKids f = true) → fnorm G = true → fnorm (leftS frs fills G) = true
  | [], _, _, _, h => by simpa [leftS] using h
  | _ :: _, [], _, _, h => by simpa [leftS] using h
  | fr :: frs, fill :: fills, G, hfills, hG => by
    have ih := leftS_norm frs fills G (fun f hf' => hfills f (by simp [hf'])) hG
    have := fnorm_append_textFree ih (hfills fill (by simp))
    simp only [leftS, Frame.node]
    exact fnorm_around_elem (pre := []) (post := []) _ _ _ (by simp [fnorm, chainOk]) this (by simp [fnorm, chainOk])

theorem rightS_textFree : ∀ (frs : List Frame) (adds : List (List Node)),
    (∀ a ∈ adds, textFreeKids a = true) → textFreeKids (rightS frs adds) = true
  | [], _, _ => by simp [rightS]
  | _ :: _, [], _ => by simp [rightS]
  | fr :: frs, add :: adds, h => by
    have ih := rightS_textFree frs adds (fun f hf' => h f (by simp [hf']))
    simp [rightS, Frame.node, textFreeKids_cons, textFree_elem, textFreeKids_append, h add (by simp), ih]

theorem leftS_spineL : ∀ (frs : List Frame) (fills : List (List Node)) (G : List Node),
    frs.length = fills.length → frs.length ≤ spineL (leftS frs fills G)
  | [], _, _, _ => by simp
  | _ :: _, [], _, h => by simp at h
  | fr :: frs, fill :: fills, G, h => by
    simp only [List.length_cons, Nat.add_right_cancel_iff] at h
    have ih := leftS_spineL frs fills G h
    simp only [leftS, Frame.node, spineL_elem_cons, List.length_cons]
    cases frs with
    | nil => simp
    | cons fr' frs' =>
      cases fills with
      | nil => simp at h
      | cons fill' fills' =>
        simp only [leftS, Frame.node, List.cons_append, List.nil_append, spineL_elem_cons] at ih ⊢
        omega

theorem rightS_spineR : ∀ (X : List Node) (frs : List Frame) (adds : List (List Node)),
    frs.length = adds.length → frs.length ≤ spineR (X ++ rightS frs adds)
  | _, [], _, _ => by simp
  | _, _ :: _, [], h => by simp at h
  | X, fr :: frs, add :: adds, h => by
    simp only [List.length_cons, Nat.add_right_cancel_iff] at h
    have ih := rightS_spineR add frs adds h
    simp only [rightS, Frame.node, List.length_cons]
    rw [spineR_concat_elem]
    omega

theorem opaT_length : ∀ (frs : List Frame) (adds : List (List Node)), (opaT frs adds).length = rbase frs adds
  | [], _ => by simp [opaT, rbase]
  | _ :: _, [] => by simp [opaT, rbase]
  | fr :: frs, add :: adds => by
    simp [opaT, rbase, opaT_length frs adds, ftoks_length]; omega

/-! ### the joins on the left are those of the document with itself -/

theorem plug_lcompat_open (S : Schema) : ∀ (ffsB : List Frame) (botF : List Node) (x : Nat)
    (fills : List (List Node)) (G : List Node), x ≤ fsize botF → ffsB.length = fills.length →
    lcompat S (plug ffsB botF) (pbase ffsB + x) 0 (leftS ffsB fills G) ffsB.length = true
  | [], _, _, _, _, _, _ => lcompat_zero S _ _ _ _
  | _ :: _, _, _, [], _, _, h => by simp at h
  | fr :: frs, botF, x, fill :: fills, G, hx, h => by
    simp only [List.length_cons, Nat.add_right_cancel_iff] at h
    have hsz := plug_size frs botF
    have ih := plug_lcompat_open S frs botF x fills G hx h
    simp only [plug, pbase, leftS, Frame.node, List.length_cons]
    rw [show fsize fr.pre + 1 + pbase frs + x = fsize fr.pre + (1 + pbase frs + x) by omega, lcompat_append_pre,
      lcompat_elem_open _ _ _ _ _ _ _ _ _ _ _ _ _ (by omega) (by omega),
      show 1 + pbase frs + x - 1 = pbase frs + x by omega, compatibleContent_self, Bool.true_and]
    cases frs with
    | nil => exact lcompat_zero S _ _ _ _
    | cons fr' frs' =>
      cases fills with
      | nil => simp at h
      | cons fill' fills' =>
        simp only [leftS, List.cons_append, List.nil_append] at ih ⊢
        rw [lcompat_head S _ _ []]
        exact ih

theorem plug_lcompat (S : Schema) : ∀ (ffsA ffsB : List Frame) (botF : List Node) (x : Nat)
    (fills : List (List Node)) (G : List Node), x ≤ fsize botF → ffsB.length = fills.length →
    lcompat S (plug (ffsA ++ ffsB) botF) (pbase (ffsA ++ ffsB) + x) ffsA.length (leftS ffsB fills G) ffsB.length = true
  | [], ffsB, botF, x, fills, G, hx, h => by simpa using plug_lcompat_open S ffsB botF x fills G hx h
  | fr :: ffsA, ffsB, botF, x, fills, G, hx, h => by
    have hsz := plug_size (ffsA ++ ffsB) botF
    have ih := plug_lcompat S ffsA ffsB botF x fills G hx h
    simp only [List.cons_append, plug, pbase, Frame.node, List.length_cons]
    rw [show fsize fr.pre + 1 + pbase (ffsA ++ ffsB) + x = fsize fr.pre + (1 + pbase (ffsA ++ ffsB) + x) by omega,
      lcompat_append_pre, lcompat_elem_extra _ _ _ _ _ _ _ _ _ _ (by omega) (by omega),
      show 1 + pbase (ffsA ++ ffsB) + x - 1 = pbase (ffsA ++ ffsB) + x by omega]
    exact ih

/-! ### alignment and depth inside `joinK` -/

theorem joinK_aligned : ∀ (ffs tfs : List Frame) (J : List Node) (j : Nat), ffs.length = tfs.length →
    framesNorm ffs → j ≤ fsize J → alignedAt (joinK ffs tfs J) (pbase ffs + j) = alignedAt J j
  | [], [], J, j, _, _, _ => by simp [joinK, pbase]
  | [], _ :: _, _, _, h, _, _ => by simp at h
  | _ :: _, [], _, _, h, _, _ => by simp at h
  | ff :: ffs, tf :: tfs, J, j, h, hn, hj => by
    simp only [List.length_cons, Nat.add_right_cancel_iff] at h
    have hsz := joinK_size ffs tfs J h
    simp only [joinK, pbase, Frame.node]
    rw [show fsize ff.pre + 1 + pbase ffs + j = fsize ff.pre + (1 + pbase ffs + j) by omega, alignedAt_append_pre,
      alignedAt_cons, if_neg (by omega), if_neg (by simp only [Node.size_elem]; omega),
      show 1 + pbase ffs + j - 1 = pbase ffs + j by omega]
    exact joinK_aligned ffs tfs J j h hn.2 hj

/-! ### the seams of the spliced token list -/

/-- every high surrogate unit is followed by a low surrogate unit of the same text node -/
def toksHighClosed (l : List Tok) : Prop :=
  ∀ i c m, l[i]? = some (Tok.unit c m) → isHigh c = true → ∃ c', l[i + 1]? = some (Tok.unit c' m) ∧ isLow c' = true

def Tok.isUnit : Tok → Bool
  | .unit .. => true
  | _ => false

theorem tokAligned_nonunit_right (l : List Tok) (p : Nat) (h : ∀ t, l[p]? = some t → t.isUnit = false) :
    tokAligned l p = true := by
  cases p with
  | zero => rfl
  | succ p =>
    simp only [tokAligned]
    split
    · rename_i h1 h2 _ _ _ h3 h4
      have := h _ h4
      simp [Tok.isUnit] at this
    · rfl

theorem tokAligned_nonunit_left (l : List Tok) (p : Nat) (h : ∀ t, l[p]? = some t → t.isUnit = false) :
    tokAligned l (p + 1) = true := by
  simp only [tokAligned]
  split
  · rename_i h1 h2 _ _ _ h3 h4
    have := h _ h3
    simp [Tok.isUnit] at this
  · rfl

/-- the two seams of `L[..f] ++ X ++ L[T..]` are pair-aligned when `X` holds no text and `f` is pair-aligned in `L` -/
theorem seams_aligned (L X : List Tok) (f T : Nat) (hc : toksHighClosed L) (hfT : f ≤ T) (hT : T ≤ L.length)
    (haf : tokAligned L f = true) (hX : ∀ t ∈ X, t.isUnit = false) :
    tokAligned (L.take f ++ X ++ L.drop T) f = true ∧ tokAligned (L.take f ++ X ++ L.drop T) (f + X.length) = true := by
  have hPl : (L.take f).length = f := by simp; omega
  cases X with
  | nil =>
    simp only [List.append_nil, List.length_nil, Nat.add_zero, and_self]
    cases f with
    | zero => rfl
    | succ f =>
      simp only [tokAligned]
      have e1 : (L.take (f + 1) ++ L.drop T)[f]? = L[f]? := by
        rw [List.getElem?_append_left (by omega), List.getElem?_take, if_pos (by omega)]
      have e2 : (L.take (f + 1) ++ L.drop T)[f + 1]? = L[T]? := by
        rw [List.getElem?_append_right (by omega), hPl, Nat.sub_self, List.getElem?_drop, Nat.add_zero]
      rw [e1, e2]
      split
      · rename_i h m lo m' h3 h4
        cases hh : (m == m' && isHigh h && isLow lo) with
        | false => rfl
        | true =>
          exfalso
          simp only [Bool.and_eq_true] at hh
          obtain ⟨c', hc1, hc2⟩ := hc f h m h3 hh.1.2
          simp only [tokAligned, h3, hc1] at haf
          simp [hh.1.2, hc2] at haf
      · rfl
  | cons x xs =>
    constructor
    · apply tokAligned_nonunit_right
      intro t ht
      rw [List.append_assoc, List.getElem?_append_right (by omega), hPl, Nat.sub_self] at ht
      simp only [List.cons_append, List.getElem?_cons_zero, Option.some.injEq] at ht
      subst ht
      exact hX _ (by simp)
    · rw [show f + (x :: xs).length = (f + xs.length) + 1 by simp; omega]
      apply tokAligned_nonunit_left
      intro t ht
      rw [List.append_assoc, List.getElem?_append_right (by omega), hPl, Nat.add_sub_cancel_left,
        List.getElem?_append_left (by simp)] at ht
      have : t ∈ x :: xs := List.mem_of_getElem? ht
      exact hX t this

/-! ### text-free nodes have no unit tokens -/

mutual
theorem Node.toks_nonunit : ∀ (n : Node), n.textFree = true → ∀ t ∈ n.toks, t.isUnit = false
  | .text s m, h, _, _ => by simp [Node.textFree] at h
  | .leaf ty a m, _, t, ht => by
    simp only [Node.toks_leaf, List.mem_singleton] at ht
    subst ht; rfl
  | .elem ty a m k, h, t, ht => by
    rw [textFree_elem] at h
    simp only [Node.toks_elem, List.mem_cons, List.mem_append, List.not_mem_nil, or_false] at ht
    rcases ht with rfl | ht | rfl
    · rfl
    · exact ftoks_nonunit k h t ht
    · rfl
theorem ftoks_nonunit : ∀ (l : List Node), textFreeKids l = true → ∀ t ∈ ftoks l, t.isUnit = false
  | [], _, t, ht => by simp at ht
  | n :: ns, h, t, ht => by
    simp only [textFreeKids_cons, Bool.and_eq_true] at h
    simp only [ftoks_cons, List.mem_append] at ht
    rcases ht with ht | ht
    · exact Node.toks_nonunit n h.1 t ht
    · exact ftoks_nonunit ns h.2 t ht
end

theorem clT_nonunit : ∀ (fills : List (List Node)), (∀ f ∈ fills, textFreeKids f = true) →
    ∀ t ∈ clT fills, t.isUnit = false
  | [], _, t, ht => by simp [clT] at ht
  | fill :: fills, h, t, ht => by
    simp only [clT, List.mem_append, List.mem_singleton] at ht
    rcases ht with (ht | ht) | rfl
    · exact clT_nonunit fills (fun f hf => h f (by simp [hf])) t ht
    · exact ftoks_nonunit fill (h fill (by simp)) t ht
    · rfl

theorem opaT_nonunit : ∀ (frs : List Frame) (adds : List (List Node)), (∀ a ∈ adds, textFreeKids a = true) →
    ∀ t ∈ opaT frs adds, t.isUnit = false
  | [], _, _, t, ht => by simp [opaT] at ht
  | _ :: _, [], _, t, ht => by simp [opaT] at ht
  | fr :: frs, add :: adds, h, t, ht => by
    simp only [opaT, List.mem_cons, List.mem_append] at ht
    rcases ht with rfl | ht | ht
    · rfl
    · exact ftoks_nonunit add (h add (by simp)) t ht
    · exact opaT_nonunit frs adds (fun f hf => h f (by simp [hf])) t ht

theorem sameRight_postT : ∀ (a b : List Frame), sameRight a b → postT a = postT b
  | [], [], _ => rfl
  | [], _ :: _, h => h.elim
  | _ :: _, [], h => h.elim
  | x :: a, y :: b, h => by simp [postT, sameRight_postT a b h.2.2, h.2.1]

/-! ### the replace step of a deletion applies (frames) -/

theorem fappend_eq_fromArray (Y Z : List Node) (hY : fnorm Y = true) (hZ : fnorm Z = true) :
    fappend Y Z = fromArray (Y ++ Z) := by
  apply ftoks_inj _ _ (fappend_norm _ _ hY hZ)
    (fromArray_norm _ (by rw [fnormKids_append, fnormKids_of_fnorm hY, fnormKids_of_fnorm hZ]; rfl))
  rw [fappend_toks, fromArray_toks, ftoks_append]

/-- **the replace step of a deletion applies** (frames): the document is `plug (ffsA ++ ffsB) botF` along `from` and
    `plug (tfsA ++ tfsB) botT` along the end position; the levels `A` are joined, the levels `B` of `from` are closed with
    the fillers `fills`, those of the end position re-opened with the fillers `adds` in front, `fit` goes between them
    at the close level -/
theorem delete_merged_gap (S : Schema) (hts : TextStableP S) (ty0 : TypeId)
    (ffsA ffsB tfsA tfsB tfsB' : List Frame) (botF botT botL botR : List Node) (floc tloc : Nat)
    (fills adds : List (List Node)) (fit G : List Node) (K : List Node)
    (hKf : K = plug (ffsA ++ ffsB) botF) (hKt : K = plug (tfsA ++ tfsB) botT) (hnK : fnorm K = true)
    (hfl : floc ≤ fsize botF) (htl : tloc ≤ fsize botT) (hdF : depthAt botF floc = 0)
    (hbotL : ftoks botL = (ftoks botF).take floc ++ ftoks G) (hnL : fnorm botL = true) (hnG : fnorm G = true)
    (hsplit : splitRight botT tloc = some (.flat botR))
    (hfT : pbase (ffsA ++ ffsB) + floc ≤ pbase (tfsA ++ tfsB) + tloc)
    (hsame : sameRight tfsB tfsB') (hfnB' : framesFN tfsB') (hcompat : compatFrames S ffsA tfsA)
    (hL : LeftOK S ffsB fills botL) (hR : RightOK S tfsB' adds botR) (hfit : S.checkKids fit = true)
    (hJ : JoinOK S ty0 ffsA tfsA)
    (hvc : S.validContent (botTy ty0 ffsA) (headL ffsB botL ++ fit ++ headR tfsB' botR) = true)
    (htfF : ∀ f ∈ fills, textFreeKids f = true) (htfA : ∀ a ∈ adds, textFreeKids a = true)
    (htfit : textFreeKids fit = true)
    (haf : alignedAt K (pbase (ffsA ++ ffsB) + floc) = true)
    (hseam : tokAligned ((ftoks K).take (pbase (ffsA ++ ffsB) + floc)
          ++ ((ftoks G ++ clT fills) ++ (ftoks fit ++ opaT tfsB' adds)) ++ (ftoks K).drop (pbase (tfsA ++ tfsB) + tloc))
        (pbase (ffsA ++ ffsB) + floc) = true ∧
      tokAligned ((ftoks K).take (pbase (ffsA ++ ffsB) + floc)
          ++ ((ftoks G ++ clT fills) ++ (ftoks fit ++ opaT tfsB' adds)) ++ (ftoks K).drop (pbase (tfsA ++ tfsB) + tloc))
        (pbase (ffsA ++ ffsB) + floc + ((ftoks G ++ clT fills) ++ (ftoks fit ++ opaT tfsB' adds)).length) = true) :
    replaceKids S ty0 K (pbase (ffsA ++ ffsB) + floc) (pbase (tfsA ++ tfsB) + tloc)
      ⟨fappend (leftS ffsB fills G) (fit ++ rightS tfsB' adds), ffsB.length, tfsB'.length⟩
      = .ok (joinK ffsA tfsA (fappend (leftK ffsB fills botL ++ fit) (rightK tfsB' adds botR))) := by
  have hlenA : ffsA.length = tfsA.length := compatFrames_length S _ _ hcompat
  have hlenB : tfsB.length = tfsB'.length := sameRight_length _ _ hsame
  have hlenF := hL.length
  have hlenR := hR.length
  -- normal forms
  obtain ⟨hfnF, hnbotF⟩ := plug_framesFN (ffsA ++ ffsB) botF (hKf ▸ hnK)
  obtain ⟨hfnT, hnbotT⟩ := plug_framesFN (tfsA ++ tfsB) botT (hKt ▸ hnK)
  rw [framesFN_append] at hfnF hfnT
  have hnR : fnorm botR = true := splitRight_flat_fnorm botT tloc botR hnbotT hsplit
  have htokR : ftoks botR = (ftoks botT).drop tloc := splitRight_flat_toks hsplit
  have hdT : depthAt botT tloc = 0 := splitRight_flat_depth botT tloc botR hsplit
  have hnLK : fnorm (leftK ffsB fills botL) = true := leftK_norm ffsB fills botL hfnF.2 htfF hnL
  have hnY : fnorm (leftK ffsB fills botL ++ fit) = true := fnorm_append_textFree hnLK htfit
  have hnZ : fnorm (rightK tfsB' adds botR) = true := rightK_norm tfsB' adds botR hfnB' htfA hnR
  have hnJ := fappend_norm _ _ hnY hnZ
  have hn2 := joinK_norm ffsA tfsA _ hfnF.1 hfnT.1 hnJ
  -- validity
  have hkY : S.checkKids (leftK ffsB fills botL ++ fit) = true := by
    rw [checkKids_append, leftK_checkKids S ffsB fills botL hL, hfit]; rfl
  have hkZ := rightK_checkKids S tfsB' adds botR hR
  have hkJ := fappend_checkKids S _ _ hkY hkZ
  have hvJ : S.validContent (botTy ty0 ffsA)
      (fappend (leftK ffsB fills botL ++ fit) (rightK tfsB' adds botR)) = true := by
    rw [fappend_eq_fromArray _ _ hnY hnZ]
    apply validContent_fromArray hts
    rw [validContent_sigOf S _ _ (headL ffsB botL ++ fit ++ headR tfsB' botR)]
    · exact hvc
    · rw [sigOf_append, sigOf_append, sigOf_append, sigOf_append, leftK_sig S ffsB fills botL hlenF,
        rightK_sig S tfsB' adds botR hlenR]
  obtain ⟨hvc2, hv2⟩ := joinK_valid S ty0 ffsA tfsA _ hJ hvJ hkJ
  -- the slice pieces
  have hnA : fnorm (leftS ffsB fills G) = true := leftS_norm ffsB fills G htfF hnG
  have htfB : textFreeKids (fit ++ rightS tfsB' adds) = true := by
    rw [textFreeKids_append, htfit, rightS_textFree tfsB' adds htfA]; rfl
  have hnB := fnorm_textFree _ htfB
  have haA := leftS_spineL ffsB fills G hlenF
  have hbB := rightS_spineR fit tfsB' adds hlenR
  have hTA := leftS_sliceToks ffsB fills G hlenF
  have hTB := rightS_sliceToks fit tfsB' adds hlenR
  -- sizes
  have hszK := plug_size (tfsA ++ tfsB) botT
  rw [← hKt] at hszK
  have hT : pbase (tfsA ++ tfsB) + tloc ≤ fsize K := by omega
  -- tokens
  have htake : (ftoks K).take (pbase (ffsA ++ ffsB) + floc) = preT (ffsA ++ ffsB) ++ (ftoks botF).take floc := by
    rw [hKf]; exact plug_take _ _ _ hfl
  have hdrop : (ftoks K).drop (pbase (tfsA ++ tfsB) + tloc) = (ftoks botT).drop tloc ++ postT (tfsA ++ tfsB) := by
    rw [hKt]; exact plug_drop _ _ _ htl
  have htk : ftoks (joinK ffsA tfsA (fappend (leftK ffsB fills botL ++ fit) (rightK tfsB' adds botR)))
      = (ftoks K).take (pbase (ffsA ++ ffsB) + floc)
        ++ ((Slice.mk (leftS ffsB fills G) ffsB.length 0).toks ++ (Slice.mk (fit ++ rightS tfsB' adds) 0 tfsB'.length).toks)
        ++ (ftoks K).drop (pbase (tfsA ++ tfsB) + tloc) := by
    rw [joinK_toks _ _ _ hlenA, fappend_toks, ftoks_append, leftK_toks _ _ _ hlenF, rightK_toks _ _ _ hlenR, htake, hdrop,
      hTA, hTB, preT_append, postT_append, hbotL, htokR, sameRight_postT _ _ hsame]
    simp only [List.append_assoc]
  -- the seams
  have hseams := hseam
  rw [hTA, hTB] at htk
  rw [← htk] at hseams
  have haf2 := hseams.1
  have haT2 := hseams.2
  rw [← alignedAt_toks _ _ hn2] at haf2 haT2
  -- depths
  have hdKf : depthAt K (pbase (ffsA ++ ffsB) + floc) = ffsA.length + ffsB.length := by
    rw [hKf, plug_depth _ _ _ (framesFN.norm ((framesFN_append _ _).2 hfnF)) hfl, hdF, List.length_append]; rfl
  have hdKT : depthAt K (pbase (tfsA ++ tfsB) + tloc) = tfsA.length + tfsB.length := by
    rw [hKt, plug_depth _ _ _ (framesFN.norm ((framesFN_append _ _).2 hfnT)) htl, hdT, List.length_append]; rfl
  -- the position behind the inserted content in the result
  have hszL : fsize botL = floc + fsize G := by
    rw [← ftoks_length, hbotL, List.length_append, List.length_take, ftoks_length, ftoks_length]; omega
  have hszY : fsize (leftK ffsB fills botL ++ fit) = pbase ffsB + (floc + fsize G) + (clT fills).length + fsize fit := by
    rw [fsize_append, ← ftoks_length (leftK ffsB fills botL), leftK_toks _ _ _ hlenF]
    simp only [List.length_append, preT_length, ftoks_length, hszL]
  have hpos : pbase (ffsA ++ ffsB) + floc + ((ftoks G ++ clT fills) ++ (ftoks fit ++ opaT tfsB' adds)).length
      = pbase ffsA + (fsize (leftK ffsB fills botL ++ fit) + rbase tfsB' adds) := by
    rw [hszY, pbase_append]
    simp only [List.length_append, ftoks_length, opaT_length]
    omega
  have hjle : fsize (leftK ffsB fills botL ++ fit) + rbase tfsB' adds
      ≤ fsize (fappend (leftK ffsB fills botL ++ fit) (rightK tfsB' adds botR)) := by
    rw [fappend_size]; have := rightK_size tfsB' adds botR; omega
  -- `RightRel` at the close level
  have hRc : RightRel S (plug tfsB botT) (pbase tfsB + tloc)
      (fappend (leftK ffsB fills botL ++ fit) (rightK tfsB' adds botR))
      (fsize (leftK ffsB fills botL ++ fit) + rbase tfsB' adds) := by
    cases tfsB with
    | nil =>
      cases tfsB' with
      | cons _ _ => exact hsame.elim
      | nil =>
        simp only [plug, pbase, rbase, rightK, Nat.zero_add, Nat.add_zero] at haT2 hjle hpos ⊢
        refine .flat hsplit (splitRight_flat_of_toks _ botR _ (by simpa [rightK] using hnJ) hnR hjle ?_ ?_ ?_)
        · rw [hpos] at haT2
          rw [← joinK_aligned ffsA tfsA _ _ hlenA (framesFN.norm hfnF.1) hjle]
          exact haT2
        · have := depthAt_balance (fappend (leftK ffsB fills botL ++ fit) botR)
            (fsize (leftK ffsB fills botL ++ fit)) hjle
          have e : (ftoks (fappend (leftK ffsB fills botL ++ fit) botR)).take (fsize (leftK ffsB fills botL ++ fit))
              = ftoks (leftK ffsB fills botL ++ fit) := by
            rw [fappend_toks, ← ftoks_length (leftK ffsB fills botL ++ fit), List.take_left]
          rw [e, balance_ftoks] at this
          exact_mod_cast this
        · rw [fappend_toks, ← ftoks_length (leftK ffsB fills botL ++ fit), List.drop_left]
    | cons tf tfsB0 =>
      cases tfsB' with
      | nil => exact hsame.elim
      | cons tf' tfsB0' =>
        cases adds with
        | nil => simp at hlenR
        | cons add adds0 =>
          have hZ : rightK (tf' :: tfsB0') (add :: adds0) botR
              = tf'.node (add ++ rightK tfsB0' adds0 botR) :: tf'.post := rfl
          have hfa : fappend (leftK ffsB fills botL ++ fit) (rightK (tf' :: tfsB0') (add :: adds0) botR)
              = (leftK ffsB fills botL ++ fit) ++ rightK (tf' :: tfsB0') (add :: adds0) botR := by
            apply fappend_of_seam hnY hnZ
            rw [hZ]
            cases (leftK ffsB fills botL ++ fit).getLast? with
            | none => rfl
            | some u => cases u <;> simp [seamOk, adjOk, Frame.node]
          rw [hfa]
          have := rightK_rightRel S (tf :: tfsB0) (tf' :: tfsB0') (add :: adds0) botT tloc botR hsame
            (by rw [hlenB]; exact hlenR) (framesFN.norm hfnT.2)
            (fun a ha => fnormKids_textFree a (htfA a ha)) htl hsplit
          exact this.congr_right (splitRight_append_pre _ _ _ (fnormKids_of_fnorm hnY)).symm
  have hRR := joinK_rightRel S ffsA tfsA (plug tfsB botT) (pbase tfsB + tloc) _ _ hcompat (framesFN.norm hfnF.1)
    (framesFN.norm hfnT.1) (by have := plug_size tfsB botT; omega) hjle hRc
  rw [← plug_append, ← hKt, ← Nat.add_assoc, ← pbase_append, ← hpos, List.length_append, ← Nat.add_assoc] at hRR
  -- assemble
  rw [← hTA, ← hTB] at htk hRR
  refine replaceKids_merged S ty0 K _ _ _ (leftS ffsB fills G) (fit ++ rightS tfsB' adds) ffsB.length tfsB'.length
    hnK hvc2 hv2 hn2 hnA hnB haA hbB hfT hT htk haf haf2 hRR (by rw [hdKf]; omega) (by rw [hdKf, hdKT]; omega) ?_
  rw [hdKf, Nat.add_sub_cancel, hKf]
  exact plug_lcompat S ffsA ffsB botF floc fills G hfl hlenF

/-- the instance without moved content: the seams are pair-aligned because the inserted tokens hold no text -/
theorem delete_merged (S : Schema) (hts : TextStableP S) (ty0 : TypeId)
    (ffsA ffsB tfsA tfsB tfsB' : List Frame) (botF botT botL botR : List Node) (floc tloc : Nat)
    (fills adds : List (List Node)) (fit : List Node) (K : List Node)
    (hKf : K = plug (ffsA ++ ffsB) botF) (hKt : K = plug (tfsA ++ tfsB) botT) (hnK : fnorm K = true)
    (hfl : floc ≤ fsize botF) (htl : tloc ≤ fsize botT) (hdF : depthAt botF floc = 0)
    (hbotL : ftoks botL = (ftoks botF).take floc) (hnL : fnorm botL = true)
    (hsplit : splitRight botT tloc = some (.flat botR))
    (hfT : pbase (ffsA ++ ffsB) + floc ≤ pbase (tfsA ++ tfsB) + tloc)
    (hsame : sameRight tfsB tfsB') (hfnB' : framesFN tfsB') (hcompat : compatFrames S ffsA tfsA)
    (hL : LeftOK S ffsB fills botL) (hR : RightOK S tfsB' adds botR) (hfit : S.checkKids fit = true)
    (hJ : JoinOK S ty0 ffsA tfsA)
    (hvc : S.validContent (botTy ty0 ffsA) (headL ffsB botL ++ fit ++ headR tfsB' botR) = true)
    (htfF : ∀ f ∈ fills, textFreeKids f = true) (htfA : ∀ a ∈ adds, textFreeKids a = true)
    (htfit : textFreeKids fit = true)
    (haf : alignedAt K (pbase (ffsA ++ ffsB) + floc) = true) (hhc : toksHighClosed (ftoks K)) :
    replaceKids S ty0 K (pbase (ffsA ++ ffsB) + floc) (pbase (tfsA ++ tfsB) + tloc)
      ⟨fappend (leftS ffsB fills []) (fit ++ rightS tfsB' adds), ffsB.length, tfsB'.length⟩
      = .ok (joinK ffsA tfsA (fappend (leftK ffsB fills botL ++ fit) (rightK tfsB' adds botR))) := by
  have hszK := plug_size (tfsA ++ tfsB) botT
  rw [← hKt] at hszK
  have hXn : ∀ t ∈ clT fills ++ (ftoks fit ++ opaT tfsB' adds), t.isUnit = false := by
    intro t ht
    simp only [List.mem_append] at ht
    rcases ht with ht | ht | ht
    · exact clT_nonunit fills htfF t ht
    · exact ftoks_nonunit fit htfit t ht
    · exact opaT_nonunit tfsB' adds htfA t ht
  have hseams := seams_aligned (ftoks K) (clT fills ++ (ftoks fit ++ opaT tfsB' adds)) _ _ hhc hfT
    (by rw [ftoks_length]; omega) (by rw [← alignedAt_toks K _ hnK]; exact haf) hXn
  exact delete_merged_gap S hts ty0 ffsA ffsB tfsA tfsB tfsB' botF botT botL botR floc tloc fills adds fit [] K hKf hKt hnK
    hfl htl hdF (by simpa using hbotL) hnL (by simp [fnorm, chainOk]) hsplit hfT hsame hfnB' hcompat hL hR hfit hJ hvc
    htfF htfA htfit haf (by simpa using hseams)

end PM
