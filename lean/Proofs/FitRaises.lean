/- Proofs/FitRaises.lean — which failures the parts of the Fitter model (PM/Fitter.lean) can end in:
   everything up to and including one iteration of the `fit` loop (`fitStep`), `must_move_inline` and
   `close` fails with `raises` only; `outOfFuel` comes from `fitLoop` alone and `negInsert` from
   `fitEmit` alone. -/
import PM.Fitter
import Proofs.Fitter
namespace PM

/-- the computation can only fail with `raises` -/
def OnlyRaises {α : Type} (x : FM α) : Prop := ∀ e, x = .error e → e = .raises

theorem OnlyRaises.pure {α : Type} (a : α) : OnlyRaises (Pure.pure a : FM α) := by
  intro e h; cases h

theorem OnlyRaises.throw {α : Type} : OnlyRaises (throw FitErr.raises : FM α) := by
  intro e h
  simp only [MonadExcept.throw, throwThe, MonadExceptOf.throw, Except.error.injEq] at h
  exact h.symm

theorem OnlyRaises.bind {α β : Type} {x : FM α} {f : α → FM β} (hx : OnlyRaises x)
    (hf : ∀ a, OnlyRaises (f a)) : OnlyRaises (x >>= f) := by
  intro e h
  cases x with
  | error e' =>
    simp only [Bind.bind, Except.bind, Except.error.injEq] at h
    subst h
    exact hx _ rfl
  | ok a => exact hf a e h

theorem OnlyRaises.err {α : Type} {x : FM α} (h : OnlyRaises x) {e : FitErr} (he : x = .error e) :
    e = .raises := h e he

attribute [irreducible] OnlyRaises

/-- peels a `do` block: binds, `pure`, `throw .raises`, `if`/`match`, and facts in the context -/
macro "only_raises" : tactic => `(tactic|
  repeat' (first
    | with_reducible exact OnlyRaises.pure _
    | with_reducible exact OnlyRaises.throw
    | with_reducible refine OnlyRaises.bind ?_ (fun _ => ?_)
    | (with_reducible apply_assumption; done)
    | split
    | dsimp only))

theorem liftRaise_or {α : Type} (o : Option α) : OnlyRaises (liftRaise o) := by
  unfold liftRaise; only_raises

theorem getItem_or (fr : List FItem) (i : Nat) : OnlyRaises (getItem fr i) := by
  unfold getItem; only_raises

theorem getSt_or (it : FItem) : OnlyRaises (getSt it) := by
  unfold getSt; only_raises

theorem fillOpt_or (S : Schema) (d : Dfa) (q : Nat) (after : List TypeId) (toEnd : Bool) :
    OnlyRaises (fillOpt S d q after toEnd) := liftRaise_or _

theorem contentAt_or : ∀ (d : Nat) (frag : List Node), OnlyRaises (contentAt frag d)
  | 0, frag => by unfold contentAt; only_raises
  | d + 1, frag => by
    have ih := contentAt_or d
    unfold contentAt; only_raises

theorem dropFromFragment_or : ∀ (d : Nat) (frag : List Node) (count : Nat),
    OnlyRaises (dropFromFragment frag d count)
  | 0, frag, count => by unfold dropFromFragment; only_raises
  | d + 1, frag, count => by
    have ih := dropFromFragment_or d
    unfold dropFromFragment; only_raises

theorem addToFragment_or : ∀ (d : Nat) (frag content : List Node),
    OnlyRaises (addToFragment frag d content)
  | 0, frag, content => by unfold addToFragment; only_raises
  | d + 1, frag, content => by
    have ih := addToFragment_or d
    unfold addToFragment; only_raises

theorem closeNodeStart_or (S : Schema) : ∀ (os : Nat) (node : Node) (oe : Int),
    OnlyRaises (closeNodeStart S os node oe)
  | 0, node, oe => by unfold closeNodeStart; only_raises
  | os + 1, node, oe => by
    have ih := closeNodeStart_or S os
    have h1 := fillOpt_or S
    have h2 := @liftRaise_or
    unfold closeNodeStart; only_raises

theorem contentAfterFitsAt_or (S : Schema) (node : Node) (index : Nat) (ty : TypeId) (st : Option Nat) :
    OnlyRaises (contentAfterFitsAt S node index ty st) := by
  have h1 := fillOpt_or S
  have h2 := @liftRaise_or
  unfold contentAfterFitsAt; only_raises

theorem contentAfterFits_or (S : Schema) (rt : RPos) (depth : Nat) (ty : TypeId) (st : Option Nat) (o : Bool) :
    OnlyRaises (contentAfterFits S rt depth ty st o) := by
  have h1 := contentAfterFitsAt_or S
  unfold contentAfterFits; only_raises

theorem closeFrontierNode_or (S : Schema) (fr : List FItem) (placed : List Node) :
    OnlyRaises (closeFrontierNode S fr placed) := by
  have h1 := fillOpt_or S
  have h2 := getSt_or
  have h3 := addToFragment_or
  unfold closeFrontierNode; only_raises

theorem closeMany_or (S : Schema) : ∀ (n : Nat) (fr : List FItem) (placed : List Node),
    OnlyRaises (closeMany S n fr placed)
  | 0, fr, placed => by unfold closeMany; only_raises
  | n + 1, fr, placed => by
    have ih := closeMany_or S n
    have h1 := closeFrontierNode_or S
    unfold closeMany; only_raises

theorem createNodeO_or (S : Schema) (ty : TypeId) (attrs : Option Attrs) (content : List Node) :
    OnlyRaises (S.createNodeO ty attrs content) := by
  unfold Schema.createNodeO; only_raises

theorem openFrontierNode_or (S : Schema) (fr : List FItem) (placed : List Node) (ty : TypeId)
    (attrs : Option Attrs) (content : List Node) :
    OnlyRaises (openFrontierNode S fr placed ty attrs content) := by
  have h1 := getItem_or
  have h2 := getSt_or
  have h3 := createNodeO_or S
  have h4 := addToFragment_or
  unfold openFrontierNode; only_raises

theorem openMany_or (S : Schema) : ∀ (ws : List TypeId) (fr : List FItem) (placed : List Node),
    OnlyRaises (openMany S ws fr placed)
  | [], fr, placed => by unfold openMany; only_raises
  | w :: ws, fr, placed => by
    have ih := openMany_or S ws
    have h1 := openFrontierNode_or S
    unfold openMany; only_raises

theorem fittableStart_or (S : Schema) (total : Nat) : ∀ (n d : Nat) (cur : List Node) (oe : Nat),
    OnlyRaises (fittableStart S total n d cur oe)
  | 0, d, cur, oe => by unfold fittableStart; only_raises
  | n + 1, d, cur, oe => by
    have ih := fittableStart_or S total n
    unfold fittableStart; only_raises

theorem frontierHit_or (S : Schema) (pass2 : Bool) (sd : Nat) (parent first : Option Node)
    (it : FItem) (fd : Nat) : OnlyRaises (frontierHit S pass2 sd parent first it fd) := by
  have h1 := fillOpt_or S
  have h2 := getSt_or
  unfold frontierHit; only_raises

theorem frontierBreak_or (S : Schema) (parent : Option Node) (it : FItem) :
    OnlyRaises (frontierBreak S parent it) := by
  have h2 := getSt_or
  unfold frontierBreak; only_raises

theorem scanFrontier_or (S : Schema) (pass2 : Bool) (sd : Nat) (parent first : Option Node)
    (fr : List FItem) : ∀ n, OnlyRaises (scanFrontier S pass2 sd parent first fr n)
  | 0 => by unfold scanFrontier; only_raises
  | n + 1 => by
    have ih := scanFrontier_or S pass2 sd parent first fr n
    have h1 := getItem_or
    have h2 := frontierHit_or S
    have h3 := frontierBreak_or S
    unfold scanFrontier; only_raises

theorem sliceLevel_or (u : Slice) (sd : Nat) : OnlyRaises (sliceLevel u sd) := by
  have h1 := contentAt_or
  unfold sliceLevel; only_raises

theorem scanSlice_or (S : Schema) (pass2 : Bool) (u : Slice) (fr : List FItem) :
    ∀ n, OnlyRaises (scanSlice S pass2 u fr n)
  | 0 => by unfold scanSlice; only_raises
  | n + 1 => by
    have ih := scanSlice_or S pass2 u fr n
    have h1 := sliceLevel_or
    have h2 := scanFrontier_or S
    unfold scanSlice; only_raises

theorem findFittable_or (S : Schema) (st : FitState) : OnlyRaises (findFittable S st) := by
  have h1 := fittableStart_or S
  have h2 := scanSlice_or S
  unfold findFittable; only_raises

theorem openMore_or (st : FitState) : OnlyRaises (openMore st) := by
  have h1 := contentAt_or
  unfold openMore; only_raises

theorem dropNode_or (st : FitState) : OnlyRaises (dropNode st) := by
  have h1 := contentAt_or
  have h2 := dropFromFragment_or
  unfold dropNode; only_raises

theorem takeLoop_or (S : Schema) (d : Dfa) (frontTy : TypeId) (openStart : Nat) (oec : Int) (total : Nat) :
    ∀ (rest : List Node) (taken q : Nat) (add : List Node),
      OnlyRaises (takeLoop S d frontTy openStart oec total rest taken q add)
  | [], taken, q, add => by unfold takeLoop; only_raises
  | next :: rest, taken, q, add => by
    have ih := takeLoop_or S d frontTy openStart oec total rest
    have h1 := closeNodeStart_or S
    unfold takeLoop; only_raises

theorem pushOpenEnd_or (S : Schema) : ∀ (n : Nat) (cur : List Node) (fr : List FItem),
    OnlyRaises (pushOpenEnd S n cur fr)
  | 0, cur, fr => by unfold pushOpenEnd; only_raises
  | n + 1, cur, fr => by
    have ih := pushOpenEnd_or S n
    have h2 := @liftRaise_or
    unfold pushOpenEnd; only_raises

theorem placeRest_or (slice : Slice) (sd taken : Nat) (toEnd : Bool) (oec : Int) :
    OnlyRaises (placeRest slice sd taken toEnd oec) := by
  have h2 := dropFromFragment_or
  unfold placeRest; only_raises

theorem placeNodes_or (S : Schema) (st : FitState) (fit : Fittable) : OnlyRaises (placeNodes S st fit) := by
  have h1 := closeMany_or S
  have h2 := openMany_or S
  have h3 := getItem_or
  have h4 := getSt_or
  have h5 := @liftRaise_or
  have h6 := takeLoop_or S
  have h7 := addToFragment_or
  have h8 := closeFrontierNode_or S
  have h9 := pushOpenEnd_or S
  have h10 := placeRest_or
  unfold placeNodes; only_raises

/-- **one iteration of the `fit` loop fails with `raises` only** -/
theorem fitStep_or (S : Schema) (st : FitState) : OnlyRaises (fitStep S st) := by
  have h1 := findFittable_or S
  have h2 := placeNodes_or S
  have h3 := openMore_or
  have h4 := dropNode_or
  unfold fitStep; only_raises

/-! ### after the loop: `must_move_inline`, `close` -/

theorem closeInner_or (S : Schema) (rt : RPos) (fr : List FItem) : ∀ n, OnlyRaises (closeInner S rt fr n)
  | 0 => by unfold closeInner; only_raises
  | n + 1 => by
    have ih := closeInner_or S rt fr n
    have h1 := getItem_or
    have h2 := contentAfterFits_or S
    unfold closeInner; only_raises

theorem closeMove_or (doc : Node) (rt : RPos) (i : Nat) (b : Bool) : OnlyRaises (closeMove doc rt i b) := by
  have h2 := @liftRaise_or
  unfold closeMove; only_raises

theorem findCloseLevelLoop_or (S : Schema) (doc : Node) (rt : RPos) (fr : List FItem) :
    ∀ n, OnlyRaises (findCloseLevelLoop S doc rt fr n)
  | 0 => by unfold findCloseLevelLoop; only_raises
  | n + 1 => by
    have ih := findCloseLevelLoop_or S doc rt fr n
    have h1 := getItem_or
    have h2 := contentAfterFits_or S
    have h3 := closeInner_or S
    have h4 := closeMove_or
    unfold findCloseLevelLoop; only_raises

theorem findCloseLevel_or (S : Schema) (doc : Node) (rt : RPos) (fr : List FItem) :
    OnlyRaises (findCloseLevel S doc rt fr) := findCloseLevelLoop_or S doc rt fr _

theorem moveBlocked_or (S : Schema) (doc : Node) (rt : RPos) (fr : List FItem) :
    OnlyRaises (moveBlocked S doc rt fr) := by
  have h1 := findCloseLevel_or S
  unfold moveBlocked; only_raises

theorem mustMoveInline_or (S : Schema) (doc : Node) (rt : RPos) (fr : List FItem) :
    OnlyRaises (mustMoveInline S doc rt fr) := by
  have h1 := getItem_or
  have h2 := contentAfterFits_or S
  have h3 := moveBlocked_or S
  have h4 := @liftRaise_or
  unfold mustMoveInline; only_raises

theorem reopen_or (S : Schema) (mv : RPos) : ∀ (n d : Nat) (fr : List FItem) (placed : List Node),
    OnlyRaises (reopen S mv n d fr placed)
  | 0, d, fr, placed => by unfold reopen; only_raises
  | n + 1, d, fr, placed => by
    have ih := reopen_or S mv n
    have h1 := fillOpt_or S
    have h2 := openFrontierNode_or S
    unfold reopen; only_raises

theorem closeFit_or (S : Schema) (doc : Node) (rt : RPos) (fr : List FItem) (placed : List Node) :
    OnlyRaises (closeFit S doc rt fr placed) := by
  have h1 := findCloseLevel_or S
  have h2 := closeMany_or S
  have h3 := addToFragment_or
  have h4 := reopen_or S
  unfold closeFit; only_raises

theorem closeTarget_or (doc : Node) (rt : RPos) (mi : Option Nat) : OnlyRaises (closeTarget doc rt mi) := by
  have h2 := @liftRaise_or
  unfold closeTarget; only_raises

theorem mapM_or {α β : Type} (f : α → FM β) (hf : ∀ a, OnlyRaises (f a)) : ∀ l : List α, OnlyRaises (l.mapM f)
  | [] => by simp only [List.mapM_nil]; exact OnlyRaises.pure _
  | a :: l => by
    have ih := mapM_or f hf l
    simp only [List.mapM_cons]
    only_raises

theorem fitInit_or (S : Schema) (rf : RPos) (sl : Slice) : OnlyRaises (fitInit S rf sl) := by
  unfold fitInit
  refine OnlyRaises.bind (mapM_or _ (fun i => ?_) _) (fun _ => OnlyRaises.pure _)
  have h2 := @liftRaise_or
  only_raises

end PM
