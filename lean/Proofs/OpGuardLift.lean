/- Proofs/OpGuardLift.lean — the `gapClean` hypothesis of `replaceAround_undo_structural` (Props/C04.lean) for the
   replace-around step `Transform.lift` emits (`liftStep`, PM/StructEdit.lean): between the step's `from` and the
   gap the document holds open tokens only, between the gap and the step's `to` close tokens only, so in the old
   slice `doc.slice(from, to)` the gap is reached by descending into first children (no node before it at any
   level: no seam) and is the complete content of the node it lies in. -/
import Proofs.OpGuardSplit
import Proofs.UndoFit
import PM.UndoGuard
import Proofs.LevelReplace
import Proofs.LiftSplit
namespace PM

/-! ### a gap that is a run of whole children at the head of a list -/

theorem gapEnd_none_run : ∀ (l r : List Node), gapEnd none (l ++ r) (fsize l) = true
  | [], [] => by simp [gapEnd]
  | [], n :: ns => by simp [gapEnd, seamFree]
  | n :: ns, r => by
    have ih := gapEnd_none_run ns r
    simp only [List.cons_append, gapEnd, fsize_cons]
    split
    · rfl
    · simp only [Nat.le_add_right, decide_true, Bool.true_and, Nat.add_sub_cancel_left]
      exact ih

theorem gapClean_run (l : List Node) : gapClean l none 0 (fsize l) = true := by
  cases l with
  | nil => simp [gapClean]
  | cons n ns =>
    have := gapEnd_none_run (n :: ns) []
    simp only [List.append_nil] at this
    unfold gapClean
    rw [if_pos rfl]
    exact this

/-! ### the gap below `k` open tokens -/

theorem termOk_of_cls : ∀ (l : List Tok), (∀ x ∈ l, x = Tok.cl) → termOk l = true
  | [], _ => rfl
  | x :: r, h => by
    have := h x List.mem_cons_self
    subst this
    rfl

/-- a normal-form list whose tokens (followed by `r`) are `k` open tokens, the tokens of `mid`, close tokens:
    the gap `mid` is clean in it -/
theorem gapClean_of_toks : ∀ (k : Nat) (ops : List Tok) (c mid : List Node) (tail r : List Tok),
    fnorm c = true → fnorm mid = true → ops.length = k → ops.all Tok.isOp = true →
    (∀ x ∈ tail, x = Tok.cl) → termOk r = true → ftoks c ++ r = ops ++ (ftoks mid ++ tail) →
    k + fsize mid ≤ fsize c ∧ gapClean c none k (k + fsize mid) = true
  | 0, ops, c, mid, tail, r, hc, hm, hk, _, ht, hr, e => by
    have : ops = [] := List.eq_nil_of_length_eq_zero hk
    subst this
    simp only [List.nil_append] at e
    simp only [fnorm, Bool.and_eq_true] at hc hm
    obtain ⟨rfl, _⟩ := ftoks_inj_aux c mid r tail hc.1 hc.2 hm.1 hm.2 hr (termOk_of_cls tail ht) e
    exact ⟨by omega, by simpa using gapClean_run c⟩
  | k + 1, ops, c, mid, tail, r, hc, hm, hk, ho, ht, hr, e => by
    cases ops with
    | nil => simp at hk
    | cons o ops' =>
      simp only [List.length_cons, Nat.add_right_cancel_iff] at hk
      simp only [List.all_cons, Bool.and_eq_true] at ho
      cases c with
      | nil =>
        exfalso
        simp only [ftoks, List.nil_append] at e
        subst e
        cases o <;> simp [termOk, Tok.isOp] at hr ho
      | cons n ns =>
        have hcn : n.norm = true ∧ fnorm ns = true := by
          simp only [fnorm, fnormKids_cons, Bool.and_eq_true] at hc ⊢
          exact ⟨hc.1.1, hc.1.2, chainOk_tail hc.2⟩
        obtain ⟨x, rest, ex, _, hx⟩ := Node.toks_head_norm n hcn.1
        rw [ftoks_cons, ex] at e
        simp only [List.cons_append, List.cons.injEq] at e
        obtain ⟨e1, e2⟩ := e
        subst e1
        obtain ⟨t, a, m, kids, rfl⟩ := hx ho.1
        simp only [Node.toks_elem, List.cons.injEq] at ex
        obtain ⟨rfl, rfl⟩ := ex
        have hkn : fnorm kids = true := by rw [← Node.norm_elem t a m kids]; exact hcn.1
        have e3 : ftoks kids ++ (Tok.cl :: (ftoks ns ++ r)) = ops' ++ (ftoks mid ++ tail) := by
          simpa [List.append_assoc] using e2
        obtain ⟨i1, i2⟩ := gapClean_of_toks k ops' kids mid tail _ hkn hm hk ho.2 ht rfl e3
        refine ⟨by simp only [fsize_cons, Node.size_elem]; omega, ?_⟩
        unfold gapClean
        rw [if_neg (by omega), if_neg (by simp only [Node.size_elem]; omega)]
        simp only [Node.size_elem, Bool.and_eq_true, decide_eq_true_eq]
        refine ⟨by omega, ?_⟩
        rw [show k + 1 - 1 = k by omega, show k + 1 + fsize mid - 1 = k + fsize mid by omega]
        exact i2

/-! ### the open spines of a slice's content in its tokens -/

theorem take_spineL_ops : ∀ (k : Nat) (c : List Node), k ≤ spineL c →
    ((ftoks c).take k).all Tok.isOp = true
  | 0, _, _ => by simp
  | k + 1, [], h => by simp [spineL] at h
  | k + 1, .text s m :: rest, h => by simp [spineL] at h
  | k + 1, .leaf t a m :: rest, h => by simp [spineL] at h
  | k + 1, .elem t a m kids :: rest, h => by
    have hk : k ≤ spineL kids := by simp only [spineL_elem_cons] at h; omega
    have ih := take_spineL_ops k kids hk
    have hle := spineL_le kids
    have e : (ftoks (Node.elem t a m kids :: rest)).take (k + 1)
        = Tok.op t a m :: (ftoks kids).take k := by
      simp only [ftoks_cons, Node.toks_elem, List.cons_append, List.take_succ_cons, List.append_assoc]
      rw [List.take_append_of_le_length (by rw [ftoks_length]; omega)]
    rw [e, List.all_cons, ih]
    rfl

theorem ftoks_spineR : ∀ (c : List Node), ∃ pre, ftoks c = pre ++ List.replicate (spineR c) Tok.cl
  | [] => ⟨[], by simp [ftoks, spineR]⟩
  | [.elem t a m kids] => by
    obtain ⟨pre, e⟩ := ftoks_spineR kids
    refine ⟨Tok.op t a m :: pre, ?_⟩
    rw [spineR_elem_single, Nat.add_comm, List.replicate_succ']
    simp [e]
  | [.text s m] => ⟨ftoks [.text s m], by simp [spineR]⟩
  | [.leaf t a m] => ⟨ftoks [.leaf t a m], by simp [spineR]⟩
  | x :: n :: ns => by
    obtain ⟨pre, e⟩ := ftoks_spineR (n :: ns)
    refine ⟨x.toks ++ pre, ?_⟩
    rw [ftoks_cons, e]
    simp [spineR]

theorem drop_spineR_cls (c : List Node) (k : Nat) (hk : k ≤ spineR c) :
    ∀ x ∈ (ftoks c).drop (fsize c - k), x = Tok.cl := by
  obtain ⟨pre, e⟩ := ftoks_spineR c
  have hl : pre.length + spineR c = fsize c := by
    have := congrArg List.length e
    rw [ftoks_length] at this
    simpa using this.symm
  intro x hx
  rw [e, List.drop_append, List.drop_of_length_le (by omega), List.nil_append] at hx
  exact List.eq_of_mem_replicate (List.mem_of_mem_drop hx)

/-! ### windows of a token list -/

theorem window_split {α} (D : List α) (a b c : Nat) (hab : a ≤ b) (hbc : b ≤ c) :
    (D.drop a).take (c - a) = (D.drop a).take (b - a) ++ (D.drop b).take (c - b) := by
  rw [show c - a = (b - a) + (c - b) by omega, List.take_add, List.drop_drop,
    show a + (b - a) = b by omega]

theorem OpsWin.all {G : List Tok} {lo hi : Nat} (h : OpsWin G lo hi) :
    ((G.drop lo).take (hi - lo)).all Tok.isOp = true := by
  simp only [List.all_eq_true]
  intro x hx
  obtain ⟨i, h1, h2, h3⟩ := mem_window hx
  obtain ⟨ty, a, m, e⟩ := h i h1 (by omega)
  rw [e] at h3
  simp only [Option.some.injEq] at h3
  subst h3
  rfl

theorem ClsWin.all {G : List Tok} {lo hi : Nat} (h : ClsWin G lo hi) :
    ∀ x ∈ (G.drop lo).take (hi - lo), x = Tok.cl := by
  intro x hx
  obtain ⟨i, h1, h2, h3⟩ := mem_window hx
  have e := h i h1 (by omega)
  rw [e] at h3
  simp only [Option.some.injEq] at h3
  exact h3.symm

/-! ### the old slice of a range with opens before the gap and closes after it -/

/-- in the slice `kids.slice(f, t)`, a gap `gs … ge` that is a closed slice of `kids`, with open tokens only
    between `f` and `gs` and close tokens only between `ge` and `t`, is clean -/
theorem gapClean_of_windows (kids : List Node) (f gs ge t : Nat) (old gap : Slice)
    (hn : fnorm kids = true) (h1 : f ≤ gs) (h2 : gs ≤ ge) (h3 : ge ≤ t)
    (hold : sliceKids kids f t = .ok old) (hgap : sliceKids kids gs ge = .ok gap)
    (hgc : gap.openStart = 0 ∧ gap.openEnd = 0)
    (hops : OpsWin (ftoks kids) f gs) (hcls : ClsWin (ftoks kids) ge t) :
    gapClean old.content none (gs - f + old.openStart) (ge - f + old.openStart) = true := by
  by_cases hft : f = t
  · subst hft
    have e1 : gs = f := by omega
    have e2 : ge = f := by omega
    subst e1 e2
    simp [sliceKids] at hold
    subst hold
    simp [Slice.empty, gapClean]
  · have htk : t ≤ fsize kids := by
      unfold sliceKids at hold
      rw [if_neg hft] at hold
      split at hold
      · simp at hold
      · rename_i hg
        simp [inRange] at hg
        omega
    obtain ⟨hon, hwf⟩ := sliceKids_norm kids f t old hn hold
    obtain ⟨hgn, _⟩ := sliceKids_norm kids gs ge gap hn hgap
    have hosz := sliceKids_size kids f t old (by omega) htk hold
    have hOt := sliceKids_toks kids f t old (by omega) htk hold
    have hgclosed : gap = ⟨gap.content, 0, 0⟩ := by
      cases gap; simp at hgc; simp [hgc.1, hgc.2]
    have hGt : ftoks gap.content = ((ftoks kids).drop gs).take (ge - gs) := by
      rw [← Slice.toks_closed, ← hgclosed]
      exact sliceKids_toks kids gs ge gap h2 (by omega) hgap
    have hGs : fsize gap.content = ge - gs := by
      have := congrArg List.length hGt
      rw [ftoks_length, List.length_take, List.length_drop, ftoks_length] at this
      omega
    simp only [Slice.wf, Bool.and_eq_true, decide_eq_true_eq] at hwf
    simp only [Slice.size] at hosz
    have hsp := spine_sum_le old.content
    -- the tokens of the old slice's content
    have hsplit : ftoks old.content
        = (ftoks old.content).take old.openStart ++
          (old.toks ++ (ftoks old.content).drop (fsize old.content - old.openEnd)) := by
      simp only [Slice.toks]
      conv => lhs; rw [← List.take_append_drop old.openStart (ftoks old.content)]
      congr 1
      conv => lhs; rw [← List.take_append_drop (fsize old.content - old.openStart - old.openEnd)
        ((ftoks old.content).drop old.openStart)]
      congr 1
      rw [List.drop_drop]
      congr 1
      omega
    rw [hOt, window_split (ftoks kids) f gs t h1 (by omega), window_split (ftoks kids) gs ge t h2 h3,
      ← hGt] at hsplit
    have key := gapClean_of_toks (old.openStart + (gs - f))
      ((ftoks old.content).take old.openStart ++ ((ftoks kids).drop f).take (gs - f))
      old.content gap.content
      (((ftoks kids).drop ge).take (t - ge) ++ (ftoks old.content).drop (fsize old.content - old.openEnd))
      [] hon hgn
      (by
        rw [List.length_append, List.length_take, List.length_take, List.length_drop, ftoks_length, ftoks_length]
        omega)
      (by rw [List.all_append, take_spineL_ops _ _ hwf.1, hops.all]; rfl)
      (by
        intro x hx
        rcases List.mem_append.mp hx with hx | hx
        · exact hcls.all x hx
        · exact drop_spineR_cls old.content old.openEnd hwf.2 x hx)
      rfl
      (by rw [List.append_nil]; conv => lhs; rw [hsplit]
          simp only [List.append_assoc])
    rw [hGs] at key
    rw [show gs - f + old.openStart = old.openStart + (gs - f) by omega,
      show ge - f + old.openStart = old.openStart + (gs - f) + (ge - gs) by omega]
    exact key.2

/-! ### lift -/

/-- the step `lift` builds for a range whose two ends are child boundaries at `depth`: between its `from` and the
    gap the document holds open tokens only, between the gap and its `to` close tokens only (the loops only step
    over levels at which the range starts at the first / ends at the last child) -/
theorem liftStepR_windows (S : Schema) {doc : Node} {a b : Nat} {f t : RPos} (hf : doc.resolve a = some f)
    (ht : doc.resolve b = some t) (depth target : Nat) (hab : a ≤ b)
    (hfb : depth < f.depth ∨ f.textOffset = 0)
    (htb : depth < t.depth ∨ t.textOffset = 0) (st : Step) (hb : liftStepR f t depth target = .ok st) :
    ∃ gs ge ml mr sl ins, st = .replaceAround (gs - ml) (ge + mr) gs ge sl ins true ∧ ml ≤ gs ∧ gs ≤ ge ∧
      OpsWin (ftoks doc.kids) (gs - ml) gs ∧ ClsWin (ftoks doc.kids) ge (ge + mr) := by
  have Rf := resolve_resolved hf
  have Rt := resolve_resolved ht
  unfold liftStepR at hb
  cases hgs : f.before (depth + 1) with
  | none => simp [hgs] at hb
  | some gs =>
  cases hge : t.after (depth + 1) with
  | none => simp [hgs, hge] at hb
  | some ge =>
  simp only [hgs, hge] at hb
  have hdf : depth ≤ f.depth := by
    have hbf := hgs
    unfold RPos.before at hbf
    simp only [Nat.add_eq_zero_iff, Nat.succ_ne_self, and_false, if_false] at hbf
    split at hbf
    · omega
    · split at hbf
      · omega
      · simp at hbf
  have hdt : depth ≤ t.depth := by
    have hafter := hge
    unfold RPos.after at hafter
    simp only [Nat.add_eq_zero_iff, Nat.succ_ne_self, and_false, if_false] at hafter
    split at hafter
    · omega
    · split at hafter
      · omega
      · simp at hafter
  have hle1 := Rf.before_le depth gs hgs
  have hle2 := Rt.le_after depth ge hge
  by_cases htd : target ≤ depth
  · -- the start of the range is the boundary in front of child `index(depth)`
    have hgs' : gs = f.start depth + fsize ((f.node depth).kids.take (f.index depth)) := by
      have Ef := Rf.entry depth hdf
      have hpf : (f.entry depth).pos = f.start depth + fsize ((f.node depth).kids.take (f.index depth)) :=
        Ef.pos_eq
      rcases Nat.lt_or_ge depth f.depth with hlt | hge'
      · have hgs2 := hgs
        rw [Rf.before_eq (depth + 1) (by omega) (by omega), Resolved.start_succ] at hgs2
        simp only [Nat.add_sub_cancel, Option.some.injEq] at hgs2
        omega
      · have hd : depth = f.depth := by omega
        have hto := hfb.resolve_left (by omega)
        have hgs2 := hgs
        simp only [RPos.before, hd, Nat.add_eq_zero_iff, Nat.succ_ne_self, and_false, if_false, if_true,
          Option.some.injEq] at hgs2
        have hple := Ef.pos_le
        unfold RPos.textOffset at hto
        rw [Rf.pos_eq] at hgs2 hto
        rw [hd] at hpf hple ⊢
        omega
    -- the end of the range is the boundary behind child `indexAfter(depth) - 1`
    have hge' : ge = t.start depth + fsize ((t.node depth).kids.take (t.indexAfter depth)) := by
      have Et := Rt.entry depth hdt
      have hpt : (t.entry depth).pos = t.start depth + fsize ((t.node depth).kids.take (t.index depth)) :=
        Et.pos_eq
      rcases Nat.lt_or_ge depth t.depth with hlt | hge''
      · have hge2 := hge
        rw [Rt.after_eq (depth + 1) (by omega) (by omega), Resolved.end_eq, Resolved.start_succ] at hge2
        simp only [Option.some.injEq] at hge2
        have hsz := (Rt.chain depth hlt).2
        have hc := (Rt.chain depth hlt).1
        have hia : t.indexAfter depth = t.index depth + 1 := by
          unfold RPos.indexAfter
          rw [if_neg (by simp; omega)]
        rw [hia, fsize_take_succ _ _ _ hc]
        omega
      · have hd : depth = t.depth := by omega
        have hto := htb.resolve_left (by omega)
        have hge2 := hge
        simp only [RPos.after, hd, Nat.add_eq_zero_iff, Nat.succ_ne_self, and_false, if_false, if_true,
          Option.some.injEq] at hge2
        have hia : t.indexAfter depth = t.index depth := by
          unfold RPos.indexAfter
          rw [if_pos (by simp [hd, hto]), Nat.add_zero]
        have hple := Et.pos_le
        unfold RPos.textOffset at hto
        rw [Rt.pos_eq] at hge2 hto
        rw [hia]
        rw [hd] at hpt hple ⊢
        omega
    -- the left loop
    have hLinit : LiftLInv S doc f gs depth target (depth - target) [] 0 0 false none true :=
      ⟨Nat.zero_le _, fun i h1 h2 => by omega,
        .inl ⟨rfl, rfl, rfl, rfl, by rw [show target + (depth - target) = depth by omega]; omega⟩⟩
    obtain ⟨before, oS, mL, accL, okL, hsideL, _, hfinL⟩ :=
      left_loop S hf gs depth target hdf (depth - target) [] 0 0 false none true (by omega) hLinit
    -- the right loop
    have hbR : ∀ d, target < d → d ≤ depth →
        t.afterT (d + 1) = t.start d + fsize ((t.node d).kids.take (t.indexAfter d)) := by
      intro d h1 h2
      rcases Nat.lt_or_ge d depth with hlt | hge2
      · obtain ⟨hc', _⟩ := Rt.chain d (by omega)
        have hp : (t.entry d).pos = t.start d + fsize ((t.node d).kids.take (t.index d)) :=
          (Rt.entry d (by omega)).pos_eq
        have hia : t.indexAfter d = t.index d + 1 := by
          unfold RPos.indexAfter
          rw [if_neg (by simp; omega)]
        unfold RPos.afterT
        rw [if_neg (by omega), hia, fsize_take_succ _ _ _ hc']
        simp only [Nat.add_sub_cancel]
        omega
      · have : d = depth := by omega
        subst this
        rw [afterT_of_after hge]
        exact hge'
    have hRinit : RInv S doc t ge depth target (depth - target) [] 0 0 false none true :=
      ⟨fun i h1 h2 => by omega,
        .inl ⟨rfl, rfl, rfl, rfl, by rw [show target + (depth - target) = depth by omega]; omega⟩⟩
    obtain ⟨after, oE, mR, accR, okR, hsideR, _, hfinR⟩ :=
      right_loop S ht ge depth target hdt hbR (depth - target) [] 0 0 false none true (by omega) hRinit
    rw [hsideL, hsideR] at hb
    simp only [Except.ok.injEq] at hb
    subst hb
    exact ⟨gs, ge, mL, mR, _, _, rfl, hfinL.1, by omega, hfinL.2.1, hfinR.1⟩
  · have e0 : depth - target = 0 := by omega
    rw [e0] at hb
    simp only [liftSide, Except.ok.injEq] at hb
    subst hb
    exact ⟨gs, ge, 0, 0, _, _, rfl, Nat.zero_le _, by omega, fun i h1 h2 => by omega, fun i h1 h2 => by omega⟩

/-- **lift**: in the old slice `doc.slice(from, to)` of the emitted replace-around step the gap is clean
    (`gapClean`, the hypothesis of `replaceAround_undo_structural`), when the two ends of the range are child
    boundaries at `depth` (`hfb`, `htb`; so for every `NodeRange` of `block_range`). -/
theorem lift_gapClean (S : Schema) (doc doc' : Node) (a b depth target : Nat) (st : Step) (rf rt : RPos)
    (hn : fnorm doc.kids = true) (hab : a ≤ b)
    (hf : doc.resolve a = some rf) (ht : doc.resolve b = some rt)
    (hfb : depth < rf.depth ∨ rf.textOffset = 0) (htb : depth < rt.depth ∨ rt.textOffset = 0)
    (hb : liftStep doc a b depth target = .ok st) (h : S.apply st doc = .ok doc') :
    ∀ f t gf gt sl ins bb, st = .replaceAround f t gf gt sl ins bb →
      ∀ old, doc.slice f t = .ok old →
        gapClean old.content none (gf - f + old.openStart) (gt - f + old.openStart) = true := by
  unfold liftStep at hb
  simp only [hf, ht] at hb
  obtain ⟨gs, ge, ml, mr, sl0, ins0, rfl, h1, h2, hops, hcls⟩ :=
    liftStepR_windows S hf ht depth target hab hfb htb st hb
  intro f t gf gt sl ins bb e old hold
  simp only [Step.replaceAround.injEq] at e
  obtain ⟨rfl, rfl, rfl, rfl, rfl, rfl, rfl⟩ := e
  obtain ⟨gap, _, hgap, hg1, hg2, _, _⟩ := apply_replaceAround_parts S doc doc' _ _ _ _ _ _ _ h
  exact gapClean_of_windows doc.kids (gs - ml) gs ge (ge + mr) old gap hn (by omega) h2 (by omega) hold hgap
    ⟨hg1, hg2⟩ hops hcls

end PM
