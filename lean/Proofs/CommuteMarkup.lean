/-
  Proofs/CommuteMarkup.lean — helper lemmas for the markup-step clauses of Props/C17.lean and the
  "same content" corollaries of Props/C03.lean.

  Every markup step (add/remove mark, add/remove node mark, attr, doc-attr) acts on the token
  sequence as a *window map* `winMap h lo hi`: tokens with index in `[lo, hi)` are rewritten by a
  function `h` of the token and of the type of its enclosing node, all others are untouched, and the
  shapes (structure and text) never change.  Commutation is then algebra on window maps.
-/
import PM.Step
import Proofs.StepToks
import Proofs.StepMap
import Proofs.MarkEffect
import Proofs.Commute
namespace PM

/-! ### window maps -/

def winMap (h : TypeId → Tok → Tok) (lo hi : Nat) (top : TypeId) (l : List Tok) : List Tok :=
  mapIdxCtx (fun i p tok => if lo ≤ i ∧ i < hi then h p tok else tok) top l

theorem winMap_length (h : TypeId → Tok → Tok) (lo hi : Nat) (top : TypeId) (l : List Tok) :
    (winMap h lo hi top l).length = l.length := mapIdxCtx_length _ _ _

theorem winMap_getElem? (h : TypeId → Tok → Tok) (lo hi : Nat) (top : TypeId) (l : List Tok) (i : Nat) :
    (winMap h lo hi top l)[i]? =
      if lo ≤ i ∧ i < hi then (l[i]?).map (h ((ctxOf top l).getD i 0)) else l[i]? := by
  unfold winMap
  rw [mapIdxCtx_getElem?]
  by_cases hi' : i < l.length
  · have e : l.getD i Tok.cl = l[i] := by
      rw [List.getD_eq_getElem?_getD, List.getElem?_eq_getElem hi']; rfl
    rw [if_pos hi', e, List.getElem?_eq_getElem hi']
    split <;> rfl
  · rw [if_neg hi', List.getElem?_eq_none (by omega)]
    split <;> rfl

theorem winMap_shape (h : TypeId → Tok → Tok) (lo hi : Nat) (top : TypeId) (l : List Tok)
    (hs : ∀ p tok, (h p tok).shape = tok.shape) :
    (winMap h lo hi top l).map Tok.shape = l.map Tok.shape := by
  unfold winMap
  apply mapIdxCtx_shape
  intro i p tok
  split
  · exact hs p tok
  · rfl

/-- the enclosing types depend on the shapes only -/
theorem ctxAux_shape : ∀ (l l' : List Tok) (st : List TypeId),
    l.map Tok.shape = l'.map Tok.shape → ctxAux st l = ctxAux st l'
  | [], [], _, _ => rfl
  | [], _ :: _, _, h => by simp at h
  | _ :: _, [], _, h => by simp at h
  | a :: l, b :: l', st, h => by
    simp only [List.map_cons, List.cons.injEq] at h
    obtain ⟨hab, hl⟩ := h
    cases a <;> cases b <;> simp [Tok.shape] at hab <;>
      simp [ctxAux, hab, ctxAux_shape l l' _ hl]

theorem ctxOf_winMap (h : TypeId → Tok → Tok) (lo hi : Nat) (top : TypeId) (l : List Tok)
    (hs : ∀ p tok, (h p tok).shape = tok.shape) :
    ctxOf top (winMap h lo hi top l) = ctxOf top l :=
  ctxAux_shape _ _ _ (winMap_shape h lo hi top l hs)

/-- the enclosing type of a token depends only on the tokens before it -/
theorem ctxOf_prefix (top : TypeId) (A B B' : List Tok) (i : Nat) (hi : i < A.length) :
    (ctxOf top (A ++ B)).getD i 0 = (ctxOf top (A ++ B')).getD i 0 := by
  unfold ctxOf
  rw [ctxAux_append, ctxAux_append, List.getD_eq_getElem?_getD, List.getD_eq_getElem?_getD,
    List.getElem?_append_left (by rw [ctxAux_length]; exact hi),
    List.getElem?_append_left (by rw [ctxAux_length]; exact hi)]

/-- **two window maps on disjoint windows commute** -/
theorem winMap_comm (h1 h2 : TypeId → Tok → Tok) (lo1 hi1 lo2 hi2 : Nat) (top : TypeId) (l : List Tok)
    (hs1 : ∀ p tok, (h1 p tok).shape = tok.shape) (hs2 : ∀ p tok, (h2 p tok).shape = tok.shape)
    (hd : hi1 ≤ lo2 ∨ hi2 ≤ lo1) :
    winMap h2 lo2 hi2 top (winMap h1 lo1 hi1 top l) = winMap h1 lo1 hi1 top (winMap h2 lo2 hi2 top l) := by
  apply List.ext_getElem?
  intro i
  rw [winMap_getElem?, winMap_getElem?, winMap_getElem?, winMap_getElem?,
    ctxOf_winMap _ _ _ _ _ hs1, ctxOf_winMap _ _ _ _ _ hs2]
  by_cases a : lo1 ≤ i ∧ i < hi1
  · have b : ¬ (lo2 ≤ i ∧ i < hi2) := by omega
    simp [a, b]
  · by_cases b : lo2 ≤ i ∧ i < hi2
    · simp [a, b]
    · simp [a, b]

/-! ### a window map against a splice -/

theorem splice_getElem? {α} (L S : List α) (f t i : Nat) (hf : f ≤ L.length) :
    (L.take f ++ S ++ L.drop t)[i]? =
      if i < f then L[i]? else if i < f + S.length then S[i - f]? else L[t + (i - f - S.length)]? := by
  have hl : (L.take f).length = f := by simp; omega
  by_cases h1 : i < f
  · rw [if_pos h1, List.append_assoc, List.getElem?_append_left (by omega), List.getElem?_take_of_lt h1]
  · rw [if_neg h1]
    by_cases h2 : i < f + S.length
    · rw [if_pos h2, List.getElem?_append_left (by simp; omega),
        List.getElem?_append_right (by omega), hl]
    · rw [if_neg h2, List.getElem?_append_right (by simp; omega), List.getElem?_drop]
      simp only [List.length_append, hl]
      congr 1; omega

/-- a window before the replaced range: nothing to assume, the enclosing nodes of tokens before
    the range cannot change -/
theorem winMap_splice_before (h : TypeId → Tok → Tok) (lo hi : Nat) (top : TypeId) (L S : List Tok)
    (f t : Nat) (hhi : hi ≤ f) (hft : f ≤ t) (ht : t ≤ L.length) :
    winMap h lo hi top (L.take f ++ S ++ L.drop t) =
      (winMap h lo hi top L).take f ++ S ++ (winMap h lo hi top L).drop t := by
  apply List.ext_getElem?
  intro i
  rw [winMap_getElem?, splice_getElem? _ _ _ _ _ (by omega),
    splice_getElem? _ _ _ _ _ (by rw [winMap_length]; omega), winMap_getElem?, winMap_getElem?]
  by_cases h1 : i < f
  · have hc : (ctxOf top (L.take f ++ S ++ L.drop t)).getD i 0 = (ctxOf top L).getD i 0 := by
      have := ctxOf_prefix top (L.take f) (S ++ L.drop t) (L.drop f) i (by simp; omega)
      rwa [List.take_append_drop, ← List.append_assoc] at this
    simp only [h1, if_true, hc]
  · have a : ¬ (lo ≤ i ∧ i < hi) := by omega
    have b : ¬ (lo ≤ t + (i - f - S.length) ∧ t + (i - f - S.length) < hi) := by omega
    simp only [a, b, h1, if_false]

/-- a window after the replaced range, shifted by the size change; the window function must give
    the same result with the enclosing type before and after the splice -/
theorem winMap_splice_after (h : TypeId → Tok → Tok) (lo hi : Nat) (top : TypeId) (L S : List Tok)
    (f t : Nat) (hlo : t ≤ lo) (hft : f ≤ t) (ht : t ≤ L.length)
    (hst : ∀ i tok, lo ≤ i → i < hi → L[i]? = some tok →
      h ((ctxOf top (L.take f ++ S ++ L.drop t)).getD (f + S.length + (i - t)) 0) tok =
        h ((ctxOf top L).getD i 0) tok) :
    winMap h (f + S.length + (lo - t)) (f + S.length + (hi - t)) top (L.take f ++ S ++ L.drop t) =
      (winMap h lo hi top L).take f ++ S ++ (winMap h lo hi top L).drop t := by
  apply List.ext_getElem?
  intro i
  rw [winMap_getElem?, splice_getElem? _ _ _ _ _ (by omega),
    splice_getElem? _ _ _ _ _ (by rw [winMap_length]; omega), winMap_getElem?, winMap_getElem?]
  by_cases h1 : i < f
  · have a : ¬ (f + S.length + (lo - t) ≤ i ∧ i < f + S.length + (hi - t)) := by omega
    have b : ¬ (lo ≤ i ∧ i < hi) := by omega
    simp only [a, b, h1, if_true, if_false]
  · by_cases h2 : i < f + S.length
    · have a : ¬ (f + S.length + (lo - t) ≤ i ∧ i < f + S.length + (hi - t)) := by omega
      simp only [a, h1, h2, if_true, if_false]
    · simp only [h1, h2, if_false]
      by_cases a : f + S.length + (lo - t) ≤ i ∧ i < f + S.length + (hi - t)
      · have b : lo ≤ t + (i - f - S.length) ∧ t + (i - f - S.length) < hi := by omega
        rw [if_pos a, if_pos b]
        cases hg : L[t + (i - f - S.length)]? with
        | none => rfl
        | some tok =>
          simp only [Option.map_some, Option.some.injEq]
          have := hst _ tok b.1 b.2 hg
          rwa [show f + S.length + (t + (i - f - S.length) - t) = i by omega] at this
      · have b : ¬ (lo ≤ t + (i - f - S.length) ∧ t + (i - f - S.length) < hi) := by omega
        rw [if_neg a, if_neg b]

/-! ### every markup step is a window map -/

def Tok.attrs : Tok → Attrs
  | .op _ a _ => a
  | .leaf _ a _ => a
  | _ => []

/-- the attributes / marks a node-markup step asks `type.create` for -/
def stepAttrs : Step → Attrs → Attrs
  | .attr _ nm v, a => a.filter (·.1 != nm) ++ [(nm, v)]
  | _, a => a

def stepMarks (S : Schema) : Step → Marks → Marks
  | .addNodeMark _ m, ms => m.addToSet S ms
  | .removeNodeMark _ m, ms => m.removeFromSet ms
  | _, ms => ms

/-- `type.create(attrs, None, marks)` seen on the node's first token -/
def recreateTok (S : Schema) (tok : Tok) (attrs : Attrs) (marks : Marks) : Res Tok :=
  match tok with
  | .leaf t _ _ => (computeAttrs (S.nodeType t).attrs attrs).map (fun a => Tok.leaf t a (setFrom marks))
  | .op t _ _ => (computeAttrs (S.nodeType t).attrs attrs).map (fun a => Tok.op t a (setFrom marks))
  | _ => .error .valueError

/-- what a node-mark / attr step makes of the addressed token (`.error` = the step fails) -/
def nodeStepTok (S : Schema) (st : Step) (tok : Tok) : Res Tok :=
  recreateTok S tok (stepAttrs st tok.attrs) (stepMarks S st tok.marks)

theorem recreateTok_shape (S : Schema) (tok x : Tok) (attrs : Attrs) (marks : Marks)
    (h : recreateTok S tok attrs marks = .ok x) : x.shape = tok.shape := by
  unfold recreateTok at h
  cases tok with
  | op t a m =>
    simp only at h
    cases hc : computeAttrs (S.nodeType t).attrs attrs with
    | error e => rw [hc] at h; simp [Except.map] at h
    | ok a' => rw [hc] at h; simp [Except.map] at h; subst h; rfl
  | leaf t a m =>
    simp only at h
    cases hc : computeAttrs (S.nodeType t).attrs attrs with
    | error e => rw [hc] at h; simp [Except.map] at h
    | ok a' => rw [hc] at h; simp [Except.map] at h; subst h; rfl
  | cl => simp at h
  | unit u m => simp at h

theorem recreate_headTok (S : Schema) (n u : Node) (attrs : Attrs) (marks : Marks)
    (h : S.recreate n attrs marks = .ok u) :
    recreateTok S n.headTok attrs marks = .ok u.headTok ∧ n.headTok.attrs = n.attrs ∧
      n.headTok.marks = n.marks := by
  unfold Schema.recreate at h
  cases n with
  | text s m => simp at h
  | leaf t a m =>
    simp only at h
    cases hc : computeAttrs (S.nodeType t).attrs attrs with
    | error e => rw [hc] at h; simp [Except.map] at h
    | ok a' =>
      rw [hc] at h; simp [Except.map] at h; subst h
      simp [recreateTok, Node.headTok, hc, Except.map, Tok.attrs, Tok.marks, Node.attrs, Node.marks]
  | elem t a m k =>
    simp only at h
    cases hc : computeAttrs (S.nodeType t).attrs attrs with
    | error e => rw [hc] at h; simp [Except.map] at h
    | ok a' =>
      rw [hc] at h; simp [Except.map] at h; subst h
      simp [recreateTok, Node.headTok, hc, Except.map, Tok.attrs, Tok.marks, Node.attrs, Node.marks]

/-- a node-markup step at `pos` (`NodeStepAt pos st`) -/
def NodeStepAt (pos : Nat) (st : Step) : Prop :=
  (∃ m, st = .addNodeMark pos m) ∨ (∃ m, st = .removeNodeMark pos m) ∨ (∃ n v, st = .attr pos n v)

/-- the three node-markup steps with the arguments of `type.create` pinned -/
theorem nodeStep_full (S : Schema) (doc doc' : Node) (pos : Nat) (st : Step)
    (hst : NodeStepAt pos st) (h : S.apply st doc = .ok doc') :
    ∃ n u, doc.nodeAt pos = .ok (some n) ∧
      S.recreate n (stepAttrs st n.attrs) (stepMarks S st n.marks) = .ok u ∧
      S.fromReplace doc pos (pos + 1) ⟨[u], 0, if n.isLeaf then 0 else 1⟩ = .ok doc' := by
  rcases hst with ⟨m, rfl⟩ | ⟨m, rfl⟩ | ⟨nm, v, rfl⟩
  all_goals
    unfold Schema.apply at h
    simp only at h
    split at h
    · simp at h
    · simp at h
    · rename_i n hn
      split at h
      · simp at h
      · rename_i u hu
        exact ⟨n, u, hn, hu, h⟩

/-- **node-markup steps on tokens, with the new token named** -/
theorem apply_nodeStep_tok (S : Schema) (doc doc' : Node) (pos : Nat) (st : Step)
    (hst : NodeStepAt pos st) (h : S.apply st doc = .ok doc') :
    ∃ x, nodeStepTok S st ((ftoks doc.kids).getD pos Tok.cl) = .ok x ∧
      pos < fsize doc.kids ∧
      ftoks doc'.kids = (ftoks doc.kids).take pos ++ [x] ++ (ftoks doc.kids).drop (pos + 1) ∧
      doc'.sameMarkup doc = true := by
  obtain ⟨n, u, hn, hu, hr⟩ := nodeStep_full S doc doc' pos st hst h
  obtain ⟨h1, h2, h3, _, _, _, h7⟩ := nodeRepl_toks S doc doc' n u pos _ _ hn hu hr
  obtain ⟨r1, r2, r3⟩ := recreate_headTok S n u _ _ hu
  refine ⟨u.headTok, ?_, h1, h2, h7⟩
  unfold nodeStepTok
  rw [h3, r2, r3]; exact r1

/-- the token function of a markup step -/
def markupFn (S : Schema) (st : Step) : TypeId → Tok → Tok :=
  match st with
  | .addMark _ _ m => addTok S m
  | .removeMark _ _ m => fun _ => remTok S m
  | .addNodeMark .. | .removeNodeMark .. | .attr .. => fun _ tok =>
    match nodeStepTok S st tok with
    | .ok x => x
    | .error _ => tok
  | _ => fun _ tok => tok

/-- the window of token indices a markup step may rewrite (`none`: not a markup step) -/
def Step.touch : Step → Option (Nat × Nat)
  | .addMark f t _ => some (f, t)
  | .removeMark f t _ => some (f, t)
  | .addNodeMark pos _ => some (pos, pos + 1)
  | .removeNodeMark pos _ => some (pos, pos + 1)
  | .attr pos _ _ => some (pos, pos + 1)
  | .docAttr _ _ => some (0, 0)
  | _ => none

theorem addTok_shape (S : Schema) (m : Mark) (p : TypeId) (tok : Tok) : (addTok S m p tok).shape = tok.shape := by
  unfold addTok; split
  · exact Tok.withMarks_shape _ _
  · rfl

theorem remTok_shape (S : Schema) (m : Mark) (tok : Tok) : (remTok S m tok).shape = tok.shape := by
  unfold remTok; split
  · exact Tok.withMarks_shape _ _
  · rfl

theorem markupFn_shape (S : Schema) (st : Step) (p : TypeId) (tok : Tok) :
    (markupFn S st p tok).shape = tok.shape := by
  have node : ∀ st', (match nodeStepTok S st' tok with
      | .ok x => x
      | .error _ => tok).shape = tok.shape := by
    intro st'
    cases hx : nodeStepTok S st' tok with
    | error e => rfl
    | ok x => exact recreateTok_shape S tok x _ _ hx
  cases st with
  | addMark f t m => exact addTok_shape S m p tok
  | removeMark f t m => exact remTok_shape S m tok
  | addNodeMark pos m => exact node _
  | removeNodeMark pos m => exact node _
  | attr pos n v => exact node _
  | replace => rfl
  | replaceAround => rfl
  | docAttr => rfl

theorem addMarkToks_eq_winMap (S : Schema) (m : Mark) (f t : Nat) (top : TypeId) (l : List Tok) :
    addMarkToks S m f t top l = winMap (addTok S m) f t top l := by
  unfold addMarkToks winMap addTok
  congr 1
  funext i p tok
  by_cases h : f ≤ i ∧ i < t
  · simp [h]
  · rw [if_neg h, if_neg (fun hc => h ⟨hc.1, hc.2.1⟩)]

theorem removeMarkToks_eq_winMap (S : Schema) (m : Mark) (f t : Nat) (top : TypeId) (l : List Tok) :
    removeMarkToks S m f t top l = winMap (fun _ => remTok S m) f t top l := by
  unfold removeMarkToks winMap remTok
  congr 1
  funext i p tok
  by_cases h : f ≤ i ∧ i < t
  · simp [h]
  · rw [if_neg h, if_neg (fun hc => h ⟨hc.1, hc.2.1⟩)]

theorem sameMarkup_tyOf (S : Schema) (a b : Node) (h : a.sameMarkup b = true) : S.tyOf a = S.tyOf b := by
  cases a <;> cases b <;> simp [Node.sameMarkup] at h <;> simp [Schema.tyOf, Node.tyOr, h]

theorem splice_one_eq_winMap (h : TypeId → Tok → Tok) (top : TypeId) (L : List Tok) (pos : Nat) (x : Tok)
    (hp : pos < L.length) (hx : ∀ p, h p (L.getD pos Tok.cl) = x) :
    L.take pos ++ [x] ++ L.drop (pos + 1) = winMap h pos (pos + 1) top L := by
  apply List.ext_getElem?
  intro i
  rw [winMap_getElem?, splice_getElem? _ _ _ _ _ (by omega)]
  by_cases h1 : i < pos
  · have a : ¬ (pos ≤ i ∧ i < pos + 1) := by omega
    rw [if_pos h1, if_neg a]
  · rw [if_neg h1]
    by_cases h2 : i = pos
    · subst h2
      have e : L.getD i Tok.cl = L[i] := by
        rw [List.getD_eq_getElem?_getD, List.getElem?_eq_getElem hp]; rfl
      rw [if_pos (by simp), if_pos (by omega), List.getElem?_eq_getElem hp, Option.map_some, ← e, hx]
      simp
    · have a : ¬ (pos ≤ i ∧ i < pos + 1) := by omega
      rw [if_neg (by simp; omega), if_neg a]
      congr 1; simp; omega

/-- **every markup step is a window map** with a shape-preserving token function that depends on
    the step only -/
theorem markup_step_winMap (S : Schema) (doc doc' : Node) (st : Step) (lo hi : Nat)
    (ht : st.touch = some (lo, hi)) (h : S.apply st doc = .ok doc') :
    ftoks doc'.kids = winMap (markupFn S st) lo hi (S.tyOf doc) (ftoks doc.kids) ∧
    lo ≤ hi ∧ hi ≤ fsize doc.kids ∧ S.tyOf doc' = S.tyOf doc := by
  have node : ∀ pos, NodeStepAt pos st → lo = pos → hi = pos + 1 →
      (∀ p tok, markupFn S st p tok = match nodeStepTok S st tok with
        | .ok x => x
        | .error _ => tok) →
      ftoks doc'.kids = winMap (markupFn S st) lo hi (S.tyOf doc) (ftoks doc.kids) ∧
      lo ≤ hi ∧ hi ≤ fsize doc.kids ∧ S.tyOf doc' = S.tyOf doc := by
    intro pos hst e1 e2 hfn
    subst e1 e2
    obtain ⟨x, hx, hp, htoks, hsm⟩ := apply_nodeStep_tok S doc doc' lo st hst h
    refine ⟨?_, by omega, by omega, sameMarkup_tyOf S _ _ hsm⟩
    rw [htoks]
    exact splice_one_eq_winMap _ _ _ _ _ (by rw [ftoks_length]; exact hp)
      (fun p => by rw [hfn, hx])
  cases st with
  | replace => simp [Step.touch] at ht
  | replaceAround => simp [Step.touch] at ht
  | addMark f t m =>
    simp only [Step.touch, Option.some.injEq, Prod.mk.injEq] at ht
    obtain ⟨rfl, rfl⟩ := ht
    obtain ⟨h1, hsm⟩ := apply_addMark_toks S doc doc' _ _ m h
    have hb : f ≤ t ∧ t ≤ fsize doc.kids := by
      unfold Schema.apply at h
      simp only at h
      split at h
      · simp at h
      · split at h
        · simp at h
        · obtain ⟨_, b1, b2, _⟩ := fromReplace_toks S doc doc' _ _ _ h
          exact ⟨b1, b2⟩
    exact ⟨by rw [h1, addMarkToks_eq_winMap]; rfl, hb.1, hb.2, sameMarkup_tyOf S _ _ hsm⟩
  | removeMark f t m =>
    simp only [Step.touch, Option.some.injEq, Prod.mk.injEq] at ht
    obtain ⟨rfl, rfl⟩ := ht
    obtain ⟨h1, hsm⟩ := apply_removeMark_toks S doc doc' _ _ m h
    have hb : f ≤ t ∧ t ≤ fsize doc.kids := by
      unfold Schema.apply at h
      simp only at h
      split at h
      · simp at h
      · obtain ⟨_, b1, b2, _⟩ := fromReplace_toks S doc doc' _ _ _ h
        exact ⟨b1, b2⟩
    exact ⟨by rw [h1, removeMarkToks_eq_winMap]; rfl, hb.1, hb.2, sameMarkup_tyOf S _ _ hsm⟩
  | addNodeMark pos m =>
    simp only [Step.touch, Option.some.injEq, Prod.mk.injEq] at ht
    exact node pos (.inl ⟨m, rfl⟩) ht.1.symm ht.2.symm (fun _ _ => rfl)
  | removeNodeMark pos m =>
    simp only [Step.touch, Option.some.injEq, Prod.mk.injEq] at ht
    exact node pos (.inr (.inl ⟨m, rfl⟩)) ht.1.symm ht.2.symm (fun _ _ => rfl)
  | attr pos n v =>
    simp only [Step.touch, Option.some.injEq, Prod.mk.injEq] at ht
    exact node pos (.inr (.inr ⟨n, v, rfl⟩)) ht.1.symm ht.2.symm (fun _ _ => rfl)
  | docAttr n v =>
    simp only [Step.touch, Option.some.injEq, Prod.mk.injEq] at ht
    obtain ⟨rfl, rfl⟩ := ht
    have hk := apply_docAttr_toks S doc doc' n v h
    refine ⟨?_, Nat.le_refl _, Nat.zero_le _, ?_⟩
    · rw [hk]
      apply List.ext_getElem?
      intro i
      rw [winMap_getElem?, if_neg (by omega)]
    · unfold Schema.apply at h
      cases doc with
      | text s m => simp at h
      | leaf t a m => simp at h
      | elem t a m kids =>
        simp only at h
        cases hc : computeAttrs (S.nodeType t).attrs (List.filter (fun x => x.fst != n) a ++ [(n, v)]) with
        | error e => rw [hc] at h; simp [Except.map] at h
        | ok a' => rw [hc] at h; simp [Except.map] at h; subst h; rfl

/-! ### rebasing markup steps -/

/-- the positions a mark / node-mark / attr step carries -/
def Step.posSpan : Step → Option (Nat × Nat)
  | .addMark f t _ => some (f, t)
  | .removeMark f t _ => some (f, t)
  | .addNodeMark pos _ => some (pos, pos)
  | .removeNodeMark pos _ => some (pos, pos)
  | .attr pos _ _ => some (pos, pos)
  | _ => none

/-- the same markup step at other positions -/
def Step.mapPos (g : Nat → Nat) : Step → Step
  | .addMark f t m => .addMark (g f) (g t) m
  | .removeMark f t m => .removeMark (g f) (g t) m
  | .addNodeMark pos m => .addNodeMark (g pos) m
  | .removeNodeMark pos m => .removeNodeMark (g pos) m
  | .attr pos n v => .attr (g pos) n v
  | st => st

theorem Step.mapPos_id (st : Step) (g : Nat → Nat) (hg : ∀ p, g p = p) : st.mapPos g = st := by
  cases st <;> simp [Step.mapPos, hg]

/-- a map that moves both positions of a markup step by `δ` without deleting them: the step is
    kept and shifted -/
theorem markup_map_shift (st : Step) (lo hi : Nat) (hsp : st.posSpan = some (lo, hi)) (hle : lo ≤ hi)
    (m : StepMap) (δ : Int)
    (e : ∀ (p : Nat) (a : Int), (p = lo ∨ p = hi) → m.mapResult p a = { pos := (p : Int) + δ }) :
    st.map m = some (st.mapPos (fun p => ((p : Int) + δ).toNat)) := by
  cases st with
  | replace => simp [Step.posSpan] at hsp
  | replaceAround => simp [Step.posSpan] at hsp
  | docAttr => simp [Step.posSpan] at hsp
  | addMark f t mk =>
    simp only [Step.posSpan, Option.some.injEq, Prod.mk.injEq] at hsp
    obtain ⟨rfl, rfl⟩ := hsp
    simp only [Step.map, e f _ (.inl rfl), e t _ (.inr rfl), deleted_zero, Step.mapPos]
    rw [if_neg (by simp; omega)]
  | removeMark f t mk =>
    simp only [Step.posSpan, Option.some.injEq, Prod.mk.injEq] at hsp
    obtain ⟨rfl, rfl⟩ := hsp
    simp only [Step.map, e f _ (.inl rfl), e t _ (.inr rfl), deleted_zero, Step.mapPos]
    rw [if_neg (by simp; omega)]
  | addNodeMark pos mk =>
    simp only [Step.posSpan, Option.some.injEq, Prod.mk.injEq] at hsp
    obtain ⟨rfl, _⟩ := hsp
    simp [Step.map, e pos _ (.inl rfl), deletedAfter_zero, Step.mapPos]
  | removeNodeMark pos mk =>
    simp only [Step.posSpan, Option.some.injEq, Prod.mk.injEq] at hsp
    obtain ⟨rfl, _⟩ := hsp
    simp [Step.map, e pos _ (.inl rfl), deletedAfter_zero, Step.mapPos]
  | attr pos n v =>
    simp only [Step.posSpan, Option.some.injEq, Prod.mk.injEq] at hsp
    obtain ⟨rfl, _⟩ := hsp
    simp [Step.map, e pos _ (.inl rfl), deletedAfter_zero, Step.mapPos]

theorem mapResult_empty (p a : Int) : (StepMap.mk [] false).mapResult p a = { pos := p } := by
  simp [StepMap.mapResult, mapAux]

/-- over the empty map (the map of every markup step) a markup step stays as it is -/
theorem markup_map_empty (st : Step) (lo hi : Nat) (ht : st.touch = some (lo, hi)) (hle : lo ≤ hi) :
    st.map ⟨[], false⟩ = some st := by
  cases st with
  | replace => simp [Step.touch] at ht
  | replaceAround => simp [Step.touch] at ht
  | docAttr => rfl
  | addMark f t mk =>
    simp only [Step.touch, Option.some.injEq, Prod.mk.injEq] at ht
    obtain ⟨rfl, rfl⟩ := ht
    simp only [Step.map, mapResult_empty, deleted_zero]
    rw [if_neg (by simp; omega)]; simp
  | removeMark f t mk =>
    simp only [Step.touch, Option.some.injEq, Prod.mk.injEq] at ht
    obtain ⟨rfl, rfl⟩ := ht
    simp only [Step.map, mapResult_empty, deleted_zero]
    rw [if_neg (by simp; omega)]; simp
  | addNodeMark pos mk => simp [Step.map, mapResult_empty, deletedAfter_zero]
  | removeNodeMark pos mk => simp [Step.map, mapResult_empty, deletedAfter_zero]
  | attr pos n v => simp [Step.map, mapResult_empty, deletedAfter_zero]

/-- … and so does a replace step (its structure flag is dropped, as `ReplaceStep.map` does) -/
theorem replace_map_empty (f t : Nat) (sl : Slice) (b : Bool) (hft : f ≤ t) :
    (Step.replace f t sl b).map ⟨[], false⟩ = some (.replace f t sl false) := by
  simp only [Step.map, mapResult_empty, deleted_zero]
  simp; omega

theorem replaceAround_map_empty (f t gf gt : Nat) (sl : Slice) (ins : Nat) (b : Bool)
    (hg : f ≤ gf ∧ gt ≤ t) :
    (Step.replaceAround f t gf gt sl ins b).map ⟨[], false⟩ = some (.replaceAround f t gf gt sl ins b) := by
  simp only [Step.map, mapResult_empty, deleted_zero, StepMap.map]
  rw [if_neg (by simp; omega)]; simp

/-! ### two-range maps away from the ranges -/

theorem mapResult_two_before (s o n s' o' n' p a : Int) (h : p < s) :
    (StepMap.mk [(s, o, n), (s', o', n')] false).mapResult p a = { pos := p } := by
  simp [StepMap.mapResult, mapAux, h]

theorem mapResult_two_mid (s o n s' o' n' p a : Int) (h : s + o < p) (ho : 0 ≤ o) (h' : p < s') :
    (StepMap.mk [(s, o, n), (s', o', n')] false).mapResult p a = { pos := p + (n - o) } := by
  have h1 : ¬ (p < s) := by omega
  have h2 : ¬ (p ≤ s + o) := by omega
  simp [StepMap.mapResult, mapAux, h1, h2, h', Range.oldSize, Range.newSize]

theorem mapResult_two_after (s o n s' o' n' p a : Int) (h : s + o < p) (ho : 0 ≤ o)
    (h' : s' + o' < p) (ho' : 0 ≤ o') :
    (StepMap.mk [(s, o, n), (s', o', n')] false).mapResult p a = { pos := p + (n - o) + (n' - o') } := by
  have h1 : ¬ (p < s) := by omega
  have h2 : ¬ (p ≤ s + o) := by omega
  have h3 : ¬ (p < s') := by omega
  have h4 : ¬ (p ≤ s' + o') := by omega
  simp [StepMap.mapResult, mapAux, h1, h2, h3, h4, Range.oldSize, Range.newSize]
  omega

/-! ### a replace step against a markup step -/

theorem markupFn_mapPos (S : Schema) (st : Step) (g : Nat → Nat) :
    markupFn S (st.mapPos g) = markupFn S st := by
  cases st <;> rfl

theorem touch_of_posSpan (st : Step) (plo phi : Nat) (h : st.posSpan = some (plo, phi)) :
    ∃ hi, st.touch = some (plo, hi) ∧ phi ≤ hi ∧ hi ≤ phi + 1 ∧ (plo = phi ∨ hi = phi) := by
  cases st <;> simp [Step.posSpan] at h <;> obtain ⟨rfl, rfl⟩ := h
  · exact ⟨_, rfl, Nat.le_refl _, by omega, .inr rfl⟩
  · exact ⟨_, rfl, Nat.le_refl _, by omega, .inr rfl⟩
  · exact ⟨_, rfl, by omega, Nat.le_refl _, .inl rfl⟩
  · exact ⟨_, rfl, by omega, Nat.le_refl _, .inl rfl⟩
  · exact ⟨_, rfl, by omega, Nat.le_refl _, .inl rfl⟩

theorem touch_mapPos_after (st : Step) (plo phi hi : Nat) (hsp : st.posSpan = some (plo, phi))
    (ht : st.touch = some (plo, hi)) (g : Nat → Nat) (c t : Nat)
    (hg : ∀ p, t ≤ p → g p = c + (p - t)) (h1 : t ≤ plo) (h2 : plo ≤ phi) :
    (st.mapPos g).touch = some (c + (plo - t), c + (hi - t)) := by
  cases st <;> simp [Step.posSpan] at hsp <;> obtain ⟨rfl, rfl⟩ := hsp <;>
    simp only [Step.touch, Option.some.injEq, Prod.mk.injEq] at ht <;> obtain ⟨_, rfl⟩ := ht <;>
    simp only [Step.mapPos, Step.touch, Option.some.injEq, Prod.mk.injEq]
  · exact ⟨hg _ h1, hg _ (by omega)⟩
  · exact ⟨hg _ h1, hg _ (by omega)⟩
  · exact ⟨hg _ h1, by rw [hg _ h1]; omega⟩
  · exact ⟨hg _ h1, by rw [hg _ h1]; omega⟩
  · exact ⟨hg _ h1, by rw [hg _ h1]; omega⟩

/-- **the markup step lies before the replaced range**: both orders give the same tokens.  No
    guard is needed: the enclosing nodes of tokens before the range cannot change. -/
theorem commute_replace_markup_before (S : Schema) (d da db dab dba : Node) (f t : Nat) (sl : Slice)
    (b : Bool) (M M' R' : Step) (plo phi : Nat) (hsp : M.posSpan = some (plo, phi)) (hle : plo ≤ phi)
    (hsep : phi < f)
    (ha : S.apply (.replace f t sl b) d = .ok da) (hb : S.apply M d = .ok db)
    (hM' : M.map (Step.replace f t sl b).getMap = some M')
    (hR' : (Step.replace f t sl b).map M.getMap = some R')
    (hab : S.apply M' da = .ok dab) (hba : S.apply R' db = .ok dba) :
    M' = M ∧ R' = .replace f t sl false ∧ ftoks dab.kids = ftoks dba.kids := by
  obtain ⟨hi, hto, h1, h2, _⟩ := touch_of_posSpan M plo phi hsp
  obtain ⟨hda, hft, htl, hsm⟩ := apply_replace_toks S d da f t sl b ha
  have hM : M.map (Step.replace f t sl b).getMap = some M := by
    have := markup_map_shift M plo phi hsp hle (Step.replace f t sl b).getMap 0
      (fun p a hp => by
        rw [Int.add_zero]
        exact mapResult_one_before _ _ _ _ a (by rcases hp with rfl | rfl <;> omega))
    rw [this, Step.mapPos_id _ _ (fun p => by simp)]
  have hmap : M.getMap = ⟨[], false⟩ := by cases M <;> simp [Step.posSpan] at hsp <;> rfl
  have hR : (Step.replace f t sl b).map M.getMap = some (.replace f t sl false) := by
    rw [hmap]; exact replace_map_empty f t sl b hft
  rw [hM] at hM'; rw [hR] at hR'
  simp only [Option.some.injEq] at hM' hR'
  subst hM' hR'
  refine ⟨rfl, rfl, ?_⟩
  obtain ⟨hdb, _, _, hty⟩ := markup_step_winMap S d db M plo hi hto hb
  obtain ⟨hdab, _, _, _⟩ := markup_step_winMap S da dab M plo hi hto hab
  obtain ⟨hdba, _, _, _⟩ := apply_replace_toks S db dba f t sl false hba
  rw [hdab, hdba, hdb, hda, sameMarkup_tyOf S _ _ hsm]
  exact winMap_splice_before _ _ _ _ _ _ _ _ (by omega) hft (by rw [ftoks_length]; exact htl)

/-- **the markup step lies after the replaced range**: both orders give the same tokens provided
    the step's token function does not see a different enclosing type after the replace (`hst`;
    vacuous for node-mark, attr and remove-mark steps, `ParentStable` for add-mark steps) -/
theorem commute_replace_markup_after (S : Schema) (d da db dab dba : Node) (f t : Nat) (sl : Slice)
    (b : Bool) (M M' R' : Step) (plo phi : Nat) (hsp : M.posSpan = some (plo, phi)) (hle : plo ≤ phi)
    (hsep : t < plo)
    (ha : S.apply (.replace f t sl b) d = .ok da) (hb : S.apply M d = .ok db)
    (hM' : M.map (Step.replace f t sl b).getMap = some M')
    (hR' : (Step.replace f t sl b).map M.getMap = some R')
    (hab : S.apply M' da = .ok dab) (hba : S.apply R' db = .ok dba)
    (hi : Nat) (hto : M.touch = some (plo, hi))
    (hst : ∀ i tok, plo ≤ i → i < hi → (ftoks d.kids)[i]? = some tok →
      markupFn S M ((ctxOf (S.tyOf d) (ftoks da.kids)).getD (f + sl.toks.length + (i - t)) 0) tok =
        markupFn S M ((ctxOf (S.tyOf d) (ftoks d.kids)).getD i 0) tok) :
    M' = M.mapPos (fun p => ((p : Int) + (sl.size - ((t : Int) - f))).toNat) ∧
    R' = .replace f t sl false ∧ ftoks dab.kids = ftoks dba.kids := by
  have kfa := apply_replace_fromReplace S d da f t sl b ha
  obtain ⟨hda, hft, htl, hwf, hsm⟩ := fromReplace_toks S d da f t sl kfa
  obtain ⟨hlen, hs0⟩ := Slice.toks_length_of_wf_ex sl hwf
  have hM : M.map (Step.replace f t sl b).getMap =
      some (M.mapPos (fun p => ((p : Int) + (sl.size - ((t : Int) - f))).toNat)) :=
    markup_map_shift M plo phi hsp hle (Step.replace f t sl b).getMap _
      (fun p a hp => mapResult_one_after _ _ _ _ a (by rcases hp with rfl | rfl <;> omega) (by omega))
  have hmap : M.getMap = ⟨[], false⟩ := by cases M <;> simp [Step.posSpan] at hsp <;> rfl
  have hR : (Step.replace f t sl b).map M.getMap = some (.replace f t sl false) := by
    rw [hmap]; exact replace_map_empty f t sl b hft
  rw [hM] at hM'; rw [hR] at hR'
  simp only [Option.some.injEq] at hM' hR'
  subst hM' hR'
  refine ⟨rfl, rfl, ?_⟩
  have hto' := touch_mapPos_after M plo phi hi hsp hto
    (fun p => ((p : Int) + (sl.size - ((t : Int) - f))).toNat) (f + sl.toks.length) t
    (fun p hp => by omega) (by omega) hle
  obtain ⟨hdb, _, _, hty⟩ := markup_step_winMap S d db M plo hi hto hb
  obtain ⟨hdab, _, _, _⟩ := markup_step_winMap S da dab _ _ _ hto' hab
  obtain ⟨hdba, _, _, _⟩ := apply_replace_toks S db dba f t sl false hba
  rw [hdab, hdba, hdb, markupFn_mapPos, sameMarkup_tyOf S _ _ hsm]
  rw [hda] at hst ⊢
  exact winMap_splice_after _ _ _ _ _ _ _ _ (by omega) hft (by rw [ftoks_length]; exact htl)
    hst

/-! ### two markup steps -/

theorem getMap_of_touch (st : Step) (lo hi : Nat) (ht : st.touch = some (lo, hi)) :
    st.getMap = ⟨[], false⟩ := by
  cases st <;> simp [Step.touch] at ht <;> rfl

/-- **two markup steps on disjoint token windows commute**; both have the empty map, so rebasing
    leaves them as they are -/
theorem commute_markup_core (S : Schema) (d da db dab dba : Node) (A B A' B' : Step)
    (a1 a2 b1 b2 : Nat) (hta : A.touch = some (a1, a2)) (htb : B.touch = some (b1, b2))
    (hd : a2 ≤ b1 ∨ b2 ≤ a1)
    (ha : S.apply A d = .ok da) (hb : S.apply B d = .ok db)
    (hB' : B.map A.getMap = some B') (hA' : A.map B.getMap = some A')
    (hab : S.apply B' da = .ok dab) (hba : S.apply A' db = .ok dba) :
    A' = A ∧ B' = B ∧ ftoks dab.kids = ftoks dba.kids := by
  obtain ⟨hda, la, _, tya⟩ := markup_step_winMap S d da A a1 a2 hta ha
  obtain ⟨hdb, lb, _, tyb⟩ := markup_step_winMap S d db B b1 b2 htb hb
  rw [getMap_of_touch A a1 a2 hta, markup_map_empty B b1 b2 htb lb] at hB'
  rw [getMap_of_touch B b1 b2 htb, markup_map_empty A a1 a2 hta la] at hA'
  simp only [Option.some.injEq] at hA' hB'
  subst hA' hB'
  obtain ⟨hdab, _, _, _⟩ := markup_step_winMap S da dab B b1 b2 htb hab
  obtain ⟨hdba, _, _, _⟩ := markup_step_winMap S db dba A a1 a2 hta hba
  refine ⟨rfl, rfl, ?_⟩
  rw [hdab, hdba, hda, hdb, tya, tyb]
  exact winMap_comm _ _ _ _ _ _ _ _ (markupFn_shape S A) (markupFn_shape S B) hd

/-! ### from tokens back to documents -/

theorem sameMarkup_elem (a : Node) (t : TypeId) (at_ : Attrs) (m : Marks) (k : List Node)
    (h : a.sameMarkup (.elem t at_ m k) = true) : ∃ k', a = .elem t at_ m k' := by
  cases a with
  | text s m' => simp [Node.sameMarkup] at h
  | leaf t' a' m' => simp [Node.sameMarkup] at h
  | elem t' a' m' k' =>
    simp [Node.sameMarkup] at h
    obtain ⟨⟨rfl, rfl⟩, rfl⟩ := h
    exact ⟨k', rfl⟩

theorem fromReplace_root (S : Schema) (doc doc' : Node) (f t : Nat) (sl : Slice)
    (h : S.fromReplace doc f t sl = .ok doc') :
    ∃ ty a m k k', doc = .elem ty a m k ∧ doc' = .elem ty a m k' := by
  unfold Schema.fromReplace Schema.replace at h
  cases doc with
  | text s m => simp at h
  | leaf ty a m => simp at h
  | elem ty a m kids =>
    simp only at h
    cases hr : replaceKids S ty kids f t sl with
    | error e => rw [hr] at h; simp [Except.map] at h
    | ok k' =>
      rw [hr] at h; simp [Except.map] at h; subst h
      exact ⟨ty, a, m, kids, _, rfl, rfl⟩

/-- a successful mark / node-mark / attr step works on an element root and keeps its markup -/
theorem apply_markup_root (S : Schema) (doc doc' : Node) (st : Step) (plo phi : Nat)
    (hsp : st.posSpan = some (plo, phi)) (h : S.apply st doc = .ok doc') :
    ∃ ty a m k k', doc = .elem ty a m k ∧ doc' = .elem ty a m k' := by
  cases st with
  | replace => simp [Step.posSpan] at hsp
  | replaceAround => simp [Step.posSpan] at hsp
  | docAttr => simp [Step.posSpan] at hsp
  | addMark f t mk =>
    unfold Schema.apply at h
    simp only at h
    split at h
    · simp at h
    · split at h
      · simp at h
      · exact fromReplace_root S _ _ _ _ _ h
  | removeMark f t mk =>
    unfold Schema.apply at h
    simp only at h
    split at h
    · simp at h
    · exact fromReplace_root S _ _ _ _ _ h
  | addNodeMark pos mk =>
    obtain ⟨n, u, _, _, hr⟩ := nodeStep_full S doc doc' pos _ (.inl ⟨mk, rfl⟩) h
    exact fromReplace_root S _ _ _ _ _ hr
  | removeNodeMark pos mk =>
    obtain ⟨n, u, _, _, hr⟩ := nodeStep_full S doc doc' pos _ (.inr (.inl ⟨mk, rfl⟩)) h
    exact fromReplace_root S _ _ _ _ _ hr
  | attr pos nm v =>
    obtain ⟨n, u, _, _, hr⟩ := nodeStep_full S doc doc' pos _ (.inr (.inr ⟨nm, v, rfl⟩)) h
    exact fromReplace_root S _ _ _ _ _ hr

end PM
