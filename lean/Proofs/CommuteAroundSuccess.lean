/-
  Proofs/CommuteAroundSuccess.lean — helper lemmas for `commute_succeeds_around` (Props/C17.lean):
  a replace-around step is "cut the gap, put it into the slice, replace"; when another replace step
  works on a separate part, the gap is found again at the shifted positions as the same closed slice,
  so the rebased replace-around step is the same plain replace step as before, shifted.
-/
import Proofs.CommuteAroundDocs
import Proofs.Undo
import Proofs.UndoAround
import Proofs.MarkMerge
import Proofs.MergeOpen
import PM.CommuteGuard
import Proofs.ContentBetweenToks
namespace PM

/-- **the gap is found again**: a closed slice of `K` whose tokens appear in `K'` at `p'`, between
    pair-aligned positions, is cut from `K'` as the same slice -/
theorem slice_again (K K' : List Node) (p q p' : Nat) (gap : Slice) (hn : fnorm K = true)
    (hn' : fnorm K' = true) (hpq : p ≤ q) (hq : q ≤ fsize K) (hq' : p' + (q - p) ≤ fsize K')
    (hgap : sliceKids K p q = .ok gap) (ho1 : gap.openStart = 0) (ho2 : gap.openEnd = 0)
    (hwin : ((ftoks K').drop p').take (q - p) = ((ftoks K).drop p).take (q - p))
    (hal : p < q → alignedAt K' p' = true ∧ alignedAt K' (p' + (q - p)) = true) :
    sliceKids K' p' (p' + (q - p)) = .ok gap := by
  by_cases h0 : q - p = 0
  · have : p = q := by omega
    subst this
    simp [sliceKids] at hgap ⊢
    exact hgap
  · obtain ⟨hal1, hal2⟩ := hal (by omega)
    obtain ⟨gap2, hgap2⟩ := sliceKids_total K' p' (p' + (q - p)) (by omega) hq' hal1 hal2 hn'
    have hgn := sliceKids_norm K p q gap hn hgap
    have hg2n := sliceKids_norm K' _ _ gap2 hn' hgap2
    have hgclosed : gap = ⟨gap.content, 0, 0⟩ := by
      cases gap; simp at ho1 ho2; simp [ho1, ho2]
    have hGt : ftoks gap.content = ((ftoks K).drop p).take (q - p) := by
      rw [← Slice.toks_closed, ← hgclosed]
      exact sliceKids_toks K p q gap hpq hq hgap
    have hsplit : ∀ k, p' ≤ k → k ≤ p' + (q - p) →
        (ftoks K').take k = (ftoks K').take p' ++ (ftoks gap.content).take (k - p') := by
      intro k hk1 hk2
      have e : k = p' + (k - p') := by omega
      rw [hGt, ← hwin, List.take_take, Nat.min_eq_left (by omega)]
      conv => lhs; rw [e]
      exact List.take_add
    have hg2closed : gap2.openStart = 0 ∧ gap2.openEnd = 0 := by
      refine sliceKids_closed K' _ _ gap2 (by omega) hq' hgap2 ?_ ?_
      · intro k hk1 hk2
        rw [hsplit k hk1 hk2]
        simp only [balance_append]
        have := balance_prefix_nonneg gap.content (k - p')
        omega
      · rw [hsplit (p' + (q - p)) (by omega) (Nat.le_refl _)]
        simp only [balance_append]
        have hlen : (ftoks gap.content).length ≤ p' + (q - p) - p' := by
          rw [hGt, List.length_take]; omega
        rw [List.take_of_length_le hlen, balance_ftoks]
        omega
    have eG2 : gap2.content = gap.content := by
      apply ftoks_inj _ _ hg2n.1 hgn.1
      have : gap2 = ⟨gap2.content, 0, 0⟩ := by
        cases gap2; simp at hg2closed; simp [hg2closed.1, hg2closed.2]
      rw [hGt, ← Slice.toks_closed, ← this,
        sliceKids_toks K' _ _ gap2 (by omega) hq' hgap2,
        show p' + (q - p) - p' = q - p by omega]
      exact hwin
    have : gap2 = gap := by
      cases gap2; cases gap
      simp at hg2closed ho1 ho2 eG2
      simp [hg2closed.1, hg2closed.2, ho1, ho2, eG2]
    rw [hgap2, this]

/-! ### windows and pair-alignment across a splice -/

theorem splice_window_after {α} (L S1 : List α) (f1 t1 p n : Nat) (h1 : f1 ≤ t1) (hp : t1 ≤ p)
    (hl : t1 ≤ L.length) :
    ((splice L f1 t1 S1).drop (f1 + S1.length + (p - t1))).take n = (L.drop p).take n := by
  unfold splice
  have hlen : (L.take f1 ++ S1).length = f1 + S1.length := by simp [List.length_take]; omega
  rw [← hlen, List.drop_length_add_append, List.drop_drop]
  congr 2; omega

theorem splice_window_before {α} (L S1 : List α) (f1 t1 p n : Nat) (hp : p + n ≤ f1)
    (hl : f1 ≤ L.length) :
    ((splice L f1 t1 S1).drop p).take n = (L.drop p).take n := by
  unfold splice
  rw [List.append_assoc, List.drop_append_of_le_length (by simp [List.length_take]; omega),
    List.take_append_of_le_length (by simp [List.length_drop, List.length_take]; omega),
    List.drop_take, List.take_take]
  congr 1; omega

theorem aligned_after_splice (K K' : List Node) (S1 : List Tok) (f1 t1 p : Nat)
    (hn : fnorm K = true) (hn' : fnorm K' = true) (hK' : ftoks K' = splice (ftoks K) f1 t1 S1)
    (h1 : f1 ≤ t1) (hl : t1 ≤ (ftoks K).length) (hp : t1 < p) (hal : alignedAt K p = true) :
    alignedAt K' (f1 + S1.length + (p - t1)) = true := by
  refine alignedAt_shift K' K _ p hn' hn (by omega) (by omega) ?_ ?_ hal
  · rw [hK']; unfold splice
    rw [splice_getElem? _ _ _ _ _ (by omega), if_neg (by omega), if_neg (by omega)]
    congr 1; omega
  · rw [hK']; unfold splice
    rw [splice_getElem? _ _ _ _ _ (by omega), if_neg (by omega), if_neg (by omega)]
    congr 1; omega

theorem aligned_before_splice (K K' : List Node) (S1 : List Tok) (f1 t1 p : Nat)
    (hn : fnorm K = true) (hn' : fnorm K' = true) (hK' : ftoks K' = splice (ftoks K) f1 t1 S1)
    (hl : f1 ≤ (ftoks K).length) (hp : p < f1) (hal : alignedAt K p = true) :
    alignedAt K' p = true := by
  refine alignedAt_transfer K' K p hn' hn ?_ ?_ hal
  · rw [hK']; unfold splice
    rw [splice_getElem? _ _ _ _ _ hl, if_pos (by omega)]
  · rw [hK']; unfold splice
    rw [splice_getElem? _ _ _ _ _ hl, if_pos (by omega)]

/-! ### the replace-around step from its parts -/

theorem around_applies_of_parts (S : Schema) (doc doc' : Node) (f t gf gt : Nat) (sl : Slice) (ins : Nat)
    (st : Bool) (gap inserted : Slice)
    (hslice : doc.slice gf gt = .ok gap) (ho1 : gap.openStart = 0) (ho2 : gap.openEnd = 0)
    (hinst : sl.insertAt S ins gap.content = .ok (some inserted))
    (hfr : S.fromReplace doc f t inserted = .ok doc')
    (hst : st = true → contentBetween doc f gf = some false ∧ contentBetween doc gt t = some false) :
    S.apply (.replaceAround f t gf gt sl ins st) doc = .ok doc' := by
  cases st with
  | false => simp [Schema.apply, hslice, ho1, ho2, hinst, hfr]
  | true =>
    obtain ⟨c1, c2⟩ := hst rfl
    simp [Schema.apply, c1, c2, hslice, ho1, ho2, hinst, hfr]

/-- a replace-around step that carries the structure flag and applies has passed its two checks -/
theorem apply_replaceAround_struct (S : Schema) (doc doc' : Node) (f t gf gt : Nat) (sl : Slice) (ins : Nat)
    (h : S.apply (.replaceAround f t gf gt sl ins true) doc = .ok doc') :
    contentBetween doc f gf = some false ∧ contentBetween doc gt t = some false := by
  cases h1 : contentBetween doc f gf with
  | none => simp [Schema.apply, h1] at h
  | some b =>
    cases b with
    | true => simp [Schema.apply, h1] at h
    | false =>
      cases h2 : contentBetween doc gt t with
      | none => simp [Schema.apply, h1, h2] at h
      | some b2 =>
        cases b2 with
        | true => simp [Schema.apply, h1, h2] at h
        | false => exact ⟨rfl, rfl⟩

/-- the structure checks of a replace-around step pass again wherever the two ranges show the same tokens -/
theorem struct_checks_again (d d' : Node) (f t gf gt f' t' gf' gt' : Nat) (hn : fnorm d.kids = true)
    (hn' : fnorm d'.kids = true) (hg : f ≤ gf ∧ gf ≤ gt ∧ gt ≤ t) (ht : t ≤ fsize d.kids)
    (ht' : t' ≤ fsize d'.kids) (e1 : gf' = f' + (gf - f)) (e2 : t' = gt' + (t - gt)) (e3 : gf' ≤ gt')
    (w1 : ((ftoks d'.kids).drop f').take (gf - f) = ((ftoks d.kids).drop f).take (gf - f))
    (w2 : ((ftoks d'.kids).drop gt').take (t - gt) = ((ftoks d.kids).drop gt).take (t - gt))
    (c : contentBetween d f gf = some false ∧ contentBetween d gt t = some false) :
    contentBetween d' f' gf' = some false ∧ contentBetween d' gt' t' = some false := by
  subst e1 e2
  constructor
  · rw [contentBetween_congr d d' f gf f' hn hn' hg.1 (by omega) (by omega) w1]; exact c.1
  · rw [contentBetween_congr d d' gt t gt' hn hn' hg.2.2 ht ht' w2]; exact c.2

/-- the guard reads the two slices' open-start depths only -/
theorem commuteGuard_openStart (kids : List Node) (f1 t1 f2 t2 : Nat) (s1 s2 s1' s2' : Slice)
    (h1 : s1'.openStart = s1.openStart) (h2 : s2'.openStart = s2.openStart) :
    commuteGuard kids f1 t1 s1' f2 t2 s2' = commuteGuard kids f1 t1 s1 f2 t2 s2 := by
  simp [commuteGuard, h1, h2]

end PM
