/-
  Proofs/WrapSuccess.lean — **an approved wrap applies** (C12): the structural half.

  `Transform.wrap(range, wrappers)` builds the closed nest `w₁(w₂(…wₙ()))` of empty wrapper nodes and hands
  `ReplaceAroundStep(start, end, start, end, ⟨nest, 0, 0⟩, n, structure = True)` to `Transform.step`.  Applying it:
  the two structure-guard ranges are empty; the gap `doc.slice(start, end)` is the run `mid` of whole children of the
  node at the range's depth (`sliceKids_children`); `Slice.insert_at(n, mid)` descends through the nest — every
  wrapper is a complete node of the slice — and asks the innermost one `can_replace(0, 0, mid)` (types **and**
  marks); the final replace puts the filled nest in place of the run (`replaceKids_children'`) and asks the
  parent whether it accepts the outermost wrapper there.

  `find_wrapping` established: the parent accepts the head of the chain in place of the run
  (`can_replace_with(start_index, end_index, head)`), the innermost wrapper's automaton accepts the *types* of
  the run (`find_wrapping_inside`); `wrap` itself checks that every wrapper accepts the next as its only child.
  What is missing is the marks of the run: `wrapGuardR` (PM/StructEdit.lean).
-/
import PM.Step
import PM.StructEdit
import PM.Structure2
import Proofs.LevelReplace
import Proofs.SplitSuccess
import Proofs.FlatInsertCore
namespace PM

/-! ### the nest of wrapper nodes -/

/-- the wrapper nodes (type, computed attributes), outermost first, around `X`; no marks -/
def wrapNest : List (TypeId × Attrs) → List Node → List Node
  | [], X => X
  | (ty, a) :: rest, X => [.elem ty a [] (wrapNest rest X)]

/-- every wrapper accepts the next one as its only child -/
def chainAccepts (S : Schema) : List (TypeId × Attrs) → Bool
  | (t, _) :: (t', a') :: rest => (S.dfa t).accepts [t'] && chainAccepts S ((t', a') :: rest)
  | _ => true

/-- the type whose `can_replace` the innermost insertion asks: the innermost wrapper, or the given parent
    when there is no wrapper -/
def innerParent : Option TypeId → List (TypeId × Attrs) → Option TypeId
  | p, [] => p
  | _, (ty, _) :: rest => innerParent (some ty) rest

theorem innerParent_last : ∀ (as : List (TypeId × Attrs)) (p : Option TypeId) (w : TypeId × Attrs),
    as.getLast? = some w → innerParent p as = some w.1
  | [], _, _, h => by simp at h
  | [(ty, a)], p, w, h => by
    simp only [List.getLast?_singleton, Option.some.injEq] at h
    subst h; rfl
  | (ty, a) :: x :: rest, p, w, h => by
    rw [List.getLast?_cons_cons] at h
    exact innerParent_last (x :: rest) (some ty) w h

theorem fsize_wrapNest : ∀ (as : List (TypeId × Attrs)) (X : List Node),
    fsize (wrapNest as X) = 2 * as.length + fsize X
  | [], X => by simp [wrapNest]
  | (ty, a) :: rest, X => by
    simp only [wrapNest, fsize_cons, Node.size_elem, fsize_nil, fsize_wrapNest rest X, List.length_cons]
    omega

theorem wrapNest_cons (w : TypeId × Attrs) (rest : List (TypeId × Attrs)) (X : List Node) :
    wrapNest (w :: rest) X = [.elem w.1 w.2 [] (wrapNest rest X)] := by
  cases w; rfl

theorem fnorm_wrapNest : ∀ (as : List (TypeId × Attrs)) (X : List Node), fnorm X = true →
    fnorm (wrapNest as X) = true
  | [], X, h => h
  | (ty, a) :: rest, X, h => by
    have ih := fnorm_wrapNest rest X h
    simp only [wrapNest, fnorm, fnormKids_cons, fnormKids_nil, Node.norm_elem, chainOk, Bool.and_true]
    exact ih

/-- what `wrap`'s loop builds out of non-leaf wrappers: the nest of empty nodes, each accepting the next -/
theorem wrapContent_spec (S : Schema) : ∀ (ws : List (TypeId × Attrs)) (c : List Node),
    (∀ w ∈ ws, (S.nodeType w.1).isLeaf = false) → wrapContent S ws = .ok c →
    ∃ as, as.map (·.1) = ws.map (·.1) ∧ c = wrapNest as [] ∧ chainAccepts S as = true
  | [], c, _, h => by
    simp only [wrapContent, Except.ok.injEq] at h
    subst h
    exact ⟨[], rfl, rfl, rfl⟩
  | (ty, given) :: rest, c, hl, h => by
    simp only [wrapContent] at h
    cases hr : wrapContent S rest with
    | error e => simp [hr] at h
    | ok content =>
      obtain ⟨as, h1, h2, h3⟩ := wrapContent_spec S rest content
        (fun w hw => hl w (List.mem_cons_of_mem _ hw)) hr
      have hty : (S.nodeType ty).isLeaf = false := hl (ty, given) List.mem_cons_self
      simp only [hr, hty] at h
      split at h
      · simp at h
      · rename_i hacc
        split at h
        · simp at h
        · split at h
          · simp at h
          · rename_i a _
            simp only [Bool.false_eq_true, if_false, Except.ok.injEq] at h
            subst h
            refine ⟨(ty, a) :: as, by simp [h1], by simp [wrapNest, h2], ?_⟩
            cases as with
            | nil => rfl
            | cons x xs =>
              obtain ⟨t', a'⟩ := x
              simp only [chainAccepts, h3, Bool.and_true]
              subst h2
              have hsz : fsize (wrapNest ((t', a') :: xs) []) ≠ 0 := by
                rw [fsize_wrapNest]; simp
              simp only [ne_eq, hsz, not_false_eq_true, decide_true, Bool.true_and, Bool.not_eq_true',
                Bool.not_eq_false] at hacc
              simpa [wrapNest, Schema.types, Schema.tyOf, Node.tyOr] using hacc

/-! ### `Slice.insert_at` on the nest -/

theorem flatInsert_empty (S : Schema) (mid : List Node) (p : Option TypeId)
    (hp : ∀ t, p = some t → S.validContent t mid = true) :
    flatInsert S mid p [] 0 0 = .ok (some mid) := by
  have hgo : fappend (fappend [] mid) [] = mid := by
    cases mid <;> simp [fappend]
  have h1 : fcut ([] : List Node) 0 0 = .ok [] := by simp [fcut]
  have h2 : fcut ([] : List Node) 0 (fsize ([] : List Node)) = .ok [] := by simp [fcut]
  have := flatInsert_of_cuts (S := S) (ins := mid) (parent := p) (idx := 0) h1 h2
    (by intro t ht; rw [hgo]; exact hp t ht)
  rw [hgo] at this
  exact this

/-- **the insertion descends through the nest to the innermost wrapper** -/
theorem insertInto_wrapNest (S : Schema) (mid : List Node) : ∀ (as : List (TypeId × Attrs)) (p : Option TypeId),
    flatInsert S mid (innerParent p as) [] 0 0 = .ok (some mid) →
    insertInto S mid p (wrapNest as []) as.length 0 (wrapNest as []) as.length 0 0
      = .ok (some (wrapNest as mid))
  | [], p, h => by
    simp only [wrapNest, List.length_nil, innerParent] at h ⊢
    unfold insertInto
    simpa using h
  | (ty, a) :: rest, p, h => by
    have ih := insertInto_wrapNest S mid rest (some ty) h
    have hsz := fsize_wrapNest rest []
    simp only [wrapNest, List.length_cons]
    unfold insertInto
    rw [if_neg (by omega), if_neg (by simp [hsz]; omega)]
    simp only [Nat.lt_irrefl, decide_false, Bool.false_and, Bool.or_self, Bool.false_eq_true, if_false,
      Nat.add_sub_cancel, ih, List.set_cons_zero]

theorem insertAt_wrapNest (S : Schema) (mid : List Node) (as : List (TypeId × Attrs)) (w : TypeId × Attrs)
    (hlast : as.getLast? = some w) (hv : S.validContent w.1 mid = true) :
    Slice.insertAt S ⟨wrapNest as [], 0, 0⟩ as.length mid = .ok (some ⟨wrapNest as mid, 0, 0⟩) := by
  have hf := flatInsert_empty S mid (innerParent none as) (fun t ht => by
    rw [innerParent_last as none w hlast] at ht
    simp only [Option.some.injEq] at ht
    subst ht; exact hv)
  rw [insertAt_of_le (by simp only [Slice.size, fsize_wrapNest, fsize_nil]; omega)]
  simp only [Slice.insertAtIn, Nat.add_zero, insertInto_wrapNest S mid as none hf]

/-! ### the filled nest is a valid payload -/

theorem canonicalMarks_nil (S : Schema) : canonicalMarks S [] = true := by
  simp [canonicalMarks]

theorem checkKids_wrapNest (S : Schema) (mid : List Node) (hk : S.checkKids mid = true) :
    ∀ (as : List (TypeId × Attrs)), chainAccepts S as = true →
      (∀ w, as.getLast? = some w → S.validContent w.1 mid = true) → S.checkKids (wrapNest as mid) = true
  | [], _, _ => hk
  | [(ty, a)], _, hl => by
    have := hl (ty, a) rfl
    simp only [wrapNest, checkKids_cons, checkNode_elem, this, canonicalMarks_nil, hk, checkKids_nil,
      Bool.and_self]
  | (ty, a) :: (t', a') :: rest, hc, hl => by
    simp only [chainAccepts, Bool.and_eq_true] at hc
    have ih := checkKids_wrapNest S mid hk ((t', a') :: rest) hc.2 (fun w hw => hl w (by
      rw [List.getLast?_cons_cons]; exact hw))
    have hvc : S.validContent ty (wrapNest ((t', a') :: rest) mid) = true := by
      simp only [wrapNest, Schema.validContent, Schema.types, List.map_cons, List.map_nil, Schema.tyOf,
        Node.tyOr, hc.1, List.all_cons, Node.marks, NodeType.allowsMarks, List.all_nil, Bool.and_self]
    simp only [wrapNest, checkKids_cons, checkNode_elem, canonicalMarks_nil, checkKids_nil, Bool.and_true] at ih ⊢
    simp only [wrapNest] at hvc
    simp [hvc, ih]

/-! ### replacing whole children by a closed fragment, without `TextStable` -/

/-- `replaceKids_children` (Proofs/LevelReplace.lean) with the validity of the *merged* list as hypothesis -/
theorem replaceKids_children' {S : Schema} {ty tyP : TypeId} {K : List Node} {b nd : Nat}
    {ctx : List Node → List Node} {pre mid post : List Node}
    (hl : Lvl ty K b nd tyP (pre ++ mid ++ post) ctx) (C : List Node) (hnC : fnorm C = true)
    (hn : fnorm (pre ++ mid ++ post) = true)
    (hv : S.validContent tyP (fromArray (pre ++ C ++ post)) = true) :
    replaceKids S ty K (b + fsize pre) (b + (fsize pre + fsize mid)) ⟨C, 0, 0⟩
      = .ok (ctx (fromArray (pre ++ C ++ post))) := by
  have hsz : fsize pre + fsize mid ≤ fsize (pre ++ mid ++ post) := by simp [fsize_append]
  have hd1 : depthAt (pre ++ mid ++ post) (fsize pre) = 0 := by
    rw [List.append_assoc]; exact depthAt_boundary pre _
  have hd2 : depthAt (pre ++ mid ++ post) (fsize pre + fsize mid) = 0 := by
    rw [← fsize_append]; exact depthAt_boundary (pre ++ mid) post
  have ha1 : alignedAt (pre ++ mid ++ post) (fsize pre) = true := by
    rw [List.append_assoc]; exact alignedAt_boundary pre _
  have ha2 : alignedAt (pre ++ mid ++ post) (fsize pre + fsize mid) = true := by
    rw [← fsize_append]; exact alignedAt_boundary (pre ++ mid) post
  rw [replaceKids_flat hl C (fsize pre) (fsize pre + fsize mid) (by omega) hsz hd1 hd2]
  obtain ⟨Y, hnY, htY, hY⟩ := atLevel_flat_spec S C hnC tyP (pre ++ mid ++ post) (fsize pre)
    (fsize pre + fsize mid) (by omega) hsz hd1 hd2 ha1 ha2 hn
  have hnp : fnormKids (pre ++ C ++ post) = true := by
    have h1 := fnormKids_of_fnorm hn
    simp only [fnormKids_append, Bool.and_eq_true] at h1 ⊢
    exact ⟨⟨h1.1.1, fnormKids_of_fnorm hnC⟩, h1.2⟩
  have hYe : Y = fromArray (pre ++ C ++ post) := by
    apply ftoks_inj _ _ hnY (fromArray_norm _ hnp)
    rw [htY, fromArray_toks]
    simp only [ftoks_append]
    rw [List.take_append_of_le_length (by simp [ftoks_length]),
      List.take_append_of_le_length (by simp [ftoks_length]),
      List.take_of_length_le (by simp [ftoks_length])]
    have e : (ftoks pre ++ ftoks mid ++ ftoks post).drop (fsize pre + fsize mid) = ftoks post := by
      rw [List.drop_append, List.drop_of_length_le (by simp [ftoks_length])]
      simp [ftoks_length]
    rw [e]
  rw [hY, ← hYe]
  have : S.validContent tyP Y = true := by rw [hYe]; exact hv
  simp [this, Except.map]

/-- an element node in place of a run of children of a normal-form list: still in normal form -/
theorem fnorm_replace_run {pre mid post : List Node} {w : Node} (hw : w.isText = false) (hwn : w.norm = true)
    (hn : fnorm (pre ++ mid ++ post) = true) : fnorm (pre ++ [w] ++ post) = true := by
  have hpre := fnorm_append_left (fnorm_append_left hn)
  have hpost := fnorm_append_right hn
  simp only [fnorm, fnormKids_append, chainOk_append, fnormKids_cons, fnormKids_nil, Bool.and_eq_true] at hpre hpost ⊢
  have hadjL : ∀ o, seamOk o (some w) = true := by
    intro o; cases o with
    | none => rfl
    | some u => cases u <;> cases w <;> simp_all [seamOk, adjOk, Node.isText]
  have hadjR : ∀ o, seamOk (some w) o = true := by
    intro o; cases o with
    | none => rfl
    | some u => cases u <;> cases w <;> simp_all [seamOk, adjOk, Node.isText]
  have c1 : chainOk [w] = true := rfl
  have c2 : seamOk pre.getLast? [w].head? = true := hadjL _
  have c3 : seamOk (pre ++ [w]).getLast? post.head? = true := by
    rw [List.getLast?_append]
    exact hadjR _
  exact And.intro (And.intro (And.intro hpre.1 (And.intro hwn trivial)) hpost.1)
    (And.intro (And.intro (And.intro (And.intro hpre.2 c1) c2) hpost.2) c3)

/-! ### what `find_wrapping` established -/

theorem insideLoop_run (S : Schema) (d : Dfa) : ∀ (l : List Node) (n q q' : Nat),
    insideLoop S d l n q = some (some q') → d.run q (S.types (l.take n)) = some q'
  | _, 0, q, q', h => by
    simp only [insideLoop, Option.some.injEq] at h
    subst h; simp [Schema.types, Dfa.run]
  | [], _ + 1, _, _, h => by simp [insideLoop] at h
  | c :: rest, n + 1, q, q', h => by
    simp only [insideLoop] at h
    split at h
    · simp at h
    · rename_i q1 hq1
      have ih := insideLoop_run S d rest n q1 q' h
      simp only [List.take_succ_cons, Schema.types, List.map_cons, Dfa.run, hq1]
      exact ih

theorem wrapHead_eq (around inner : List TypeId) (ty : TypeId) :
    (around ++ [ty] ++ inner).head? = some (wrapHead around ty) := by
  cases around <;> simp [wrapHead]

theorem wrapLast_eq (around inner : List TypeId) (ty : TypeId) :
    (around ++ [ty] ++ inner).getLast? = some (wrapLast inner ty) := by
  unfold wrapLast
  rw [List.getLast?_append]
  cases h : inner.getLast? with
  | none => simp
  | some w => simp

/-- the two tests of `find_wrapping`: the parent accepts the head of the chain in place of the run, the last type
    of the chain accepts the types of the run -/
theorem findWrappingR_facts (S : Schema) (f t : RPos) (depth : Nat) (ty : TypeId) (chain : List TypeId)
    (hij : f.index depth ≤ t.indexAfter depth)
    (h : findWrappingR S f t depth ty = some (some chain)) :
    ∃ hd lst, chain.head? = some hd ∧ chain.getLast? = some lst ∧
      S.nodeCanReplaceWith (f.node depth) (f.index depth) (t.indexAfter depth) hd = some true ∧
      (S.dfa lst).accepts (S.types (cutByIndex (f.node depth).kids (f.index depth) (t.indexAfter depth))) = true := by
  unfold findWrappingR at h
  split at h
  · simp at h
  · simp only at h
    split at h
    · simp at h
    · simp at h
    · rename_i around hout
      split at h
      · simp at h
      · simp at h
      · rename_i inner hin
        simp only [Option.some.injEq] at h
        subst h
        refine ⟨_, _, wrapHead_eq around inner ty, wrapLast_eq around inner ty, ?_, ?_⟩
        · unfold findWrappingOutside at hout
          split at hout
          · simp at hout
          · split at hout
            · simp at hout
            · split at hout
              · simp at hout
              · rename_i ar har
                split at hout
                · simp at hout
                · rename_i hcr
                  simp only [Option.some.injEq] at hout
                  subst hout
                  exact hcr
                · simp at hout
        · unfold findWrappingInside at hin
          split at hin
          · simp at hin
          · split at hin
            · simp at hin
            · rename_i ins hins
              split at hin
              · simp at hin
              · simp at hin
              · rename_i q hq
                split at hin
                · rename_i hve
                  simp only [Option.some.injEq] at hin
                  subst hin
                  have hr := insideLoop_run S _ _ _ _ _ hq
                  have e : ((f.node depth).kids.drop (f.index depth)).take (t.indexAfter depth - f.index depth)
                      = cutByIndex (f.node depth).kids (f.index depth) (t.indexAfter depth) := by
                    unfold cutByIndex
                    rw [List.take_drop, show f.index depth + (t.indexAfter depth - f.index depth)
                      = t.indexAfter depth by omega]
                  rw [e] at hr
                  simp only [Dfa.accepts, hr, hve]
                · simp at hin

/-- an approval implies that the range's depth is a depth of both ends and that the range starts in front of a
    child (`find_wrapping_inside` reads `parent.child(start_index)`) -/
theorem findWrappingR_child (S : Schema) (f t : RPos) (depth : Nat) (ty : TypeId) (chain : List TypeId)
    (h : findWrappingR S f t depth ty = some (some chain)) :
    depth ≤ f.depth ∧ depth ≤ t.depth ∧ f.index depth < (f.node depth).kids.length := by
  unfold findWrappingR at h
  split at h
  · simp at h
  · rename_i hd
    simp only [Bool.or_eq_true, decide_eq_true_eq, not_or, Nat.not_lt] at hd
    refine ⟨hd.1, hd.2, ?_⟩
    simp only at h
    split at h
    · simp at h
    · simp at h
    · split at h
      · simp at h
      · simp at h
      · rename_i inner hin
        unfold findWrappingInside at hin
        split at hin
        · simp at hin
        · rename_i c hc
          rcases Nat.lt_or_ge (f.index depth) (f.node depth).kids.length with h' | h'
          · exact h'
          · rw [List.getElem?_eq_none h'] at hc
            simp at hc

/-- `can_replace_with(start, end, type)` on a valid node: the child list with one node of that type (whose marks
    the node allows) in place of the run is valid content -/
theorem valid_run_replaced (S : Schema) (n : Node) (pre mid post : List Node) (w : Node) (hd : TypeId)
    (hk : n.kids = pre ++ mid ++ post) (hvn : S.validContent (S.tyOf n) n.kids = true)
    (hcr : S.nodeCanReplaceWith n pre.length (pre ++ mid).length hd = some true)
    (hty : S.tyOf w = hd) (hm : (S.nodeType (S.tyOf n)).allowsMarks w.marks = true) :
    S.validContent (S.tyOf n) (pre ++ [w] ++ post) = true := by
  have hall := allowsMarks_of_valid S _ _ hvn
  unfold Schema.nodeCanReplaceWith at hcr
  split at hcr
  · simp at hcr
  · unfold Schema.canReplaceWith Schema.contentMatchAt at hcr
    simp only [List.isEmpty_nil, Bool.not_true, Bool.false_and, Bool.false_eq_true, if_false] at hcr
    have e1 : n.kids.take pre.length = pre := by rw [hk, List.append_assoc]; simp
    have e2 : n.kids.drop (pre ++ mid).length = post := by rw [hk]; simp
    rw [e1, e2] at hcr
    have hacc : (S.dfa (S.tyOf n)).accepts (S.types (pre ++ [w] ++ post)) = true := by
      unfold Dfa.accepts
      have e : S.types (pre ++ [w] ++ post) = S.types pre ++ (S.tyOf w :: S.types post) := by
        simp [Schema.types]
      rw [e, Dfa.run_append, hty]
      split at hcr
      · simp at hcr
      · rename_i q hq
        rw [hq]
        simp only [Option.bind_some, Dfa.run]
        split at hcr
        · simp at hcr
        · rename_i q1 hq1
          rw [hq1]
          simp only
          split at hcr
          · simp at hcr
          · rename_i q2 hq2
            rw [hq2]
            simpa using hcr
    simp only [Schema.validContent, hacc, Bool.true_and, List.all_eq_true]
    intro k hkm
    simp only [List.mem_append, List.mem_cons, List.not_mem_nil, or_false] at hkm
    rcases hkm with (h | h) | h
    · exact hall k (by rw [hk]; simp [h])
    · subst h; exact hm
    · exact hall k (by rw [hk]; simp [h])

/-! ### an approved wrap applies -/

theorem getLast?_of_map_fst {α β} (l : List (α × β)) (x : α) (h : (l.map (·.1)).getLast? = some x) :
    ∃ w, l.getLast? = some w ∧ w.1 = x := by
  rw [List.getLast?_map] at h
  cases hl : l.getLast? with
  | none => simp [hl] at h
  | some w => exact ⟨w, rfl, by simpa [hl] using h⟩

theorem head?_of_map_fst {α β} (l : List (α × β)) (x : α) (h : (l.map (·.1)).head? = some x) :
    ∃ w rest, l = w :: rest ∧ w.1 = x := by
  cases l with
  | nil => simp at h
  | cons w rest => exact ⟨w, rest, rfl, by simpa using h⟩

/-- **`find_wrapping` approves ∧ `wrapGuardR` ⇒ the wrap step applies**, and the slice with the gap content in place
    is a fully valid fragment (so the result is valid, C01).  Valid normal-form document; a node range whose two
    ends are child boundaries of the node at `depth`. -/
theorem wrap_applies (S : Schema) (ty0 : TypeId) (a0 : Attrs) (m0 : Marks) (K : List Node)
    (a b depth : Nat) (ty : TypeId) (chain : List TypeId) (ws : List (TypeId × Attrs)) (f t : RPos) (st : Step)
    (hf : (Node.elem ty0 a0 m0 K).resolve a = some f) (ht : (Node.elem ty0 a0 m0 K).resolve b = some t)
    (hv : S.checkNode (.elem ty0 a0 m0 K) = true) (hn : fnorm K = true)
    (hab : a ≤ b) (hdf : depth ≤ f.depth) (hdt : depth ≤ t.depth) (hend : b ≤ f.end_ depth)
    (hfb : depth < f.depth ∨ f.textOffset = 0) (htb : depth < t.depth ∨ t.textOffset = 0)
    (hfw : findWrappingR S f t depth ty = some (some chain)) (hws : ws.map (·.1) = chain)
    (hg : wrapGuardR S f t depth ws = true)
    (hb : wrapStepR S f t depth ws = .ok st) :
    ∃ s e as mid, st = .replaceAround s e s e ⟨wrapNest as [], 0, 0⟩ as.length true ∧
      (Node.elem ty0 a0 m0 K).slice s e = .ok ⟨mid, 0, 0⟩ ∧
      Slice.insertAt S ⟨wrapNest as [], 0, 0⟩ as.length mid = .ok (some ⟨wrapNest as mid, 0, 0⟩) ∧
      S.checkKids (wrapNest as mid) = true ∧
      ∃ doc', S.apply st (.elem ty0 a0 m0 K) = .ok doc' := by
  have Rf := resolve_resolved hf
  -- the guard
  simp only [wrapGuardR, Bool.and_eq_true, List.all_eq_true, Bool.not_eq_true'] at hg
  obtain ⟨hleaf, hgm⟩ := hg
  -- the step
  unfold wrapStepR at hb
  cases hc : wrapContent S ws with
  | error e => simp [hc] at hb
  | ok content =>
    cases hgs : f.before (depth + 1) with
    | none => simp [hc, hgs] at hb
    | some gs =>
      cases hge : t.after (depth + 1) with
      | none => simp [hc, hgs, hge] at hb
      | some ge =>
        simp only [hc, hgs, hge, Except.ok.injEq] at hb
        subst hb
        obtain ⟨as, has, hcont, hchain⟩ := wrapContent_spec S ws content hleaf hc
        subst hcont
        have hlen : as.length = ws.length := by
          have := congrArg List.length has
          simpa using this
        -- the range as a run of children of a level
        obtain ⟨pre, mid, post, hk, _, hpre, hmid, hpost, hij, hial, egs, ege⟩ :=
          range_level hf ht (by simpa [Node.kids] using hn) depth hab hdf hdt hend hfb htb gs ge hgs hge
        obtain ⟨tyP, aP, mP, ctx, eP, hl⟩ := Resolved.lvl hf hn depth hdf
        have hnl := hl.norm hn
        have hcn := path_valid S Rf hv depth hdf
        have htyP : S.tyOf (f.node depth) = tyP := by rw [eP]; rfl
        have hvn : S.validContent (S.tyOf (f.node depth)) (f.node depth).kids = true :=
          validContent_of_checkNode S _ tyP aP mP eP hcn
        have hck : S.checkKids (f.node depth).kids = true := by
          rw [eP, checkNode_elem] at hcn
          simp only [Bool.and_eq_true] at hcn
          exact hcn.2
        have hckm : S.checkKids mid = true := by
          rw [hk, checkKids_append, checkKids_append] at hck
          simp only [Bool.and_eq_true] at hck
          exact hck.1.2
        have hnm : fnorm mid = true := by
          rw [hk] at hnl
          exact fnorm_append_right (fnorm_append_left hnl)
        -- what find_wrapping established
        obtain ⟨hd, lst, hhd, hlst, hcr, hacc⟩ := findWrappingR_facts S f t depth ty chain hij hfw
        rw [← hmid] at hacc
        obtain ⟨wl, hwl, hwl1⟩ := getLast?_of_map_fst ws lst (by rw [hws]; exact hlst)
        obtain ⟨al, hal, hal1⟩ := getLast?_of_map_fst as lst (by rw [has, hws]; exact hlst)
        obtain ⟨ah, arest, eas, hah1⟩ := head?_of_map_fst as hd (by rw [has, hws]; exact hhd)
        rw [hwl] at hgm
        simp only [← hmid, hwl1] at hgm
        have hvl : S.validContent al.1 mid = true := by
          rw [hal1]
          simp only [Schema.validContent, hacc, Bool.true_and]
          exact hgm
        have hins := insertAt_wrapNest S mid as al hal hvl
        have hpay := checkKids_wrapNest S mid hckm as hchain (fun w hw => by
          rw [hal] at hw; simp only [Option.some.injEq] at hw; subst hw; exact hvl)
        -- the outermost wrapper in place of the run
        have hnC := fnorm_wrapNest as mid hnm
        have hwn : (Node.elem ah.1 ah.2 [] (wrapNest arest mid)).norm = true := by
          rw [eas, wrapNest_cons] at hnC
          simpa [fnorm, chainOk] using hnC
        have hprelen : pre.length = f.index depth := by
          rw [hpre, List.length_take]; omega
        have hpmlen : (pre ++ mid).length = t.indexAfter depth := by
          rw [hpre, hmid, List.length_append, List.length_take]
          unfold cutByIndex
          rw [List.length_drop, List.length_take]
          omega
        have hvrun := valid_run_replaced S (f.node depth) pre mid post
          (.elem ah.1 ah.2 [] (wrapNest arest mid)) hd hk hvn (by rw [hprelen, hpmlen]; exact hcr)
          (by rw [← hah1]; rfl) (by simp [Node.marks, NodeType.allowsMarks])
        rw [htyP] at hvrun
        rw [hk] at hl hnl
        have hnew := fnorm_replace_run (w := .elem ah.1 ah.2 [] (wrapNest arest mid)) rfl hwn hnl
        have eC : wrapNest as mid = [Node.elem ah.1 ah.2 [] (wrapNest arest mid)] := by
          rw [eas, wrapNest_cons]
        have hrep := replaceKids_children' (S := S) hl (wrapNest as mid) hnC hnl
          (by rw [eC, fromArray_of_fnorm hnew]; exact hvrun)
        have hsl := sliceKids_children hl hnl
        rw [← egs, ← ege] at hrep hsl
        -- the structure guard: two empty ranges
        have hr := hl.range
        have hgsle : gs ≤ fsize (Node.elem ty0 a0 m0 K).kids := by
          simp only [Node.kids]; rw [egs]; simp only [fsize_append] at hr; omega
        have hgele : ge ≤ fsize (Node.elem ty0 a0 m0 K).kids := by
          simp only [Node.kids]; rw [ege]; simp only [fsize_append] at hr; omega
        obtain ⟨r1, hr1⟩ := resolve_isSome _ gs hgsle
        obtain ⟨r2, hr2⟩ := resolve_isSome _ ge hgele
        have hsl' : (Node.elem ty0 a0 m0 K).slice gs ge = .ok ⟨mid, 0, 0⟩ := hsl
        refine ⟨gs, ge, as, mid, by rw [hlen], hsl', hins, hpay, ?_⟩
        rw [← hlen]
        simp only [Schema.apply, if_true, contentBetween_empty _ gs r1 hr1, contentBetween_empty _ ge r2 hr2,
          hsl', hins, Schema.fromReplace, Schema.replace, hrep, Except.map]
        exact ⟨_, rfl⟩

end PM
