/-
  Proofs/CompileMain.lean — stage 4 of C06's compiler proof: composition.  Paths of the NFA in the
  adjacency form `dfa` works on (`NReach`) are the paths of stage 1; the node sets of stage 3 are the nodes
  reached along them; with `nfa_correct`, `nfa_coreach` this gives `compile_accepts` and `compile_live`.
-/
import Proofs.CompileNfa
import Proofs.CompileDfa
import Proofs.CompileDead
namespace PM
set_option linter.unusedSimpArgs false

/-! ### reachability in an NFA given by adjacency lists -/

/-- `NReach N w m`: node `m` is reached from node 0 reading `w` -/
inductive NReach (N : Nfa) : List Nat → Nat → Prop
  | start : NReach N [] 0
  | eps {w : List Nat} {n m : Nat} : NReach N w n → EpsStep N n m → NReach N w m
  | letter {w : List Nat} {n t tgt : Nat} : NReach N w n → (some t, tgt) ∈ N.getD n [] → NReach N (w ++ [t]) tgt

theorem NReach.epsReach {N : Nfa} {w : List Nat} {n m : Nat} (h : NReach N w n) (hr : EpsReach N n m) :
    NReach N w m := by
  induction hr with
  | refl => exact h
  | step hs _ ih => exact ih (h.eps hs)

theorem nreach_nil {N : Nfa} {m : Nat} : NReach N [] m ↔ EpsReach N 0 m := by
  constructor
  · intro h
    generalize hw : ([] : List Nat) = u at h
    induction h with
    | start => exact .refl 0
    | eps _ hs ih => exact (ih hw).trans (.step hs (.refl _))
    | letter _ _ _ => simp at hw
  · intro h; exact NReach.start.epsReach h

theorem nreach_snoc_inv {N : Nfa} {u : List Nat} {t m : Nat} (h : NReach N (u ++ [t]) m) :
    ∃ n tgt, NReach N u n ∧ (some t, tgt) ∈ N.getD n [] ∧ EpsReach N tgt m := by
  generalize hw : u ++ [t] = x at h
  induction h with
  | start => simp at hw
  | eps _ hs ih =>
    obtain ⟨n, tgt, h1, h2, h3⟩ := ih hw
    exact ⟨n, tgt, h1, h2, h3.trans (.step hs (.refl _))⟩
  | letter hr he _ =>
    obtain ⟨rfl, ht⟩ := List.append_inj' hw rfl
    simp only [List.cons.injEq, and_true] at ht
    subst ht
    exact ⟨_, _, hr, he, .refl _⟩

/-- the nodes stage 3 tracks: reached and not a pass-through node -/
def RSet (N : Nfa) (u : List Nat) (m : Nat) : Prop := NReach N u m ∧ ¬ IsSkip N m

theorem rset_step (N : Nfa) (hN : N.WF) (u : List Nat) (t m : Nat) :
    (∃ n, RSet N u n ∧ ∃ e, e ∈ N.getD n [] ∧ e.1 = some t ∧ m ∈ nullFrom N e.2) ↔ RSet N (u ++ [t]) m := by
  constructor
  · rintro ⟨n, ⟨hr, _⟩, e, he, het, hm⟩
    have hlt : e.2 < N.size := hN n e he
    obtain ⟨hreach, hns⟩ := (nullFrom_spec N hN e.2 hlt m).1 hm
    have he' : (some t, e.2) ∈ N.getD n [] := by rw [← het]; exact he
    exact ⟨(hr.letter he').epsReach hreach, hns⟩
  · rintro ⟨hr, hns⟩
    obtain ⟨n, tgt, h1, h2, h3⟩ := nreach_snoc_inv hr
    have hnskip : ¬ IsSkip N n := by
      rintro ⟨x, hx⟩
      rw [hx] at h2
      simp at h2
    exact ⟨n, ⟨h1, hnskip⟩, (some t, tgt), h2, rfl, (nullFrom_spec N hN tgt (hN n _ h2) m).2 ⟨h3, hns⟩⟩

theorem runSet_rset (N : Nfa) (hN : N.WF) (w : List Nat) : ∀ (u : List Nat) (m : Nat),
    RunSet N (RSet N u) w m ↔ RSet N (u ++ w) m := by
  induction w with
  | nil => intro u m; simp [RunSet]
  | cons t w ih =>
    intro u m
    unfold RunSet
    rw [RunSet.congr N (rset_step N hN u t) w m, ih (u ++ [t]) m]
    simp

theorem runSet_start (N : Nfa) (hN : N.WF) (h0 : 0 < N.size) (w : List Nat) (m : Nat) :
    RunSet N (fun m => m ∈ nullFrom N 0) w m ↔ RSet N w m := by
  have h1 : ∀ m, m ∈ nullFrom N 0 ↔ RSet N [] m := by
    intro m
    rw [nullFrom_spec N hN 0 h0 m]
    unfold RSet
    rw [nreach_nil]
  rw [RunSet.congr N h1 w m, runSet_rset N hN w [] m]
  simp

/-! ### the adjacency form of the finished construction -/

/-- all edges resolved, sources are nodes -/
def NState.Closed (s : NState) : Prop :=
  ∀ ed, ed ∈ s.edges → ed.src < s.size ∧ ∃ m, ed.to = some m ∧ m < s.size

theorem toNfa_size (s : NState) : s.toNfa.size = s.size := by
  simp [NState.toNfa]

theorem toNfa_getD (s : NState) (n : Nat) : s.toNfa.getD n [] = if n < s.size then s.out n else [] := by
  unfold NState.toNfa
  by_cases h : n < s.size
  · rw [if_pos h]
    simp [Array.getD, h]
  · rw [if_neg h]
    simp [Array.getD, h]

theorem mem_toNfa (s : NState) (hs : s.Closed) (n : Nat) (t : Option Nat) (m : Nat) :
    (t, m) ∈ s.toNfa.getD n [] ↔ ∃ ed, ed ∈ s.edges ∧ ed.src = n ∧ ed.term = t ∧ ed.to = some m := by
  rw [toNfa_getD]
  constructor
  · intro h
    split at h
    · unfold NState.out at h
      obtain ⟨ed, hed, heq⟩ := List.mem_map.1 h
      obtain ⟨hmem, hsrc⟩ := List.mem_filter.1 hed
      simp only [beq_iff_eq] at hsrc
      simp only [Prod.mk.injEq] at heq
      obtain ⟨m', hm', _⟩ := (hs ed hmem).2
      refine ⟨ed, hmem, hsrc, heq.1, ?_⟩
      rw [hm'] at heq ⊢
      simp only [Option.getD_some] at heq
      rw [heq.2]
    · simp at h
  · rintro ⟨ed, hmem, hsrc, hterm, hto⟩
    have hlt : n < s.size := by rw [← hsrc]; exact (hs ed hmem).1
    rw [if_pos hlt]
    unfold NState.out
    refine List.mem_map.2 ⟨ed, List.mem_filter.2 ⟨hmem, by simpa using hsrc⟩, ?_⟩
    rw [hterm, hto]
    rfl

theorem toNfa_wf (s : NState) (hs : s.Closed) : s.toNfa.WF := by
  intro n e he
  have : (e.1, e.2) ∈ s.toNfa.getD n [] := he
  obtain ⟨ed, hmem, _, _, hto⟩ := (mem_toNfa s hs n e.1 e.2).1 this
  obtain ⟨m, hm, hlt⟩ := (hs ed hmem).2
  rw [hto] at hm
  cases hm
  rw [toNfa_size]; exact hlt

theorem nreach_path (s : NState) (hs : s.Closed) {w : List Nat} {m : Nat} (h : NReach s.toNfa w m) :
    NPath s.edges 0 w m := by
  induction h with
  | start => exact .nil 0
  | eps _ hstep ih =>
    obtain ⟨ed, hmem, hsrc, hterm, hto⟩ := (mem_toNfa s hs _ _ _).1 hstep
    have := ih.trans (hsrc ▸ NPath.single ed hmem hto)
    simpa [hterm] using this
  | letter _ he ih =>
    obtain ⟨ed, hmem, hsrc, hterm, hto⟩ := (mem_toNfa s hs _ _ _).1 he
    have := ih.trans (hsrc ▸ NPath.single ed hmem hto)
    simpa [hterm] using this

theorem path_nreach (s : NState) (hs : s.Closed) {u w : List Nat} {n k : Nat} (hr : NReach s.toNfa u n)
    (p : NPath s.edges n w k) : NReach s.toNfa (u ++ w) k := by
  induction p generalizing u with
  | nil n => simpa using hr
  | cons ed hmem hsrc hto _ ih =>
    have hadj := (mem_toNfa s hs _ ed.term _).2 ⟨ed, hmem, hsrc, rfl, hto⟩
    cases hterm : ed.term with
    | none =>
      rw [hterm] at hadj
      simpa using ih (hr.eps hadj)
    | some t =>
      rw [hterm] at hadj
      have := ih (hr.letter hadj)
      simpa using this

theorem nreach_iff_path (s : NState) (hs : s.Closed) (w : List Nat) (m : Nat) :
    NReach s.toNfa w m ↔ NPath s.edges 0 w m :=
  ⟨nreach_path s hs, fun p => by simpa using path_nreach s hs NReach.start p⟩

/-- a prefix of a word that reaches a node reaches some node -/
theorem nreach_prefix {N : Nfa} (w : List Nat) : ∀ (v : List Nat) (m : Nat), NReach N (w ++ v) m → ∃ n, NReach N w n := by
  intro v
  induction v using List.reverseRecOn with
  | nil => intro m h; exact ⟨m, by simpa using h⟩
  | append_singleton v t ih =>
    intro m h
    rw [← List.append_assoc] at h
    obtain ⟨n, _, h1, _, _⟩ := nreach_snoc_inv h
    exact ih n h1

/-- from a node that reaches a node without a lone ε-edge, such a node is ε-reachable along the way -/
theorem path_nonskip (s : NState) (hs : s.Closed) {n k : Nat} {v : List Nat} (p : NPath s.edges n v k)
    (hk : ¬ IsSkip s.toNfa k) : ∃ m, EpsReach s.toNfa n m ∧ ¬ IsSkip s.toNfa m := by
  induction p with
  | nil n => exact ⟨n, .refl n, hk⟩
  | @cons n m k w ed hmem hsrc hto _ ih =>
    by_cases hskip : IsSkip s.toNfa n
    · obtain ⟨x, hx⟩ := hskip
      have hadj := (mem_toNfa s hs n ed.term m).2 ⟨ed, hmem, hsrc, rfl, hto⟩
      rw [hx] at hadj
      simp only [List.mem_singleton, Prod.mk.injEq] at hadj
      obtain ⟨m', h1, h2⟩ := ih hk
      refine ⟨m', .step ?_ h1, h2⟩
      unfold EpsStep
      rw [hx, ← hadj.2]
      simp
    · exact ⟨n, .refl n, hskip⟩

theorem nreach_lt {N : Nfa} (hN : N.WF) (h0 : 0 < N.size) {w : List Nat} {n : Nat} (hr : NReach N w n) :
    n < N.size := by
  induction hr with
  | start => exact h0
  | eps _ hs _ => exact hN _ _ hs
  | letter _ he _ => exact hN _ _ he

/-! ### the composition -/

theorem nfaState_closed (e : Expr) (h : e.wf = true) : (nfaState e).Closed := by
  intro ed hed
  obtain ⟨h1, m, h2, h3⟩ := nfa_edge_bounds e h ed hed
  rw [nfaState_size]
  exact ⟨by omega, m, h2, h3⟩

theorem nfa_size (e : Expr) : (nfa e).size = cnt e + 2 := by
  unfold nfa; rw [toNfa_size, nfaState_size]

theorem nfa_acc_nonskip (e : Expr) (h : e.wf = true) : ¬ IsSkip (nfa e) (cnt e + 1) := by
  rintro ⟨x, hx⟩
  have hmem : (none, x) ∈ (nfaState e).toNfa.getD (cnt e + 1) [] := by
    show (none, x) ∈ (nfa e).getD (cnt e + 1) []
    rw [hx]; simp
  obtain ⟨ed, hed, hsrc, _, _⟩ := (mem_toNfa _ (nfaState_closed e h) _ _ _).1 hmem
  have := (nfa_edge_bounds e h ed hed).1
  omega

/-- every reached node can be continued to a reached node that is not a pass-through node -/
theorem nfa_reach_nonskip (e : Expr) (h : e.wf = true) {w : List Nat} {n : Nat} (hr : NReach (nfa e) w n) :
    ∃ m, RSet (nfa e) w m := by
  have hcl := nfaState_closed e h
  have hn : n < cnt e + 2 := by
    have := nreach_lt (toNfa_wf _ hcl) (by rw [toNfa_size, nfaState_size]; omega) hr
    rwa [toNfa_size, nfaState_size] at this
  obtain ⟨v, p⟩ := nfa_coreach e h n hn
  obtain ⟨m, hm1, hm2⟩ := path_nonskip _ hcl p (nfa_acc_nonskip e h)
  exact ⟨m, hr.epsReach hm1, hm2⟩

theorem nfa_start_ne (e : Expr) (h : e.wf = true) : nullFrom (nfa e) 0 ≠ [] := by
  obtain ⟨m, hm1, hm2⟩ := nfa_reach_nonskip e h (NReach.start (N := nfa e))
  have hN := toNfa_wf _ (nfaState_closed e h)
  have hmem : m ∈ nullFrom (nfa e) 0 :=
    (nullFrom_spec (nfa e) hN 0 (by rw [nfa_size]; omega) m).2 ⟨nreach_nil.1 hm1, hm2⟩
  intro hnil
  rw [hnil] at hmem
  simp at hmem

/-- **complete content**: the automaton the compiler builds for `e` accepts a sequence of child types exactly
    when the expression, read as a regular expression, matches it -/
theorem compile_accepts' (e : Expr) (h : e.wf = true) (w : List Nat) :
    (dfa (nfa e)).accepts w = true ↔ w ∈ e.toRE.lang := by
  have hcl := nfaState_closed e h
  have hN : (nfa e).WF := toNfa_wf _ hcl
  rw [(dfa_simulates (nfa e) hN (nfa_start_ne e h) w).1,
    runSet_start (nfa e) hN (by rw [nfa_size]; omega) w, nfa_size, show cnt e + 2 - 1 = cnt e + 1 from by omega, ← nfa_correct e h w]
  unfold RSet
  constructor
  · rintro ⟨hr, _⟩; exact nreach_path _ hcl hr
  · intro p; exact ⟨(nreach_iff_path _ hcl w _).2 p, nfa_acc_nonskip e h⟩

/-- **prefix liveness**: the automaton has a state after `w` exactly when `w` can be extended to a match -/
theorem compile_live' (e : Expr) (h : e.wf = true) (w : List Nat) :
    ((dfa (nfa e)).run 0 w).isSome = true ↔ ∃ v, w ++ v ∈ e.toRE.lang := by
  have hcl := nfaState_closed e h
  have hN : (nfa e).WF := toNfa_wf _ hcl
  rw [(dfa_simulates (nfa e) hN (nfa_start_ne e h) w).2]
  constructor
  · rintro ⟨m, hm⟩
    obtain ⟨hr, _⟩ := (runSet_start (nfa e) hN (by rw [nfa_size]; omega) w m).1 hm
    have hp := nreach_path _ hcl hr
    have hm' : m < cnt e + 2 := by
      have := nreach_lt hN (by rw [nfa_size]; omega) hr
      rwa [nfa_size] at this
    obtain ⟨v, pv⟩ := nfa_coreach e h m hm'
    exact ⟨v, (nfa_correct e h _).1 (hp.trans pv)⟩
  · rintro ⟨v, hv⟩
    have p := (nfa_correct e h _).2 hv
    have hr := (nreach_iff_path _ hcl _ _).2 p
    obtain ⟨n, hn⟩ := nreach_prefix w v _ hr
    obtain ⟨m, hm⟩ := nfa_reach_nonskip e h hn
    exact ⟨m, (runSet_start (nfa e) hN (by rw [nfa_size]; omega) w m).2 hm⟩

/-- the automaton the compiler builds is well formed -/
theorem compile_dfa_wf (e : Expr) (h : e.wf = true) : (dfa (nfa e)).WF := by
  obtain ⟨h0, ht⟩ := dfa_edges_lt (nfa e) (toNfa_wf _ (nfaState_closed e h))
  exact ⟨h0, ht⟩

end PM
