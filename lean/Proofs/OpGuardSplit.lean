/- Proofs/OpGuardSplit.lean — the slices `Transform.split` / `Transform.lift` emit (PM/StructEdit.lean) are in
   normal form and valid payloads (`openValid`): nests of empty copies of ancestors of a valid document, so
   every spine node carries a canonical mark set and nothing lies off the spines.  (Used by C04.) -/
import Proofs.StructEdit
import Proofs.ReplaceValid
import Proofs.SplitSuccess
import Proofs.ContentBetween
import Proofs.LiftSplit
import Proofs.StepValid
namespace PM

/-! ### nests whose nodes carry canonical mark sets -/

/-- `IsNest` plus: the mark set of every node of the nest is canonical -/
inductive CanonNest (S : Schema) : Nat → List Node → Prop
  | nil : CanonNest S 0 []
  | cons {k : Nat} {l : List Node} (t : TypeId) (a : Attrs) (m : Marks) :
      canonicalMarks S m = true → CanonNest S k l → CanonNest S (k + 1) [.elem t a m l]

theorem CanonNest.isNest {S : Schema} {k : Nat} {l : List Node} (h : CanonNest S k l) : IsNest k l := by
  induction h with
  | nil => exact .nil
  | cons t a m _ _ ih => exact .cons t a m ih

theorem CanonNest.wrap {S : Schema} {k : Nat} {l : List Node} (h : CanonNest S k l) (n : Node)
    (hn : n.isLeaf = false) (hm : canonicalMarks S n.marks = true) : CanonNest S (k + 1) [n.withKids l] := by
  cases n with
  | elem t a m kids => exact .cons t a m hm h
  | text => simp [Node.isLeaf] at hn
  | leaf => simp [Node.isLeaf] at hn

theorem CanonNest.leftOpen {S : Schema} {k : Nat} {l : List Node} (h : CanonNest S k l) :
    leftOpenValid S k l = true := by
  induction h with
  | nil => simp [leftOpenValid]
  | cons t a m hm _ ih => simp [leftOpenValid, hm, ih]

theorem CanonNest.rightOpen {S : Schema} {k : Nat} {l : List Node} (h : CanonNest S k l) :
    rightOpenValid S k l = true := by
  induction h with
  | nil => simp [rightOpenValid]
  | cons t a m hm _ ih => simp [rightOpenValid, hm, ih]

/-- two copies of the same nest, open by its full depth on both sides -/
theorem CanonNest.openValid_twice {S : Schema} {k : Nat} {w : List Node} (h : CanonNest S k w) :
    openValid S k k (w ++ w) = true := by
  cases h with
  | nil => simp [openValid, rightOpenValid]
  | @cons k l t a m hm h' =>
    have h1 := h'.leftOpen
    have h2 := (CanonNest.cons t a m hm h').rightOpen
    simp only [List.cons_append, List.nil_append, openValid, hm, h1, h2, Bool.and_self]

/-- a nest is in normal form -/
theorem IsNest.fnorm {k : Nat} {l : List Node} (h : IsNest k l) : fnorm l = true := by
  induction h with
  | nil => simp [PM.fnorm, chainOk]
  | @cons k l t a m _ ih =>
    have e : (Node.elem t a m l).norm = true := by rw [Node.norm_elem]; exact ih
    simp only [PM.fnorm, fnormKids_cons, fnormKids_nil, e, chainOk, Bool.and_self]

theorem fnorm_nests {a b : Nat} {x y : List Node} (hx : IsNest a x) (hy : IsNest b y) :
    fnorm (fappend x y) = true := by
  rw [fappend_nest hx hy]
  have nx := hx.fnorm
  have ny := hy.fnorm
  rcases hy.eq_nil_or with ⟨_, rfl⟩ | ⟨t, at_, m, l', rfl⟩
  · simpa using nx
  · rcases hx.eq_nil_or with ⟨_, rfl⟩ | ⟨t', a', m', l'', rfl⟩
    · simpa using ny
    · simp only [fnorm, fnormKids_cons, fnormKids_nil, Bool.and_true, Bool.and_eq_true] at nx ny
      simp [fnorm, nx.1, ny.1, chainOk, adjOk]

/-! ### the path nodes of a valid document carry canonical mark sets -/

theorem canonicalMarks_of_checkNode (S : Schema) (n : Node) (hn : n.isLeaf = false)
    (hv : S.checkNode n = true) : canonicalMarks S n.marks = true := by
  cases n with
  | elem t a m kids =>
    rw [checkNode_elem] at hv
    simp only [Bool.and_eq_true] at hv
    exact hv.1.2
  | text => simp [Node.isLeaf] at hn
  | leaf => simp [Node.isLeaf] at hn

/-- `pos_.node(d)` is a path node, also when the negative depth wraps around -/
theorem nodeI_path (r : RPos) (d : Int) (n : Node) (hn : r.nodeI d = some n) :
    ∃ j, j ≤ r.depth ∧ n = r.node j := by
  unfold RPos.nodeI at hn
  dsimp only at hn
  generalize (if d < 0 then (r.depth : Int) + d else d) = k at hn
  split at hn
  · simp only [Option.some.injEq] at hn; exact ⟨_, by omega, hn.symm⟩
  · split at hn
    · simp only [Option.some.injEq] at hn; exact ⟨_, by omega, hn.symm⟩
    · simp at hn

theorem splitNodesFrom_canon (S : Schema) {doc : Node} {pos : Nat} {r : RPos} (h : doc.resolve pos = some r)
    (hv : S.checkNode doc = true) (hdoc : doc.isLeaf = false) :
    ∀ (n : Nat) (d : Int) (ns : List Node), splitNodesFrom r d n = some ns →
      ∀ x ∈ ns, canonicalMarks S x.marks = true
  | 0, d, ns, hs => by
    simp only [splitNodesFrom, Option.some.injEq] at hs; subst hs; simp
  | n + 1, d, ns, hs => by
    simp only [splitNodesFrom] at hs
    cases h1 : r.nodeI d with
    | none => simp [h1] at hs
    | some x =>
      cases h2 : splitNodesFrom r (d + 1) n with
      | none => simp [h1, h2] at hs
      | some xs =>
        simp only [h1, h2, Option.some.injEq] at hs
        subst hs
        intro y hy
        rcases List.mem_cons.mp hy with rfl | hy
        · obtain ⟨j, hj, e⟩ := nodeI_path r d _ h1
          have hl := nodeI_elem h hdoc d _ h1
          refine canonicalMarks_of_checkNode S _ hl ?_
          rw [e]
          exact path_valid S (resolve_resolved h) hv j hj
        · exact splitNodesFrom_canon S h hv hdoc n (d + 1) xs h2 y hy

theorem nestOut_canon (S : Schema) : ∀ (ns : List Node),
    (∀ n ∈ ns, n.isLeaf = false) → (∀ n ∈ ns, canonicalMarks S n.marks = true) →
    CanonNest S ns.length (nestOut ns)
  | [], _, _ => .nil
  | n :: rest, h, hm => by
    simp only [nestOut, List.length_cons]
    exact (nestOut_canon S rest (fun x hx => h x (List.mem_cons_of_mem _ hx))
      (fun x hx => hm x (List.mem_cons_of_mem _ hx))).wrap n (h n List.mem_cons_self) (hm n List.mem_cons_self)

/-! ### split -/

/-- **split**: the slice of the emitted step is in normal form and a valid payload -/
theorem split_guard_parts (S : Schema) (doc : Node) (pos depth : Nat) (st : Step)
    (hv : S.checkNode doc = true) (hdoc : doc.isLeaf = false)
    (hb : splitStep doc pos depth = .ok st) :
    ∃ sl, st = .replace pos pos sl true ∧ fnorm sl.content = true ∧
      openValid S sl.openStart sl.openEnd sl.content = true := by
  unfold splitStep at hb
  cases hr : doc.resolve pos with
  | none => simp [hr] at hb
  | some r =>
    simp only [hr] at hb
    cases hn : splitNodes r depth with
    | none => simp [hn] at hb
    | some nodes =>
      simp only [hn, Except.ok.injEq] at hb
      subst hb
      obtain ⟨hlen, hel⟩ := splitNodesFrom_spec hr hdoc depth _ nodes hn
      have hcm := splitNodesFrom_canon S hr hv hdoc depth _ nodes hn
      have C := nestOut_canon S nodes hel hcm
      rw [hlen] at C
      have N := C.isNest
      refine ⟨_, rfl, fnorm_nests N N, ?_⟩
      simp only [fappend_nest N N]
      exact C.openValid_twice

/-! ### lift: the tokens of a slice made of two nests -/

/-- the tokens of a nest: `k` open tokens, then `k` close tokens -/
theorem IsNest.toks {k : Nat} {l : List Node} (h : IsNest k l) :
    ∃ ops, ops.all Tok.isOp = true ∧ ops.length = k ∧ ftoks l = ops ++ List.replicate k Tok.cl := by
  induction h with
  | nil => exact ⟨[], rfl, rfl, by simp [ftoks]⟩
  | @cons k l t a m _ ih =>
    obtain ⟨ops, h1, h2, h3⟩ := ih
    refine ⟨Tok.op t a m :: ops, by simp [Tok.isOp, h1], by simp [h2], ?_⟩
    have e : ftoks [Node.elem t a m l] = [Tok.op t a m] ++ (ftoks l ++ [Tok.cl]) := by simp [ftoks, Node.toks]
    rw [e, h3, List.replicate_succ']
    simp

theorem closesOpens_cls_ops (k : Nat) (ops : List Tok) (h : ops.all Tok.isOp = true) :
    closesOpens (List.replicate k Tok.cl ++ ops) = true := by
  induction k with
  | zero => simpa using closesOpens_of_ops ops h
  | succ k ih => simpa [List.replicate_succ, closesOpens] using ih

/-- a slice of two nests, open by their full depths: its tokens are the closes of the first nest followed by
    the opens of the second -/
theorem nests_toks {a b : Nat} {x y : List Node} (hx : IsNest a x) (hy : IsNest b y) :
    ∃ ops, ops.all Tok.isOp = true ∧
      (⟨fappend x y, a, b⟩ : Slice).toks = List.replicate a Tok.cl ++ ops := by
  obtain ⟨ox, _, lx, ex⟩ := hx.toks
  obtain ⟨oy, hoy, ly, ey⟩ := hy.toks
  refine ⟨oy, hoy, ?_⟩
  have hs : fsize (x ++ y) - a - b = a + b := by rw [fsize_append, hx.fsize, hy.fsize]; omega
  simp only [Slice.toks, fappend_nest hx hy, hs, ftoks_append, ex, ey]
  have e1 : (ox ++ List.replicate a Tok.cl ++ (oy ++ List.replicate b Tok.cl))
      = ox ++ ((List.replicate a Tok.cl ++ oy) ++ List.replicate b Tok.cl) := by simp
  rw [e1, List.drop_left' lx, List.take_left' (by simp [ly])]

/-! ### lift -/

theorem liftSide_canon (S : Schema) (nodeAt : Nat → Node) (splitsAt : Nat → Bool) (target : Nat) :
    ∀ (n : Nat) (frag : List Node) (opened moved : Nat) (sp : Bool),
      (∀ d, target < d → d ≤ target + n →
        (nodeAt d).isLeaf = false ∧ canonicalMarks S (nodeAt d).marks = true) →
      CanonNest S opened frag →
      CanonNest S (liftSide nodeAt splitsAt target n frag opened moved sp).2.1
        (liftSide nodeAt splitsAt target n frag opened moved sp).1
  | 0, frag, opened, moved, sp, _, h => by simpa [liftSide] using h
  | n + 1, frag, opened, moved, sp, hel, h => by
    unfold liftSide
    simp only
    split
    · exact liftSide_canon S nodeAt splitsAt target n _ _ _ _ (fun d h1 h2 => hel d h1 (by omega))
        (h.wrap _ (hel _ (by omega) (by omega)).1 (hel _ (by omega) (by omega)).2)
    · exact liftSide_canon S nodeAt splitsAt target n _ _ _ _ (fun d h1 h2 => hel d h1 (by omega)) h

/-- the path nodes below the root of a valid document: element nodes with canonical mark sets -/
theorem path_node_canon (S : Schema) {doc : Node} {pos : Nat} {r : RPos} (h : doc.resolve pos = some r)
    (hv : S.checkNode doc = true) (d : Nat) (h0 : 0 < d) (hd : d ≤ r.depth) :
    (r.node d).isLeaf = false ∧ canonicalMarks S (r.node d).marks = true := by
  obtain ⟨k, rfl⟩ : ∃ k, d = k + 1 := ⟨d - 1, by omega⟩
  have hl : (r.node (k + 1)).isLeaf = false := by
    obtain ⟨ty, at_, m, kids, e⟩ := resolve_node_elem h k (by omega)
    rw [e]; rfl
  exact ⟨hl, canonicalMarks_of_checkNode S _ hl (path_valid S (resolve_resolved h) hv (k + 1) hd)⟩

/-- **lift**: the shape of the emitted step — the slice is two nests of copies of ancestors (canonical mark
    sets), open by their full depths, `insert` lies between them -/
theorem liftStep_shape (S : Schema) (doc : Node) (a b depth target : Nat) (st : Step)
    (hv : S.checkNode doc = true) (hab : a ≤ b) (hb : liftStep doc a b depth target = .ok st) :
    ∃ gs ge ml mr os oe before after,
      st = .replaceAround (gs - ml) (ge + mr) gs ge ⟨fappend before after, os, oe⟩ (fsize before - os) true ∧
      gs ≤ ge ∧ CanonNest S os before ∧ CanonNest S oe after := by
  have h := hb
  unfold liftStep at h
  cases hf : doc.resolve a with
  | none => simp [hf] at h
  | some f =>
    cases ht : doc.resolve b with
    | none => simp [hf, ht] at h
    | some t =>
      simp only [hf, ht] at h
      unfold liftStepR at h
      cases hbf : f.before (depth + 1) with
      | none => simp [hbf] at h
      | some gs =>
        cases hafter : t.after (depth + 1) with
        | none => simp [hbf, hafter] at h
        | some ge =>
          simp only [hbf, hafter] at h
          have Rf := resolve_resolved hf
          have Rt := resolve_resolved ht
          have h1 := Rf.before_le depth gs hbf
          have h2 := Rt.le_after depth ge hafter
          have hdf : depth ≤ f.depth := by
            unfold RPos.before at hbf
            simp only [Nat.add_eq_zero_iff, Nat.succ_ne_self, and_false, if_false] at hbf
            split at hbf
            · omega
            · split at hbf
              · omega
              · simp at hbf
          have hdt : depth ≤ t.depth := by
            unfold RPos.after at hafter
            simp only [Nat.add_eq_zero_iff, Nat.succ_ne_self, and_false, if_false] at hafter
            split at hafter
            · omega
            · split at hafter
              · omega
              · simp at hafter
          have NL := liftSide_canon S f.node (fun d => decide (0 < f.index d)) target (depth - target) [] 0 0 false
            (fun d h1 h2 => path_node_canon S hf hv d (by omega) (by omega)) .nil
          have NR := liftSide_canon S t.node (fun d => decide (t.afterT (d + 1) < t.end_ d)) target
            (depth - target) [] 0 0 false
            (fun d h1 h2 => path_node_canon S ht hv d (by omega) (by omega)) .nil
          generalize liftSide f.node (fun d => decide (0 < f.index d)) target (depth - target) [] 0 0 false = L
            at h NL
          generalize liftSide t.node (fun d => decide (t.afterT (d + 1) < t.end_ d)) target
            (depth - target) [] 0 0 false = R at h NR
          obtain ⟨before, os, ml⟩ := L
          obtain ⟨after, oe, mr⟩ := R
          simp only [Except.ok.injEq] at h
          subst h
          simp only at NL NR
          exact ⟨gs, ge, ml, mr, os, oe, before, after, rfl, by omega, NL, NR⟩

/-- **lift**: the static parts of the emitted replace-around step: slice in normal form and well-formed,
    `insert` inside it, positions ordered, and the slice's tokens before / after `insert` are close tokens
    followed by open tokens.  (`hn`, `h` are not needed.) -/
theorem lift_guard_parts (S : Schema) (doc doc' : Node) (a b depth target : Nat) (st : Step)
    (hv : S.checkNode doc = true) (_hn : fnorm doc.kids = true) (hab : a ≤ b)
    (hb : liftStep doc a b depth target = .ok st) (_h : S.apply st doc = .ok doc') :
    ∃ f t gf gt sl ins, st = .replaceAround f t gf gt sl ins true ∧
      fnorm sl.content = true ∧ sl.wf = true ∧ (ins : Int) ≤ sl.size ∧ (f ≤ gf ∧ gf ≤ gt ∧ gt ≤ t) ∧
      (closesOpens (sl.toks.take ins) = true ∧ closesOpens (sl.toks.drop ins) = true) := by
  obtain ⟨gs, ge, ml, mr, os, oe, before, after, rfl, hge, CL, CR⟩ := liftStep_shape S doc a b depth target st hv hab hb
  have NL := CL.isNest
  have NR := CR.isNest
  obtain ⟨ops, hops, etoks⟩ := nests_toks NL NR
  have hins : fsize before - os = os := by rw [NL.fsize]; omega
  refine ⟨_, _, _, _, _, _, rfl, fnorm_nests NL NR, nests_wf NL NR, ?_, ⟨by omega, hge, by omega⟩, ?_, ?_⟩
  · rw [nests_size NL NR, hins]; omega
  · rw [etoks, hins, List.take_left' (by simp)]
    simpa using closesOpens_cls_ops os [] rfl
  · rw [etoks, hins, List.drop_left' (by simp)]
    exact closesOpens_of_ops ops hops

/-! ### lift: the payload -/

theorem IsNest.isCopy {k : Nat} {l : List Node} (h : IsNest k l) : IsCopy l := by
  cases h with
  | nil => exact .inl rfl
  | cons t a m h' => exact .inr ⟨t, a, m, _, rfl, h'.fnorm⟩

/-- fully valid nodes between two nests with canonical mark sets, open by the nests' depths -/
theorem CanonNest.openValid_around {S : Schema} {a b : Nat} {x y : List Node} (hx : CanonNest S a x)
    (hy : CanonNest S b y) (mid : List Node) (hm : S.checkKids mid = true) :
    openValid S a b (x ++ mid ++ y) = true := by
  cases hx with
  | nil =>
    cases hy with
    | nil => simpa [openValid, rightOpenValid] using hm
    | @cons b l t at_ m hmk h' =>
      have hr := (CanonNest.cons t at_ m hmk h').rightOpen
      simp only [openValid, List.nil_append]
      exact rightOpenValid_append S _ _ mid hm hr
  | @cons a l t at_ m hmk h' =>
    have hl := h'.leftOpen
    cases hy with
    | nil => simp [openValid, leftOpenValid, hmk, hl, hm]
    | @cons b l2 t2 at2 m2 hmk2 h2' =>
      have hr := rightOpenValid_append S b (.elem t2 at2 m2 l2) mid hm
        (CanonNest.cons t2 at2 m2 hmk2 h2').rightOpen
      cases hmr : mid ++ [Node.elem t2 at2 m2 l2] with
      | nil => simp at hmr
      | cons n rest =>
        rw [hmr] at hr
        simp only [List.cons_append, List.nil_append, hmr, openValid, hmk, hl, hr, Bool.and_self]

/-- **lift**: the payload of the emitted step (the gap's content placed between the two nests) is valid
    (`C01.PayloadValid S doc st`, unfolded).  "The step applies" is what makes the gap a flat range. -/
theorem lift_payload_valid (S : Schema) (doc doc' : Node) (a b depth target : Nat) (st : Step)
    (hv : S.checkNode doc = true) (hab : a ≤ b)
    (hb : liftStep doc a b depth target = .ok st) (h : S.apply st doc = .ok doc') :
    ∀ f t gf gt sl ins bb, st = .replaceAround f t gf gt sl ins bb →
      ∀ gap insd, doc.slice gf gt = .ok gap → sl.insertAt S ins gap.content = .ok (some insd) →
        openValid S insd.openStart insd.openEnd insd.content = true := by
  obtain ⟨gs, ge, ml, mr, os, oe, before, after, rfl, hge, CL, CR⟩ := liftStep_shape S doc a b depth target st hv hab hb
  intro f t gf gt sl ins bb e gap insd hgap hinsd
  simp only [Step.replaceAround.injEq] at e
  obtain ⟨_, _, rfl, rfl, rfl, rfl, _⟩ := e
  have NL := CL.isNest
  have NR := CR.isNest
  -- the gap is a flat range
  have hflat : gap.openStart = 0 ∧ gap.openEnd = 0 := by
    unfold Schema.apply at h
    simp only at h
    split at h
    · simp at h
    · rw [hgap] at h
      simp only at h
      split at h
      · simp at h
      · rename_i hne
        simpa using hne
  have hck : S.checkKids gap.content = true := by
    have := slice_openValid S doc gs ge gap hv hgap
    rw [hflat.1, hflat.2] at this
    simpa [openValid, rightOpenValid] using this
  have hos : os ≤ fsize before := by rw [NL.fsize]; omega
  have hoe : oe ≤ fsize after := by rw [NR.fsize]; omega
  rw [insertAt_lift S gap.content os oe NL.isCopy NR.isCopy hos hoe] at hinsd
  simp only [Except.ok.injEq, Option.some.injEq] at hinsd
  subst hinsd
  exact CL.openValid_around CR gap.content hck

end PM
