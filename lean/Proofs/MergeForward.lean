/-
  Proofs/MergeForward.lean — C16, first `merge` branch (the second step starts where the first one's
  content ends) without transitivity of `compatible_content`.

  `replaceKids_merge_open` (Proofs/MergeOpen.lean) composes two `RightRel`s: the second step's
  (`K2` right of its content against `K1` right of `t'`) and the first step's, moved along
  (`K1` right of `t'` against `K` right of `T`).  In this branch the second slice is closed on the left,
  so its step descends through every node that contains both `f'` and `t'` without rebuilding the join
  (`outer`): there the second step's relation is the identity on node types and the first step's
  compatibility is used as it is; from the level where the descent stops, `t'` has left the node `f'` is
  in, and right of it the first step's relation is *equality* of what `splitRight` returns
  (`RightRel.shift_split_eq`).  So at every level one of the two relations composed is the identity
  (`outer_rrel_comp`), and no transitivity is needed.
-/
import Proofs.MergeOpen
namespace PM

/-- moving right by `d` from two related positions: once the left position is no longer deep in a child
    that still contains the moved position, the two splits are *equal* -/
theorem RightRel.shift_split_eq {S : Schema} {L' : List Node} {t' : Nat} {L : List Node} {t : Nat}
    (h : RightRel S L' t' L t) (d : Nat)
    (hout : ∀ ty a m k i r, splitRight L' t' = some (.deep (.elem ty a m k) i r) → fsize k < i + d) :
    splitRight L' (t' + d) = splitRight L (t + d) := by
  cases h with
  | @flat _ _ _ _ r h1 h2 =>
    rw [splitRight_flat_shift L' t' r d h1, splitRight_flat_shift L t r d h2]
  | @deep _ _ _ _ ty' a' m' k' i' ty a m k i r h1 h2 h3 hrel =>
    have ho := hout _ _ _ _ _ _ h1
    have hlen := congrArg List.length hrel.toks
    simp only [List.length_drop, ftoks_length] at hlen
    have hi' := hrel.le.1
    have hi := hrel.le.2
    rw [splitRight_deep_shift_out L' t' ty' a' m' k' i' r d h1 ho,
      splitRight_deep_shift_out L t ty a m k i r d h2 (by omega)]
    congr 1; omega

set_option maxRecDepth 4000 in
/-- **the second step's `RightRel` composed with the first step's, without transitivity**: a replace
    whose slice is closed on the left (`K1 → K2`, range `f0 … t0`), and a relation between `K1` right of
    `f0` and some `C` right of `c`; then `K2` right of the inserted content is related to `C` right of
    `c + (t0 − f0)`. -/
theorem outer_rrel_comp (S : Schema) (sl : Slice) (hsn : fnorm sl.content = true) (hwf : sl.wf = true)
    (hcl : sl.openStart = 0) :
    ∀ (rest : List Node) (ty : TypeId) (level : List Node) (f0 t0 idx f t extra : Nat)
      (pre level' C : List Node) (c : Nat),
      level = pre ++ rest → idx = pre.length → f0 = fsize pre + f → t0 = fsize pre + t →
      f ≤ t → t ≤ fsize rest →
      outer S sl ty level f0 t0 idx rest f t extra = .ok level' → fnorm level = true →
      depthAt rest f ≤ extra →
      RightRel S level f0 C c →
      alignedAt level' (fsize level' - (fsize level - t0)) = true →
      RightRel S level' (fsize level' - (fsize level - t0)) C (c + (t - f))
  | [], ty, level, f0, t0, idx, f, t, extra, pre, level', C, c, hl, hi, hf0, ht0, hft, ht, h, hn, hex,
      hR, ha => by
    have hpre : fnormKids pre = true := by rw [hl] at hn; exact fnormKids_append_left hn
    unfold outer at h
    have htz : t = 0 := by simpa using ht
    have hfz : f = 0 := by omega
    have R2 := atLevel_rrel S h hn hsn hwf (by rw [hl, fsize_append]; simp; omega)
      (by rw [hl, fsize_append]; simp; omega)
      (by rw [hcl, singleDepth_closed_left]; exact bridgeCompat_nil S _ _ _ _ _) ha
    refine R2.congr_right ?_
    have := hR.shift_split_eq (t - f) (by
      intro ty a m k i r hs
      rw [hl, hf0, splitRight_append_pre pre [] f hpre, hfz] at hs
      simp at hs)
    rw [← this]; congr 1; omega
  | n :: ns, ty, level, f0, t0, idx, f, t, extra, pre, level', C, c, hl, hi, hf0, ht0, hft, ht, h, hn, hex,
      hR, ha => by
    have hpre : fnormKids pre = true := by rw [hl] at hn; exact fnormKids_append_left hn
    simp only [fsize_cons] at ht
    have hsF : splitRight level f0 = splitRight (n :: ns) f := by
      rw [hl, hf0]; exact splitRight_append_pre pre _ f hpre
    -- where the descent stops: the second step's relation, then equality of splits
    have here : atLevel S sl ty level f0 t0 extra = .ok level' →
        (∀ ty a m k i r, splitRight (n :: ns) f = some (.deep (.elem ty a m k) i r) → fsize k < i + (t - f)) →
        RightRel S level' (fsize level' - (fsize level - t0)) C (c + (t - f)) := by
      intro h' hout
      have R2 := atLevel_rrel S h' hn hsn hwf (by rw [hl, fsize_append]; simp; omega)
        (by rw [hl, fsize_append]; simp; omega)
        (by rw [hcl, singleDepth_closed_left]; exact bridgeCompat_nil S _ _ _ _ _) ha
      refine R2.congr_right ?_
      have := hR.shift_split_eq (t - f) (by
        intro ty a m k i r hs
        rw [hsF] at hs
        exact hout ty a m k i r hs)
      rw [← this]; congr 1; omega
    unfold outer at h
    split at h
    · rename_i hf
      refine here h ?_
      intro ty a m k i r hs
      rw [hf] at hs; simp at hs
    · rename_i hf
      split at h
      · rename_i hle
        have ih := outer_rrel_comp S sl hsn hwf hcl ns ty level f0 t0 (idx + 1) (f - n.size) (t - n.size) extra
          (pre ++ [n]) level' C c (by simp [hl]) (by simp [hi]) (by rw [fsize_append]; simp; omega)
          (by rw [fsize_append]; simp; omega) (by omega) (by omega) h hn
          (by rw [depthAt_cons, if_neg hf, if_pos hle] at hex; exact hex) hR ha
        rw [show t - n.size - (f - n.size) = t - f by omega] at ih
        exact ih
      · rename_i hlt
        split at h
        · rename_i tyC aC mC kidsC
          simp only [Node.size_elem, Nat.not_le] at hlt
          have hsL := splitRight_elem tyC aC mC kidsC ns f hf hlt
          split at h
          · rename_i hcond
            simp only [Bool.and_eq_true, decide_eq_true_eq, Node.size_elem] at hcond
            obtain ⟨hex0, htsz⟩ := hcond
            split at h
            · rename_i inner hin
              simp at h
              subst hl
              have hnk := fnorm_child hn
              have hlev : level' = pre ++ Node.elem tyC aC mC inner :: ns := by
                rw [← h, hi, set_mid]
              subst hlev
              have ht00 : t ≠ 0 := by omega
              have htk := outer_toks S sl hwf kidsC tyC kidsC (f - 1) (t - 1) 0 (f - 1) (t - 1)
                (extra - 1) [] inner rfl rfl (by simp) (by simp) (by omega) (by omega) hin
              have hlen : fsize kidsC - (t - 1) ≤ fsize inner := by
                have := congrArg List.length htk
                simp only [List.length_append, List.length_drop, ftoks_length] at this
                omega
              have hpos : fsize (pre ++ Node.elem tyC aC mC inner :: ns)
                    - (fsize (pre ++ Node.elem tyC aC mC kidsC :: ns) - t0)
                  = fsize pre + (1 + (fsize inner - (fsize kidsC - (t - 1)))) := by
                rw [fsize_append, fsize_append]
                simp only [fsize_cons, Node.size_elem]
                omega
              rw [hpos] at ha ⊢
              have hs' : splitRight (pre ++ Node.elem tyC aC mC inner :: ns)
                  (fsize pre + (1 + (fsize inner - (fsize kidsC - (t - 1)))))
                  = some (.deep (.elem tyC aC mC inner) (fsize inner - (fsize kidsC - (t - 1))) ns) := by
                rw [splitRight_append_pre _ _ _ hpre,
                  splitRight_elem tyC aC mC inner ns _ (by omega) (by omega)]
                simp
              rw [alignedAt_append_pre, alignedAt_cons, if_neg (by omega),
                if_neg (by simp; omega)] at ha
              simp only [Nat.add_sub_cancel_left] at ha
              -- the first step's relation at this level is deep, with the same left node
              rw [hsL] at hsF
              cases hR with
              | flat g1 g2 => rw [hsF] at g1; simp at g1
              | @deep _ _ _ _ ty' a' m' k' i' ty0 a0 m0 k0 i0 r0 g1 g2 g3 grel =>
                rw [hsF] at g1
                simp only [Option.some.injEq, RSplit.deep.injEq, Node.elem.injEq] at g1
                obtain ⟨⟨rfl, rfl, rfl, rfl⟩, rfl, rfl⟩ := g1
                have glen := congrArg List.length grel.toks
                simp only [List.length_drop, ftoks_length] at glen
                have gi' := grel.le.1
                have gi := grel.le.2
                have hdep : depthAt kidsC (f - 1) ≤ extra - 1 := by
                  rw [depthAt_cons, if_neg hf, if_neg (by simp; omega)] at hex
                  simp only at hex
                  omega
                have ih := outer_rrel_comp S sl hsn hwf hcl kidsC tyC kidsC (f - 1) (t - 1) 0 (f - 1) (t - 1)
                  (extra - 1) [] inner k0 i0 rfl rfl (by simp) (by simp) (by omega) (by omega) hin hnk
                  hdep grel ha
                rw [show t - 1 - (f - 1) = t - f by omega] at ih
                have g2' := splitRight_deep_shift_in C c ty0 a0 m0 k0 i0 _ (t - f) g2 (by omega)
                exact .deep hs' g2' g3 ih
            · simp at h
          · rename_i hcond
            refine here h ?_
            intro ty a m k i r hs
            rw [hsL] at hs
            simp only [Option.some.injEq, RSplit.deep.injEq, Node.elem.injEq] at hs
            obtain ⟨⟨_, _, _, rfl⟩, rfl, _⟩ := hs
            simp only [Bool.and_eq_true, decide_eq_true_eq, Node.size_elem, not_and, ne_eq] at hcond
            by_cases he : extra = 0
            · rw [depthAt_cons, if_neg hf, if_neg (by simp; omega)] at hex
              simp only at hex
              omega
            · have := hcond he
              omega
        · rename_i hne
          refine here h ?_
          intro ty a m k i r hs
          rw [splitRight_cons, if_neg hf, if_neg hlt] at hs
          cases n with
          | text s m' =>
            simp only at hs
            split at hs <;> simp at hs
          | leaf ty' a' m' => simp at hs
          | elem ty' a' m' k' => exact absurd rfl (hne ty' a' m' k')

/-- `replaceKids` form: `K1 → K2` by a replace of `f' … t'` whose slice is closed on the left -/
theorem replaceKids_rrel_comp (S : Schema) (ty : TypeId) (K1 K2 : List Node) (f' t' : Nat) (sl : Slice)
    (hn : fnorm K1 = true) (hsn : fnorm sl.content = true) (hcl : sl.openStart = 0)
    (h : replaceKids S ty K1 f' t' sl = .ok K2) {C : List Node} {c : Nat}
    (hR : RightRel S K1 f' C c)
    (ha : alignedAt K2 (fsize K2 - (fsize K1 - t')) = true) :
    RightRel S K2 (fsize K2 - (fsize K1 - t')) C (c + (t' - f')) := by
  obtain ⟨hft, ht, hwf, ho⟩ := replaceKids_ok h
  exact outer_rrel_comp S sl hsn hwf hcl K1 ty K1 f' t' 0 f' t' _ [] K2 C c rfl rfl (by simp) (by simp)
    hft ht ho hn (by rw [hcl]; omega) hR ha

/-- **the second step starts where the first one's content ends** (first slice closed on the right,
    second closed on the left; open on the outer sides), **no schema guard** -/
theorem replaceKids_merge_open_fwd (S : Schema) (ty : TypeId) (K K1 K2 : List Node)
    (f t f' t' : Nat) (c c' : List Node) (a b : Nat)
    (hvc : S.validContent ty K = true) (hv : S.checkKids K = true) (hn : fnorm K = true)
    (hcn : fnorm c = true) (hcn' : fnorm c' = true)
    (hp : openValid S a 0 c = true) (hp' : openValid S 0 b c' = true)
    (hr1 : replaceKids S ty K f t ⟨c, a, 0⟩ = .ok K1)
    (hr2 : replaceKids S ty K1 f' t' ⟨c', 0, b⟩ = .ok K2)
    (hf' : f' = f + (Slice.mk c a 0).toks.length)
    (ha1 : alignedAt K1 f = true)
    (ha2 : alignedAt K2 f' = true ∧ alignedAt K2 (f' + (Slice.mk c' 0 b).toks.length) = true) :
    replaceKids S ty K f (t + (t' - f')) ⟨fappend c c', a, b⟩ = .ok K2 := by
  have F1 := fwdFacts S ty K K1 f t _ hr1
  have F2 := fwdFacts S ty K1 K2 f' t' _ hr2
  have hn1 := F1.norm hn hcn
  have hn2 := F2.norm hn1 hcn'
  have haK : alignedAt K f = true := (replaceKids_aligned S ty K f t _ K1 hr1).1
  have haK1 := replaceKids_aligned S ty K1 f' t' _ K2 hr2
  have haK2 : alignedAt K2 f = true ∧ alignedAt K2 (f' + (Slice.mk c' 0 b).toks.length) = true := by
    refine ⟨?_, ha2.2⟩
    by_cases he : f' = f
    · rw [← he]; exact ha2.1
    · exact alignedAt_transfer K2 K1 f hn2 hn1 (F2.get_left (f - 1) (by omega)).symm
        (F2.get_left f (by omega)).symm ha1
  obtain ⟨hv1, hvc1⟩ := F1.valid hv hvc hp
  obtain ⟨hv2, hvc2⟩ := F2.valid hv1 hvc1 hp'
  have hwf1 := F1.wf
  have hwf2 := F2.wf
  simp only [Slice.wf, Bool.and_eq_true, decide_eq_true_eq] at hwf1 hwf2
  obtain ⟨hft, ht⟩ := F1.range
  obtain ⟨hft', ht'⟩ := F2.range
  have hsz1 := F1.size
  have hd1 := F1.depths
  have hd2 := F2.depths
  simp only at hd1 hd2 hsz1
  generalize hTA : (Slice.mk c a 0).toks = TA at *
  generalize hTB : (Slice.mk c' 0 b).toks = TB at *
  subst hf'
  -- right of the first step's content
  have R1 : RightRel S K1 (f + TA.length) K t := by
    have := F1.rrel hn hcn (.inr rfl)
    rw [hTA] at this
    exact this haK1.1
  have hTle : t + (t' - (f + TA.length)) ≤ fsize K := by omega
  have haT : alignedAt K (t + (t' - (f + TA.length))) = true := by
    by_cases hd : t' - (f + TA.length) = 0
    · rw [hd]; exact R1.aligned.2
    · obtain ⟨j, hj⟩ : ∃ j, t' = f + TA.length + (j + 1) := ⟨t' - (f + TA.length) - 1, by omega⟩
      have g1 := F1.get_right j
      have g2 := F1.get_right (j + 1)
      rw [hTA] at g1 g2
      refine alignedAt_shift K K1 _ t' hn hn1 (by omega) (by omega) ?_ ?_ haK1.2
      · rw [show t + (t' - (f + TA.length)) - 1 = t + j by omega, ← g1]
        congr 1; omega
      · rw [show t + (t' - (f + TA.length)) = t + (j + 1) by omega, ← g2]
        congr 1; omega
  have R1s := R1.shift (t' - (f + TA.length)) hTle haT
  rw [show f + TA.length + (t' - (f + TA.length)) = t' by omega] at R1s
  -- right of the second step's content: composed with `R1` level by level, no transitivity
  have hR : RightRel S K (t + (t' - (f + TA.length))) K2 (f + TA.length + TB.length) := by
    have hpos : fsize K2 - (fsize K1 - t') = f + TA.length + TB.length := by
      have := F2.size
      rw [hTB] at this
      omega
    have := replaceKids_rrel_comp S ty K1 K2 (f + TA.length) t' ⟨c', 0, b⟩ hn1 hcn' rfl hr2 R1
      (by rw [hpos]; exact haK2.2)
    rw [hpos] at this
    exact this.symm
  -- tokens of the pair's result
  have htk : ftoks K2 = (ftoks K).take f ++ (TA ++ TB) ++ (ftoks K).drop (t + (t' - (f + TA.length))) := by
    have h2 := F2.toks
    rw [hTB, F1.toks, hTA] at h2
    rw [h2]
    exact splice_splice_right (ftoks K) TA TB f t t' (by rw [ftoks_length]; omega) hft'
  have hdR1 := R1.depth
  have hdR1s := R1s.depth
  have hc := F1.lcompat
  simp only at hc
  exact replaceKids_merged S ty K K2 f _ c c' a b hn hvc2 hv2 hn2 hcn hcn' hwf1.1 hwf2.2 (by omega) hTle
    (by rw [hTA, hTB]; exact htk) haK haK2.1 (by rw [hTA, hTB]; exact hR) hd1.1 (by omega) hc

end PM
