/- Proofs/FitInStep.lean — `placed` and the frontier stay *in step* over the loop of `Fitter.fit`
   (`FitState.inStepB`, PM/Fitter.lean): every frontier entry holds a match and the last-child chain of
   non-leaf nodes of `placed` is as long as the frontier is deep.

   The delicate place is `place_nodes` when it pushes the open end of the placed content onto the
   frontier (`pushOpenEnd`): the frontier grows by `open_end_count` entries read off the *slice*, and
   `placed` must have grown by as many levels.  That holds when the unplaced slice is well-formed
   (`Slice.wf`: `open_end ≤ spineR`, `open_start ≤ spineL`) and not of size 0 at that moment:
   `open_end_count > 0` then forces the fragment to lie at the very end of a single chain
   (`pure_of_size`), the count is `open_end - slice_depth ≤ spineR fragment`, `close_node_start` keeps
   the last-child chain of the last node (`closeNodeStart_rspine`), and the one case in which the code
   does not add the node it pushes the open end of (a single start-open node without content) has size 0. -/
import Proofs.FitInv
namespace PM

/-! ### sizes and spines -/

theorem two_spineR_le_fsize : ∀ (l : List Node), 2 * spineR l ≤ fsize l
  | [] => by simp [spineR]
  | [x] => by
    cases x with
    | elem t a m k =>
      have := two_spineR_le_fsize k
      simp only [spineR, fsize, Node.size_elem]
      omega
    | text s m => simp [spineR]
    | leaf t a m => simp [spineR]
  | x :: y :: ys => by
    have := two_spineR_le_fsize (y :: ys)
    have e : spineR (x :: y :: ys) = spineR (y :: ys) := by simp [spineR]
    rw [e]
    simp only [fsize] at this ⊢
    omega

theorem two_spineL_le_fsize : ∀ (l : List Node), 2 * spineL l ≤ fsize l
  | [] => by simp [spineL]
  | .elem t a m k :: rest => by
    have := two_spineL_le_fsize k
    simp only [spineL, fsize, Node.size_elem]
    omega
  | .text s m :: rest => by simp [spineL]
  | .leaf t a m :: rest => by simp [spineL]

theorem spineR_cons_cons (x y : Node) (ys : List Node) : spineR (x :: y :: ys) = spineR (y :: ys) := by
  simp [spineR]

/-- `c` is a single chain of `d` non-leaf nodes down to the fragment `G` -/
def pureTo : Nat → List Node → List Node → Prop
  | 0, c, G => c = G
  | d + 1, c, G => ∃ t a m k, c = [.elem t a m k] ∧ pureTo d k G

theorem pureTo_spineR : ∀ (d : Nat) (c G : List Node), pureTo d c G → spineR c = d + spineR G
  | 0, c, G, h => by cases h; simp
  | d + 1, c, G, ⟨t, a, m, k, hc, hk⟩ => by
    subst hc
    have := pureTo_spineR d k G hk
    rw [spineR_singleton_elem, this]
    omega

theorem pureTo_spineL : ∀ (d : Nat) (c G : List Node), pureTo d c G → spineL c = d + spineL G
  | 0, c, G, h => by cases h; simp
  | d + 1, c, G, ⟨t, a, m, k, hc, hk⟩ => by
    subst hc
    have := pureTo_spineL d k G hk
    simp only [spineL, this]
    omega

theorem pureTo_fsize : ∀ (d : Nat) (c G : List Node), pureTo d c G → fsize c = fsize G + 2 * d
  | 0, c, G, h => by cases h; simp
  | d + 1, c, G, ⟨t, a, m, k, hc, hk⟩ => by
    subst hc
    have := pureTo_fsize d k G hk
    simp only [fsize, Node.size_elem, this]
    omega

theorem contentAt_fsize : ∀ (d : Nat) (c G : List Node), contentAt c d = .ok G → G ≠ [] →
    fsize G + 2 * d ≤ fsize c
  | 0, c, G, h, _ => by
    have := pure_ok h
    subst this
    simp
  | d + 1, c, G, h, hne => by
    unfold contentAt at h
    split at h
    · simp [throw, throwThe, MonadExceptOf.throw] at h
    · rename_i n rest
      have ih := contentAt_fsize d n.kids G h hne
      cases n with
      | elem t a m k =>
        simp only [Node.kids] at ih
        simp only [fsize, Node.size_elem]
        omega
      | text s m =>
        exfalso
        cases d with
        | zero =>
          have := pure_ok h
          exact hne this.symm
        | succ d' => simp [Node.kids, contentAt, throw, throwThe, MonadExceptOf.throw] at h
      | leaf t a m =>
        exfalso
        cases d with
        | zero =>
          have := pure_ok h
          exact hne this.symm
        | succ d' => simp [Node.kids, contentAt, throw, throwThe, MonadExceptOf.throw] at h

/-- **a fragment that reaches into the open end lies at the end of a single chain**: if the
    fragment `G` at depth `d` of the first-child chain satisfies `content.size ≤ G.size + d + open_end`
    (what `open_end_count ≥ 0`, `open_more`'s and `drop_node`'s "at end" tests say) and
    `open_end ≤ spineR content`, then every level above `G` has exactly one node -/
theorem pure_of_size : ∀ (d : Nat) (c G : List Node) (oe : Nat), contentAt c d = .ok G → G ≠ [] →
    oe ≤ spineR c → fsize c ≤ fsize G + d + oe → pureTo d c G ∧ d ≤ oe
  | 0, c, G, oe, h, _, _, _ => by
    have := pure_ok h
    subst this
    exact ⟨rfl, Nat.zero_le _⟩
  | d + 1, c, G, oe, h, hne, hoe, hsz => by
    have hle := contentAt_fsize (d + 1) c G h hne
    unfold contentAt at h
    split at h
    · simp [throw, throwThe, MonadExceptOf.throw] at h
    · rename_i n rest
      have hk := contentAt_fsize d n.kids G h hne
      cases n with
      | elem t a m k =>
        simp only [Node.kids] at h hk
        cases rest with
        | nil =>
          rw [spineR_singleton_elem] at hoe
          simp only [fsize, Node.size_elem, Nat.add_zero] at hsz
          have hoe1 : 1 ≤ oe := by omega
          obtain ⟨ih1, ih2⟩ := pure_of_size d k G (oe - 1) h hne (by omega) (by omega)
          exact ⟨⟨t, a, m, k, rfl, ih1⟩, by omega⟩
        | cons y ys =>
          exfalso
          rw [spineR_cons_cons] at hoe
          have h2 := two_spineR_le_fsize (y :: ys)
          simp only [fsize, Node.size_elem] at hsz h2
          omega
      | text s m =>
        exfalso
        cases d with
        | zero =>
          have := pure_ok h
          exact hne this.symm
        | succ d' => simp [Node.kids, contentAt, throw, throwThe, MonadExceptOf.throw] at h
      | leaf t a m =>
        exfalso
        cases d with
        | zero =>
          have := pure_ok h
          exact hne this.symm
        | succ d' => simp [Node.kids, contentAt, throw, throwThe, MonadExceptOf.throw] at h

/-! ### last children under `append`, `from_array`, `add_to_fragment` -/

theorem addNode_elem (target : List Node) (t : TypeId) (a : Attrs) (m : Marks) (k : List Node) :
    addNode target (.elem t a m k) = target ++ [.elem t a m k] := by
  unfold addNode
  split
  · rename_i h1 h2 h3 h4 h5 h6 heq
    cases heq
  · rfl

theorem fappend_getLast_elem (x b : List Node) (t : TypeId) (a : Attrs) (m : Marks) (k : List Node)
    (h : b.getLast? = some (.elem t a m k)) : (fappend x b).getLast? = some (.elem t a m k) := by
  unfold fappend
  cases b with
  | nil => simp at h
  | cons c rest =>
    simp only
    split
    · exact h
    · cases rest with
      | nil =>
        simp only [List.getLast?_singleton, Option.some.injEq] at h
        subst h
        rw [addNode_elem]
        simp
      | cons y ys =>
        rw [List.getLast?_cons_cons] at h
        simp only [List.getLast?_append, h, Option.some_or]

theorem fromArray_append_elem (l : List Node) (t : TypeId) (a : Attrs) (m : Marks) (k : List Node) :
    (fromArray (l ++ [.elem t a m k])).getLast? = some (.elem t a m k) := by
  unfold fromArray addNodes
  rw [List.foldl_append]
  simp only [List.foldl_cons, List.foldl_nil]
  rw [addNode_elem]
  simp

/-- adding content whose last node is a non-leaf node with a chain of `j` levels below it makes the
    chain of the result `d + 1 + j` levels long -/
theorem addToFragment_deep : ∀ (d : Nat) (frag c r : List Node) (t : TypeId) (a : Attrs) (m : Marks)
    (kk : List Node) (j : Nat), addToFragment frag d c = .ok r → c.getLast? = some (.elem t a m kk) →
    rspineOK j kk → rspineOK (d + 1 + j) r
  | 0, frag, c, r, t, a, m, kk, j, h, hc, hj => by
    have := pure_ok h
    subst this
    rw [show 0 + 1 + j = j + 1 by omega]
    exact ⟨t, a, m, kk, fappend_getLast_elem frag c t a m kk hc, hj⟩
  | d + 1, frag, c, r, t, a, m, kk, j, h, hc, hj => by
    unfold addToFragment at h
    split at h
    · rename_i t' a' m' kids hl
      obtain ⟨inner, hi, h⟩ := FM.bind_ok h
      have := pure_ok h
      subst this
      have ih := addToFragment_deep d kids c inner t a m kk j hi hc hj
      rw [show d + 1 + 1 + j = (d + 1 + j) + 1 by omega]
      exact ⟨t', a', m', inner, by simp, ih⟩
    · simp [throw, throwThe, MonadExceptOf.throw] at h

/-! ### `close_node_start` keeps the last-child chain -/

theorem rspineOK_singleton_of_last {k : Nat} {frag : List Node} {n : Node} (hl : frag.getLast? = some n)
    (h : rspineOK k frag) : rspineOK k [n] := by
  cases k with
  | zero => trivial
  | succ k =>
    obtain ⟨t, a, m, kids, h1, h2⟩ := h
    rw [hl] at h1
    simp only [Option.some.injEq] at h1
    subst h1
    exact ⟨t, a, m, kids, rfl, h2⟩

theorem rspineOK_withMarks (k : Nat) (n : Node) (mk : Marks) (h : rspineOK k [n]) : rspineOK k [n.withMarks mk] := by
  cases k with
  | zero => trivial
  | succ k =>
    obtain ⟨t, a, m, kids, h1, h2⟩ := h
    simp only [List.getLast?_singleton, Option.some.injEq] at h1
    subst h1
    exact ⟨t, a, mk, kids, rfl, h2⟩

theorem closeNodeStart_rspine (S : Schema) : ∀ (os : Nat) (node : Node) (k : Nat) (r : Node),
    closeNodeStart S os node (k : Int) = .ok r → rspineOK k [node] → rspineOK k [r]
  | 0, node, k, r, h, hk => by
    have := pure_ok h
    subst this
    exact hk
  | os + 1, node, 0, r, _, _ => trivial
  | os + 1, node, k + 1, r, h, ⟨t, a, m, kids, h1, h2⟩ => by
    simp only [List.getLast?_singleton, Option.some.injEq] at h1
    subst h1
    unfold closeNodeStart at h
    simp only [Node.kids] at h
    obtain ⟨frag, hfrag, h⟩ := FM.bind_ok h
    obtain ⟨fill, _, h⟩ := FM.bind_ok h
    obtain ⟨fill', _, h⟩ := FM.bind_ok h
    obtain ⟨tail, htail, h⟩ := FM.bind_ok h
    have := pure_ok h
    subst this
    have htl : tail = [] := by
      rw [if_neg (by omega)] at htail
      exact (pure_ok htail).symm
    subst htl
    -- the fragment after the start was closed keeps its last-child chain
    have hf : rspineOK k frag := by
      cases k with
      | zero => trivial
      | succ k' =>
        by_cases hos : os = 0
        · rw [if_pos hos] at hfrag
          have := pure_ok hfrag
          subst this
          exact h2
        · rw [if_neg hos] at hfrag
          cases kids with
          | nil => simp [throw, throwThe, MonadExceptOf.throw] at hfrag
          | cons c rest =>
            simp only at hfrag
            obtain ⟨c', hc', hfrag⟩ := FM.bind_ok hfrag
            have := pure_ok hfrag
            subst this
            cases rest with
            | nil =>
              simp only [List.length_singleton, beq_self_eq_true, if_true] at hc'
              have e : ((k' + 1 + 1 : Nat) : Int) - 1 = ((k' + 1 : Nat) : Int) := by omega
              rw [e] at hc'
              exact closeNodeStart_rspine S os c (k' + 1) c' hc' h2
            | cons y ys =>
              obtain ⟨t2, a2, m2, k2, hl, hs⟩ := h2
              rw [List.getLast?_cons_cons] at hl
              exact ⟨t2, a2, m2, k2, by rw [List.getLast?_cons_cons]; exact hl, hs⟩
    refine ⟨t, a, m, _, rfl, ?_⟩
    have e : ∀ x : List Node, fappend x [] = x := fun x => rfl
    rw [e]
    cases k with
    | zero => trivial
    | succ k' =>
      obtain ⟨t2, a2, m2, k2, hl, hs⟩ := hf
      exact ⟨t2, a2, m2, k2, fappend_getLast_elem fill' frag t2 a2 m2 k2 hl, hs⟩

/-! ### the take loop ends with the closed last node (or skips a single empty start-open node) -/

theorem takeLoop_last (S : Schema) (d : Dfa) (fty : TypeId) (os : Nat) (oec : Int) (total : Nat) :
    ∀ (rest : List Node) (taken q : Nat) (add : List Node) (tk : Nat × Nat × List Node),
    takeLoop S d fty os oec total rest taken q add = .ok tk → tk.1 = total → total = taken + rest.length →
    rest ≠ [] →
    (taken = 0 ∧ (∃ n, rest = [n] ∧ fsize n.kids = 0) ∧ os ≠ 0 ∧ tk.2.2 = add) ∨
    (∃ pre r lastNode os', rest.getLast? = some lastNode ∧ tk.2.2 = pre ++ [r] ∧
      closeNodeStart S os' (lastNode.withMarks ((S.nodeType fty).allowedMarks lastNode.marks)) oec = .ok r)
  | [], _, _, _, _, _, _, _, hne => absurd rfl hne
  | next :: rest', taken, q, add, tk, h, h1, h2, _ => by
    unfold takeLoop at h
    split at h
    · have := pure_ok h
      subst this
      simp only [List.length_cons] at h1 h2
      omega
    · rename_i q' hm
      simp only at h
      cases rest' with
      | nil =>
        simp only [List.length_singleton] at h2
        have htot : (taken + 1 == total) = true := by simp [h2]
        split at h
        · obtain ⟨n, hn, h⟩ := FM.bind_ok h
          have e : takeLoop S d fty os oec total [] (taken + 1) q' (add ++ [n]) = .ok (taken + 1, q', add ++ [n]) := by
            unfold takeLoop; rfl
          rw [e] at h
          simp only [Except.ok.injEq] at h
          subst h
          try simp only [htot, if_true] at hn
          exact .inr ⟨add, n, next, _, rfl, rfl, hn⟩
        · rename_i hc
          have e : takeLoop S d fty os oec total [] (taken + 1) q add = .ok (taken + 1, q, add) := by
            unfold takeLoop; rfl
          rw [e] at h
          simp only [Except.ok.injEq] at h
          subst h
          simp only [Bool.or_eq_true, decide_eq_true_eq, beq_iff_eq, bne_iff_ne, ne_eq, not_or, Decidable.not_not] at hc
          exact .inl ⟨by omega, ⟨next, rfl, hc.2⟩, hc.1.2, rfl⟩
      | cons y ys =>
        simp only [List.length_cons] at h2
        split at h
        · obtain ⟨n, hn, h⟩ := FM.bind_ok h
          rcases takeLoop_last S d fty os oec total (y :: ys) (taken + 1) q' (add ++ [n]) tk h h1
              (by simp only [List.length_cons]; omega) (by simp) with ⟨h0, _⟩ | ⟨pre, r, ln, os', hl, hp, hc⟩
          · omega
          · exact .inr ⟨pre, r, ln, os', by rw [List.getLast?_cons_cons]; exact hl, hp, hc⟩
        · rcases takeLoop_last S d fty os oec total (y :: ys) (taken + 1) q add tk h h1
              (by simp only [List.length_cons]; omega) (by simp) with ⟨h0, _⟩ | ⟨pre, r, ln, os', hl, hp, hc⟩
          · omega
          · exact .inr ⟨pre, r, ln, os', by rw [List.getLast?_cons_cons]; exact hl, hp, hc⟩

/-! ### pushing the open end onto the frontier -/

theorem pushOpenEnd_spec (S : Schema) : ∀ (n : Nat) (cur : List Node) (fr fr' : List FItem),
    pushOpenEnd S n cur fr = .ok fr' → FrOK fr → fr'.length = fr.length + n ∧ FrOK fr' ∧ (0 < n → cur ≠ [])
  | 0, cur, fr, fr', h, hfr => by
    have := pure_ok h
    subst this
    exact ⟨rfl, hfr, fun h => by omega⟩
  | n + 1, cur, fr, fr', h, hfr => by
    unfold pushOpenEnd at h
    split at h
    · simp [throw, throwThe, MonadExceptOf.throw] at h
    · rename_i node hl
      obtain ⟨q, _, h⟩ := FM.bind_ok h
      obtain ⟨h1, h2, _⟩ := pushOpenEnd_spec S n node.kids _ fr' h
        (FrOK_append hfr (by intro x hx; simp at hx; subst hx; exact ⟨q, rfl⟩))
      refine ⟨by rw [h1]; simp; omega, h2, fun _ hc => ?_⟩
      rw [hc] at hl
      simp at hl

/-! ### the pushed levels are there: `place_nodes` with a positive `open_end_count` -/

theorem fsize_zero_spine (l : List Node) (h : fsize l = 0) : spineR l = 0 ∧ spineL l = 0 := by
  have h1 := two_spineR_le_fsize l
  have h2 := two_spineL_le_fsize l
  omega

/-- `placed` grows by as many levels as `place_nodes` pushes onto the frontier -/
theorem placeTaken_spine (S : Schema) (d : Dfa) (fty : TypeId) (u : Slice) (sd : Nat) (frag : List Node)
    (hcon : contentAt u.content sd = .ok frag) (hne : frag ≠ [])
    (hU1 : u.openEnd ≤ spineR u.content) (hU2 : u.openStart ≤ spineL u.content)
    (hsz : (u.size == 0) = false) (k : Nat)
    (hk : ((fsize frag : Int) + sd) - ((fsize u.content : Int) - u.openEnd) = ((k + 1 : Nat) : Int))
    (q1 : Nat) (add0 : List Node) (tk : Nat × Nat × List Node)
    (htk : takeLoop S d fty (u.openStart - sd) ((k + 1 : Nat) : Int) frag.length frag 0 q1 add0 = .ok tk)
    (htoEnd : tk.1 = frag.length) (placed0 p : List Node) (fd : Nat)
    (hp : addToFragment placed0 fd (fromArray tk.2.2) = .ok p) : rspineOK (fd + 1 + k) p := by
  obtain ⟨hpure, hsd⟩ := pure_of_size sd u.content frag u.openEnd hcon hne hU1 (by omega)
  have e1 := pureTo_spineR sd _ _ hpure
  have e2 := pureTo_fsize sd _ _ hpure
  have e3 := pureTo_spineL sd _ _ hpure
  have hkoe : k + 1 + sd = u.openEnd := by omega
  have hsp : rspineOK (k + 1) frag := spineR_rspineOK _ _ (by omega)
  rcases takeLoop_last S d fty _ _ _ frag 0 q1 add0 tk htk htoEnd (by simp) hne with
    ⟨_, ⟨n, hn, hnk⟩, hos, _⟩ | ⟨pre, r, ln, os', hl, hadd, hc⟩
  · -- a single start-open node without content: the slice would have size 0
    exfalso
    subst hn
    obtain ⟨t, a, m, kids, h1, _⟩ := hsp
    simp only [List.getLast?_singleton, Option.some.injEq] at h1
    subst h1
    simp only [Node.kids] at hnk
    obtain ⟨z1, z2⟩ := fsize_zero_spine kids hnk
    rw [spineR_singleton_elem, z1] at e1
    simp only [spineL, z2] at e3
    simp only [fsize, Node.size_elem, hnk] at e2
    simp only [Slice.size, beq_eq_false_iff_ne, ne_eq] at hsz
    apply hsz
    omega
  · have h1 := rspineOK_withMarks (k + 1) ln ((S.nodeType fty).allowedMarks ln.marks)
      (rspineOK_singleton_of_last hl hsp)
    obtain ⟨t, a, m, kk, hr, hkk⟩ := closeNodeStart_rspine S os' _ (k + 1) r hc h1
    simp only [List.getLast?_singleton, Option.some.injEq] at hr
    subst hr
    rw [hadd] at hp
    exact addToFragment_deep fd placed0 _ p t a m kk k hp (fromArray_append_elem pre t a m kk) hkk

/-! ### the schema guard `labelsOKB`, as a proposition -/

def LabelsOK (S : Schema) : Prop := ∀ w q e, e ∈ (S.dfa w).edgesOf q → e.1 < S.nodes.size

theorem labelsOK_of_B (S : Schema) (h : S.labelsOKB = true) : LabelsOK S := by
  intro w q e he
  by_cases hq : q < (S.dfa w).size
  · by_cases hw : w < S.nodes.size
    · simp only [Schema.labelsOKB, List.all_eq_true, List.mem_range, decide_eq_true_eq] at h
      exact h w hw q hq e he
    · have : (S.dfa w).size = 0 := by
        simp only [Schema.dfa, Schema.nodeType]
        rw [getElem!_neg S.nodes w hw]
        rfl
      omega
  · have : (S.dfa w).edgesOf q = [] := by
      simp only [Dfa.edgesOf]
      rw [Array.getElem?_eq_none (by omega)]
    rw [this] at he
    simp at he

/-! ### the in-step invariant -/

structure InStep (st : FitState) : Prop where
  frok : FrOK st.frontier
  ne : st.frontier ≠ []
  sp : rspineOK (st.frontier.length - 1) st.placed

theorem InStep.toB {st : FitState} (h : InStep st) : st.inStepB = true := by
  simp only [FitState.inStepB, Bool.and_eq_true, Bool.not_eq_eq_eq_not, Bool.not_true, List.all_eq_true,
    decide_eq_true_eq]
  refine ⟨⟨?_, ?_⟩, rspineOK_spineR _ _ h.sp⟩
  · cases hf : st.frontier with
    | nil => exact absurd hf h.ne
    | cons a l => rfl
  · intro it hit
    obtain ⟨q, hq⟩ := h.frok it hit
    simp [hq]

theorem fragment_eq_lvl {u : Slice} {f : Fittable} {lvl : Option Node × List Node}
    (hlvl : sliceLevel u f.sliceDepth = .ok lvl) (hpar : f.parent = lvl.1) : f.fragment u = lvl.2 := by
  unfold Fittable.fragment
  rcases sliceLevel_ok hlvl with ⟨_, rfl⟩ | ⟨_, p, rest, _, rfl⟩
  · simp only at hpar; rw [hpar]
  · simp only at hpar; rw [hpar]

theorem ite_ok_cases {α : Type} {b : Bool} {x y : FM α} {r : α} (h : (if b = true then x else y) = .ok r) :
    (b = true ∧ x = .ok r) ∨ (b = false ∧ y = .ok r) := by
  cases b with
  | true => exact .inl ⟨rfl, by simpa using h⟩
  | false => exact .inr ⟨rfl, by simpa using h⟩

/-- **`place_nodes` keeps `placed` and the frontier in step** when the unplaced slice is well-formed
    and not of size 0 -/
theorem placeNodes_inStep (S : Schema) (hdet : DetS S) (hf : FillersOK S) (hw : WrapOK S) (hlab : LabelsOK S)
    (st : FitState) (inv : InStep st) (hU1 : st.unplaced.openEnd ≤ spineR st.unplaced.content)
    (hU2 : st.unplaced.openStart ≤ spineL st.unplaced.content) (hsz : (st.unplaced.size == 0) = false)
    (f : Fittable) (hfit : findFittable S st = .ok (some f)) (st' : FitState)
    (h : placeNodes S st f = .ok st') : InStep st' := by
  obtain ⟨lvl, it, hsd, hlvl, hpar, hit, kind, _⟩ := findFittable_kind S st f hfit
  have hfragment := fragment_eq_lvl hlvl hpar
  have hcon := sliceLevel_contentAt hlvl
  have hfdlt : f.frontierDepth < st.frontier.length := by
    rcases Nat.lt_or_ge f.frontierDepth st.frontier.length with h1 | h1
    · exact h1
    · rw [List.getElem?_eq_none h1] at hit; simp at hit
  -- closing down to the fittable's depth
  obtain ⟨c1, hc1, hc1f, hc1s⟩ := closeMany_ok S hdet hf (st.frontier.length - 1 - f.frontierDepth)
    st.frontier st.placed inv.frok (by omega) inv.sp
  have hc1f' : c1.1 = st.frontier.take (f.frontierDepth + 1) := by
    rw [hc1f]; congr 1; omega
  have hc1len : c1.1.length = f.frontierDepth + 1 := by
    rw [hc1f', List.length_take]; omega
  have hc1ok : FrOK c1.1 := by rw [hc1f']; exact inv.frok.take _
  have hc1it : c1.1[f.frontierDepth]? = some it := by
    rw [hc1f', List.getElem?_take_of_lt (by omega)]; exact hit
  have hc1last : c1.1.getLast? = some it := by
    rw [List.getLast?_eq_getElem?, hc1len, Nat.add_sub_cancel]; exact hc1it
  -- the frontier item holds a match
  obtain ⟨q, hq⟩ := inv.frok it (List.mem_of_getElem? hit)
  have hchain : ChainFrom S (S.dfa it.ty) q (f.wrap.getD []) := by
    cases kind with
    | direct _ _ _ _ _ _ hwn => rw [hwn]; trivial
    | inject _ _ _ _ _ _ _ hwn => rw [hwn]; trivial
    | empty _ _ _ _ hwn => rw [hwn]; trivial
    | wrap fst q' w hfst hq' hfw _ hwn =>
      rw [hwn]
      rw [hq] at hq'
      simp only [Option.some.injEq] at hq'
      subst hq'
      exact findWrappingTypes_chain S _ _ _ w hfw
  obtain ⟨c2, hc2, hc2ok, hc2len, hc2s, _, hc2pre, hc2top⟩ :=
    openMany_ok S hw (f.wrap.getD []) c1.1 c1.2 it q hc1last hq hchain hc1ok hc1s
  rw [hc1len] at hc2len hc2top
  simp only [Nat.add_sub_cancel] at hc2top
  have hitem : ∃ item q0, c2.1[f.frontierDepth]? = some item ∧ item.st = some q0 ∧ item.ty = it.ty ∧
      (∀ w0 rest, f.wrap.getD [] = w0 :: rest → (S.dfa it.ty).matchType q w0 = some q0) := by
    cases hws : f.wrap.getD [] with
    | nil =>
      rw [hws] at hc2
      have := pure_ok hc2
      subst this
      exact ⟨it, q, hc1it, hq, rfl, fun _ _ h => by simp at h⟩
    | cons w0 rest =>
      have htop := hc2top w0 rest hws
      rw [hws] at hchain
      obtain ⟨q', hq'⟩ := Option.isSome_iff_exists.1 hchain.2.1
      refine ⟨_, q', htop, by simp [hq'], rfl, ?_⟩
      intro w0' rest' h
      simp only [List.cons.injEq] at h
      rw [← h.1]; exact hq'
  obtain ⟨item0, q00, hitem0, hitq0, hitty0, hq0cons⟩ := hitem
  -- peel the run
  unfold placeNodes at h
  rw [FM.bind_eq hc1, FM.bind_eq hc2] at h
  simp only [hfragment] at h
  obtain ⟨item, hgi, h⟩ := FM.bind_ok h
  have hie : item = item0 := by
    have := getItem_ok hgi
    rw [hitem0] at this
    simpa using this.symm
  subst hie
  obtain ⟨q0, hgs, h⟩ := FM.bind_ok h
  have hq0e : q0 = q00 := by
    have := getSt_ok hgs
    rw [hitq0] at this
    simpa using this.symm
  subst hq0e
  obtain ⟨q1, hq1, h⟩ := FM.bind_ok h
  have hq1 := liftRaise_ok hq1
  obtain ⟨tk, htk, h⟩ := FM.bind_ok h
  obtain ⟨p, hp, h⟩ := FM.bind_ok h
  obtain ⟨top, _, h⟩ := FM.bind_ok h
  obtain ⟨c3, hc3, h⟩ := FM.bind_ok h
  obtain ⟨fr4, hpush, h⟩ := FM.bind_ok h
  obtain ⟨u', _, h⟩ := FM.bind_ok h
  have := pure_ok h
  subst this
  have hset_len : (c2.1.set f.frontierDepth ⟨item.ty, some tk.2.1⟩).length = c2.1.length := List.length_set
  have hset_ok : FrOK (c2.1.set f.frontierDepth ⟨item.ty, some tk.2.1⟩) := FrOK_set hc2ok _ _ ⟨_, rfl⟩
  cases hws : f.wrap.getD [] with
  | cons w0 rest =>
    -- wrappers were opened: nothing is taken at the frontier level itself
    have hnothing : tk = (0, q1, []) ∧ lvl.2 ≠ [] := by
      cases kind with
      | direct _ _ _ _ _ _ hwn => rw [hwn] at hws; simp at hws
      | inject _ _ _ _ _ _ _ hwn => rw [hwn] at hws; simp at hws
      | empty _ _ _ _ hwn => rw [hwn] at hws; simp at hws
      | wrap fst q' w hfst hq' hfw hinj hwn =>
        rw [hwn] at hws
        simp only [Option.getD_some] at hws
        subst hws
        rw [hq] at hq'
        simp only [Option.some.injEq] at hq'
        subst hq'
        obtain ⟨rest', hl2⟩ : ∃ rest', lvl.2 = fst :: rest' := by
          cases hl : lvl.2 with
          | nil => rw [hl] at hfst; simp at hfst
          | cons a l => rw [hl] at hfst; simp at hfst; subst hfst; exact ⟨l, rfl⟩
        have hm0 := hq0cons w0 rest (by rw [hwn]; rfl)
        have hnm : (S.dfa it.ty).matchType q0 (S.tyOf fst) = none := by
          by_cases hx : S.tyOf fst < S.nodes.size
          · exact hw.2 it.ty q (S.tyOf fst) w0 rest q0 hx hfw hm0
          · cases hmm : (S.dfa it.ty).matchType q0 (S.tyOf fst) with
            | none => rfl
            | some y => exact absurd (hlab it.ty q0 _ (Dfa.mem_of_matchType hmm)) hx
        have hq1' : q1 = q0 := by
          rw [hinj] at hq1
          simpa [Schema.types, Dfa.run] using hq1.symm
        rw [hl2, hinj, hq1', hitty0, takeLoop_nomatch S _ _ _ _ _ fst rest' 0 q0 _ hnm] at htk
        have := pure_ok htk
        rw [hl2, ← this, hq1']
        exact ⟨rfl, by simp⟩
    obtain ⟨htk0, hlne⟩ := hnothing
    subst htk0
    have hsp' : rspineOK f.frontierDepth c2.2 := rspineOK_le _ _ _ (by rw [hc2len]; omega) hc2s
    have hpe : p = c2.2 := by
      have := addToFragment_nil _ _ hsp'
      simp only [fromArray, addNodes, List.foldl_nil] at hp
      rw [this] at hp
      simpa using hp.symm
    subst hpe
    have hte : ((0 : Nat) == lvl.2.length) = false := by
      cases hl : lvl.2 with
      | nil => exact absurd hl hlne
      | cons a l => rfl
    simp only [hte, Bool.false_and, Bool.false_eq_true, if_false] at hc3 hpush
    have := pure_ok hc3
    subst this
    have e0 : (-1 : Int).toNat = 0 := rfl
    rw [e0] at hpush
    have := pure_ok hpush
    subst this
    exact ⟨hset_ok, by intro h0; have := congrArg List.length h0; rw [hset_len, hc2len] at this; simp at this,
      by rw [hset_len]; exact hc2s⟩
  | nil =>
    have hc2e : c2 = c1 := by
      rw [hws] at hc2
      exact (pure_ok hc2).symm
    subst hc2e
    have hlen : c2.1.length = f.frontierDepth + 1 := hc1len
    have hc2s' : rspineOK f.frontierDepth c2.2 := by
      rw [hlen, Nat.add_sub_cancel] at hc1s; exact hc1s
    obtain ⟨p0, hp0, hp0s, _⟩ := addToFragment_ok f.frontierDepth c2.2 (fromArray tk.2.2) hc2s'
    have hpe : p = p0 := by rw [hp0] at hp; simpa using hp.symm
    subst hpe
    -- how many levels are pushed
    cases hk : ((if (tk.1 == lvl.2.length) = true then
        ((fsize lvl.2 : Int) + f.sliceDepth) - ((fsize st.unplaced.content : Int) - st.unplaced.openEnd)
        else -1) : Int).toNat with
    | zero =>
      rw [hk] at hpush
      have := pure_ok hpush
      subst this
      rcases ite_ok_cases hc3 with ⟨hcond, hc3⟩ | ⟨_, hc3⟩
      · simp only [Bool.and_eq_true, decide_eq_true_eq] at hcond
        have hne3 : c2.1.set f.frontierDepth ⟨item.ty, some tk.2.1⟩ ≠ [] := by
          intro h0; have := congrArg List.length h0; rw [hset_len, hlen] at this; simp at this
        obtain ⟨r, hr, hr1, hr2⟩ := closeFrontierNode_ok S hdet hf _ p hset_ok hne3
          (by rw [hset_len, hlen, Nat.add_sub_cancel]; exact hp0s)
        have hce : c3 = r := by rw [hr] at hc3; simpa using hc3.symm
        subst hce
        refine ⟨by rw [hr1]; exact hset_ok.dropLast, ?_, hr2⟩
        intro h0
        have := congrArg List.length h0
        rw [hr1, List.length_dropLast, hset_len, hlen] at this
        simp only [List.length_nil] at this
        have h2 := hcond.2
        rw [hset_len, hlen] at h2
        omega
      · have := pure_ok hc3
        subst this
        exact ⟨hset_ok, by intro h0; have := congrArg List.length h0; rw [hset_len, hlen] at this; simp at this,
          by rw [hset_len, hlen, Nat.add_sub_cancel]; exact hp0s⟩
    | succ k =>
      -- the run went to the end of the fragment and the fragment reaches into the open end
      have hte : (tk.1 == lvl.2.length) = true := by
        cases hb : (tk.1 == lvl.2.length) with
        | true => rfl
        | false => rw [hb] at hk; simp at hk
      rw [hte] at hk
      simp only [if_true] at hk
      have hoec : ((fsize lvl.2 : Int) + f.sliceDepth) - ((fsize st.unplaced.content : Int) - st.unplaced.openEnd)
          = ((k + 1 : Nat) : Int) := by omega
      simp only [hte, if_true, hoec] at hc3 hpush htk
      have hnn : ¬ (((k + 1 : Nat) : Int) < 0) := by omega
      simp only [hnn, decide_false, Bool.false_and, Bool.and_false,
        Bool.false_eq_true, if_false] at hc3
      have := pure_ok hc3
      subst this
      simp only [Int.toNat_natCast] at hpush
      obtain ⟨hl4, hok4, hne4⟩ := pushOpenEnd_spec S (k + 1) lvl.2 _ fr4 hpush hset_ok
      have hsp4 := placeTaken_spine S (S.dfa item.ty) item.ty st.unplaced f.sliceDepth lvl.2 hcon
        (hne4 (by omega)) hU1 hU2 hsz k hoec q1 (f.inject.getD []) tk htk (by simpa using hte) c2.2 p
        f.frontierDepth hp
      refine ⟨hok4, ?_, ?_⟩
      · intro h0
        have := congrArg List.length h0
        rw [hl4] at this
        simp at this
      · rw [hl4, hset_len, hlen]
        rw [show f.frontierDepth + 1 + (k + 1) - 1 = f.frontierDepth + 1 + k by omega]
        exact hsp4

/-! ### every iteration, the loop, `replace_step` -/

theorem fitStep_inStep (S : Schema) (hdet : DetS S) (hf : FillersOK S) (hw : WrapOK S) (hlab : LabelsOK S)
    (st : FitState) (inv : InStep st) (hwf : st.unplaced.wf = true) (hsz : (st.unplaced.size == 0) = false)
    (st' : FitState) (h : fitStep S st = .ok st') : InStep st' := by
  simp only [Slice.wf, Bool.and_eq_true, decide_eq_true_eq] at hwf
  unfold fitStep at h
  obtain ⟨f, hfit, h⟩ := FM.bind_ok h
  cases f with
  | some f => exact placeNodes_inStep S hdet hf hw hlab st inv hwf.2 hwf.1 hsz f hfit st' h
  | none =>
    simp only at h
    obtain ⟨o, ho, h⟩ := FM.bind_ok h
    cases o with
    | some st1 =>
      have := pure_ok h
      subst this
      unfold openMore at ho
      obtain ⟨inner, _, ho⟩ := FM.bind_ok ho
      split at ho
      · simp [pure, Except.pure] at ho
      · split at ho
        · simp [pure, Except.pure] at ho
        · have := pure_ok ho
          simp only [Option.some.injEq] at this
          subst this
          exact ⟨inv.frok, inv.ne, inv.sp⟩
    | none =>
      simp only at h
      unfold dropNode at h
      obtain ⟨inner, _, h⟩ := FM.bind_ok h
      split at h
      · obtain ⟨c, _, h⟩ := FM.bind_ok h
        have := pure_ok h
        subst this
        exact ⟨inv.frok, inv.ne, inv.sp⟩
      · obtain ⟨c, _, h⟩ := FM.bind_ok h
        have := pure_ok h
        subst this
        exact ⟨inv.frok, inv.ne, inv.sp⟩

theorem fitLoop_inStep (S : Schema) (hdet : DetS S) (hf : FillersOK S) (hw : WrapOK S) (hlab : LabelsOK S) :
    ∀ (fuel : Nat) (st st' : FitState), fitLoop S fuel st = .ok st' → InStep st →
      fitLoopAll S (fun s => s.unplaced.wf) fuel st = some true → InStep st'
  | 0, st, st', h, inv, _ => by
    unfold fitLoop at h
    split at h
    · have := pure_ok h
      subst this; exact inv
    · simp [throw, throwThe, MonadExceptOf.throw] at h
  | fuel + 1, st, st', h, inv, hall => by
    unfold fitLoop at h
    split at h
    · have := pure_ok h
      subst this; exact inv
    · rename_i hsz
      obtain ⟨st1, h1, h⟩ := FM.bind_ok h
      unfold fitLoopAll at hall
      rw [if_neg hsz] at hall
      simp only [h1] at hall
      cases hr : fitLoopAll S (fun s => s.unplaced.wf) fuel st1 with
      | none => rw [hr] at hall; simp at hall
      | some b =>
        rw [hr] at hall
        simp only [Option.map_some, Option.some.injEq, Bool.and_eq_true] at hall
        obtain ⟨hb, hwf⟩ := hall
        subst hb
        have inv1 := fitStep_inStep S hdet hf hw hlab st inv hwf (by simpa using hsz) st1 h1
        exact fitLoop_inStep S hdet hf hw hlab fuel st1 st' h inv1 hr

/-- **every step `replace_step` emits is well-formed** when the unplaced slice stays well-formed over
    the run of the Fitter -/
theorem replaceStep_wf_run (S : Schema) (hdet : DetS S) (hfill : FillersOK S) (hw : WrapOK S) (hlab : LabelsOK S)
    (doc : Node) (f t : Nat) (sl : Slice) (hv : S.checkNode doc = true) (hattrs : S.nodeAttrsOK doc = true)
    (hwf : sl.wf = true) (hrun : unplacedWfRun S doc f t sl = true) (st : Step)
    (h : replaceStep S doc f t sl = .ok (some st)) : StepWF st = true := by
  unfold replaceStep at h
  unfold unplacedWfRun at hrun
  split at h
  · simp [pure, Except.pure] at h
  · rename_i hcond
    rw [if_neg hcond] at hrun
    split at h
    · rename_i rf rt hf ht
      simp only [hf, ht] at hrun
      split at h
      · simp [throw, throwThe, MonadExceptOf.throw] at h
      · have := pure_ok h
        simp only [Option.some.injEq] at this
        subst this
        exact hwf
      · rename_i htriv
        simp only [htriv] at hrun
        obtain ⟨st0, h0, hu, hfr, hlen, hsp, _⟩ := fitInit_ok S hf hv sl
        rw [h0] at hrun
        simp only [beq_iff_eq] at hrun
        have inv0 : InStep st0 := by
          refine ⟨hfr, ?_, by rw [hlen, Nat.add_sub_cancel]; exact hsp⟩
          intro h; rw [h] at hlen; simp at hlen
        have h' := h
        unfold fitterFit at h'
        rw [FM.bind_eq h0] at h'
        obtain ⟨st1, h1, _⟩ := FM.bind_ok h'
        have inv1 := fitLoop_inStep S hdet hfill hw hlab _ st0 st1 h1 inv0 hrun
        exact fitterFit_wf_of_loop S hdet hfill hf ht hattrs sl _ st0 st1 h0 h1 inv1.frok inv1.ne inv1.sp st h
    · simp [throw, throwThe, MonadExceptOf.throw] at h

end PM
