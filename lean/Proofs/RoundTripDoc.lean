/-
  Proofs/RoundTripDoc.lean — the canonical DOM of a mark-free document and the induction over the document: the walk
  over the canonical DOM rebuilds the document.
-/
import Proofs.RoundTripWalk
import Proofs.PlacementValid
namespace PM.RoundTrip
open PM PM.Dom PM.FromDom PM.DomWalk

/-! ### `normalize_list` moves nothing when no list follows an item -/

theorem normGo_noList : ∀ (rest acc : List DNode) (cur : Option (DNode × List DNode)),
    (∀ k ∈ rest, lkind k ≠ .list) → normGo rest acc cur = acc ++ flushCur cur ++ rest
  | [], acc, cur, _ => by simp [normGo]
  | k :: rest, acc, cur, h => by
    have hk := h k List.mem_cons_self
    have hr : ∀ x ∈ rest, lkind x ≠ .list := fun x hx => h x (List.mem_cons_of_mem _ hx)
    unfold normGo
    cases hl : lkind k with
    | list => exact absurd hl hk
    | li => simp only; rw [normGo_noList rest _ _ hr]; simp [flushCur]
    | elemOther => simp only; rw [normGo_noList rest _ _ hr]; simp [flushCur]
    | nonElem =>
      simp only
      cases cur with
      | none => simp only; rw [normGo_noList rest _ _ hr]; simp [flushCur]
      | some p => obtain ⟨li, tr⟩ := p; simp only; rw [normGo_noList rest _ _ hr]; simp [flushCur]

theorem normKids_noList (P : Parser) (tag : String) (kids : List DNode)
    (h : listTags.contains tag = true → ∀ k ∈ kids, lkind k ≠ .list) : normKids P tag kids = kids := by
  unfold normKids
  split
  · rename_i hc
    simp only [Bool.and_eq_true] at hc
    unfold normalizeList
    rw [normGo_noList kids [] none (h hc.1)]
    simp [flushCur]
  · rfl

/-! ### the canonical DOM -/

def elemDom (R : RParser) (name : List Char) (sattrs : List (List Char × Option (List Char))) (kids : List DNode) : DNode :=
  .elem (lowerName name) [] (candsFrom (lowerName name) (renderedAttrs sattrs) R.sel 0) kids

mutual
def domOf (R : RParser) (D : ToDom) : Node → DNode
  | .text s _ => .text (some s)
  | .leaf t a _ =>
    match D.node t a with
    | .el name sattrs [] => elemDom R name sattrs []
    | _ => .other
  | .elem t a _ kids =>
    match D.node t a with
    | .el name sattrs [.hole] => elemDom R name sattrs (domOfList R D kids)
    | .el name sattrs [.el name2 sattrs2 [.hole]] => elemDom R name sattrs [elemDom R name2 sattrs2 (domOfList R D kids)]
    | _ => .other
def domOfList (R : RParser) (D : ToDom) : List Node → List DNode
  | [] => []
  | n :: ns => domOf R D n :: domOfList R D ns
end

/-- what the walk knows about the previous sibling: `prev` is the last node of the content so far, and the previous
    DOM sibling is a `<br>` only if `prev` is a non-text node emitted as `br` -/
def PrevOk (prev : Option (Node × String)) (c : List Node) (prevBr : Bool) : Prop :=
  c.getLast? = prev.map (·.1) ∧ (prevBr = true → ∃ n tag, prev = some (n, tag) ∧ tag = "br" ∧ n.isText = false)

theorem hdrop_of (cx : NodeCtx) (prev : Option (Node × String)) (s : List Nat) (prevBr : Bool)
    (hok : textOk cx.opts prev s = true) (hprev : PrevOk prev cx.content prevBr) :
    cx.opts.preserveWs = false → startsWithSpace s = true → dropsLead cx prevBr = false := by
  intro hpw hsp
  unfold textOk at hok
  simp only [hpw, Bool.false_eq_true, if_false, hsp, Bool.not_true, Bool.false_or, Bool.and_eq_true] at hok
  have hm := hok.2.2
  obtain ⟨hl, hb⟩ := hprev
  unfold dropsLead
  cases prev with
  | none => simp at hm
  | some p =>
    obtain ⟨n, tag⟩ := p
    simp only [Option.map_some] at hl
    rw [hl]
    have hbr : prevBr = true → tag = "br" ∧ n.isText = false := by
      intro h
      obtain ⟨n', tag', he, ht, hn⟩ := hb h
      simp only [Option.some.injEq, Prod.mk.injEq] at he
      rw [he.1, he.2]; exact ⟨ht, hn⟩
    cases n with
    | text p m =>
      simp only at hm ⊢
      have : prevBr = false := by
        cases hpb : prevBr with
        | false => rfl
        | true => have := (hbr hpb).2; simp [Node.isText] at this
      simp only [this, Bool.false_or]
      simpa using hm
    | leaf tl al ml =>
      simp only at hm ⊢
      cases hpb : prevBr with
      | false => rfl
      | true => have := (hbr hpb).1; simp [this] at hm
    | elem te ae me ke =>
      simp only at hm ⊢
      cases hpb : prevBr with
      | false => rfl
      | true => have := (hbr hpb).1; simp [this] at hm


/-! ### reading `rtOk` -/

theorem leafRule_cases (R : RParser) (D : ToDom) (t : TypeId) (a : Attrs) (tag : String) (h : leafRule R D t a = some tag) :
    ∃ name sattrs pw, D.node t a = .el name sattrs [] ∧ nodeRule R t a name sattrs = some pw ∧ tag = lowerName name := by
  unfold leafRule at h
  split at h
  · rename_i name sattrs hd
    cases hn : nodeRule R t a name sattrs with
    | none => rw [hn] at h; simp at h
    | some pw => rw [hn] at h; simp at h; exact ⟨name, sattrs, pw, hd, hn, h.symm⟩
  · cases h

/-- the inner element of a wrapper output -/
inductive Transp (R : RParser) (t : TypeId) (tag2 : String) (attrs2 : List (String × List Char)) : Prop where
  | none (hc : candsFrom tag2 attrs2 R.sel 0 = []) (hb : blockTags.contains tag2 = false)
  | mark (r : TagRule) (ra : Option Attrs) (mt : MarkTypeId) (hf : firstRule R tag2 attrs2 = some (r, ra))
      (hs : straight r = true) (hrn : r.node = none) (hrm : r.mark = some (some mt))
      (hal : (R.P.S.nodeType t).allowsMarkType mt = false) (hcm : ∃ x, createMark R.P.S mt ra 0 = .ok x)

theorem transparent_cases (R : RParser) (t : TypeId) (name2 : List Char) (sattrs2 : List (List Char × Option (List Char)))
    (h : transparent R t name2 sattrs2 = true) :
    ignoreTags.contains (lowerName name2) = false ∧ selfClosing.contains name2 = false ∧ (lowerName name2 == "br") = false ∧
    listTags.contains (lowerName name2) = false ∧ Transp R t (lowerName name2) (renderedAttrs sattrs2) := by
  unfold transparent at h
  simp only [Bool.and_eq_true, Bool.not_eq_true', bne_iff_ne, ne_eq] at h
  obtain ⟨⟨⟨⟨hu, hsc⟩, hbr⟩, hlt⟩, hm⟩ := h
  unfold tagUsable at hu
  simp only [Bool.and_eq_true, Bool.not_eq_true'] at hu
  refine ⟨hu.1, hsc, by simpa using hbr, hlt, ?_⟩
  cases hc : (candsFrom (lowerName name2) (renderedAttrs sattrs2) R.sel 0).head? with
  | none =>
    rw [hc] at hm
    have : candsFrom (lowerName name2) (renderedAttrs sattrs2) R.sel 0 = [] := by simpa using hc
    exact .none this (by simpa using hm)
  | some x =>
    rw [hc] at hm
    simp only at hm
    cases hf : firstRule R (lowerName name2) (renderedAttrs sattrs2) with
    | none => rw [hf] at hm; simp at hm
    | some p =>
      obtain ⟨r, ra⟩ := p
      rw [hf] at hm
      simp only [Bool.and_eq_true] at hm
      obtain ⟨⟨⟨hs, hrn⟩, _⟩, hmk⟩ := hm
      cases hrm : r.mark with
      | none => rw [hrm] at hmk; simp at hmk
      | some o =>
        cases o with
        | none => rw [hrm] at hmk; simp at hmk
        | some mt =>
          rw [hrm] at hmk
          simp only [Bool.and_eq_true, Bool.not_eq_true'] at hmk
          refine .mark r ra mt hf hs (by simpa using hrn) hrm hmk.1 ?_
          cases hcm : createMark R.P.S mt ra 0 with
          | ok x => exact ⟨x, rfl⟩
          | error e => rw [hcm] at hmk; simp at hmk

theorem elemRule_cases (R : RParser) (D : ToDom) (t : TypeId) (a : Attrs) (tag : String) (pw : WS)
    (h : elemRule R D t a = some (tag, pw)) :
    (∃ name sattrs, D.node t a = .el name sattrs [.hole] ∧ selfClosing.contains name = false ∧
        nodeRule R t a name sattrs = some pw ∧ tag = lowerName name) ∨
    (∃ name sattrs name2 sattrs2, D.node t a = .el name sattrs [.el name2 sattrs2 [.hole]] ∧
        selfClosing.contains name = false ∧ listTags.contains tag = false ∧ transparent R t name2 sattrs2 = true ∧
        nodeRule R t a name sattrs = some pw ∧ tag = lowerName name) := by
  unfold elemRule at h
  split at h
  · rename_i name sattrs hd
    split at h
    · cases h
    · rename_i hsc
      cases hn : nodeRule R t a name sattrs with
      | none => rw [hn] at h; simp at h
      | some pw' =>
        rw [hn] at h; simp at h
        exact .inl ⟨name, sattrs, hd, by simpa using hsc, by rw [← h.2]; exact hn, h.1.symm⟩
  · rename_i name sattrs name2 sattrs2 hd
    split at h
    · rename_i hc
      simp only [Bool.and_eq_true, Bool.not_eq_true'] at hc
      cases hn : nodeRule R t a name sattrs with
      | none => rw [hn] at h; simp at h
      | some pw' =>
        rw [hn] at h; simp at h
        exact .inr ⟨name, sattrs, name2, sattrs2, hd, hc.2, by rw [← h.1]; exact hc.1.2, hc.1.1, by rw [← h.2]; exact hn, h.1.symm⟩
    · cases h
  · cases h


/-! ### shape of the canonical DOM -/

theorem lkind_elem (tag : String) (st : List StyleDecl) (cs : List (CandInfo × List DNode)) (ks : List DNode)
    (h : listTags.contains tag = false) : lkind (.elem tag st cs ks) ≠ .list := by
  unfold lkind
  simp only [h, Bool.false_eq_true, if_false]
  split <;> simp

theorem domOf_shape (R : RParser) (D : ToDom) (opts : Opts) (pt : TypeId) (k : Node) (h : nodeOk R D opts pt k = true) :
    (domOf R D k).isBr = (prevTag R D k == "br") ∧
    (listTags.contains (prevTag R D k) = false → lkind (domOf R D k) ≠ .list) := by
  cases k with
  | text s m => simp [domOf, DNode.isBr, prevTag, lkind]
  | leaf t a m =>
    rw [nodeOk] at h
    simp only [Bool.and_eq_true] at h
    cases hl : leafRule R D t a with
    | none => rw [hl] at h; simp at h
    | some tag =>
      obtain ⟨name, sattrs, pw, hd, _, ht⟩ := leafRule_cases R D t a tag hl
      simp only [domOf, hd, elemDom, DNode.isBr, prevTag, hl, Option.getD_some, ht, true_and]
      exact fun h' => lkind_elem _ _ _ _ h'
  | elem t a m kids =>
    rw [nodeOk] at h
    simp only [Bool.and_eq_true] at h
    cases he : elemRule R D t a with
    | none => rw [he] at h; simp at h
    | some p =>
      obtain ⟨tag, pw⟩ := p
      rcases elemRule_cases R D t a tag pw he with ⟨name, sattrs, hd, _, _, ht⟩ | ⟨name, sattrs, name2, sattrs2, hd, _, _, _, _, ht⟩
      · simp only [domOf, hd, elemDom, DNode.isBr, prevTag, he, Option.map_some, Option.getD_some, ht, true_and]
        exact fun h' => lkind_elem _ _ _ _ h'
      · simp only [domOf, hd, elemDom, DNode.isBr, prevTag, he, Option.map_some, Option.getD_some, ht, true_and]
        exact fun h' => lkind_elem _ _ _ _ h'

theorem prevOk_next (R : RParser) (D : ToDom) (opts : Opts) (pt : TypeId) (k : Node) (c : List Node)
    (h : nodeOk R D opts pt k = true) : PrevOk (some (k, prevTag R D k)) (c ++ [k]) (domOf R D k).isBr := by
  refine ⟨by simp, ?_⟩
  intro hb
  rw [(domOf_shape R D opts pt k h).1] at hb
  refine ⟨k, prevTag R D k, rfl, by simpa using hb, ?_⟩
  cases k with
  | text s m => simp [prevTag] at hb
  | leaf => rfl
  | elem => rfl

theorem prevOk_init : PrevOk none [] false := ⟨rfl, fun h => by cases h⟩

theorem accepts_run (d : Dfa) (ts : List TypeId) (h : d.accepts ts = true) : ∃ q, d.run 0 ts = some q ∧ d.validEnd q = true := by
  unfold Dfa.accepts at h
  cases hr : d.run 0 ts with
  | none => rw [hr] at h; cases h
  | some q => rw [hr] at h; exact ⟨q, rfl, h⟩


theorem mem_domOfList (R : RParser) (D : ToDom) : ∀ (kids : List Node) (k : DNode), k ∈ domOfList R D kids →
    ∃ n, n ∈ kids ∧ k = domOf R D n
  | [], _, h => by simp [domOfList] at h
  | n :: ns, k, h => by
    rw [domOfList] at h
    rcases List.mem_cons.1 h with rfl | h
    · exact ⟨n, List.mem_cons_self, rfl⟩
    · obtain ⟨n', hn, he⟩ := mem_domOfList R D ns k h
      exact ⟨n', List.mem_cons_of_mem _ hn, he⟩

theorem nodeOk_of_kidsOk (R : RParser) (D : ToDom) (opts : Opts) (pt : TypeId) : ∀ (prev : Option (Node × String)) (kids : List Node),
    kidsOk R D opts pt prev kids = true → ∀ n ∈ kids, nodeOk R D opts pt n = true
  | _, [], _, _, h => by cases h
  | prev, k :: ks, hok, n, hn => by
    unfold kidsOk at hok
    simp only [Bool.and_eq_true] at hok
    rcases List.mem_cons.1 hn with rfl | hn
    · exact hok.1.2
    · exact nodeOk_of_kidsOk R D opts pt _ ks hok.2 n hn

/-! ### the induction over the document -/

theorem Plain.step {S : Schema} {cx : NodeCtx} {t : TypeId} {q : Nat} (hp : Plain S cx t q) (c : List Node) (q' : Nat) :
    Plain S { cx with content := c, mtch := some q' } t q' :=
  ⟨hp.ty, rfl, hp.solid, hp.pending, hp.active, hp.marks, hp.openLeft⟩

theorem Rel.opts {a b : NodeCtx} (h : Rel a b) : b.opts = a.opts := by rw [h]
theorem Rel.pending {a b : NodeCtx} (h : Rel a b) : b.pending = a.pending := by rw [h]

mutual
theorem walk_node (R : RParser) (D : ToDom) : ∀ (k : Node) (w : WState) (base : List NodeCtx) (cx : NodeCtx) (ext : List NodeCtx)
    (c : List Node) (t : TypeId) (q q' : Nat) (opts : Opts) (prev : Option (Node × String)) (prevBr : Bool) (ptag : String),
    Inv R.P.S w base cx ext c → Plain R.P.S cx t q → (cx.pending = [] ∨ k.isLeaf = true) → cx.opts = opts →
    (match k with
     | .text s _ => textOk opts prev s = true
     | _ => True) →
    nodeOk R D opts t k = true → noMarks k = true → R.P.S.checkNode k = true → k.norm = true →
    (R.P.S.dfa t).matchType q (R.P.S.tyOf k) = some q' → PrevOk prev c prevBr →
    ∃ w' cx' ext', addDom R.P ptag prevBr (domOf R D k) w = .ok w' ∧ Inv R.P.S w' base cx' ext' (c ++ [k]) ∧
      Plain R.P.S cx' t q' ∧ Rel cx cx' ∧ (k.isLeaf = true → ext' = [])
  | .text s m, w, base, cx, ext, c, t, q, q', opts, prev, prevBr, ptag, hi, hp, _, ho, htx, hok, hnm, _, _, hm, hprev => by
    have hm0 : m = [] := by simpa [noMarks] using hnm
    subst hm0
    rw [nodeOk] at hok
    simp only [Bool.and_eq_true] at hok
    subst ho
    obtain ⟨w', hadd, hi', _⟩ := addTextNode_normal R.P w base cx ext c t q q' s prev (some ptag) prevBr hi hp hok.1 htx
      (fun h1 h2 h3 => by
        subst h3
        have hc := settles_nil_inv _ _ _ hi.settles
        rw [hc] at hprev
        exact hdrop_of cx prev s prevBr htx hprev h1 h2) hm
    exact ⟨w', _, [], by rw [domOf, addDom]; exact hadd, hi', hp.step _ _, rfl, fun _ => rfl⟩
  | .leaf tl a m, w, base, cx, ext, c, t, q, q', opts, prev, prevBr, ptag, hi, hp, _, ho, _, hok, hnm, _, _, hm, _ => by
    have hm0 : m = [] := by simpa [noMarks] using hnm
    subst hm0
    rw [nodeOk] at hok
    simp only [Bool.and_eq_true, Bool.not_eq_true'] at hok
    obtain ⟨⟨⟨⟨hlr, hl⟩, hnt⟩, _⟩, _⟩ := hok
    cases hlr' : leafRule R D tl a with
    | none => rw [hlr'] at hlr; cases hlr
    | some tag =>
      obtain ⟨name, sattrs, pw, hd, hnr, _⟩ := leafRule_cases R D tl a tag hlr'
      obtain ⟨hu, r, ra, hf, hs, hr, hca, _⟩ := nodeRule_spec R tl a name sattrs pw hnr
      have hig : ignoreTags.contains (lowerName name) = false := by
        unfold tagUsable at hu; simp only [Bool.and_eq_true, Bool.not_eq_true'] at hu; exact hu.1
      obtain ⟨w', hadd, hi'⟩ := addDom_leaf R w base cx ext c t q q' tl ra a (lowerName name) (renderedAttrs sattrs) r [] ptag prevBr
        hi hp hig hf hs hr hl hnt hm hca
      refine ⟨w', _, [], ?_, hi', hp.step _ _, rfl, fun _ => rfl⟩
      simp only [domOf, hd, elemDom]
      exact hadd
  | .elem tc a m kids, w, base, cx, ext, c, t, q, q', opts, prev, prevBr, ptag, hi, hp, hpe, ho, _, hok, hnm, hck, hnorm, hm, _ => by
    have hpe0 : cx.pending = [] := by
      rcases hpe with h | h
      · exact h
      · simp [Node.isLeaf] at h
    simp only [noMarks, Bool.and_eq_true] at hnm
    have hm0 : m = [] := by simpa using hnm.1
    subst hm0
    rw [nodeOk] at hok
    simp only [Bool.and_eq_true, Bool.not_eq_true'] at hok
    obtain ⟨⟨hnl, _⟩, hrest⟩ := hok
    cases her : elemRule R D tc a with
    | none => rw [her] at hrest; cases hrest
    | some p =>
      obtain ⟨tag, pw⟩ := p
      rw [her] at hrest
      simp only [Bool.and_eq_true, Bool.or_eq_true, Bool.not_eq_true'] at hrest
      obtain ⟨⟨⟨⟨⟨hko, hlo⟩, hflat⟩, hlist⟩, _⟩, _⟩ := hrest
      rw [Schema.checkNode] at hck
      simp only [Bool.and_eq_true] at hck
      obtain ⟨⟨hvc, _⟩, hckk⟩ := hck
      unfold Schema.validContent at hvc
      simp only [Bool.and_eq_true] at hvc
      obtain ⟨qe, hrun, hve⟩ := accepts_run _ _ hvc.1
      rw [Node.norm] at hnorm
      have hfn : fnorm kids = true := hnorm
      simp only [Bool.and_eq_true] at hnorm
      have hN := afterEnter_inv R.P w base cx ext c q' tc
      rcases elemRule_cases R D tc a tag pw her with ⟨name, sattrs, hd, _, hnr, ht⟩ |
          ⟨name, sattrs, name2, sattrs2, hd, _, hlt, htr, hnr, ht⟩
      · obtain ⟨hu, r, ra, hf, hs, hr, hca, hpw⟩ := nodeRule_spec R tc a name sattrs pw hnr
        have hig : ignoreTags.contains (lowerName name) = false := by
          unfold tagUsable at hu; simp only [Bool.and_eq_true, Bool.not_eq_true'] at hu; exact hu.1
        have hNN := hN ra r.preserveWs (.enter tc ra r.preserveWs) hi
        have hopts : (newCtx R.P tc ra r.preserveWs cx.opts w.st.fresh).opts = wsOptionsFor (R.P.wsPre tc) pw opts := by
          rw [hpw, ho]; rfl
        have hnk : normKids R.P (lowerName name) (domOfList R D kids) = domOfList R D kids := by
          apply normKids_noList
          intro hlc k hk
          rw [← ht] at hlc
          rcases hlist with h | h
          · rw [h] at hlc; cases hlc
          · rw [List.all_eq_true] at h
            obtain ⟨n, hn, rfl⟩ := mem_domOfList R D kids k hk
            have hn1 := h n hn
            simp only [Bool.not_eq_true'] at hn1
            exact (domOf_shape R D _ tc n (nodeOk_of_kidsOk R D _ tc _ kids hko n hn)).2 hn1
        obtain ⟨w3, ext3, hadd, hi3⟩ := addDom_node R w base cx ext c t q q' tc ra a (lowerName name) (renderedAttrs sattrs) r
          (domOfList R D kids) kids qe ptag prevBr hi hp hpe0 hig hf hs hr hnl hm hca hnk
          (fun w1 hi1 => by
            obtain ⟨w2, N', ext', hall, hi2, hp2, hrel, _⟩ := walk_kids R D kids w1 _ _ [] [] tc 0 qe _ none false (lowerName name)
              hi1 hNN.2.1 (.inl hNN.2.2) hopts hko hnm.2 hckk hnorm.1 hrun prevOk_init
            exact ⟨w2, N', ext', hall, by simpa using hi2, hp2, hrel.stable⟩)
          hve (by rw [hpw, ho]; exact hlo) hfn
        refine ⟨w3, _, ext3, ?_, hi3, hp.step _ _, rfl, fun h => by simp [Node.isLeaf] at h⟩
        simp only [domOf, hd, elemDom]
        exact hadd
      · obtain ⟨hu, r, ra, hf, hs, hr, hca, hpw⟩ := nodeRule_spec R tc a name sattrs pw hnr
        have hig : ignoreTags.contains (lowerName name) = false := by
          unfold tagUsable at hu; simp only [Bool.and_eq_true, Bool.not_eq_true'] at hu; exact hu.1
        have hNN := hN ra r.preserveWs (.enter tc ra r.preserveWs) hi
        have hopts : (newCtx R.P tc ra r.preserveWs cx.opts w.st.fresh).opts = wsOptionsFor (R.P.wsPre tc) pw opts := by
          rw [hpw, ho]; rfl
        obtain ⟨hig2, _, hbr2, hlt2, htp⟩ := transparent_cases R tc name2 sattrs2 htr
        have hflat' : kids.all Node.isLeaf = true := by
          rcases hflat with h | h
          · simp [isWrapper, hd] at h
          · exact h.1
        have hnk : normKids R.P (lowerName name) [elemDom R name2 sattrs2 (domOfList R D kids)] =
            [elemDom R name2 sattrs2 (domOfList R D kids)] :=
          normKids_noList _ _ _ (fun hlc => by rw [← ht, hlt] at hlc; cases hlc)
        obtain ⟨w3, ext3, hadd, hi3⟩ := addDom_node R w base cx ext c t q q' tc ra a (lowerName name) (renderedAttrs sattrs) r
          [elemDom R name2 sattrs2 (domOfList R D kids)] kids qe ptag prevBr hi hp hpe0 hig hf hs hr hnl hm hca hnk
          (fun w1 hi1 => by
            have key : ∃ w2 N', addDom R.P (lowerName name) false (elemDom R name2 sattrs2 (domOfList R D kids)) w1 = .ok w2 ∧
                Inv R.P.S w2 (base ++ [{ cx with content := c, mtch := some q' }]) N' [] kids ∧ Plain R.P.S N' tc qe ∧ Rel (newCtx R.P tc ra r.preserveWs cx.opts w.st.fresh) N' := by
              unfold elemDom
              cases htp with
              | none hc hb =>
                obtain ⟨w3', hadd', N', h1, h2, h3⟩ := addDom_transparentA R w1 (base ++ [{ cx with content := c, mtch := some q' }]) (newCtx R.P tc ra r.preserveWs cx.opts w.st.fresh) [] (lowerName name2) (renderedAttrs sattrs2)
                  (domOfList R D kids) (lowerName name) false
                  (fun w2 => ∃ N', Inv R.P.S w2 (base ++ [{ cx with content := c, mtch := some q' }]) N' [] kids ∧ Plain R.P.S N' tc qe ∧ Rel (newCtx R.P tc ra r.preserveWs cx.opts w.st.fresh) N')
                  (fun w2 hq b l => by
                    obtain ⟨N', h1, h2, h3⟩ := hq
                    exact ⟨N', ⟨h1.nodes, h1.open_, h1.settles, h1.below, h1.fresh⟩, h2, h3⟩)
                  hi1 hig2 hbr2 hlt2 hc hb
                  (by
                    obtain ⟨w2, N', ext', hall, hi2, hp2, hrel, hx⟩ := walk_kids R D kids w1 _ _ [] [] tc 0 qe _ none false
                      (lowerName name2) hi1 hNN.2.1 (.inr hflat') hopts hko hnm.2 hckk hnorm.1 hrun prevOk_init
                    have := hx hflat' rfl
                    subst this
                    exact ⟨w2, hall, N', by simpa using hi2, hp2, hrel⟩)
                exact ⟨w3', N', hadd', h1, h2, h3⟩
              | mark r2 ra2 mt hf2 hs2 hrn hrm hal hcm =>
                obtain ⟨w3', N3, hadd', h1, h2, h3⟩ := addDom_transparentB R w1 (base ++ [{ cx with content := c, mtch := some q' }]) (newCtx R.P tc ra r.preserveWs cx.opts w.st.fresh) [] kids tc 0 qe (lowerName name2)
                  (renderedAttrs sattrs2) r2 ra2 mt (domOfList R D kids) (lowerName name) false hi1 hNN.2.2 hig2 hlt2 hf2 hs2 hrn hrm hcm
                  (fun w1' mk hty hi1' => by
                    have hpB : Plain R.P.S { (newCtx R.P tc ra r.preserveWs cx.opts w.st.fresh) with pending := [mk] } tc 0 :=
                      ⟨hNN.2.1.ty, hNN.2.1.mtch, hNN.2.1.solid,
                        (fun m hm => by simp only [List.mem_singleton] at hm; subst hm; rw [hty]; exact hal),
                        hNN.2.1.active, hNN.2.1.marks, hNN.2.1.openLeft⟩
                    obtain ⟨w2, N', ext', hall, hi2, hp2, hrel, hx⟩ := walk_kids R D kids w1' _ _ [] [] tc 0 qe _ none false
                      (lowerName name2) hi1' hpB (.inr hflat') hopts hko hnm.2 hckk hnorm.1 hrun prevOk_init
                    have := hx hflat' rfl
                    subst this
                    exact ⟨w2, N', hall, by simpa using hi2, hp2, hrel⟩)
                exact ⟨w3', N3, hadd', h1, h2, h3⟩
            obtain ⟨w2, N', hadd2, h1, h2, h3⟩ := key
            refine ⟨w2, N', [], ?_, h1, h2, h3.stable⟩
            rw [addAll]
            simp only [hadd2]
            rw [addAll])
          hve (by rw [hpw, ho]; exact hlo) hfn
        refine ⟨w3, _, ext3, ?_, hi3, hp.step _ _, rfl, fun h => by simp [Node.isLeaf] at h⟩
        simp only [domOf, hd, elemDom]
        simp only [elemDom] at hadd
        exact hadd
theorem walk_kids (R : RParser) (D : ToDom) : ∀ (kids : List Node) (w : WState) (base : List NodeCtx) (cx : NodeCtx) (ext : List NodeCtx)
    (c : List Node) (t : TypeId) (q qe : Nat) (opts : Opts) (prev : Option (Node × String)) (prevBr : Bool) (ptag : String),
    Inv R.P.S w base cx ext c → Plain R.P.S cx t q → (cx.pending = [] ∨ kids.all Node.isLeaf = true) → cx.opts = opts →
    kidsOk R D opts t prev kids = true → noMarksList kids = true → R.P.S.checkKids kids = true → fnormKids kids = true →
    (R.P.S.dfa t).run q (R.P.S.types kids) = some qe → PrevOk prev c prevBr →
    ∃ w' cx' ext', addAll R.P ptag (domOfList R D kids) prevBr w = .ok w' ∧ Inv R.P.S w' base cx' ext' (c ++ kids) ∧
      Plain R.P.S cx' t qe ∧ Rel cx cx' ∧ (kids.all Node.isLeaf = true → ext = [] → ext' = [])
  | [], w, base, cx, ext, c, t, q, qe, opts, prev, prevBr, ptag, hi, hp, _, _, _, _, _, _, hrun, _ => by
    simp only [Schema.types, List.map_nil, Dfa.run, Option.some.injEq] at hrun
    subst hrun
    refine ⟨w, cx, ext, by rw [domOfList, addAll], by simpa using hi, hp, Rel.refl cx, fun _ h => h⟩
  | k :: ks, w, base, cx, ext, c, t, q, qe, opts, prev, prevBr, ptag, hi, hp, hpe, ho, hok, hnm, hck, hfn, hrun, hprev => by
    unfold kidsOk at hok
    simp only [Bool.and_eq_true] at hok
    obtain ⟨⟨htx, hnk⟩, hoks⟩ := hok
    simp only [noMarksList, Bool.and_eq_true] at hnm
    rw [Schema.checkKids] at hck
    simp only [Bool.and_eq_true] at hck
    rw [fnormKids] at hfn
    simp only [Bool.and_eq_true] at hfn
    simp only [Schema.types, List.map_cons, Dfa.run] at hrun
    cases hmt : (R.P.S.dfa t).matchType q (R.P.S.tyOf k) with
    | none => rw [hmt] at hrun; cases hrun
    | some q1 =>
      rw [hmt] at hrun
      simp only at hrun
      have hpe1 : cx.pending = [] ∨ k.isLeaf = true := by
        rcases hpe with h | h
        · exact .inl h
        · simp only [List.all_cons, Bool.and_eq_true] at h; exact .inr h.1
      obtain ⟨w1, cx1, ext1, hadd, hi1, hp1, hrel1, hx1⟩ := walk_node R D k w base cx ext c t q q1 opts prev prevBr ptag hi hp hpe1 ho
        (by cases k <;> first | exact htx | trivial) hnk hnm.1 hck.1 hfn.1 hmt hprev
      have hpe2 : cx1.pending = [] ∨ ks.all Node.isLeaf = true := by
        rcases hpe with h | h
        · exact .inl (by rw [hrel1.pending]; exact h)
        · simp only [List.all_cons, Bool.and_eq_true] at h; exact .inr h.2
      obtain ⟨w2, cx2, ext2, hall, hi2, hp2, hrel2, hx2⟩ := walk_kids R D ks w1 base cx1 ext1 (c ++ [k]) t q1 qe opts
        (some (k, prevTag R D k)) (domOf R D k).isBr ptag hi1 hp1 hpe2 (by rw [hrel1.opts]; exact ho) hoks hnm.2 hck.2 hfn.2 hrun
        (prevOk_next R D opts t k c hnk)
      refine ⟨w2, cx2, ext2, ?_, by simpa using hi2, hp2, hrel1.trans hrel2, ?_⟩
      · rw [domOfList, addAll]
        simp only [hadd, hall]
      · intro h _
        simp only [List.all_cons, Bool.and_eq_true] at h
        exact hx2 h.2 (hx1 h.1)
end

/-! ### the whole parse -/

theorem attrsEq_ok (r : Res Attrs) (a : Attrs) (h : attrsEq r a = true) : r = .ok a := by
  unfold attrsEq at h
  split at h
  · rename_i b; simp at h; rw [h]
  · cases h

/-- **the walk over the canonical DOM of a mark-free document rebuilds the document** -/
theorem parse_canonical (R : RParser) (D : ToDom) (doc : Node) (h : rtOk R D doc = true) (hnm : noMarks doc = true)
    (rootTag : String) : parse R.P rootTag (domOfList R D doc.kids) = .ok doc := by
  unfold rtOk at h
  simp only [Bool.and_eq_true] at h
  obtain ⟨⟨⟨_, hck⟩, hnorm⟩, hdoc⟩ := h
  cases doc with
  | text s m => cases hdoc
  | leaf t a m => cases hdoc
  | elem t a ms kids =>
    simp only [Bool.and_eq_true, beq_iff_eq, Bool.not_eq_true', List.isEmpty_iff] at hdoc
    obtain ⟨⟨⟨⟨⟨⟨ht, hms⟩, hnl⟩, hat⟩, hko⟩, hlo⟩, _⟩ := hdoc
    subst ht hms
    simp only [noMarks, Bool.and_eq_true] at hnm
    rw [Schema.checkNode] at hck
    simp only [Bool.and_eq_true] at hck
    obtain ⟨⟨hvc, _⟩, hckk⟩ := hck
    unfold Schema.validContent at hvc
    simp only [Bool.and_eq_true] at hvc
    obtain ⟨qe, hrun, hve⟩ := accepts_run _ _ hvc.1
    rw [Node.norm] at hnorm
    have hfn : fnorm kids = true := hnorm
    simp only [Bool.and_eq_true] at hnorm
    have hi0 : Inv R.P.S (walkInit R.P false .unset) [] (NodeCtx.new (some R.P.S.top) none [] [] true {}) [] [] :=
      ⟨rfl, rfl, settles_nil _ _, (fun x hx => by cases hx), (by show 0 < 1; omega)⟩
    have hp0 : Plain R.P.S (NodeCtx.new (some R.P.S.top) none [] [] true {}) R.P.S.top 0 :=
      ⟨rfl, rfl, rfl, (fun m hm => by cases hm), rfl, rfl, rfl⟩
    obtain ⟨w, cx', ext', hall, hi, hp, hrel, _⟩ := walk_kids R D kids (walkInit R.P false .unset) [] _ [] [] R.P.S.top 0 qe {} none
      false rootTag hi0 hp0 (.inl rfl) rfl hko hnm.2 hckk hnorm.1 hrun prevOk_init
    simp only [List.nil_append] at hi
    have hflags : flags w.st = flags (PState.init R.P.S false .unset false) := by
      have hrep := addAll_replays R.P (fun _ => true) rootTag (domOfList R D kids) (PState.init R.P.S false .unset false)
        R.P.S.marks.size (listOk_lax _) w hall
      exact run_flags R.P.S R.P.wsPre _ _ _ hrep.1
    have hio : w.st.isOpen = false := congrArg Prod.fst hflags
    have hto : w.st.topOpen = false := congrArg Prod.snd hflags
    have hce := closeExtra_settles R.P.S { w.st with open_ := 0 } [] cx' kids ext' hi.nodes rfl hi.settles
    have hfin : ({ cx' with content := kids } : NodeCtx).finishNode R.P.S false R.P.S.top = .ok (.elem R.P.S.top a [] kids) := by
      refine finishNode_plain R.P.S ({ cx' with content := kids } : NodeCtx) R.P.S.top qe a hp.mtch hp.ty hve ?_ hp.marks hnl ?_ hfn
      · show computeAttrs _ (cx'.attrs.getD []) = _
        rw [hrel]; exact attrsEq_ok _ _ hat
      · show lastOk cx'.opts kids = true
        rw [hrel]; exact hlo
    unfold parse parseW
    simp only [Node.kids, hall]
    have hce' : ({ w.st with open_ := 0 } : PState).closeExtra R.P.S w.st.isOpen =
        .ok { ({ w.st with open_ := 0 } : PState) with nodes := [] ++ [{ cx' with content := kids }] } := by
      rw [hio]; exact hce
    unfold PState.finish
    simp only [hce', List.nil_append, List.head?_cons, hp.ty]
    have hfin2 := hfin
    simp only [hp.ty] at hfin2
    simp only [hio, hto, Bool.or_self, hfin2, Except.map]

end PM.RoundTrip
