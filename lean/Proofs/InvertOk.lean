/-
  Proofs/InvertOk.lean — `Step.invert` does not raise on a step that applied (C04, oracle
  `invert-raises`): `Schema.invert` can fail only where `Node.slice` / `Node.node_at` /
  `Slice.remove_between` fail, and a successful `apply` excludes that.

  * replace: the range the step replaced can be cut out again;
  * replace-around: additionally `remove_between` succeeds when the gap lies between complete
    children (`GapPath`, i.e. the guard `gapClean` of `replaceAround_undo_structural`);
  * range mark steps: the inverse is built without looking at the document;
  * node-mark steps: `node_at(pos)` is the node the step replaced.
  * attribute steps: `invert` reads `node.attrs.get(name)` and never fails.
-/
import PM.Step
import Proofs.Undo
import Proofs.UndoFit
import Proofs.ReplaceAligned
namespace PM

/-- the range of a replace that went through can be sliced out of the document -/
theorem slice_ok_of_fromReplace (S : Schema) (doc doc' : Node) (f t : Nat) (sl : Slice)
    (hn : fnorm doc.kids = true) (h : S.fromReplace doc f t sl = .ok doc') :
    ∃ old, doc.slice f t = .ok old := by
  obtain ⟨ty, a, m, K, K', rfl, rfl, hr⟩ := fromReplace_elem S doc doc' f t sl h
  obtain ⟨hft, ht, _, _⟩ := replaceKids_ok hr
  obtain ⟨h1, h2⟩ := replaceKids_aligned S ty K f t sl K' hr
  exact sliceKids_total K f t hft ht h1 h2 hn

theorem invert_ok_replace (S : Schema) (doc doc' : Node) (f t : Nat) (sl : Slice) (b : Bool)
    (hn : fnorm doc.kids = true) (h : S.apply (.replace f t sl b) doc = .ok doc') :
    ∃ inv, S.invert (.replace f t sl b) doc = .ok inv := by
  obtain ⟨old, ho⟩ := slice_ok_of_fromReplace S doc doc' f t sl hn (apply_replace_fromReplace S doc doc' f t sl b h)
  simp only [Schema.invert, ho]
  exact ⟨_, rfl⟩

/-- `remove_range` succeeds on a gap between complete children -/
theorem removeRange_ok_of_path {level : List Node} {F T : Nat} (h : GapPath level F T) :
    fnorm level = true → ∃ c, removeRange level F T 0 level F T = .ok c := by
  induction h with
  | @here level l G r F T hl hF hT hseam =>
    intro hn
    subst hl; subst hF; subst hT
    have hnl := fnorm_append_left (fnorm_append_left hn)
    have hnlk := fnormKids_of_fnorm hnl
    have e1 : l ++ G ++ r = l ++ (G ++ r) := by simp
    have hflat : removeRange (l ++ G ++ r) (fsize l) (fsize l + fsize G) 0 (l ++ G ++ r) (fsize l)
          (fsize l + fsize G)
        = removeRange.removeFlat (l ++ G ++ r) (fsize l) (fsize l + fsize G) := by
      have := removeRange_scan_pre (l ++ G ++ r) (fsize l) (fsize l + fsize G) l (G ++ r) 0 0 (fsize G) hnlk
      rw [← e1, Nat.add_zero] at this
      rw [this]
      cases hgr : G ++ r <;> (unfold removeRange; simp)
    rw [hflat]
    have hsz : fsize l + fsize G ≤ fsize (l ++ G ++ r) := by simp only [fsize_append]; omega
    have hszl : fsize l ≤ fsize (l ++ G ++ r) := by omega
    have hal1 : alignedAt (l ++ G ++ r) (fsize l) = true := by
      rw [e1, ← Nat.add_zero (fsize l), alignedAt_append_pre]; simp
    have hal2 : alignedAt (l ++ G ++ r) (fsize l + fsize G) = true := by
      rw [← fsize_append, ← Nat.add_zero (fsize (l ++ G)), alignedAt_append_pre]; simp
    have hfl : flatAt (l ++ G ++ r) (fsize l + fsize G) = true := by
      rw [← fsize_append]
      generalize l ++ G = p
      induction p with
      | nil => cases r <;> simp [flatAt]
      | cons x xs ih =>
        simp only [List.cons_append, fsize_cons]
        unfold flatAt
        split
        · rfl
        · rw [if_pos (by omega), Nat.add_sub_cancel_left]; exact ih
    obtain ⟨cl, hcl⟩ := fcut_total (l ++ G ++ r) 0 (fsize l) (by omega) hszl (alignedAt_zero _) hal1 hn
    clear e1
    obtain ⟨cr, hcr⟩ := fcut_total (l ++ G ++ r) (fsize l + fsize G) (fsize (l ++ G ++ r)) hsz
      (Nat.le_refl _) hal2 (alignedAt_fsize _) hn
    unfold removeRange.removeFlat
    have hir : inRange (l ++ G ++ r) (fsize l + fsize G) = true := by
      unfold inRange; exact decide_eq_true hsz
    simp only [hir, hfl, hcl, hcr, Bool.not_true, Bool.false_eq_true, if_false]
    exact ⟨_, rfl⟩
  | @down level pre ns k ty a m F T F' T' hl hF hT hk ih =>
    intro hn
    subst hl
    obtain ⟨hft', ht'⟩ := hk.le
    have hpre := fnormKids_append_left hn
    have hnk := fnorm_child hn
    have hscan := removeRange_scan_pre (pre ++ Node.elem ty a m k :: ns) F T pre
      (Node.elem ty a m k :: ns) 0 (1 + F') (1 + T') hpre
    rw [← Nat.add_assoc, ← Nat.add_assoc, ← hF, ← hT] at hscan
    rw [hscan]
    unfold removeRange
    rw [if_neg (by omega), if_neg (by simp; omega)]
    simp only [Node.size_elem, Nat.add_sub_cancel_left]
    rw [if_pos (by omega)]
    obtain ⟨c, hc⟩ := ih hnk
    rw [hc]
    exact ⟨_, rfl⟩

/-- **the inverse of an applied replace-around step is built** when the gap lies between complete
    children of the removed content (`gapClean`) -/
theorem invert_ok_replaceAround (S : Schema) (doc doc' : Node) (f t gf gt : Nat) (sl : Slice) (ins : Nat)
    (b : Bool) (hn : fnorm doc.kids = true) (hg : f ≤ gf ∧ gf ≤ gt ∧ gt ≤ t)
    (h : S.apply (.replaceAround f t gf gt sl ins b) doc = .ok doc')
    (hclean : ∀ old, doc.slice f t = .ok old →
      gapClean old.content none (gf - f + old.openStart) (gt - f + old.openStart) = true) :
    ∃ inv, S.invert (.replaceAround f t gf gt sl ins b) doc = .ok inv := by
  obtain ⟨gap, inserted, _, _, _, _, hfr⟩ := apply_replaceAround_parts S doc doc' f t gf gt sl ins b h
  obtain ⟨old, ho⟩ := slice_ok_of_fromReplace S doc doc' f t inserted hn hfr
  have hon := sliceKids_norm doc.kids f t old hn ho
  have hpath : GapPath old.content (gf - f + old.openStart) (gt - f + old.openStart) := by
    have := gapClean_path old.content [] (gf - f + old.openStart) (gt - f + old.openStart)
      (by simpa using fnormKids_of_fnorm hon.1) (by omega) (by simpa using hclean old ho)
    simpa using this
  obtain ⟨c, hc⟩ := removeRange_ok_of_path hpath hon.1
  simp only [Schema.invert, ho, Slice.removeBetween]
  rw [if_neg (by omega), hc]
  exact ⟨_, rfl⟩

theorem invert_ok_addNodeMark (S : Schema) (doc doc' : Node) (pos : Nat) (m : Mark)
    (h : S.apply (.addNodeMark pos m) doc = .ok doc') : ∃ inv, S.invert (.addNodeMark pos m) doc = .ok inv := by
  obtain ⟨n, u, hna, _, _⟩ := apply_addNodeMark_parts S doc doc' pos m h
  simp only [Schema.invert, hna]
  split
  · split <;> exact ⟨_, rfl⟩
  · exact ⟨_, rfl⟩

theorem invert_ok_removeNodeMark (S : Schema) (doc doc' : Node) (pos : Nat) (m : Mark)
    (h : S.apply (.removeNodeMark pos m) doc = .ok doc') :
    ∃ inv, S.invert (.removeNodeMark pos m) doc = .ok inv := by
  obtain ⟨n, u, hna, _, _⟩ := apply_removeNodeMark_parts S doc doc' pos m h
  simp only [Schema.invert, hna]
  split <;> exact ⟨_, rfl⟩

/-- an attribute step's inverse is always built (`node.attrs.get(name)`: `None` for an attribute the node
    does not carry) -/
theorem attr_invert_ok (S : Schema) (doc doc' : Node) (pos : Nat) (name value : String)
    (h : S.apply (.attr pos name value) doc = .ok doc') :
    ∃ inv, S.invert (.attr pos name value) doc = .ok inv := by
  obtain ⟨n, u, hna, _, _⟩ := apply_attr_parts S doc doc' pos name value h
  simp only [Schema.invert, hna]
  cases hf : n.attrs.find? (·.1 == name) with
  | none => exact ⟨_, rfl⟩
  | some q => exact ⟨_, rfl⟩

theorem docAttr_invert_ok (S : Schema) (doc : Node) (name value : String) :
    ∃ inv, S.invert (.docAttr name value) doc = .ok inv := by
  simp only [Schema.invert]
  cases hf : doc.attrs.find? (·.1 == name) with
  | none => exact ⟨_, rfl⟩
  | some q => exact ⟨_, rfl⟩

end PM
