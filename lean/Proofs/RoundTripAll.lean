/-
  Proofs/RoundTripAll.lean — the round trip with marks: the emitted forest of a textblock converts to the forest DOM,
  and the document induction with the forest branch.
-/
import Proofs.RoundTripFull
import Proofs.TokCore
import Proofs.Marks
namespace PM.RoundTrip
open PM PM.Dom PM.FromDom PM.DomWalk

/-- what the conversion needs to know about an inline child -/
structure LeafSer (R : RParser) (D : ToDom) (n : Node) : Prop where
  leaf : n.isLeaf = true
  text : ∀ s ms, n = .text s ms → unitsOk s = true ∧ s.isEmpty = false
  node : ∀ t a ms, n = .leaf t a ms → ∃ name sattrs, D.node t a = .el name sattrs []
  marks : ∀ m ∈ n.marks, markRule R D m true = true

def isTextLeaf : MTree → Bool
  | .leaf (.text ..) => true
  | _ => false

theorem treeDom_not_text (R : RParser) (D : ToDom) (T : MTree) (h : isTextLeaf T = false) (v : List Nat) :
    treeDom R D T ≠ .text (some v) := by
  cases T with
  | leaf n =>
    rw [treeDom]
    apply domOf_not_text
    cases n <;> simp_all [isTextLeaf, Node.isText]
  | wrap m kids => rw [treeDom]; split <;> simp [elemDom]

theorem htmlOf_text (S : Schema) (D : ToDom) (univ : List Mark) (s : List Nat) (ms : Marks) :
    htmlOf S D univ (.text s ms) = .text (escape (charsOfUnits s)) := by
  simp only [htmlOf, annotate, serNode, renderSpec]

theorem htmlOf_leaf (S : Schema) (D : ToDom) (univ : List Mark) (t : TypeId) (a : Attrs) (ms : Marks) (name : List Char)
    (sattrs : List (List Char × Option (List Char))) (hd : D.node t a = .el name sattrs []) :
    htmlOf S D univ (.leaf t a ms) = .el name (rAttrs sattrs) [] := by
  simp only [htmlOf, annotate, hd, serNode, renderSpec, renderSpecs, rAttrs]

mutual
theorem tree_toDom (R : RParser) (D : ToDom) (univ : List Mark) : ∀ (T : MTree) (p : Marks), treeOk p T = true →
    chainOk (flatT T) = true → (∀ n ∈ flatT T, LeafSer R D n) → isTextLeaf T = false →
    ∃ name attrs hk, treeHtml R.P.S D univ T = .el name attrs hk ∧ toDom R.sel (.el name attrs hk) = treeDom R D T
  | .leaf n, p, _, _, hl, hnt => by
    have hn := hl n (by simp [flatT])
    cases n with
    | text s ms => simp [isTextLeaf] at hnt
    | leaf t a ms =>
      obtain ⟨name, sattrs, hd⟩ := hn.node t a ms rfl
      refine ⟨name, rAttrs sattrs, [], by rw [treeHtml, htmlOf_leaf R.P.S D univ t a ms name sattrs hd], ?_⟩
      simp only [toDom, toDomList, treeDom, domOf, hd, elemDom, renderedAttrs, ite_self, rAttrs]
    | elem t a ms ks => have := hn.leaf; simp [Node.isLeaf] at this
  | .wrap m kids, p, hok, hch, hl, _ => by
    rw [treeOk] at hok
    simp only [Bool.and_eq_true] at hok
    rw [flatT] at hch hl
    obtain ⟨n0, hn0⟩ := hasLeafF_mem kids hok.2
    obtain ⟨b, hb⟩ := leaf_below_forest (p ++ [m]) kids hok.1 n0 hn0
    have hmr := (hl n0 hn0).marks m (by rw [hb]; simp)
    obtain ⟨name, sattrs, r, ra, hd, _, _, _, _, hsc, _⟩ := markRule_spec R D m hmr
    have hms := markSpec_of D m name sattrs hd
    have ih := forest_toDom R D univ kids (p ++ [m]) hok.1 hch hl
    refine ⟨name, rAttrs sattrs, forestHtml R.P.S D univ kids, by rw [treeHtml, hms], ?_⟩
    simp only [toDom, hsc, Bool.false_eq_true, if_false, ih, treeDom, hms, elemDom, renderedAttrs, rAttrs]
theorem forest_toDom (R : RParser) (D : ToDom) (univ : List Mark) : ∀ (F : List MTree) (p : Marks), forestOk p F = true →
    chainOk (flatF F) = true → (∀ n ∈ flatF F, LeafSer R D n) →
    toDomList R.sel (forestHtml R.P.S D univ F) = forestDom R D F
  | [], _, _, _, _ => by simp [forestHtml, toDomList, forestDom]
  | T :: Ts, p, hok, hch, hl => by
    rw [forestOk] at hok
    simp only [Bool.and_eq_true] at hok
    rw [flatF] at hch hl
    have hch' := hch
    rw [chainOk_append] at hch'
    simp only [Bool.and_eq_true] at hch'
    have ih := forest_toDom R D univ Ts p hok.2 hch'.1.2 (fun n hn => hl n (List.mem_append_right _ hn))
    by_cases htl : isTextLeaf T = true
    · cases T with
      | wrap m kids => simp [isTextLeaf] at htl
      | leaf n =>
        cases n with
        | leaf t a ms => simp [isTextLeaf] at htl
        | elem t a ms ks => simp [isTextLeaf] at htl
        | text s ms =>
          obtain ⟨hu, hne⟩ := (hl (.text s ms) (by simp [flatT])).text s ms rfl
          rw [forestHtml, treeHtml, htmlOf_text, toDomList, ih, unitsOk_text s hu, forestDom, treeDom, domOf]
          apply consText_elem s hne
          intro v r he
          cases Ts with
          | nil => simp [forestDom] at he
          | cons T2 Ts2 =>
            rw [forestDom] at he
            simp only [List.cons.injEq] at he
            have hnt2 : isTextLeaf T2 = false := by
              cases T2 with
              | wrap => rfl
              | leaf n2 =>
                cases n2 with
                | leaf => rfl
                | elem => rfl
                | text s2 ms2 =>
                  exfalso
                  have h1 : ms = p := by simpa [treeOk, Node.marks] using hok.1
                  have h2 := hok.2
                  rw [forestOk] at h2
                  simp only [Bool.and_eq_true] at h2
                  have h2' : ms2 = p := by simpa [treeOk, Node.marks] using h2.1
                  simp only [flatT, flatF, List.singleton_append, List.cons_append, List.nil_append] at hch
                  rw [chainOk] at hch
                  simp only [Bool.and_eq_true] at hch
                  simp [adjOk, h1, h2'] at hch
            exact treeDom_not_text R D T2 hnt2 v he.1
    · simp only [Bool.not_eq_true] at htl
      obtain ⟨name, attrs, hk, hh, hd⟩ := tree_toDom R D univ T p hok.1 hch'.1.1 (fun n hn => hl n (List.mem_append_left _ hn)) htl
      rw [forestHtml, hh, toDomList, ih, hd, forestDom]
end

/-! ### the canonical DOM with marks -/

mutual
def domOfM (R : RParser) (D : ToDom) : Node → DNode
  | .text s _ => .text (some s)
  | .leaf t a _ =>
    match D.node t a with
    | .el name sattrs [] => elemDom R name sattrs []
    | _ => .other
  | .elem t a _ kids =>
    match D.node t a with
    | .el name sattrs [.hole] =>
      elemDom R name sattrs (if kids.all Node.isLeaf then forestDom R D (build kids [] []) else domOfListM R D kids)
    | .el name sattrs [.el name2 sattrs2 [.hole]] => elemDom R name sattrs [elemDom R name2 sattrs2 (domOfListM R D kids)]
    | _ => .other
def domOfListM (R : RParser) (D : ToDom) : List Node → List DNode
  | [] => []
  | n :: ns => domOfM R D n :: domOfListM R D ns
end

theorem domOfM_shape (R : RParser) (D : ToDom) (opts : Opts) (pt : TypeId) (k : Node) (h : nodeOk R D opts pt k = true) :
    (domOfM R D k).isBr = (prevTag R D k == "br") ∧
    (listTags.contains (prevTag R D k) = false → lkind (domOfM R D k) ≠ .list) := by
  cases k with
  | text s m => simp [domOfM, DNode.isBr, prevTag, lkind]
  | leaf t a m =>
    rw [nodeOk] at h
    simp only [Bool.and_eq_true] at h
    cases hl : leafRule R D t a with
    | none => rw [hl] at h; simp at h
    | some tag =>
      obtain ⟨name, sattrs, pw, hd, _, ht⟩ := leafRule_cases R D t a tag hl
      simp only [domOfM, hd, elemDom, DNode.isBr, prevTag, hl, Option.getD_some, ht, true_and]
      exact fun h' => lkind_elem _ _ _ _ h'
  | elem t a m kids =>
    rw [nodeOk] at h
    simp only [Bool.and_eq_true] at h
    cases he : elemRule R D t a with
    | none => rw [he] at h; simp at h
    | some p =>
      obtain ⟨tag, pw⟩ := p
      rcases elemRule_cases R D t a tag pw he with ⟨name, sattrs, hd, _, _, ht⟩ | ⟨name, sattrs, name2, sattrs2, hd, _, _, _, _, ht⟩
      · simp only [domOfM, hd, elemDom, DNode.isBr, prevTag, he, Option.map_some, Option.getD_some, ht, true_and]
        exact fun h' => lkind_elem _ _ _ _ h'
      · simp only [domOfM, hd, elemDom, DNode.isBr, prevTag, he, Option.map_some, Option.getD_some, ht, true_and]
        exact fun h' => lkind_elem _ _ _ _ h'

theorem prevOk_nextM (R : RParser) (D : ToDom) (opts : Opts) (pt : TypeId) (k : Node) (c : List Node)
    (h : nodeOk R D opts pt k = true) : PrevOk (some (k, prevTag R D k)) (c ++ [k]) (domOfM R D k).isBr := by
  refine ⟨by simp, ?_⟩
  intro hb
  rw [(domOfM_shape R D opts pt k h).1] at hb
  refine ⟨k, prevTag R D k, rfl, by simpa using hb, ?_⟩
  cases k with
  | text s m => simp [prevTag] at hb
  | leaf => rfl
  | elem => rfl


theorem mem_domOfListM (R : RParser) (D : ToDom) : ∀ (kids : List Node) (k : DNode), k ∈ domOfListM R D kids →
    ∃ n, n ∈ kids ∧ k = domOfM R D n
  | [], _, h => by simp [domOfListM] at h
  | n :: ns, k, h => by
    rw [domOfListM] at h
    rcases List.mem_cons.1 h with rfl | h
    · exact ⟨n, List.mem_cons_self, rfl⟩
    · obtain ⟨n', hn, he⟩ := mem_domOfListM R D ns k h
      exact ⟨n', List.mem_cons_of_mem _ hn, he⟩


theorem leafHyp_of (R : RParser) (tc : TypeId) : ∀ (kids : List Node), kids.all Node.isLeaf = true →
    R.P.S.checkKids kids = true → kids.all (fun k => (R.P.S.nodeType tc).allowsMarks k.marks) = true →
    ∀ n ∈ kids, LeafHyp R tc n
  | [], _, _, _, _, hn => by cases hn
  | k :: ks, hfl, hck, hal, n, hn => by
    simp only [List.all_cons, Bool.and_eq_true] at hfl hal
    rw [Schema.checkKids] at hck
    simp only [Bool.and_eq_true] at hck
    rcases List.mem_cons.1 hn with rfl | hn
    · refine ⟨hfl.1, ?_, ?_⟩
      · apply (canonicalMarks_iff_canonP R.P.S _).1
        cases n with
        | text s m => simpa [Schema.checkNode, Node.marks] using hck.1
        | leaf t a m => rw [Schema.checkNode] at hck; simp only [Bool.and_eq_true] at hck; exact hck.1.1
        | elem t a m kk => simp [Node.isLeaf] at hfl
      · intro m hm
        have := hal.1
        unfold NodeType.allowsMarks at this
        rw [List.all_eq_true] at this
        exact this m hm
    · exact leafHyp_of R tc ks hfl.2 hck.2 hal.2 n hn

mutual
theorem walk_nodeM (R : RParser) (D : ToDom) : ∀ (k : Node) (w : WState) (base : List NodeCtx) (cx : NodeCtx) (ext : List NodeCtx)
    (c : List Node) (t : TypeId) (q q' : Nat) (opts : Opts) (prev : Option (Node × String)) (prevBr : Bool) (ptag : String),
    Inv R.P.S w base cx ext c → Plain R.P.S cx t q → (cx.pending = [] ∨ k.isLeaf = true) → cx.opts = opts →
    (match k with
     | .text s _ => textOk opts prev s = true
     | _ => True) →
    nodeOk R D opts t k = true → k.marks = [] → R.P.S.checkNode k = true → k.norm = true →
    (R.P.S.dfa t).matchType q (R.P.S.tyOf k) = some q' → PrevOk prev c prevBr →
    ∃ w' cx' ext', addDom R.P ptag prevBr (domOfM R D k) w = .ok w' ∧ Inv R.P.S w' base cx' ext' (c ++ [k]) ∧
      Plain R.P.S cx' t q' ∧ Rel cx cx' ∧ (k.isLeaf = true → ext' = [])
  | .text s m, w, base, cx, ext, c, t, q, q', opts, prev, prevBr, ptag, hi, hp, _, ho, htx, hok, hnm, _, _, hm, hprev => by
    have hm0 : m = [] := hnm
    subst hm0
    rw [nodeOk] at hok
    simp only [Bool.and_eq_true] at hok
    subst ho
    obtain ⟨w', hadd, hi', _⟩ := addTextNode_normal R.P w base cx ext c t q q' s prev (some ptag) prevBr hi hp hok.1 htx
      (fun h1 h2 h3 => by
        subst h3
        have hc := settles_nil_inv _ _ _ hi.settles
        rw [hc] at hprev
        exact hdrop_of cx prev s prevBr htx hprev h1 h2) hm
    exact ⟨w', _, [], by rw [domOfM, addDom]; exact hadd, hi', hp.step _ _, rfl, fun _ => rfl⟩
  | .leaf tl a m, w, base, cx, ext, c, t, q, q', opts, prev, prevBr, ptag, hi, hp, _, ho, _, hok, hnm, _, _, hm, _ => by
    have hm0 : m = [] := hnm
    subst hm0
    rw [nodeOk] at hok
    simp only [Bool.and_eq_true, Bool.not_eq_true'] at hok
    obtain ⟨⟨⟨⟨hlr, hl⟩, hnt⟩, _⟩, _⟩ := hok
    cases hlr' : leafRule R D tl a with
    | none => rw [hlr'] at hlr; cases hlr
    | some tag =>
      obtain ⟨name, sattrs, pw, hd, hnr, _⟩ := leafRule_cases R D tl a tag hlr'
      obtain ⟨hu, r, ra, hf, hs, hr, hca, _⟩ := nodeRule_spec R tl a name sattrs pw hnr
      have hig : ignoreTags.contains (lowerName name) = false := by
        unfold tagUsable at hu; simp only [Bool.and_eq_true, Bool.not_eq_true'] at hu; exact hu.1
      obtain ⟨w', hadd, hi'⟩ := addDom_leaf R w base cx ext c t q q' tl ra a (lowerName name) (renderedAttrs sattrs) r [] ptag prevBr
        hi hp hig hf hs hr hl hnt hm hca
      refine ⟨w', _, [], ?_, hi', hp.step _ _, rfl, fun _ => rfl⟩
      simp only [domOfM, hd, elemDom]
      exact hadd
  | .elem tc a m kids, w, base, cx, ext, c, t, q, q', opts, prev, prevBr, ptag, hi, hp, hpe, ho, _, hok, hnm, hck, hnorm, hm, _ => by
    have hpe0 : cx.pending = [] := by
      rcases hpe with h | h
      · exact h
      · simp [Node.isLeaf] at h
    have hm0 : m = [] := hnm
    subst hm0
    rw [nodeOk] at hok
    simp only [Bool.and_eq_true, Bool.not_eq_true'] at hok
    obtain ⟨⟨hnl, _⟩, hrest⟩ := hok
    cases her : elemRule R D tc a with
    | none => rw [her] at hrest; cases hrest
    | some p =>
      obtain ⟨tag, pw⟩ := p
      rw [her] at hrest
      simp only [Bool.and_eq_true, Bool.or_eq_true, Bool.not_eq_true'] at hrest
      obtain ⟨⟨⟨⟨⟨hko, hlo⟩, hflat⟩, hlist⟩, hmfl⟩, hlfl⟩ := hrest
      rw [Schema.checkNode] at hck
      simp only [Bool.and_eq_true] at hck
      obtain ⟨⟨hvc, _⟩, hckk⟩ := hck
      unfold Schema.validContent at hvc
      simp only [Bool.and_eq_true] at hvc
      obtain ⟨qe, hrun, hve⟩ := accepts_run _ _ hvc.1
      rw [Node.norm] at hnorm
      have hfn : fnorm kids = true := hnorm
      simp only [Bool.and_eq_true] at hnorm
      have hN := afterEnter_inv R.P w base cx ext c q' tc
      rcases elemRule_cases R D tc a tag pw her with ⟨name, sattrs, hd, _, hnr, ht⟩ |
          ⟨name, sattrs, name2, sattrs2, hd, _, hlt, htr, hnr, ht⟩
      · obtain ⟨hu, r, ra, hf, hs, hr, hca, hpw⟩ := nodeRule_spec R tc a name sattrs pw hnr
        have hig : ignoreTags.contains (lowerName name) = false := by
          unfold tagUsable at hu; simp only [Bool.and_eq_true, Bool.not_eq_true'] at hu; exact hu.1
        have hNN := hN ra r.preserveWs (.enter tc ra r.preserveWs) hi
        have hopts : (newCtx R.P tc ra r.preserveWs cx.opts w.st.fresh).opts = wsOptionsFor (R.P.wsPre tc) pw opts := by
          rw [hpw, ho]; rfl
        by_cases hfl : kids.all Node.isLeaf = true
        · have hbt := build_top kids
          have hleaf := leafHyp_of R tc kids hfl hckk hvc.2
          have hnkF : normKids R.P (lowerName name) (forestDom R D (build kids [] [])) = forestDom R D (build kids [] []) := by
            apply normKids_noList
            intro hlc k hk
            rw [← ht] at hlc
            have hke : kids = [] := by
              simp only [hlc, hfl, List.isEmpty_iff] at hlfl
              rcases hlfl with (h | h) | h
              · cases h
              · exact h
              · cases h
            subst hke
            simp [build, closeF, forestDom] at hk
          obtain ⟨w3, ext3, hadd, hi3⟩ := addDom_node R w base cx ext c t q q' tc ra a (lowerName name) (renderedAttrs sattrs) r
            (forestDom R D (build kids [] [])) kids qe ptag prevBr hi hp hpe0 hig hf hs hr hnl hm hca hnkF
            (fun w1 hi1 => by
              have hs0 : MarkSt (newCtx R.P tc ra r.preserveWs cx.opts w.st.fresh) tc 0 [] [] := ⟨rfl, hNN.2.1.mtch, rfl, rfl, rfl, rfl⟩
              obtain ⟨w2, N', hall, hi2, hs2, hst2⟩ := walk_forest R D (build kids [] []) w1 _ _ [] tc 0 qe _ none false
                (lowerName name) [] [] [] hi1 hs0 hopts rfl (fun m hm => by cases hm) hbt.1 (by rw [hbt.2]; exact hko)
                (by rw [hbt.2]; exact hleaf) (by rw [hbt.2]; exact hrun) prevOk_init
              have hs2' : MarkSt N' tc qe [] [] := by simpa using hs2
              rw [hbt.2] at hi2
              refine ⟨w2, N', [], hall, by simpa using hi2, ?_, hst2⟩
              exact ⟨hs2'.ty, hs2'.mtch, hs2'.solid, (by rw [hs2'.pending]; intro m hm; cases hm), (by simpa using hs2'.active),
                (by rw [hst2.marks]; rfl), (by rw [hst2.opts]; exact hNN.2.1.openLeft)⟩)
            hve (by rw [hpw, ho]; exact hlo) hfn
          refine ⟨w3, _, ext3, ?_, hi3, hp.step _ _, rfl, fun h => by simp [Node.isLeaf] at h⟩
          simp only [domOfM, hd, elemDom, hfl, if_true]
          exact hadd
        · have hdm : kids.all (fun k => k.marks.isEmpty) = true := by
            rcases hmfl with h | h
            · exact absurd h hfl
            · exact h
          have hnk : normKids R.P (lowerName name) (domOfListM R D kids) = domOfListM R D kids := by
            apply normKids_noList
            intro hlc k hk
            rw [← ht] at hlc
            rcases hlist with h | h
            · rw [h] at hlc; cases hlc
            · rw [List.all_eq_true] at h
              obtain ⟨n, hn, rfl⟩ := mem_domOfListM R D kids k hk
              have hn1 := h n hn
              simp only [Bool.not_eq_true'] at hn1
              exact (domOfM_shape R D _ tc n (nodeOk_of_kidsOk R D _ tc _ kids hko n hn)).2 hn1
          obtain ⟨w3, ext3, hadd, hi3⟩ := addDom_node R w base cx ext c t q q' tc ra a (lowerName name) (renderedAttrs sattrs) r
            (domOfListM R D kids) kids qe ptag prevBr hi hp hpe0 hig hf hs hr hnl hm hca hnk
            (fun w1 hi1 => by
              obtain ⟨w2, N', ext', hall, hi2, hp2, hrel, _⟩ := walk_kidsM R D kids w1 _ _ [] [] tc 0 qe _ none false (lowerName name)
                hi1 hNN.2.1 (.inl hNN.2.2) hopts hko hdm hckk hnorm.1 hrun prevOk_init
              exact ⟨w2, N', ext', hall, by simpa using hi2, hp2, hrel.stable⟩)
            hve (by rw [hpw, ho]; exact hlo) hfn
          refine ⟨w3, _, ext3, ?_, hi3, hp.step _ _, rfl, fun h => by simp [Node.isLeaf] at h⟩
          simp only [domOfM, hd, elemDom, hfl, Bool.false_eq_true, if_false]
          exact hadd
      · obtain ⟨hu, r, ra, hf, hs, hr, hca, hpw⟩ := nodeRule_spec R tc a name sattrs pw hnr
        have hig : ignoreTags.contains (lowerName name) = false := by
          unfold tagUsable at hu; simp only [Bool.and_eq_true, Bool.not_eq_true'] at hu; exact hu.1
        have hNN := hN ra r.preserveWs (.enter tc ra r.preserveWs) hi
        have hopts : (newCtx R.P tc ra r.preserveWs cx.opts w.st.fresh).opts = wsOptionsFor (R.P.wsPre tc) pw opts := by
          rw [hpw, ho]; rfl
        obtain ⟨hig2, _, hbr2, hlt2, htp⟩ := transparent_cases R tc name2 sattrs2 htr
        have hflat' : kids.all Node.isLeaf = true := by
          rcases hflat with h | h
          · simp [isWrapper, hd] at h
          · exact h.1
        have hdm : kids.all (fun k => k.marks.isEmpty) = true := by
          rcases hflat with h | h
          · simp [isWrapper, hd] at h
          · exact h.2
        have hnk : normKids R.P (lowerName name) [elemDom R name2 sattrs2 (domOfListM R D kids)] =
            [elemDom R name2 sattrs2 (domOfListM R D kids)] :=
          normKids_noList _ _ _ (fun hlc => by rw [← ht, hlt] at hlc; cases hlc)
        obtain ⟨w3, ext3, hadd, hi3⟩ := addDom_node R w base cx ext c t q q' tc ra a (lowerName name) (renderedAttrs sattrs) r
          [elemDom R name2 sattrs2 (domOfListM R D kids)] kids qe ptag prevBr hi hp hpe0 hig hf hs hr hnl hm hca hnk
          (fun w1 hi1 => by
            have key : ∃ w2 N', addDom R.P (lowerName name) false (elemDom R name2 sattrs2 (domOfListM R D kids)) w1 = .ok w2 ∧
                Inv R.P.S w2 (base ++ [{ cx with content := c, mtch := some q' }]) N' [] kids ∧ Plain R.P.S N' tc qe ∧ Rel (newCtx R.P tc ra r.preserveWs cx.opts w.st.fresh) N' := by
              unfold elemDom
              cases htp with
              | none hc hb =>
                obtain ⟨w3', hadd', N', h1, h2, h3⟩ := addDom_transparentA R w1 (base ++ [{ cx with content := c, mtch := some q' }]) (newCtx R.P tc ra r.preserveWs cx.opts w.st.fresh) [] (lowerName name2) (renderedAttrs sattrs2)
                  (domOfListM R D kids) (lowerName name) false
                  (fun w2 => ∃ N', Inv R.P.S w2 (base ++ [{ cx with content := c, mtch := some q' }]) N' [] kids ∧ Plain R.P.S N' tc qe ∧ Rel (newCtx R.P tc ra r.preserveWs cx.opts w.st.fresh) N')
                  (fun w2 hq b l => by
                    obtain ⟨N', h1, h2, h3⟩ := hq
                    exact ⟨N', ⟨h1.nodes, h1.open_, h1.settles, h1.below, h1.fresh⟩, h2, h3⟩)
                  hi1 hig2 hbr2 hlt2 hc hb
                  (by
                    obtain ⟨w2, N', ext', hall, hi2, hp2, hrel, hx⟩ := walk_kidsM R D kids w1 _ _ [] [] tc 0 qe _ none false
                      (lowerName name2) hi1 hNN.2.1 (.inr hflat') hopts hko hdm hckk hnorm.1 hrun prevOk_init
                    have := hx hflat' rfl
                    subst this
                    exact ⟨w2, hall, N', by simpa using hi2, hp2, hrel⟩)
                exact ⟨w3', N', hadd', h1, h2, h3⟩
              | mark r2 ra2 mt hf2 hs2 hrn hrm hal hcm =>
                obtain ⟨w3', N3, hadd', h1, h2, h3⟩ := addDom_transparentB R w1 (base ++ [{ cx with content := c, mtch := some q' }]) (newCtx R.P tc ra r.preserveWs cx.opts w.st.fresh) [] kids tc 0 qe (lowerName name2)
                  (renderedAttrs sattrs2) r2 ra2 mt (domOfListM R D kids) (lowerName name) false hi1 hNN.2.2 hig2 hlt2 hf2 hs2 hrn hrm hcm
                  (fun w1' mk hty hi1' => by
                    have hpB : Plain R.P.S { (newCtx R.P tc ra r.preserveWs cx.opts w.st.fresh) with pending := [mk] } tc 0 :=
                      ⟨hNN.2.1.ty, hNN.2.1.mtch, hNN.2.1.solid,
                        (fun m hm => by simp only [List.mem_singleton] at hm; subst hm; rw [hty]; exact hal),
                        hNN.2.1.active, hNN.2.1.marks, hNN.2.1.openLeft⟩
                    obtain ⟨w2, N', ext', hall, hi2, hp2, hrel, hx⟩ := walk_kidsM R D kids w1' _ _ [] [] tc 0 qe _ none false
                      (lowerName name2) hi1' hpB (.inr hflat') hopts hko hdm hckk hnorm.1 hrun prevOk_init
                    have := hx hflat' rfl
                    subst this
                    exact ⟨w2, N', hall, by simpa using hi2, hp2, hrel⟩)
                exact ⟨w3', N3, hadd', h1, h2, h3⟩
            obtain ⟨w2, N', hadd2, h1, h2, h3⟩ := key
            refine ⟨w2, N', [], ?_, h1, h2, h3.stable⟩
            rw [addAll]
            simp only [hadd2]
            rw [addAll])
          hve (by rw [hpw, ho]; exact hlo) hfn
        refine ⟨w3, _, ext3, ?_, hi3, hp.step _ _, rfl, fun h => by simp [Node.isLeaf] at h⟩
        simp only [domOfM, hd, elemDom]
        simp only [elemDom] at hadd
        exact hadd
theorem walk_kidsM (R : RParser) (D : ToDom) : ∀ (kids : List Node) (w : WState) (base : List NodeCtx) (cx : NodeCtx) (ext : List NodeCtx)
    (c : List Node) (t : TypeId) (q qe : Nat) (opts : Opts) (prev : Option (Node × String)) (prevBr : Bool) (ptag : String),
    Inv R.P.S w base cx ext c → Plain R.P.S cx t q → (cx.pending = [] ∨ kids.all Node.isLeaf = true) → cx.opts = opts →
    kidsOk R D opts t prev kids = true → kids.all (fun k => k.marks.isEmpty) = true → R.P.S.checkKids kids = true → fnormKids kids = true →
    (R.P.S.dfa t).run q (R.P.S.types kids) = some qe → PrevOk prev c prevBr →
    ∃ w' cx' ext', addAll R.P ptag (domOfListM R D kids) prevBr w = .ok w' ∧ Inv R.P.S w' base cx' ext' (c ++ kids) ∧
      Plain R.P.S cx' t qe ∧ Rel cx cx' ∧ (kids.all Node.isLeaf = true → ext = [] → ext' = [])
  | [], w, base, cx, ext, c, t, q, qe, opts, prev, prevBr, ptag, hi, hp, _, _, _, _, _, _, hrun, _ => by
    simp only [Schema.types, List.map_nil, Dfa.run, Option.some.injEq] at hrun
    subst hrun
    refine ⟨w, cx, ext, by rw [domOfListM, addAll], by simpa using hi, hp, Rel.refl cx, fun _ h => h⟩
  | k :: ks, w, base, cx, ext, c, t, q, qe, opts, prev, prevBr, ptag, hi, hp, hpe, ho, hok, hnm, hck, hfn, hrun, hprev => by
    unfold kidsOk at hok
    simp only [Bool.and_eq_true] at hok
    obtain ⟨⟨htx, hnk⟩, hoks⟩ := hok
    simp only [List.all_cons, Bool.and_eq_true] at hnm
    rw [Schema.checkKids] at hck
    simp only [Bool.and_eq_true] at hck
    rw [fnormKids] at hfn
    simp only [Bool.and_eq_true] at hfn
    simp only [Schema.types, List.map_cons, Dfa.run] at hrun
    cases hmt : (R.P.S.dfa t).matchType q (R.P.S.tyOf k) with
    | none => rw [hmt] at hrun; cases hrun
    | some q1 =>
      rw [hmt] at hrun
      simp only at hrun
      have hpe1 : cx.pending = [] ∨ k.isLeaf = true := by
        rcases hpe with h | h
        · exact .inl h
        · simp only [List.all_cons, Bool.and_eq_true] at h; exact .inr h.1
      obtain ⟨w1, cx1, ext1, hadd, hi1, hp1, hrel1, hx1⟩ := walk_nodeM R D k w base cx ext c t q q1 opts prev prevBr ptag hi hp hpe1 ho
        (by cases k <;> first | exact htx | trivial) hnk (by simpa using hnm.1) hck.1 hfn.1 hmt hprev
      have hpe2 : cx1.pending = [] ∨ ks.all Node.isLeaf = true := by
        rcases hpe with h | h
        · exact .inl (by rw [hrel1.pending]; exact h)
        · simp only [List.all_cons, Bool.and_eq_true] at h; exact .inr h.2
      obtain ⟨w2, cx2, ext2, hall, hi2, hp2, hrel2, hx2⟩ := walk_kidsM R D ks w1 base cx1 ext1 (c ++ [k]) t q1 qe opts
        (some (k, prevTag R D k)) (domOfM R D k).isBr ptag hi1 hp1 hpe2 (by rw [hrel1.opts]; exact ho) hoks hnm.2 hck.2 hfn.2 hrun
        (prevOk_nextM R D opts t k c hnk)
      refine ⟨w2, cx2, ext2, ?_, by simpa using hi2, hp2, hrel1.trans hrel2, ?_⟩
      · rw [domOfListM, addAll]
        simp only [hadd, hall]
      · intro h _
        simp only [List.all_cons, Bool.and_eq_true] at h
        exact hx2 h.2 (hx1 h.1)
end


/-! ### the serializer side with marks -/

theorem annotate_marks_nilM (S : Schema) (D : ToDom) (univ : List Mark) (k : Node) (h : k.marks = []) :
    ∃ spec akids, annotate S D univ k = .mk [] spec akids := by
  cases k with
  | text s m =>
    have : m = [] := h
    subst this; exact ⟨_, _, by rw [annotate]; rfl⟩
  | leaf t a m =>
    have : m = [] := h
    subst this; exact ⟨_, _, by rw [annotate]; rfl⟩
  | elem t a m kids =>
    have : m = [] := h
    subst this; exact ⟨_, _, by rw [annotate]; rfl⟩

/-- without marks `serialize_fragment` emits the nodes one after the other -/
theorem serFrag_nomarksM (S : Schema) (D : ToDom) (univ : List Mark) : ∀ (kids : List Node) (cur : List Html),
    kids.all (fun k => k.marks.isEmpty) = true → serFrag (annotateList S D univ kids) [] cur = cur ++ kids.map (htmlOf S D univ)
  | [], cur, _ => by simp [annotateList, serFrag, closeFrames]
  | k :: ks, cur, h => by
    simp only [List.all_cons, Bool.and_eq_true] at h
    obtain ⟨spec, akids, ha⟩ := annotate_marks_nilM S D univ k (by simpa using h.1)
    rw [annotateList, ha, serFrag.eq_2]
    rw [serFrag.keepCount.eq_3 _ _ (by simp) (by simp)]
    simp only [List.length_nil, Nat.sub_self, closeFrames, List.foldl_nil]
    rw [serFrag_nomarksM S D univ ks _ h.2]
    simp [htmlOf, ha]



theorem domOfM_not_text (R : RParser) (D : ToDom) (k : Node) (hk : k.isText = false) (v : List Nat) : domOfM R D k ≠ .text (some v) := by
  cases k with
  | text s m => simp [Node.isText] at hk
  | leaf t a m => rw [domOfM]; split <;> simp [elemDom]
  | elem t a m kids => rw [domOfM]; split <;> simp [elemDom]

theorem kids_ser_hyps (R : RParser) (D : ToDom) (univ : List Mark) (opts : Opts) (pt : TypeId) : ∀ (kids : List Node)
    (prev : Option (Node × String)), kids.all Node.isLeaf = true → kidsOk R D opts pt prev kids = true →
    (∀ m ∈ marksOfList kids, m ∈ univ) →
    (∀ n ∈ kids, LeafSer R D n) ∧ (∀ n ∈ kids, InlOk R.P.S D univ n)
  | [], _, _, _, _ => ⟨(fun n hn => by cases hn), (fun n hn => by cases hn)⟩
  | k :: ks, prev, hfl, hok, hun => by
    simp only [List.all_cons, Bool.and_eq_true] at hfl
    unfold kidsOk at hok
    simp only [Bool.and_eq_true] at hok
    obtain ⟨⟨htx, hnk⟩, hoks⟩ := hok
    have hun1 : ∀ m ∈ marksOf k, m ∈ univ := fun m hm => hun m (by rw [marksOfList]; exact List.mem_append_left _ hm)
    obtain ⟨ih1, ih2⟩ := kids_ser_hyps R D univ opts pt ks _ hfl.2 hoks
      (fun m hm => hun m (by rw [marksOfList]; exact List.mem_append_right _ hm))
    have hmr := nodeOk_markRule R D opts pt k hfl.1 hnk
    have hmok : ∀ m ∈ k.marks, MOk D univ m := by
      intro m hm
      obtain ⟨name, sattrs, r, ra, hd, hsp, _⟩ := markRule_spec R D m (hmr m hm)
      refine ⟨⟨name, sattrs, hd⟩, hsp, hun1 m ?_⟩
      cases k with
      | text s ms => exact hm
      | leaf t a ms => exact hm
      | elem t a ms kk => simp [Node.isLeaf] at hfl
    have hk1 : LeafSer R D k := by
      refine ⟨hfl.1, ?_, ?_, hmr⟩
      · intro s ms he
        subst he
        simp only at htx
        unfold textOk at htx
        simp only [Bool.and_eq_true, Bool.not_eq_true'] at htx
        exact htx.1
      · intro t a ms he
        subst he
        rw [nodeOk] at hnk
        simp only [Bool.and_eq_true] at hnk
        cases hl : leafRule R D t a with
        | none => rw [hl] at hnk; simp at hnk
        | some tag =>
          obtain ⟨name, sattrs, pw, hd, _, _⟩ := leafRule_cases R D t a tag hl
          exact ⟨name, sattrs, hd⟩
    have hk2 : InlOk R.P.S D univ k := by
      refine ⟨?_, hmok⟩
      cases k with
      | text s ms => trivial
      | leaf t a ms =>
        rw [nodeOk] at hnk
        simp only [Bool.and_eq_true, Bool.or_eq_true, List.isEmpty_iff] at hnk
        exact hnk.1.2
      | elem t a ms kk => simp [Node.isLeaf] at hfl
    refine ⟨fun n hn => ?_, fun n hn => ?_⟩
    · rcases List.mem_cons.1 hn with rfl | hn
      · exact hk1
      · exact ih1 n hn
    · rcases List.mem_cons.1 hn with rfl | hn
      · exact hk2
      · exact ih2 n hn

mutual
theorem ser_dom_nodeM (R : RParser) (D : ToDom) (univ : List Mark) : ∀ (k : Node) (opts : Opts) (pt : TypeId),
    k.isText = false → k.marks = [] → (∀ m ∈ marksOf k, m ∈ univ) → nodeOk R D opts pt k = true → k.norm = true →
    ∃ name attrs hk, htmlOf R.P.S D univ k = .el name attrs hk ∧ toDom R.sel (.el name attrs hk) = domOfM R D k
  | .text s m, _, _, ht, _, _, _, _ => by simp [Node.isText] at ht
  | .leaf t a m, opts, pt, _, hnm, _, hok, _ => by
    have hm0 : m = [] := hnm
    subst hm0
    rw [nodeOk] at hok
    simp only [Bool.and_eq_true] at hok
    cases hl : leafRule R D t a with
    | none => rw [hl] at hok; simp at hok
    | some tag =>
      obtain ⟨name, sattrs, pw, hd, _, _⟩ := leafRule_cases R D t a tag hl
      refine ⟨name, rAttrs sattrs, [], ?_, ?_⟩
      · simp only [htmlOf, annotate, hd, serNode, renderSpec, renderSpecs, rAttrs]
      · simp only [toDom, toDomList, domOfM, hd, elemDom, renderedAttrs, ite_self, rAttrs]
  | .elem t a m kids, opts, pt, _, hnm, hun, hok, hnorm => by
    have hm0 : m = [] := hnm
    have hunk : ∀ m ∈ marksOfList kids, m ∈ univ := fun m hm => hun m (by rw [marksOf]; exact List.mem_append_right _ hm)
    subst hm0
    rw [nodeOk] at hok
    simp only [Bool.and_eq_true, Bool.not_eq_true'] at hok
    obtain ⟨_, hrest⟩ := hok
    rw [Node.norm] at hnorm
    simp only [Bool.and_eq_true] at hnorm
    cases her : elemRule R D t a with
    | none => rw [her] at hrest; cases hrest
    | some p =>
      obtain ⟨tag, pw⟩ := p
      rw [her] at hrest
      simp only [Bool.and_eq_true] at hrest
      obtain ⟨⟨⟨⟨⟨hko, _⟩, hflat⟩, _⟩, hmfl⟩, _⟩ := hrest
      rcases elemRule_cases R D t a tag pw her with ⟨name, sattrs, hd, hsc, _, _⟩ |
          ⟨name, sattrs, name2, sattrs2, hd, hsc, _, htr, _, _⟩
      · by_cases hfl : kids.all Node.isLeaf = true
        · have hbt := build_top kids
          obtain ⟨hls, hinl⟩ := kids_ser_hyps R D univ _ t kids none hfl hko hunk
          have hfill : serFrag (annotateList R.P.S D univ kids) [] [] = forestHtml R.P.S D univ (build kids [] []) := by
            simpa [forestHtml] using serFrag_forest R.P.S D univ kids [] [] hinl (fun x hx => by cases hx)
          have ihf := forest_toDom R D univ (build kids [] []) [] hbt.1 (by rw [hbt.2]; exact hnorm.2) (by rw [hbt.2]; exact hls)
          refine ⟨name, rAttrs sattrs, forestHtml R.P.S D univ (build kids [] []), ?_, ?_⟩
          · simp only [htmlOf, annotate, hd, serNode, renderSpec, hfill, rAttrs]
          · simp only [toDom, hsc, Bool.false_eq_true, if_false, ihf, domOfM, hd, elemDom, renderedAttrs, rAttrs, hfl, if_true]
        · have hdm : kids.all (fun k => k.marks.isEmpty) = true := by
            simp only [Bool.or_eq_true] at hmfl
            rcases hmfl with h | h
            · exact absurd h hfl
            · exact h
          have hfill : serFrag (annotateList R.P.S D univ kids) [] [] = kids.map (htmlOf R.P.S D univ) := by
            rw [serFrag_nomarksM R.P.S D univ kids [] hdm]; rfl
          have ih := ser_dom_listM R D univ kids _ t none hdm hunk hko hnorm.1 hnorm.2
          refine ⟨name, rAttrs sattrs, kids.map (htmlOf R.P.S D univ), ?_, ?_⟩
          · simp only [htmlOf, annotate, hd, serNode, renderSpec, hfill, rAttrs]
          · simp only [toDom, hsc, Bool.false_eq_true, if_false, ih, domOfM, hd, elemDom, renderedAttrs, rAttrs, hfl]
      · obtain ⟨_, hsc2, _, _, _⟩ := transparent_cases R t name2 sattrs2 htr
        have hdm : kids.all (fun k => k.marks.isEmpty) = true := by
          simp only [Bool.or_eq_true, Bool.and_eq_true, Bool.not_eq_true'] at hflat
          rcases hflat with h | h
          · simp [isWrapper, hd] at h
          · exact h.2
        have hfill : serFrag (annotateList R.P.S D univ kids) [] [] = kids.map (htmlOf R.P.S D univ) := by
          rw [serFrag_nomarksM R.P.S D univ kids [] hdm]; rfl
        have ih := ser_dom_listM R D univ kids _ t none hdm hunk hko hnorm.1 hnorm.2
        refine ⟨name, rAttrs sattrs, [.el name2 (rAttrs sattrs2) (kids.map (htmlOf R.P.S D univ))], ?_, ?_⟩
        · simp only [htmlOf, annotate, hd, serNode, renderSpec, renderSpecs, hfill, rAttrs]
        · simp only [toDom, toDomList, hsc, hsc2, Bool.false_eq_true, if_false, ih, domOfM, hd, elemDom, renderedAttrs, rAttrs]
theorem ser_dom_listM (R : RParser) (D : ToDom) (univ : List Mark) : ∀ (kids : List Node) (opts : Opts) (pt : TypeId)
    (prev : Option (Node × String)),
    kids.all (fun k => k.marks.isEmpty) = true → (∀ m ∈ marksOfList kids, m ∈ univ) → kidsOk R D opts pt prev kids = true →
    fnormKids kids = true → chainOk kids = true →
    toDomList R.sel (kids.map (htmlOf R.P.S D univ)) = domOfListM R D kids
  | [], _, _, _, _, _, _, _, _ => by simp [toDomList, domOfListM]
  | k :: ks, opts, pt, prev, hnm, hun, hok, hfn, hch => by
    unfold kidsOk at hok
    simp only [Bool.and_eq_true] at hok
    obtain ⟨⟨htx, hnk⟩, hoks⟩ := hok
    simp only [List.all_cons, Bool.and_eq_true] at hnm
    have hun1 : ∀ m ∈ marksOf k, m ∈ univ := fun m hm => hun m (by rw [marksOfList]; exact List.mem_append_left _ hm)
    have hun2 : ∀ m ∈ marksOfList ks, m ∈ univ := fun m hm => hun m (by rw [marksOfList]; exact List.mem_append_right _ hm)
    rw [fnormKids] at hfn
    simp only [Bool.and_eq_true] at hfn
    have hch2 : chainOk ks = true := by
      cases ks with
      | nil => rfl
      | cons k2 ks2 => rw [chainOk] at hch; simp only [Bool.and_eq_true] at hch; exact hch.2
    have ih := ser_dom_listM R D univ ks opts pt _ hnm.2 hun2 hoks hfn.2 hch2
    cases k with
    | text s m =>
      have hm0 : m = [] := by simpa [Node.marks] using hnm.1
      subst hm0
      simp only at htx
      unfold textOk at htx
      simp only [Bool.and_eq_true, Bool.not_eq_true'] at htx
      have hhtml : htmlOf R.P.S D univ (.text s []) = .text (escape (charsOfUnits s)) := by
        simp only [htmlOf, annotate, serNode, renderSpec]
      rw [List.map_cons, hhtml, toDomList, ih, unitsOk_text s htx.1.1, domOfListM, domOfM]
      apply consText_elem s htx.1.2
      intro v r he
      cases ks with
      | nil => simp [domOfListM] at he
      | cons k2 ks2 =>
        rw [domOfListM] at he
        simp only [List.cons.injEq] at he
        have hk2 : k2.isText = false := by
          rw [chainOk] at hch
          simp only [Bool.and_eq_true] at hch
          cases k2 with
          | text s2 m2 =>
            have hm2 : m2 = [] := by
              have := hnm.2
              simp only [List.all_cons, Bool.and_eq_true] at this
              simpa [Node.marks] using this.1
            subst hm2
            simp [adjOk] at hch
          | leaf => rfl
          | elem => rfl
        exact domOfM_not_text R D k2 hk2 v he.1
    | leaf t a m =>
      obtain ⟨name, attrs, hk, hh, hd⟩ := ser_dom_nodeM R D univ (.leaf t a m) opts pt rfl (by simpa using hnm.1) hun1 hnk hfn.1
      rw [List.map_cons, hh, toDomList, ih, hd, domOfListM]
    | elem t a m kids =>
      obtain ⟨name, attrs, hk, hh, hd⟩ := ser_dom_nodeM R D univ (.elem t a m kids) opts pt rfl (by simpa using hnm.1) hun1 hnk hfn.1
      rw [List.map_cons, hh, toDomList, ih, hd, domOfListM]
end


/-! ### the whole round trip -/

/-- **the walk over the canonical DOM of a document rebuilds the document** -/
theorem parse_canonicalM (R : RParser) (D : ToDom) (doc : Node) (h : rtOk R D doc = true)
    (rootTag : String) : parse R.P rootTag (domOfListM R D doc.kids) = .ok doc := by
  unfold rtOk at h
  simp only [Bool.and_eq_true] at h
  obtain ⟨⟨⟨_, hck⟩, hnorm⟩, hdoc⟩ := h
  cases doc with
  | text s m => cases hdoc
  | leaf t a m => cases hdoc
  | elem t a ms kids =>
    simp only [Bool.and_eq_true, beq_iff_eq, Bool.not_eq_true', List.isEmpty_iff] at hdoc
    obtain ⟨⟨⟨⟨⟨⟨ht, hms⟩, hnl⟩, hat⟩, hko⟩, hlo⟩, hdm⟩ := hdoc
    subst ht hms
    rw [Schema.checkNode] at hck
    simp only [Bool.and_eq_true] at hck
    obtain ⟨⟨hvc, _⟩, hckk⟩ := hck
    unfold Schema.validContent at hvc
    simp only [Bool.and_eq_true] at hvc
    obtain ⟨qe, hrun, hve⟩ := accepts_run _ _ hvc.1
    rw [Node.norm] at hnorm
    have hfn : fnorm kids = true := hnorm
    simp only [Bool.and_eq_true] at hnorm
    have hi0 : Inv R.P.S (walkInit R.P false .unset) [] (NodeCtx.new (some R.P.S.top) none [] [] true {}) [] [] :=
      ⟨rfl, rfl, settles_nil _ _, (fun x hx => by cases hx), (by show 0 < 1; omega)⟩
    have hp0 : Plain R.P.S (NodeCtx.new (some R.P.S.top) none [] [] true {}) R.P.S.top 0 :=
      ⟨rfl, rfl, rfl, (fun m hm => by cases hm), rfl, rfl, rfl⟩
    obtain ⟨w, cx', ext', hall, hi, hp, hrel, _⟩ := walk_kidsM R D kids (walkInit R.P false .unset) [] _ [] [] R.P.S.top 0 qe {} none
      false rootTag hi0 hp0 (.inl rfl) rfl hko hdm hckk hnorm.1 hrun prevOk_init
    simp only [List.nil_append] at hi
    have hflags : flags w.st = flags (PState.init R.P.S false .unset false) := by
      have hrep := addAll_replays R.P (fun _ => true) rootTag (domOfListM R D kids) (PState.init R.P.S false .unset false)
        R.P.S.marks.size (listOk_lax _) w hall
      exact run_flags R.P.S R.P.wsPre _ _ _ hrep.1
    have hio : w.st.isOpen = false := congrArg Prod.fst hflags
    have hto : w.st.topOpen = false := congrArg Prod.snd hflags
    have hce := closeExtra_settles R.P.S { w.st with open_ := 0 } [] cx' kids ext' hi.nodes rfl hi.settles
    have hfin : ({ cx' with content := kids } : NodeCtx).finishNode R.P.S false R.P.S.top = .ok (.elem R.P.S.top a [] kids) := by
      refine finishNode_plain R.P.S ({ cx' with content := kids } : NodeCtx) R.P.S.top qe a hp.mtch hp.ty hve ?_ hp.marks hnl ?_ hfn
      · show computeAttrs _ (cx'.attrs.getD []) = _
        rw [hrel]; exact attrsEq_ok _ _ hat
      · show lastOk cx'.opts kids = true
        rw [hrel]; exact hlo
    unfold parse parseW
    simp only [Node.kids, hall]
    have hce' : ({ w.st with open_ := 0 } : PState).closeExtra R.P.S w.st.isOpen =
        .ok { ({ w.st with open_ := 0 } : PState) with nodes := [] ++ [{ cx' with content := kids }] } := by
      rw [hio]; exact hce
    unfold PState.finish
    simp only [hce', List.nil_append, List.head?_cons, hp.ty]
    have hfin2 := hfin
    simp only [hp.ty] at hfin2
    simp only [hio, hto, Bool.or_self, hfin2, Except.map]


theorem mem_marksOf_kids (t : TypeId) (a : Attrs) (ms : Marks) (kids : List Node) (m : Mark) (h : m ∈ marksOfList kids) :
    m ∈ marksOf (.elem t a ms kids) := by
  rw [marksOf]; exact List.mem_append_right _ h

/-- **export then import is the identity** -/
theorem roundtrip_core (R : RParser) (D : ToDom) (doc : Node) (h : rtOk R D doc = true) : roundTrip R D doc = .ok doc := by
  have h0 := h
  unfold rtOk at h
  simp only [Bool.and_eq_true] at h
  obtain ⟨⟨_, hnorm⟩, hdoc⟩ := h
  cases doc with
  | text s m => cases hdoc
  | leaf t a m => cases hdoc
  | elem t a ms kids =>
    simp only [Bool.and_eq_true] at hdoc
    obtain ⟨⟨⟨_, hko⟩, _⟩, hdm⟩ := hdoc
    rw [Node.norm] at hnorm
    simp only [Bool.and_eq_true] at hnorm
    unfold roundTrip serializeDoc
    simp only [Node.kids]
    rw [serFrag_nomarksM R.P.S D _ kids [] hdm, List.nil_append,
      ser_dom_listM R D _ kids {} t none hdm (fun m hm => mem_marksOf_kids t a ms kids m hm) hko hnorm.1 hnorm.2]
    exact parse_canonicalM R D (.elem t a ms kids) h0 _

end PM.RoundTrip
