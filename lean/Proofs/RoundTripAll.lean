/-
  Proofs/RoundTripAll.lean — the round trip with marks: the emitted forest of a textblock converts to the forest DOM,
  and the document induction with the forest branch.
-/
import Proofs.RoundTripFull
import Proofs.TokCore
namespace PM.RoundTrip
open PM PM.Dom PM.FromDom PM.DomWalk

/-- what the conversion needs to know about an inline child -/
structure LeafSer (R : RParser) (D : ToDom) (n : Node) : Prop where
  leaf : n.isLeaf = true
  text : ∀ s ms, n = .text s ms → unitsOk s = true ∧ s.isEmpty = false
  node : ∀ t a ms, n = .leaf t a ms → ∃ name sattrs, D.node t a = .el name sattrs []
  marks : ∀ m ∈ n.marks, markRule R D m true = true

def isTextLeaf : MTree → Bool
  | .leaf (.text ..) => true
  | _ => false

theorem treeDom_not_text (R : RParser) (D : ToDom) (T : MTree) (h : isTextLeaf T = false) (v : List Nat) :
    treeDom R D T ≠ .text (some v) := by
  cases T with
  | leaf n =>
    rw [treeDom]
    apply domOf_not_text
    cases n <;> simp_all [isTextLeaf, Node.isText]
  | wrap m kids => rw [treeDom]; split <;> simp [elemDom]

theorem htmlOf_text (S : Schema) (D : ToDom) (univ : List Mark) (s : List Nat) (ms : Marks) :
    htmlOf S D univ (.text s ms) = .text (escape (charsOfUnits s)) := by
  simp only [htmlOf, annotate, serNode, renderSpec]

theorem htmlOf_leaf (S : Schema) (D : ToDom) (univ : List Mark) (t : TypeId) (a : Attrs) (ms : Marks) (name : List Char)
    (sattrs : List (List Char × Option (List Char))) (hd : D.node t a = .el name sattrs []) :
    htmlOf S D univ (.leaf t a ms) = .el name (rAttrs sattrs) [] := by
  simp only [htmlOf, annotate, hd, serNode, renderSpec, renderSpecs, rAttrs]

mutual
theorem tree_toDom (R : RParser) (D : ToDom) (univ : List Mark) : ∀ (T : MTree) (p : Marks), treeOk p T = true →
    chainOk (flatT T) = true → (∀ n ∈ flatT T, LeafSer R D n) → isTextLeaf T = false →
    ∃ name attrs hk, treeHtml R.P.S D univ T = .el name attrs hk ∧ toDom R.sel (.el name attrs hk) = treeDom R D T
  | .leaf n, p, _, _, hl, hnt => by
    have hn := hl n (by simp [flatT])
    cases n with
    | text s ms => simp [isTextLeaf] at hnt
    | leaf t a ms =>
      obtain ⟨name, sattrs, hd⟩ := hn.node t a ms rfl
      refine ⟨name, rAttrs sattrs, [], by rw [treeHtml, htmlOf_leaf R.P.S D univ t a ms name sattrs hd], ?_⟩
      simp only [toDom, toDomList, treeDom, domOf, hd, elemDom, renderedAttrs, ite_self, rAttrs]
    | elem t a ms ks => have := hn.leaf; simp [Node.isLeaf] at this
  | .wrap m kids, p, hok, hch, hl, _ => by
    rw [treeOk] at hok
    simp only [Bool.and_eq_true] at hok
    rw [flatT] at hch hl
    obtain ⟨n0, hn0⟩ := hasLeafF_mem kids hok.2
    obtain ⟨b, hb⟩ := leaf_below_forest (p ++ [m]) kids hok.1 n0 hn0
    have hmr := (hl n0 hn0).marks m (by rw [hb]; simp)
    obtain ⟨name, sattrs, r, ra, hd, _, _, _, _, hsc, _⟩ := markRule_spec R D m hmr
    have hms := markSpec_of D m name sattrs hd
    have ih := forest_toDom R D univ kids (p ++ [m]) hok.1 hch hl
    refine ⟨name, rAttrs sattrs, forestHtml R.P.S D univ kids, by rw [treeHtml, hms], ?_⟩
    simp only [toDom, hsc, Bool.false_eq_true, if_false, ih, treeDom, hms, elemDom, renderedAttrs, rAttrs]
theorem forest_toDom (R : RParser) (D : ToDom) (univ : List Mark) : ∀ (F : List MTree) (p : Marks), forestOk p F = true →
    chainOk (flatF F) = true → (∀ n ∈ flatF F, LeafSer R D n) →
    toDomList R.sel (forestHtml R.P.S D univ F) = forestDom R D F
  | [], _, _, _, _ => by simp [forestHtml, toDomList, forestDom]
  | T :: Ts, p, hok, hch, hl => by
    rw [forestOk] at hok
    simp only [Bool.and_eq_true] at hok
    rw [flatF] at hch hl
    have hch' := hch
    rw [chainOk_append] at hch'
    simp only [Bool.and_eq_true] at hch'
    have ih := forest_toDom R D univ Ts p hok.2 hch'.1.2 (fun n hn => hl n (List.mem_append_right _ hn))
    by_cases htl : isTextLeaf T = true
    · cases T with
      | wrap m kids => simp [isTextLeaf] at htl
      | leaf n =>
        cases n with
        | leaf t a ms => simp [isTextLeaf] at htl
        | elem t a ms ks => simp [isTextLeaf] at htl
        | text s ms =>
          obtain ⟨hu, hne⟩ := (hl (.text s ms) (by simp [flatT])).text s ms rfl
          rw [forestHtml, treeHtml, htmlOf_text, toDomList, ih, unitsOk_text s hu, forestDom, treeDom, domOf]
          apply consText_elem s hne
          intro v r he
          cases Ts with
          | nil => simp [forestDom] at he
          | cons T2 Ts2 =>
            rw [forestDom] at he
            simp only [List.cons.injEq] at he
            have hnt2 : isTextLeaf T2 = false := by
              cases T2 with
              | wrap => rfl
              | leaf n2 =>
                cases n2 with
                | leaf => rfl
                | elem => rfl
                | text s2 ms2 =>
                  exfalso
                  have h1 : ms = p := by simpa [treeOk, Node.marks] using hok.1
                  have h2 := hok.2
                  rw [forestOk] at h2
                  simp only [Bool.and_eq_true] at h2
                  have h2' : ms2 = p := by simpa [treeOk, Node.marks] using h2.1
                  simp only [flatT, flatF, List.singleton_append, List.cons_append, List.nil_append] at hch
                  rw [chainOk] at hch
                  simp only [Bool.and_eq_true] at hch
                  simp [adjOk, h1, h2'] at hch
            exact treeDom_not_text R D T2 hnt2 v he.1
    · simp only [Bool.not_eq_true] at htl
      obtain ⟨name, attrs, hk, hh, hd⟩ := tree_toDom R D univ T p hok.1 hch'.1.1 (fun n hn => hl n (List.mem_append_left _ hn)) htl
      rw [forestHtml, hh, toDomList, ih, hd, forestDom]
end

end PM.RoundTrip
