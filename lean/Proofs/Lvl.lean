/-
  Proofs/Lvl.lean — a nested level of a child list (`Lvl`): the child list `L` of a node nested `nd` levels
  deep in `K`, with the context `ctx` that puts a replacement of `L` back in place; `outer` descends to
  such a level (`Lvl.outer`).  (Moved out of Proofs/FlatReplace.lean so that Props/C17.lean can use it
  without the merge lemmas.)  The few lemmas under `PM.Flat` restate lemmas of Proofs/UndoReplace.lean.
-/
import PM.Step
import Proofs.Reinsert
namespace PM

namespace Flat

/-- with no levels left above the slice `outer` never descends -/
theorem outer_extra_zero (S : Schema) (sl : Slice) : ∀ (rest : List Node) (ty : TypeId)
    (level : List Node) (f0 t0 idx f t : Nat),
    outer S sl ty level f0 t0 idx rest f t 0 = atLevel S sl ty level f0 t0 0
  | [], ty, level, f0, t0, idx, f, t => by unfold outer; rfl
  | n :: ns, ty, level, f0, t0, idx, f, t => by
    unfold outer
    split
    · rfl
    · split
      · exact outer_extra_zero S sl ns ty level f0 t0 (idx + 1) _ _
      · split
        · simp
        · rfl

/-- the scan skips children that end at or before `f` -/
theorem outer_scan_pre (S : Schema) (sl : Slice) (ty : TypeId) (L : List Node) (f0 t0 e : Nat) :
    ∀ (pre rest : List Node) (idx f t : Nat), fnormKids pre = true → (pre ≠ [] → f ≠ 0) →
    outer S sl ty L f0 t0 idx (pre ++ rest) (fsize pre + f) (fsize pre + t) e
      = outer S sl ty L f0 t0 (idx + pre.length) rest f t e
  | [], rest, idx, f, t, _, _ => by simp
  | p :: ps, rest, idx, f, t, hn, hf => by
    simp only [fnormKids_cons, Bool.and_eq_true] at hn
    have hpos := Node.size_pos_of_norm p hn.1
    have hf0 := hf (by simp)
    rw [List.cons_append]
    conv => lhs; unfold outer
    rw [if_neg (by simp; omega), if_pos (by simp; omega)]
    have e1 : fsize (p :: ps) + f - p.size = fsize ps + f := by simp; omega
    have e2 : fsize (p :: ps) + t - p.size = fsize ps + t := by simp; omega
    rw [e1, e2, outer_scan_pre S sl ty L f0 t0 e ps rest (idx + 1) f t hn.2 (fun _ => hf0)]
    congr 1
    simp; omega

theorem splitRight_flat_of_depth (R : List Node) (t : Nat) (ht : t ≤ fsize R)
    (ha : alignedAt R t = true) (hd : depthAt R t = 0) :
    ∃ rest, splitRight R t = some (.flat rest) := by
  obtain ⟨rs, hrs⟩ := splitRight_total R t ht ha
  cases rs with
  | flat rest => exact ⟨rest, hrs⟩
  | deep c i r =>
    obtain ⟨_, _, _, _, _, h2, _, _⟩ := splitRight_deep_facts R t c i r hrs
    omega

theorem twoWay_flat (S : Schema) : ∀ (L : List Node) (f : Nat) (R : List Node) (t : Nat),
    f ≤ fsize L → alignedAt L f = true → depthAt L f = 0 →
    (∃ rest, splitRight R t = some (.flat rest)) → ∃ X, twoWay S L f R t = .ok X
  | [], f, R, t, hf, _, _, ⟨rest, hs⟩ => by
    have : f = 0 := by simpa using hf
    subst this
    unfold twoWay; rw [hs]; simp
  | n :: ns, f, R, t, hf, ha, hd, ⟨rest, hs⟩ => by
    by_cases hf0 : f = 0
    · subst hf0
      unfold twoWay; rw [hs]; simp
    by_cases hle : n.size ≤ f
    · rw [alignedAt_skip n ns f hle] at ha
      rw [depthAt_skip n ns f hle] at hd
      obtain ⟨r, hr⟩ := twoWay_flat S ns (f - n.size) R t (by simp at hf; omega) ha hd ⟨rest, hs⟩
      unfold twoWay
      rw [if_neg hf0, if_pos hle, hr]
      exact ⟨_, rfl⟩
    cases n with
    | text s m =>
      simp only [Node.size_text, Nat.not_le] at hle
      rw [alignedAt_cons, if_neg hf0, if_neg (by simp; omega)] at ha
      simp only at ha
      unfold twoWay
      rw [if_neg hf0, if_neg (by simp; omega)]
      simp [ha, hs]
    | leaf ty a m => simp at hle; omega
    | elem ty a m kids =>
      simp only [Node.size_elem, Nat.not_le] at hle
      rw [depthAt_elem_cons _ _ _ _ _ _ (by omega) hle] at hd
      omega

end Flat

/-! ### a nested level of a child list -/

/-- `Lvl ty K b nd tyP L ctx`: `L` is the child list of a node of type `tyP` nested `nd` levels deep in
    the child list `K` (of a node of type `ty`); its content starts at offset `b` of `K`; `ctx X` is `K`
    with `L` exchanged for `X`.  (The siblings before each ancestor are in normal form: their sizes are
    positive.) -/
inductive Lvl : TypeId → List Node → Nat → Nat → TypeId → List Node → (List Node → List Node) → Prop
  | here (ty : TypeId) (K : List Node) : Lvl ty K 0 0 ty K id
  | down {tyC tyP : TypeId} {kidsC L : List Node} {b nd : Nat} {ctx : List Node → List Node}
      (ty : TypeId) (pre : List Node) (aC : Attrs) (mC : Marks) (ns : List Node) :
      fnormKids pre = true → Lvl tyC kidsC b nd tyP L ctx →
      Lvl ty (pre ++ .elem tyC aC mC kidsC :: ns) (fsize pre + 1 + b) (nd + 1) tyP L
        (fun X => pre ++ .elem tyC aC mC (ctx X) :: ns)

namespace Lvl
variable {ty tyP : TypeId} {K L : List Node} {b nd : Nat} {ctx : List Node → List Node}

theorem ctx_self (h : Lvl ty K b nd tyP L ctx) : ctx L = K := by
  induction h with
  | here => rfl
  | down ty pre aC mC ns _ _ ih => simp only [ih]

/-- the same place in the list with another level put in -/
theorem replace (h : Lvl ty K b nd tyP L ctx) (X : List Node) : Lvl ty (ctx X) b nd tyP X ctx := by
  induction h with
  | here ty K => exact .here ty X
  | down ty pre aC mC ns hp _ ih => exact .down ty pre aC mC ns hp ih

theorem range (h : Lvl ty K b nd tyP L ctx) : b + fsize L ≤ fsize K := by
  induction h with
  | here => simp
  | down ty pre aC mC ns _ _ ih => rw [fsize_append]; simp; omega

/-- depth and alignment below the level -/
theorem depth (h : Lvl ty K b nd tyP L ctx) (p : Nat) (hp : p ≤ fsize L) :
    depthAt K (b + p) = nd + depthAt L p ∧ alignedAt K (b + p) = alignedAt L p := by
  induction h with
  | here => simp
  | @down tyC tyP kidsC L b nd ctx ty pre aC mC ns _ hl ih =>
    have hr := hl.range
    obtain ⟨h1, h2⟩ := ih hp
    have e : fsize pre + 1 + b + p = fsize pre + (1 + b + p) := by omega
    rw [e, depthAt_append_pre, alignedAt_append_pre,
      depthAt_elem_cons _ _ _ _ _ _ (by omega) (by omega), alignedAt_cons, if_neg (by omega),
      if_neg (by simp; omega)]
    simp only [show 1 + b + p - 1 = b + p by omega]
    exact ⟨by rw [h1]; omega, h2⟩

theorem zero (h : Lvl ty K b 0 tyP L ctx) : b = 0 ∧ L = K := by
  cases h; exact ⟨rfl, rfl⟩

/-- just behind a nested level the depth is one less -/
theorem after (h : Lvl ty K b nd tyP L ctx) (hpos : 0 < nd) :
    b + fsize L + 1 ≤ fsize K ∧ depthAt K (b + fsize L + 1) + 1 = nd := by
  induction h with
  | here ty K => omega
  | @down tyC tyP kidsC L b nd ctx ty pre aC mC ns _ hl ih =>
    have hr := hl.range
    have e2 : fsize pre + 1 + b + fsize L + 1 = fsize pre + (1 + b + fsize L + 1) := by omega
    rw [fsize_append, fsize_cons, Node.size_elem, e2, depthAt_append_pre]
    by_cases hz : nd = 0
    · -- the level is this child's own content: behind it the child ends
      subst hz
      obtain ⟨hb, hL⟩ := hl.zero
      subst hb; subst hL
      refine ⟨by omega, ?_⟩
      rw [depthAt_skip _ _ _ (by simp; omega), Node.size_elem,
        show 1 + 0 + fsize L + 1 - (2 + fsize L) = 0 by omega]
      simp
    · obtain ⟨h1, h2⟩ := ih (by omega)
      refine ⟨by omega, ?_⟩
      rw [depthAt_elem_cons _ _ _ _ _ _ (by omega) (by omega),
        show 1 + b + fsize L + 1 - 1 = b + fsize L + 1 by omega]
      omega

/-- just before a nested level (in front of the open token of its node) the depth is one less -/
theorem before (h : Lvl ty K b nd tyP L ctx) (hpos : 0 < nd) :
    1 ≤ b ∧ depthAt K (b - 1) + 1 = nd := by
  induction h with
  | here ty K => omega
  | @down tyC tyP kidsC L b nd ctx ty pre aC mC ns _ hl ih =>
    have hr := hl.range
    refine ⟨by omega, ?_⟩
    rw [show fsize pre + 1 + b - 1 = fsize pre + b by omega, depthAt_append_pre]
    by_cases hz : nd = 0
    · subst hz
      obtain ⟨hb, _⟩ := hl.zero
      subst hb
      simp
    · obtain ⟨h1, h2⟩ := ih (by omega)
      rw [depthAt_elem_cons _ _ _ _ _ _ (by omega) (by omega)]
      omega

/-- tokens around the level -/
theorem toks (h : Lvl ty K b nd tyP L ctx) :
    ∃ A D : List Tok, A.length = b ∧ ∀ X, ftoks (ctx X) = A ++ ftoks X ++ D := by
  induction h with
  | here => exact ⟨[], [], rfl, fun X => by simp⟩
  | @down tyC tyP kidsC L b nd ctx ty pre aC mC ns _ _ ih =>
    obtain ⟨A, D, hA, hX⟩ := ih
    refine ⟨ftoks pre ++ Tok.op tyC aC mC :: A, D ++ Tok.cl :: ftoks ns, by simp [ftoks_length, hA]; omega, ?_⟩
    intro X
    simp [ftoks_append, hX X]

theorem valid {S : Schema} (h : Lvl ty K b nd tyP L ctx) (hvc : S.validContent ty K = true)
    (hv : S.checkKids K = true) (hn : fnorm K = true) :
    S.validContent tyP L = true ∧ S.checkKids L = true ∧ fnorm L = true := by
  induction h with
  | here => exact ⟨hvc, hv, hn⟩
  | down ty pre aC mC ns _ _ ih =>
    obtain ⟨c1, c2, c3⟩ := child_facts hv hn
    exact ih c1 c2 c3

/-- **a replace whose two ends lie in the level `L`, the first one not strictly inside a child,
    happens in `L`**: `outer` descends to `L` and the result is put back in place -/
theorem outer {S : Schema} (sl : Slice) (h : Lvl ty K b nd tyP L ctx) (fP tP : Nat)
    (hft : fP ≤ tP) (ht : tP ≤ fsize L) :
    PM.outer S sl ty K (b + fP) (b + tP) 0 K (b + fP) (b + tP) nd
      = (atLevel S sl tyP L fP tP 0).map ctx := by
  induction h with
  | here ty K =>
    rw [Flat.outer_extra_zero]
    simp only [Nat.zero_add]
    cases atLevel S sl ty K fP tP 0 <;> rfl
  | @down tyC tyP kidsC L b nd ctx ty pre aC mC ns hp hl ih =>
    have hr := hl.range
    have e1 : fsize pre + 1 + b + fP = fsize pre + (1 + b + fP) := by omega
    have e2 : fsize pre + 1 + b + tP = fsize pre + (1 + b + tP) := by omega
    rw [e1, e2]
    have hsc := Flat.outer_scan_pre S sl ty (pre ++ Node.elem tyC aC mC kidsC :: ns)
      (fsize pre + (1 + b + fP)) (fsize pre + (1 + b + tP)) (nd + 1) pre (Node.elem tyC aC mC kidsC :: ns)
      0 (1 + b + fP) (1 + b + tP) hp (fun _ => by omega)
    rw [hsc]
    conv => lhs; unfold PM.outer
    rw [if_neg (by omega), if_neg (by simp; omega)]
    have hc : (decide (nd + 1 ≠ 0) && decide (1 + b + tP < (Node.elem tyC aC mC kidsC).size)) = true := by
      simp; omega
    simp only [hc, if_true, show 1 + b + fP - 1 = b + fP by omega, show 1 + b + tP - 1 = b + tP by omega,
      Nat.add_sub_cancel, ih ht]
    cases atLevel S sl tyP L fP tP 0 with
    | error e => rfl
    | ok X => simp [Except.map]

end Lvl

/-! ### the level of a position; flat ranges -/

theorem deep_decomp : ∀ (K : List Node) (f : Nat), depthAt K f ≠ 0 →
    ∃ pre tyC aC mC kidsC ns f', K = pre ++ Node.elem tyC aC mC kidsC :: ns ∧ f = fsize pre + f' ∧
      0 < f' ∧ f' < 2 + fsize kidsC
  | [], f, h => by simp [depthAt] at h
  | n :: ns, f, h => by
    rw [depthAt_cons] at h
    split at h
    · exact absurd rfl h
    · rename_i hf0
      split at h
      · rename_i hle
        obtain ⟨pre, tyC, aC, mC, kidsC, ns', f', h1, h2, h3, h4⟩ := deep_decomp ns _ h
        exact ⟨n :: pre, tyC, aC, mC, kidsC, ns', f', by rw [h1]; rfl, by simp; omega, h3, h4⟩
      · rename_i hle
        cases n with
        | text s m => exact absurd rfl h
        | leaf t a m => exact absurd rfl h
        | elem t a m k =>
          simp only [Node.size_elem, Nat.not_le] at hle
          exact ⟨[], t, a, m, k, ns, f, rfl, by simp, by omega, hle⟩

/-- every position has its level: the deepest child list containing it -/
theorem lvl_of_pos : ∀ (d : Nat) (K : List Node) (f : Nat) (ty : TypeId), depthAt K f = d →
    f ≤ fsize K → fnormKids K = true →
    ∃ b nd tyP L ctx fP, Lvl ty K b nd tyP L ctx ∧ f = b + fP ∧ fP ≤ fsize L ∧ depthAt L fP = 0
  | 0, K, f, ty, hd, hf, _ => ⟨0, 0, ty, K, id, f, .here ty K, by omega, hf, hd⟩
  | d + 1, K, f, ty, hd, hf, hn => by
    obtain ⟨pre, tyC, aC, mC, kidsC, ns, f', rfl, rfl, h3, h4⟩ := deep_decomp K f (by omega)
    rw [depthAt_append_pre, depthAt_elem_cons _ _ _ _ _ _ (by omega) h4] at hd
    rw [fnormKids_append] at hn
    simp only [fnormKids_cons, Bool.and_eq_true, Node.norm_elem] at hn
    obtain ⟨b, nd, tyP, L, ctx, fP, hl, e1, e2, e3⟩ :=
      lvl_of_pos d kidsC (f' - 1) tyC (by omega) (by omega) (fnormKids_of_fnorm hn.2.1)
    exact ⟨fsize pre + 1 + b, nd + 1, tyP, L, _, fP, .down ty pre aC mC ns hn.1 hl, by omega, e2, e3⟩


end PM
