/- Proofs/Lvl.lean — kept as an alias: the `Lvl` machinery lives in Proofs/Level.lean -/
import Proofs.Level
