/-
  Proofs/PlacementValid.lean — what `finish` builds is content-valid: lemmas about
  `NodeContext.finish` (trailing-whitespace strip, `Fragment.from_` text merging, `fill_before`,
  `create_and_fill`) for the theorem `placement_finish_valid_partial` of Props/C19.lean.
-/
import Proofs.Placement
namespace PM.FromDom

/-! ### the content clause of `Node.check` -/

mutual
/-- every node of the tree has a child-type sequence its type's content automaton accepts (for a leaf: the
    empty sequence) -/
def contentOk (S : Schema) : Node → Bool
  | .text .. => true
  | .leaf t _ _ => (S.dfa t).accepts []
  | .elem t _ _ kids => (S.dfa t).accepts (S.types kids) && contentOkAll S kids
def contentOkAll (S : Schema) : List Node → Bool
  | [] => true
  | n :: ns => contentOk S n && contentOkAll S ns
end

theorem contentOkAll_iff (S : Schema) : ∀ (l : List Node), contentOkAll S l = true ↔ ∀ n ∈ l, contentOk S n = true
  | [] => by simp [contentOkAll]
  | a :: l => by simp [contentOkAll, contentOkAll_iff S l]

theorem contentOk_withMarks (S : Schema) (n : Node) (m : Marks) : contentOk S (n.withMarks m) = contentOk S n := by
  cases n <;> simp [Node.withMarks, contentOk]

/-- leaf types accept the empty content (`ContentMatch.empty.valid_end`; schema data) -/
def LeafOk (S : Schema) : Prop := ∀ t, (S.nodeType t).isLeaf = true → (S.dfa t).accepts [] = true

theorem leafOk_of_B (S : Schema) (h : leafOkB S = true) : LeafOk S := by
  intro t ht
  by_cases hlt : t < S.nodes.size
  · simp only [leafOkB, List.all_eq_true, List.mem_range, Bool.or_eq_true, Bool.not_eq_eq_eq_not, Bool.not_true] at h
    rcases h t hlt with h | h
    · rw [h] at ht; cases ht
    · exact h
  · have : (S.nodeType t).isLeaf = false := by
      simp only [Schema.nodeType]
      rw [getElem!_neg S.nodes t hlt]
      rfl
    rw [this] at ht; cases ht

theorem contentOk_mkNode (S : Schema) (hleaf : LeafOk S) (t : TypeId) (a : Attrs) (m : Marks) (kids : List Node)
    (h1 : (S.dfa t).accepts (S.types kids) = true) (h2 : ∀ n ∈ kids, contentOk S n = true) :
    contentOk S (mkNode S t a m kids) = true := by
  unfold mkNode
  split
  · rename_i hl
    exact hleaf t hl
  · simp [contentOk, h1, (contentOkAll_iff S kids).mpr h2]

def notText : Node → Prop
  | .text .. => False
  | _ => True

theorem mem_of_mem_dropLast {α : Type} {l : List α} {a : α} (h : a ∈ l.dropLast) : a ∈ l :=
  (List.dropLast_sublist l).subset h

theorem mkNode_notText (S : Schema) (t : TypeId) (a : Attrs) (m : Marks) (kids : List Node) :
    notText (mkNode S t a m kids) := by
  unfold mkNode
  split <;> trivial

/-! ### states that accept the same continuations -/

/-- same outgoing edges, same acceptance -/
def StEq (d : Dfa) (a b : Nat) : Prop := d.edgesOf a = d.edgesOf b ∧ d.validEnd a = d.validEnd b

theorem StEq.refl' (d : Dfa) (a : Nat) : StEq d a a := ⟨rfl, rfl⟩
theorem StEq.symm {d : Dfa} {a b : Nat} (h : StEq d a b) : StEq d b a := ⟨h.1.symm, h.2.symm⟩
theorem StEq.trans {d : Dfa} {a b c : Nat} (h1 : StEq d a b) (h2 : StEq d b c) : StEq d a c :=
  ⟨h1.1.trans h2.1, h1.2.trans h2.2⟩

theorem StEq.matchType {d : Dfa} {a b : Nat} (h : StEq d a b) (t : TypeId) : d.matchType a t = d.matchType b t := by
  unfold Dfa.matchType
  rw [h.1]

/-- reading a text node leads to a state with the same continuations as the state before (true of
    `inline*`, `text*`, `(text | image)*` …, whose automata loop; false when a text is *required*) -/
def TextStable (S : Schema) : Prop :=
  ∀ t q q', (S.dfa t).matchType q S.textTy = some q' → StEq (S.dfa t) q' q

theorem textStable_of_B (S : Schema) (h : textStableB S = true) : TextStable S := by
  intro t q q' hm
  by_cases hq : q < (S.dfa t).size
  · by_cases ht : t < S.nodes.size
    · simp only [textStableB, List.all_eq_true, List.mem_range] at h
      have := h t ht q hq
      simp only [hm, Bool.and_eq_true, decide_eq_true_eq, beq_iff_eq] at this
      exact this
    · have : (S.dfa t).size = 0 := by
        simp only [Schema.dfa, Schema.nodeType]
        rw [getElem!_neg S.nodes t ht]
        rfl
      omega
  · have : (S.dfa t).edgesOf q = [] := by
      simp only [Dfa.edgesOf]
      rw [Array.getElem?_eq_none (by omega)]
    simp [Dfa.matchType, this] at hm

/-! ### induction from the end of a list -/

theorem snoc_induction {α : Type} {P : List α → Prop} (h0 : P []) (hs : ∀ l x, P l → P (l ++ [x])) :
    ∀ l, P l := by
  intro l
  rw [← List.reverse_reverse l]
  induction l.reverse with
  | nil => simpa using h0
  | cons a r ih => simpa using hs _ a ih

theorem run_snoc (d : Dfa) (q : Nat) (ts : List TypeId) (t : TypeId) (q' : Nat)
    (h : d.run q (ts ++ [t]) = some q') : ∃ qm, d.run q ts = some qm ∧ d.matchType qm t = some q' := by
  rw [Dfa.run_append] at h
  cases hr : d.run q ts with
  | none => simp [hr] at h
  | some qm =>
    refine ⟨qm, rfl, ?_⟩
    simp only [hr, Option.bind_some, Dfa.run] at h
    cases hm : d.matchType qm t with
    | none => simp [hm] at h
    | some x => simpa [hm] using h

theorem run_snoc_eq (d : Dfa) (q : Nat) (ts : List TypeId) (t : TypeId) (qm : Nat)
    (h : d.run q ts = some qm) : d.run q (ts ++ [t]) = d.matchType qm t := by
  rw [Dfa.run_append, h]
  simp only [Option.bind_some, Dfa.run]
  cases d.matchType qm t <;> rfl

/-! ### the trailing-whitespace strip -/

theorem tyOf_text (S : Schema) (s : List Nat) (m : Marks) : S.tyOf (.text s m) = S.textTy := rfl

theorem stripLast_run (S : Schema) (hts : TextStable S) (t : TypeId) (l : List Node) (q : Nat)
    (h : (S.dfa t).run 0 (S.types l) = some q) :
    ∃ q2, (S.dfa t).run 0 (S.types (stripLast l)) = some q2 ∧ StEq (S.dfa t) q2 q := by
  unfold stripLast
  cases hl : l.getLast? with
  | none => exact ⟨q, h, StEq.refl' _ _⟩
  | some x =>
    cases x with
    | leaf => exact ⟨q, h, StEq.refl' _ _⟩
    | elem => exact ⟨q, h, StEq.refl' _ _⟩
    | text s m =>
      dsimp only
      have hsplit := eq_dropLast_append_getLast l _ hl
      split
      · exact ⟨q, h, StEq.refl' _ _⟩
      · rw [hsplit, types_append] at h
        simp only [Schema.types, List.map_cons, List.map_nil, tyOf_text] at h
        obtain ⟨qm, h1, h2⟩ := run_snoc _ _ _ _ _ h
        split
        · exact ⟨qm, by simpa [Schema.types] using h1, (hts t qm q h2).symm⟩
        · refine ⟨q, ?_, StEq.refl' _ _⟩
          rw [types_append]
          simp only [Schema.types, List.map_cons, List.map_nil, tyOf_text]
          rw [run_snoc_eq _ _ _ _ _ h1, h2]

theorem mem_stripLast (l : List Node) (n : Node) (h : n ∈ stripLast l) : n.isText = true ∨ n ∈ l := by
  unfold stripLast at h
  cases hl : l.getLast? with
  | none => right; simpa [hl] using h
  | some x =>
    cases x with
    | leaf => right; simpa [hl] using h
    | elem => right; simpa [hl] using h
    | text s m =>
      simp only [hl] at h
      split at h
      · right; exact h
      · split at h
        · right; exact mem_of_mem_dropLast h
        · rcases List.mem_append.mp h with h | h
          · right; exact mem_of_mem_dropLast h
          · simp only [List.mem_singleton] at h
            left; subst h; rfl

/-! ### `Fragment.from_`: merging adjacent text nodes -/

/-- the marks of the last node if it is a text node -/
def lastText (l : List Node) : Option Marks :=
  match l.getLast? with
  | some (.text _ m) => some m
  | _ => none

theorem lastText_snoc (l : List Node) (x : Node) :
    lastText (l ++ [x]) = (match x with | .text _ m => some m | _ => none) := by
  unfold lastText
  simp only [List.getLast?_append, List.getLast?_singleton, Option.some_or]
  cases x <;> rfl

theorem fromArray_snoc (l : List Node) (x : Node) : fromArray (l ++ [x]) = addNode (fromArray l) x := by
  simp [fromArray, addNodes, List.foldl_append]

theorem lastText_some (l : List Node) (m : Marks) (h : lastText l = some m) : ∃ s, l = l.dropLast ++ [.text s m] := by
  unfold lastText at h
  cases hl : l.getLast? with
  | none => simp [hl] at h
  | some x =>
    cases x with
    | leaf => simp [hl] at h
    | elem => simp [hl] at h
    | text s m' =>
      simp only [hl, Option.some.injEq] at h
      subst h
      exact ⟨s, eq_dropLast_append_getLast l _ hl⟩

/-- the state after a text node absorbs further text nodes -/
theorem text_loop (S : Schema) (hts : TextStable S) (t : TypeId) (l : List Node) (m : Marks) (q : Nat)
    (hl : lastText l = some m) (h : (S.dfa t).run 0 (S.types l) = some q) :
    (S.dfa t).matchType q S.textTy = some q := by
  obtain ⟨s, hs⟩ := lastText_some l m hl
  rw [hs, types_append] at h
  simp only [Schema.types, List.map_cons, List.map_nil, tyOf_text] at h
  obtain ⟨qm, h1, h2⟩ := run_snoc _ _ _ _ _ h
  rw [(hts t qm q h2).matchType, h2]

theorem fromArray_run (S : Schema) (hts : TextStable S) (t : TypeId) : ∀ (l : List Node) (q : Nat),
    (S.dfa t).run 0 (S.types l) = some q →
    (∃ q2, (S.dfa t).run 0 (S.types (fromArray l)) = some q2 ∧ StEq (S.dfa t) q2 q) ∧
      lastText (fromArray l) = lastText l := by
  intro l
  induction l using snoc_induction with
  | h0 =>
    intro q h
    exact ⟨⟨q, by simpa [fromArray, addNodes] using h, StEq.refl' _ _⟩, by simp [fromArray, addNodes]⟩
  | hs l x ih =>
    intro q h
    rw [types_append] at h
    simp only [Schema.types, List.map_cons, List.map_nil] at h
    obtain ⟨ql, h1, h2⟩ := run_snoc _ _ _ _ _ h
    obtain ⟨⟨q2l, r1, r2⟩, r3⟩ := ih ql (by simpa [Schema.types] using h1)
    rw [fromArray_snoc]
    have hplain : (∃ q2, (S.dfa t).run 0 (S.types (fromArray l ++ [x])) = some q2 ∧ StEq (S.dfa t) q2 q) ∧
        lastText (fromArray l ++ [x]) = lastText (l ++ [x]) := by
      refine ⟨⟨q, ?_, StEq.refl' _ _⟩, by rw [lastText_snoc, lastText_snoc]⟩
      rw [types_append]
      simp only [Schema.types, List.map_cons, List.map_nil]
      rw [run_snoc_eq _ _ _ _ _ (by simpa [Schema.types] using r1), r2.matchType, h2]
    unfold addNode
    cases hgl : (fromArray l).getLast? with
    | none => simpa using hplain
    | some y =>
      cases y with
      | leaf => cases x <;> simpa using hplain
      | elem => cases x <;> simpa using hplain
      | text s m =>
        cases x with
        | leaf => simpa using hplain
        | elem => simpa using hplain
        | text s' m' =>
          dsimp only
          split
          · rename_i hmm
            subst hmm
            have hsplit := eq_dropLast_append_getLast (fromArray l) _ hgl
            have hlt : lastText l = some m := by
              rw [← r3]; unfold lastText; rw [hgl]
            have hloop := text_loop S hts t l m ql hlt (by simpa [Schema.types] using h1)
            simp only [tyOf_text] at h2
            have hq : q = ql := by rw [hloop] at h2; exact (Option.some.inj h2).symm
            subst hq
            refine ⟨⟨q2l, ?_, r2⟩, by rw [lastText_snoc, lastText_snoc]⟩
            rw [hsplit, types_append] at r1
            rw [types_append]
            simpa [Schema.types, tyOf_text] using r1
          · exact hplain

theorem mem_addNode (acc : List Node) (x n : Node) (h : n ∈ addNode acc x) : n.isText = true ∨ n ∈ acc ∨ n = x := by
  unfold addNode at h
  split at h
  · split at h
    · rcases List.mem_append.mp h with h | h
      · right; left; exact mem_of_mem_dropLast h
      · simp only [List.mem_singleton] at h
        left; subst h; rfl
    · rcases List.mem_append.mp h with h | h
      · right; left; exact h
      · right; right; simpa using h
  · rcases List.mem_append.mp h with h | h
    · right; left; exact h
    · right; right; simpa using h

theorem mem_fromArray : ∀ (l : List Node) (n : Node), n ∈ fromArray l → n.isText = true ∨ n ∈ l := by
  intro l
  induction l using snoc_induction with
  | h0 => intro n h; simp [fromArray, addNodes] at h
  | hs l x ih =>
    intro n h
    rw [fromArray_snoc] at h
    rcases mem_addNode _ _ _ h with h | h | h
    · left; exact h
    · rcases ih n h with h | h
      · left; exact h
      · right; simp [h]
    · right; simp [h]

/-! ### fillers -/

theorem mapRes_types (S : Schema) (f : TypeId → Res Node) (hf : ∀ a b, f a = .ok b → S.tyOf b = a) :
    ∀ (l : List TypeId) (r : List Node), mapRes f l = .ok r → S.types r = l
  | [], r, h => by simp only [mapRes, Except.ok.injEq] at h; subst h; rfl
  | a :: l, r, h => by
    unfold mapRes at h
    cases h1 : f a with
    | error e => simp [h1] at h
    | ok b =>
      simp only [h1] at h
      cases h2 : mapRes f l with
      | error e => simp [h2] at h
      | ok bs =>
        simp only [h2, Except.ok.injEq] at h
        subst h
        simp [Schema.types, hf a b h1, ← mapRes_types S f hf l bs h2]

theorem mapRes_all {α β : Type} (f : α → Res β) (p : β → Prop) (hf : ∀ a b, f a = .ok b → p b) :
    ∀ (l : List α) (r : List β), mapRes f l = .ok r → ∀ b ∈ r, p b
  | [], r, h => by simp only [mapRes, Except.ok.injEq] at h; subst h; simp
  | a :: l, r, h => by
    unfold mapRes at h
    cases h1 : f a with
    | error e => simp [h1] at h
    | ok b =>
      simp only [h1] at h
      cases h2 : mapRes f l with
      | error e => simp [h2] at h
      | ok bs =>
        simp only [h2, Except.ok.injEq] at h
        subst h
        intro x hx
        rcases List.mem_cons.mp hx with rfl | hx
        · exact hf a _ h1
        · exact mapRes_all f p hf l bs h2 x hx

/-- a filling to the end, read as a run of the automaton -/
theorem fill_toEnd_run (d : Dfa) (hdet : ∀ q, ((d.edgesOf q).map (·.1)).Nodup) (gen : TypeId → Bool) (q : Nat)
    (tys : List TypeId) (h : fillBefore d gen q [] true = some tys) :
    ∃ f, d.run q tys = some f ∧ d.validEnd f = true := by
  have := fillBefore_sound_aux d gen q [] true hdet tys h
  simp only [isFill, List.append_nil, Bool.and_eq_true] at this
  cases hr : d.run q tys with
  | none => simp [hr] at this
  | some f => exact ⟨f, rfl, by simpa [hr] using this.2⟩

theorem createAndFill_valid (S : Schema) (hdet : Det S) (hleaf : LeafOk S) : ∀ (fuel : Nat) (t : TypeId) (n : Node),
    createAndFill S fuel t = .ok n → S.tyOf n = t ∧ contentOk S n = true ∧ notText n
  | 0, t, n, h => by simp [createAndFill] at h
  | fuel + 1, t, n, h => by
    unfold createAndFill at h
    split at h
    · cases h
    · split at h
      · cases h
      · rename_i tys hfb
        split at h
        · cases h
        · rename_i kids hk
          simp only [Except.ok.injEq] at h
          subst h
          have ih := createAndFill_valid S hdet hleaf fuel
          refine ⟨tyOf_mkNode .., ?_, mkNode_notText ..⟩
          apply contentOk_mkNode S hleaf
          · rw [mapRes_types S _ (fun a b hb => (ih a b hb).1) tys kids hk]
            obtain ⟨f, hf1, hf2⟩ := fill_toEnd_run (S.dfa t) (hdet t) _ 0 tys hfb
            simp [Dfa.accepts, hf1, hf2]
          · exact mapRes_all _ (fun b => contentOk S b = true) (fun a b hb => (ih a b hb).2.1) tys kids hk

theorem createAndFill_notText (S : Schema) : ∀ (fuel : Nat) (t : TypeId) (n : Node),
    createAndFill S fuel t = .ok n → notText n
  | 0, t, n, h => by simp [createAndFill] at h
  | fuel + 1, t, n, h => by
    unfold createAndFill at h
    split at h
    · cases h
    · split at h
      · cases h
      · split at h
        · cases h
        · simp only [Except.ok.injEq] at h
          subst h
          exact mkNode_notText ..

theorem fappend_notText (a b : List Node) (hb : ∀ n ∈ b, notText n) : fappend a b = a ++ b := by
  unfold fappend
  cases b with
  | nil => simp
  | cons c rest =>
    dsimp only
    split
    · rename_i he
      simp at he
      simp [he]
    · have hc := hb c (by simp)
      have : addNode a c = a ++ [c] := by
        unfold addNode
        cases c with
        | text => exact absurd hc (by simp [notText])
        | leaf =>
          cases a.getLast? with
          | none => rfl
          | some y => cases y <;> rfl
        | elem =>
          cases a.getLast? with
          | none => rfl
          | some y => cases y <;> rfl
      rw [this]; simp

/-! ### `NodeContext.finish` builds a content-valid node -/

theorem finishOk_contentOk (S : Schema) (hdet : Det S) (hts : TextStable S) (hleaf : LeafOk S) :
    FinishOk S (fun n => contentOk S n = true) false := by
  intro cx t n hok hty hfin
  obtain ⟨_, hP, t', q, e1, e2, e3⟩ := hok
  rw [hty] at e1; cases e1
  simp only [Option.toList, List.append_nil] at e3
  unfold NodeCtx.finishNode at hfin
  cases hfc : cx.finishContent S false with
  | error e => simp [hfc] at hfin
  | ok content =>
    simp only [hfc] at hfin
    split at hfin
    · cases hfin
    · simp only [Except.ok.injEq] at hfin
      subst hfin
      unfold NodeCtx.finishContent at hfc
      simp only [e2, hty] at hfc
      cases hfill : fillNodes S (S.dfa t) q [] true with
      | error e => simp [hfill] at hfc
      | ok fillo =>
        simp only [hfill] at hfc
        cases fillo with
        | none => simp at hfc
        | some fill =>
          simp only [Except.ok.injEq] at hfc
          -- the fillers
          unfold fillNodes at hfill
          cases hfb : fillBefore (S.dfa t) S.generatable q [] true with
          | none => simp [hfb] at hfill
          | some tys =>
            simp only [hfb] at hfill
            cases hmr : mapRes (createAndFill S (S.nodes.size + 1)) tys with
            | error e => simp [hmr, Except.map] at hfill
            | ok fl =>
              simp only [hmr, Except.map, Except.ok.injEq, Option.some.injEq] at hfill
              subst hfill
              have hcf := createAndFill_valid S hdet hleaf (S.nodes.size + 1)
              have hftys := mapRes_types S _ (fun a b hb => (hcf a b hb).1) tys fl hmr
              have hfok := mapRes_all _ (fun b => contentOk S b = true) (fun a b hb => (hcf a b hb).2.1) tys fl hmr
              have hfnt := mapRes_all _ (fun b => notText b) (fun a b hb => (hcf a b hb).2.2) tys fl hmr
              rw [fappend_notText _ _ hfnt] at hfc
              subst hfc
              obtain ⟨f, hf1, hf2⟩ := fill_toEnd_run (S.dfa t) (hdet t) _ q tys hfb
              -- the kept content, stripped and merged
              have hkept : ∃ q2, (S.dfa t).run 0 (S.types (fromArray (if cx.opts.preserveWs = true then cx.content
                  else stripLast cx.content))) = some q2 ∧ StEq (S.dfa t) q2 q := by
                split
                · exact (fromArray_run S hts t _ q e3).1
                · obtain ⟨q1, s1, s2⟩ := stripLast_run S hts t cx.content q e3
                  obtain ⟨q2, s3, s4⟩ := (fromArray_run S hts t _ q1 s1).1
                  exact ⟨q2, s3, s4.trans s2⟩
              obtain ⟨q2, k1, k2⟩ := hkept
              apply contentOk_mkNode S hleaf
              · rw [types_append, hftys]
                simp only [Dfa.accepts]
                rw [Dfa.run_append, k1]
                simp only [Option.bind_some]
                cases tys with
                | nil =>
                  simp only [Dfa.run, Option.some.injEq] at hf1
                  subst hf1
                  simp [Dfa.run, k2.2, hf2]
                | cons a r =>
                  simp only [Dfa.run] at hf1 ⊢
                  rw [k2.matchType, hf1]
                  exact hf2
              · intro x hx
                rcases List.mem_append.mp hx with hx | hx
                · rcases mem_fromArray _ _ hx with hx | hx
                  · cases x <;> simp_all [contentOk, Node.isText]
                  · split at hx
                    · exact hP x hx
                    · rcases mem_stripLast _ _ hx with hx | hx
                      · cases x <;> simp_all [contentOk, Node.isText]
                      · exact hP x hx
                · exact hfok x hx

/-! ### `is_open` and `options.top_open` never change -/

def flags (st : PState) : Bool × Bool := (st.isOpen, st.topOpen)

theorem closeExtra_flags (S : Schema) (st st' : PState) (oe : Bool) (h : st.closeExtra S oe = .ok st') :
    flags st' = flags st := by
  unfold PState.closeExtra at h
  cases hl : closeExtraLoop S oe (st.nodes.length - 1 - st.open_) st.nodes with
  | error e => simp [hl, Except.map] at h
  | ok ns =>
    simp only [hl, Except.map, Except.ok.injEq] at h
    subst h; rfl

theorem enterInner_flags (S : Schema) (wsPre : TypeId → Bool) (st st' : PState) (ty : TypeId) (attrs : Option Attrs)
    (solid : Bool) (pw : WS) (h : st.enterInner S wsPre ty attrs solid pw = .ok st') : flags st' = flags st := by
  unfold PState.enterInner at h
  cases hce : st.closeExtra S with
  | error e => simp [hce] at h
  | ok st1 =>
    simp only [hce] at h
    have := closeExtra_flags S st st1 false hce
    cases htop : st1.nodes[st1.open_]? with
    | none => simp [htop] at h
    | some top =>
      simp only [htop, Except.ok.injEq] at h
      subst h
      simpa [flags, PState.setTop] using this

theorem enterRoute_flags (S : Schema) (wsPre : TypeId → Bool) : ∀ (route : List TypeId) (st st' : PState),
    enterRoute S wsPre route st = .ok st' → flags st' = flags st
  | [], st, st', h => by simp only [enterRoute, Except.ok.injEq] at h; subst h; rfl
  | w :: rest, st, st', h => by
    unfold enterRoute at h
    cases he : st.enterInner S wsPre w none false .unset with
    | error e => simp [he] at h
    | ok st1 =>
      simp only [he] at h
      rw [enterRoute_flags S wsPre rest st1 st' h, enterInner_flags S wsPre st st1 _ _ _ _ he]

theorem findPlace_flags (S : Schema) (wsPre : TypeId → Bool) (st st' : PState) (ty : TypeId) (b : Bool)
    (h : st.findPlace S wsPre ty = .ok (st', b)) : flags st' = flags st := by
  unfold PState.findPlace at h
  cases hl : findPlaceLoop S ty (st.open_ + 1) st.nodes none none with
  | error e => simp [hl] at h
  | ok res =>
    obtain ⟨nodes', route', sync'⟩ := res
    simp only [hl] at h
    cases route' with
    | none =>
      simp only [Except.ok.injEq, Prod.mk.injEq] at h
      obtain ⟨rfl, _⟩ := h; rfl
    | some route =>
      cases sync' with
      | none =>
        simp only at h
        cases he : enterRoute S wsPre route { st with nodes := nodes' } with
        | error e => simp [he, Except.map] at h
        | ok st2 =>
          simp only [he, Except.map, Except.ok.injEq, Prod.mk.injEq] at h
          obtain ⟨rfl, _⟩ := h
          rw [enterRoute_flags S wsPre route _ _ he]; rfl
      | some d =>
        simp only at h
        cases he : enterRoute S wsPre route { ({ st with nodes := nodes' } : PState) with open_ := d } with
        | error e => simp [he, Except.map] at h
        | ok st2 =>
          simp only [he, Except.map, Except.ok.injEq, Prod.mk.injEq] at h
          obtain ⟨rfl, _⟩ := h
          rw [enterRoute_flags S wsPre route _ _ he]; rfl

theorem insertNode_flags (S : Schema) (wsPre : TypeId → Bool) (st st' : PState) (node : Node) (b : Bool)
    (h : st.insertNode S wsPre node = .ok (st', b)) : flags st' = flags st := by
  unfold PState.insertNode at h
  dsimp only at h
  split at h
  · cases h
  · rename_i stp hp
    have hfp : flags stp = flags st := by
      split at hp
      · split at hp
        · exact enterInner_flags S wsPre st stp _ _ _ _ hp
        · simp only [Except.ok.injEq] at hp; subst hp; rfl
      · simp only [Except.ok.injEq] at hp; subst hp; rfl
    cases hf : stp.findPlace S wsPre (S.tyOf node) with
    | error e => simp [hf] at h
    | ok res =>
      obtain ⟨st2, b2⟩ := res
      have h2 := findPlace_flags S wsPre stp st2 _ b2 hf
      cases b2 with
      | false =>
        simp only [hf, Except.ok.injEq, Prod.mk.injEq] at h
        obtain ⟨rfl, _⟩ := h
        exact h2.trans hfp
      | true =>
        simp only [hf] at h
        cases hce : st2.closeExtra S with
        | error e => simp [hce] at h
        | ok st3 =>
          simp only [hce] at h
          have h3 := closeExtra_flags S st2 st3 false hce
          cases htop : st3.nodes[st3.open_]? with
          | none => simp [htop] at h
          | some top =>
            simp only [htop, Except.ok.injEq, Prod.mk.injEq] at h
            obtain ⟨rfl, _⟩ := h
            exact (show flags (st3.setTop _) = flags st3 from rfl).trans (h3.trans (h2.trans hfp))

theorem enter_flags (S : Schema) (wsPre : TypeId → Bool) (st st' : PState) (ty : TypeId) (attrs : Option Attrs)
    (pw : WS) (b : Bool) (h : st.enter S wsPre ty attrs pw = .ok (st', b)) : flags st' = flags st := by
  unfold PState.enter at h
  split at h
  · cases h
  · cases hf : st.findPlace S wsPre ty with
    | error e => simp [hf] at h
    | ok res =>
      obtain ⟨st2, b2⟩ := res
      have h2 := findPlace_flags S wsPre st st2 _ b2 hf
      cases b2 with
      | false =>
        simp only [hf, Except.ok.injEq, Prod.mk.injEq] at h
        obtain ⟨rfl, _⟩ := h
        exact h2
      | true =>
        simp only [hf] at h
        cases he : st2.enterInner S wsPre ty attrs true pw with
        | error e => simp [he, Except.map] at h
        | ok st3 =>
          simp only [he, Except.map, Except.ok.injEq, Prod.mk.injEq] at h
          obtain ⟨rfl, _⟩ := h
          exact (enterInner_flags S wsPre st2 st3 _ _ _ _ he).trans h2

theorem step_flags (S : Schema) (wsPre : TypeId → Bool) (st st' : PState) (e : Event) (r : Option Bool)
    (h : st.step S wsPre e = .ok (st', r)) : flags st' = flags st := by
  cases e with
  | insertNode n =>
    simp only [PState.step] at h
    cases hi : st.insertNode S wsPre n with
    | error e => simp [hi, Except.map] at h
    | ok res =>
      simp only [hi, Except.map, Except.ok.injEq, Prod.mk.injEq] at h
      obtain ⟨rfl, _⟩ := h
      exact insertNode_flags S wsPre st res.1 n res.2 hi
  | enter ty attrs pw =>
    simp only [PState.step] at h
    cases hi : st.enter S wsPre ty attrs pw with
    | error e => simp [hi, Except.map] at h
    | ok res =>
      simp only [hi, Except.map, Except.ok.injEq, Prod.mk.injEq] at h
      obtain ⟨rfl, _⟩ := h
      exact enter_flags S wsPre st res.1 ty attrs pw res.2 hi
  | findPlace n =>
    simp only [PState.step] at h
    cases hi : st.findPlace S wsPre (S.tyOf n) with
    | error e => simp [hi, Except.map] at h
    | ok res =>
      simp only [hi, Except.map, Except.ok.injEq, Prod.mk.injEq] at h
      obtain ⟨rfl, _⟩ := h
      exact findPlace_flags S wsPre st res.1 _ res.2 hi
  | addPending m =>
    simp only [PState.step, PState.addPendingMark] at h
    cases htop : st.nodes[st.open_]? with
    | none => simp [htop, Except.map] at h
    | some top =>
      simp only [htop, Except.map, Except.ok.injEq, Prod.mk.injEq] at h
      obtain ⟨rfl, _⟩ := h; rfl
  | removePending m upto =>
    simp only [PState.step, PState.removePendingMark] at h
    cases hl : removePendingLoop S m upto (st.open_ + 1) st.nodes with
    | error e => simp [hl, Except.map] at h
    | ok ns =>
      simp only [hl, Except.map, Except.ok.injEq, Prod.mk.injEq] at h
      obtain ⟨rfl, _⟩ := h; rfl
  | sync to =>
    simp only [PState.step, PState.sync, Except.ok.injEq, Prod.mk.injEq] at h
    obtain ⟨rfl, _⟩ := h
    cases to with
    | none => rfl
    | some k => dsimp only; split <;> rfl
  | setOpen v =>
    simp only [PState.step, Except.ok.injEq, Prod.mk.injEq] at h
    obtain ⟨rfl, _⟩ := h; rfl
  | setNeedsBlock b =>
    simp only [PState.step, Except.ok.injEq, Prod.mk.injEq] at h
    obtain ⟨rfl, _⟩ := h; rfl
  | closeExtra oe =>
    simp only [PState.step] at h
    cases hi : st.closeExtra S oe with
    | error e => simp [hi, Except.map] at h
    | ok res =>
      simp only [hi, Except.map, Except.ok.injEq, Prod.mk.injEq] at h
      obtain ⟨rfl, _⟩ := h
      exact closeExtra_flags S st res oe hi

theorem run_flags (S : Schema) (wsPre : TypeId → Bool) : ∀ (events : List Event) (st st' : PState),
    PState.run S wsPre st events = .ok st' → flags st' = flags st
  | [], st, st', h => by simp only [PState.run, Except.ok.injEq] at h; subst h; rfl
  | e :: es, st, st', h => by
    unfold PState.run at h
    cases hs : st.step S wsPre e with
    | error err => simp [hs] at h
    | ok res =>
      simp only [hs] at h
      rw [run_flags S wsPre es res.1 st' h, step_flags S wsPre st res.1 e res.2 hs]

/-! ### the finished document -/

theorem finish_valid (S : Schema) (hdet : Det S) (hts : TextStable S) (hleaf : LeafOk S) (st : PState) (doc : Node) (rest : List Node)
    (hc : Coh S (fun n => contentOk S n = true) st.nodes) (hf : flags st = (false, false))
    (h : st.finish S = .ok (some doc, rest)) : contentOk S doc = true := by
  have hfo := finishOk_contentOk S hdet hts hleaf
  obtain ⟨nodes, o, nb, io, to, fr⟩ := st
  simp only [flags, Prod.mk.injEq] at hf
  obtain ⟨rfl, rfl⟩ := hf
  unfold PState.finish at h
  simp only at h hc
  cases hce : ({ nodes := nodes, open_ := 0, needsBlock := nb, isOpen := false, topOpen := false, fresh := fr } : PState).closeExtra S false with
  | error e => simp [hce] at h
  | ok st1 =>
    simp only [hce] at h
    cases hn : nodes with
    | nil =>
      subst hn
      unfold PState.closeExtra at hce
      have hz : (0 - 1 - 0 : Nat) = 0 := rfl
      simp only [List.length_nil, hz, closeExtraLoop, Except.map, Except.ok.injEq] at hce
      subst hce
      simp at h
    | cons a l =>
      obtain ⟨c1, c2, _, _⟩ := closeExtra_spec S _ _ st1 false hfo hc (by simp [hn]) hce
      cases hn1 : st1.nodes with
      | nil => simp [hn1] at c2
      | cons root l1 =>
        have : l1 = [] := by
          simp only [hn1, List.length_cons] at c2
          cases l1 with
          | nil => rfl
          | cons _ _ => simp at c2
        subst this
        rw [hn1] at c1
        have hroot : ctxOk S _ root none := c1
        simp only [hn1, List.head?_cons] at h
        obtain ⟨_, _, t, q, e1, _, _⟩ := hroot
        simp only [e1] at h
        have hfl := closeExtra_flags S _ st1 false hce
        simp only [flags, Prod.mk.injEq] at hfl
        simp only [hfl.1, hfl.2, Bool.or_false] at h
        cases hfn : root.finishNode S false t with
        | error e => simp [hfn, Except.map] at h
        | ok n =>
          simp only [hfn, Except.map, Except.ok.injEq, Prod.mk.injEq, Option.some.injEq] at h
          obtain ⟨rfl, _⟩ := h
          exact hfo root t n c1 e1 hfn

end PM.FromDom
