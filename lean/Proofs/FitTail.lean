/- Proofs/FitTail.lean — the tail of a replace-around answer of the Fitter carries no text.

   `fit` emits `ReplaceAroundStep(from, moveInline, to, end, slice, placed_size)` where `placed_size` is the size
   of `placed` at the end of the loop minus the close tokens of the open frontier nodes.  Everything `close`
   adds afterwards (fillers, re-opened nodes of `to`) is put *behind* the last non-close token of `placed`
   (`add_to_fragment` only ever inserts in front of a run of close tokens), and it carries no text
   (`closeFit_text`).  So, when `placed` and the frontier are in step at the end of the loop
   (`frontier.length - 1 ≤ spineR placed`), the part of the emitted slice after `insert` has no text:
   the `noText` conjunct of the C11 monitor `respects` for replace-around answers. -/
import Proofs.FitInv
import Proofs.FitterText
namespace PM

/-! ### token lists that do not end in a close token -/

/-- `l` is empty or ends in a token other than `cl` -/
def NoClEnd (l : List Tok) : Prop := ∀ a, l ≠ a ++ [Tok.cl]

theorem textUnits_replicate_cl (k : Nat) : textUnits (List.replicate k Tok.cl) = [] := by
  induction k with
  | zero => rfl
  | succ k ih => simp [List.replicate_succ, textUnits, ih]

/-- every token list is a `NoClEnd` list followed by a run of close tokens -/
theorem strip_cl_rev : ∀ r : List Tok, ∃ pre0 k, r.reverse = pre0 ++ List.replicate k Tok.cl ∧ NoClEnd pre0
  | [] => ⟨[], 0, by simp, by intro a h; simp at h⟩
  | x :: r => by
    obtain ⟨p, k, e, hp⟩ := strip_cl_rev r
    by_cases hx : x = Tok.cl
    · subst hx
      refine ⟨p, k + 1, ?_, hp⟩
      rw [List.reverse_cons, e, List.replicate_succ', List.append_assoc]
    · refine ⟨(x :: r).reverse, 0, by simp, ?_⟩
      intro a h
      rw [List.reverse_cons] at h
      have := List.append_inj_right' h rfl
      simp only [List.cons.injEq, and_true] at this
      exact hx this

theorem strip_cl (l : List Tok) : ∃ pre0 k, l = pre0 ++ List.replicate k Tok.cl ∧ NoClEnd pre0 := by
  have := strip_cl_rev l.reverse
  rwa [List.reverse_reverse] at this

/-- a `NoClEnd` prefix of `pre ++ cl^d` is a prefix of `pre` -/
theorem prefix_of_prefix_append_cl {pre0 : List Tok} (h0 : NoClEnd pre0) : ∀ (d : Nat) (pre : List Tok),
    pre0 <+: pre ++ List.replicate d Tok.cl → pre0 <+: pre
  | 0, pre, h => by simpa using h
  | d + 1, pre, h => by
    rw [List.replicate_succ', ← List.append_assoc, List.prefix_concat_iff] at h
    rcases h with h | h
    · exact absurd h (h0 _)
    · exact prefix_of_prefix_append_cl h0 d pre h

/-! ### (A) `add_to_fragment` at token level -/

theorem addToFragment_toks : ∀ (d : Nat) (frag c r : List Node), addToFragment frag d c = .ok r →
    ∃ pre, ftoks frag = pre ++ List.replicate d Tok.cl ∧ ftoks r = pre ++ ftoks c ++ List.replicate d Tok.cl
  | 0, frag, c, r, h => by
    have := pure_ok h
    subst this
    exact ⟨ftoks frag, by simp, by simp [fappend_toks]⟩
  | d + 1, frag, c, r, h => by
    unfold addToFragment at h
    split at h
    · rename_i t a m kids hl
      obtain ⟨inner, hi, h⟩ := FM.bind_ok h
      have := pure_ok h
      subst this
      obtain ⟨pre', e1, e2⟩ := addToFragment_toks d kids c inner hi
      have hfrag : frag = frag.dropLast ++ [Node.elem t a m kids] := by
        obtain ⟨ys, rfl⟩ := List.getLast?_eq_some_iff.mp hl
        simp
      refine ⟨ftoks frag.dropLast ++ Tok.op t a m :: pre', ?_, ?_⟩
      · conv => lhs; rw [hfrag]
        simp only [ftoks_append, ftoks_cons, ftoks_nil, Node.toks_elem, e1, List.replicate_succ',
          List.append_assoc, List.cons_append, List.append_nil]
      · simp only [ftoks_append, ftoks_cons, ftoks_nil, Node.toks_elem, e2, List.replicate_succ',
          List.append_assoc, List.cons_append, List.append_nil]
    · simp [throw, throwThe, MonadExceptOf.throw] at h

/-! ### (B) a `NoClEnd` prefix of `placed` is never touched again -/

theorem prefix_stable {pre0 : List Tok} (h0 : NoClEnd pre0) : AddStable (fun p => pre0 <+: ftoks p) := by
  intro d frag c r h hp
  obtain ⟨pre, e1, e2⟩ := addToFragment_toks d frag c r h
  have hp : pre0 <+: ftoks frag := hp
  show pre0 <+: ftoks r
  rw [e1] at hp
  have := prefix_of_prefix_append_cl h0 d pre hp
  rw [e2, List.append_assoc]
  exact List.prefix_append_of_prefix this

/-! ### (D) the close tokens at the end of a fragment -/

theorem ftoks_spineR_cl : ∀ (c : List Node), ∃ pre, ftoks c = pre ++ List.replicate (spineR c) Tok.cl
  | [] => ⟨[], by simp [spineR]⟩
  | [.elem t a m kids] => by
    obtain ⟨pre, e⟩ := ftoks_spineR_cl kids
    refine ⟨Tok.op t a m :: pre, ?_⟩
    rw [spineR_singleton_elem, Nat.add_comm, List.replicate_succ']
    simp [e]
  | [.text s m] => ⟨ftoks [.text s m], by simp [spineR]⟩
  | [.leaf t a m] => ⟨ftoks [.leaf t a m], by simp [spineR]⟩
  | x :: n :: ns => by
    obtain ⟨pre, e⟩ := ftoks_spineR_cl (n :: ns)
    refine ⟨x.toks ++ pre, ?_⟩
    rw [ftoks_cons, e]
    simp [spineR]

/-! ### (B)+(C)+(D): what `close` adds lies behind the frontier's close tokens and is no text -/

theorem closeFit_tail (S : Schema) (doc : Node) (rt : RPos) (fr : List FItem) (placed : List Node)
    (mv : RPos) (p : List Node) (h : closeFit S doc rt fr placed = .ok (some (mv, p)))
    (m : Nat) (hm : m ≤ spineR placed) (L : Nat) (hL : fsize placed - m ≤ L) :
    textUnits ((ftoks p).drop L) = [] := by
  obtain ⟨pre0, k, e0, h0⟩ := strip_cl (ftoks placed)
  have hpre : pre0 <+: ftoks p :=
    closeFit_stable (prefix_stable h0) S doc rt fr placed mv p h (by simp only [e0]; exact List.prefix_append _ _)
  obtain ⟨rest, er⟩ := hpre
  have ht := closeFit_text S doc rt fr placed mv p h
  simp only [ftext] at ht
  rw [← er, e0, textUnits_append, textUnits_append, textUnits_replicate_cl, List.append_nil] at ht
  have hrest : textUnits rest = [] := List.append_right_eq_self.mp ht
  -- the length of `pre0`
  obtain ⟨pre, e⟩ := ftoks_spineR_cl placed
  have hlen : pre.length + spineR placed = fsize placed := by
    have := congrArg List.length e
    rw [ftoks_length] at this
    simpa using this.symm
  have hp0 : pre0 <+: pre := by
    refine prefix_of_prefix_append_cl h0 (spineR placed) pre ?_
    rw [← e, e0]
    exact List.prefix_append _ _
  have hl0 := hp0.length_le
  rw [← er, List.drop_append, List.drop_eq_nil_of_le (by omega), List.nil_append]
  have := textUnits_sublist (List.drop_sublist (L - pre0.length) rest)
  rw [hrest] at this
  exact List.sublist_nil.mp this

/-! ### (E) `normalizeOpen` keeps the slice's tokens -/

theorem sliceToks'_single_elem (t : TypeId) (a : Attrs) (m : Marks) (k : List Node) (os oe : Nat)
    (hos : os ≠ 0) (hoe : oe ≠ 0) :
    sliceToks' ⟨[.elem t a m k], os, oe⟩ = sliceToks' ⟨k, os - 1, oe - 1⟩ := by
  obtain ⟨os', rfl⟩ : ∃ n, os = n + 1 := ⟨os - 1, by omega⟩
  obtain ⟨oe', rfl⟩ : ∃ n, oe = n + 1 := ⟨oe - 1, by omega⟩
  simp only [sliceToks', ftoks_cons, ftoks_nil, Node.toks_elem, List.append_nil, fsize_cons, fsize_nil,
    Node.size_elem, List.drop_succ_cons, Nat.add_sub_cancel, Nat.add_zero]
  have e : 2 + fsize k - (os' + 1) - (oe' + 1) = fsize k - os' - oe' := by omega
  rw [e, List.drop_append, List.take_append_of_le_length]
  rw [List.length_drop, ftoks_length]
  omega

theorem normalizeOpen_sliceToks : ∀ (n : Nat) (c : List Node) (os oe : Nat), os ≤ spineL c →
    sliceToks' ⟨(normalizeOpen n c os oe).1, (normalizeOpen n c os oe).2.1, (normalizeOpen n c os oe).2.2⟩ =
      sliceToks' ⟨c, os, oe⟩
  | 0, c, os, oe, _ => rfl
  | n + 1, c, os, oe, h => by
    unfold normalizeOpen
    split
    · rename_i only
      split
      · rename_i hc
        simp only [bne_iff_ne, ne_eq, Bool.and_eq_true] at hc
        cases only with
        | elem t a m k =>
          simp only [spineL] at h
          simp only [Node.kids]
          rw [normalizeOpen_sliceToks n k (os - 1) (oe - 1) (by omega),
            sliceToks'_single_elem t a m k os oe hc.1 hc.2]
        | text s m => simp only [spineL] at h; omega
        | leaf t a m => simp only [spineL] at h; omega
      · rfl
    · rfl

/-! ### (F) the emitted step -/

theorem fitEmit_tail (rf rt : RPos) (mi : Option Nat) (ps : Int) (to_ : RPos) (placed : List Node)
    (hl : rf.depth ≤ spineL placed)
    (htail : ∀ L : Nat, ps + rf.depth ≤ (L : Int) → textUnits ((ftoks placed).drop L) = [])
    (F T G1 G2 : Nat) (sl' : Slice) (ins : Nat) (b : Bool)
    (h : fitEmit rf rt mi ps to_ placed = .ok (some (.replaceAround F T G1 G2 sl' ins b))) :
    noText ((sliceToks' sl').drop ins) = true := by
  unfold fitEmit at h
  simp only at h
  cases mi with
  | none =>
    simp only at h
    split at h
    · have := pure_ok h
      simp at this
    · simp [pure, Except.pure] at h
  | some p =>
    simp only at h
    split at h
    · simp [throw, throwThe, MonadExceptOf.throw] at h
    · rename_i hneg
      have := pure_ok h
      simp only [Option.some.injEq, Step.replaceAround.injEq] at this
      obtain ⟨_, _, _, _, hsl, hins, _⟩ := this
      subst hsl; subst hins
      rw [normalizeOpen_sliceToks _ _ _ _ hl]
      simp only [sliceToks', List.drop_take, List.drop_drop, noText, List.isEmpty_iff]
      have h1 := htail (rf.depth + ps.toNat) (by omega)
      have := textUnits_sublist (List.take_sublist
        (fsize placed - rf.depth - to_.depth - ps.toNat) ((ftoks placed).drop (rf.depth + ps.toNat)))
      rw [h1] at this
      exact List.sublist_nil.mp this

/-- **no text after `insert`** in a replace-around answer of `fit`, when the loop ends with `placed` and the
    frontier in step -/
theorem fitterFit_tail_of_loop (S : Schema) {doc : Node} {f : Nat} {rf : RPos} (hf : doc.resolve f = some rf)
    (rt : RPos) (sl : Slice) (fuel : Nat) (st0 st1 : FitState)
    (h0 : fitInit S rf sl = .ok st0) (hl : fitLoop S fuel st0 = .ok st1)
    (hsp : st1.frontier.length - 1 ≤ spineR st1.placed)
    (F T G1 G2 : Nat) (sl' : Slice) (ins : Nat) (b : Bool)
    (h : fitterFit S doc rf rt sl fuel = .ok (some (.replaceAround F T G1 G2 sl' ins b))) :
    noText ((sliceToks' sl').drop ins) = true := by
  unfold fitterFit at h
  rw [FM.bind_eq h0, FM.bind_eq hl] at h
  obtain ⟨mi, _, h⟩ := FM.bind_ok h
  simp only at h
  obtain ⟨target, _, h⟩ := FM.bind_ok h
  obtain ⟨c, hc, h⟩ := FM.bind_ok h
  cases c with
  | none => simp [pure, Except.pure] at h
  | some c =>
    simp only at h
    have hl0 := fitInit_spineL S hf sl st0 h0
    have hl1 := fitLoop_stable (spineL_stable rf.depth) S fuel st0 st1 hl hl0
    have hl2 := closeFit_stable (spineL_stable rf.depth) S doc target st1.frontier st1.placed c.1 c.2 hc hl1
    refine fitEmit_tail rf rt mi _ c.1 c.2 hl2 ?_ F T G1 G2 sl' ins b h
    intro L hL
    exact closeFit_tail S doc target st1.frontier st1.placed c.1 c.2 hc (st1.frontier.length - 1) hsp L
      (by omega)

/-! ### `replace_step` -/

/-- closed slices of leaf / text nodes: nothing inserted after `insert` is text -/
theorem replaceStep_inline_tail (S : Schema) (hdet : DetS S) (hfill : FillersOK S) (hw : WrapOK S)
    (doc : Node) (f t : Nat) (sl : Slice) (hsl : sl.inlineLeaves S = true) (hv : S.checkNode doc = true)
    (F T G1 G2 : Nat) (sl' : Slice) (ins : Nat) (b : Bool)
    (h : replaceStep S doc f t sl = .ok (some (.replaceAround F T G1 G2 sl' ins b))) :
    noText ((sliceToks' sl').drop ins) = true := by
  simp only [Slice.inlineLeaves, Bool.and_eq_true, beq_iff_eq, List.all_eq_true, decide_eq_true_eq] at hsl
  obtain ⟨⟨hos, hoe⟩, hall⟩ := hsl
  unfold replaceStep at h
  split at h
  · simp [pure, Except.pure] at h
  · split at h
    · rename_i rf rt hf ht
      split at h
      · simp [throw, throwThe, MonadExceptOf.throw] at h
      · have := pure_ok h
        simp at this
      · obtain ⟨st0, h0, hu, hfr, hlen, hsp, hsz⟩ := fitInit_ok S hf hv sl
        have inv0 : FitLoopInv S rf.depth st0 := by
          refine ⟨hfr, ?_, by rw [hlen, Nat.add_sub_cancel]; exact hsp, ?_, ?_, by rw [hu]; exact hos,
            by rw [hu]; exact hoe, by rw [hlen, hsz]; omega⟩
          · intro h; rw [h] at hlen; simp at hlen
          · intro n hn; rw [hu] at hn; exact (hall n hn).1
          · intro n hn; rw [hu] at hn; exact (hall n hn).2
        obtain ⟨st1, hl, inv⟩ := fitLoop_ok S hdet hfill hw rf.depth (fitFuel S sl) st0 inv0 (by
          have := fitFuel_enough S st0
          rw [hu] at this
          rw [hu]; exact this)
        exact fitterFit_tail_of_loop S hf rt sl _ st0 st1 h0 hl (rspineOK_spineR _ _ inv.sp) F T G1 G2 sl' ins b h
    · simp [throw, throwThe, MonadExceptOf.throw] at h

/-- the same for every slice, reduced to the in-step fact at the end of the loop -/
theorem replaceStep_tail_of_inStep (S : Schema) (doc : Node) (f t : Nat) (sl : Slice)
    (F T G1 G2 : Nat) (sl' : Slice) (ins : Nat) (b : Bool)
    (h : replaceStep S doc f t sl = .ok (some (.replaceAround F T G1 G2 sl' ins b)))
    (hin : ∀ rf st0 st1, doc.resolve f = some rf → fitInit S rf sl = .ok st0 →
      fitLoop S (fitFuel S sl) st0 = .ok st1 → st1.inStepB = true) :
    noText ((sliceToks' sl').drop ins) = true := by
  unfold replaceStep at h
  split at h
  · simp [pure, Except.pure] at h
  · split at h
    · rename_i rf rt hf ht
      split at h
      · simp [throw, throwThe, MonadExceptOf.throw] at h
      · have := pure_ok h
        simp at this
      · have h' := h
        unfold fitterFit at h'
        obtain ⟨st0, h0, h'⟩ := FM.bind_ok h'
        obtain ⟨st1, h1, _⟩ := FM.bind_ok h'
        have hi := hin rf st0 st1 hf h0 h1
        simp only [FitState.inStepB, Bool.and_eq_true, decide_eq_true_eq] at hi
        exact fitterFit_tail_of_loop S hf rt sl _ st0 st1 h0 h1 hi.2 F T G1 G2 sl' ins b h
    · simp [throw, throwThe, MonadExceptOf.throw] at h

end PM
