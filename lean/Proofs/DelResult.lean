/-
  Proofs/DelResult.lean — the pieces of the document a deletion is to return (Proofs/DelSpine.lean) are valid and in
  normal form, given per level what the Fitter established (C11 `delete_applies`).
-/
import Proofs.DelSpine
import Proofs.FitDeleteNorm
namespace PM

/-- what `valid_content` looks at -/
def sigOf (S : Schema) (l : List Node) : List (TypeId × Marks) := l.map (fun n => (S.tyOf n, n.marks))

theorem sigOf_append (S : Schema) (a b : List Node) : sigOf S (a ++ b) = sigOf S a ++ sigOf S b := by
  simp [sigOf]

theorem validContent_sigOf (S : Schema) (t : TypeId) (a b : List Node) (h : sigOf S a = sigOf S b) :
    S.validContent t a = S.validContent t b := validContent_congr S t a b h

/-- the top level of the left part with the child of the path emptied -/
def headL : List Frame → List Node → List Node
  | fr :: _, _ => fr.pre ++ [fr.node []]
  | [], botL => botL

/-- the top level of the right part with the child of the path emptied -/
def headR : List Frame → List Node → List Node
  | fr :: _, _ => fr.node [] :: fr.post
  | [], botR => botR

theorem leftK_sig (S : Schema) : ∀ (frs : List Frame) (fills : List (List Node)) (botL : List Node),
    frs.length = fills.length → sigOf S (leftK frs fills botL) = sigOf S (headL frs botL)
  | [], [], _, _ => rfl
  | [], _ :: _, _, h => by simp at h
  | _ :: _, [], _, h => by simp at h
  | fr :: frs, fill :: fills, botL, _ => by
    simp [leftK, headL, sigOf, Frame.node, Schema.tyOf, Node.tyOr, Node.marks]

theorem rightK_sig (S : Schema) : ∀ (frs : List Frame) (adds : List (List Node)) (botR : List Node),
    frs.length = adds.length → sigOf S (rightK frs adds botR) = sigOf S (headR frs botR)
  | [], [], _, _ => rfl
  | [], _ :: _, _, h => by simp at h
  | _ :: _, [], _, h => by simp at h
  | fr :: frs, add :: adds, botR, _ => by
    simp [rightK, headR, sigOf, Frame.node, Schema.tyOf, Node.tyOr, Node.marks]

/-! ### validity -/

/-- per level of `from` below the close level: the children in front are valid, the ancestor's marks canonical, the
    filler valid, and the level's children with the filler behind them are valid content of the ancestor -/
def LeftOK (S : Schema) : List Frame → List (List Node) → List Node → Prop
  | fr :: frs, fill :: fills, botL =>
    S.checkKids fr.pre = true ∧ canonicalMarks S fr.marks = true ∧ S.checkKids fill = true ∧
      S.validContent fr.ty (headL frs botL ++ fill) = true ∧ LeftOK S frs fills botL
  | [], [], botL => S.checkKids botL = true
  | _, _, _ => False

theorem LeftOK.length {S : Schema} : ∀ {frs : List Frame} {fills : List (List Node)} {botL : List Node},
    LeftOK S frs fills botL → frs.length = fills.length
  | [], [], _, _ => rfl
  | [], _ :: _, _, h => h.elim
  | _ :: _, [], _, h => h.elim
  | _ :: frs, _ :: fills, _, h => by simp [LeftOK.length h.2.2.2.2]

theorem leftK_checkKids (S : Schema) : ∀ (frs : List Frame) (fills : List (List Node)) (botL : List Node),
    LeftOK S frs fills botL → S.checkKids (leftK frs fills botL) = true
  | [], [], _, h => h
  | [], _ :: _, _, h => h.elim
  | _ :: _, [], _, h => h.elim
  | fr :: frs, fill :: fills, botL, h => by
    obtain ⟨h1, h2, h3, h4, h5⟩ := h
    have ih := leftK_checkKids S frs fills botL h5
    have hv : S.validContent fr.ty (leftK frs fills botL ++ fill) = true := by
      rw [validContent_sigOf S fr.ty _ (headL frs botL ++ fill)]
      · exact h4
      · show sigOf S _ = sigOf S _
        rw [sigOf_append, sigOf_append, leftK_sig S frs fills botL h5.length]
    simp only [leftK, Frame.node, checkKids_append, checkNode_elem, Schema.checkKids, h1, hv, h2, ih,
      h3, Bool.and_self]

def RightOK (S : Schema) : List Frame → List (List Node) → List Node → Prop
  | fr :: frs, add :: adds, botR =>
    S.checkKids fr.post = true ∧ canonicalMarks S fr.marks = true ∧ S.checkKids add = true ∧
      S.validContent fr.ty (add ++ headR frs botR) = true ∧ RightOK S frs adds botR
  | [], [], botR => S.checkKids botR = true
  | _, _, _ => False

theorem RightOK.length {S : Schema} : ∀ {frs : List Frame} {adds : List (List Node)} {botR : List Node},
    RightOK S frs adds botR → frs.length = adds.length
  | [], [], _, _ => rfl
  | [], _ :: _, _, h => h.elim
  | _ :: _, [], _, h => h.elim
  | _ :: frs, _ :: adds, _, h => by simp [RightOK.length h.2.2.2.2]

theorem rightK_checkKids (S : Schema) : ∀ (frs : List Frame) (adds : List (List Node)) (botR : List Node),
    RightOK S frs adds botR → S.checkKids (rightK frs adds botR) = true
  | [], [], _, h => h
  | [], _ :: _, _, h => h.elim
  | _ :: _, [], _, h => h.elim
  | fr :: frs, add :: adds, botR, h => by
    obtain ⟨h1, h2, h3, h4, h5⟩ := h
    have ih := rightK_checkKids S frs adds botR h5
    have hv : S.validContent fr.ty (add ++ rightK frs adds botR) = true := by
      rw [validContent_sigOf S fr.ty _ (add ++ headR frs botR)]
      · exact h4
      · show sigOf S _ = sigOf S _
        rw [sigOf_append, sigOf_append, rightK_sig S frs adds botR h5.length]
    simp only [rightK, Frame.node, checkKids_append, checkKids_cons, checkNode_elem, h1, hv, h2, ih,
      h3, Bool.and_self]

/-- the type of the node whose children the innermost list of the frames is -/
def botTy : TypeId → List Frame → TypeId
  | ty, [] => ty
  | _, fr :: frs => botTy fr.ty frs

theorem botTy_append (ty : TypeId) : ∀ (a b : List Frame), botTy ty (a ++ b) = botTy (botTy ty a) b
  | [], _ => rfl
  | fr :: a, b => botTy_append fr.ty a b

/-- per level above the close level: `from`'s ancestor holds the children in front of `from`, the joined child and the
    children behind the end position as valid content -/
def JoinOK (S : Schema) : TypeId → List Frame → List Frame → Prop
  | ty, ff :: ffs, tf :: tfs =>
    S.checkKids ff.pre = true ∧ S.checkKids tf.post = true ∧ canonicalMarks S ff.marks = true ∧
      S.validContent ty (ff.pre ++ ff.node [] :: tf.post) = true ∧ JoinOK S ff.ty ffs tfs
  | _, [], [] => True
  | _, _, _ => False

theorem joinK_valid (S : Schema) : ∀ (ty : TypeId) (ffs tfs : List Frame) (J : List Node),
    JoinOK S ty ffs tfs → S.validContent (botTy ty ffs) J = true → S.checkKids J = true →
    S.validContent ty (joinK ffs tfs J) = true ∧ S.checkKids (joinK ffs tfs J) = true
  | _, [], [], _, _, h1, h2 => ⟨h1, h2⟩
  | _, [], _ :: _, _, h, _, _ => h.elim
  | _, _ :: _, [], _, h, _, _ => h.elim
  | ty, ff :: ffs, tf :: tfs, J, h, hv, hk => by
    obtain ⟨h1, h2, h3, h4, h5⟩ := h
    obtain ⟨i1, i2⟩ := joinK_valid S ff.ty ffs tfs J h5 hv hk
    constructor
    · rw [validContent_sigOf S ty _ (ff.pre ++ ff.node [] :: tf.post)]
      · exact h4
      · simp [joinK, sigOf, Frame.node, Schema.tyOf, Node.tyOr, Node.marks]
    · simp only [joinK, Frame.node, checkKids_append, checkKids_cons, checkNode_elem, h1, i1, h3, i2, h2, Bool.and_self]

/-! ### normal form -/

theorem fnorm_append_textFree {X F : List Node} (hX : fnorm X = true) (hF : textFreeKids F = true) :
    fnorm (X ++ F) = true := by
  have hF' := fnorm_textFree F hF
  simp only [fnorm, Bool.and_eq_true, fnormKids_append, chainOk_append] at hX hF' ⊢
  refine ⟨⟨hX.1, hF'.1⟩, ⟨hX.2, hF'.2⟩, ?_⟩
  cases F with
  | nil => cases X.getLast? <;> rfl
  | cons f fs =>
    simp only [textFreeKids_cons, Bool.and_eq_true] at hF
    cases hl : X.getLast? with
    | none => rfl
    | some u =>
      simp only [List.head?_cons, seamOk]
      cases f <;> cases u <;> simp_all [adjOk, Node.textFree]

theorem fnorm_textFree_append {X F : List Node} (hF : textFreeKids F = true) (hX : fnorm X = true) :
    fnorm (F ++ X) = true := by
  have hF' := fnorm_textFree F hF
  simp only [fnorm, Bool.and_eq_true, fnormKids_append, chainOk_append] at hX hF' ⊢
  refine ⟨⟨hF'.1, hX.1⟩, ⟨hF'.2, hX.2⟩, ?_⟩
  cases hl : F.getLast? with
  | none => rfl
  | some u =>
    have hu : u.textFree = true := textFreeKids_mem F hF u (List.mem_of_getLast? hl)
    cases X with
    | nil => rfl
    | cons x xs =>
      simp only [List.head?_cons, seamOk]
      exact adjOk_textFree u x hu

/-- the frames of a child list in normal form, both sides -/
def framesFN : List Frame → Prop
  | [] => True
  | fr :: frs => fnorm fr.pre = true ∧ fnorm fr.post = true ∧ framesFN frs

theorem framesFN.norm : ∀ {frs : List Frame}, framesFN frs → framesNorm frs
  | [], _ => trivial
  | _ :: _, h => ⟨fnormKids_of_fnorm h.1, framesFN.norm h.2.2⟩

theorem plug_framesFN : ∀ (frs : List Frame) (bot : List Node), fnorm (plug frs bot) = true →
    framesFN frs ∧ fnorm bot = true
  | [], bot, h => ⟨trivial, h⟩
  | fr :: frs, bot, h => by
    simp only [plug] at h
    have h1 : fnorm fr.pre = true := fnorm_append_left h
    have h2 := fnorm_append_right h
    have h3 : fnorm (plug frs bot) = true := fnorm_elem_kids h2
    have h4 : fnorm fr.post = true := (fnorm_cons h2).2
    obtain ⟨i1, i2⟩ := plug_framesFN frs bot h3
    exact ⟨⟨h1, h4, i1⟩, i2⟩

theorem framesFN_append : ∀ (a b : List Frame), framesFN (a ++ b) ↔ framesFN a ∧ framesFN b
  | [], b => by simp [framesFN]
  | fr :: a, b => by simp [framesFN, framesFN_append a b, and_assoc]

theorem leftK_norm : ∀ (frs : List Frame) (fills : List (List Node)) (botL : List Node), framesFN frs →
    (∀ f ∈ fills, textFreeKids f = true) → fnorm botL = true → fnorm (leftK frs fills botL) = true
  | [], _, _, _, _, h => by simpa [leftK] using h
  | _ :: _, [], _, _, _, h => by simpa [leftK] using h
  | fr :: frs, fill :: fills, botL, hf, hfills, hb => by
    have ih := leftK_norm frs fills botL hf.2.2 (fun f hf' => hfills f (by simp [hf'])) hb
    have := fnorm_append_textFree ih (hfills fill (by simp))
    simp only [leftK, Frame.node]
    exact fnorm_around_elem _ _ _ hf.1 this (by simp [fnorm, chainOk])

theorem rightK_norm : ∀ (frs : List Frame) (adds : List (List Node)) (botR : List Node), framesFN frs →
    (∀ a ∈ adds, textFreeKids a = true) → fnorm botR = true → fnorm (rightK frs adds botR) = true
  | [], _, _, _, _, h => by simpa [rightK] using h
  | _ :: _, [], _, _, _, h => by simpa [rightK] using h
  | fr :: frs, add :: adds, botR, hf, hadds, hb => by
    have ih := rightK_norm frs adds botR hf.2.2 (fun f hf' => hadds f (by simp [hf'])) hb
    have := fnorm_textFree_append (hadds add (by simp)) ih
    simp only [rightK, Frame.node]
    exact fnorm_around_elem (pre := []) _ _ _ (by simp [fnorm, chainOk]) this hf.2.1

theorem joinK_norm : ∀ (ffs tfs : List Frame) (J : List Node), framesFN ffs → framesFN tfs →
    fnorm J = true → fnorm (joinK ffs tfs J) = true
  | [], _, _, _, _, h => by simpa [joinK] using h
  | _ :: _, [], _, _, _, h => by simpa [joinK] using h
  | ff :: ffs, tf :: tfs, J, hf, ht, hJ => by
    have ih := joinK_norm ffs tfs J hf.2.2 ht.2.2 hJ
    simp only [joinK, Frame.node]
    exact fnorm_around_elem _ _ _ hf.1 ih ht.2.1

end PM
