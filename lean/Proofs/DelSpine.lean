/-
  Proofs/DelSpine.lean — the document along a resolved position as a list of *frames* (a zipper), and the document a
  deletion is to return, built from the frames of `from` and of the position the step ends at (property C11, first
  sentence: `delete_applies`).

  * `Frame`, `plug`, `pbase`: one level of a path (children before the child the path goes into, that child's markup,
    children behind it), the child list with all levels plugged, the offset of the innermost list;
  * `leftK` / `leftS`: the levels of `from` below the close level, each closed by its filler — as they stand in the
    result document (`K`, with the children in front of `from`) and in the slice (`S`);
  * `rightK` / `rightS`: the levels of the end position below the close level, re-opened with the fillers in front;
  * `joinK`: the levels above the close level, `from`'s ancestors taking the children behind the end position;
  * tokens, sizes, normal form, `RightRel` of these.
-/
import Proofs.UndoInverse
import Proofs.MergeOpen
import Proofs.DeleteFlat
namespace PM

structure Frame where
  pre : List Node
  ty : TypeId
  attrs : Attrs
  marks : Marks
  post : List Node

namespace Frame
def node (fr : Frame) (k : List Node) : Node := .elem fr.ty fr.attrs fr.marks k
def op (fr : Frame) : Tok := .op fr.ty fr.attrs fr.marks
end Frame

/-- the child list with the path's children plugged in, innermost `bot` -/
def plug : List Frame → List Node → List Node
  | [], bot => bot
  | fr :: frs, bot => fr.pre ++ fr.node (plug frs bot) :: fr.post

/-- offset of the innermost child list -/
def pbase : List Frame → Nat
  | [] => 0
  | fr :: frs => fsize fr.pre + 1 + pbase frs

/-- tokens in front of the innermost list -/
def preT : List Frame → List Tok
  | [] => []
  | fr :: frs => ftoks fr.pre ++ fr.op :: preT frs

/-- tokens behind the innermost list -/
def postT : List Frame → List Tok
  | [] => []
  | fr :: frs => postT frs ++ Tok.cl :: ftoks fr.post

/-- the open tokens alone -/
def opT : List Frame → List Tok
  | [] => []
  | fr :: frs => fr.op :: opT frs

theorem preT_length : ∀ frs : List Frame, (preT frs).length = pbase frs
  | [] => rfl
  | fr :: frs => by simp [preT, pbase, preT_length frs, ftoks_length]; omega

theorem opT_length : ∀ frs : List Frame, (opT frs).length = frs.length
  | [] => rfl
  | fr :: frs => by simp [opT, opT_length frs]

theorem preT_append : ∀ a b : List Frame, preT (a ++ b) = preT a ++ preT b
  | [], b => rfl
  | fr :: a, b => by simp [preT, preT_append a b]

theorem postT_append : ∀ a b : List Frame, postT (a ++ b) = postT b ++ postT a
  | [], b => by simp [postT]
  | fr :: a, b => by simp [postT, postT_append a b]

theorem pbase_append : ∀ a b : List Frame, pbase (a ++ b) = pbase a + pbase b
  | [], b => by simp [pbase]
  | fr :: a, b => by simp [pbase, pbase_append a b]; omega

theorem plug_toks : ∀ (frs : List Frame) (bot : List Node),
    ftoks (plug frs bot) = preT frs ++ ftoks bot ++ postT frs
  | [], bot => by simp [plug, preT, postT]
  | fr :: frs, bot => by
    simp [plug, preT, postT, ftoks_append, Frame.node, Frame.op, plug_toks frs bot]

theorem plug_size (frs : List Frame) (bot : List Node) :
    fsize (plug frs bot) = pbase frs + fsize bot + (postT frs).length := by
  have := congrArg List.length (plug_toks frs bot)
  simp only [ftoks_length, List.length_append, preT_length] at this
  exact this

theorem plug_append : ∀ (a b : List Frame) (bot : List Node), plug (a ++ b) bot = plug a (plug b bot)
  | [], b, bot => rfl
  | fr :: a, b, bot => by simp [plug, plug_append a b bot]

/-- tokens of the document in front of a position of the innermost list -/
theorem plug_take (frs : List Frame) (bot : List Node) (x : Nat) (hx : x ≤ fsize bot) :
    (ftoks (plug frs bot)).take (pbase frs + x) = preT frs ++ (ftoks bot).take x := by
  rw [plug_toks, List.append_assoc, ← preT_length, List.take_length_add_append,
    List.take_append_of_le_length (by rw [ftoks_length]; exact hx)]

theorem plug_drop (frs : List Frame) (bot : List Node) (x : Nat) (hx : x ≤ fsize bot) :
    (ftoks (plug frs bot)).drop (pbase frs + x) = (ftoks bot).drop x ++ postT frs := by
  rw [plug_toks, List.append_assoc, ← preT_length, List.drop_length_add_append,
    List.drop_append_of_le_length (by rw [ftoks_length]; exact hx)]

/-! ### normal form and validity of the frames of a document -/

/-- the frames of a child list in normal form: siblings in normal form, at every level -/
def framesNorm : List Frame → Prop
  | [] => True
  | fr :: frs => fnormKids fr.pre = true ∧ framesNorm frs

theorem plug_norm : ∀ (frs : List Frame) (bot : List Node), fnorm (plug frs bot) = true →
    framesNorm frs ∧ fnorm bot = true
  | [], bot, h => ⟨trivial, h⟩
  | fr :: frs, bot, h => by
    simp only [plug] at h
    have h1 : fnormKids fr.pre = true := fnormKids_of_fnorm (fnorm_append_left h)
    have h2 := fnorm_append_right h
    have h3 : fnorm (plug frs bot) = true := fnorm_elem_kids h2
    obtain ⟨i1, i2⟩ := plug_norm frs bot h3
    exact ⟨⟨h1, i1⟩, i2⟩

theorem framesNorm_append : ∀ (a b : List Frame), framesNorm (a ++ b) ↔ framesNorm a ∧ framesNorm b
  | [], b => by simp [framesNorm]
  | fr :: a, b => by simp [framesNorm, framesNorm_append a b, and_assoc]

/-! ### depth and splits at a position inside the innermost list -/

theorem plug_depth : ∀ (frs : List Frame) (bot : List Node) (x : Nat), framesNorm frs → x ≤ fsize bot →
    depthAt (plug frs bot) (pbase frs + x) = frs.length + depthAt bot x
  | [], bot, x, _, _ => by simp [plug, pbase]
  | fr :: frs, bot, x, hn, hx => by
    have hsz := plug_size frs bot
    simp only [plug, pbase, Frame.node]
    rw [show fsize fr.pre + 1 + pbase frs + x = fsize fr.pre + (1 + pbase frs + x) by omega, depthAt_append_pre,
      depthAt_elem_cons _ _ _ _ _ _ (by omega) (by omega),
      show 1 + pbase frs + x - 1 = pbase frs + x by omega, plug_depth frs bot x hn.2 hx]
    simp only [List.length_cons]; omega

theorem plug_aligned : ∀ (frs : List Frame) (bot : List Node) (x : Nat), framesNorm frs → x ≤ fsize bot →
    alignedAt (plug frs bot) (pbase frs + x) = alignedAt bot x
  | [], bot, x, _, _ => by simp [plug, pbase]
  | fr :: frs, bot, x, hn, hx => by
    have hsz := plug_size frs bot
    simp only [plug, pbase, Frame.node]
    rw [show fsize fr.pre + 1 + pbase frs + x = fsize fr.pre + (1 + pbase frs + x) by omega, alignedAt_append_pre,
      alignedAt_cons, if_neg (by omega), if_neg (by simp only [Node.size_elem]; omega),
      show 1 + pbase frs + x - 1 = pbase frs + x by omega]
    exact plug_aligned frs bot x hn.2 hx

theorem plug_splitRight (fr : Frame) (frs : List Frame) (bot : List Node) (x : Nat)
    (hn : fnormKids fr.pre = true) (hx : x ≤ fsize bot) :
    splitRight (plug (fr :: frs) bot) (pbase (fr :: frs) + x)
      = some (.deep (fr.node (plug frs bot)) (pbase frs + x) fr.post) := by
  have hsz := plug_size frs bot
  simp only [plug, pbase, Frame.node]
  rw [show fsize fr.pre + 1 + pbase frs + x = fsize fr.pre + (1 + pbase frs + x) by omega,
    splitRight_append_pre _ _ _ hn, splitRight_elem _ _ _ _ _ _ (by omega) (by omega)]
  congr 3
  omega

/-! ### the pieces of the result document and of the slice -/

/-- the levels of `from` below the close level as they stand in the result: the children in front of the path, the
    child the path goes into holding the deeper levels and that level's filler (`fills` pairs each frame with the
    filler of the level *inside* its child); innermost `botL` -/
def leftK : List Frame → List (List Node) → List Node → List Node
  | fr :: frs, fill :: fills, botL => fr.pre ++ [fr.node (leftK frs fills botL ++ fill)]
  | _, _, botL => botL

/-- … and in the slice: the bare copies of the ancestors, each closed by its filler; innermost `G` -/
def leftS : List Frame → List (List Node) → List Node → List Node
  | fr :: frs, fill :: fills, G => [fr.node (leftS frs fills G ++ fill)]
  | _, _, G => G

/-- the fillers and close tokens behind the innermost level -/
def clT : List (List Node) → List Tok
  | [] => []
  | fill :: fills => clT fills ++ ftoks fill ++ [Tok.cl]

/-- the levels of the end position below the close level as they stand in the result: the re-opened ancestor with its
    filler in front of the deeper levels, the children behind the path; innermost `botR` -/
def rightK : List Frame → List (List Node) → List Node → List Node
  | fr :: frs, add :: adds, botR => fr.node (add ++ rightK frs adds botR) :: fr.post
  | _, _, botR => botR

/-- … and in the slice -/
def rightS : List Frame → List (List Node) → List Node
  | fr :: frs, add :: adds => [fr.node (add ++ rightS frs adds)]
  | _, _ => []

/-- the open tokens of the re-opened ancestors with their fillers -/
def opaT : List Frame → List (List Node) → List Tok
  | fr :: frs, add :: adds => fr.op :: (ftoks add ++ opaT frs adds)
  | _, _ => []

/-- the levels above the close level: `from`'s ancestors (markup and children in front) with the children behind the
    end position -/
def joinK : List Frame → List Frame → List Node → List Node
  | ff :: ffs, tf :: tfs, J => ff.pre ++ ff.node (joinK ffs tfs J) :: tf.post
  | _, _, J => J

theorem leftK_toks : ∀ (frs : List Frame) (fills : List (List Node)) (botL : List Node), frs.length = fills.length →
    ftoks (leftK frs fills botL) = preT frs ++ ftoks botL ++ clT fills
  | [], [], botL, _ => by simp [leftK, preT, clT]
  | [], _ :: _, _, h => by simp at h
  | _ :: _, [], _, h => by simp at h
  | fr :: frs, fill :: fills, botL, h => by
    simp only [List.length_cons, Nat.add_right_cancel_iff] at h
    simp [leftK, preT, clT, ftoks_append, Frame.node, Frame.op, leftK_toks frs fills botL h]

theorem leftS_toks : ∀ (frs : List Frame) (fills : List (List Node)) (G : List Node), frs.length = fills.length →
    ftoks (leftS frs fills G) = opT frs ++ ftoks G ++ clT fills
  | [], [], G, _ => by simp [leftS, opT, clT]
  | [], _ :: _, _, h => by simp at h
  | _ :: _, [], _, h => by simp at h
  | fr :: frs, fill :: fills, G, h => by
    simp only [List.length_cons, Nat.add_right_cancel_iff] at h
    simp [leftS, opT, clT, ftoks_append, Frame.node, Frame.op, leftS_toks frs fills G h]

theorem rightK_toks : ∀ (frs : List Frame) (adds : List (List Node)) (botR : List Node), frs.length = adds.length →
    ftoks (rightK frs adds botR) = opaT frs adds ++ ftoks botR ++ postT frs
  | [], [], botR, _ => by simp [rightK, opaT, postT]
  | [], _ :: _, _, h => by simp at h
  | _ :: _, [], _, h => by simp at h
  | fr :: frs, add :: adds, botR, h => by
    simp only [List.length_cons, Nat.add_right_cancel_iff] at h
    simp [rightK, opaT, postT, ftoks_append, Frame.node, Frame.op, rightK_toks frs adds botR h]

theorem rightS_toks : ∀ (frs : List Frame) (adds : List (List Node)), frs.length = adds.length →
    ftoks (rightS frs adds) = opaT frs adds ++ List.replicate frs.length Tok.cl
  | [], [], _ => by simp [rightS, opaT]
  | [], _ :: _, h => by simp at h
  | _ :: _, [], h => by simp at h
  | fr :: frs, add :: adds, h => by
    simp only [List.length_cons, Nat.add_right_cancel_iff] at h
    simp [rightS, opaT, ftoks_append, Frame.node, Frame.op, rightS_toks frs adds h, List.replicate_succ']

theorem joinK_toks : ∀ (ffs tfs : List Frame) (J : List Node), ffs.length = tfs.length →
    ftoks (joinK ffs tfs J) = preT ffs ++ ftoks J ++ postT tfs
  | [], [], J, _ => by simp [joinK, preT, postT]
  | [], _ :: _, _, h => by simp at h
  | _ :: _, [], _, h => by simp at h
  | ff :: ffs, tf :: tfs, J, h => by
    simp only [List.length_cons, Nat.add_right_cancel_iff] at h
    simp [joinK, preT, postT, ftoks_append, Frame.node, Frame.op, joinK_toks ffs tfs J h]

theorem clT_length_ge : ∀ fills : List (List Node), fills.length ≤ (clT fills).length
  | [] => by simp [clT]
  | fill :: fills => by have := clT_length_ge fills; simp [clT]; omega

/-- the tokens of the left part of the slice: open on the left as deep as there are levels -/
theorem leftS_sliceToks (frs : List Frame) (fills : List (List Node)) (G : List Node) (h : frs.length = fills.length) :
    (Slice.mk (leftS frs fills G) frs.length 0).toks = ftoks G ++ clT fills := by
  have ht := leftS_toks frs fills G h
  have hs : fsize (leftS frs fills G) = frs.length + (ftoks G ++ clT fills).length := by
    rw [← ftoks_length, ht, List.append_assoc, List.length_append, opT_length]
  simp only [Slice.toks, ht, List.append_assoc]
  rw [← opT_length frs, List.drop_left, opT_length, hs]
  simp only [Nat.sub_zero, Nat.add_sub_cancel_left]
  exact List.take_of_length_le (Nat.le_refl _)

/-- the tokens of the right part of the slice: open on the right as deep as there are levels -/
theorem rightS_sliceToks (fit : List Node) (frs : List Frame) (adds : List (List Node)) (h : frs.length = adds.length) :
    (Slice.mk (fit ++ rightS frs adds) 0 frs.length).toks = ftoks fit ++ opaT frs adds := by
  have ht := rightS_toks frs adds h
  have hs : fsize (fit ++ rightS frs adds) = (ftoks fit ++ opaT frs adds).length + frs.length := by
    rw [← ftoks_length, ftoks_append, ht, ← List.append_assoc, List.length_append, List.length_replicate]
  simp only [Slice.toks, ftoks_append, ht, List.drop_zero]
  rw [hs, ← List.append_assoc, Nat.sub_zero, Nat.add_sub_cancel, List.take_left']
  rfl

/-! ### normal form -/

theorem fnorm_around_elem {pre post k : List Node} (t : TypeId) (a : Attrs) (m : Marks) (h1 : fnorm pre = true)
    (h2 : fnorm k = true) (h3 : fnorm post = true) : fnorm (pre ++ .elem t a m k :: post) = true := by
  have hadjL : ∀ o, seamOk o (some (Node.elem t a m k)) = true := by
    intro o; cases o with
    | none => rfl
    | some u => cases u <;> simp [seamOk, adjOk]
  have hadjR : ∀ o, seamOk (some (Node.elem t a m k)) o = true := by
    intro o; cases o with
    | none => rfl
    | some u => cases u <;> simp [seamOk, adjOk]
  simp only [fnorm, Bool.and_eq_true] at h1 h2 h3 ⊢
  refine ⟨?_, ?_⟩
  · simp only [fnormKids_append, fnormKids_cons, Node.norm, Bool.and_eq_true]
    exact ⟨h1.1, ⟨h2.1, h2.2⟩, h3.1⟩
  · rw [chainOk_append, chainOk_cons]
    simp only [Bool.and_eq_true]
    exact ⟨⟨h1.2, hadjR _, h3.2⟩, hadjL _⟩

theorem fnorm_of_kids_chain {l : List Node} (h1 : fnormKids l = true) (h2 : chainOk l = true) : fnorm l = true := by
  simp [fnorm, h1, h2]

/-! ### `RightRel` between the document and the result, behind the step -/

/-- a flat split is determined by the tokens behind it -/
theorem splitRight_flat_of_toks (L Z : List Node) (t : Nat) (hL : fnorm L = true) (hZ : fnorm Z = true)
    (ht : t ≤ fsize L) (ha : alignedAt L t = true) (hd : depthAt L t = 0)
    (htk : ftoks Z = (ftoks L).drop t) : splitRight L t = some (.flat Z) := by
  obtain ⟨rest, hr⟩ := splitRight_flat_of_depth L t ht ha hd
  have hn := splitRight_flat_fnorm L t rest hL hr
  have := splitRight_flat_toks hr
  have e : rest = Z := ftoks_inj _ _ hn hZ (by rw [this, htk])
  rw [hr, e]

/-- offset of the innermost list in `rightK` -/
def rbase : List Frame → List (List Node) → Nat
  | _ :: frs, add :: adds => 1 + fsize add + rbase frs adds
  | _, _ => 0

/-- the frames of the re-opened ancestors: the types and the children behind the path are those of the document -/
def sameRight : List Frame → List Frame → Prop
  | tf :: tfs, tf' :: tfs' => tf.ty = tf'.ty ∧ tf.post = tf'.post ∧ sameRight tfs tfs'
  | [], [] => True
  | _, _ => False

theorem sameRight_length : ∀ (a b : List Frame), sameRight a b → a.length = b.length
  | [], [], _ => rfl
  | [], _ :: _, h => h.elim
  | _ :: _, [], h => h.elim
  | _ :: a, _ :: b, h => by simp [sameRight_length a b h.2.2]

theorem rightK_size : ∀ (frs : List Frame) (adds : List (List Node)) (botR : List Node),
    rbase frs adds + fsize botR ≤ fsize (rightK frs adds botR)
  | [], _, botR => by simp [rbase, rightK]
  | _ :: _, [], botR => by simp [rbase, rightK]
  | fr :: frs, add :: adds, botR => by
    have := rightK_size frs adds botR
    simp only [rbase, rightK, Frame.node, fsize_cons, Node.size_elem, fsize_append]
    omega

theorem rightK_rightRel (S : Schema) : ∀ (tfs tfs' : List Frame) (adds : List (List Node)) (X : List Node)
    (x : Nat) (botR : List Node), sameRight tfs tfs' → tfs.length = adds.length → framesNorm tfs →
    (∀ a ∈ adds, fnormKids a = true) → x ≤ fsize X → splitRight X x = some (.flat botR) →
    RightRel S (plug tfs X) (pbase tfs + x) (rightK tfs' adds botR) (rbase tfs' adds)
  | [], [], adds, X, x, botR, _, _, _, _, _, hs => by
    simp only [plug, pbase, rightK, rbase, Nat.zero_add]
    exact .flat hs (splitRight_zero _)
  | [], _ :: _, _, _, _, _, h, _, _, _, _, _ => h.elim
  | _ :: _, [], _, _, _, _, h, _, _, _, _, _ => h.elim
  | _ :: _, _ :: _, [], _, _, _, _, h, _, _, _, _ => by simp at h
  | tf :: tfs, tf' :: tfs', add :: adds, X, x, botR, hsame, hlen, hn, hadds, hx, hs => by
    simp only [List.length_cons, Nat.add_right_cancel_iff] at hlen
    have ih := rightK_rightRel S tfs tfs' adds X x botR hsame.2.2 hlen hn.2
      (fun a ha => hadds a (by simp [ha])) hx hs
    have h1 := plug_splitRight tf tfs X x hn.1 hx
    have hsz := rightK_size tfs' adds botR
    have h2 : splitRight (rightK (tf' :: tfs') (add :: adds) botR) (rbase (tf' :: tfs') (add :: adds))
        = some (.deep (tf'.node (add ++ rightK tfs' adds botR)) (fsize add + rbase tfs' adds) tf'.post) := by
      simp only [rightK, rbase, Frame.node]
      rw [splitRight_elem _ _ _ _ _ _ (by omega) (by rw [fsize_append]; omega)]
      congr 3
      omega
    have ih' : RightRel S (plug tfs X) (pbase tfs + x) (add ++ rightK tfs' adds botR) (fsize add + rbase tfs' adds) :=
      ih.congr_right (splitRight_append_pre add _ _ (hadds add (by simp))).symm
    simp only [Frame.node] at h1 h2
    rw [hsame.2.1] at h1
    exact .deep h1 h2 (by rw [hsame.1]; exact compatibleContent_self S _) ih'

/-- `from`'s ancestors above the close level are `compatible_content` with the ancestors of the end position -/
def compatFrames (S : Schema) : List Frame → List Frame → Prop
  | ff :: ffs, tf :: tfs => S.compatibleContent tf.ty ff.ty = true ∧ compatFrames S ffs tfs
  | [], [] => True
  | _, _ => False

theorem compatFrames_length (S : Schema) : ∀ (a b : List Frame), compatFrames S a b → a.length = b.length
  | [], [], _ => rfl
  | [], _ :: _, h => h.elim
  | _ :: _, [], h => h.elim
  | _ :: a, _ :: b, h => by simp [compatFrames_length S a b h.2]

theorem joinK_size (ffs tfs : List Frame) (J : List Node) (h : ffs.length = tfs.length) :
    fsize (joinK ffs tfs J) = pbase ffs + fsize J + (postT tfs).length := by
  have := congrArg List.length (joinK_toks ffs tfs J h)
  simp only [ftoks_length, List.length_append, preT_length] at this
  exact this

theorem joinK_rightRel (S : Schema) : ∀ (ffs tfs : List Frame) (X : List Node) (x : Nat) (J : List Node) (j : Nat),
    compatFrames S ffs tfs → framesNorm ffs → framesNorm tfs → x ≤ fsize X → j ≤ fsize J →
    RightRel S X x J j → RightRel S (plug tfs X) (pbase tfs + x) (joinK ffs tfs J) (pbase ffs + j)
  | [], [], X, x, J, j, _, _, _, _, _, h => by simpa [plug, pbase, joinK] using h
  | [], _ :: _, _, _, _, _, h, _, _, _, _, _ => h.elim
  | _ :: _, [], _, _, _, _, h, _, _, _, _, _ => h.elim
  | ff :: ffs, tf :: tfs, X, x, J, j, hc, hnf, hnt, hx, hj, h => by
    have ih := joinK_rightRel S ffs tfs X x J j hc.2 hnf.2 hnt.2 hx hj h
    have h1 := plug_splitRight tf tfs X x hnt.1 hx
    have hsz := joinK_size ffs tfs J (compatFrames_length S _ _ hc.2)
    have h2 : splitRight (joinK (ff :: ffs) (tf :: tfs) J) (pbase (ff :: ffs) + j)
        = some (.deep (ff.node (joinK ffs tfs J)) (pbase ffs + j) tf.post) := by
      simp only [joinK, pbase, Frame.node]
      rw [show fsize ff.pre + 1 + pbase ffs + j = fsize ff.pre + (1 + pbase ffs + j) by omega,
        splitRight_append_pre _ _ _ hnf.1, splitRight_elem _ _ _ _ _ _ (by omega) (by omega)]
      congr 3
      omega
    simp only [Frame.node] at h1 h2
    exact .deep h1 h2 hc.1 ih

end PM
