/-
  Proofs/SchemaDecEq.lean — decidable equality of compiled schemas (`PM.Schema`) and of the outcome of the schema
  constructor's model, so that `buildSchema spec = .ok S` can be decided by kernel evaluation for concrete `spec`, `S`
  (the generated `lean/Gen/SchemaBuilds/*.lean`).
-/
import PM.Basic
import PM.SchemaBuild
namespace PM

deriving instance DecidableEq for NodeType
deriving instance DecidableEq for MarkType
deriving instance DecidableEq for Schema

instance {ε α : Type} [DecidableEq ε] [DecidableEq α] : DecidableEq (Except ε α)
  | .ok a, .ok b => if h : a = b then isTrue (by rw [h]) else isFalse (fun e => h (Except.ok.inj e))
  | .error a, .error b => if h : a = b then isTrue (by rw [h]) else isFalse (fun e => h (Except.error.inj e))
  | .ok _, .error _ => isFalse (fun e => by cases e)
  | .error _, .ok _ => isFalse (fun e => by cases e)

end PM
