/-
  Proofs/RetypeSuccess.lean — "an approved change of type applies" (property C12: `can_change_type` / `set_node_markup`):
  the replace-around step `set_node_markup` emits for a non-leaf node (`retypeStep`, PM/TypePlan.lean: the node's children
  are the gap, the new empty node is the slice) applies when the parent accepts the new type in place of the node (what
  `can_change_type` tests) and the new type accepts the node's children (what `set_node_markup` itself tests).
-/
import Proofs.InsertSuccess
import PM.TypePlan
namespace PM

theorem nodeAtKids_skip : ∀ (pre rest : List Node) (po : Nat), fnormKids pre = true →
    nodeAtKids (pre ++ rest) (fsize pre + po) = nodeAtKids rest po
  | [], rest, po, _ => by simp
  | p :: ps, rest, po, hn => by
    simp only [fnormKids_cons, Bool.and_eq_true] at hn
    have hpos := Node.size_pos_of_norm p hn.1
    rw [List.cons_append]
    conv => lhs; unfold nodeAtKids
    rw [if_neg (by simp only [fsize_cons]; omega), if_pos (by simp only [fsize_cons]; omega)]
    have e : fsize (p :: ps) + po - p.size = fsize ps + po := by simp only [fsize_cons]; omega
    rw [e]
    exact nodeAtKids_skip ps rest po hn.2

/-- `node_at` at the boundary in front of a child of a nested level finds that child -/
theorem nodeAtKids_lvlR {ty tyP : TypeId} {K L : List Node} {b nd : Nat} {ctx : List Node → List Node}
    (h : Lvl ty K b nd tyP L ctx) (pre : List Node) (c : Node) (post : List Node) (hL : L = pre ++ c :: post)
    (hpre : fnormKids pre = true) : nodeAtKids K (b + fsize pre) = .ok (some c) := by
  induction h with
  | here ty K =>
    subst hL
    have := nodeAtKids_skip pre (c :: post) 0 hpre
    rw [Nat.add_zero] at this
    rw [Nat.zero_add, this]
    unfold nodeAtKids
    simp
  | @down tyC tyP kidsC L b nd ctx ty pre0 aC mC ns hp hl ih =>
    have hr := hl.range
    have hsz : fsize pre ≤ fsize L := by rw [hL, fsize_append]; omega
    rw [show fsize pre0 + 1 + b + fsize pre = fsize pre0 + (1 + b + fsize pre) by omega, nodeAtKids_skip _ _ _ hp]
    conv => lhs; unfold nodeAtKids
    rw [if_neg (by omega), if_neg (by simp only [Node.size_elem]; omega)]
    simp only [show 1 + b + fsize pre - 1 = b + fsize pre by omega]
    exact ih hL

/-- `Slice(Fragment(new empty node), 0, 0).insert_at(1, kids)`: the node with the children in place -/
theorem insertAt_single (S : Schema) (ty : TypeId) (a : Attrs) (ms : Marks) (mid : List Node)
    (hv : S.validContent ty mid = true) :
    Slice.insertAt S ⟨[.elem ty a ms []], 0, 0⟩ 1 mid = .ok (some ⟨[.elem ty a ms mid], 0, 0⟩) := by
  have hf := flatInsert_empty S mid (some ty) (fun t ht => by
    simp only [Option.some.injEq] at ht; subst ht; exact hv)
  rw [insertAt_of_le (by simp [Slice.size])]
  simp only [Slice.insertAtIn, Nat.add_zero]
  unfold insertInto
  rw [if_neg (by omega), if_neg (by simp)]
  simp only [Nat.lt_irrefl, decide_false, Bool.false_and, Bool.or_self, Bool.false_eq_true, if_false,
    Nat.sub_self]
  unfold insertInto
  simp [hf]

/-- the tokens around a child of a nested level -/
theorem Lvl.child_toks {ty tyP : TypeId} {K : List Node} {b nd : Nat} {ctx : List Node → List Node}
    {pre post : List Node} {tyN : TypeId} {aN : Attrs} {mN : Marks} {kidsN : List Node}
    (h : Lvl ty K b nd tyP (pre ++ .elem tyN aN mN kidsN :: post) ctx) :
    ∃ A D : List Tok, A.length = b + fsize pre ∧
      ftoks K = A ++ (Tok.op tyN aN mN :: (ftoks kidsN ++ Tok.cl :: D)) := by
  obtain ⟨A, D, hA, hX⟩ := h.toks
  have := hX (pre ++ .elem tyN aN mN kidsN :: post)
  rw [h.ctx_self] at this
  refine ⟨A ++ ftoks pre, ftoks post ++ D, by simp [hA, ftoks_length], ?_⟩
  rw [this]
  simp [ftoks_append, ftoks, Node.toks]

/-- **the retype step applies**: the parent accepts the new type in place of the node (`can_replace_with(i, i + 1, ty)`),
    allows the new node's marks, and the new type accepts the node's children -/
theorem retype_applies (S : Schema) (ty0 : TypeId) (a0 : Attrs) (m0 : Marks) (K : List Node)
    (hv : S.checkNode (.elem ty0 a0 m0 K) = true) (hn : fnorm K = true)
    {b nd : Nat} {tyP : TypeId} {ctx : List Node → List Node} {pre post : List Node}
    (tyN : TypeId) (aN : Attrs) (mN : Marks) (kidsN : List Node)
    (hl : Lvl ty0 K b nd tyP (pre ++ .elem tyN aN mN kidsN :: post) ctx)
    (ty : TypeId) (a : Attrs) (ms : Marks)
    (hcr : S.canReplaceWith tyP (pre ++ .elem tyN aN mN kidsN :: post) pre.length (pre.length + 1) ty [] = some true)
    (hvc : S.validContent ty kidsN = true) (hm : (S.nodeType tyP).allowsMarks ms = true) :
    (Node.elem ty0 a0 m0 K).slice (b + fsize pre + 1) (b + fsize pre + (2 + fsize kidsN) - 1) = .ok ⟨kidsN, 0, 0⟩ ∧
    Slice.insertAt S ⟨[.elem ty a ms []], 0, 0⟩ 1 kidsN = .ok (some ⟨[.elem ty a ms kidsN], 0, 0⟩) ∧
    S.apply (retypeStep (b + fsize pre) (b + fsize pre + (2 + fsize kidsN)) (.elem ty a ms [])) (.elem ty0 a0 m0 K)
      = .ok (.elem ty0 a0 m0 (ctx (pre ++ .elem ty a ms kidsN :: post))) := by
  have hvK : S.validContent ty0 K = true ∧ S.checkKids K = true := by
    simp only [checkNode_elem, Bool.and_eq_true] at hv
    exact ⟨hv.1.1, hv.2⟩
  obtain ⟨hvL, hckL, hnL⟩ := hl.valid hvK.1 hvK.2 hn
  have hnk := fnormKids_of_fnorm hnL
  simp only [fnormKids_append, fnormKids_cons, Bool.and_eq_true, Node.norm_elem] at hnk
  have hnN : fnorm kidsN = true := hnk.2.1
  have hr := hl.range
  simp only [fsize_append, fsize_cons, Node.size_elem] at hr
  -- the two structure checks
  obtain ⟨A, D, hA, htoks⟩ := hl.child_toks
  have hlenK : fsize K = (ftoks K).length := (ftoks_length K).symm
  have hc1 : contentBetween (.elem ty0 a0 m0 K) (b + fsize pre) (b + fsize pre + 1) = some false := by
    apply contentBetween_closesOpens _ _ _ (by simpa [Node.kids] using hn) (by omega)
      (by simp only [Node.kids]; omega)
    simp only [Node.kids, htoks, ← hA, List.drop_left', Nat.add_sub_cancel_left]
    simp [closesOpens]
  have hc2 : contentBetween (.elem ty0 a0 m0 K) (b + fsize pre + (2 + fsize kidsN) - 1)
      (b + fsize pre + (2 + fsize kidsN)) = some false := by
    apply contentBetween_closesOpens _ _ _ (by simpa [Node.kids] using hn) (by omega)
      (by simp only [Node.kids]; omega)
    have e : b + fsize pre + (2 + fsize kidsN) - 1 = A.length + (1 + (ftoks kidsN).length) := by
      rw [hA, ftoks_length]; omega
    have e2 : b + fsize pre + (2 + fsize kidsN) - (A.length + (1 + (ftoks kidsN).length)) = 1 := by
      rw [hA, ftoks_length]; omega
    simp only [Node.kids, htoks]
    rw [e, e2, List.drop_length_add_append, show 1 + (ftoks kidsN).length = (ftoks kidsN).length + 1 by omega,
      List.drop_succ_cons, List.drop_left]
    simp [closesOpens]
  -- the gap: the node's children
  have hl2 := hl.snoc pre tyN aN mN kidsN post rfl hnk.1
  have hl2' : Lvl ty0 K (b + fsize pre + 1) (nd + 1) tyN ([] ++ kidsN ++ [])
      (fun X => ctx (pre ++ .elem tyN aN mN X :: post)) := by simpa using hl2
  have hsl := sliceKids_children hl2' (by simpa using hnN)
  simp only [fsize_nil, Nat.add_zero, Nat.zero_add] at hsl
  have hsl' : (Node.elem ty0 a0 m0 K).slice (b + fsize pre + 1) (b + fsize pre + (2 + fsize kidsN) - 1)
      = .ok ⟨kidsN, 0, 0⟩ := by
    rw [show b + fsize pre + (2 + fsize kidsN) - 1 = b + fsize pre + 1 + fsize kidsN by omega]
    exact hsl
  have hins := insertAt_single S ty a ms kidsN hvc
  -- the replace: the retyped node in place of the node
  have hl3 : Lvl ty0 K b nd tyP (pre ++ [.elem tyN aN mN kidsN] ++ post) ctx := by simpa using hl
  have hnL3 : fnorm (pre ++ [.elem tyN aN mN kidsN] ++ post) = true := by simpa using hnL
  have hwn : (Node.elem ty a ms kidsN).norm = true := by
    rw [Node.norm_elem]; exact hnN
  have hnew := fnorm_replace_run (w := .elem ty a ms kidsN) rfl hwn hnL3
  have hvrun : S.validContent tyP (pre ++ [.elem ty a ms kidsN] ++ post) = true := by
    have := valid_run_replaced S (.elem tyP [] [] (pre ++ [.elem tyN aN mN kidsN] ++ post)) pre [.elem tyN aN mN kidsN]
      post (.elem ty a ms kidsN) ty rfl (by simpa [Schema.tyOf, Node.tyOr, Node.kids] using hvL)
      (by
        simp only [Schema.nodeCanReplaceWith, Node.kids, Schema.tyOf, Node.tyOr, List.length_append,
          List.length_cons, List.length_nil]
        rw [if_neg (by omega)]
        simpa using hcr)
      rfl (by simpa [Schema.tyOf, Node.tyOr, Node.marks] using hm)
    simpa [Schema.tyOf, Node.tyOr] using this
  have hrep := replaceKids_children' (S := S) hl3 [.elem ty a ms kidsN]
    (by simpa [fnorm, fnormKids, chainOk] using hwn) hnL3
    (by rw [fromArray_of_fnorm hnew]; exact hvrun)
  rw [fromArray_of_fnorm hnew] at hrep
  simp only [fsize_cons, fsize_nil, Node.size_elem, Nat.add_zero] at hrep
  refine ⟨hsl', hins, ?_⟩
  simp only [retypeStep, Schema.apply, if_true, hc1, hc2, hsl', hins, Schema.fromReplace, Schema.replace]
  rw [show b + fsize pre + (2 + fsize kidsN) = b + (fsize pre + (2 + fsize kidsN)) by omega, hrep]
  simp [Except.map]

/-- **one whole child replaced by a closed one-node fragment** (the leaf branch of `set_node_markup`:
    `replace_with(pos, pos + node_size, new_node)`): the request fits trivially — `fits_trivially` is the parent's
    `can_replace(i, i + 1, [w])` — and the step applies -/
theorem rechild_applies (S : Schema) (ty0 : TypeId) (a0 : Attrs) (m0 : Marks) (K : List Node)
    (hv : S.checkNode (.elem ty0 a0 m0 K) = true) (hn : fnorm K = true)
    {b nd : Nat} {tyP : TypeId} {ctx : List Node → List Node} {pre post : List Node} (c : Node)
    (hl : Lvl ty0 K b nd tyP (pre ++ c :: post) ctx) (w : Node) (hwt : w.isText = false) (hwn : w.norm = true)
    (hcr : S.canReplaceWith tyP (pre ++ c :: post) pre.length (pre.length + 1) (S.tyOf w) [] = some true)
    (hm : (S.nodeType tyP).allowsMarks w.marks = true) :
    fitsTriviallyO S (.elem ty0 a0 m0 K) (b + fsize pre) (b + fsize pre + c.size) ⟨[w], 0, 0⟩ = some true ∧
    S.apply (.replace (b + fsize pre) (b + fsize pre + c.size) ⟨[w], 0, 0⟩ false) (.elem ty0 a0 m0 K)
      = .ok (.elem ty0 a0 m0 (ctx (pre ++ w :: post))) := by
  have hvK : S.validContent ty0 K = true ∧ S.checkKids K = true := by
    simp only [checkNode_elem, Bool.and_eq_true] at hv
    exact ⟨hv.1.1, hv.2⟩
  obtain ⟨hvL, _, hnL⟩ := hl.valid hvK.1 hvK.2 hn
  have hnk := fnormKids_of_fnorm hnL
  simp only [fnormKids_append, fnormKids_cons, Bool.and_eq_true] at hnk
  constructor
  · -- fits trivially
    obtain ⟨rs, hrs, ks, ts, is_, _, _, ss⟩ := resolve_at_boundary S ty0 a0 m0 hl hnk.1
    have hl2 : Lvl ty0 K b nd tyP ((pre ++ [c]) ++ post) ctx := by simpa using hl
    obtain ⟨re, hre, ke, te, ie, _, _, se⟩ := resolve_at_boundary S ty0 a0 m0 hl2
      (by simp [fnormKids_append, hnk.1, hnk.2.1])
    have e1 : b + fsize (pre ++ [c]) = b + fsize pre + c.size := by simp [fsize_append]; omega
    rw [e1] at hre
    simp only [fitsTriviallyO, hrs, hre, fitsTriviallyR, ss, se, beq_self_eq_true, Bool.and_self, if_true, is_, ie]
    simp only [Schema.nodeCanReplace, ks, ts, List.length_append, List.length_cons, List.length_nil]
    rw [if_neg (by omega)]
    have := canReplace_of_with S tyP (pre ++ c :: post) pre.length (pre.length + 1) w (S.tyOf w) rfl hm hcr
    simpa using this
  · have hl3 : Lvl ty0 K b nd tyP (pre ++ [c] ++ post) ctx := by simpa using hl
    have hnL3 : fnorm (pre ++ [c] ++ post) = true := by simpa using hnL
    have hnew := fnorm_replace_run (w := w) hwt hwn hnL3
    have hvrun : S.validContent tyP (pre ++ [w] ++ post) = true := by
      have := valid_run_replaced S (.elem tyP [] [] (pre ++ [c] ++ post)) pre [c] post w (S.tyOf w) rfl
        (by simpa [Schema.tyOf, Node.tyOr, Node.kids] using hvL)
        (by
          simp only [Schema.nodeCanReplaceWith, Node.kids, Schema.tyOf, Node.tyOr, List.length_append,
            List.length_cons, List.length_nil]
          rw [if_neg (by omega)]
          simpa [Schema.tyOf, Node.tyOr] using hcr)
        rfl (by simpa [Schema.tyOf, Node.tyOr] using hm)
      simpa [Schema.tyOf, Node.tyOr] using this
    have hrep := replaceKids_children' (S := S) hl3 [w]
      (by simpa [fnorm, fnormKids, chainOk] using hwn) hnL3
      (by rw [fromArray_of_fnorm hnew]; exact hvrun)
    rw [fromArray_of_fnorm hnew] at hrep
    simp only [fsize_cons, fsize_nil, Nat.add_zero] at hrep
    simp only [Schema.apply, Bool.false_eq_true, if_false, Schema.fromReplace, Schema.replace]
    rw [show b + fsize pre + c.size = b + (fsize pre + c.size) by omega, hrep]
    simp [Except.map]

end PM
